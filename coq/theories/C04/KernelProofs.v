(* C04/KernelProofs.v — the decoder loop writes, into every present output, exactly the field of every input row, touches
   nothing else, and never stores out of range when the output has at least as many rows as the input; hence the
   wrappers' results do not depend on which other outputs are requested nor on who allocated the array. *)
From Coq Require Import ZArith QArith List Bool Lia.
From Abacus.Common Require Import Arr.
From Abacus.C04 Require Import Gen Model.
Import ListNotations.
Local Open Scope Z_scope.

(* pointwise transformation of the present outputs *)
Fixpoint zipw {A} (g : (A -> cell) -> buffer -> buffer) (fs : list (A -> cell)) (outs : list (option buffer))
  : list (option buffer) :=
  match fs, outs with
  | f :: fs', o :: outs' => option_map (g f) o :: zipw g fs' outs'
  | _, _ => []
  end.

(* rows [i, i + |rows|) of b replaced by the decoded rows *)
Definition filled {A} (rows : list A) (i : nat) (f : A -> cell) (b : buffer) : buffer :=
  firstn i b ++ map f rows ++ skipn (i + length rows) b.

Lemma zipw_length {A} g (fs : list (A -> cell)) outs : length fs = length outs -> length (zipw g fs outs) = length outs.
Proof.
  revert outs; induction fs as [|f fs IH]; intros [|o outs] H; cbn in *; try reflexivity; try discriminate.
  f_equal. apply IH. lia.
Qed.

Lemma zipw_ext {A} (P : buffer -> Prop) g g' (fs : list (A -> cell)) outs :
  (forall f b, P b -> g f b = g' f b) ->
  (forall b, In (Some b) outs -> P b) ->
  zipw g fs outs = zipw g' fs outs.
Proof.
  intros Hg. revert outs; induction fs as [|f fs IH]; intros [|o outs] HP; cbn; try reflexivity.
  f_equal.
  - destruct o as [b|]; cbn; [|reflexivity]. f_equal. apply Hg. apply HP. left; reflexivity.
  - apply IH. intros b Hb. apply HP. right; exact Hb.
Qed.

Lemma zipw_comp {A} g1 g2 (fs : list (A -> cell)) outs :
  zipw g2 fs (zipw g1 fs outs) = zipw (fun f b => g2 f (g1 f b)) fs outs.
Proof.
  revert outs; induction fs as [|f fs IH]; intros [|o outs]; cbn; try reflexivity.
  f_equal; [destruct o; reflexivity|apply IH].
Qed.

Lemma zipw_in {A} (P Q : buffer -> Prop) g (fs : list (A -> cell)) outs :
  (forall f b, P b -> Q (g f b)) ->
  (forall b, In (Some b) outs -> P b) ->
  forall b, In (Some b) (zipw g fs outs) -> Q b.
Proof.
  intros Hg. revert outs; induction fs as [|f fs IH]; intros [|o outs] HP b Hb; cbn in Hb; try contradiction.
  destruct Hb as [Hb|Hb].
  - destruct o as [b0|]; cbn in Hb; [|discriminate]. inversion Hb; subst. apply Hg. apply HP. left; reflexivity.
  - apply (IH outs); [|exact Hb]. intros b' Hb'. apply HP. right; exact Hb'.
Qed.

Lemma stores_ok {A} (fs : list (A -> cell)) w i outs :
  length fs = length outs ->
  (forall b, In (Some b) outs -> (i < length b)%nat) ->
  stores fs w (Z.of_nat i) outs = Ok (zipw (fun f b => set_nth b i (f w)) fs outs).
Proof.
  revert outs; induction fs as [|f fs IH]; intros [|o outs] Hlen Hb; cbn in Hlen; try discriminate; [reflexivity|].
  cbn [stores zipw].
  assert (Ho : store_opt o (Z.of_nat i) (f w) = Ok (option_map (fun b => set_nth b i (f w)) o)).
  { destruct o as [b|]; cbn [store_opt option_map]; [|reflexivity].
    rewrite set_ok; [cbn [bind]; rewrite Nat2Z.id; reflexivity|].
    specialize (Hb b (or_introl eq_refl)). unfold len. lia. }
  rewrite Ho. cbn [bind]. rewrite IH; [reflexivity|lia|].
  intros b Hin. apply Hb. right; exact Hin.
Qed.

Lemma firstn_set_nth_succ {T} (b : list T) i v :
  (i < length b)%nat -> firstn (S i) (set_nth b i v) = firstn i b ++ [v].
Proof.
  revert i; induction b as [|h t IH]; intros i Hi; cbn in Hi; [lia|].
  destruct i as [|i]; [reflexivity|]. cbn [set_nth]. rewrite !firstn_cons. cbn [app]. f_equal. apply IH. lia.
Qed.

Lemma skipn_set_nth_above {T} (b : list T) i j v :
  (i < j)%nat -> skipn j (set_nth b i v) = skipn j b.
Proof.
  revert i j; induction b as [|h t IH]; intros i j Hij; [destruct j; reflexivity|].
  destruct j as [|j]; [lia|]. destruct i as [|i]; cbn [set_nth skipn]; [reflexivity|]. apply IH. lia.
Qed.

Lemma filled_step {A} (f : A -> cell) w t i b :
  (i < length b)%nat -> filled t (S i) f (set_nth b i (f w)) = filled (w :: t) i f b.
Proof.
  intros Hi. unfold filled. rewrite firstn_set_nth_succ by exact Hi.
  rewrite skipn_set_nth_above by lia. cbn [map length]. rewrite <- app_assoc. cbn [app].
  replace (S i + length t)%nat with (i + S (length t))%nat by lia. reflexivity.
Qed.

Lemma kloop_ok {A} (fs : list (A -> cell)) rows : forall i outs,
  length fs = length outs ->
  (forall b, In (Some b) outs -> (i + length rows <= length b)%nat) ->
  kloop fs rows (Z.of_nat i) outs = Ok (zipw (filled rows i) fs outs).
Proof.
  induction rows as [|w t IH]; intros i outs Hlen Hb.
  - cbn [kloop]. f_equal. clear Hb. revert outs Hlen.
    induction fs as [|f fs IHf]; intros [|o outs] Hlen; cbn in Hlen; try discriminate; [reflexivity|].
    cbn [zipw]. f_equal; [|apply IHf; lia].
    destruct o as [b|]; cbn [option_map]; [|reflexivity]. f_equal. unfold filled. cbn [map length app].
    rewrite Nat.add_0_r. symmetry. apply firstn_skipn.
  - cbn [kloop]. cbn [length] in Hb.
    rewrite stores_ok; [|exact Hlen|intros b Hin; specialize (Hb b Hin); lia].
    cbn [bind]. replace (Z.of_nat i + 1) with (Z.of_nat (S i)) by lia.
    rewrite IH.
    + f_equal. rewrite zipw_comp.
      apply (zipw_ext (fun b => (i < length b)%nat)).
      * intros f b Hi. apply filled_step. exact Hi.
      * intros b Hin. specialize (Hb b Hin). lia.
    + rewrite zipw_length by exact Hlen. exact Hlen.
    + apply (zipw_in (fun b => (i + S (length t) <= length b)%nat)).
      * intros f b Hi. rewrite set_nth_length. lia.
      * exact Hb.
Qed.

Lemma filled_whole {A} (f : A -> cell) rows b :
  filled rows 0 f b = map f rows ++ skipn (length rows) b.
Proof. reflexivity. Qed.

(* ---- RVint wrapper ---------------------------------------------------------------------------- *)
Definition sel_fits (n : nat) (s : osel) : Prop :=
  match s with SelGiven b => (n <= length b)%nat | _ => True end.

(* what the caller observes for one output: the returned value and the final content of the array *)
Definition spec_buf {A} (f : A -> cell) (rows : list A) (s : osel) : option buffer :=
  match s with
  | SelAlloc => Some (map f rows)
  | SelSkip => None
  | SelGiven b => Some (map f rows ++ skipn (length rows) b)
  end.

Definition spec_ret {A} (f : A -> cell) (rows : list A) (s : osel) : oret :=
  match s with
  | SelAlloc => RetArr (map f rows)
  | SelSkip => RetCount 0
  | SelGiven _ => RetCount (len rows)
  end.

Lemma sel_buf_fits n s b : sel_fits n s -> sel_buf (Z.of_nat n) s = Some b -> (n <= length b)%nat.
Proof.
  destruct s as [| |b0]; cbn; intros Hf Hs; inversion Hs; subst.
  - rewrite Nat2Z.id, repeat_length. lia.
  - exact Hf.
Qed.

Lemma skipn_all' {T} (l : list T) n : (length l <= n)%nat -> skipn n l = [].
Proof. intros H. apply skipn_all2. exact H. Qed.

Lemma filled_sel {A} (f : A -> cell) rows s :
  option_map (filled rows 0 f) (sel_buf (len rows) s) = spec_buf f rows s.
Proof.
  destruct s as [| |b]; cbn [sel_buf option_map spec_buf]; [|reflexivity|reflexivity].
  f_equal. rewrite filled_whole. unfold len. rewrite Nat2Z.id.
  rewrite skipn_all' by (rewrite repeat_length; lia). apply app_nil_r.
Qed.

Lemma unpack_rvint_lemma : forall intdata box ps vs,
  sel_fits (length intdata) ps -> sel_fits (length intdata) vs ->
  unpack_rvint intdata box ps vs =
    Ok (spec_ret (rv_pos_row box) intdata ps, spec_ret (rv_vel_row box) intdata vs,
        spec_buf (rv_pos_row box) intdata ps, spec_buf (rv_vel_row box) intdata vs).
Proof.
  intros intdata box ps vs Hp Hv. unfold unpack_rvint, rv_kernel.
  change 0 with (Z.of_nat 0).
  rewrite kloop_ok.
  - cbn [zipw bind]. rewrite !filled_sel.
    destruct ps, vs; reflexivity.
  - reflexivity.
  - intros b [Hb|[Hb|[]]]; cbn [Nat.add]; unfold len in Hb;
      [apply (sel_buf_fits _ ps b Hp Hb)|apply (sel_buf_fits _ vs b Hv Hb)].
Qed.

(* ---- PID wrapper ------------------------------------------------------------------------------ *)
Definition pid_fields (box : Q) (ppd : Z) : list (Z -> cell) :=
  [lagr_idx_row; lagr_pos_row box ppd; tagged_row; density_row; pid_row].

Definition spec_col (packed : list Z) (f : Z -> cell) (want : bool) : option buffer :=
  if want then Some (map f packed) else None.

Lemma filled_alloc (f : Z -> cell) packed want :
  option_map (filled packed 0 f) (alloc_if (len packed) want) = spec_col packed f want.
Proof.
  destruct want; cbn [alloc_if option_map spec_col]; [|reflexivity].
  f_equal. rewrite filled_whole. unfold len. rewrite Nat2Z.id.
  rewrite skipn_all' by (rewrite repeat_length; lia). apply app_nil_r.
Qed.

Lemma unpack_pids_lemma : forall packed box ppd f,
  (want_lagr_pos f = true -> box <> None /\ ppd <> None) ->
  unpack_pids packed box ppd f =
    Ok (map (fun '(g, w) => spec_col packed g w)
            (combine (pid_fields (default 1%Q box) (default 1 ppd)) (flags_list f))).
Proof.
  intros packed box ppd f Hlp. unfold unpack_pids.
  assert (E1 : want_lagr_pos f && is_none box = false).
  { destruct (want_lagr_pos f); [|reflexivity]. destruct (Hlp eq_refl) as [Hb _]. destruct box; [reflexivity|congruence]. }
  assert (E2 : want_lagr_pos f && is_none ppd = false).
  { destruct (want_lagr_pos f); [|reflexivity]. destruct (Hlp eq_refl) as [_ Hb]. destruct ppd; [reflexivity|congruence]. }
  rewrite E1, E2. unfold pid_kernel. change 0 with (Z.of_nat 0).
  rewrite kloop_ok.
  - f_equal. unfold flags_list, pid_fields. cbn [map zipw combine]. rewrite !filled_alloc. reflexivity.
  - reflexivity.
  - intros b Hin. unfold flags_list in Hin. cbn [map] in Hin. cbn [Nat.add].
    assert (Hall : forall w, alloc_if (len packed) w = Some b -> (length packed <= length b)%nat).
    { intros w Hw. destruct w; cbn in Hw; inversion Hw; subst. unfold len. rewrite Nat2Z.id, repeat_length. lia. }
    destruct Hin as [H|[H|[H|[H|[H|[]]]]]]; eapply Hall; eauto.
Qed.

Lemma unpack_pids_rejects_lemma : forall packed box ppd f,
  want_lagr_pos f = true -> box = None \/ ppd = None ->
  unpack_pids packed box ppd f = Raise ValueError.
Proof.
  intros packed box ppd f Hw H. unfold unpack_pids. rewrite Hw. cbn [andb].
  destruct box as [b|]; cbn [is_none]; [|reflexivity].
  destruct ppd as [p|]; cbn [is_none]; [|reflexivity]. destruct H; discriminate.
Qed.
