(* C04/Model.v — executable model of the decoder loops and of the Python wrappers of abacusnbody/data/bitpacked.py.

   The per-field expressions are NOT written here: they are the definitions of Gen.v, regenerated from the source.
   Hand-written (tied to the code by the correspondence run only) are
     - the loop  for i in range(N): if out_k is not None: out_k[i] = f_k(input[i])   (checked stores: an output array
       shorter than the input gives Oob), generic in the list of outputs;
     - unpack_rvint's output selection (None = allocate / False = skip / array = fill the caller's array, return N);
     - unpack_pids' argument checks, defaults (ppd = 1, box = 1) and allocation per requested flag.
   No proofs in this file. *)
From Coq Require Import ZArith QArith List Bool.
From Abacus.Common Require Import Arr.
From Abacus.C04 Require Import Gen.
Import ListNotations.
Local Open Scope Z_scope.
Local Open Scope res_scope.

(* one row of an output array *)
Inductive cell :=
| CZ (z : Z)
| CQ (q : Q)
| CZ3 (a b c : Z)
| CQ3 (a b c : Q).

Definition buffer := list cell.

(* ---- the generic decoder loop ----------------------------------------------------------------- *)
Section Kernel.
  Context {A : Type}.

  Definition store_opt (o : option buffer) (i : Z) (v : cell) : res (option buffer) :=
    match o with
    | None => Ok None
    | Some b => b' <- set b i v ;; Ok (Some b')
    end.

  (* the body of one iteration: every present output receives its field of the current input row *)
  Fixpoint stores (fs : list (A -> cell)) (w : A) (i : Z) (outs : list (option buffer)) : res (list (option buffer)) :=
    match fs, outs with
    | f :: fs', o :: outs' =>
        o' <- store_opt o i (f w) ;;
        r <- stores fs' w i outs' ;;
        Ok (o' :: r)
    | _, _ => Ok []
    end.

  (* for i in range(len(rows)) — the read rows[i] is in range by construction of the loop *)
  Fixpoint kloop (fs : list (A -> cell)) (rows : list A) (i : Z) (outs : list (option buffer)) : res (list (option buffer)) :=
    match rows with
    | [] => Ok outs
    | w :: t => outs' <- stores fs w i outs ;; kloop fs t (i + 1) outs'
    end.
End Kernel.

(* ---- RVint ------------------------------------------------------------------------------------ *)
Definition word3 := (Z * Z * Z)%type.

Definition rv_pos_row (box : Q) (w : word3) : cell :=
  let '(w0, w1, w2) := w in CQ3 (rv_pos_0 box w0 w1 w2) (rv_pos_1 box w0 w1 w2) (rv_pos_2 box w0 w1 w2).
Definition rv_vel_row (box : Q) (w : word3) : cell :=
  let '(w0, w1, w2) := w in CQ3 (rv_vel_0 box w0 w1 w2) (rv_vel_1 box w0 w1 w2) (rv_vel_2 box w0 w1 w2).

(* _unpack_rvint(intdata, boxsize, posout, velout) *)
Definition rv_kernel (intdata : list word3) (box : Q) (posout velout : option buffer) : res (list (option buffer)) :=
  kloop [rv_pos_row box; rv_vel_row box] intdata 0 [posout; velout].

Inductive osel :=
| SelAlloc                    (* None: the wrapper allocates N rows and returns the array *)
| SelSkip                     (* False: not unpacked, 0 is returned *)
| SelGiven (buf : buffer).    (* the caller's array: filled in place, N is returned *)

Inductive oret :=
| RetArr (a : buffer)
| RetCount (n : Z).

Definition uninit : cell := CZ 0.   (* np.empty: content irrelevant (Properties.unpack_rvint_selection) *)

Definition sel_buf (n : Z) (s : osel) : option buffer :=
  match s with
  | SelAlloc => Some (repeat uninit (Z.to_nat n))
  | SelSkip => None
  | SelGiven b => Some b
  end.

Definition sel_ret (n : Z) (s : osel) (o : option buffer) : oret :=
  match s, o with
  | SelAlloc, Some b => RetArr b
  | SelAlloc, None => RetCount 0
  | SelSkip, _ => RetCount 0
  | SelGiven _, _ => RetCount n
  end.

(* unpack_rvint(intdata, boxsize, float_dtype, posout, velout): the returned pair and the final state of the
   (allocated or supplied) output arrays *)
Definition unpack_rvint (intdata : list word3) (box : Q) (ps vs : osel)
  : res (oret * oret * option buffer * option buffer) :=
  let n := len intdata in
  outs <- rv_kernel intdata box (sel_buf n ps) (sel_buf n vs) ;;
  match outs with
  | [po; vo] => Ok (sel_ret n ps po, sel_ret n vs vo, po, vo)
  | _ => Raise OtherError
  end.

(* ---- aux / PID -------------------------------------------------------------------------------- *)
Definition lagr_idx_row (a : Z) : cell := CZ3 (aux_lagr_idx_0 a) (aux_lagr_idx_1 a) (aux_lagr_idx_2 a).
Definition lagr_pos_row (box : Q) (ppd : Z) (a : Z) : cell :=
  CQ3 (aux_lagr_pos_0 box ppd a) (aux_lagr_pos_1 box ppd a) (aux_lagr_pos_2 box ppd a).
Definition tagged_row (a : Z) : cell := CZ (aux_tagged a).
Definition density_row (a : Z) : cell := CZ (aux_density a).
Definition pid_row (a : Z) : cell := CZ (aux_pid a).

(* _unpack_pids(packed, box, ppd, pid, lagr_pos, tagged, density, lagr_idx); outputs listed in the order of the loop body:
   lagr_idx, lagr_pos, tagged, density, pid *)
Definition pid_kernel (packed : list Z) (box : Q) (ppd : Z) (outs : list (option buffer)) : res (list (option buffer)) :=
  kloop [lagr_idx_row; lagr_pos_row box ppd; tagged_row; density_row; pid_row] packed 0 outs.

Record pflags := mkflags {
  want_lagr_idx : bool; want_lagr_pos : bool; want_tagged : bool; want_density : bool; want_pid : bool }.

Definition flags_list (f : pflags) : list bool :=
  [want_lagr_idx f; want_lagr_pos f; want_tagged f; want_density f; want_pid f].

Definition alloc_if (n : Z) (b : bool) : option buffer :=
  if b then Some (repeat uninit (Z.to_nat n)) else None.

Definition is_none {T} (o : option T) : bool := match o with None => true | Some _ => false end.
Definition default {T} (d : T) (o : option T) : T := match o with None => d | Some x => x end.

(* unpack_pids(packed, box, ppd, pid, lagr_pos, tagged, density, lagr_idx, float_dtype) for an integral ppd *)
Definition unpack_pids (packed : list Z) (box : option Q) (ppd : option Z) (f : pflags) : res (list (option buffer)) :=
  if want_lagr_pos f && is_none box then Raise ValueError
  else if want_lagr_pos f && is_none ppd then Raise ValueError
  else
    let n := len packed in
    pid_kernel packed (default 1%Q box) (default 1 ppd) (map (alloc_if n) (flags_list f)).
