(* C04/Run.v — executable glue for the correspondence run (no theorem depends on it).

   Float outputs of the implementation are compared as the integer quantum they encode: the harness inverts the float
   ((value - offset) / quantum, exact rational arithmetic, residual bounded) and the model value is inverted the same
   way here, with the DOCUMENTED quantum and offset of Spec.v (not the generated scales); rows of a supplied array beyond
   the input length are compared exactly. *)
From Coq Require Import ZArith QArith List Bool.
From Abacus.Common Require Import Arr Num Corr.
From Abacus.C04 Require Import Spec Gen Model.
Import ListNotations.
Local Open Scope Z_scope.

Definition qz (off q v : Q) : val := VZ (round_half_even ((v - off) / q)).

Definition quanta_row (off q : Q) (c : cell) : list val :=
  match c with
  | CZ z => [VZ z]
  | CQ x => [qz off q x]
  | CZ3 a b c => [VZ a; VZ b; VZ c]
  | CQ3 a b c => [qz off q a; qz off q b; qz off q c]
  end.

Definition exact_row (c : cell) : list val :=
  match c with
  | CZ z => [VZ z]
  | CQ x => [VQ x]
  | CZ3 a b c => [VZ a; VZ b; VZ c]
  | CQ3 a b c => [VQ a; VQ b; VQ c]
  end.

Definition vbuf (off q : Q) (n : nat) (o : option buffer) : val :=
  match o with
  | None => VNone
  | Some b => VL [VL (flat_map (quanta_row off q) (firstn n b)); VL (flat_map exact_row (skipn n b))]
  end.

Definition vret (off q : Q) (r : oret) : val :=
  match r with
  | RetCount n => VZ n
  | RetArr b => VL (flat_map (quanta_row off q) b)
  end.

(* selection code: 0 = None (allocate), 1 = False (skip), 2 = supplied array of N + extra rows filled with `sent` *)
Definition mksel (code : Z) (n : nat) (extra : Z) (sent : Q) : osel :=
  if code =? 0 then SelAlloc
  else if code =? 1 then SelSkip
  else SelGiven (repeat (CQ3 sent sent sent) (n + Z.to_nat extra)).

Definition rv_case := (Q * list word3 * Z * Z * Z * Q)%type.

Definition run_rv (c : rv_case) : val :=
  let '(box, words, pc, vc, extra, sent) := c in
  let n := length words in
  vres (fun '(rp, rv, bp, bv) =>
          VL [vret 0 (pos_quantum box) rp; vret 0 vel_quantum rv;
              vbuf 0 (pos_quantum box) n bp; vbuf 0 vel_quantum n bv])
       (unpack_rvint words box (mksel pc n extra sent) (mksel vc n extra sent)).

(* the property on the model: every requested output is the documented decoding (used by the failing-input search) *)
Definition holds_rv (c : rv_case) : bool :=
  let '(box, words, pc, vc, extra, sent) := c in
  let n := length words in
  let ps := flat_map (fun '(w0, w1, w2) => [VZ (w0 / 4096); VZ (w1 / 4096); VZ (w2 / 4096)]) words in
  let vs := flat_map (fun '(w0, w1, w2) => [VZ (w0 mod 4096 - 2048); VZ (w1 mod 4096 - 2048); VZ (w2 mod 4096 - 2048)]) words in
  let tail := VL (flat_map exact_row (repeat (CQ3 sent sent sent) (Z.to_nat extra))) in
  let exp code l := if code =? 0 then (VL l, VL [VL l; VL []])
                    else if code =? 1 then (VZ 0, VNone) else (VZ (Z.of_nat n), VL [VL l; tail]) in
  val_eqb (run_rv c) (VL [fst (exp pc ps); fst (exp vc vs); snd (exp pc ps); snd (exp vc vs)]).

(* flags in the order lagr_idx, lagr_pos, tagged, density, pid *)
Definition pid_case := (list Z * option Q * option Z * list bool)%type.

Definition flags_of (l : list bool) : pflags :=
  mkflags (nth 0 l false) (nth 1 l false) (nth 2 l false) (nth 3 l false) (nth 4 l false).

Definition run_pid (c : pid_case) : val :=
  let '(packed, box, ppd, fl) := c in
  let b := default 1%Q box in
  let p := default 1 ppd in
  vres (fun outs => VL (map (fun o => match o with
                                      | None => VNone
                                      | Some buf => VL (flat_map (quanta_row (- (b / (2 # 1))) (b / inject_Z p)) buf)
                                      end) outs))
       (unpack_pids packed box ppd (flags_of fl)).

Definition holds_pid (c : pid_case) : bool :=
  let '(packed, box, ppd, fl) := c in
  let f := flags_of fl in
  if want_lagr_pos f && (is_none box || is_none ppd) then val_eqb (run_pid c) (VRaise ValueError)
  else
    let fx a := field a 0 15 in let fy a := field a 16 15 in let fz a := field a 32 15 in
    let col (w : bool) (g : Z -> list val) := if w then VL (flat_map g packed) else VNone in
    val_eqb (run_pid c)
      (VL [col (want_lagr_idx f) (fun a => [VZ (fx a); VZ (fy a); VZ (fz a)]);
           col (want_lagr_pos f) (fun a => [VZ (fx a); VZ (fy a); VZ (fz a)]);
           col (want_tagged f) (fun a => [VZ (field a 48 1)]);
           col (want_density f) (fun a => [VZ (field a 49 10 ^ 2)]);
           col (want_pid f) (fun a => [VZ (spec_pid (fx a) (fy a) (fz a))])]).
