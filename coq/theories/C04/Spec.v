(* C04/Spec.v — the documented RVint and aux (PID) layouts, written independently of the code.

   RVint word (int32):   upper 20 bits = signed position index p  (position = p * BoxSize / 10^6),
                         lower 12 bits = biased velocity index v + 2048  (velocity = v * 6000/2048 km/s).
   Aux word (uint64):    bits  0-14  Lagrangian index x     bit 15  other
                         bits 16-30  Lagrangian index y     bit 31  other
                         bits 32-46  Lagrangian index z     bit 47  other
                         bit  48     tagged
                         bits 49-58  density code d (density = d^2)
                         bits 59-63  other
                         particle id = the word with every bit outside the three index fields cleared. *)
From Coq Require Import ZArith QArith Bool.
Local Open Scope Z_scope.

Definition int32 (w : Z) : Prop := - 2 ^ 31 <= w < 2 ^ 31.
Definition uint64 (a : Z) : Prop := 0 <= a < 2 ^ 64.

(* ---- RVint ------------------------------------------------------------------------------------ *)
Definition pos_index_range (p : Z) : Prop := - 2 ^ 19 <= p < 2 ^ 19.
Definition vel_index_range (v : Z) : Prop := - 2048 <= v < 2048.

Definition enc_rvint (p v : Z) : Z := 4096 * p + (v + 2048).

Definition pos_quantum (box : Q) : Q := (box / (1000000 # 1))%Q.
Definition vel_quantum : Q := ((6000 # 1) / (2048 # 1))%Q.

Definition spec_pos (box : Q) (w : Z) : Q := (inject_Z (w / 4096) * pos_quantum box)%Q.
Definition spec_vel (w : Z) : Q := (inject_Z (w mod 4096 - 2048) * vel_quantum)%Q.

(* ---- aux -------------------------------------------------------------------------------------- *)
(* the n-bit field starting at bit k *)
Definition field (a k n : Z) : Z := (a / 2 ^ k) mod 2 ^ n.

Definition pack_aux (x y z t d o15 o31 o47 o59 : Z) : Z :=
  x + 2 ^ 15 * o15 + 2 ^ 16 * y + 2 ^ 31 * o31 + 2 ^ 32 * z + 2 ^ 47 * o47 + 2 ^ 48 * t + 2 ^ 49 * d + 2 ^ 59 * o59.

Record aux_fields_ok (x y z t d o15 o31 o47 o59 : Z) : Prop := {
  ok_x : 0 <= x < 2 ^ 15;  ok_y : 0 <= y < 2 ^ 15;  ok_z : 0 <= z < 2 ^ 15;
  ok_t : 0 <= t < 2;  ok_d : 0 <= d < 2 ^ 10;
  ok_o15 : 0 <= o15 < 2;  ok_o31 : 0 <= o31 < 2;  ok_o47 : 0 <= o47 < 2;  ok_o59 : 0 <= o59 < 2 ^ 5 }.

Definition id_bit (i : Z) : bool :=
  ((0 <=? i) && (i <? 15)) || ((16 <=? i) && (i <? 31)) || ((32 <=? i) && (i <? 47)).

Definition spec_pid (x y z : Z) : Z := x + 2 ^ 16 * y + 2 ^ 32 * z.

Definition spec_lagr_pos (box : Q) (ppd : Z) (idx : Z) : Q :=
  (inject_Z idx * (box / inject_Z ppd) - box / (2 # 1))%Q.
