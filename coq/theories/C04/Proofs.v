(* C04/Proofs.v — the bit-field lemmas about the GENERATED definitions of Gen.v (regenerated from bitpacked.py). *)
From Coq Require Import ZArith QArith Qround Bool Lia Lqa ZifyBool.
From Abacus.Common Require Import Arr Num.
From Abacus.C04 Require Import Lib Spec Gen.
Local Open Scope Z_scope.

Ltac Zify.zify_post_hook ::= Z.to_euclidean_division_equations.

(* ---- the generated constants are the documented masks (closed terms: checked by computation) ---- *)
Lemma vmask_is : rv_vmask = Z.ones 12.                       Proof. reflexivity. Qed.
Lemma auxx_is : AUXXPID = Z.ones 15 * 2 ^ 0.                  Proof. reflexivity. Qed.
Lemma auxy_is : AUXYPID = Z.ones 15 * 2 ^ 16.                 Proof. reflexivity. Qed.
Lemma auxz_is : AUXZPID = Z.ones 15 * 2 ^ 32.                 Proof. reflexivity. Qed.
Lemma auxdens_is : AUXDENS = Z.ones 10 * 2 ^ 49.              Proof. reflexivity. Qed.
Lemma zeroden_is : ZERODEN = 49.                              Proof. reflexivity. Qed.
Lemma auxtagged_is : AUXTAGGED = 48.                          Proof. reflexivity. Qed.
Lemma auxpid_is :
  AUXPID = Z.lor (Z.lor (Z.ones 15 * 2 ^ 0) (Z.ones 15 * 2 ^ 16)) (Z.ones 15 * 2 ^ 32).
Proof. reflexivity. Qed.

Lemma field_bfield a k n : field a k n = bfield a k n.
Proof. reflexivity. Qed.

(* ---- RVint ------------------------------------------------------------------------------------ *)
Lemma shiftr12 w : Z.shiftr w 12 = w / 4096.
Proof. rewrite Z.shiftr_div_pow2 by lia. reflexivity. Qed.

Lemma land_vmask w : Z.land w rv_vmask = w mod 4096.
Proof. rewrite vmask_is, Z.land_ones by lia. reflexivity. Qed.

Lemma rv_pos_0_spec box w0 w1 w2 : (rv_pos_0 box w0 w1 w2 == spec_pos box w0)%Q.
Proof. unfold rv_pos_0, spec_pos, rv_posscale, pos_quantum. rewrite shiftr12. reflexivity. Qed.
Lemma rv_pos_1_spec box w0 w1 w2 : (rv_pos_1 box w0 w1 w2 == spec_pos box w1)%Q.
Proof. unfold rv_pos_1, spec_pos, rv_posscale, pos_quantum. rewrite shiftr12. reflexivity. Qed.
Lemma rv_pos_2_spec box w0 w1 w2 : (rv_pos_2 box w0 w1 w2 == spec_pos box w2)%Q.
Proof. unfold rv_pos_2, spec_pos, rv_posscale, pos_quantum. rewrite shiftr12. reflexivity. Qed.

Lemma rv_vel_0_spec box w0 w1 w2 : (rv_vel_0 box w0 w1 w2 == spec_vel w0)%Q.
Proof. unfold rv_vel_0, spec_vel, rv_velscale, vel_quantum. rewrite land_vmask. reflexivity. Qed.
Lemma rv_vel_1_spec box w0 w1 w2 : (rv_vel_1 box w0 w1 w2 == spec_vel w1)%Q.
Proof. unfold rv_vel_1, spec_vel, rv_velscale, vel_quantum. rewrite land_vmask. reflexivity. Qed.
Lemma rv_vel_2_spec box w0 w1 w2 : (rv_vel_2 box w0 w1 w2 == spec_vel w2)%Q.
Proof. unfold rv_vel_2, spec_vel, rv_velscale, vel_quantum. rewrite land_vmask. reflexivity. Qed.

Lemma rvint_fields_lemma : forall box w0 w1 w2,
  (rv_pos_0 box w0 w1 w2 == spec_pos box w0)%Q /\ (rv_pos_1 box w0 w1 w2 == spec_pos box w1)%Q /\
  (rv_pos_2 box w0 w1 w2 == spec_pos box w2)%Q /\
  (rv_vel_0 box w0 w1 w2 == spec_vel w0)%Q /\ (rv_vel_1 box w0 w1 w2 == spec_vel w1)%Q /\
  (rv_vel_2 box w0 w1 w2 == spec_vel w2)%Q.
Proof.
  intros. repeat split;
    [apply rv_pos_0_spec|apply rv_pos_1_spec|apply rv_pos_2_spec|apply rv_vel_0_spec|apply rv_vel_1_spec|apply rv_vel_2_spec].
Qed.

Lemma rvint_index_ranges_lemma : forall w, int32 w ->
  pos_index_range (w / 4096) /\ vel_index_range (w mod 4096 - 2048).
Proof. unfold int32, pos_index_range, vel_index_range. intros w H. change (2 ^ 31) with 2147483648 in H.
  change (2 ^ 19) with 524288. lia. Qed.

Lemma enc_rvint_decode_lemma : forall p v, pos_index_range p -> vel_index_range v ->
  int32 (enc_rvint p v) /\ enc_rvint p v / 4096 = p /\ enc_rvint p v mod 4096 - 2048 = v.
Proof.
  unfold int32, pos_index_range, vel_index_range, enc_rvint. intros p v Hp Hv.
  change (2 ^ 31) with 2147483648. change (2 ^ 19) with 524288 in Hp. lia.
Qed.

(* every int32 word is the encoding of exactly one (p, v) *)
Lemma enc_rvint_surjective_lemma : forall w, int32 w ->
  w = enc_rvint (w / 4096) (w mod 4096 - 2048).
Proof. unfold enc_rvint. intros w _. lia. Qed.

Lemma rvint_roundtrip_lemma : forall box p v p1 v1 p2 v2,
  pos_index_range p -> vel_index_range v -> pos_index_range p1 -> vel_index_range v1 ->
  pos_index_range p2 -> vel_index_range v2 ->
  let w0 := enc_rvint p v in let w1 := enc_rvint p1 v1 in let w2 := enc_rvint p2 v2 in
  int32 w0 /\
  (rv_pos_0 box w0 w1 w2 == inject_Z p * pos_quantum box)%Q /\ (rv_vel_0 box w0 w1 w2 == inject_Z v * vel_quantum)%Q /\
  (rv_pos_1 box w0 w1 w2 == inject_Z p1 * pos_quantum box)%Q /\ (rv_vel_1 box w0 w1 w2 == inject_Z v1 * vel_quantum)%Q /\
  (rv_pos_2 box w0 w1 w2 == inject_Z p2 * pos_quantum box)%Q /\ (rv_vel_2 box w0 w1 w2 == inject_Z v2 * vel_quantum)%Q.
Proof.
  intros box p v p1 v1 p2 v2 Hp Hv Hp1 Hv1 Hp2 Hv2 w0 w1 w2.
  destruct (enc_rvint_decode_lemma p v Hp Hv) as [Hi [Hd Hm]].
  destruct (enc_rvint_decode_lemma p1 v1 Hp1 Hv1) as [_ [Hd1 Hm1]].
  destruct (enc_rvint_decode_lemma p2 v2 Hp2 Hv2) as [_ [Hd2 Hm2]].
  split; [exact Hi|].
  rewrite rv_pos_0_spec, rv_pos_1_spec, rv_pos_2_spec, rv_vel_0_spec, rv_vel_1_spec, rv_vel_2_spec.
  unfold spec_pos, spec_vel, w0, w1, w2. rewrite Hd, Hm, Hd1, Hm1, Hd2, Hm2. repeat split; reflexivity.
Qed.

(* half-quantum recovery, over Q: encode by rounding x/quantum to the nearest integer *)
Lemma round_scaled_bound (q x : Q) :
  (0 < q)%Q ->
  let n := round_half_even (x / q) in
  (inject_Z n * q - x <= q / (2 # 1))%Q /\ (x - inject_Z n * q <= q / (2 # 1))%Q.
Proof.
  intros Hq n. destruct (round_half_even_bound (x / q)) as [H1 H2]. fold n in H1, H2.
  assert (Hx : (x == (x / q) * q)%Q) by (field; lra).
  set (t := (x / q)%Q) in *. set (m := inject_Z n) in *.
  assert (E1 : (m * q - x == (m - t) * q)%Q) by (rewrite Hx at 1; ring).
  assert (E2 : (x - m * q == (t - m) * q)%Q) by (rewrite Hx at 1; ring).
  assert (Eh : (q / (2 # 1) == (1 # 2) * q)%Q) by (field).
  rewrite E1, E2, Eh. split; apply Qmult_le_compat_r; try assumption; apply Qlt_le_weak; exact Hq.
Qed.

Lemma round_in_range (t : Q) (lo hi : Z) :
  (inject_Z lo <= t)%Q -> (t <= inject_Z hi)%Q -> lo <= round_half_even t <= hi.
Proof.
  intros Hlo Hhi. destruct (round_half_even_bound t) as [H1 H2].
  set (n := round_half_even t) in *. clearbody n.
  assert (A : (inject_Z n < inject_Z (hi + 1))%Q) by (rewrite inject_Z_plus; change (inject_Z 1) with 1%Q; lra).
  assert (B : (inject_Z (lo - 1) < inject_Z n)%Q).
  { unfold Z.sub. rewrite inject_Z_plus, inject_Z_opp. change (inject_Z 1) with 1%Q. lra. }
  rewrite <- Zlt_Qlt in A, B. lia.
Qed.

Lemma pos_roundtrip_lemma : forall box x v w1 w2,
  (0 < box)%Q -> vel_index_range v ->
  (inject_Z (- (2 ^ 19 - 1)) <= x / pos_quantum box)%Q -> (x / pos_quantum box <= inject_Z (2 ^ 19 - 1))%Q ->
  let p := round_half_even (x / pos_quantum box) in
  pos_index_range p /\
  (rv_pos_0 box (enc_rvint p v) w1 w2 - x <= pos_quantum box / (2 # 1))%Q /\
  (x - rv_pos_0 box (enc_rvint p v) w1 w2 <= pos_quantum box / (2 # 1))%Q.
Proof.
  intros box x v w1 w2 Hbox Hv Hlo Hhi p.
  assert (Hq : (0 < pos_quantum box)%Q).
  { unfold pos_quantum. apply Qlt_shift_div_l; [reflexivity|]. lra. }
  pose proof (round_in_range _ _ _ Hlo Hhi) as Hr. fold p in Hr.
  assert (Hp : pos_index_range p) by (unfold pos_index_range; change (2 ^ 19) with 524288 in *; lia).
  split; [exact Hp|].
  destruct (enc_rvint_decode_lemma p v Hp Hv) as [_ [Hd _]].
  rewrite rv_pos_0_spec. unfold spec_pos. rewrite Hd.
  apply (round_scaled_bound (pos_quantum box) x Hq).
Qed.

Lemma vel_roundtrip_lemma : forall box u p w1 w2,
  pos_index_range p ->
  (inject_Z (-2048) <= u / vel_quantum)%Q -> (u / vel_quantum <= inject_Z 2047)%Q ->
  let v := round_half_even (u / vel_quantum) in
  vel_index_range v /\
  (rv_vel_0 box (enc_rvint p v) w1 w2 - u <= vel_quantum / (2 # 1))%Q /\
  (u - rv_vel_0 box (enc_rvint p v) w1 w2 <= vel_quantum / (2 # 1))%Q.
Proof.
  intros box u p w1 w2 Hp Hlo Hhi v.
  assert (Hq : (0 < vel_quantum)%Q) by reflexivity.
  pose proof (round_in_range _ _ _ Hlo Hhi) as Hr. fold v in Hr.
  assert (Hv : vel_index_range v) by (unfold vel_index_range; lia).
  split; [exact Hv|].
  destruct (enc_rvint_decode_lemma p v Hp Hv) as [_ [_ Hm]].
  rewrite rv_vel_0_spec. unfold spec_vel. rewrite Hm.
  apply (round_scaled_bound vel_quantum u Hq).
Qed.

(* ---- aux -------------------------------------------------------------------------------------- *)
Lemma aux_lagr_idx_0_field a : aux_lagr_idx_0 a = field a 0 15.
Proof.
  unfold aux_lagr_idx_0. rewrite auxx_is, land_field by lia. change (2 ^ 0) with 1. rewrite Z.mul_1_r. reflexivity.
Qed.
Lemma aux_lagr_idx_1_field a : aux_lagr_idx_1 a = field a 16 15.
Proof. unfold aux_lagr_idx_1. rewrite auxy_is. apply shiftr_land_field; lia. Qed.
Lemma aux_lagr_idx_2_field a : aux_lagr_idx_2 a = field a 32 15.
Proof. unfold aux_lagr_idx_2. rewrite auxz_is. apply shiftr_land_field; lia. Qed.
Lemma aux_tagged_field a : aux_tagged a = field a 48 1.
Proof. unfold aux_tagged. rewrite auxtagged_is. change 1 with (Z.ones 1) at 1. apply land_shiftr_field; lia. Qed.
Lemma aux_density_field a : aux_density a = (field a 49 10) ^ 2.
Proof. unfold aux_density. rewrite auxdens_is, zeroden_is. rewrite shiftr_land_field by lia. reflexivity. Qed.

Lemma aux_pid_field a : aux_pid a = field a 0 15 + 2 ^ 16 * field a 16 15 + 2 ^ 32 * field a 32 15.
Proof.
  unfold aux_pid. rewrite auxpid_is. rewrite !Z.land_lor_distr_r. rewrite !land_field by lia.
  change field with bfield.
  pose proof (bfield_range a 0 15) as H0. pose proof (bfield_range a 16 15) as H1.
  pose proof (bfield_range a 32 15) as H2.
  change (2 ^ 15) with 32768 in *. change (2 ^ 0) with 1.
  replace (bfield a 0 15 * 1) with (bfield a 0 15) by lia.
  rewrite (lor_add_low (bfield a 0 15) (bfield a 16 15) 16) by (change (2 ^ 16) with 65536; lia).
  rewrite (lor_add_low _ (bfield a 32 15) 32) by (change (2 ^ 16) with 65536; change (2 ^ 32) with 4294967296; lia).
  ring.
Qed.

Lemma testbit_mask n k i : 0 <= n -> 0 <= k -> 0 <= i ->
  Z.testbit (Z.ones n * 2 ^ k) i = (k <=? i) && (i <? k + n).
Proof.
  intros Hn Hk Hi. rewrite <- Z.shiftl_mul_pow2 by lia. rewrite Z.shiftl_spec by lia.
  rewrite Z.testbit_ones by lia. lia.
Qed.

Lemma pid_clears_non_id_bits_lemma : forall a i, 0 <= i ->
  Z.testbit (aux_pid a) i = Z.testbit a i && id_bit i.
Proof.
  intros a i Hi. unfold aux_pid. rewrite Z.land_spec. f_equal.
  rewrite auxpid_is, !Z.lor_spec, !testbit_mask by lia. unfold id_bit. lia.
Qed.

Lemma field_ext_lemma : forall a b k n, 0 <= k -> 0 <= n ->
  (forall i, k <= i < k + n -> Z.testbit a i = Z.testbit b i) -> field a k n = field b k n.
Proof. intros. change field with bfield. apply bfield_ext; assumption. Qed.

Lemma aux_fields_all_words_lemma : forall a,
  aux_lagr_idx_0 a = field a 0 15 /\ aux_lagr_idx_1 a = field a 16 15 /\ aux_lagr_idx_2 a = field a 32 15 /\
  aux_tagged a = field a 48 1 /\ aux_density a = (field a 49 10) ^ 2 /\
  aux_pid a = spec_pid (field a 0 15) (field a 16 15) (field a 32 15).
Proof.
  intros a. repeat split;
    [apply aux_lagr_idx_0_field|apply aux_lagr_idx_1_field|apply aux_lagr_idx_2_field|apply aux_tagged_field
    |apply aux_density_field|apply aux_pid_field].
Qed.

(* the fields of a word assembled from its parts *)
Lemma pack_fields x y z t d o15 o31 o47 o59 :
  aux_fields_ok x y z t d o15 o31 o47 o59 ->
  let a := pack_aux x y z t d o15 o31 o47 o59 in
  uint64 a /\ field a 0 15 = x /\ field a 16 15 = y /\ field a 32 15 = z /\ field a 48 1 = t /\ field a 49 10 = d.
Proof.
  intros [Hx Hy Hz Ht Hd H15 H31 H47 H59] a. change field with bfield.
  change (2 ^ 15) with 32768 in *. change (2 ^ 10) with 1024 in *. change (2 ^ 5) with 32 in *.
  split; [unfold uint64, a, pack_aux;
          change (2 ^ 64) with 18446744073709551616; change (2 ^ 15) with 32768; change (2 ^ 16) with 65536;
          change (2 ^ 31) with 2147483648; change (2 ^ 32) with 4294967296; change (2 ^ 47) with 140737488355328;
          change (2 ^ 48) with 281474976710656; change (2 ^ 49) with 562949953421312;
          change (2 ^ 59) with 576460752303423488; nia|].
  repeat split.
  - replace a with (0 + 2 ^ 0 * x + 2 ^ 15 * (o15 + 2 * y + 2 ^ 16 * o31 + 2 ^ 17 * z + 2 ^ 32 * o47 + 2 ^ 33 * t + 2 ^ 34 * d + 2 ^ 44 * o59))
      by (unfold a, pack_aux; ring).
    apply (bfield_extract _ _ _ 0 15); change (2 ^ 0) with 1; change (2 ^ 15) with 32768; lia.
  - replace a with ((x + 2 ^ 15 * o15) + 2 ^ 16 * y + 2 ^ 31 * (o31 + 2 * z + 2 ^ 16 * o47 + 2 ^ 17 * t + 2 ^ 18 * d + 2 ^ 28 * o59))
      by (unfold a, pack_aux; ring).
    apply (bfield_extract _ _ _ 16 15); change (2 ^ 16) with 65536; change (2 ^ 15) with 32768; lia.
  - replace a with ((x + 2 ^ 15 * o15 + 2 ^ 16 * y + 2 ^ 31 * o31) + 2 ^ 32 * z + 2 ^ 47 * (o47 + 2 * t + 2 ^ 2 * d + 2 ^ 12 * o59))
      by (unfold a, pack_aux; ring).
    apply (bfield_extract _ _ _ 32 15); change (2 ^ 32) with 4294967296; change (2 ^ 31) with 2147483648;
      change (2 ^ 16) with 65536; change (2 ^ 15) with 32768; lia.
  - replace a with ((x + 2 ^ 15 * o15 + 2 ^ 16 * y + 2 ^ 31 * o31 + 2 ^ 32 * z + 2 ^ 47 * o47) + 2 ^ 48 * t + 2 ^ 49 * (d + 2 ^ 10 * o59))
      by (unfold a, pack_aux; ring).
    apply (bfield_extract _ _ _ 48 1); change (2 ^ 48) with 281474976710656; change (2 ^ 47) with 140737488355328;
      change (2 ^ 32) with 4294967296; change (2 ^ 31) with 2147483648;
      change (2 ^ 16) with 65536; change (2 ^ 15) with 32768; change (2 ^ 1) with 2; lia.
  - replace a with ((x + 2 ^ 15 * o15 + 2 ^ 16 * y + 2 ^ 31 * o31 + 2 ^ 32 * z + 2 ^ 47 * o47 + 2 ^ 48 * t) + 2 ^ 49 * d + 2 ^ 59 * o59)
      by (unfold a, pack_aux; ring).
    apply (bfield_extract _ _ _ 49 10); change (2 ^ 49) with 562949953421312; change (2 ^ 48) with 281474976710656;
      change (2 ^ 47) with 140737488355328; change (2 ^ 32) with 4294967296; change (2 ^ 31) with 2147483648;
      change (2 ^ 16) with 65536; change (2 ^ 15) with 32768; change (2 ^ 10) with 1024; lia.
Qed.

Lemma aux_fields_lemma : forall x y z t d o15 o31 o47 o59,
  aux_fields_ok x y z t d o15 o31 o47 o59 ->
  let a := pack_aux x y z t d o15 o31 o47 o59 in
  uint64 a /\
  aux_lagr_idx_0 a = x /\ aux_lagr_idx_1 a = y /\ aux_lagr_idx_2 a = z /\
  aux_tagged a = t /\ aux_density a = d ^ 2 /\ aux_pid a = spec_pid x y z.
Proof.
  intros x y z t d o15 o31 o47 o59 Hok a.
  destruct (pack_fields _ _ _ _ _ _ _ _ _ Hok) as [Hu [Hx [Hy [Hz [Ht Hd]]]]]. fold a in Hu, Hx, Hy, Hz, Ht, Hd.
  split; [exact Hu|].
  rewrite aux_lagr_idx_0_field, aux_lagr_idx_1_field, aux_lagr_idx_2_field, aux_tagged_field, aux_density_field,
    aux_pid_field. rewrite Hx, Hy, Hz, Ht, Hd. repeat split; reflexivity.
Qed.

(* every uint64 word is such an assembly: the pack form covers all 2^64 words *)
Lemma aux_layout_complete_lemma : forall a, uint64 a ->
  exists x y z t d o15 o31 o47 o59,
    aux_fields_ok x y z t d o15 o31 o47 o59 /\ a = pack_aux x y z t d o15 o31 o47 o59.
Proof.
  intros a [Ha0 Ha1].
  exists (bfield a 0 15), (bfield a 16 15), (bfield a 32 15), (bfield a 48 1), (bfield a 49 10),
    (bfield a 15 1), (bfield a 31 1), (bfield a 47 1), (bfield a 59 5).
  split.
  - constructor; apply bfield_range; lia.
  - pose proof (split_field a 0 15 ltac:(lia) ltac:(lia)) as S0.
    pose proof (split_field a 15 1 ltac:(lia) ltac:(lia)) as S1.
    pose proof (split_field a 16 15 ltac:(lia) ltac:(lia)) as S2.
    pose proof (split_field a 31 1 ltac:(lia) ltac:(lia)) as S3.
    pose proof (split_field a 32 15 ltac:(lia) ltac:(lia)) as S4.
    pose proof (split_field a 47 1 ltac:(lia) ltac:(lia)) as S5.
    pose proof (split_field a 48 1 ltac:(lia) ltac:(lia)) as S6.
    pose proof (split_field a 49 10 ltac:(lia) ltac:(lia)) as S7.
    pose proof (split_field a 59 5 ltac:(lia) ltac:(lia)) as S8.
    change (0 + 15) with 15 in S0. change (15 + 1) with 16 in S1. change (16 + 15) with 31 in S2.
    change (31 + 1) with 32 in S3. change (32 + 15) with 47 in S4. change (47 + 1) with 48 in S5.
    change (48 + 1) with 49 in S6. change (49 + 10) with 59 in S7. change (59 + 5) with 64 in S8.
    assert (H64 : a / 2 ^ 64 = 0) by (apply Z.div_small; lia).
    rewrite H64 in S8. change (2 ^ 0) with 1 in S0. rewrite Z.div_1_r in S0.
    unfold pack_aux.
    set (q15 := a / 2 ^ 15) in *. set (q16 := a / 2 ^ 16) in *. set (q31 := a / 2 ^ 31) in *.
    set (q32 := a / 2 ^ 32) in *. set (q47 := a / 2 ^ 47) in *. set (q48 := a / 2 ^ 48) in *.
    set (q49 := a / 2 ^ 49) in *. set (q59 := a / 2 ^ 59) in *.
    clearbody q15 q16 q31 q32 q47 q48 q49 q59.
    change (2 ^ 15) with 32768 in *. change (2 ^ 1) with 2 in *. change (2 ^ 10) with 1024 in *.
    change (2 ^ 5) with 32 in *. change (2 ^ 16) with 65536. change (2 ^ 31) with 2147483648.
    change (2 ^ 32) with 4294967296. change (2 ^ 47) with 140737488355328. change (2 ^ 48) with 281474976710656.
    change (2 ^ 49) with 562949953421312. change (2 ^ 59) with 576460752303423488.
    clear Ha0 Ha1 H64.
    Ltac Zify.zify_post_hook ::= idtac.
    lia.
Qed.
Ltac Zify.zify_post_hook ::= Z.to_euclidean_division_equations.

Lemma aux_lagr_pos_lemma : forall box ppd a,
  (aux_lagr_pos_0 box ppd a == spec_lagr_pos box ppd (field a 0 15))%Q /\
  (aux_lagr_pos_1 box ppd a == spec_lagr_pos box ppd (field a 16 15))%Q /\
  (aux_lagr_pos_2 box ppd a == spec_lagr_pos box ppd (field a 32 15))%Q.
Proof.
  intros box ppd a. unfold aux_lagr_pos_0, aux_lagr_pos_1, aux_lagr_pos_2.
  fold (aux_lagr_idx_0 a). fold (aux_lagr_idx_1 a). fold (aux_lagr_idx_2 a).
  rewrite aux_lagr_idx_0_field, aux_lagr_idx_1_field, aux_lagr_idx_2_field.
  unfold spec_lagr_pos, aux_inv_ppd, aux_half. repeat split; reflexivity.
Qed.
