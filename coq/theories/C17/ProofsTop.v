(* C17/ProofsTop.v — the statements of Properties.v, assembled from the lemma files. *)
From Coq Require Import ZArith QArith List Bool Lia Arith Permutation.
From Abacus.Common Require Import Arr Par.
From Abacus.C17 Require Import Gen Model Spec Lib Mat Blocks Proofs ProofsCor ProofsPar ProofsKey.
Import ListNotations.
Local Open Scope Z_scope.

Lemma seg_split {A} (l : list A) a b c : 0 <= a <= b -> b <= c -> seg l a c = seg l a b ++ seg l b c.
Proof.
  intros H1 H2.
  pose proof (firstn_seg l a c ltac:(lia)) as E1. pose proof (firstn_seg l b c ltac:(lia)) as E2.
  pose proof (firstn_seg l a b ltac:(lia)) as E3. rewrite E3 in E2. rewrite E2 in E1. rewrite <- app_assoc in E1.
  apply app_inv_head in E1. symmetry. exact E1.
Qed.

Definition preconditions {P W} (keyf : P -> Z) (nthread npartition : Z) (tstart : list Z) (pos : list P)
    (wts : option (list W)) (keys0 : list Z) (psort0 : list P) (wsort0 : list W) : Prop :=
  1 <= nthread /\ 1 <= npartition /\
  boundaries_ok nthread tstart (len pos) /\
  (forall x, In x pos -> 0 <= keyf x < npartition) /\
  len keys0 = len pos /\ len psort0 = len pos /\
  (forall w, wts = Some w -> len w = len pos /\ len wsort0 = len pos).

Lemma main_lemma : forall (P W C : Type) (keyf : P -> Z) (cv : P -> C) (argsort : list C -> list nat)
    nthread npartition tstart pos (wts : option (list W)) keys0 psort0 wsort0,
  preconditions keyf nthread npartition tstart pos wts keys0 psort0 wsort0 ->
  partition_model P W C keyf cv argsort nthread npartition tstart pos wts false keys0 psort0 wsort0
  = Ok (stable_counting_sort keyf npartition pos, starts_spec keyf npartition pos, weights_spec keyf npartition pos wts).
Proof.
  intros P W C keyf cv argsort T np tstart pos wts keys0 psort0 wsort0 [H1 [H2 [H3 [H4 [H5 [H6 H7]]]]]].
  apply partition_is_stable_counting_sort_lemma; assumption.
Qed.

Lemma permutation_lemma : forall (P : Type) (keyf : P -> Z) npartition (pos : list P),
  (forall x, In x pos -> 0 <= keyf x < npartition) ->
  Permutation pos (stable_counting_sort keyf npartition pos).
Proof. intros P keyf np pos H. apply sort_is_permutation. exact H. Qed.

Lemma weights_lemma : forall (P W C : Type) (keyf : P -> Z) (cv : P -> C) (argsort : list C -> list nat)
    nthread npartition tstart pos (w : list W) keys0 psort0 wsort0,
  preconditions keyf nthread npartition tstart pos (Some w) keys0 psort0 wsort0 ->
  exists psort starts wsort,
    partition_model P W C keyf cv argsort nthread npartition tstart pos (Some w) false keys0 psort0 wsort0
      = Ok (psort, starts, Some wsort) /\
    combine psort wsort = stable_counting_sort (fun pw => keyf (fst pw)) npartition (combine pos w) /\
    Permutation (combine pos w) (combine psort wsort).
Proof.
  intros P W C keyf cv argsort T np tstart pos w keys0 psort0 wsort0 Hpre.
  pose proof (main_lemma P W C keyf cv argsort T np tstart pos (Some w) keys0 psort0 wsort0 Hpre) as E.
  destruct Hpre as [H1 [H2 [H3 [H4 [H5 [H6 H7]]]]]]. destruct (H7 w eq_refl) as [Hlw _].
  eexists _, _, _. split; [exact E|].
  assert (Hl : length w = length pos) by (unfold len in Hlw; lia).
  split.
  - apply pairs_stay_together. exact Hl.
  - rewrite pairs_stay_together by exact Hl. apply sort_is_permutation.
    intros [p y] Hin. cbn [fst]. apply H4. apply in_combine_l in Hin. exact Hin.
Qed.

Lemma independence_lemma : forall (P W C : Type) (keyf : P -> Z) (cv : P -> C) (argsort : list C -> list nat)
    npartition pos (wts : option (list W))
    nthread1 tstart1 keys1 psort1 wsort1 nthread2 tstart2 keys2 psort2 wsort2,
  preconditions keyf nthread1 npartition tstart1 pos wts keys1 psort1 wsort1 ->
  preconditions keyf nthread2 npartition tstart2 pos wts keys2 psort2 wsort2 ->
  partition_model P W C keyf cv argsort nthread1 npartition tstart1 pos wts false keys1 psort1 wsort1
  = partition_model P W C keyf cv argsort nthread2 npartition tstart2 pos wts false keys2 psort2 wsort2.
Proof.
  intros. rewrite !main_lemma by assumption. reflexivity.
Qed.

Lemma empty_input_lemma : forall (P W C : Type) (keyf : P -> Z) (cv : P -> C) (argsort : list C -> list nat)
    nthread npartition tstart (wts : option (list W)),
  1 <= nthread -> 1 <= npartition -> boundaries_ok nthread tstart 0 ->
  (forall w, wts = Some w -> w = []) ->
  partition_model P W C keyf cv argsort nthread npartition tstart [] wts false [] [] []
  = Ok ([], map (fun _ => 0) (upto (npartition + 1)), option_map (fun _ => []) wts).
Proof.
  intros P W C keyf cv argsort T np tstart wts HT Hnp Hb Hw.
  rewrite main_lemma.
  - rewrite sort_nil.
    assert (E1 : starts_spec keyf np [] = map (fun _ => 0) (upto (np + 1))) by reflexivity.
    assert (E2 : weights_spec keyf np [] wts = option_map (fun _ => []) wts).
    { unfold weights_spec. destruct wts as [w|]; [|reflexivity]. cbn [option_map]. rewrite (Hw w eq_refl). cbn [combine].
      rewrite sort_nil. reflexivity. }
    rewrite E1, E2. reflexivity.
  - unfold preconditions. split; [exact HT|]. split; [exact Hnp|]. split; [exact Hb|]. split; [intros x []|].
    split; [reflexivity|]. split; [reflexivity|]. intros w Hwe. rewrite (Hw w Hwe). split; reflexivity.
Qed.

Lemma more_threads_lemma : forall (P W C : Type) (keyf : P -> Z) (cv : P -> C) (argsort : list C -> list nat)
    nthread npartition tstart pos (wts : option (list W)) keys0 psort0 wsort0,
  len pos < nthread ->
  preconditions keyf nthread npartition tstart pos wts keys0 psort0 wsort0 ->
  partition_model P W C keyf cv argsort nthread npartition tstart pos wts false keys0 psort0 wsort0
  = Ok (stable_counting_sort keyf npartition pos, starts_spec keyf npartition pos, weights_spec keyf npartition pos wts).
Proof. intros. apply main_lemma. assumption. Qed.

(* the (thread, key) cell ranges computed by the model tile [0, N); each thread writes particle j of its block at
   start-of-its-cell + rank of j among the particles of that block with the same key *)
Lemma tiles_lemma : forall (P : Type) (keyf : P -> Z) nthread npartition tstart (pos : list P),
  1 <= nthread -> 1 <= npartition -> boundaries_ok nthread tstart (len pos) ->
  (forall x, In x pos -> 0 <= keyf x < npartition) ->
  let fk := map keyf pos in
  let ptr := ptr0 tstart fk in let cnt := bcount tstart fk in
  (forall counts, shaped nthread npartition counts ->
     (forall t k, 0 <= t < nthread -> 0 <= k < npartition -> cell counts t k = cnt t k) ->
     pointers_of nthread npartition counts = Ok (tabulate2 nthread npartition ptr)) /\
  ptr 0 0 = 0 /\
  (forall t k, 0 <= t < nthread -> ptr (t + 1) k = ptr t k + cnt t k) /\
  (forall k, ptr nthread k = ptr 0 (k + 1)) /\
  ptr 0 npartition = len pos /\
  (forall t j, 0 <= t < nthread -> ts tstart t <= j < ts tstart (t + 1) ->
     let k := kj fk j in
     Z.of_nat (ndest fk (Z.to_nat j)) = ptr t k + Z.of_nat (ncnt k (seg fk (ts tstart t) j)) /\
     ptr t k <= Z.of_nat (ndest fk (Z.to_nat j)) < ptr t k + cnt t k).
Proof.
  intros P keyf T np tstart pos HT Hnp Hb Hk fk ptr cnt.
  assert (Hfl : len fk = len pos) by (unfold fk, len; rewrite map_length; reflexivity).
  assert (Hfr : forall x, In x fk -> 0 <= x < np).
  { intros x Hx. unfold fk in Hx. apply in_map_iff in Hx. destruct Hx as [p [E Hp]]. subst x. apply Hk. exact Hp. }
  destruct (ranges_tile T tstart (len pos) Hb np fk Hfl Hfr) as [R0 [R1 [R2 R3]]].
  split; [|split; [exact R0|split; [exact R1|split; [exact R2|split; [exact R3|]]]]].
  - intros counts Hs Hc. apply (pointers_of_counts T tstart (len pos) HT Hb np fk Hnp Hfl Hfr counts Hs Hc).
  - intros t j Ht Hj k.
    assert (HjN : 0 <= j < len pos).
    { pose proof (ts_nonneg T tstart (len pos) Hb t ltac:(lia)). pose proof (ts_le_N T tstart (len pos) Hb (t + 1) ltac:(lia)). lia. }
    pose proof (dest_cursor P keyf T tstart pos Hb t j Ht ltac:(lia) HjN) as Hd. fold fk in Hd. fold k in Hd.
    split; [unfold ptr; lia|].
    unfold ptr, cnt, bcount. rewrite <- Hd.
    assert (Hlt : (ncnt k (seg fk (ts tstart t) j) < ncnt k (seg fk (ts tstart t) (ts tstart (t + 1))))%nat).
    { assert (Hsplit : seg fk (ts tstart t) (ts tstart (t + 1)) =
                       seg fk (ts tstart t) (j + 1) ++ seg fk (j + 1) (ts tstart (t + 1))).
      { apply seg_split; pose proof (ts_nonneg T tstart (len pos) Hb t ltac:(lia)); lia. }
      rewrite Hsplit, ncnt_app.
      rewrite seg_snoc by (pose proof (ts_nonneg T tstart (len pos) Hb t ltac:(lia)); lia).
      rewrite ncnt_app, ncnt_one. fold (kj fk j). fold k. rewrite Z.eqb_refl. lia. }
    lia.
Qed.

(* key_spec for the rows of the executable model: the hypothesis "keys in range" of the theorems holds on the documented domain *)
Lemma key_in_range_lemma : forall np box (pos : list Q),
  1 <= np -> (0 < box)%Q -> (forall x, In x pos -> (0 <= x)%Q /\ (x <= box)%Q) ->
  forall x, In x pos -> 0 <= key_expr np box x < np.
Proof.
  intros np box pos Hnp Hb H x Hx. destruct (H x Hx) as [H0 H1].
  exact (proj2 (key_spec_lemma np box x Hnp Hb H0 H1)).
Qed.
