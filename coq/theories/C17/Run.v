(* C17/Run.v — executable glue for the correspondence check (no theorem depends on it).
   Rows are lists of exact rationals; the key is the generated Gen.key_expr of row[coord]; argsort is a stable
   insertion sort (any sorting permutation satisfies the hypotheses of sorted_option). *)
From Coq Require Import ZArith QArith List Bool.
From Abacus.Common Require Import Arr Corr.
From Abacus.C17 Require Import Gen Model Spec.
Import ListNotations.
Local Open Scope Z_scope.

Fixpoint ins (le : nat -> nat -> bool) (i : nat) (l : list nat) : list nat :=
  match l with
  | [] => [i]
  | j :: t => if le i j then i :: l else j :: ins le i t
  end.
Definition argsort_ins (l : list Q) : list nat :=
  fold_right (ins (fun i j => Qle_bool (nth i l 0%Q) (nth j l 0%Q))) [] (seq 0 (length l)).

(* nthread, npartition, boxsize, coord, tstart, pos, weights, sort *)
Definition case := (Z * Z * Q * Z * list Z * list (list Q) * option (list Q) * bool)%type.

Definition rowkey (np : Z) (box : Q) (coord : Z) (row : list Q) : Z := key_expr np box (nth (Z.to_nat coord) row 0%Q).
Definition rowcv (coord : Z) (row : list Q) : Q := nth (Z.to_nat coord) row 0%Q.

Definition sentinel_key : Z := 1000000007.

Definition run_model (c : case) :=
  let '(nthread, np, box, coord, tstart, pos, wts, sort) := c in
  partition_model (list Q) Q Q (rowkey np box coord) (rowcv coord) argsort_ins nthread np tstart pos wts sort
    (repeat sentinel_key (length pos)) (repeat [] (length pos))
    (repeat (-1 # 1)%Q (match wts with Some w => length w | None => O end)).

Definition out_val (r : list (list Q) * list Z * option (list Q)) : val :=
  let '(psort, starts, wsort) := r in VL [VL (map vlistQ psort); vlistZ starts; vopt vlistQ wsort].

Definition run (c : case) : val := vres out_val (run_model c).

(* the property predicate on the model (sort = false): the output is the specification's stable counting sort *)
Definition holds (c : case) : bool :=
  let '(nthread, np, box, coord, tstart, pos, wts, sort) := c in
  if sort then is_ok (run_model c)
  else
    val_eqb (run c)
      (out_val (stable_counting_sort (rowkey np box coord) np pos,
                starts_spec (rowkey np box coord) np pos,
                match wts with
                | Some w => Some (map snd (stable_counting_sort (fun pw => rowkey np box coord (fst pw)) np (combine pos w)))
                | None => None
                end)).
