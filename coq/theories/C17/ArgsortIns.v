(* C17/ArgsortIns.v — the insertion argsort of Run.v (the argsort of the executable model) satisfies, for EVERY list, the two
   argsort hypotheses of sorted_option: it returns a permutation of the indices 0..n-1, and gathering its argument by that
   permutation gives a list sorted for Qle (as the boolean Qle_bool).  Used by Examples.v for non-vacuity only; no theorem of
   Properties.v depends on this file. *)
From Coq Require Import ZArith QArith List Bool Lia Arith Permutation Sorted.
From Abacus.Common Require Import Arr.
From Abacus.C17 Require Import Model Run.
Import ListNotations.

Section Ins.
Variable le : nat -> nat -> bool.
Hypothesis le_total : forall i j, le i j = false -> le j i = true.

Lemma ins_perm i l : Permutation (ins le i l) (i :: l).
Proof.
  induction l as [|j t IH]; [apply Permutation_refl|]. cbn [ins]. destruct (le i j); [apply Permutation_refl|].
  etransitivity; [apply perm_skip; exact IH|]. apply perm_swap.
Qed.

Lemma ins_sorted i l : Sorted (fun a b => le a b = true) l -> Sorted (fun a b => le a b = true) (ins le i l).
Proof.
  induction l as [|j t IH]; intros Hs; [repeat constructor|].
  cbn [ins]. destruct (le i j) eqn:E.
  - constructor; [exact Hs|]. constructor. exact E.
  - inversion Hs as [|? ? Hst Hhd]; subst. constructor; [apply IH; exact Hst|].
    destruct t as [|k t]; cbn [ins].
    + constructor. apply le_total. exact E.
    + destruct (le i k); constructor; [apply le_total; exact E|]. inversion Hhd; subst. assumption.
Qed.

Lemma fold_ins_perm idx : Permutation (fold_right (ins le) [] idx) idx.
Proof.
  induction idx as [|i idx IH]; [constructor|]. cbn [fold_right].
  etransitivity; [apply ins_perm|]. apply perm_skip. exact IH.
Qed.

Lemma fold_ins_sorted idx : Sorted (fun a b => le a b = true) (fold_right (ins le) [] idx).
Proof. induction idx as [|i idx IH]; [constructor|]. cbn [fold_right]. apply ins_sorted. exact IH. Qed.
End Ins.

Lemma Qle_bool_total x y : Qle_bool x y = false -> Qle_bool y x = true.
Proof.
  intros H. apply Qle_bool_iff. destruct (Qlt_le_dec x y) as [L|L]; [|exact L].
  apply Qlt_le_weak in L. apply Qle_bool_iff in L. congruence.
Qed.

Lemma gather_in_range {A} (l : list A) d idx :
  (forall i, In i idx -> (i < length l)%nat) -> gather l idx = map (fun i => nth i l d) idx.
Proof.
  unfold gather. induction idx as [|i idx IH]; intros H; [reflexivity|]. cbn [flat_map map].
  rewrite IH by (intros j Hj; apply H; right; exact Hj).
  assert (Hi : (i < length l)%nat) by (apply H; left; reflexivity).
  destruct (nth_error l i) as [a|] eqn:E.
  - rewrite (nth_error_nth l i d E). reflexivity.
  - apply nth_error_None in E. lia.
Qed.

Lemma Sorted_map {A B} (f : A -> B) (R : B -> B -> Prop) l : Sorted (fun a b => R (f a) (f b)) l -> Sorted R (map f l).
Proof.
  induction 1 as [|a l Hs IH Hhd]; [constructor|]. cbn [map]. constructor; [exact IH|].
  destruct Hhd; cbn [map]; constructor. assumption.
Qed.

Lemma argsort_ins_perm : forall l : list Q, Permutation (argsort_ins l) (seq 0 (length l)).
Proof. intros l. unfold argsort_ins. apply fold_ins_perm. Qed.

Lemma argsort_ins_sorted : forall l : list Q, Sorted (fun a b => Qle_bool a b = true) (gather l (argsort_ins l)).
Proof.
  intros l. rewrite (gather_in_range l 0%Q).
  - apply Sorted_map. unfold argsort_ins. apply fold_ins_sorted.
    intros i j. apply Qle_bool_total.
  - intros i Hi. apply (Permutation_in _ (argsort_ins_perm l)) in Hi. apply in_seq in Hi. lia.
Qed.
