(* C17/Blocks.v — thread blocks given by an arbitrary monotone boundary sequence, the invariant rule for the
   block loop, and the cursor invariant shared by the histogram pass and the scatter pass. *)
From Coq Require Import ZArith List Bool Lia Arith.
From Abacus.Common Require Import Arr.
From Abacus.C17 Require Import Model Spec Lib Mat.
Import ListNotations.
Local Open Scope Z_scope.

(* l[a:b] for 0 <= a, as a list *)
Definition seg {A} (l : list A) (a b : Z) : list A := firstn (Z.to_nat (b - a)) (skipn (Z.to_nat a) l).

Lemma nth_skipn_add {A} (l : list A) a n d : nth n (skipn a l) d = nth (a + n) l d.
Proof.
  revert l; induction a as [|a IH]; intros l; [reflexivity|].
  destruct l as [|x l]; [destruct n; reflexivity|]. cbn [skipn Nat.add nth]. apply IH.
Qed.

Lemma seg_empty {A} (l : list A) a b : b <= a -> seg l a b = [].
Proof. intros H. unfold seg. replace (Z.to_nat (b - a)) with O by lia. reflexivity. Qed.

Lemma seg_snoc (l : list Z) a j : 0 <= a <= j -> j < len l -> seg l a (j + 1) = seg l a j ++ [nth (Z.to_nat j) l 0].
Proof.
  intros Ha Hj. unfold seg. replace (Z.to_nat (j + 1 - a)) with (S (Z.to_nat (j - a))) by lia.
  rewrite (firstn_succ_nth _ _ 0).
  - rewrite nth_skipn_add. replace (Z.to_nat a + Z.to_nat (j - a))%nat with (Z.to_nat j) by lia. reflexivity.
  - rewrite skipn_length. unfold len in Hj. lia.
Qed.

Lemma firstn_seg {A} (l : list A) a j : 0 <= a <= j -> firstn (Z.to_nat j) l = firstn (Z.to_nat a) l ++ seg l a j.
Proof.
  intros H. unfold seg.
  rewrite <- (firstn_skipn (Z.to_nat a) (firstn (Z.to_nat j) l)).
  rewrite firstn_firstn. replace (Nat.min (Z.to_nat a) (Z.to_nat j)) with (Z.to_nat a) by lia.
  f_equal. rewrite firstn_skipn_comm. f_equal. f_equal. lia.
Qed.

Lemma flat_map_ext_in' {A B} (f g : A -> list B) l : (forall a, In a l -> f a = g a) -> flat_map f l = flat_map g l.
Proof.
  induction l as [|x l IH]; intros H; [reflexivity|]. cbn [flat_map].
  rewrite (H x) by (left; reflexivity). rewrite IH by (intros a Ha; apply H; right; exact Ha). reflexivity.
Qed.

Section Blocks.
Variable T : Z.
Variable tstart : list Z.
Variable N : Z.
Hypothesis HT : 1 <= T.
Hypothesis Hb : boundaries_ok T tstart N.

Definition ts (t : Z) : Z := nth (Z.to_nat t) tstart 0.

Lemma ts_len : len tstart = T + 1.
Proof. exact (proj1 Hb). Qed.
Lemma ts_0 : ts 0 = 0.
Proof. exact (proj1 (proj2 Hb)). Qed.
Lemma ts_T : ts T = N.
Proof. exact (proj1 (proj2 (proj2 Hb))). Qed.
Lemma ts_adj t : 0 <= t < T -> ts t <= ts (t + 1).
Proof. exact (proj2 (proj2 (proj2 Hb)) t). Qed.

Lemma ts_mono a b : 0 <= a <= b -> b <= T -> ts a <= ts b.
Proof.
  intros Hab HbT.
  assert (G : forall n a, 0 <= a -> a + Z.of_nat n <= T -> ts a <= ts (a + Z.of_nat n)).
  { induction n as [|n IH]; intros a0 Ha Hn.
    - replace (a0 + Z.of_nat 0) with a0 by lia. lia.
    - transitivity (ts (a0 + Z.of_nat n)); [apply IH; lia|].
      replace (a0 + Z.of_nat (S n)) with (a0 + Z.of_nat n + 1) by lia. apply ts_adj. lia. }
  replace b with (a + Z.of_nat (Z.to_nat (b - a))) by lia. apply G; lia.
Qed.

Lemma ts_nonneg t : 0 <= t <= T -> 0 <= ts t.
Proof. intros H. rewrite <- ts_0. apply ts_mono; lia. Qed.
Lemma ts_le_N t : 0 <= t <= T -> ts t <= N.
Proof. intros H. rewrite <- ts_T. apply ts_mono; lia. Qed.

Lemma get_ts t : 0 <= t <= T -> get tstart t = Ok (ts t).
Proof. intros H. apply get_ok_nth. rewrite ts_len. lia. Qed.

(* invariant rule: the nested loop visits j = 0 .. N-1 in order, j in the block of thread t *)
Lemma block_loop_inv {S} (Inv : Z -> S -> Prop) (body : Z -> Z -> S -> res S) (s : S) :
  Inv 0 s ->
  (forall t j s, 0 <= t < T -> ts t <= j < ts (t + 1) -> Inv j s -> exists s', body t j s = Ok s' /\ Inv (j + 1) s') ->
  exists s', block_loop T tstart body s = Ok s' /\ Inv N s'.
Proof.
  intros H0 Hstep. unfold block_loop.
  destruct (for_range_inv (fun t s => Inv (ts t) s) 0 T
             (fun t s => lo <- get tstart t ;; hi <- get tstart (t + 1) ;; for_range lo hi (body t) s) s) as [s' [E Ps]].
  - lia.
  - rewrite ts_0. exact H0.
  - intros t s0 Ht Hinv. rewrite get_ts by lia. cbn [bind]. rewrite get_ts by lia. cbn [bind].
    apply (for_range_inv (fun j s => Inv j s)); [apply ts_adj; lia|exact Hinv|].
    intros j s1 Hj Hi. apply (Hstep t j s1); assumption.
  - exists s'. split; [exact E|]. rewrite <- ts_T. exact Ps.
Qed.

(* how far the block of thread t' has been processed when the global position is j *)
Definition prog (t' j : Z) : Z := Z.min (Z.max j (ts t')) (ts (t' + 1)).

Lemma prog_self t j : 0 <= t < T -> ts t <= j <= ts (t + 1) -> prog t j = j.
Proof. intros Ht Hj. unfold prog. lia. Qed.

Lemma prog_other t t' j : 0 <= t < T -> 0 <= t' < T -> t' <> t -> ts t <= j < ts (t + 1) -> prog t' (j + 1) = prog t' j.
Proof.
  intros Ht Ht' Hne Hj. unfold prog.
  pose proof (ts_adj t' Ht').
  destruct (Z_lt_ge_dec t' t).
  - assert (ts (t' + 1) <= ts t) by (apply ts_mono; lia). lia.
  - assert (ts (t + 1) <= ts t') by (apply ts_mono; lia). lia.
Qed.

Lemma prog_start t' : 0 <= t' < T -> prog t' 0 = ts t'.
Proof. intros H. unfold prog. pose proof (ts_adj t' H). pose proof (ts_nonneg t' ltac:(lia)). lia. Qed.

Lemma prog_end t' : 0 <= t' < T -> prog t' N = ts (t' + 1).
Proof.
  intros H. unfold prog. pose proof (ts_adj t' H). pose proof (ts_le_N (t' + 1) ltac:(lia)). lia.
Qed.

(* ---- the cursor invariant ------------------------------------------------------------------------------------ *)
Variable np : Z.
Variable fk : list Z.                                   (* the final keys, one per particle *)
Hypothesis Hnp : 1 <= np.
Hypothesis Hfk_len : len fk = N.
Hypothesis Hfk : forall x, In x fk -> 0 <= x < np.

Definition kj (j : Z) : Z := nth (Z.to_nat j) fk 0.

Lemma kj_range j : 0 <= j < N -> 0 <= kj j < np.
Proof. intros H. apply Hfk. apply nth_In. unfold len in Hfk_len. lia. Qed.

(* cell (t', k) = base t' k + number of keys k among the part of block t' processed so far *)
Definition cursor_inv (base : Z -> Z -> Z) (j : Z) (m : list (list Z)) : Prop :=
  shaped T np m /\
  forall t' k, 0 <= t' < T -> 0 <= k < np ->
    cell m t' k = base t' k + Z.of_nat (ncnt k (seg fk (ts t') (prog t' j))).

Lemma cursor_inv_start base m :
  shaped T np m -> (forall t k, 0 <= t < T -> 0 <= k < np -> cell m t k = base t k) -> cursor_inv base 0 m.
Proof.
  intros Hs Hc. split; [exact Hs|]. intros t' k Ht' Hk.
  rewrite prog_start by exact Ht'. rewrite seg_empty by lia. rewrite ncnt_nil. rewrite Hc by assumption. lia.
Qed.

Lemma cursor_inv_read base t j m :
  0 <= t < T -> ts t <= j <= ts (t + 1) -> cursor_inv base j m -> forall k, 0 <= k < np ->
  get2 m t k = Ok (base t k + Z.of_nat (ncnt k (seg fk (ts t) j))).
Proof.
  intros Ht Hj [Hs Hc] k Hk. rewrite (get2_ok m T np) by assumption.
  rewrite Hc by assumption. rewrite prog_self by assumption. reflexivity.
Qed.

Lemma cursor_inv_step base t j m :
  0 <= t < T -> ts t <= j < ts (t + 1) -> cursor_inv base j m ->
  exists m', upd2 m t (kj j) (fun v => v + 1) = Ok m' /\ cursor_inv base (j + 1) m'.
Proof.
  intros Ht Hj [Hs Hc].
  assert (HjN : 0 <= j < N).
  { pose proof (ts_nonneg t ltac:(lia)). pose proof (ts_le_N (t + 1) ltac:(lia)). lia. }
  pose proof (kj_range j HjN) as Hk.
  destruct (upd2_ok m T np t (kj j) (fun v => v + 1) Hs Ht Hk) as [m' [E [Hs' Hc']]].
  exists m'. split; [exact E|]. split; [exact Hs'|].
  intros t' k Ht' Hk'. rewrite Hc' by lia.
  destruct (t' =? t) eqn:Et; cbn [andb].
  - apply Z.eqb_eq in Et; subst t'.
    rewrite (prog_self t (j + 1)) by lia.
    rewrite seg_snoc by (pose proof (ts_nonneg t ltac:(lia)); lia).
    rewrite ncnt_app, ncnt_one. fold (kj j).
    destruct (k =? kj j) eqn:Ek.
    + apply Z.eqb_eq in Ek. subst k. rewrite Z.eqb_refl. rewrite Hc by assumption.
      rewrite (prog_self t j) by lia. lia.
    + apply Z.eqb_neq in Ek. assert (E2 : (kj j =? k) = false) by (apply Z.eqb_neq; congruence). rewrite E2.
      rewrite Hc by assumption. rewrite (prog_self t j) by lia. lia.
  - apply Z.eqb_neq in Et. rewrite (prog_other t t' j) by assumption. apply Hc; assumption.
Qed.

Lemma cursor_inv_end base m :
  cursor_inv base N m -> forall t k, 0 <= t < T -> 0 <= k < np ->
  cell m t k = base t k + Z.of_nat (ncnt k (seg fk (ts t) (ts (t + 1)))).
Proof. intros [Hs Hc] t k Ht Hk. rewrite Hc by assumption. rewrite prog_end by exact Ht. reflexivity. Qed.

(* ---- sums of the per-block counts ------------------------------------------------------------------------------ *)
Definition bcount (t k : Z) : Z := Z.of_nat (ncnt k (seg fk (ts t) (ts (t + 1)))).

Lemma sum_blocks k (n : nat) : Z.of_nat n <= T ->
  zsum (map (fun t => bcount t k) (zrange (Z.of_nat n))) = Z.of_nat (ncnt k (firstn (Z.to_nat (ts (Z.of_nat n))) fk)).
Proof.
  induction n as [|n IH]; intros Hn.
  - cbn. rewrite ts_0. reflexivity.
  - rewrite zrange_S, map_app, zsum_app, IH by lia. cbn [map zsum]. unfold bcount.
    replace (Z.of_nat (S n)) with (Z.of_nat n + 1) by lia.
    rewrite (firstn_seg fk (ts (Z.of_nat n)) (ts (Z.of_nat n + 1))).
    + rewrite ncnt_app. lia.
    + split; [apply ts_nonneg; lia|apply ts_adj; lia].
Qed.

Lemma sum_blocks_all k : zsum (map (fun t => bcount t k) (zrange T)) = Z.of_nat (ncnt k fk).
Proof.
  rewrite <- (Z2Nat.id T) at 1 by lia. rewrite sum_blocks by lia. rewrite Z2Nat.id by lia. rewrite ts_T.
  rewrite firstn_all2; [reflexivity|]. unfold len in Hfk_len. lia.
Qed.

Lemma sum_keys (n : nat) :
  zsum (map (fun k => Z.of_nat (ncnt k fk)) (zrange (Z.of_nat n))) = Z.of_nat (nlt (Z.of_nat n) fk).
Proof.
  induction n as [|n IH].
  - cbn. rewrite nlt_low; [reflexivity|]. intros x Hx. apply Hfk in Hx. lia.
  - rewrite zrange_S, map_app, zsum_app, IH. cbn [map zsum].
    replace (Z.of_nat (S n)) with (Z.of_nat n + 1) by lia. rewrite nlt_succ. lia.
Qed.

(* the start of cell (t, k): all smaller keys, then key k in the blocks before t *)
Definition ptr0 (t k : Z) : Z := Z.of_nat (nlt k fk) + Z.of_nat (ncnt k (firstn (Z.to_nat (ts t)) fk)).

(* the transposed exclusive prefix sum of the block counts is ptr0 *)
Lemma pointers_of_counts counts :
  shaped T np counts -> (forall t k, 0 <= t < T -> 0 <= k < np -> cell counts t k = bcount t k) ->
  pointers_of T np counts = Ok (tabulate2 T np ptr0).
Proof.
  intros [Hl Hr] Hc. unfold pointers_of.
  destruct (T * np <=? 0) eqn:E; [apply Z.leb_le in E; nia|].
  f_equal. unfold reshape_T. fold (tabulate2 T np (fun t k => nth (Z.to_nat (k * T + t)) (excl_scan 0 (transposed_flat np counts)) 0)).
  apply tabulate2_ext. intros t k Ht Hk.
  set (g := fun k' => map (fun t' => bcount t' k') (zrange T)).
  assert (Hflat : transposed_flat np counts = flat_map g (zrange np)).
  { unfold transposed_flat. apply flat_map_ext_in'. intros k' Hk'. apply zrange_In in Hk'.
    rewrite (col_spec counts T k' Hl). unfold g. apply map_ext_in. intros t' Ht'. apply zrange_In in Ht'.
    apply Hc; assumption. }
  rewrite Hflat.
  assert (Hg : forall k', 0 <= k' < np -> length (g k') = Z.to_nat T).
  { intros k' _. unfold g. rewrite map_length, zrange_length. reflexivity. }
  rewrite excl_scan_nth.
  - rewrite (firstn_flat_rows g np T k t) by (try lia; exact Hg).
    rewrite zsum_app, zsum_flat_map.
    unfold ptr0. rewrite Z.add_0_l. f_equal.
    + rewrite (map_ext_in _ (fun k' => Z.of_nat (ncnt k' fk))).
      * rewrite <- (Z2Nat.id k) at 1 by lia. rewrite sum_keys. rewrite Z2Nat.id by lia. reflexivity.
      * intros k' _. unfold g. apply sum_blocks_all.
    + unfold g. rewrite firstn_map, firstn_zrange by lia.
      rewrite <- (Z2Nat.id t) at 1 by lia. rewrite sum_blocks by lia. rewrite Z2Nat.id by lia. reflexivity.
  - rewrite (flat_map_const_length g (zrange np) (Z.to_nat T)).
    + rewrite zrange_length. nia.
    + intros x Hx. apply zrange_In in Hx. apply Hg. exact Hx.
Qed.

(* the cell ranges [ptr0 t k, ptr0 t k + bcount t k) tile [0, N) in (k, t) lexicographic order *)
Lemma ranges_tile :
  ptr0 0 0 = 0 /\
  (forall t k, 0 <= t < T -> ptr0 (t + 1) k = ptr0 t k + bcount t k) /\
  (forall k, ptr0 T k = ptr0 0 (k + 1)) /\
  ptr0 0 np = N.
Proof.
  unfold ptr0, bcount. rewrite ts_0, ts_T. cbn [Z.to_nat firstn]. split; [|split; [|split]].
  - rewrite ncnt_nil. rewrite nlt_low; [reflexivity|]. intros x Hx. apply Hfk in Hx. lia.
  - intros t k Ht. rewrite (firstn_seg fk (ts t) (ts (t + 1))) by (split; [apply ts_nonneg; lia|apply ts_adj; lia]).
    rewrite ncnt_app. lia.
  - intros k. rewrite firstn_all2 by (unfold len in Hfk_len; lia). rewrite !ncnt_nil. rewrite nlt_succ. lia.
  - rewrite ncnt_nil. rewrite nlt_high by (intros x Hx; apply Hfk in Hx; lia). unfold len in Hfk_len. lia.
Qed.

End Blocks.
