(* C17/ProofsKey.v — the generated stripe-key expression (Gen.key_expr, regenerated from tsc.py on every run) is the
   specification's stripe index and lies in [0, npartition) on the documented domain 0 <= x <= boxsize. *)
From Coq Require Import ZArith QArith Qround Lia Lqa.
From Abacus.Common Require Import Arr Num.
From Abacus.C17 Require Import Gen Spec.
Local Open Scope Z_scope.

Lemma Qtrunc_nonneg q : (0 <= q)%Q -> Qtrunc q = Qfloor q.
Proof. intros H. unfold Qtrunc. apply Qle_bool_iff in H. rewrite H. reflexivity. Qed.

Lemma scaled_nonneg np box x : 1 <= np -> (0 < box)%Q -> (0 <= x)%Q -> (0 <= x * (inject_Z np / box))%Q.
Proof.
  intros Hnp Hb Hx. apply Qmult_le_0_compat; [exact Hx|].
  apply Qle_shift_div_l; [exact Hb|]. rewrite Qmult_0_l.
  change 0%Q with (inject_Z 0). rewrite <- Zle_Qle. lia.
Qed.

Lemma scaled_eq np box x : (0 < box)%Q -> (x * (inject_Z np / box) == x * inject_Z np / box)%Q.
Proof. intros Hb. field. intros E. rewrite E in Hb. exact (Qlt_irrefl 0 Hb). Qed.

Lemma key_spec_lemma : forall np box x,
  1 <= np -> (0 < box)%Q -> (0 <= x)%Q -> (x <= box)%Q ->
  key_expr np box x = stripe_index np box x /\ 0 <= key_expr np box x < np.
Proof.
  intros np box x Hnp Hb Hx0 Hx1. unfold key_expr, inv_pwidth, stripe_index.
  pose proof (scaled_nonneg np box x Hnp Hb Hx0) as Hq.
  rewrite Qtrunc_nonneg by exact Hq.
  rewrite (Qfloor_comp _ _ (scaled_eq np box x Hb)).
  split; [reflexivity|].
  assert (0 <= Qfloor (x * inject_Z np / box)).
  { change 0 with (Qfloor 0). apply Qfloor_resp_le. rewrite <- (scaled_eq np box x Hb). exact Hq. }
  lia.
Qed.

(* the last stripe is closed above: x = boxsize lands in stripe np-1; below boxsize the key is the plain floor *)
Lemma key_at_box_lemma : forall np box, 1 <= np -> (0 < box)%Q -> key_expr np box box = np - 1.
Proof.
  intros np box Hnp Hb.
  destruct (key_spec_lemma np box box Hnp Hb (Qlt_le_weak _ _ Hb) (Qle_refl _)) as [E _]. rewrite E.
  unfold stripe_index.
  assert (Hq : (box * inject_Z np / box == inject_Z np)%Q).
  { field. intros E0. rewrite E0 in Hb. exact (Qlt_irrefl 0 Hb). }
  rewrite (Qfloor_comp _ _ Hq), Qfloor_Z. lia.
Qed.

Lemma key_below_box_lemma : forall np box x,
  1 <= np -> (0 < box)%Q -> (0 <= x)%Q -> (x < box)%Q -> key_expr np box x = Qfloor (x * inject_Z np / box).
Proof.
  intros np box x Hnp Hb Hx0 Hx1.
  destruct (key_spec_lemma np box x Hnp Hb Hx0 (Qlt_le_weak _ _ Hx1)) as [E _]. rewrite E.
  unfold stripe_index.
  assert (Hlt : (x * inject_Z np / box < inject_Z np)%Q).
  { apply Qlt_shift_div_r; [exact Hb|]. rewrite (Qmult_comm (inject_Z np)).
    apply Qmult_lt_compat_r; [|exact Hx1]. change 0%Q with (inject_Z 0). rewrite <- Zlt_Qlt. lia. }
  pose proof (Qfloor_le (x * inject_Z np / box)) as Hf.
  assert (Hz : (inject_Z (Qfloor (x * inject_Z np / box)) < inject_Z np)%Q) by (eapply Qle_lt_trans; eassumption).
  rewrite <- Zlt_Qlt in Hz. lia.
Qed.
