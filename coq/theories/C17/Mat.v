(* C17/Mat.v — facts about the model's 2-d arrays (lists of rows), prefix sums and the transposed flattening. *)
From Coq Require Import ZArith List Bool Lia Arith.
From Abacus.Common Require Import Arr.
From Abacus.C17 Require Import Model Lib.
Import ListNotations.
Local Open Scope Z_scope.

Definition cell (m : list (list Z)) (t k : Z) : Z := nth (Z.to_nat k) (nth (Z.to_nat t) m []) 0.
Definition shaped (T np : Z) (m : list (list Z)) : Prop :=
  len m = T /\ forall t, 0 <= t < T -> len (nth (Z.to_nat t) m []) = np.

Lemma nth_error_set_nth_same {A} (l : list A) k a : (k < length l)%nat -> nth_error (set_nth l k a) k = Some a.
Proof. revert k; induction l as [|h t IH]; intros [|k] H; cbn in *; try lia; auto. apply IH; lia. Qed.

Lemma nth_error_set_nth_other {A} (l : list A) k j a : k <> j -> nth_error (set_nth l k a) j = nth_error l j.
Proof. revert k j; induction l as [|h t IH]; intros [|k] [|j] H; cbn; auto; try congruence. Qed.

Lemma get2_ok m T np t k : shaped T np m -> 0 <= t < T -> 0 <= k < np -> get2 m t k = Ok (cell m t k).
Proof.
  intros [Hl Hr] Ht Hk. unfold get2, cell.
  rewrite (get_ok_nth m t []) by lia. cbn [bind].
  rewrite (get_ok_nth _ k 0) by (rewrite Hr; lia). reflexivity.
Qed.

Lemma upd2_ok m T np t k f :
  shaped T np m -> 0 <= t < T -> 0 <= k < np ->
  exists m', upd2 m t k f = Ok m' /\ shaped T np m' /\
    forall t' k', 0 <= t' -> 0 <= k' ->
      cell m' t' k' = if (t' =? t) && (k' =? k) then f (cell m t k) else cell m t' k'.
Proof.
  intros [Hl Hr] Ht Hk. unfold upd2, upd.
  rewrite (get_ok_nth m t []) by lia. cbn [bind].
  set (row := nth (Z.to_nat t) m []).
  assert (Hrow : len row = np) by (apply Hr; lia).
  rewrite (get_ok_nth row k 0) by lia. cbn [bind].
  rewrite set_ok by lia. cbn [bind]. rewrite set_ok by lia.
  eexists. split; [reflexivity|].
  assert (Hlt : (Z.to_nat t < length m)%nat) by (unfold len in Hl; lia).
  assert (Hlk : (Z.to_nat k < length row)%nat) by (unfold len in Hrow; lia).
  split.
  - split.
    + unfold len. rewrite set_nth_length. exact Hl.
    + intros t' Ht'. destruct (Z.eq_dec t' t) as [->|Hne].
      * rewrite set_nth_nth by exact Hlt. unfold len. rewrite set_nth_length. exact Hrow.
      * rewrite set_nth_nth_other by lia. apply Hr. exact Ht'.
  - intros t' k' Ht' Hk'. unfold cell.
    destruct (t' =? t) eqn:Et; cbn [andb].
    + apply Z.eqb_eq in Et; subst t'. rewrite set_nth_nth by exact Hlt.
      destruct (k' =? k) eqn:Ek.
      * apply Z.eqb_eq in Ek; subst k'. rewrite set_nth_nth by exact Hlk. reflexivity.
      * apply Z.eqb_neq in Ek. rewrite set_nth_nth_other by lia. reflexivity.
    + apply Z.eqb_neq in Et. rewrite set_nth_nth_other by lia. reflexivity.
Qed.

Lemma nth_repeat_lt {A} (a d : A) n i : (i < n)%nat -> nth i (repeat a n) d = a.
Proof. revert i; induction n as [|n IH]; intros [|i] H; cbn; try lia; auto. apply IH; lia. Qed.

Lemma zeros2_shaped T np : 0 <= T -> 0 <= np -> shaped T np (zeros2 T np).
Proof.
  intros HT Hnp. unfold shaped, zeros2, len. rewrite repeat_length. split; [lia|].
  intros t Ht. rewrite nth_repeat_lt by lia. rewrite repeat_length. lia.
Qed.

Lemma zeros2_cell T np t k : 0 <= t < T -> 0 <= k < np -> cell (zeros2 T np) t k = 0.
Proof.
  intros Ht Hk. unfold cell, zeros2. rewrite nth_repeat_lt by lia. apply nth_repeat_lt. lia.
Qed.

Definition tabulate2 (T np : Z) (F : Z -> Z -> Z) : list (list Z) := map (fun t => map (F t) (zrange np)) (zrange T).

Lemma map_zrange_nth {B} (f : Z -> B) n i d : (i < Z.to_nat n)%nat -> nth i (map f (zrange n)) d = f (Z.of_nat i).
Proof.
  intros H. rewrite nth_indep with (d' := f 0) by (rewrite map_length, zrange_length; exact H).
  rewrite map_nth. rewrite zrange_nth by exact H. reflexivity.
Qed.

Lemma tabulate2_shaped T np F : 0 <= T -> 0 <= np -> shaped T np (tabulate2 T np F).
Proof.
  intros HT Hnp. unfold shaped, tabulate2, len. rewrite map_length, zrange_length. split; [lia|].
  intros t Ht. rewrite map_zrange_nth by lia. rewrite map_length, zrange_length. lia.
Qed.

Lemma tabulate2_cell T np F t k : 0 <= t < T -> 0 <= k < np -> cell (tabulate2 T np F) t k = F t k.
Proof.
  intros Ht Hk. unfold cell, tabulate2. rewrite map_zrange_nth by lia. rewrite map_zrange_nth by lia.
  rewrite !Z2Nat.id by lia. reflexivity.
Qed.

Lemma tabulate2_row T np F t : 0 <= t < T -> nth (Z.to_nat t) (tabulate2 T np F) [] = map (F t) (zrange np).
Proof.
  intros Ht. unfold tabulate2. rewrite map_zrange_nth by lia. rewrite Z2Nat.id by lia. reflexivity.
Qed.

Lemma tabulate2_ext T np F G :
  (forall t k, 0 <= t < T -> 0 <= k < np -> F t k = G t k) -> tabulate2 T np F = tabulate2 T np G.
Proof.
  intros H. unfold tabulate2. apply map_ext_in. intros t Ht. apply zrange_In in Ht.
  apply map_ext_in. intros k Hk. apply zrange_In in Hk. apply H; assumption.
Qed.

Lemma nth_map_lt {A B} (f : A -> B) l n d d' : (n < length l)%nat -> nth n (map f l) d' = f (nth n l d).
Proof.
  intros H. rewrite nth_indep with (d' := f d) by (rewrite map_length; exact H). apply map_nth.
Qed.

(* column k of a matrix with T rows *)
Lemma col_spec m T k : len m = T -> col m k = map (fun t => cell m t k) (zrange T).
Proof.
  intros Hl. unfold col. apply nth_ext with (d := 0) (d' := 0).
  - rewrite !map_length, zrange_length. unfold len in Hl. lia.
  - intros n Hn. rewrite map_length in Hn.
    rewrite map_zrange_nth by (unfold len in Hl; lia).
    unfold cell. rewrite Nat2Z.id.
    rewrite (nth_map_lt _ m n []) by exact Hn. reflexivity.
Qed.

(* ---- sums and exclusive prefix sums ---------------------------------------------------------------------------- *)
Fixpoint zsum (l : list Z) : Z := match l with [] => 0 | x :: t => x + zsum t end.

Lemma zsum_app a b : zsum (a ++ b) = zsum a + zsum b.
Proof. induction a as [|x a IH]; cbn [app zsum]; lia. Qed.

Lemma excl_scan_length l : forall acc, length (excl_scan acc l) = length l.
Proof. induction l as [|x l IH]; intros acc; cbn; auto. Qed.

Lemma excl_scan_nth l : forall acc n, (n < length l)%nat -> nth n (excl_scan acc l) 0 = acc + zsum (firstn n l).
Proof.
  induction l as [|x l IH]; intros acc n H; [cbn in H; lia|].
  destruct n as [|n]; cbn [excl_scan nth firstn zsum]; [lia|].
  rewrite IH by (cbn in H; lia). lia.
Qed.

Lemma zsum_flat_map {B} (g : B -> list Z) l : zsum (flat_map g l) = zsum (map (fun x => zsum (g x)) l).
Proof. induction l as [|x l IH]; [reflexivity|]. cbn [flat_map map zsum]. rewrite zsum_app, IH. reflexivity. Qed.

Lemma flat_map_const_length {B} (g : B -> list Z) l m :
  (forall x, In x l -> length (g x) = m) -> length (flat_map g l) = (length l * m)%nat.
Proof.
  induction l as [|x l IH]; intros H; [reflexivity|]. cbn [flat_map length]. rewrite app_length.
  rewrite IH by (intros y Hy; apply H; right; exact Hy). rewrite (H x) by (left; reflexivity). lia.
Qed.

(* the first k*T + t entries of the row-concatenation of an np x T table: k full rows and t entries of row k *)
Lemma firstn_flat_rows (g : Z -> list Z) np T k t :
  0 <= k < np -> 0 <= t <= T -> (forall k', 0 <= k' < np -> length (g k') = Z.to_nat T) ->
  firstn (Z.to_nat (k * T + t)) (flat_map g (zrange np)) = flat_map g (zrange k) ++ firstn (Z.to_nat t) (g k).
Proof.
  intros Hk Ht Hg. destruct (zrange_split np k Hk) as [rest Hsp]. rewrite Hsp, flat_map_app. cbn [flat_map].
  assert (Hlen : length (flat_map g (zrange k)) = Z.to_nat (k * T)).
  { rewrite (flat_map_const_length g (zrange k) (Z.to_nat T)).
    - rewrite zrange_length. rewrite Z2Nat.inj_mul by lia. reflexivity.
    - intros x Hx. apply zrange_In in Hx. apply Hg. lia. }
  replace (Z.to_nat (k * T + t)) with (length (flat_map g (zrange k)) + Z.to_nat t)%nat by (rewrite Hlen; nia).
  rewrite firstn_app_2. f_equal. rewrite firstn_app.
  replace (Z.to_nat t - length (g k))%nat with O by (rewrite Hg by lia; lia).
  cbn [firstn]. rewrite app_nil_r. reflexivity.
Qed.
