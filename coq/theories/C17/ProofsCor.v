(* C17/ProofsCor.v — consequences of the specification itself: it is a permutation, stripe k occupies exactly
   [starts k, starts (k+1)), the offsets run from 0 to N without decreasing, pairs (position, weight) stay together. *)
From Coq Require Import ZArith List Bool Lia Arith Permutation.
From Abacus.Common Require Import Arr.
From Abacus.C17 Require Import Model Spec Lib Mat Blocks Proofs.
Import ListNotations.
Local Open Scope Z_scope.

Lemma zrange_NoDup n : NoDup (zrange n).
Proof.
  unfold zrange. apply FinFun.Injective_map_NoDup; [|apply seq_NoDup]. intros a b H. apply Nat2Z.inj. exact H.
Qed.

Section Cor.
Context {A : Type}.
Variable key : A -> Z.

Lemma flat_map_insert_absent (x : A) ks xs :
  ~ In (key x) ks -> flat_map (fun k => stripe key k (x :: xs)) ks = flat_map (fun k => stripe key k xs) ks.
Proof.
  intros H. apply flat_map_ext_in'. intros k Hk. unfold stripe. cbn [filter].
  destruct (key x =? k) eqn:E; [apply Z.eqb_eq in E; subst k; contradiction|reflexivity].
Qed.

Lemma flat_map_insert_perm (x : A) ks xs :
  NoDup ks -> In (key x) ks ->
  Permutation (x :: flat_map (fun k => stripe key k xs) ks) (flat_map (fun k => stripe key k (x :: xs)) ks).
Proof.
  induction ks as [|k ks IH]; intros Hnd Hin; [destruct Hin|].
  inversion Hnd as [|? ? Hnk Hnd']; subst. cbn [flat_map].
  destruct (Z.eq_dec (key x) k) as [E|E].
  - subst k. rewrite flat_map_insert_absent by exact Hnk. unfold stripe at 3. cbn [filter]. rewrite Z.eqb_refl.
    reflexivity.
  - destruct Hin as [Hin|Hin]; [congruence|].
    assert (Es : stripe key k (x :: xs) = stripe key k xs).
    { unfold stripe. cbn [filter]. destruct (key x =? k) eqn:E1; [apply Z.eqb_eq in E1; congruence|reflexivity]. }
    rewrite Es. etransitivity; [apply Permutation_middle|]. apply Permutation_app_head. apply IH; assumption.
Qed.

Lemma sort_is_permutation np xs :
  (forall x, In x xs -> 0 <= key x < np) -> Permutation xs (stable_counting_sort key np xs).
Proof.
  unfold stable_counting_sort. change (upto np) with (zrange np).
  induction xs as [|x xs IH]; intros Hk.
  - induction (zrange np) as [|k ks IHk]; [constructor|]. cbn [flat_map]. exact IHk.
  - etransitivity; [apply perm_skip; apply IH; intros y Hy; apply Hk; right; exact Hy|].
    apply flat_map_insert_perm; [apply zrange_NoDup|]. apply zrange_In. apply Hk. left. reflexivity.
Qed.

Lemma stripe_length k xs : Z.of_nat (length (stripe key k xs)) = count_below key (k + 1) xs - count_below key k xs.
Proof.
  unfold stripe, count_below, len. induction xs as [|x xs IH]; [reflexivity|]. cbn [filter].
  destruct (key x =? k) eqn:E1; destruct (key x <? k + 1) eqn:E2; destruct (key x <? k) eqn:E3; cbn [length]; lia.
Qed.

Lemma count_below_mono k k' xs : k <= k' -> count_below key k xs <= count_below key k' xs.
Proof.
  intros H. unfold count_below, len. induction xs as [|x xs IH]; [cbn; lia|]. cbn [filter].
  destruct (key x <? k) eqn:E1; destruct (key x <? k') eqn:E2; cbn [length]; lia.
Qed.

Lemma count_below_0' xs : (forall x, In x xs -> 0 <= key x) -> count_below key 0 xs = 0.
Proof.
  intros Hk. unfold count_below, len. induction xs as [|x xs IH]; [reflexivity|]. cbn [filter].
  destruct (key x <? 0) eqn:E; [specialize (Hk x (or_introl eq_refl)); lia|].
  apply IH. intros y Hy. apply Hk. right. exact Hy.
Qed.

Lemma count_below_0 np xs : (forall x, In x xs -> 0 <= key x < np) -> count_below key 0 xs = 0.
Proof. intros Hk. apply count_below_0'. intros x Hx. apply Hk in Hx. lia. Qed.

Lemma count_below_np np xs : (forall x, In x xs -> 0 <= key x < np) -> count_below key np xs = len xs.
Proof.
  intros Hk. unfold count_below, len. induction xs as [|x xs IH]; [reflexivity|]. cbn [filter].
  destruct (key x <? np) eqn:E; [|specialize (Hk x (or_introl eq_refl)); lia].
  cbn [length]. rewrite !Nat2Z.inj_succ. f_equal. apply IH. intros y Hy. apply Hk. right. exact Hy.
Qed.

Lemma prefix_length xs (n : nat) : (forall x, In x xs -> 0 <= key x) ->
  Z.of_nat (length (flat_map (fun k => stripe key k xs) (zrange (Z.of_nat n)))) = count_below key (Z.of_nat n) xs.
Proof.
  intros Hk. induction n as [|n IH].
  - change (Z.of_nat 0) with 0. rewrite count_below_0' by exact Hk. reflexivity.
  - rewrite zrange_S, flat_map_app, app_length. cbn [flat_map]. rewrite app_nil_r.
    rewrite Nat2Z.inj_add, IH, stripe_length. replace (Z.of_nat (S n)) with (Z.of_nat n + 1) by lia. lia.
Qed.

(* stripe k occupies exactly the cells [starts k, starts (k+1)) of the output *)
Lemma stripe_location np xs k :
  (forall x, In x xs -> 0 <= key x < np) -> 0 <= k < np ->
  seg (stable_counting_sort key np xs) (count_below key k xs) (count_below key (k + 1) xs) = stripe key k xs.
Proof.
  intros Hk Hkr. unfold stable_counting_sort. change (upto np) with (zrange np).
  destruct (zrange_split np k Hkr) as [rest Hsp]. rewrite Hsp, flat_map_app. cbn [flat_map].
  assert (Hpre : Z.of_nat (length (flat_map (fun k0 => stripe key k0 xs) (zrange k))) = count_below key k xs).
  { rewrite <- (Z2Nat.id k) at 1 2 by lia. apply prefix_length. intros x Hx. apply Hk in Hx. lia. }
  pose proof (stripe_length k xs) as Hs.
  unfold seg. rewrite <- Hpre. rewrite Nat2Z.id. rewrite skipn_app, skipn_all, Nat.sub_diag. cbn [skipn app].
  replace (Z.to_nat (count_below key (k + 1) xs - Z.of_nat (length (flat_map (fun k0 => stripe key k0 xs) (zrange k)))))
    with (length (stripe key k xs)) by lia.
  rewrite firstn_app, firstn_all, Nat.sub_diag. cbn [firstn]. apply app_nil_r.
Qed.

Lemma starts_spec_length np xs : 0 <= np -> len (starts_spec key np xs) = np + 1.
Proof. intros H. unfold starts_spec, len. change (upto (np + 1)) with (zrange (np + 1)). rewrite map_length, zrange_length. lia. Qed.

Lemma starts_spec_nth np xs k : 0 <= k <= np -> nth (Z.to_nat k) (starts_spec key np xs) 0 = count_below key k xs.
Proof.
  intros H. unfold starts_spec. change (upto (np + 1)) with (zrange (np + 1)).
  rewrite map_zrange_nth by lia. rewrite Z2Nat.id by lia. reflexivity.
Qed.

End Cor.

Lemma starts_properties_lemma : forall (A : Type) (key : A -> Z) np xs,
  1 <= np -> (forall x, In x xs -> 0 <= key x < np) ->
  let st := starts_spec key np xs in
  len st = np + 1 /\ nth 0 st 0 = 0 /\ nth (Z.to_nat np) st 0 = len xs /\
  (forall k, 0 <= k < np -> nth (Z.to_nat k) st 0 <= nth (Z.to_nat (k + 1)) st 0) /\
  (forall k, 0 <= k < np ->
     seg (stable_counting_sort key np xs) (nth (Z.to_nat k) st 0) (nth (Z.to_nat (k + 1)) st 0) = stripe key k xs).
Proof.
  intros A key np xs Hnp Hk st. subst st. split; [apply starts_spec_length; lia|].
  split; [pose proof (starts_spec_nth key np xs 0 ltac:(lia)) as H0; change (Z.to_nat 0) with O in H0; rewrite H0;
          apply (count_below_0 key np); exact Hk|].
  split; [rewrite starts_spec_nth by lia; apply count_below_np; exact Hk|].
  split.
  - intros k Hkr. rewrite !starts_spec_nth by lia. apply count_below_mono. lia.
  - intros k Hkr. rewrite !starts_spec_nth by lia. apply stripe_location; assumption.
Qed.

(* positions and weights stay paired *)
Lemma stripe_fst {P W} (keyf : P -> Z) k pos : forall (w : list W), length w = length pos ->
  map fst (stripe (fun pw => keyf (fst pw)) k (combine pos w)) = stripe keyf k pos.
Proof.
  induction pos as [|x pos IH]; intros w Hl; [reflexivity|].
  destruct w as [|y w]; [cbn in Hl; lia|]. unfold stripe. cbn [combine filter fst].
  fold (stripe (fun pw : P * W => keyf (fst pw)) k (combine pos w)). fold (stripe keyf k pos).
  destruct (keyf x =? k); cbn [map fst]; rewrite IH by (cbn in Hl; lia); reflexivity.
Qed.

Lemma combine_fst_snd {A B} (l : list (A * B)) : combine (map fst l) (map snd l) = l.
Proof. induction l as [|[a b] l IH]; [reflexivity|]. cbn. rewrite IH. reflexivity. Qed.

Lemma pairs_stay_together {P W} (keyf : P -> Z) np pos (w : list W) : length w = length pos ->
  combine (stable_counting_sort keyf np pos)
          (map snd (stable_counting_sort (fun pw => keyf (fst pw)) np (combine pos w)))
  = stable_counting_sort (fun pw => keyf (fst pw)) np (combine pos w).
Proof.
  intros Hl.
  assert (E : stable_counting_sort keyf np pos = map fst (stable_counting_sort (fun pw => keyf (fst pw)) np (combine pos w))).
  { unfold stable_counting_sort. rewrite map_flat_map. apply flat_map_ext_in'. intros k _. symmetry.
    apply stripe_fst. exact Hl. }
  rewrite E. apply combine_fst_snd.
Qed.

Lemma sort_nil {A} (key : A -> Z) np : stable_counting_sort key np [] = [].
Proof. unfold stable_counting_sort. induction (upto np) as [|k ks IH]; [reflexivity|]. cbn [flat_map]. exact IH. Qed.
