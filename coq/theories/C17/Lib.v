(* C17/Lib.v — pure list facts behind the counting sort: occurrence counts, the destination map
   dest i = #{key < key_i} + #{i' < i | key_i' = key_i}, its bijectivity, and the fact that it realises the
   concatenation of the key classes (no reference to threads or to the model). *)
From Coq Require Import ZArith List Bool Lia Arith.
From Abacus.Common Require Import Arr.
From Abacus.C17 Require Import Model.
Import ListNotations.
Local Open Scope Z_scope.

Lemma list_ext_nth_error {A} (l1 l2 : list A) : (forall n, nth_error l1 n = nth_error l2 n) -> l1 = l2.
Proof.
  revert l2; induction l1 as [|a l1 IH]; intros l2 H.
  - destruct l2 as [|b l2]; [reflexivity|]. specialize (H O). discriminate.
  - destruct l2 as [|b l2]; [specialize (H O); discriminate|].
    pose proof (H O) as H0. cbn in H0. inversion H0; subst. f_equal. apply IH. intros n. exact (H (S n)).
Qed.

(* ---- zrange ------------------------------------------------------------------------------------------- *)
Lemma zrange_length n : length (zrange n) = Z.to_nat n.
Proof. unfold zrange. rewrite map_length, seq_length. reflexivity. Qed.

Lemma zrange_S (n : nat) : zrange (Z.of_nat (S n)) = zrange (Z.of_nat n) ++ [Z.of_nat n].
Proof.
  unfold zrange. rewrite !Nat2Z.id. rewrite seq_S, map_app. reflexivity.
Qed.

Lemma zrange_0 : zrange 0 = [].
Proof. reflexivity. Qed.

Lemma zrange_nth n i d : (i < Z.to_nat n)%nat -> nth i (zrange n) d = Z.of_nat i.
Proof.
  intros H. unfold zrange. rewrite nth_indep with (d' := Z.of_nat 0) by (rewrite map_length, seq_length; exact H).
  rewrite map_nth. rewrite seq_nth by exact H. reflexivity.
Qed.

Lemma zrange_In n k : In k (zrange n) <-> 0 <= k < n.
Proof.
  unfold zrange. rewrite in_map_iff. split.
  - intros [x [E H]]. apply in_seq in H. lia.
  - intros H. exists (Z.to_nat k). split; [lia|]. apply in_seq. lia.
Qed.

Lemma zrange_split n k : 0 <= k < n -> exists rest, zrange n = zrange k ++ k :: rest.
Proof.
  intros H. unfold zrange.
  replace (Z.to_nat n) with (Z.to_nat k + S (Z.to_nat (n - k - 1)))%nat by lia.
  rewrite seq_app, map_app. cbn [seq map Nat.add]. rewrite Z2Nat.id by lia.
  eexists. reflexivity.
Qed.

Lemma firstn_zrange n t : 0 <= t <= n -> firstn (Z.to_nat t) (zrange n) = zrange t.
Proof.
  intros H. unfold zrange. rewrite firstn_map. f_equal.
  replace (Z.to_nat n) with (Z.to_nat t + Z.to_nat (n - t))%nat by lia.
  rewrite seq_app. rewrite firstn_app. rewrite seq_length, Nat.sub_diag. cbn [firstn]. rewrite app_nil_r.
  apply firstn_all2. rewrite seq_length. lia.
Qed.

(* ---- counts ---------------------------------------------------------------------------------------------- *)
Definition ncnt (k : Z) (l : list Z) : nat := length (filter (fun x => x =? k) l).
Definition nlt (k : Z) (l : list Z) : nat := length (filter (fun x => x <? k) l).

Lemma ncnt_app k l1 l2 : ncnt k (l1 ++ l2) = (ncnt k l1 + ncnt k l2)%nat.
Proof. unfold ncnt. rewrite filter_app, app_length. reflexivity. Qed.

Lemma ncnt_nil k : ncnt k [] = O.
Proof. reflexivity. Qed.

Lemma ncnt_one k x : ncnt k [x] = if x =? k then 1%nat else 0%nat.
Proof. unfold ncnt. cbn. destruct (x =? k); reflexivity. Qed.

Lemma ncnt_le_length k l : (ncnt k l <= length l)%nat.
Proof. unfold ncnt. induction l as [|x l IH]; [cbn; lia|]. cbn [filter]. destruct (x =? k); cbn [length]; lia. Qed.

Lemma nlt_succ k l : nlt (k + 1) l = (nlt k l + ncnt k l)%nat.
Proof.
  unfold nlt, ncnt. induction l as [|x l IH]; [reflexivity|]. cbn [filter].
  destruct (x <? k + 1) eqn:E1; destruct (x <? k) eqn:E2; destruct (x =? k) eqn:E3; cbn [length]; lia.
Qed.

Lemma nlt_low k l : (forall x, In x l -> k <= x) -> nlt k l = O.
Proof.
  unfold nlt. induction l as [|x l IH]; intros H; [reflexivity|]. cbn [filter].
  destruct (x <? k) eqn:E; [specialize (H x (or_introl eq_refl)); lia|].
  apply IH. intros y Hy. apply H. right. exact Hy.
Qed.

Lemma nlt_high k l : (forall x, In x l -> x < k) -> nlt k l = length l.
Proof.
  unfold nlt. induction l as [|x l IH]; intros H; [reflexivity|]. cbn [filter].
  destruct (x <? k) eqn:E; [|specialize (H x (or_introl eq_refl)); lia].
  cbn [length]. f_equal. apply IH. intros y Hy. apply H. right. exact Hy.
Qed.

Lemma nlt_mono k k' l : k <= k' -> (nlt k l <= nlt k' l)%nat.
Proof.
  intros H. unfold nlt. induction l as [|x l IH]; [cbn; lia|]. cbn [filter].
  destruct (x <? k) eqn:E1; destruct (x <? k') eqn:E2; cbn [length]; lia.
Qed.

(* #{key <= k} <= #{key < k'} for k < k' *)
Lemma nlt_step_le k k' l : k < k' -> (nlt k l + ncnt k l <= nlt k' l)%nat.
Proof. intros H. rewrite <- nlt_succ. apply nlt_mono. lia. Qed.

Lemma firstn_succ_nth {A} (l : list A) i d : (i < length l)%nat -> firstn (S i) l = firstn i l ++ [nth i l d].
Proof.
  revert i; induction l as [|x l IH]; intros i H; [cbn in H; lia|].
  destruct i as [|i]; [reflexivity|]. cbn [firstn nth app]. f_equal. apply IH. cbn in H. lia.
Qed.

Lemma ncnt_firstn_le k l i : (ncnt k (firstn i l) <= ncnt k l)%nat.
Proof.
  rewrite <- (firstn_skipn i l) at 2. rewrite ncnt_app. lia.
Qed.

Lemma ncnt_firstn_mono k l i j : (i <= j)%nat -> (ncnt k (firstn i l) <= ncnt k (firstn j l))%nat.
Proof.
  intros H. replace i with (Nat.min i j) by lia. rewrite <- firstn_firstn. apply ncnt_firstn_le.
Qed.

(* an occurrence at position i is not yet counted in the first i elements *)
Lemma ncnt_firstn_lt (l : list Z) i : (i < length l)%nat -> (ncnt (nth i l 0%Z) (firstn i l) < ncnt (nth i l 0%Z) (firstn (S i) l))%nat.
Proof.
  intros H. rewrite (firstn_succ_nth l i 0 H). rewrite ncnt_app, ncnt_one. rewrite Z.eqb_refl. lia.
Qed.

(* ---- the destination map ------------------------------------------------------------------------------------ *)
Definition ndest (keys : list Z) (i : nat) : nat :=
  let k := nth i keys 0 in (nlt k keys + ncnt k (firstn i keys))%nat.

Lemma ndest_lt_next keys i : (i < length keys)%nat ->
  (ndest keys i < nlt (nth i keys 0%Z) keys + ncnt (nth i keys 0%Z) keys)%nat.
Proof.
  intros H. unfold ndest. cbn zeta.
  pose proof (ncnt_firstn_lt keys i H). pose proof (ncnt_firstn_le (nth i keys 0) keys (S i)). lia.
Qed.

Lemma ndest_range np keys i :
  (forall x, In x keys -> 0 <= x < np) -> (i < length keys)%nat -> (ndest keys i < length keys)%nat.
Proof.
  intros Hk H. pose proof (ndest_lt_next keys i H) as H1.
  rewrite <- nlt_succ in H1.
  assert (nlt (nth i keys 0%Z + 1%Z) keys <= nlt np keys)%nat.
  { apply nlt_mono. specialize (Hk (nth i keys 0) (nth_In _ _ H)). lia. }
  rewrite (nlt_high np keys) in H0 by (intros x Hx; apply Hk in Hx; lia). lia.
Qed.

Lemma ndest_inj keys i j : (i < length keys)%nat -> (j < length keys)%nat -> ndest keys i = ndest keys j -> i = j.
Proof.
  assert (G : forall i j, (i < j)%nat -> (j < length keys)%nat -> ndest keys i <> ndest keys j).
  { intros a b Hab Hb E.
    destruct (Z.eq_dec (nth a keys 0) (nth b keys 0)) as [Ek|Ek].
    - unfold ndest in E. cbn zeta in E. rewrite Ek in E.
      assert (Ha : (a < length keys)%nat) by lia.
      pose proof (ncnt_firstn_lt keys a Ha) as H1. rewrite Ek in H1.
      pose proof (ncnt_firstn_mono (nth b keys 0) keys (S a) b ltac:(lia)). lia.
    - assert (Ha : (a < length keys)%nat) by lia.
      pose proof (ndest_lt_next keys a Ha) as H1. pose proof (ndest_lt_next keys b Hb) as H2.
      destruct (Z_lt_ge_dec (nth a keys 0) (nth b keys 0)) as [L|L].
      + pose proof (nlt_step_le _ _ keys L). unfold ndest in E at 2. cbn zeta in E. lia.
      + assert (L' : nth b keys 0 < nth a keys 0) by lia.
        pose proof (nlt_step_le _ _ keys L'). unfold ndest in E at 1. cbn zeta in E. lia. }
  intros Hi Hj E. destruct (lt_eq_lt_dec i j) as [[L|L]|L]; [|exact L|].
  - exfalso. exact (G i j L Hj E).
  - exfalso. symmetry in E. exact (G j i L Hi E).
Qed.

(* pigeonhole: an injection of [0,N) into [0,N) is onto *)
Lemma NoDup_map_inj_on {A B} (f : A -> B) l :
  (forall x y, In x l -> In y l -> f x = f y -> x = y) -> NoDup l -> NoDup (map f l).
Proof.
  induction l as [|a l IH]; intros Hinj Hnd; [constructor|].
  inversion Hnd as [|? ? Hna Hnd']; subst. cbn [map]. constructor.
  - intros Hin. apply in_map_iff in Hin. destruct Hin as [y [E Hy]].
    assert (y = a) by (apply Hinj; [right; exact Hy|left; reflexivity|exact E]). subst y. contradiction.
  - apply IH; [|exact Hnd']. intros x y Hx Hy. apply Hinj; right; assumption.
Qed.

Lemma ndest_onto np keys c :
  (forall x, In x keys -> 0 <= x < np) -> (c < length keys)%nat ->
  exists i, (i < length keys)%nat /\ ndest keys i = c.
Proof.
  intros Hk Hc. set (N := length keys).
  assert (Hnd : NoDup (map (ndest keys) (seq 0 N))).
  { apply NoDup_map_inj_on; [|apply seq_NoDup].
    intros x y Hx Hy. apply in_seq in Hx. apply in_seq in Hy. apply ndest_inj; subst N; lia. }
  assert (Hincl : incl (map (ndest keys) (seq 0 N)) (seq 0 N)).
  { intros y Hy. apply in_map_iff in Hy. destruct Hy as [x [E Hx]]. apply in_seq in Hx. apply in_seq.
    subst y. pose proof (ndest_range np keys x Hk ltac:(subst N; lia)). subst N. lia. }
  assert (Hlen : (length (seq 0 N) <= length (map (ndest keys) (seq 0 N)))%nat) by (rewrite map_length; lia).
  pose proof (NoDup_length_incl Hnd Hlen Hincl) as Hrev.
  assert (Hin : In c (seq 0 N)) by (apply in_seq; subst N; lia).
  apply Hrev in Hin. apply in_map_iff in Hin. destruct Hin as [i [E Hi]]. apply in_seq in Hi.
  exists i. split; [subst N; lia|exact E].
Qed.

(* ---- the key classes and their concatenation --------------------------------------------------------------- *)
Section Select.
Context {A : Type}.

Definition select (k : Z) (keys : list Z) (xs : list A) : list A :=
  map snd (filter (fun p => fst p =? k) (combine keys xs)).
Definition sort_by_keys (np : Z) (keys : list Z) (xs : list A) : list A :=
  flat_map (fun k => select k keys xs) (zrange np).

Lemma select_cons k k1 keys x xs :
  select k (k1 :: keys) (x :: xs) = if k1 =? k then x :: select k keys xs else select k keys xs.
Proof. unfold select. cbn [combine filter fst]. destruct (k1 =? k); reflexivity. Qed.

Lemma select_length k keys xs : length xs = length keys -> length (select k keys xs) = ncnt k keys.
Proof.
  revert xs; induction keys as [|k1 keys IH]; intros xs H.
  - destruct xs; reflexivity.
  - destruct xs as [|x xs]; [cbn in H; lia|]. rewrite select_cons. unfold ncnt. cbn [filter].
    destruct (k1 =? k); cbn [length]; [f_equal|]; apply IH; cbn in H; lia.
Qed.

(* the rank-th element of class key_i is element i *)
Lemma select_nth_error keys : forall xs i,
  length xs = length keys -> (i < length keys)%nat ->
  nth_error (select (nth i keys 0) keys xs) (ncnt (nth i keys 0) (firstn i keys)) = nth_error xs i.
Proof.
  induction keys as [|k1 keys IH]; intros xs i Hl Hi; [cbn in Hi; lia|].
  destruct xs as [|x xs]; [cbn in Hl; lia|].
  destruct i as [|i].
  - cbn [nth firstn]. rewrite select_cons, Z.eqb_refl. reflexivity.
  - cbn [nth firstn]. rewrite select_cons. unfold ncnt. cbn [filter]. fold (ncnt (nth i keys 0) (firstn i keys)).
    destruct (k1 =? nth i keys 0) eqn:E.
    + cbn [length nth_error]. apply IH; cbn in Hl, Hi; lia.
    + cbn [nth_error]. apply IH; cbn in Hl, Hi; lia.
Qed.

Lemma sort_prefix_length keys xs (n : nat) :
  length xs = length keys -> (forall x, In x keys -> 0 <= x) ->
  length (flat_map (fun k => select k keys xs) (zrange (Z.of_nat n))) = nlt (Z.of_nat n) keys.
Proof.
  intros Hl Hk. induction n as [|n IH].
  - cbn. symmetry. apply nlt_low. intros x Hx. apply Hk in Hx. lia.
  - rewrite zrange_S, flat_map_app, app_length, IH. cbn [flat_map]. rewrite app_nil_r.
    rewrite select_length by exact Hl. rewrite Nat2Z.inj_succ. unfold Z.succ. rewrite nlt_succ. reflexivity.
Qed.

Lemma sort_by_keys_length np keys xs :
  0 <= np -> length xs = length keys -> (forall x, In x keys -> 0 <= x < np) ->
  length (sort_by_keys np keys xs) = length keys.
Proof.
  intros Hnp Hl Hk. unfold sort_by_keys. rewrite <- (Z2Nat.id np) by exact Hnp.
  rewrite sort_prefix_length; [|exact Hl|intros x Hx; apply Hk in Hx; lia].
  apply nlt_high. intros x Hx. apply Hk in Hx. lia.
Qed.

(* element i of the input sits at position dest i of the concatenation of the classes *)
Lemma sort_by_keys_dest np keys xs i :
  length xs = length keys -> (forall x, In x keys -> 0 <= x < np) -> (i < length keys)%nat ->
  nth_error (sort_by_keys np keys xs) (ndest keys i) = nth_error xs i.
Proof.
  intros Hl Hk Hi. set (k := nth i keys 0).
  assert (Hkr : 0 <= k < np) by (apply Hk; apply nth_In; exact Hi).
  destruct (zrange_split np k Hkr) as [rest Hsp].
  unfold sort_by_keys. rewrite Hsp, flat_map_app. cbn [flat_map].
  assert (Hpre : length (flat_map (fun k0 => select k0 keys xs) (zrange k)) = nlt k keys).
  { rewrite <- (Z2Nat.id k) at 1 by lia. rewrite sort_prefix_length; [|exact Hl|intros x Hx; apply Hk in Hx; lia].
    rewrite Z2Nat.id by lia. reflexivity. }
  unfold ndest. cbn zeta. fold k. rewrite <- Hpre.
  rewrite nth_error_app2 by lia.
  replace (length (flat_map (fun k0 : Z => select k0 keys xs) (zrange k)) + ncnt k (firstn i keys) -
           length (flat_map (fun k0 : Z => select k0 keys xs) (zrange k)))%nat with (ncnt k (firstn i keys)) by lia.
  rewrite nth_error_app1.
  - apply select_nth_error; assumption.
  - rewrite select_length by exact Hl. pose proof (ncnt_firstn_lt keys i Hi). fold k in H.
    pose proof (ncnt_firstn_le k keys (S i)). lia.
Qed.

(* an array that holds element i at position dest i, for every i, is the concatenation of the classes *)
Lemma scattered_is_sorted np keys xs out :
  0 <= np -> length xs = length keys -> length out = length keys -> (forall x, In x keys -> 0 <= x < np) ->
  (forall i, (i < length keys)%nat -> nth_error out (ndest keys i) = nth_error xs i) ->
  out = sort_by_keys np keys xs.
Proof.
  intros Hnp Hl Ho Hk H.
  apply list_ext_nth_error. intros c.
  destruct (Nat.lt_ge_cases c (length keys)) as [Hc|Hc].
  - destruct (ndest_onto np keys c Hk Hc) as [i [Hi E]]. subst c.
    rewrite H by exact Hi. symmetry. apply sort_by_keys_dest; assumption.
  - transitivity (@None A).
    + apply nth_error_None. lia.
    + symmetry. apply nth_error_None. rewrite sort_by_keys_length by assumption. lia.
Qed.

End Select.
