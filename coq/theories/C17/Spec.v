(* C17/Spec.v — what partitioning must return, written independently of the code.

   stripe k xs              the particles of stripe k, in input order
   stable_counting_sort     stripe 0 ++ stripe 1 ++ ... ++ stripe (np-1)       (a stable sort by stripe index)
   starts_spec              [#{key < 0}; #{key < 1}; ...; #{key < np}]          (np+1 offsets)
   stripe_index             min(floor(x * np / box), np - 1): stripe s holds floor(x np / box) = s, the last stripe is
                            closed above (x = box goes to stripe np-1) *)
From Coq Require Import ZArith QArith Qround List Bool.
From Abacus.Common Require Import Arr.
Import ListNotations.
Local Open Scope Z_scope.

Definition upto (n : Z) : list Z := map Z.of_nat (seq 0 (Z.to_nat n)).

Section Spec.
Context {A : Type}.
Variable key : A -> Z.

Definition stripe (k : Z) (xs : list A) : list A := filter (fun x => key x =? k) xs.
Definition stable_counting_sort (np : Z) (xs : list A) : list A := flat_map (fun k => stripe k xs) (upto np).
Definition count_below (k : Z) (xs : list A) : Z := len (filter (fun x => key x <? k) xs).
Definition starts_spec (np : Z) (xs : list A) : list Z := map (fun k => count_below k xs) (upto (np + 1)).

End Spec.

(* thread-block boundaries: nthread+1 non-decreasing offsets from 0 to n (whatever formula produced them) *)
Definition boundaries_ok (nthread : Z) (tstart : list Z) (n : Z) : Prop :=
  len tstart = nthread + 1 /\ nth 0 tstart 0 = 0 /\ nth (Z.to_nat nthread) tstart 0 = n /\
  forall t, 0 <= t < nthread -> nth (Z.to_nat t) tstart 0 <= nth (Z.to_nat (t + 1)) tstart 0.

Definition stripe_index (np : Z) (box x : Q) : Z := Z.min (Qfloor (x * inject_Z np / box)) (np - 1).
