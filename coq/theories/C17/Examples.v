(* C17/Examples.v — non-vacuity of every hypothesis used in Properties.v, and regression values of the model. *)
From Coq Require Import ZArith QArith Qround List Bool Lia Permutation Sorted.
From Abacus.Common Require Import Arr Par.
From Abacus.C17 Require Import Gen Model Spec Lib Mat Blocks Proofs ProofsPar ProofsSort ProofsTop Run ArgsortIns.
Import ListNotations.
Local Open Scope Z_scope.

(* five particles (the key is the particle itself), four stripes, three threads with blocks of sizes 1, 2, 2, weights *)
Definition ex_pos : list Z := [3; 0; 3; 1; 0].
Definition ex_w : list Z := [10; 11; 12; 13; 14].

Example boundaries_nonvacuous : boundaries_ok 3 [0; 1; 3; 5] (len ex_pos).
Proof. repeat split; try reflexivity. intros t Ht. assert (t = 0 \/ t = 1 \/ t = 2) as [-> | [-> | ->]] by lia; vm_compute; discriminate. Qed.

Example preconditions_nonvacuous :
  preconditions (fun x : Z => x) 3 4 [0; 1; 3; 5] ex_pos (Some ex_w) [7; 7; 7; 7; 7] [9; 9; 9; 9; 9] [8; 8; 8; 8; 8].
Proof.
  split; [lia|]. split; [lia|]. split; [exact boundaries_nonvacuous|]. split.
  - intros x Hx. cbn in Hx. lia.
  - split; [reflexivity|]. split; [reflexivity|]. intros w E. inversion E; subst. split; reflexivity.
Qed.

Example model_value :
  partition_model Z Z Z (fun x => x) (fun x => x) (fun _ => []) 3 4 [0; 1; 3; 5] ex_pos (Some ex_w) false
    [7; 7; 7; 7; 7] [9; 9; 9; 9; 9] [8; 8; 8; 8; 8]
  = Ok ([0; 0; 1; 3; 3], [0; 2; 3; 3; 5], Some [11; 14; 13; 10; 12]).
Proof. vm_compute. reflexivity. Qed.

(* more threads than particles: empty blocks (repeated boundaries) *)
Example more_threads_nonvacuous :
  len [2; 0] < 4 /\ preconditions (fun x : Z => x) 4 3 [0; 0; 1; 1; 2] [2; 0] (@None (list Z)) [5; 5] [6; 6] [].
Proof.
  split; [reflexivity|]. split; [lia|]. split; [lia|]. split.
  - repeat split; try reflexivity. intros t Ht. assert (t = 0 \/ t = 1 \/ t = 2 \/ t = 3) as [->|[-> | [-> | ->]]] by lia; vm_compute; discriminate.
  - split; [intros x Hx; cbn in Hx; lia|]. split; [reflexivity|]. split; [reflexivity|]. intros w E. discriminate.
Qed.

Example more_threads_value :
  partition_model Z Z Z (fun x => x) (fun x => x) (fun _ => []) 4 3 [0; 0; 1; 1; 2] [2; 0] None false [5; 5] [6; 6] []
  = Ok ([0; 2], [0; 1; 1; 2], None).
Proof. vm_compute. reflexivity. Qed.

(* empty input *)
Example empty_nonvacuous : boundaries_ok 3 [0; 0; 0; 0] 0 /\ (forall w : list Z, Some (@nil Z) = Some w -> w = []).
Proof.
  split.
  - repeat split; try reflexivity. intros t Ht. assert (t = 0 \/ t = 1 \/ t = 2) as [-> | [-> | ->]] by lia; vm_compute; discriminate.
  - intros w E. inversion E. reflexivity.
Qed.

Example empty_value :
  partition_model Z Z Z (fun x => x) (fun x => x) (fun _ => []) 3 2 [0; 0; 0; 0] [] (Some []) false [] [] []
  = Ok ([], [0; 0; 0], Some []).
Proof. vm_compute. reflexivity. Qed.

(* two different thread counts / boundaries / garbage: both satisfy the preconditions (independent_of_thread_count) *)
Example independence_nonvacuous :
  preconditions (fun x : Z => x) 1 4 [0; 5] ex_pos (Some ex_w) [1; 2; 3; 4; 5] [0; 0; 0; 0; 0] [0; 0; 0; 0; 0].
Proof.
  split; [lia|]. split; [lia|]. split.
  - repeat split; try reflexivity. intros t Ht. assert (t = 0) as -> by lia. vm_compute. discriminate.
  - split; [intros x Hx; cbn in Hx; lia|]. split; [reflexivity|]. split; [reflexivity|].
    intros w E. inversion E; subst. split; reflexivity.
Qed.

(* the schedule hypothesis of scatter_any_schedule: a round-robin schedule long enough for every thread *)
Definition ex_threads := threads Z Z (fun x => x) 3 4 [0; 1; 3; 5] ex_pos (Some ex_w).
Definition ex_schedule : list nat := concat (repeat [0%nat; 1%nat; 2%nat] 10).

Example schedule_nonvacuous :
  forall t, (t < length ex_threads)%nat -> (length (nth t ex_threads []) <= count_occ Nat.eq_dec ex_schedule t)%nat.
Proof.
  intros t Ht. change (length ex_threads) with 3%nat in Ht.
  destruct t as [|[|[|t]]]; [vm_compute; lia|vm_compute; lia|vm_compute; lia|lia].
Qed.

Example schedule_value :
  map (fst (Par.run ex_schedule (init ex_threads (fun _ => VI 0) (VI 0)))) [0; 1; 2; 3; 4; 5; 6; 7; 8; 9]
  = [VP (Some 0); VP (Some 0); VP (Some 1); VP (Some 3); VP (Some 3);
     VW (Some 11); VW (Some 14); VW (Some 13); VW (Some 10); VW (Some 12)].
Proof. vm_compute. reflexivity. Qed.

(* the hypotheses of sorted_option: the argsort of the executable model (Run.argsort_ins, an insertion sort of the indices)
   satisfies both argsort hypotheses for EVERY list (proved in ArgsortIns.v), with cle = Qle (as Qle_bool); and the
   preconditions hold for five rows of rationals keyed by the generated key expression of column 1 (two stripes, three
   threads, weights).  Stripe 0 holds rows 1 and 3 (y = 1/4, 0): sorting swaps them; stripe 1 holds rows 0, 2, 4 (y = 1/2, 1/2, 1). *)
Definition ex_rows : list (list Q) :=
  [[0; 1 # 2; 1]; [1; 1 # 4; 3 # 4]; [1 # 2; 1 # 2; 1 # 2]; [999 # 1000; 0; 0]; [1 # 4; 1; 0]]%Q.
Definition ex_rw : list Q := [10; 11; 12; 13; 14]%Q.

Example sorted_option_nonvacuous :
  preconditions (rowkey 2 1 1) 3 2 [0; 1; 3; 5] ex_rows (Some ex_rw) [7; 7; 7; 7; 7] (repeat [] 5) (repeat 0%Q 5) /\
  (forall l : list Q, Permutation (argsort_ins l) (seq 0 (length l))) /\
  (forall l : list Q, Sorted (fun a b => Qle_bool a b = true) (gather l (argsort_ins l))).
Proof.
  split; [|split; [exact argsort_ins_perm|exact argsort_ins_sorted]].
  split; [lia|]. split; [lia|]. split; [exact boundaries_nonvacuous|]. split.
  - intros x Hx. unfold ex_rows in Hx. cbn [In] in Hx.
    destruct Hx as [<-|[<-|[<-|[<-|[<-|[]]]]]]; vm_compute; split; try discriminate; reflexivity.
  - split; [reflexivity|]. split; [reflexivity|]. intros w E. inversion E; subst. split; reflexivity.
Qed.

(* ... and the model's value on that input (sort = true): stripe 0 reordered by y, weights moved with their rows *)
Example sorted_option_value :
  partition_model (list Q) Q Q (rowkey 2 1 1) (rowcv 1) argsort_ins 3 2 [0; 1; 3; 5] ex_rows (Some ex_rw) true
    [7; 7; 7; 7; 7] (repeat [] 5) (repeat 0%Q 5)
  = Ok ([[999 # 1000; 0; 0]; [1; 1 # 4; 3 # 4]; [0; 1 # 2; 1]; [1 # 2; 1 # 2; 1 # 2]; [1 # 4; 1; 0]]%Q,
        [0; 2; 5], Some [13; 11; 10; 12; 14]%Q).
Proof. vm_compute. reflexivity. Qed.

(* the argsort hypotheses of sort_step_on_a_stripe_partial, for the insertion argsort of Run.v on a concrete stripe *)
Example argsort_nonvacuous :
  let part := [[3 # 4; 0]; [1 # 4; 1]; [1 # 2; 2]]%Q in
  let iord := argsort_ins (map (rowcv 0) part) in
  Permutation iord (seq 0 (length (map (rowcv 0) part))) /\
  Sorted (fun a b => Qle_bool a b = true) (gather (map (rowcv 0) part) iord) /\
  0 <= 1 /\ 1 + 1 < len [0; 1; 4; 4] /\ nth (Z.to_nat 1) [0; 1; 4; 4] 0 = len [[0; 0]%Q] /\
  nth (Z.to_nat (1 + 1)) [0; 1; 4; 4] 0 = len [[0; 0]%Q] + len part.
Proof.
  cbn zeta. split; [|split].
  - vm_compute. apply (@perm_trans nat _ [1%nat; 0%nat; 2%nat]); [apply perm_skip; apply perm_swap|apply perm_swap].
  - vm_compute. repeat constructor.
  - repeat split; vm_compute; try reflexivity; try discriminate.
Qed.

(* key_spec hypotheses: npartition = 7, BoxSize = 7/4, a coordinate on a stripe boundary, and x = BoxSize *)
Example key_hyp_nonvacuous : 1 <= 7 /\ (0 < 7 # 4)%Q /\ (0 <= 3 # 4)%Q /\ (3 # 4 <= 7 # 4)%Q /\ (3 # 4 < 7 # 4)%Q.
Proof. repeat split; try lia; vm_compute; try reflexivity; discriminate. Qed.
Example key_value_boundary : key_expr 7 (7 # 4) (3 # 4) = 3.
Proof. vm_compute. reflexivity. Qed.
Example key_value_box : key_expr 7 (7 # 4) (7 # 4) = 6.
Proof. vm_compute. reflexivity. Qed.
Example key_value_zero : key_expr 64 1 0 = 0.
Proof. vm_compute. reflexivity. Qed.

(* sort = true on the executable model of Run.v *)
Example sorted_value :
  Run.run (3, 4, 1%Q, 1, [0; 1; 3; 5],
       [[0; 1 # 2; 1]; [1; 1 # 4; 3 # 4]; [1 # 2; 1 # 2; 1 # 2]; [999 # 1000; 0; 0]; [1 # 4; 1; 0]]%Q, None, true)
  = Corr.VL [Corr.VL [Corr.vlistQ [999 # 1000; 0; 0]; Corr.vlistQ [1; 1 # 4; 3 # 4]; Corr.vlistQ [0; 1 # 2; 1];
                      Corr.vlistQ [1 # 2; 1 # 2; 1 # 2]; Corr.vlistQ [1 # 4; 1; 0]]%Q;
             Corr.vlistZ [0; 1; 2; 4; 5]; Corr.VNone].
Proof. vm_compute. reflexivity. Qed.
