(* C17/Model.v — executable model of abacusnbody/analysis/tsc.py:partition_parallel, statement by statement
   (the statement list is pinned by tools/gen/c17.py; the key expression itself is generated: Gen.key_expr).

   Arrays are lists; every indexed read/write goes through get/set/upd of Common/Arr.v (numba index semantics:
   one negative wrap, otherwise Oob), so a result [Ok _] also says that no access was out of bounds.
   The three prange loops are sequentialised in thread order here; that every interleaving of the scatter phase
   gives the same arrays is the separate theorem scatter_any_schedule (Proofs*.v) on top of Common/Par.v.
   np.empty arrays start with arbitrary content: keys0, psort0, wsort0 are parameters of the model.
   No proofs in this file. *)
From Coq Require Import ZArith List Bool.
From Abacus.Common Require Import Arr.
Import ListNotations.
Local Open Scope Z_scope.

(* 2-d arrays as lists of rows, per-axis index check *)
Definition get2 {A} (m : list (list A)) (i j : Z) : res A := r <- get m i ;; get r j.
Definition upd2 {A} (m : list (list A)) (i j : Z) (f : A -> A) : res (list (list A)) :=
  r <- get m i ;; r' <- upd r j f ;; set m i r'.

Definition zrange (n : Z) : list Z := map Z.of_nat (seq 0 (Z.to_nat n)).
Definition zeros2 (r c : Z) : list (list Z) := repeat (repeat 0 (Z.to_nat c)) (Z.to_nat r).

(* for t in prange(nthread): for i in range(tstart[t], tstart[t+1]): s = body t i s *)
Definition block_loop {S} (nthread : Z) (tstart : list Z) (body : Z -> Z -> S -> res S) (s : S) : res S :=
  for_range 0 nthread
    (fun t s => lo <- get tstart t ;; hi <- get tstart (t + 1) ;; for_range lo hi (body t) s) s.

(* np.cumsum(counts.T) with a leading 0 and the last entry dropped: exclusive prefix sums of counts.T in C order *)
Definition col (counts : list (list Z)) (k : Z) : list Z := map (fun row => nth (Z.to_nat k) row 0) counts.
Definition transposed_flat (npartition : Z) (counts : list (list Z)) : list Z := flat_map (col counts) (zrange npartition).
Fixpoint excl_scan (acc : Z) (l : list Z) : list Z :=
  match l with [] => [] | x :: t => acc :: excl_scan (acc + x) t end.
(* pointers.reshape(npartition, nthread).T : entry [t, k] is flat[k * nthread + t] *)
Definition reshape_T (nthread npartition : Z) (flat : list Z) : list (list Z) :=
  map (fun t => map (fun k => nth (Z.to_nat (k * nthread + t)) flat 0) (zrange npartition)) (zrange nthread).

(* a[lo:hi] = new  (same clipping as Arr.slice; a length mismatch is numpy's broadcast ValueError) *)
Definition clip {A} (l : list A) (a : Z) : Z := Z.max 0 (Z.min (len l) (if a <? 0 then a + len l else a)).
Definition set_slice {A} (l : list A) (a b : Z) (new : list A) : res (list A) :=
  let a' := clip l a in let b' := Z.max a' (clip l b) in
  if len new =? b' - a' then Ok (firstn (Z.to_nat a') l ++ new ++ skipn (Z.to_nat b') l) else Raise ValueError.
(* part[iord] *)
Definition gather {A} (l : list A) (idx : list nat) : list A :=
  flat_map (fun i => match nth_error l i with Some a => [a] | None => [] end) idx.

Section Model.
Variables P W C : Type.
Variable keyf : P -> Z.               (* row -> Gen.key_expr npartition boxsize row[coord] *)
Variable cv : P -> C.                 (* row -> row[coord] *)
Variable argsort : list C -> list nat. (* ndarray.argsort: external *)

(*  keys[i] = <key>;  counts[t, keys[i]] += 1  *)
Definition hist_step (pos : list P) (t i : Z) (st : list Z * list (list Z)) : res (list Z * list (list Z)) :=
  let '(keys, counts) := st in
  x <- get pos i ;;
  keys' <- set keys i (keyf x) ;;
  ki <- get keys' i ;;
  counts' <- upd2 counts t ki (fun c => c + 1) ;;
  Ok (keys', counts').

(*  k = keys[i]; s = pointers[t, k]; psort[s, :] = pos[i, :]; [wsort[s] = weights[i];] pointers[t, k] += 1  *)
Definition scatter_step (pos : list P) (wts : option (list W)) (keys : list Z) (t i : Z)
    (st : list (list Z) * list P * list W) : res (list (list Z) * list P * list W) :=
  let '(ptrs, psort, wsort) := st in
  k <- get keys i ;;
  s <- get2 ptrs t k ;;
  x <- get pos i ;;
  psort' <- set psort s x ;;
  wsort' <- match wts with
            | Some w => wi <- get w i ;; set wsort s wi
            | None => Ok wsort
            end ;;
  ptrs' <- upd2 ptrs t k (fun v => v + 1) ;;
  Ok (ptrs', psort', wsort').

(*  part = psort[starts[i]:starts[i+1]]; iord = part[:, coord].argsort(); part[:] = part[iord];
    [weightspart = wsort[...]; weightspart[:] = weightspart[iord]]  *)
Definition sort_step (has_w : bool) (starts : list Z) (i : Z) (st : list P * list W) : res (list P * list W) :=
  let '(psort, wsort) := st in
  a <- get starts i ;;
  b <- get starts (i + 1) ;;
  let part := slice psort a b in
  let iord := argsort (map cv part) in
  psort' <- set_slice psort a b (gather part iord) ;;
  wsort' <- (if has_w then set_slice wsort a b (gather (slice wsort a b) iord) else Ok wsort) ;;
  Ok (psort', wsort').

Definition pointers_of (nthread npartition : Z) (counts : list (list Z)) : res (list (list Z)) :=
  let flatT := transposed_flat npartition counts in
  (* pointers = np.empty(nthread*npartition); pointers[0] = 0 : a write into an empty array when nthread*npartition = 0 *)
  if nthread * npartition <=? 0 then Oob
  else Ok (reshape_T nthread npartition (excl_scan 0 flatT)).

Definition partition_model (nthread npartition : Z) (tstart : list Z) (pos : list P) (wts : option (list W))
    (sort : bool) (keys0 : list Z) (psort0 : list P) (wsort0 : list W)
    : res (list P * list Z * option (list W)) :=
  let n := len pos in
  (* pass 1: keys and per-thread histogram *)
  '(keys, counts) <- block_loop nthread tstart (hist_step pos) (keys0, zeros2 nthread npartition) ;;
  (* start indices of every (thread, key) cell *)
  ptrs <- pointers_of nthread npartition counts ;;
  row0 <- get ptrs 0 ;;                       (* starts[:-1] = pointers[0] *)
  let starts := row0 ++ [n] in               (* starts[-1] = len(pos) *)
  (* pass 2: scatter *)
  '(_, psort, wsort) <- block_loop nthread tstart (scatter_step pos wts keys) (ptrs, psort0, wsort0) ;;
  '(psort, wsort) <- (if sort
                      then for_range 0 npartition (sort_step (match wts with Some _ => true | None => false end) starts)
                                     (psort, wsort)
                      else Ok (psort, wsort)) ;;
  Ok (psort, starts, match wts with Some _ => Some wsort | None => None end).

End Model.
