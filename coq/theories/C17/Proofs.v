(* C17/Proofs.v — the model of partition_parallel computes the stable counting sort, for every thread count and
   every monotone block-boundary sequence, without any out-of-bounds access. *)
From Coq Require Import ZArith List Bool Lia Arith Permutation.
From Abacus.Common Require Import Arr.
From Abacus.C17 Require Import Model Spec Lib Mat Blocks.
Import ListNotations.
Local Open Scope Z_scope.

Lemma get_nth_error {A} (l : list A) i :
  0 <= i < len l -> exists a, get l i = Ok a /\ nth_error l (Z.to_nat i) = Some a.
Proof.
  intros H. unfold get. rewrite norm_idx_pos by exact H.
  destruct (nth_error l (Z.to_nat i)) as [a|] eqn:E; [exists a; split; reflexivity|].
  apply nth_error_None in E. unfold len in H. lia.
Qed.

Lemma set_nth_mid {A} (l1 : list A) y r v : set_nth (l1 ++ y :: r) (length l1) v = l1 ++ v :: r.
Proof. rewrite set_nth_app_r by lia. rewrite Nat.sub_diag. reflexivity. Qed.

Lemma skipn_cons_nth {A} (l : list A) j d : (j < length l)%nat -> skipn j l = nth j l d :: skipn (S j) l.
Proof.
  revert j; induction l as [|x l IH]; intros j H; [cbn in H; lia|].
  destruct j as [|j]; [reflexivity|]. cbn [skipn nth]. rewrite (IH j) by (cbn in H; lia). reflexivity.
Qed.

Lemma nth_map_keyf {P} (keyf : P -> Z) pos j x : nth_error pos j = Some x -> nth j (map keyf pos) 0 = keyf x.
Proof.
  intros H. apply nth_error_nth. rewrite nth_error_map, H. reflexivity.
Qed.

Section Main.
Variables P W C : Type.
Variable keyf : P -> Z.
Variable cv : P -> C.
Variable argsort : list C -> list nat.

Variable T np : Z.
Variable tstart : list Z.
Variable pos : list P.
Variable wts : option (list W).
Variable keys0 : list Z.
Variable psort0 : list P.
Variable wsort0 : list W.

Let N := len pos.
Let fk := map keyf pos.

Hypothesis HT : 1 <= T.
Hypothesis Hnp : 1 <= np.
Hypothesis Hb : boundaries_ok T tstart N.
Hypothesis Hkeys : forall x, In x pos -> 0 <= keyf x < np.
Hypothesis Hkeys0 : len keys0 = N.
Hypothesis Hpsort0 : len psort0 = N.
Hypothesis Hw : forall w, wts = Some w -> len w = N /\ len wsort0 = N.

Lemma fk_len : len fk = N.
Proof. unfold fk, N, len. rewrite map_length. reflexivity. Qed.

Lemma fk_range : forall x, In x fk -> 0 <= x < np.
Proof. intros x Hx. unfold fk in Hx. apply in_map_iff in Hx. destruct Hx as [p [E Hp]]. subst x. apply Hkeys. exact Hp. Qed.

Lemma j_range t j : 0 <= t < T -> ts tstart t <= j < ts tstart (t + 1) -> 0 <= j < N.
Proof.
  intros Ht Hj. pose proof (ts_nonneg T tstart N Hb t ltac:(lia)). pose proof (ts_le_N T tstart N Hb (t + 1) ltac:(lia)).
  lia.
Qed.

(* ---- pass 1 ---------------------------------------------------------------------------------------------------- *)
Definition Inv1 (j : Z) (st : list Z * list (list Z)) : Prop :=
  fst st = firstn (Z.to_nat j) fk ++ skipn (Z.to_nat j) keys0 /\
  cursor_inv T tstart np fk (fun _ _ => 0) j (snd st).

Lemma hist_step_ok t j st :
  0 <= t < T -> ts tstart t <= j < ts tstart (t + 1) -> Inv1 j st ->
  exists st', hist_step P keyf pos t j st = Ok st' /\ Inv1 (j + 1) st'.
Proof.
  intros Ht Hj [Hk Hc]. destruct st as [keys counts]. cbn [fst snd] in Hk, Hc.
  pose proof (j_range t j Ht Hj) as HjN.
  assert (HfkN : length fk = Z.to_nat N) by (pose proof fk_len; unfold len in *; lia).
  assert (Hk0N : length keys0 = Z.to_nat N) by (unfold len in Hkeys0; lia).
  assert (Hlk : len keys = N).
  { rewrite Hk. unfold len. rewrite app_length, firstn_length, skipn_length. lia. }
  unfold hist_step.
  destruct (get_nth_error pos j HjN) as [x [Ex Nx]]. rewrite Ex. cbn [bind].
  rewrite set_ok by lia. cbn [bind].
  rewrite (get_ok_nth _ j 0) by (unfold len in *; rewrite set_nth_length; lia). cbn [bind].
  rewrite set_nth_nth by (unfold len in Hlk; lia).
  assert (Ekj : keyf x = kj fk j) by (unfold kj, fk; symmetry; apply nth_map_keyf; exact Nx).
  rewrite Ekj.
  destruct (cursor_inv_step T tstart N Hb np fk fk_len fk_range (fun _ _ => 0) t j counts Ht Hj Hc) as [m' [E Hc']].
  rewrite E. cbn [bind]. eexists. split; [reflexivity|]. split; cbn [fst snd]; [|exact Hc'].
  rewrite Hk. rewrite (skipn_cons_nth keys0 (Z.to_nat j) 0) by lia.
  assert (Hl1 : length (firstn (Z.to_nat j) fk) = Z.to_nat j) by (rewrite firstn_length; lia).
  pose proof (set_nth_mid (firstn (Z.to_nat j) fk) (nth (Z.to_nat j) keys0 0) (skipn (S (Z.to_nat j)) keys0) (kj fk j)) as Hm.
  rewrite Hl1 in Hm. rewrite Hm.
  replace (Z.to_nat (j + 1)) with (S (Z.to_nat j)) by lia.
  rewrite (firstn_succ_nth fk (Z.to_nat j) 0) by lia. rewrite <- app_assoc. reflexivity.
Qed.

Lemma pass1_ok :
  exists counts, block_loop T tstart (hist_step P keyf pos) (keys0, zeros2 T np) = Ok (fk, counts) /\
    shaped T np counts /\ forall t k, 0 <= t < T -> 0 <= k < np -> cell counts t k = bcount tstart fk t k.
Proof.
  destruct (block_loop_inv T tstart N HT Hb Inv1 (hist_step P keyf pos) (keys0, zeros2 T np)) as [[keys counts] [E [Hk Hc]]].
  - split; cbn [fst snd]; [reflexivity|]. apply (cursor_inv_start T tstart N Hb).
    + apply zeros2_shaped; lia.
    + intros t k Ht Hk. apply zeros2_cell; assumption.
  - intros t j st Ht Hj Hi. apply hist_step_ok; assumption.
  - cbn [fst snd] in Hk, Hc. exists counts. split.
    + rewrite E. f_equal. f_equal. rewrite Hk.
      assert (HfkN : length fk = Z.to_nat N) by (pose proof fk_len; unfold len in *; lia).
      rewrite firstn_all2 by lia. rewrite skipn_all2 by (unfold len in Hkeys0; lia). apply app_nil_r.
    + split; [exact (proj1 Hc)|]. intros t k Ht Hk'.
      rewrite (cursor_inv_end T tstart N Hb np fk _ counts Hc t k Ht Hk'). unfold bcount. lia.
Qed.

(* ---- pass 2 ---------------------------------------------------------------------------------------------------- *)
Lemma dest_cursor t j :
  0 <= t < T -> ts tstart t <= j -> 0 <= j < N ->
  ptr0 tstart fk t (kj fk j) + Z.of_nat (ncnt (kj fk j) (seg fk (ts tstart t) j)) = Z.of_nat (ndest fk (Z.to_nat j)).
Proof.
  intros Ht Hj HjN. unfold ptr0, ndest. cbn zeta. fold (kj fk j).
  rewrite (firstn_seg fk (ts tstart t) j) by (pose proof (ts_nonneg T tstart N Hb t ltac:(lia)); lia).
  rewrite ncnt_app. lia.
Qed.

Definition Inv3 (j : Z) (st : list (list Z) * list P * list W) : Prop :=
  let '(ptrs, psort, wsort) := st in
  cursor_inv T tstart np fk (ptr0 tstart fk) j ptrs /\
  len psort = N /\
  (forall i, (i < Z.to_nat j)%nat -> nth_error psort (ndest fk i) = nth_error pos i) /\
  match wts with
  | Some w => len wsort = N /\ forall i, (i < Z.to_nat j)%nat -> nth_error wsort (ndest fk i) = nth_error w i
  | None => wsort = wsort0
  end.

Lemma scatter_step_ok t j st :
  0 <= t < T -> ts tstart t <= j < ts tstart (t + 1) -> Inv3 j st ->
  exists st', scatter_step P W pos wts fk t j st = Ok st' /\ Inv3 (j + 1) st'.
Proof.
  intros Ht Hj Hinv. destruct st as [[ptrs psort] wsort]. destruct Hinv as [Hc [Hlp [Hp Hwp]]].
  pose proof (j_range t j Ht Hj) as HjN.
  assert (HfkN : length fk = Z.to_nat N) by (pose proof fk_len; unfold len in *; lia).
  pose proof (kj_range N np fk fk_len fk_range j HjN) as Hk.
  assert (Hd : (ndest fk (Z.to_nat j) < Z.to_nat N)%nat).
  { rewrite <- HfkN. apply (ndest_range np); [exact fk_range|lia]. }
  assert (Hother : forall i, (i < Z.to_nat j)%nat -> ndest fk (Z.to_nat j) <> ndest fk i).
  { intros i Hi E. apply ndest_inj in E; lia. }
  unfold scatter_step.
  rewrite (get_ok_nth fk j 0) by (rewrite fk_len; exact HjN). cbn [bind]. fold (kj fk j).
  rewrite (cursor_inv_read T tstart np fk (ptr0 tstart fk) t j ptrs Ht ltac:(lia) Hc (kj fk j) Hk). cbn [bind].
  rewrite dest_cursor by (try assumption; lia).
  destruct (get_nth_error pos j HjN) as [x [Ex Nx]]. rewrite Ex. cbn [bind].
  rewrite set_ok by lia. cbn [bind]. rewrite Nat2Z.id.
  destruct (cursor_inv_step T tstart N Hb np fk fk_len fk_range (ptr0 tstart fk) t j ptrs Ht Hj Hc) as [m' [E Hc']].
  assert (Hpnew : forall i, (i < Z.to_nat (j + 1))%nat ->
            nth_error (set_nth psort (ndest fk (Z.to_nat j)) x) (ndest fk i) = nth_error pos i).
  { intros i Hi. destruct (Nat.eq_dec i (Z.to_nat j)) as [->|Hne].
    - rewrite nth_error_set_nth_same by (unfold len in Hlp; lia). symmetry. exact Nx.
    - rewrite nth_error_set_nth_other by (apply Hother; lia). apply Hp. lia. }
  unfold Inv3. pose proof Hw as Hw'. revert Hwp Hw'. generalize wts as o. intros o Hwp Hw'. destruct o as [w|].
  - destruct Hwp as [Hlw Hwv]. destruct (Hw' w eq_refl) as [Hwl _].
    destruct (get_nth_error w j ltac:(lia)) as [wi [Ewi Nwi]]. rewrite Ewi. cbn [bind].
    rewrite set_ok by lia. cbn [bind]. rewrite Nat2Z.id. rewrite E. cbn [bind].
    eexists. split; [reflexivity|]. split; [exact Hc'|]. split; [unfold len; rewrite set_nth_length; exact Hlp|].
    split; [exact Hpnew|]. split; [unfold len; rewrite set_nth_length; exact Hlw|].
    intros i Hi. destruct (Nat.eq_dec i (Z.to_nat j)) as [->|Hne].
    + rewrite nth_error_set_nth_same by (unfold len in Hlw; lia). symmetry. exact Nwi.
    + rewrite nth_error_set_nth_other by (apply Hother; lia). apply Hwv. lia.
  - cbn [bind]. rewrite E. cbn [bind].
    eexists. split; [reflexivity|]. split; [exact Hc'|]. split; [unfold len; rewrite set_nth_length; exact Hlp|].
    split; [exact Hpnew|exact Hwp].
Qed.

Lemma pass2_ok :
  exists ptrs' psort wsort,
    block_loop T tstart (scatter_step P W pos wts fk) (tabulate2 T np (ptr0 tstart fk), psort0, wsort0)
      = Ok (ptrs', psort, wsort) /\
    psort = sort_by_keys np fk pos /\
    match wts with Some w => wsort = sort_by_keys np fk w | None => wsort = wsort0 end.
Proof.
  destruct (block_loop_inv T tstart N HT Hb Inv3 (scatter_step P W pos wts fk)
              (tabulate2 T np (ptr0 tstart fk), psort0, wsort0)) as [[[ptrs' psort] wsort] [E Hinv]].
  - split; [|split; [exact Hpsort0|split]].
    + apply (cursor_inv_start T tstart N Hb).
      * apply tabulate2_shaped; lia.
      * intros t k Ht Hk. apply tabulate2_cell; assumption.
    + intros i Hi. cbn in Hi. lia.
    + pose proof Hw as Hw'. revert Hw'. generalize wts as o. intros o Hw'. destruct o as [w|]; [|reflexivity].
      destruct (Hw' w eq_refl) as [_ Hl0]. split; [exact Hl0|].
      intros i Hi. cbn in Hi. lia.
  - intros t j st Ht Hj Hi. apply scatter_step_ok; assumption.
  - destruct Hinv as [_ [Hlp [Hp Hwp]]].
    assert (HfkN : length fk = Z.to_nat N) by (pose proof fk_len; unfold len in *; lia).
    assert (HposN : length pos = length fk) by (unfold fk; rewrite map_length; reflexivity).
    exists ptrs', psort, wsort. split; [exact E|]. split.
    + apply (scattered_is_sorted np fk pos psort); [lia|exact HposN|unfold len in Hlp; lia|exact fk_range|].
      intros i Hi. apply Hp. lia.
    + pose proof Hw as Hw'. revert Hwp Hw'. generalize wts as o. intros o Hwp Hw'. destruct o as [w|]; [|exact Hwp].
      destruct Hwp as [Hlw Hwv]. destruct (Hw' w eq_refl) as [Hwl _].
      apply (scattered_is_sorted np fk w wsort); [lia|unfold len in Hwl; lia|unfold len in Hlw; lia|exact fk_range|].
      intros i Hi. apply Hwv. lia.
Qed.

(* ---- the whole function, sort = False ------------------------------------------------------------------------- *)
Definition raw_starts : list Z := map (fun k => Z.of_nat (nlt k fk)) (zrange np) ++ [N].

Lemma model_unsorted_raw :
  partition_model P W C keyf cv argsort T np tstart pos wts false keys0 psort0 wsort0
  = Ok (sort_by_keys np fk pos, raw_starts, option_map (sort_by_keys np fk) wts).
Proof.
  unfold partition_model.
  destruct pass1_ok as [counts [E1 [Hs Hc]]]. rewrite E1. cbn [bind].
  rewrite (pointers_of_counts T tstart N HT Hb np fk Hnp fk_len fk_range counts Hs Hc). cbn [bind].
  destruct (tabulate2_shaped T np (ptr0 tstart fk) ltac:(lia) ltac:(lia)) as [Hlt _].
  rewrite (get_ok_nth _ 0 []) by lia.
  cbn [bind]. rewrite (tabulate2_row T np (ptr0 tstart fk) 0) by lia.
  destruct pass2_ok as [ptrs' [psort [wsort [E2 [Hp Hwv]]]]]. rewrite E2. cbn [bind].
  f_equal. f_equal; [f_equal|].
  - exact Hp.
  - unfold raw_starts. f_equal. apply map_ext_in. intros k Hk. unfold ptr0.
    rewrite (ts_0 T tstart N Hb). cbn [Z.to_nat firstn]. rewrite ncnt_nil. lia.
  - revert Hwv. generalize wts as o. intros o Hwv. destruct o as [w|]; cbn [option_map]; [f_equal; exact Hwv|reflexivity].
Qed.

End Main.

(* ---- bridging the key-list formulation to the specification -------------------------------------------------------- *)
Lemma upto_zrange n : upto n = zrange n.
Proof. reflexivity. Qed.

Lemma select_stripe {P} (keyf : P -> Z) k pos : select k (map keyf pos) pos = stripe keyf k pos.
Proof.
  induction pos as [|x pos IH]; [reflexivity|]. cbn [map]. rewrite select_cons. unfold stripe. cbn [filter].
  fold (stripe keyf k pos). rewrite IH. reflexivity.
Qed.

Lemma sort_by_keys_spec {P} (keyf : P -> Z) np pos :
  sort_by_keys np (map keyf pos) pos = stable_counting_sort keyf np pos.
Proof.
  unfold sort_by_keys, stable_counting_sort. change (upto np) with (zrange np). apply flat_map_ext_in'. intros k _. apply select_stripe.
Qed.

Lemma select_weights {P W} (keyf : P -> Z) k pos : forall (w : list W), length w = length pos ->
  select k (map keyf pos) w = map snd (stripe (fun pw => keyf (fst pw)) k (combine pos w)).
Proof.
  induction pos as [|x pos IH]; intros w Hl.
  - destruct w; reflexivity.
  - destruct w as [|y w]; [cbn in Hl; lia|]. cbn [map combine]. rewrite select_cons. unfold stripe. cbn [filter fst].
    fold (stripe (fun pw : P * W => keyf (fst pw)) k (combine pos w)).
    destruct (keyf x =? k); cbn [map snd]; rewrite IH by (cbn in Hl; lia); reflexivity.
Qed.

Lemma map_flat_map {A B D} (f : B -> D) (g : A -> list B) l : map f (flat_map g l) = flat_map (fun a => map f (g a)) l.
Proof. induction l as [|a l IH]; [reflexivity|]. cbn [flat_map]. rewrite map_app, IH. reflexivity. Qed.

Lemma sort_by_keys_weights {P W} (keyf : P -> Z) np pos (w : list W) : length w = length pos ->
  sort_by_keys np (map keyf pos) w = map snd (stable_counting_sort (fun pw => keyf (fst pw)) np (combine pos w)).
Proof.
  intros Hl. unfold sort_by_keys, stable_counting_sort. change (upto np) with (zrange np). rewrite map_flat_map.
  apply flat_map_ext_in'. intros k _. apply select_weights. exact Hl.
Qed.

Lemma nlt_count_below {P} (keyf : P -> Z) k pos : Z.of_nat (nlt k (map keyf pos)) = count_below keyf k pos.
Proof.
  unfold nlt, count_below, len. f_equal. induction pos as [|x pos IH]; [reflexivity|]. cbn [map filter].
  destruct (keyf x <? k); cbn [length]; rewrite IH; reflexivity.
Qed.

Lemma raw_starts_spec {P} (keyf : P -> Z) np pos :
  0 <= np -> (forall x, In x pos -> 0 <= keyf x < np) ->
  raw_starts P keyf np pos = starts_spec keyf np pos.
Proof.
  intros Hnp Hk. unfold raw_starts, starts_spec. change (upto (np + 1)) with (zrange (np + 1)).
  replace (np + 1) with (Z.of_nat (S (Z.to_nat np))) by lia. rewrite zrange_S, map_app. rewrite Z2Nat.id by lia.
  f_equal.
  - apply map_ext. intros k. apply nlt_count_below.
  - cbn [map]. f_equal. rewrite <- nlt_count_below. rewrite nlt_high.
    + unfold len. rewrite map_length. reflexivity.
    + intros x Hx. apply in_map_iff in Hx. destruct Hx as [p [E Hp]]. subst x. apply Hk in Hp. lia.
Qed.

(* the sorted weights, stated on (position, weight) pairs *)
Definition weights_spec {P W} (keyf : P -> Z) (np : Z) (pos : list P) (wts : option (list W)) : option (list W) :=
  option_map (fun w => map snd (stable_counting_sort (fun pw => keyf (fst pw)) np (combine pos w))) wts.

Lemma partition_is_stable_counting_sort_lemma :
  forall (P W C : Type) (keyf : P -> Z) (cv : P -> C) (argsort : list C -> list nat)
         (nthread npartition : Z) (tstart : list Z) (pos : list P) (wts : option (list W))
         (keys0 : list Z) (psort0 : list P) (wsort0 : list W),
    1 <= nthread -> 1 <= npartition ->
    boundaries_ok nthread tstart (len pos) ->
    (forall x, In x pos -> 0 <= keyf x < npartition) ->
    len keys0 = len pos -> len psort0 = len pos ->
    (forall w, wts = Some w -> len w = len pos /\ len wsort0 = len pos) ->
    partition_model P W C keyf cv argsort nthread npartition tstart pos wts false keys0 psort0 wsort0
    = Ok (stable_counting_sort keyf npartition pos, starts_spec keyf npartition pos, weights_spec keyf npartition pos wts).
Proof.
  intros P W C keyf cv argsort T np tstart pos wts keys0 psort0 wsort0 HT Hnp Hb Hk Hk0 Hp0 Hw.
  rewrite (model_unsorted_raw P W C keyf cv argsort T np tstart pos wts keys0 psort0 wsort0 HT Hnp Hb Hk Hk0 Hp0 Hw).
  rewrite sort_by_keys_spec. rewrite raw_starts_spec by (try lia; exact Hk).
  f_equal. f_equal. unfold weights_spec. destruct wts as [w|]; cbn [option_map]; [|reflexivity].
  f_equal. apply sort_by_keys_weights. destruct (Hw w eq_refl) as [Hl _]. unfold len in Hl. lia.
Qed.
