(* C17/ProofsSort.v — the optional per-stripe sort (sort=True), one stripe at a time.
   argsort is external: assumed (for the call at hand) to return a permutation of the indices under which its argument is sorted. *)
From Coq Require Import ZArith List Bool Lia Arith Permutation Sorted.
From Abacus.Common Require Import Arr.
From Abacus.C17 Require Import Model Spec Lib.
Import ListNotations.
Local Open Scope Z_scope.

Lemma gather_seq {A} (l : list A) : gather l (seq 0 (length l)) = l.
Proof.
  unfold gather.
  assert (G : forall (pre l : list A), flat_map (fun i => match nth_error (pre ++ l) i with Some a => [a] | None => [] end)
                                        (seq (length pre) (length l)) = l).
  { intros pre l0; revert pre; induction l0 as [|x l0 IH]; intros pre; [reflexivity|].
    cbn [length seq flat_map]. rewrite nth_error_app2 by lia. rewrite Nat.sub_diag. cbn [nth_error app]. f_equal.
    specialize (IH (pre ++ [x])). rewrite <- app_assoc in IH. cbn [app] in IH. rewrite app_length in IH. cbn [length] in IH.
    rewrite Nat.add_1_r in IH. exact IH. }
  exact (G [] l).
Qed.

Lemma gather_perm {A} (l : list A) idx : Permutation idx (seq 0 (length l)) -> Permutation (gather l idx) l.
Proof.
  intros H. rewrite <- (gather_seq l) at 2. unfold gather. apply Permutation_flat_map. exact H.
Qed.

Lemma gather_map {A B} (f : A -> B) (l : list A) idx : map f (gather l idx) = gather (map f l) idx.
Proof.
  unfold gather. induction idx as [|i idx IH]; [reflexivity|]. cbn [flat_map]. rewrite map_app, IH. f_equal.
  rewrite nth_error_map. destruct (nth_error l i); reflexivity.
Qed.

Lemma slice_mid {A} (pre part post : list A) :
  slice (pre ++ part ++ post) (len pre) (len pre + len part) = part.
Proof.
  unfold slice. pose proof (len_nonneg pre). pose proof (len_nonneg part). pose proof (len_nonneg post).
  rewrite !len_app.
  destruct (len pre <? 0) eqn:E1; [lia|]. destruct (len pre + len part <? 0) eqn:E2; [lia|].
  replace (Z.max 0 (Z.min (len pre + (len part + len post)) (len pre))) with (len pre) by lia.
  replace (Z.max 0 (Z.min (len pre + (len part + len post)) (len pre + len part))) with (len pre + len part) by lia.
  replace (Z.to_nat (len pre + len part - len pre)) with (length part) by (unfold len; lia).
  replace (Z.to_nat (len pre)) with (length pre) by (unfold len; lia).
  rewrite skipn_app, skipn_all, Nat.sub_diag. cbn [skipn app].
  rewrite firstn_app, firstn_all, Nat.sub_diag. cbn [firstn]. apply app_nil_r.
Qed.

Lemma set_slice_mid {A} (pre part post new : list A) :
  len new = len part ->
  set_slice (pre ++ part ++ post) (len pre) (len pre + len part) new = Ok (pre ++ new ++ post).
Proof.
  intros Hl. unfold set_slice, clip. pose proof (len_nonneg pre). pose proof (len_nonneg part). pose proof (len_nonneg post).
  rewrite !len_app.
  destruct (len pre <? 0) eqn:E1; [lia|]. destruct (len pre + len part <? 0) eqn:E2; [lia|].
  replace (Z.max 0 (Z.min (len pre + (len part + len post)) (len pre))) with (len pre) by lia.
  replace (Z.max (len pre) (Z.max 0 (Z.min (len pre + (len part + len post)) (len pre + len part))))
    with (len pre + len part) by lia.
  destruct (len new =? len pre + len part - len pre) eqn:E; [|lia].
  f_equal.
  replace (Z.to_nat (len pre)) with (length pre) by (unfold len; lia).
  replace (Z.to_nat (len pre + len part)) with (length pre + length part)%nat by (unfold len; lia).
  rewrite firstn_app, firstn_all, Nat.sub_diag. cbn [firstn]. rewrite app_nil_r.
  f_equal. f_equal. rewrite skipn_app. rewrite skipn_all2 by lia.
  replace (length pre + length part - length pre)%nat with (length part) by lia.
  rewrite skipn_app, skipn_all, Nat.sub_diag. reflexivity.
Qed.

Section SortStep.
Variables P W C : Type.
Variable cv : P -> C.
Variable cle : C -> C -> Prop.
Variable argsort : list C -> list nat.

(* one iteration of the sort loop on a stripe [a, b) = part of psort (and the same cells of wsort):
   no out-of-bounds access, nothing outside the stripe changes, the stripe becomes a sorted permutation of itself,
   and the weights are rearranged by the same index permutation *)
Lemma sort_step_spec_lemma : forall (has_w : bool) (starts : list Z) (i : Z)
    (pre part post : list P) (wpre wpart wpost : list W),
  0 <= i -> i + 1 < len starts ->
  nth (Z.to_nat i) starts 0 = len pre -> nth (Z.to_nat (i + 1)) starts 0 = len pre + len part ->
  len wpre = len pre -> len wpart = len part ->
  let iord := argsort (map cv part) in
  Permutation iord (seq 0 (length (map cv part))) ->
  Sorted cle (gather (map cv part) iord) ->
  sort_step P W C cv argsort has_w starts i (pre ++ part ++ post, wpre ++ wpart ++ wpost)
  = Ok (pre ++ gather part iord ++ post, if has_w then wpre ++ gather wpart iord ++ wpost else wpre ++ wpart ++ wpost)
  /\ Permutation (gather part iord) part
  /\ Sorted cle (map cv (gather part iord))
  /\ Permutation (combine (gather part iord) (gather wpart iord)) (combine part wpart).
Proof.
  intros has_w starts i pre part post wpre wpart wpost Hi Hi1 Ha Hb Hwl Hwp iord argsort_perm argsort_sorted.
  assert (Hperm : Permutation iord (seq 0 (length part))).
  { rewrite <- (map_length cv part). exact argsort_perm. }
  assert (Hg : Permutation (gather part iord) part) by (apply gather_perm; exact Hperm).
  assert (Hgl : len (gather part iord) = len part) by (unfold len; rewrite (Permutation_length Hg); reflexivity).
  split; [|split; [exact Hg|split]].
  - unfold sort_step. rewrite (get_ok_nth starts i 0) by lia. cbn [bind].
    rewrite (get_ok_nth starts (i + 1) 0) by lia. cbn [bind]. rewrite Ha, Hb.
    rewrite slice_mid. fold iord. rewrite set_slice_mid by exact Hgl. cbn [bind].
    destruct has_w; [|reflexivity].
    rewrite <- Hwl, <- Hwp. rewrite slice_mid.
    assert (Hgw : Permutation (gather wpart iord) wpart).
    { apply gather_perm. replace (length wpart) with (length part) by (unfold len in Hwp; lia). exact Hperm. }
    rewrite set_slice_mid by (unfold len; rewrite (Permutation_length Hgw); reflexivity). reflexivity.
  - rewrite gather_map. exact argsort_sorted.
  - assert (Hc : forall idx : list nat, combine (gather part idx) (gather wpart idx) = gather (combine part wpart) idx).
    { unfold gather. intros idx. induction idx as [|k idx IH]; [reflexivity|]. cbn [flat_map].
      assert (Hk : nth_error (combine part wpart) k =
                   match nth_error part k, nth_error wpart k with Some a, Some b => Some (a, b) | _, _ => None end).
      { assert (Hl : length wpart = length part) by (unfold len in Hwp; lia). clear -Hl.
        revert wpart k Hl; induction part as [|a part IHp]; intros wpart k Hl.
        - destruct wpart; [|cbn in Hl; lia]. destruct k; reflexivity.
        - destruct wpart as [|b wpart]; [cbn in Hl; lia|]. destruct k as [|k]; [reflexivity|]. cbn [combine nth_error].
          apply IHp. cbn in Hl. lia. }
      rewrite Hk.
      assert (Hsame : (k < length part)%nat <-> (k < length wpart)%nat) by (unfold len in Hwp; lia).
      destruct (nth_error part k) as [a|] eqn:Ea; destruct (nth_error wpart k) as [b|] eqn:Eb.
      + cbn [app combine]. f_equal. exact IH.
      + exfalso. apply nth_error_None in Eb. assert (nth_error part k <> None) by congruence. apply nth_error_Some in H. lia.
      + exfalso. apply nth_error_None in Ea. assert (nth_error wpart k <> None) by congruence. apply nth_error_Some in H. lia.
      + cbn [app]. exact IH. }
    rewrite (Hc iord). apply gather_perm. rewrite combine_length. replace (length wpart) with (length part) by (unfold len in Hwp; lia).
    rewrite Nat.min_id. exact Hperm.
Qed.

End SortStep.
