From Coq Require Import ZArith.
Theorem placeholder : True. Proof. exact I. Qed.
