(* C17/Properties.v — partition_parallel returns a stripe-ordered permutation of its input.
   Statements only; each is closed by `exact` of a lemma of the Proofs*.v files.  The model is Model.partition_model
   (hand-written, statement by statement, pinned to tsc.py by the shape sites of tools/gen/c17.py and validated
   against the compiled kernel on every run); the key expression is Gen.key_expr, regenerated from tsc.py.

   `preconditions` (ProofsTop.v): nthread >= 1, npartition >= 1, the block boundaries are ANY non-decreasing sequence
   0 = tstart[0] <= ... <= tstart[nthread] = N, every key lies in [0, npartition), and the np.empty arrays
   (keys0, psort0, wsort0: arbitrary content) have the lengths the code allocates. *)
From Coq Require Import ZArith QArith Qround List Bool Permutation Sorted.
From Abacus.Common Require Import Arr Par.
From Abacus.C17 Require Import Gen Model Spec Lib Mat Blocks Proofs ProofsCor ProofsPar ProofsSort ProofsKey ProofsTop ProofsSortAll.
Import ListNotations.
Local Open Scope Z_scope.

(* ★ For every thread count and every monotone block-boundary sequence the model returns Ok (no out-of-bounds access):
   psort = stripe 0 ++ stripe 1 ++ ... ++ stripe (np-1), each stripe in input order (stable); starts = [#{key<k}];
   weights permuted like the positions.  The right-hand side mentions neither nthread nor tstart nor the initial
   content of the np.empty arrays. *)
Theorem partition_is_stable_counting_sort :
  forall (P W C : Type) (keyf : P -> Z) (cv : P -> C) (argsort : list C -> list nat)
    nthread npartition tstart pos (wts : option (list W)) keys0 psort0 wsort0,
  preconditions keyf nthread npartition tstart pos wts keys0 psort0 wsort0 ->
  partition_model P W C keyf cv argsort nthread npartition tstart pos wts false keys0 psort0 wsort0
  = Ok (stable_counting_sort keyf npartition pos, starts_spec keyf npartition pos, weights_spec keyf npartition pos wts).
Proof. exact main_lemma. Qed.
Print Assumptions partition_is_stable_counting_sort.

(* the output is a permutation of the input *)
Theorem output_is_permutation : forall (P : Type) (keyf : P -> Z) npartition (pos : list P),
  (forall x, In x pos -> 0 <= keyf x < npartition) ->
  Permutation pos (stable_counting_sort keyf npartition pos).
Proof. exact permutation_lemma. Qed.
Print Assumptions output_is_permutation.

(* ★ weights move with their positions: the output pairs (psort[i], wsort[i]) are the stable counting sort of the input
   pairs (pos[i], weights[i]) — in particular a permutation of them. *)
Theorem weights_move_with_positions :
  forall (P W C : Type) (keyf : P -> Z) (cv : P -> C) (argsort : list C -> list nat)
    nthread npartition tstart pos (w : list W) keys0 psort0 wsort0,
  preconditions keyf nthread npartition tstart pos (Some w) keys0 psort0 wsort0 ->
  exists psort starts wsort,
    partition_model P W C keyf cv argsort nthread npartition tstart pos (Some w) false keys0 psort0 wsort0
      = Ok (psort, starts, Some wsort) /\
    combine psort wsort = stable_counting_sort (fun pw => keyf (fst pw)) npartition (combine pos w) /\
    Permutation (combine pos w) (combine psort wsort).
Proof. exact weights_lemma. Qed.
Print Assumptions weights_move_with_positions.

(* ★ the start offsets returned (starts_spec, by the first theorem): npartition+1 of them, from 0 to N, non-decreasing,
   and stripe k of the input occupies exactly the cells [starts k, starts (k+1)) of the output *)
Theorem starts_properties : forall (A : Type) (key : A -> Z) np xs,
  1 <= np -> (forall x, In x xs -> 0 <= key x < np) ->
  let st := starts_spec key np xs in
  len st = np + 1 /\ nth 0 st 0 = 0 /\ nth (Z.to_nat np) st 0 = len xs /\
  (forall k, 0 <= k < np -> nth (Z.to_nat k) st 0 <= nth (Z.to_nat (k + 1)) st 0) /\
  (forall k, 0 <= k < np ->
     seg (stable_counting_sort key np xs) (nth (Z.to_nat k) st 0) (nth (Z.to_nat (k + 1)) st 0) = stripe key k xs).
Proof. exact starts_properties_lemma. Qed.
Print Assumptions starts_properties.

(* the result does not depend on the thread count, the block boundaries, or the uninitialised memory *)
Theorem independent_of_thread_count :
  forall (P W C : Type) (keyf : P -> Z) (cv : P -> C) (argsort : list C -> list nat)
    npartition pos (wts : option (list W))
    nthread1 tstart1 keys1 psort1 wsort1 nthread2 tstart2 keys2 psort2 wsort2,
  preconditions keyf nthread1 npartition tstart1 pos wts keys1 psort1 wsort1 ->
  preconditions keyf nthread2 npartition tstart2 pos wts keys2 psort2 wsort2 ->
  partition_model P W C keyf cv argsort nthread1 npartition tstart1 pos wts false keys1 psort1 wsort1
  = partition_model P W C keyf cv argsort nthread2 npartition tstart2 pos wts false keys2 psort2 wsort2.
Proof. exact independence_lemma. Qed.
Print Assumptions independent_of_thread_count.

(* ★ the write cursors: the model's pointers array is ptr (first clause); the cell ranges [ptr t k, ptr t k + cnt t k)
   tile [0, N) in (k, t) lexicographic order (next four clauses); thread t writes particle j of its block into its own
   cell (t, key j), at the cell start plus the rank of j among the earlier particles of the block with that key. *)
Theorem cell_ranges_tile : forall (P : Type) (keyf : P -> Z) nthread npartition tstart (pos : list P),
  1 <= nthread -> 1 <= npartition -> boundaries_ok nthread tstart (len pos) ->
  (forall x, In x pos -> 0 <= keyf x < npartition) ->
  let fk := map keyf pos in
  let ptr := ptr0 tstart fk in let cnt := bcount tstart fk in
  (forall counts, shaped nthread npartition counts ->
     (forall t k, 0 <= t < nthread -> 0 <= k < npartition -> cell counts t k = cnt t k) ->
     pointers_of nthread npartition counts = Ok (tabulate2 nthread npartition ptr)) /\
  ptr 0 0 = 0 /\
  (forall t k, 0 <= t < nthread -> ptr (t + 1) k = ptr t k + cnt t k) /\
  (forall k, ptr nthread k = ptr 0 (k + 1)) /\
  ptr 0 npartition = len pos /\
  (forall t j, 0 <= t < nthread -> ts tstart t <= j < ts tstart (t + 1) ->
     let k := kj fk j in
     Z.of_nat (ndest fk (Z.to_nat j)) = ptr t k + Z.of_nat (ncnt k (seg fk (ts tstart t) j)) /\
     ptr t k <= Z.of_nat (ndest fk (Z.to_nat j)) < ptr t k + cnt t k).
Proof. exact tiles_lemma. Qed.
Print Assumptions cell_ranges_tile.

(* ★ the threads of the scatter phase (ProofsPar.threads: per particle  load cursor; store psort[s]; [store wsort[s];]
   load cursor; store cursor+1, with s the cursor value of the sequential model) have pairwise disjoint footprints:
   no output cell and no cursor cell is touched by two threads *)
Theorem thread_writes_disjoint : forall (P W : Type) (keyf : P -> Z) nthread npartition tstart (pos : list P)
    (wts : option (list W)),
  1 <= nthread -> 1 <= npartition -> boundaries_ok nthread tstart (len pos) ->
  (forall x, In x pos -> 0 <= keyf x < npartition) ->
  disjoint_footprints (threads P W keyf nthread npartition tstart pos wts).
Proof. exact thread_writes_disjoint_lemma. Qed.
Print Assumptions thread_writes_disjoint.

(* ... hence every interleaving that lets all threads finish leaves the stable counting sort in psort (cells 0..N-1)
   and the equally permuted weights in wsort, whatever the arrays contained before: each cell is written (exactly once) *)
Theorem scatter_any_schedule : forall (P W : Type) (keyf : P -> Z) nthread npartition tstart (pos : list P)
    (wts : option (list W)),
  1 <= nthread -> 1 <= npartition -> boundaries_ok nthread tstart (len pos) ->
  (forall x, In x pos -> 0 <= keyf x < npartition) ->
  forall (sch : list nat) (m0 : store (pv P W)) (d : pv P W),
  (forall t, (t < length (threads P W keyf nthread npartition tstart pos wts))%nat ->
     (length (nth t (threads P W keyf nthread npartition tstart pos wts) []) <= count_occ Nat.eq_dec sch t)%nat) ->
  forall c, 0 <= c < len pos ->
    fst (run sch (init (threads P W keyf nthread npartition tstart pos wts) m0 d)) (ploc c)
      = VP (nth_error (stable_counting_sort keyf npartition pos) (Z.to_nat c)) /\
    (forall w, wts = Some w -> len w = len pos ->
       fst (run sch (init (threads P W keyf nthread npartition tstart pos wts) m0 d)) (wloc P pos c)
       = VW (nth_error (map snd (stable_counting_sort (fun pw => keyf (fst pw)) npartition (combine pos w))) (Z.to_nat c))).
Proof. exact scatter_any_schedule_cells. Qed.
Print Assumptions scatter_any_schedule.

(* ★ sort=True, all stripes.  argsort (ndarray.argsort) is external: assumed, for EVERY call, to return a permutation of the
   indices 0..n-1 under which its argument is sorted for cle (any relation: no order axioms are needed).  Then the model returns
   Ok (no out-of-bounds access, no broadcast error) with the same offsets as without sorting, and with s k = starts[k]:
     - every segment psort'[s k, s (k+1)) is Sorted on the coordinate and a Permutation of stripe k of the input
       (= of the segment of the unsorted output, by starts_properties);
     - psort' is still a Permutation of the input, and stripe-ordered: its key sequence is s1-s0 times 0, s2-s1 times 1, ...;
     - weights: the pairs (psort'[j], wsort'[j]) of segment k are a Permutation of the input pairs (pos[i], weights[i]) with
       pos[i] in stripe k (each weight stays with its position), and all the output pairs are a Permutation of the input pairs. *)
Theorem sorted_option :
  forall (P W C : Type) (keyf : P -> Z) (cv : P -> C) (cle : C -> C -> Prop) (argsort : list C -> list nat)
    nthread npartition tstart pos (wts : option (list W)) keys0 psort0 wsort0,
  preconditions keyf nthread npartition tstart pos wts keys0 psort0 wsort0 ->
  (forall l : list C, Permutation (argsort l) (seq 0 (length l))) ->    (* what argsort is assumed to return on every call: *)
  (forall l : list C, Sorted cle (gather l (argsort l))) ->             (* a permutation of the indices that sorts its argument *)
  let st := starts_spec keyf npartition pos in
  let s := fun k => nth (Z.to_nat k) st 0 in
  exists psort' wsort',
    partition_model P W C keyf cv argsort nthread npartition tstart pos wts true keys0 psort0 wsort0
      = Ok (psort', st, wsort') /\
    (forall k, 0 <= k < npartition ->
       Sorted cle (map cv (seg psort' (s k) (s (k + 1)))) /\
       Permutation (seg psort' (s k) (s (k + 1))) (stripe keyf k pos)) /\
    Permutation pos psort' /\
    map keyf psort' = flat_map (fun k => repeat k (Z.to_nat (s (k + 1) - s k))) (upto npartition) /\
    match wts with
    | None => wsort' = None
    | Some w =>
        exists ws, wsort' = Some ws /\ len ws = len pos /\
          (forall k, 0 <= k < npartition ->
             Permutation (combine (seg psort' (s k) (s (k + 1))) (seg ws (s k) (s (k + 1))))
                         (stripe (fun pw => keyf (fst pw)) k (combine pos w))) /\
          Permutation (combine pos w) (combine psort' ws)
    end.
Proof. exact sorted_option_lemma. Qed.
Print Assumptions sorted_option.

(* sort=True, ONE iteration of the sort loop, for an arbitrary stripe [a,b) of arbitrary arrays (the step of the induction
   behind sorted_option, kept as a statement of its own): Ok (no out-of-bounds access), nothing outside the stripe changes,
   the stripe becomes a sorted permutation of itself and the weights are rearranged by the same indices; here argsort is
   constrained on this one call only. *)
Theorem sort_step_on_a_stripe_partial :
  forall (P W C : Type) (cv : P -> C) (cle : C -> C -> Prop) (argsort : list C -> list nat)
         (has_w : bool) (starts : list Z) (i : Z) (pre part post : list P) (wpre wpart wpost : list W),
  0 <= i -> i + 1 < len starts ->
  nth (Z.to_nat i) starts 0 = len pre -> nth (Z.to_nat (i + 1)) starts 0 = len pre + len part ->
  len wpre = len pre -> len wpart = len part ->
  let iord := argsort (map cv part) in
  Permutation iord (seq 0 (length (map cv part))) ->       (* what argsort is assumed to return on this call: *)
  Sorted cle (gather (map cv part) iord) ->                (* a permutation of the indices that sorts its argument *)
  sort_step P W C cv argsort has_w starts i (pre ++ part ++ post, wpre ++ wpart ++ wpost)
  = Ok (pre ++ gather part iord ++ post, if has_w then wpre ++ gather wpart iord ++ wpost else wpre ++ wpart ++ wpost)
  /\ Permutation (gather part iord) part
  /\ Sorted cle (map cv (gather part iord))
  /\ Permutation (combine (gather part iord) (gather wpart iord)) (combine part wpart).
Proof. exact sort_step_spec_lemma. Qed.
Print Assumptions sort_step_on_a_stripe_partial.

(* empty input: Ok, empty outputs, all offsets 0 — for every thread count *)
Theorem empty_input :
  forall (P W C : Type) (keyf : P -> Z) (cv : P -> C) (argsort : list C -> list nat)
    nthread npartition tstart (wts : option (list W)),
  1 <= nthread -> 1 <= npartition -> boundaries_ok nthread tstart 0 ->
  (forall w, wts = Some w -> w = []) ->
  partition_model P W C keyf cv argsort nthread npartition tstart [] wts false [] [] []
  = Ok ([], map (fun _ => 0) (upto (npartition + 1)), option_map (fun _ => []) wts).
Proof. exact empty_input_lemma. Qed.
Print Assumptions empty_input.

(* more threads than particles (some blocks are empty: repeated boundaries) is an instance of the first theorem *)
Theorem more_threads_than_particles :
  forall (P W C : Type) (keyf : P -> Z) (cv : P -> C) (argsort : list C -> list nat)
    nthread npartition tstart pos (wts : option (list W)) keys0 psort0 wsort0,
  len pos < nthread ->
  preconditions keyf nthread npartition tstart pos wts keys0 psort0 wsort0 ->
  partition_model P W C keyf cv argsort nthread npartition tstart pos wts false keys0 psort0 wsort0
  = Ok (stable_counting_sort keyf npartition pos, starts_spec keyf npartition pos, weights_spec keyf npartition pos wts).
Proof. exact more_threads_lemma. Qed.
Print Assumptions more_threads_than_particles.

(* the generated key expression (tsc.py: min(np.int32(pos[i,coord]*inv_pwidth), npartition-1)) is
   min(floor(x*np/box), np-1) and lies in [0, np) on the documented domain 0 <= x <= box *)
Theorem key_spec : forall np box x,
  1 <= np -> (0 < box)%Q -> (0 <= x)%Q -> (x <= box)%Q ->
  key_expr np box x = stripe_index np box x /\ 0 <= key_expr np box x < np.
Proof. exact key_spec_lemma. Qed.
Print Assumptions key_spec.

(* stripe s holds exactly floor(x*np/box) = s, except that the last stripe is closed above *)
Theorem key_below_box : forall np box x,
  1 <= np -> (0 < box)%Q -> (0 <= x)%Q -> (x < box)%Q -> key_expr np box x = Qfloor (x * inject_Z np / box).
Proof. exact key_below_box_lemma. Qed.
Print Assumptions key_below_box.

Theorem key_at_box : forall np box, 1 <= np -> (0 < box)%Q -> key_expr np box box = np - 1.
Proof. exact key_at_box_lemma. Qed.
Print Assumptions key_at_box.
