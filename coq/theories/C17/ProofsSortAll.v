(* C17/ProofsSortAll.v — the optional per-stripe sort (sort=True) over ALL stripes.
   Induction over the sort loop (for_range over the stripes) with the invariant
     stripes < i  : Sorted on the coordinate, a Permutation of their unsorted content (pairs (position, weight) permuted alike)
     stripes >= i : untouched
     lengths unchanged, the whole array a Permutation of the unsorted one,
   the step being ProofsSort.sort_step_spec_lemma (one iteration, arbitrary pre/part/post decomposition) and the
   decomposition coming from the start offsets (stripe k occupies exactly [starts k, starts (k+1))).
   argsort is external: assumed, for EVERY call, to return a permutation of the indices under which its argument is sorted. *)
From Coq Require Import ZArith List Bool Lia Arith Permutation Sorted.
From Abacus.Common Require Import Arr.
From Abacus.C17 Require Import Model Spec Lib Mat Blocks Proofs ProofsCor ProofsSort ProofsTop.
Import ListNotations.
Local Open Scope Z_scope.

(* ---- segments ------------------------------------------------------------------------------------------------------ *)
Lemma seg_len {A} (l : list A) a b : 0 <= a <= b -> b <= len l -> len (seg l a b) = b - a.
Proof.
  intros H1 H2. unfold seg, len in *. rewrite firstn_length, skipn_length. lia.
Qed.

Lemma seg_all {A} (l : list A) : seg l 0 (len l) = l.
Proof.
  unfold seg, len. change (Z.to_nat 0) with O. cbn [skipn].
  replace (Z.to_nat (Z.of_nat (length l) - 0)) with (length l) by lia. apply firstn_all.
Qed.

Lemma seg_decompose {A} (l : list A) a b : 0 <= a <= b -> b <= len l ->
  exists pre part post, l = pre ++ part ++ post /\ len pre = a /\ len part = b - a /\ part = seg l a b.
Proof.
  intros H1 H2. exists (seg l 0 a), (seg l a b), (seg l b (len l)).
  split; [|split; [|split; [|reflexivity]]].
  - rewrite <- (seg_split l a b (len l)) by lia. rewrite <- (seg_split l 0 a (len l)) by lia. symmetry. apply seg_all.
  - rewrite seg_len by lia. lia.
  - apply seg_len; lia.
Qed.

Lemma seg_app_mid {A} (pre part post : list A) a b :
  a = len pre -> b = len pre + len part -> seg (pre ++ part ++ post) a b = part.
Proof.
  intros -> ->. unfold seg.
  replace (Z.to_nat (len pre)) with (length pre) by (unfold len; lia).
  replace (Z.to_nat (len pre + len part - len pre)) with (length part) by (unfold len; lia).
  rewrite skipn_app, skipn_all, Nat.sub_diag. cbn [skipn app].
  rewrite firstn_app, firstn_all, Nat.sub_diag. cbn [firstn]. apply app_nil_r.
Qed.

Lemma seg_app_before {A} (pre rest : list A) a b : 0 <= a <= b -> b <= len pre -> seg (pre ++ rest) a b = seg pre a b.
Proof.
  intros H1 H2. unfold seg. unfold len in H2.
  rewrite skipn_app. replace (Z.to_nat a - length pre)%nat with O by lia. cbn [skipn].
  rewrite firstn_app. rewrite skipn_length.
  replace (Z.to_nat (b - a) - (length pre - Z.to_nat a))%nat with O by lia. cbn [firstn]. apply app_nil_r.
Qed.

Lemma seg_app_after {A} (pre rest : list A) a b :
  len pre <= a -> seg (pre ++ rest) a b = seg rest (a - len pre) (b - len pre).
Proof.
  intros H. unfold seg. unfold len in *.
  rewrite skipn_app. rewrite skipn_all2 by lia. cbn [app].
  replace (Z.to_nat a - length pre)%nat with (Z.to_nat (a - Z.of_nat (length pre))) by lia.
  replace (b - Z.of_nat (length pre) - (a - Z.of_nat (length pre))) with (b - a) by lia. reflexivity.
Qed.

(* replacing the middle part by one of the same length does not change a segment that lies before or after it *)
Lemma seg_replace_mid {A} (pre part part' post : list A) a b :
  len part' = len part -> 0 <= a <= b -> (b <= len pre \/ len pre + len part <= a) ->
  seg (pre ++ part' ++ post) a b = seg (pre ++ part ++ post) a b.
Proof.
  intros Hl H1 [H2|H2].
  - rewrite (seg_app_before pre (part' ++ post)) by assumption. rewrite (seg_app_before pre (part ++ post)) by assumption.
    reflexivity.
  - pose proof (len_nonneg part) as Hn.
    rewrite (seg_app_after pre (part' ++ post)) by lia. rewrite (seg_app_after pre (part ++ post)) by lia.
    rewrite (seg_app_after part' post) by lia. rewrite (seg_app_after part post) by lia. rewrite Hl. reflexivity.
Qed.

(* ---- combine ------------------------------------------------------------------------------------------------------- *)
Lemma combine_app_len {A B} (l1 l2 : list A) (m1 m2 : list B) : length l1 = length m1 ->
  combine (l1 ++ l2) (m1 ++ m2) = combine l1 m1 ++ combine l2 m2.
Proof.
  revert m1; induction l1 as [|a l1 IH]; intros [|b m1] H; cbn [length] in H; try lia; [reflexivity|].
  cbn [app combine]. f_equal. apply IH. lia.
Qed.

Lemma combine_skipn {A B} (l : list A) (m : list B) n : skipn n (combine l m) = combine (skipn n l) (skipn n m).
Proof.
  revert l m; induction n as [|n IH]; intros l m; [reflexivity|].
  destruct l as [|a l]; [reflexivity|].
  destruct m as [|b m]; [cbn [skipn combine]; destruct (skipn n l); reflexivity|].
  cbn [skipn combine]. apply IH.
Qed.

Lemma combine_seg {A B} (l : list A) (m : list B) a b : seg (combine l m) a b = combine (seg l a b) (seg m a b).
Proof. unfold seg. rewrite combine_skipn, combine_firstn. reflexivity. Qed.

Lemma count_below_combine {P W} (keyf : P -> Z) k pos : forall (w : list W), length w = length pos ->
  count_below (fun pw => keyf (fst pw)) k (combine pos w) = count_below keyf k pos.
Proof.
  unfold count_below, len. induction pos as [|x pos IH]; intros w Hl; [reflexivity|].
  destruct w as [|y w]; [cbn [length] in Hl; lia|]. cbn [combine filter fst].
  assert (Hl' : length w = length pos) by (cbn [length] in Hl; lia). specialize (IH w Hl').
  destruct (keyf x <? k); cbn [length]; lia.
Qed.

Lemma map_const_repeat {A B} (f : A -> B) c l : (forall x, In x l -> f x = c) -> map f l = repeat c (length l).
Proof.
  induction l as [|a l IH]; intros H; [reflexivity|]. cbn [map length repeat]. f_equal.
  - apply H. left. reflexivity.
  - apply IH. intros x Hx. apply H. right. exact Hx.
Qed.

(* the offset of stripe k in a list of start offsets *)
Definition off (starts : list Z) (k : Z) : Z := nth (Z.to_nat k) starts 0.

(* ---- the sort loop --------------------------------------------------------------------------------------------------- *)
Section SortLoop.
Variables P W C : Type.
Variable cv : P -> C.
Variable cle : C -> C -> Prop.
Variable argsort : list C -> list nat.
Hypothesis argsort_perm : forall l : list C, Permutation (argsort l) (seq 0 (length l)).
Hypothesis argsort_sorted : forall l : list C, Sorted cle (gather l (argsort l)).
Variable starts : list Z.
Variables np N : Z.
Hypothesis Hnp : 0 <= np.
Hypothesis Hlen : len starts = np + 1.
Hypothesis Hs0 : 0 <= off starts 0.
Hypothesis Hadj : forall k, 0 <= k < np -> off starts k <= off starts (k + 1).
Hypothesis HsN : off starts np <= N.
Variable ps0 : list P.      (* the arrays before the sort loop *)
Variable ws0 : list W.
Hypothesis Hps0 : len ps0 = N.

Local Notation s := (off starts).

Lemma off_mono a b : 0 <= a <= b -> b <= np -> s a <= s b.
Proof.
  intros H1 H2. replace b with (a + Z.of_nat (Z.to_nat (b - a))) by lia.
  assert (G : forall n : nat, a + Z.of_nat n <= np -> s a <= s (a + Z.of_nat n)).
  { induction n as [|n IH]; intros Hn.
    - replace (a + Z.of_nat 0) with a by lia. lia.
    - replace (a + Z.of_nat (S n)) with (a + Z.of_nat n + 1) by lia.
      pose proof (Hadj (a + Z.of_nat n) ltac:(lia)) as Hstep. assert (IH' := IH ltac:(lia)). lia. }
  apply G. lia.
Qed.

(* the segments [s k, s (k+1)), k < n, tile [s 0, s n) *)
Lemma seg_tiling {A} (l : list A) (n : nat) : Z.of_nat n <= np ->
  flat_map (fun k => seg l (s k) (s (k + 1))) (zrange (Z.of_nat n)) = seg l (s 0) (s (Z.of_nat n)).
Proof.
  induction n as [|n IH]; intros Hn.
  - change (Z.of_nat 0) with 0. rewrite zrange_0. cbn [flat_map]. symmetry. apply seg_empty. lia.
  - rewrite zrange_S, flat_map_app, IH by lia. cbn [flat_map]. rewrite app_nil_r.
    replace (Z.of_nat (S n)) with (Z.of_nat n + 1) by lia. symmetry. apply seg_split.
    + split; [exact Hs0|]. apply off_mono; lia.
    + apply Hadj. lia.
Qed.

(* positions: stripes below i are sorted permutations of their unsorted content, the others are untouched *)
Definition PInv (i : Z) (ps : list P) : Prop :=
  len ps = N /\ Permutation ps ps0 /\
  (forall k, 0 <= k < i ->
     Sorted cle (map cv (seg ps (s k) (s (k + 1)))) /\
     Permutation (seg ps (s k) (s (k + 1))) (seg ps0 (s k) (s (k + 1)))) /\
  (forall k, i <= k < np -> seg ps (s k) (s (k + 1)) = seg ps0 (s k) (s (k + 1))).

(* weights: in the stripes below i the pairs (position, weight) are a permutation of the unsorted pairs *)
Definition WInv (i : Z) (ps : list P) (ws : list W) : Prop :=
  len ws = N /\ Permutation (combine ps ws) (combine ps0 ws0) /\
  (forall k, 0 <= k < i ->
     Permutation (combine (seg ps (s k) (s (k + 1))) (seg ws (s k) (s (k + 1))))
                 (combine (seg ps0 (s k) (s (k + 1))) (seg ws0 (s k) (s (k + 1))))) /\
  (forall k, i <= k < np -> seg ws (s k) (s (k + 1)) = seg ws0 (s k) (s (k + 1))).

Definition SInv (has_w : bool) (i : Z) (st : list P * list W) : Prop :=
  PInv i (fst st) /\ if has_w then WInv i (fst st) (snd st) else snd st = ws0.

Lemma PInv_step i pre part part' post :
  0 <= i < np -> len pre = s i -> len part = s (i + 1) - s i ->
  Permutation part' part -> Sorted cle (map cv part') ->
  PInv i (pre ++ part ++ post) -> PInv (i + 1) (pre ++ part' ++ post).
Proof.
  intros Hi Hlpre Hlpart Hg Hsrt [Hl [Hperm [Hdone Htodo]]].
  assert (Hgl : len part' = len part) by (unfold len; rewrite (Permutation_length Hg); reflexivity).
  pose proof (Hadj i Hi) as Hab.
  split; [|split; [|split]].
  - rewrite !len_app in *. lia.
  - etransitivity; [|exact Hperm]. apply Permutation_app_head, Permutation_app_tail. exact Hg.
  - intros k Hk. destruct (Z.eq_dec k i) as [->|Hne].
    + rewrite (seg_app_mid pre part' post) by lia. split; [exact Hsrt|].
      pose proof (Htodo i ltac:(lia)) as Hti. rewrite (seg_app_mid pre part post) in Hti by lia.
      rewrite <- Hti. exact Hg.
    + pose proof (off_mono 0 k ltac:(lia) ltac:(lia)) as H0k. pose proof (Hadj k ltac:(lia)) as Hkk.
      pose proof (off_mono (k + 1) i ltac:(lia) ltac:(lia)) as Hki.
      rewrite (seg_replace_mid pre part part' post) by lia. apply Hdone. lia.
  - intros k Hk.
    pose proof (off_mono 0 k ltac:(lia) ltac:(lia)) as H0k. pose proof (Hadj k ltac:(lia)) as Hkk.
    pose proof (off_mono (i + 1) k ltac:(lia) ltac:(lia)) as Hik.
    rewrite (seg_replace_mid pre part part' post) by lia. apply Htodo. lia.
Qed.

Lemma WInv_step i pre part part' post wpre wpart wpart' wpost :
  0 <= i < np -> len pre = s i -> len part = s (i + 1) - s i ->
  len wpre = len pre -> len wpart = len part -> len part' = len part -> len wpart' = len wpart ->
  Permutation (combine part' wpart') (combine part wpart) ->
  part = seg ps0 (s i) (s (i + 1)) ->
  WInv i (pre ++ part ++ post) (wpre ++ wpart ++ wpost) -> WInv (i + 1) (pre ++ part' ++ post) (wpre ++ wpart' ++ wpost).
Proof.
  intros Hi Hlpre Hlpart Hlwpre Hlwpart Hgl Hgwl Hcmb Hpart0 [Hl [Hperm [Hdone Htodo]]].
  pose proof (Hadj i Hi) as Hab.
  split; [|split; [|split]].
  - rewrite !len_app in *. lia.
  - etransitivity; [|exact Hperm].
    rewrite (combine_app_len pre (part' ++ post) wpre (wpart' ++ wpost)) by (unfold len in *; lia).
    rewrite (combine_app_len part' post wpart' wpost) by (unfold len in *; lia).
    rewrite (combine_app_len pre (part ++ post) wpre (wpart ++ wpost)) by (unfold len in *; lia).
    rewrite (combine_app_len part post wpart wpost) by (unfold len in *; lia).
    apply Permutation_app_head, Permutation_app_tail. exact Hcmb.
  - intros k Hk. destruct (Z.eq_dec k i) as [->|Hne].
    + rewrite (seg_app_mid pre part' post) by lia. rewrite (seg_app_mid wpre wpart' wpost) by lia.
      pose proof (Htodo i ltac:(lia)) as Hti. rewrite (seg_app_mid wpre wpart wpost) in Hti by lia.
      rewrite <- Hti, <- Hpart0. exact Hcmb.
    + pose proof (off_mono 0 k ltac:(lia) ltac:(lia)) as H0k. pose proof (Hadj k ltac:(lia)) as Hkk.
      pose proof (off_mono (k + 1) i ltac:(lia) ltac:(lia)) as Hki.
      rewrite (seg_replace_mid pre part part' post) by lia.
      rewrite (seg_replace_mid wpre wpart wpart' wpost) by lia. apply Hdone. lia.
  - intros k Hk.
    pose proof (off_mono 0 k ltac:(lia) ltac:(lia)) as H0k. pose proof (Hadj k ltac:(lia)) as Hkk.
    pose proof (off_mono (i + 1) k ltac:(lia) ltac:(lia)) as Hik.
    rewrite (seg_replace_mid wpre wpart wpart' wpost) by lia. apply Htodo. lia.
Qed.

(* one iteration without weights: the weights array (whatever it is) is passed through *)
Lemma sort_step_no_weights i pre part post (ws : list W) :
  0 <= i -> i + 1 < len starts -> s i = len pre -> s (i + 1) = len pre + len part ->
  Permutation (argsort (map cv part)) (seq 0 (length part)) ->
  sort_step P W C cv argsort false starts i (pre ++ part ++ post, ws)
  = Ok (pre ++ gather part (argsort (map cv part)) ++ post, ws).
Proof.
  intros Hi Hi1 Ha Hb Hperm. unfold off in Ha, Hb.
  assert (Hgl : len (gather part (argsort (map cv part))) = len part).
  { unfold len. rewrite (Permutation_length (gather_perm part _ Hperm)). reflexivity. }
  unfold sort_step. rewrite (get_ok_nth starts i 0) by lia. cbn [bind].
  rewrite (get_ok_nth starts (i + 1) 0) by lia. cbn [bind]. rewrite Ha, Hb.
  rewrite slice_mid. rewrite set_slice_mid by exact Hgl. cbn [bind]. reflexivity.
Qed.

Lemma sort_loop_step has_w i st :
  0 <= i < np -> SInv has_w i st ->
  exists st', sort_step P W C cv argsort has_w starts i st = Ok st' /\ SInv has_w (i + 1) st'.
Proof.
  intros Hi [HP HW]. destruct st as [ps ws]. cbn [fst snd] in HP, HW.
  pose proof (off_mono 0 i ltac:(lia) ltac:(lia)) as Ha0.
  pose proof (Hadj i Hi) as Hab.
  pose proof (off_mono (i + 1) np ltac:(lia) ltac:(lia)) as HbN.
  assert (HlN : len ps = N) by exact (proj1 HP).
  destruct (seg_decompose ps (s i) (s (i + 1)) ltac:(lia) ltac:(lia)) as [pre [part [post [Eps [Hlpre [Hlpart _]]]]]].
  subst ps.
  assert (Hip : Permutation (argsort (map cv part)) (seq 0 (length (map cv part)))) by apply argsort_perm.
  assert (His : Sorted cle (gather (map cv part) (argsort (map cv part)))) by apply argsort_sorted.
  assert (Hipp : Permutation (argsort (map cv part)) (seq 0 (length part))) by (rewrite <- (map_length cv part); exact Hip).
  assert (Hg : Permutation (gather part (argsort (map cv part))) part) by (apply gather_perm; exact Hipp).
  assert (Hsrt : Sorted cle (map cv (gather part (argsort (map cv part))))) by (rewrite gather_map; exact His).
  pose proof (PInv_step i pre part _ post Hi Hlpre Hlpart Hg Hsrt HP) as HP'.
  assert (Hb : nth (Z.to_nat (i + 1)) starts 0 = len pre + len part) by (change (s (i + 1) = len pre + len part); lia).
  destruct has_w.
  - assert (HlwN : len ws = N) by exact (proj1 HW).
    destruct (seg_decompose ws (s i) (s (i + 1)) ltac:(lia) ltac:(lia)) as [wpre [wpart [wpost [Ews [Hlwpre [Hlwpart _]]]]]].
    subst ws.
    pose proof (sort_step_spec_lemma P W C cv cle argsort true starts i pre part post wpre wpart wpost
                  ltac:(lia) ltac:(lia) (eq_sym Hlpre) Hb ltac:(lia) ltac:(lia)) as Hstep.
    cbn zeta in Hstep. specialize (Hstep Hip His). destruct Hstep as [Estep [_ [_ Hcmb]]].
    eexists. split; [exact Estep|]. split; cbn [fst snd]; [exact HP'|].
    assert (Hgw : Permutation (gather wpart (argsort (map cv part))) wpart).
    { apply gather_perm. replace (length wpart) with (length part) by (unfold len in *; lia). exact Hipp. }
    apply (WInv_step i pre part _ post wpre wpart _ wpost Hi Hlpre Hlpart); try lia.
    + unfold len. rewrite (Permutation_length Hg). reflexivity.
    + unfold len. rewrite (Permutation_length Hgw). reflexivity.
    + exact Hcmb.
    + destruct HP as [_ [_ [_ Htodo]]]. pose proof (Htodo i ltac:(lia)) as Hti.
      rewrite (seg_app_mid pre part post) in Hti by lia. exact Hti.
    + exact HW.
  - eexists. split.
    + apply sort_step_no_weights; [lia|lia|lia|lia|exact Hipp].
    + split; cbn [fst snd]; [exact HP'|exact HW].
Qed.

Lemma sort_loop_lemma has_w : (has_w = true -> len ws0 = N) ->
  exists ps' ws',
    for_range 0 np (sort_step P W C cv argsort has_w starts) (ps0, ws0) = Ok (ps', ws') /\
    PInv np ps' /\ (if has_w then WInv np ps' ws' else ws' = ws0).
Proof.
  intros Hw.
  destruct (for_range_inv (SInv has_w) 0 np (sort_step P W C cv argsort has_w starts) (ps0, ws0) Hnp) as [[ps' ws'] [E HI]].
  - split; cbn [fst snd].
    + split; [exact Hps0|]. split; [apply Permutation_refl|]. split; [intros k Hk; lia|intros k Hk; reflexivity].
    + destruct has_w; [|reflexivity].
      split; [apply Hw; reflexivity|]. split; [apply Permutation_refl|]. split; [intros k Hk; lia|intros k Hk; reflexivity].
  - intros i st Hi HI. apply sort_loop_step; assumption.
  - exists ps', ws'. split; [exact E|]. exact HI.
Qed.

End SortLoop.

(* ---- sort = true differs from sort = false by the sort loop only ------------------------------------------------------ *)
Lemma sort_flag_decompose : forall (P W C : Type) (keyf : P -> Z) (cv : P -> C) (argsort : list C -> list nat)
    nthread npartition tstart pos (wts : option (list W)) keys0 psort0 wsort0 ps st wo,
  partition_model P W C keyf cv argsort nthread npartition tstart pos wts false keys0 psort0 wsort0 = Ok (ps, st, wo) ->
  exists ws, wo = (match wts with Some _ => Some ws | None => None end) /\
    partition_model P W C keyf cv argsort nthread npartition tstart pos wts true keys0 psort0 wsort0
    = ('(ps', ws') <- for_range 0 npartition
                        (sort_step P W C cv argsort (match wts with Some _ => true | None => false end) st) (ps, ws) ;;
       Ok (ps', st, match wts with Some _ => Some ws' | None => None end)).
Proof.
  intros P W C keyf cv argsort T np tstart pos wts keys0 psort0 wsort0 ps st wo.
  unfold partition_model.
  repeat (match goal with
          | |- bind ?e _ = Ok _ -> _ => destruct e as [?| |]; [|intros H; discriminate H|intros H; discriminate H]
          end;
          repeat match goal with x : (_ * _)%type |- _ => destruct x end;
          cbn [bind]).
  intros H. inversion H; subst. eexists. split; reflexivity.
Qed.

(* ---- the whole function, sort = true ------------------------------------------------------------------------------------ *)
Lemma sorted_option_lemma :
  forall (P W C : Type) (keyf : P -> Z) (cv : P -> C) (cle : C -> C -> Prop) (argsort : list C -> list nat)
    nthread npartition tstart pos (wts : option (list W)) keys0 psort0 wsort0,
  preconditions keyf nthread npartition tstart pos wts keys0 psort0 wsort0 ->
  (forall l : list C, Permutation (argsort l) (seq 0 (length l))) ->
  (forall l : list C, Sorted cle (gather l (argsort l))) ->
  let st := starts_spec keyf npartition pos in
  let s := fun k => nth (Z.to_nat k) st 0 in
  exists psort' wsort',
    partition_model P W C keyf cv argsort nthread npartition tstart pos wts true keys0 psort0 wsort0
      = Ok (psort', st, wsort') /\
    (forall k, 0 <= k < npartition ->
       Sorted cle (map cv (seg psort' (s k) (s (k + 1)))) /\
       Permutation (seg psort' (s k) (s (k + 1))) (stripe keyf k pos)) /\
    Permutation pos psort' /\
    map keyf psort' = flat_map (fun k => repeat k (Z.to_nat (s (k + 1) - s k))) (upto npartition) /\
    match wts with
    | None => wsort' = None
    | Some w =>
        exists ws, wsort' = Some ws /\ len ws = len pos /\
          (forall k, 0 <= k < npartition ->
             Permutation (combine (seg psort' (s k) (s (k + 1))) (seg ws (s k) (s (k + 1))))
                         (stripe (fun pw => keyf (fst pw)) k (combine pos w))) /\
          Permutation (combine pos w) (combine psort' ws)
    end.
Proof.
  intros P W C keyf cv cle argsort T np tstart pos wts keys0 psort0 wsort0 Hpre argsort_perm argsort_sorted st s.
  subst s st. cbn beta.
  pose proof (main_lemma P W C keyf cv argsort T np tstart pos wts keys0 psort0 wsort0 Hpre) as E0.
  destruct Hpre as [HT [Hnp [Hb [Hk [Hk0 [Hp0 Hw]]]]]].
  destruct (sort_flag_decompose P W C keyf cv argsort T np tstart pos wts keys0 psort0 wsort0 _ _ _ E0) as [ws0 [Ewo E1]].
  pose proof (starts_properties_lemma P keyf np pos Hnp Hk) as SP. cbn zeta in SP.
  destruct SP as [Sl [S0 [SN [Sadj Sseg]]]].
  pose proof (sort_is_permutation keyf np pos Hk) as Hperm0.
  assert (Hps0 : len (stable_counting_sort keyf np pos) = len pos).
  { unfold len. rewrite <- (Permutation_length Hperm0). reflexivity. }
  (* facts about the unsorted weights *)
  assert (HW0 : forall w, wts = Some w ->
            length w = length pos /\
            ws0 = map snd (stable_counting_sort (fun pw => keyf (fst pw)) np (combine pos w)) /\
            Permutation (combine pos w) (stable_counting_sort (fun pw => keyf (fst pw)) np (combine pos w)) /\
            len ws0 = len pos).
  { intros w Ew. subst wts. destruct (Hw w eq_refl) as [Hlw _].
    assert (Hl : length w = length pos) by (unfold len in Hlw; lia).
    unfold weights_spec in Ewo. cbn [option_map] in Ewo. injection Ewo as Ews0.
    assert (Hpq : Permutation (combine pos w) (stable_counting_sort (fun pw => keyf (fst pw)) np (combine pos w))).
    { apply sort_is_permutation. intros [p y] Hin. cbn [fst]. apply Hk. apply in_combine_l in Hin. exact Hin. }
    split; [exact Hl|]. split; [symmetry; exact Ews0|]. split; [exact Hpq|].
    rewrite <- Ews0. unfold len. rewrite map_length, <- (Permutation_length Hpq), combine_length. lia. }
  destruct (sort_loop_lemma P W C cv cle argsort argsort_perm argsort_sorted (starts_spec keyf np pos) np (len pos)
              ltac:(lia) Sl
              ltac:(unfold off; change (Z.to_nat 0) with O; lia)
              Sadj
              ltac:(unfold off; lia)
              (stable_counting_sort keyf np pos) ws0 Hps0
              (match wts with Some _ => true | None => false end))
    as [ps' [ws' [E2 [[Hl' [Hperm' [Hdone _]]] HWI]]]].
  { destruct wts as [w|]; [|discriminate]. intros _. exact (proj2 (proj2 (proj2 (HW0 w eq_refl)))). }
  rewrite E2 in E1. cbn [bind] in E1. unfold off in *.
  assert (Hstripes : forall k, 0 <= k < np ->
            Sorted cle (map cv (seg ps' (nth (Z.to_nat k) (starts_spec keyf np pos) 0)
                                        (nth (Z.to_nat (k + 1)) (starts_spec keyf np pos) 0))) /\
            Permutation (seg ps' (nth (Z.to_nat k) (starts_spec keyf np pos) 0)
                                 (nth (Z.to_nat (k + 1)) (starts_spec keyf np pos) 0)) (stripe keyf k pos)).
  { intros k Hkr. destruct (Hdone k Hkr) as [Hs Hp]. rewrite (Sseg k Hkr) in Hp. split; assumption. }
  exists ps', (match wts with Some _ => Some ws' | None => None end).
  split; [exact E1|]. split; [exact Hstripes|]. split; [|split].
  - etransitivity; [exact Hperm0|]. symmetry. exact Hperm'.
  - (* the key sequence: ps' is the concatenation of its segments, and segment k holds keys k only *)
    assert (Htile : ps' = flat_map (fun k => seg ps' (nth (Z.to_nat k) (starts_spec keyf np pos) 0)
                                                  (nth (Z.to_nat (k + 1)) (starts_spec keyf np pos) 0)) (zrange np)).
    { pose proof (seg_tiling (starts_spec keyf np pos) np ltac:(unfold off; change (Z.to_nat 0) with O; lia) Sadj
                    ps' (Z.to_nat np) ltac:(lia)) as Ht.
      unfold off in Ht. rewrite Z2Nat.id in Ht by lia. rewrite Ht. change (Z.to_nat 0) with O. rewrite S0, SN, <- Hl'.
      symmetry. apply seg_all. }
    rewrite Htile at 1. rewrite map_flat_map. change (upto np) with (zrange np).
    apply flat_map_ext_in'. intros k Hkr. apply zrange_In in Hkr.
    destruct (Hstripes k Hkr) as [_ Hp].
    rewrite (map_const_repeat keyf k).
    + f_equal. rewrite (Permutation_length Hp).
      pose proof (stripe_length keyf k pos) as Hsl. rewrite !starts_spec_nth by lia. lia.
    + intros x Hx. apply (Permutation_in _ Hp) in Hx. unfold stripe in Hx. apply filter_In in Hx.
      destruct Hx as [_ Hx]. apply Z.eqb_eq in Hx. exact Hx.
  - destruct wts as [w|]; [|reflexivity].
    destruct (HW0 w eq_refl) as [Hl [Ews0 [Hpq Hlws0]]].
    destruct HWI as [Hlw' [Hpermw [Hdonew _]]]. unfold off in Hdonew.
    pose proof (pairs_stay_together keyf np pos w Hl) as Hcomb. rewrite <- Ews0 in Hcomb.
    exists ws'. split; [reflexivity|]. split; [exact Hlw'|]. split.
    + intros k Hkr. pose proof (Hdonew k Hkr) as Hpk.
      rewrite <- (combine_seg (stable_counting_sort keyf np pos) ws0), Hcomb in Hpk.
      rewrite !starts_spec_nth in Hpk |- * by lia.
      rewrite <- !(count_below_combine keyf _ pos w Hl) in Hpk |- *.
      rewrite stripe_location in Hpk; [exact Hpk| |exact Hkr].
      intros [p y] Hin. cbn [fst]. apply Hk. apply in_combine_l in Hin. exact Hin.
    + etransitivity; [exact Hpq|]. rewrite <- Hcomb. symmetry. exact Hpermw.
Qed.
