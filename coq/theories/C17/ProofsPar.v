(* C17/ProofsPar.v — the scatter phase under every schedule.

   Thread t executes, for every particle j of its block, the micro-operations of Model.scatter_step:
     load pointers[t,k]; store psort[s]; (store wsort[s];) load pointers[t,k]; store pointers[t,k] (+1)
   where s is the cursor value the sequential model reads at that point (Proofs.dest_cursor: s = dest j; the cursor
   cell (t,k) is touched by thread t only, which is part of the disjointness theorem below).
   thread_writes_disjoint: the footprints of different threads are disjoint and no output cell is written twice;
   scatter_any_schedule: hence (Common/Par.drf_any_schedule) every interleaving that runs all threads to completion
   leaves the stable counting sort in psort (and the sorted weights in wsort). *)
From Coq Require Import ZArith List Bool Lia Arith.
From Abacus.Common Require Import Arr Par.
From Abacus.C17 Require Import Model Spec Lib Mat Blocks Proofs ProofsCor.
Import ListNotations.
Local Open Scope Z_scope.

Inductive pv (P W : Type) := VP (p : option P) | VW (w : option W) | VI (z : Z).
Arguments VP {P W} p.
Arguments VW {P W} w.
Arguments VI {P W} z.

Lemma exec_ops_last_write {V} (a b : list (op V)) l f s :
  ~ In l (locs b) -> fst (exec_ops V (a ++ St l f :: b) s) l = f (snd (exec_ops V a s)).
Proof.
  intros H. rewrite exec_ops_app. change (St l f :: b) with ([St l f] ++ b). rewrite exec_ops_app.
  rewrite exec_ops_frame by exact H. cbn. apply supd_same.
Qed.

Section ParScatter.
Variables P W : Type.
Variable keyf : P -> Z.
Variable T np : Z.
Variable tstart : list Z.
Variable pos : list P.
Variable wts : option (list W).

Let N := len pos.
Let fk := map keyf pos.

Hypothesis HT : 1 <= T.
Hypothesis Hnp : 1 <= np.
Hypothesis Hb : boundaries_ok T tstart N.
Hypothesis Hkeys : forall x, In x pos -> 0 <= keyf x < np.

Definition ploc (s : Z) : Z := s.                       (* psort[s] *)
Definition wloc (s : Z) : Z := N + s.                   (* wsort[s] *)
Definition cloc (t k : Z) : Z := 2 * N + t * np + k.    (* pointers[t, k] *)

Definition incr (v : pv P W) : pv P W := match v with VI z => VI (z + 1) | _ => v end.
Definition dst (j : Z) : Z := Z.of_nat (ndest fk (Z.to_nat j)).

Definition particle_ops (t j : Z) : list (op (pv P W)) :=
  [Ld (cloc t (kj fk j)); St (ploc (dst j)) (fun _ => VP (nth_error pos (Z.to_nat j)))]
  ++ match wts with Some w => [St (wloc (dst j)) (fun _ => VW (nth_error w (Z.to_nat j)))] | None => [] end
  ++ [Ld (cloc t (kj fk j)); St (cloc t (kj fk j)) incr].

Definition block_idx (t : Z) : list Z := map (fun i => ts tstart t + i) (zrange (ts tstart (t + 1) - ts tstart t)).
Definition thread_ops (t : Z) : list (op (pv P W)) := flat_map (particle_ops t) (block_idx t).
Definition threads : list (list (op (pv P W))) := map thread_ops (zrange T).

Lemma fk_len' : len fk = N.
Proof. unfold fk, N, len. rewrite map_length. reflexivity. Qed.
Lemma fk_range' : forall x, In x fk -> 0 <= x < np.
Proof. intros x Hx. unfold fk in Hx. apply in_map_iff in Hx. destruct Hx as [p [E Hp]]. subst x. apply Hkeys. exact Hp. Qed.

Lemma block_idx_In t j : In j (block_idx t) <-> ts tstart t <= j < ts tstart (t + 1).
Proof.
  unfold block_idx. rewrite in_map_iff. split.
  - intros [i [E Hi]]. apply zrange_In in Hi. lia.
  - intros H. exists (j - ts tstart t). split; [lia|]. apply zrange_In. lia.
Qed.

Lemma in_block_range t j : 0 <= t < T -> ts tstart t <= j < ts tstart (t + 1) -> 0 <= j < N.
Proof.
  intros Ht Hj. pose proof (ts_nonneg T tstart N Hb t ltac:(lia)). pose proof (ts_le_N T tstart N Hb (t + 1) ltac:(lia)). lia.
Qed.

Lemma dst_range j : 0 <= j < N -> 0 <= dst j < N.
Proof.
  intros H. unfold dst. pose proof (ndest_range np fk (Z.to_nat j) fk_range') as Hr.
  pose proof fk_len' as Hl. unfold len in Hl. specialize (Hr ltac:(lia)). lia.
Qed.

Lemma dst_inj j j' : 0 <= j < N -> 0 <= j' < N -> dst j = dst j' -> j = j'.
Proof.
  intros H H' E. unfold dst in E. pose proof fk_len' as Hl. unfold len in Hl.
  assert (Z.to_nat j = Z.to_nat j') by (apply (ndest_inj fk); lia). lia.
Qed.

Lemma particle_locs t j l : In l (locs (particle_ops t j)) -> l = cloc t (kj fk j) \/ l = ploc (dst j) \/ l = wloc (dst j).
Proof.
  unfold particle_ops, locs. rewrite !map_app. rewrite !in_app_iff. cbn [map op_loc In].
  intros [H|[H|H]].
  - destruct H as [H|[H|[]]]; auto.
  - destruct wts; cbn [map op_loc In] in H; [destruct H as [H|[]]; auto|destruct H].
  - destruct H as [H|[H|[]]]; auto.
Qed.

Lemma thread_locs t l : In l (locs (thread_ops t)) ->
  exists j, ts tstart t <= j < ts tstart (t + 1) /\ (l = cloc t (kj fk j) \/ l = ploc (dst j) \/ l = wloc (dst j)).
Proof.
  unfold thread_ops, locs. rewrite flat_map_concat_map, concat_map, map_map. intros H.
  apply in_concat in H. destruct H as [ls [Hls Hl]]. apply in_map_iff in Hls. destruct Hls as [j [E Hj]]. subst ls.
  exists j. split; [apply block_idx_In; exact Hj|]. apply particle_locs. exact Hl.
Qed.

Lemma nth_threads i : nth i threads [] = if (Z.of_nat i <? T) then thread_ops (Z.of_nat i) else [].
Proof.
  unfold threads. destruct (Z.of_nat i <? T) eqn:E.
  - apply Z.ltb_lt in E. apply map_zrange_nth. lia.
  - apply Z.ltb_ge in E. apply nth_overflow. rewrite map_length, zrange_length. lia.
Qed.

Lemma blocks_disjoint t t' j j' : 0 <= t < T -> 0 <= t' < T -> t <> t' ->
  ts tstart t <= j < ts tstart (t + 1) -> ts tstart t' <= j' < ts tstart (t' + 1) -> j <> j'.
Proof.
  intros Ht Ht' Hne Hj Hj' E. subst j'. destruct (Z_lt_ge_dec t t').
  - pose proof (ts_mono T tstart N Hb (t + 1) t' ltac:(lia) ltac:(lia)). lia.
  - pose proof (ts_mono T tstart N Hb (t' + 1) t ltac:(lia) ltac:(lia)). lia.
Qed.

Lemma thread_writes_disjoint_lemma : disjoint_footprints threads.
Proof.
  intros i i' l Hne Hi Hi'. rewrite nth_threads in Hi, Hi'.
  destruct (Z.of_nat i <? T) eqn:E; [|destruct Hi]. destruct (Z.of_nat i' <? T) eqn:E'; [|destruct Hi'].
  apply Z.ltb_lt in E, E'.
  set (t := Z.of_nat i) in *. set (t' := Z.of_nat i') in *.
  assert (Ht : 0 <= t < T) by lia. assert (Ht' : 0 <= t' < T) by lia. assert (Htt : t <> t') by lia.
  destruct (thread_locs t l Hi) as [j [Hj Hl]]. destruct (thread_locs t' l Hi') as [j' [Hj' Hl']].
  pose proof (in_block_range t j Ht Hj) as HjN. pose proof (in_block_range t' j' Ht' Hj') as HjN'.
  pose proof (dst_range j HjN) as Hd. pose proof (dst_range j' HjN') as Hd'.
  pose proof (kj_range N np fk fk_len' fk_range' j HjN) as Hk. pose proof (kj_range N np fk fk_len' fk_range' j' HjN') as Hk'.
  pose proof (blocks_disjoint t t' j j' Ht Ht' Htt Hj Hj') as Hjj.
  assert (Hdd : dst j <> dst j') by (intros Ed; apply Hjj; apply dst_inj; assumption).
  unfold cloc, ploc, wloc in *.
  destruct Hl as [Hl|[Hl|Hl]]; destruct Hl' as [Hl'|[Hl'|Hl']]; try lia.
  subst l. assert ((t - t') * np = kj fk j' - kj fk j) by lia. nia.
Qed.

(* every particle lies in the block of some thread *)
Lemma block_of j : 0 <= j < N -> exists t, 0 <= t < T /\ ts tstart t <= j < ts tstart (t + 1).
Proof.
  intros Hj.
  assert (G : forall n : nat, Z.of_nat n <= T -> j < ts tstart (Z.of_nat n) ->
               exists t, 0 <= t < Z.of_nat n /\ ts tstart t <= j < ts tstart (t + 1)).
  { induction n as [|n IH]; intros Hn Hlt.
    - change (Z.of_nat 0) with 0 in Hlt. rewrite (ts_0 T tstart N Hb) in Hlt. lia.
    - destruct (Z_lt_ge_dec j (ts tstart (Z.of_nat n))) as [L|L].
      + destruct (IH ltac:(lia) L) as [t [Ht Hb']]. exists t. split; [lia|exact Hb'].
      + exists (Z.of_nat n). split; [lia|]. replace (Z.of_nat n + 1) with (Z.of_nat (S n)) by lia. lia. }
  destruct (G (Z.to_nat T)) as [t [Ht Hjt]]; [lia|rewrite Z2Nat.id by lia; rewrite (ts_T T tstart N Hb); lia|].
  exists t. split; [lia|exact Hjt].
Qed.

(* the store a complete isolated run of thread t leaves in the output cells of particle j of its block *)
Lemma thread_result t j s :
  0 <= t < T -> ts tstart t <= j < ts tstart (t + 1) ->
  fst (exec_ops _ (thread_ops t) s) (ploc (dst j)) = VP (nth_error pos (Z.to_nat j)) /\
  forall w, wts = Some w -> fst (exec_ops _ (thread_ops t) s) (wloc (dst j)) = VW (nth_error w (Z.to_nat j)).
Proof.
  intros Ht Hj.
  assert (Hin : In j (block_idx t)) by (apply block_idx_In; exact Hj).
  destruct (in_split j (block_idx t) Hin) as [pre [post Hsp]].
  assert (Hnd : NoDup (block_idx t)).
  { unfold block_idx. apply FinFun.Injective_map_NoDup; [|apply zrange_NoDup]. intros a b H. lia. }
  assert (Hpost : forall j', In j' post -> j' <> j /\ ts tstart t <= j' < ts tstart (t + 1)).
  { intros j' Hj'. split.
    - rewrite Hsp in Hnd. apply NoDup_remove_2 in Hnd. intros E. subst j'. apply Hnd. apply in_or_app. right. exact Hj'.
    - apply block_idx_In. rewrite Hsp. apply in_or_app. right. right. exact Hj'. }
  pose proof (in_block_range t j Ht Hj) as HjN. pose proof (dst_range j HjN) as Hd.
  pose proof (kj_range N np fk fk_len' fk_range' j HjN) as Hk.
  (* no later operation of the thread touches the two output cells of particle j *)
  assert (Hlater : forall l, (l = ploc (dst j) \/ l = wloc (dst j)) ->
            ~ In l (locs (flat_map (particle_ops t) post))).
  { intros l Hl Hc. unfold locs in Hc. rewrite flat_map_concat_map, concat_map, map_map in Hc.
    apply in_concat in Hc. destruct Hc as [ls [Hls Hlin]]. apply in_map_iff in Hls. destruct Hls as [j' [E Hj']]. subst ls.
    destruct (Hpost j' Hj') as [Hne Hjr'].
    pose proof (in_block_range t j' Ht Hjr') as HjN'. pose proof (dst_range j' HjN') as Hd'.
    pose proof (kj_range N np fk fk_len' fk_range' j' HjN') as Hk'.
    assert (Hdd : dst j' <> dst j) by (intros Ed; apply Hne; apply dst_inj; assumption).
    apply particle_locs in Hlin. unfold cloc, ploc, wloc in *.
    assert (0 <= t * np) by nia.
    destruct Hl as [Hl|Hl]; destruct Hlin as [Hlin|[Hlin|Hlin]]; lia. }
  unfold thread_ops. rewrite Hsp, flat_map_app. cbn [flat_map].
  assert (Htn : 0 <= t * np) by nia.
  set (A := flat_map (particle_ops t) pre). set (B := flat_map (particle_ops t) post).
  set (c := cloc t (kj fk j)).
  split.
  - set (wpart := match wts with
                  | Some w => [St (wloc (dst j)) (fun _ : pv P W => VW (nth_error w (Z.to_nat j)))]
                  | None => []
                  end).
    assert (E : A ++ particle_ops t j ++ B =
                (A ++ [Ld c]) ++ St (ploc (dst j)) (fun _ => VP (nth_error pos (Z.to_nat j)))
                  :: (wpart ++ [Ld c; St c incr] ++ B)).
    { unfold particle_ops. fold c. fold wpart. rewrite <- !app_assoc. reflexivity. }
    rewrite E, exec_ops_last_write; [reflexivity|].
    unfold locs. rewrite !map_app, !in_app_iff. intros [Hc|[Hc|Hc]].
    + subst wpart. unfold ploc, wloc in *. destruct wts; cbn [map op_loc In] in Hc; [destruct Hc as [Hc|[]]; lia|destruct Hc].
    + cbn [map op_loc In] in Hc. subst c. unfold cloc, ploc in *. destruct Hc as [Hc|[Hc|[]]]; lia.
    + apply (Hlater (ploc (dst j))); [left; reflexivity|exact Hc].
  - intros w Ew.
    assert (E : A ++ particle_ops t j ++ B =
                (A ++ [Ld c; St (ploc (dst j)) (fun _ => VP (nth_error pos (Z.to_nat j)))])
                  ++ St (wloc (dst j)) (fun _ => VW (nth_error w (Z.to_nat j))) :: ([Ld c; St c incr] ++ B)).
    { unfold particle_ops. fold c. rewrite Ew. rewrite <- !app_assoc. reflexivity. }
    rewrite E, exec_ops_last_write; [reflexivity|].
    unfold locs. rewrite !map_app, !in_app_iff. intros [Hc|Hc].
    + cbn [map op_loc In] in Hc. subst c. unfold cloc, wloc in *. destruct Hc as [Hc|[Hc|[]]]; lia.
    + apply (Hlater (wloc (dst j))); [right; reflexivity|exact Hc].
Qed.

(* ---- every schedule ----------------------------------------------------------------------------------------------- *)
Lemma scatter_any_schedule_core sch m0 d :
  (forall t, (t < length threads)%nat -> (length (nth t threads []) <= count_occ Nat.eq_dec sch t)%nat) ->
  forall j, 0 <= j < N ->
    fst (run sch (init threads m0 d)) (ploc (dst j)) = VP (nth_error pos (Z.to_nat j)) /\
    forall w, wts = Some w -> fst (run sch (init threads m0 d)) (wloc (dst j)) = VW (nth_error w (Z.to_nat j)).
Proof.
  intros Hsch j Hj.
  destruct (block_of j Hj) as [t [Ht Hjt]].
  pose proof thread_writes_disjoint_lemma as Hdis.
  destruct (seq_run_char _ threads m0 d Hdis) as [_ Sin].
  assert (Hlen : (Z.to_nat t < length threads)%nat) by (unfold threads; rewrite map_length, zrange_length; lia).
  assert (Hnth : nth (Z.to_nat t) threads [] = thread_ops t).
  { rewrite nth_threads. rewrite Z2Nat.id by lia. destruct (t <? T) eqn:E; [reflexivity|apply Z.ltb_ge in E; lia]. }
  assert (Hinp : In (ploc (dst j)) (locs (thread_ops t))).
  { unfold thread_ops, locs. rewrite flat_map_concat_map, concat_map, map_map. apply in_concat.
    exists (map (@op_loc _) (particle_ops t j)). split.
    - apply in_map_iff. exists j. split; [reflexivity|apply block_idx_In; exact Hjt].
    - unfold particle_ops. cbn [app map op_loc In]. right. left. reflexivity. }
  destruct (thread_result t j (m0, d) Ht Hjt) as [Rp Rw].
  split.
  - rewrite (drf_any_schedule threads m0 d sch Hdis Hsch).
    rewrite (Sin (Z.to_nat t) (ploc (dst j)) Hlen) by (rewrite Hnth; exact Hinp).
    rewrite Hnth. exact Rp.
  - intros w Ew.
    assert (Hinw : In (wloc (dst j)) (locs (thread_ops t))).
    { unfold thread_ops, locs. rewrite flat_map_concat_map, concat_map, map_map. apply in_concat.
      exists (map (@op_loc _) (particle_ops t j)). split.
      - apply in_map_iff. exists j. split; [reflexivity|apply block_idx_In; exact Hjt].
      - unfold particle_ops. rewrite Ew. cbn [app map op_loc In]. right. right. left. reflexivity. }
    rewrite (drf_any_schedule threads m0 d sch Hdis Hsch).
    rewrite (Sin (Z.to_nat t) (wloc (dst j)) Hlen) by (rewrite Hnth; exact Hinw).
    rewrite Hnth. apply Rw. exact Ew.
Qed.

Lemma scatter_any_schedule_cells sch m0 d :
  (forall t, (t < length threads)%nat -> (length (nth t threads []) <= count_occ Nat.eq_dec sch t)%nat) ->
  forall c, 0 <= c < N ->
    fst (run sch (init threads m0 d)) (ploc c) = VP (nth_error (stable_counting_sort keyf np pos) (Z.to_nat c)) /\
    forall w, wts = Some w -> len w = N ->
      fst (run sch (init threads m0 d)) (wloc c)
      = VW (nth_error (map snd (stable_counting_sort (fun pw => keyf (fst pw)) np (combine pos w))) (Z.to_nat c)).
Proof.
  intros Hsch c Hc.
  pose proof fk_len' as Hl. unfold len in Hl.
  destruct (ndest_onto np fk (Z.to_nat c) fk_range' ltac:(lia)) as [i [Hi Ei]].
  assert (Ec : c = dst (Z.of_nat i)) by (unfold dst; rewrite Nat2Z.id; lia).
  destruct (scatter_any_schedule_core sch m0 d Hsch (Z.of_nat i) ltac:(lia)) as [Rp Rw].
  rewrite Nat2Z.id in Rp, Rw.
  assert (HposN : length pos = length fk) by (unfold fk; rewrite map_length; reflexivity).
  split.
  - rewrite <- Ei. rewrite Ec, Rp. f_equal. rewrite <- sort_by_keys_spec. fold fk. symmetry.
    apply sort_by_keys_dest; [exact HposN|exact fk_range'|exact Hi].
  - intros w Ew Hlw. rewrite <- Ei. rewrite Ec, (Rw w Ew). f_equal.
    rewrite <- sort_by_keys_weights by (unfold len, N in Hlw; lia). fold fk. symmetry.
    apply sort_by_keys_dest; [unfold len, N in Hlw; lia|exact fk_range'|exact Hi].
Qed.

End ParScatter.
