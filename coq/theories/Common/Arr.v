(* Common/Arr.v — checked-access arrays and the result monad in which kernel models are written.

   Arrays are lists.  Reads and writes take a Z index and follow numba/NumPy index semantics:
     0 <= i < len      direct
     -len <= i < 0     wraps once (i + len)
     anything else     Oob     (numba would silently read/write foreign memory; NUMBA_BOUNDSCHECK=1
                                and py_func raise IndexError)
   A kernel model returning [Ok v] therefore states functional correctness *and* memory safety. *)

From Coq Require Import ZArith List Bool Lia.
Import ListNotations.
Local Open Scope Z_scope.

Inductive err := ValueError | KeyError | AssertionError | OtherError.

Inductive res (A : Type) : Type :=
| Ok (a : A)
| Oob
| Raise (e : err).
Arguments Ok {A} a.
Arguments Oob {A}.
Arguments Raise {A} e.

Definition bind {A B} (r : res A) (f : A -> res B) : res B :=
  match r with
  | Ok a => f a
  | Oob => Oob
  | Raise e => Raise e
  end.

Declare Scope res_scope.
Delimit Scope res_scope with res.
Notation "x <- e ;; k" := (bind e (fun x => k))
  (at level 61, e at next level, right associativity) : res_scope.
Notation "' p <- e ;; k" := (bind e (fun p => k))
  (at level 61, p pattern, e at next level, right associativity) : res_scope.
Open Scope res_scope.

Definition is_ok {A} (r : res A) : bool := match r with Ok _ => true | _ => false end.

Definition len {A} (l : list A) : Z := Z.of_nat (length l).

Definition b2z (b : bool) : Z := if b then 1 else 0.

(* normalised index, when in range *)
Definition norm_idx (n i : Z) : option nat :=
  if (0 <=? i) && (i <? n) then Some (Z.to_nat i)
  else if (- n <=? i) && (i <? 0) then Some (Z.to_nat (i + n))
  else None.

Definition get {A} (l : list A) (i : Z) : res A :=
  match norm_idx (len l) i with
  | Some k => match nth_error l k with Some a => Ok a | None => Oob end
  | None => Oob
  end.

Fixpoint set_nth {A} (l : list A) (k : nat) (a : A) : list A :=
  match l, k with
  | [], _ => []
  | _ :: t, O => a :: t
  | h :: t, S k' => h :: set_nth t k' a
  end.

Definition set {A} (l : list A) (i : Z) (a : A) : res (list A) :=
  match norm_idx (len l) i with
  | Some k => Ok (set_nth l k a)
  | None => Oob
  end.

(* read-modify-write, as in  a[i] += v  *)
Definition upd {A} (l : list A) (i : Z) (f : A -> A) : res (list A) :=
  a <- get l i ;; set l i (f a).

(* Python slice l[a:b] with clipping (never fails), a, b >= 0 after the caller's normalisation *)
Definition slice {A} (l : list A) (a b : Z) : list A :=
  let n := len l in
  let a' := Z.max 0 (Z.min n (if a <? 0 then a + n else a)) in
  let b' := Z.max 0 (Z.min n (if b <? 0 then b + n else b)) in
  firstn (Z.to_nat (b' - a')) (skipn (Z.to_nat a') l).

(* for i in range(lo, hi): s = body i s *)
Fixpoint for_loop {S} (n : nat) (i : Z) (body : Z -> S -> res S) (s : S) : res S :=
  match n with
  | O => Ok s
  | Datatypes.S n' => bind (body i s) (for_loop n' (i + 1) body)
  end.

Definition for_range {S} (lo hi : Z) (body : Z -> S -> res S) (s : S) : res S :=
  for_loop (Z.to_nat (hi - lo)) lo body s.

(* while cond s: s = body s   — explicit fuel; out of fuel is reported as OtherError *)
Fixpoint while_fuel {S} (fuel : nat) (cond : S -> bool) (body : S -> res S) (s : S) : res S :=
  match fuel with
  | O => Raise OtherError
  | Datatypes.S f => if cond s then bind (body s) (while_fuel f cond body) else Ok s
  end.

(* ------------------------------------------------------------------------------------------- *)
(* Lemmas                                                                                        *)

Lemma len_nonneg {A} (l : list A) : 0 <= len l.
Proof. unfold len; lia. Qed.

Lemma len_nil {A} : len (@nil A) = 0.
Proof. reflexivity. Qed.

Lemma len_cons {A} (a : A) l : len (a :: l) = 1 + len l.
Proof. unfold len; cbn [length]; lia. Qed.

Lemma len_app {A} (l1 l2 : list A) : len (l1 ++ l2) = len l1 + len l2.
Proof. unfold len; rewrite app_length; lia. Qed.

Lemma norm_idx_pos n i : 0 <= i < n -> norm_idx n i = Some (Z.to_nat i).
Proof.
  intros H; unfold norm_idx.
  destruct (0 <=? i) eqn:E1; destruct (i <? n) eqn:E2; cbn [andb]; try reflexivity; lia.
Qed.

Lemma norm_idx_neg n i : - n <= i < 0 -> norm_idx n i = Some (Z.to_nat (i + n)).
Proof.
  intros H; unfold norm_idx.
  destruct (0 <=? i) eqn:E1; cbn [andb]; [lia|].
  destruct (- n <=? i) eqn:E3; destruct (i <? 0) eqn:E4; cbn [andb]; try reflexivity; lia.
Qed.

Lemma norm_idx_none n i : i < - n \/ n <= i -> norm_idx n i = None.
Proof.
  intros H; unfold norm_idx.
  destruct (0 <=? i) eqn:E1; destruct (i <? n) eqn:E2; cbn [andb]; try lia;
  destruct (- n <=? i) eqn:E3; destruct (i <? 0) eqn:E4; cbn [andb]; try reflexivity; lia.
Qed.

Lemma norm_idx_some n i k : norm_idx n i = Some k -> (Z.of_nat k < n)%Z /\ - n <= i < n.
Proof.
  unfold norm_idx; intros H.
  destruct (0 <=? i) eqn:E1; destruct (i <? n) eqn:E2; cbn [andb] in H.
  - inversion H; subst; lia.
  - destruct (- n <=? i) eqn:E3; destruct (i <? 0) eqn:E4; cbn [andb] in H; try discriminate; lia.
  - destruct (- n <=? i) eqn:E3; destruct (i <? 0) eqn:E4; cbn [andb] in H; try discriminate.
    inversion H; subst; lia.
  - destruct (- n <=? i) eqn:E3; destruct (i <? 0) eqn:E4; cbn [andb] in H; try discriminate.
    inversion H; subst; lia.
Qed.

Lemma get_ok_nth {A} (l : list A) i d :
  0 <= i < len l -> get l i = Ok (nth (Z.to_nat i) l d).
Proof.
  intros H; unfold get; rewrite norm_idx_pos by exact H.
  destruct (nth_error l (Z.to_nat i)) eqn:E.
  - f_equal; symmetry; apply nth_error_nth; exact E.
  - apply nth_error_None in E; unfold len in H; lia.
Qed.

Lemma get_neg_nth {A} (l : list A) i d :
  - len l <= i < 0 -> get l i = Ok (nth (Z.to_nat (i + len l)) l d).
Proof.
  intros H; unfold get; rewrite norm_idx_neg by exact H.
  destruct (nth_error l (Z.to_nat (i + len l))) eqn:E.
  - f_equal; symmetry; apply nth_error_nth; exact E.
  - apply nth_error_None in E; unfold len in *; lia.
Qed.

Lemma get_oob {A} (l : list A) i : i < - len l \/ len l <= i -> get l i = Oob.
Proof. intros H; unfold get; rewrite norm_idx_none by exact H; reflexivity. Qed.

Lemma get_nil {A} i : get (@nil A) i = Oob.
Proof. apply get_oob; unfold len; cbn; lia. Qed.

Lemma get_is_ok {A} (l : list A) i : is_ok (get l i) = true <-> - len l <= i < len l.
Proof.
  split.
  - unfold get; destruct (norm_idx (len l) i) eqn:E; [|discriminate].
    intros _; apply norm_idx_some in E; lia.
  - intros H; destruct (Z_lt_ge_dec i 0).
    + unfold get; rewrite norm_idx_neg by lia.
      destruct (nth_error l _) eqn:E; [reflexivity|].
      apply nth_error_None in E; unfold len in *; lia.
    + unfold get; rewrite norm_idx_pos by lia.
      destruct (nth_error l _) eqn:E; [reflexivity|].
      apply nth_error_None in E; unfold len in *; lia.
Qed.

Lemma set_nth_length {A} (l : list A) k a : length (set_nth l k a) = length l.
Proof. revert k; induction l as [|h t IH]; intros [|k]; cbn; auto. Qed.

Lemma set_ok {A} (l : list A) i a : 0 <= i < len l -> set l i a = Ok (set_nth l (Z.to_nat i) a).
Proof. intros H; unfold set; rewrite norm_idx_pos by exact H; reflexivity. Qed.

Lemma set_neg {A} (l : list A) i a :
  - len l <= i < 0 -> set l i a = Ok (set_nth l (Z.to_nat (i + len l)) a).
Proof. intros H; unfold set; rewrite norm_idx_neg by exact H; reflexivity. Qed.

Lemma set_oob {A} (l : list A) i a : i < - len l \/ len l <= i -> set l i a = Oob.
Proof. intros H; unfold set; rewrite norm_idx_none by exact H; reflexivity. Qed.

Lemma set_len {A} (l l' : list A) i a : set l i a = Ok l' -> len l' = len l.
Proof.
  unfold set; destruct (norm_idx _ _); [|discriminate].
  intros H; inversion H; subst; unfold len; rewrite set_nth_length; reflexivity.
Qed.

Lemma set_nth_app_r {A} (l1 l2 : list A) k a :
  (length l1 <= k)%nat -> set_nth (l1 ++ l2) k a = l1 ++ set_nth l2 (k - length l1) a.
Proof.
  revert k; induction l1 as [|h t IH]; intros k Hk; cbn [app length].
  - rewrite Nat.sub_0_r; reflexivity.
  - destruct k as [|k]; [cbn in Hk; lia|]. cbn [set_nth length Nat.sub]. rewrite IH by (cbn in Hk; lia).
    reflexivity.
Qed.

Lemma set_nth_app_l {A} (l1 l2 : list A) k a :
  (k < length l1)%nat -> set_nth (l1 ++ l2) k a = set_nth l1 k a ++ l2.
Proof.
  revert k; induction l1 as [|h t IH]; intros k Hk; cbn [app length] in *; [lia|].
  destruct k as [|k]; cbn [set_nth app]; [reflexivity|]. rewrite IH by lia. reflexivity.
Qed.

Lemma set_nth_nth {A} (l : list A) k a d :
  (k < length l)%nat -> nth k (set_nth l k a) d = a.
Proof. revert k; induction l as [|h t IH]; intros [|k] H; cbn in *; try lia; auto. apply IH; lia. Qed.

Lemma set_nth_nth_other {A} (l : list A) k j a d :
  k <> j -> nth j (set_nth l k a) d = nth j l d.
Proof.
  revert k j; induction l as [|h t IH]; intros [|k] [|j] H; cbn; auto; try congruence.
Qed.

(* loop invariant rule for for_range *)
Lemma for_loop_inv {S} (P : Z -> S -> Prop) (body : Z -> S -> res S) :
  forall n lo s,
    P lo s ->
    (forall i s, lo <= i < lo + Z.of_nat n -> P i s -> exists s', body i s = Ok s' /\ P (i + 1) s') ->
    exists s', for_loop n lo body s = Ok s' /\ P (lo + Z.of_nat n) s'.
Proof.
  induction n as [|n IH]; intros lo s H0 Hstep.
  - exists s; split; [reflexivity|]. replace (lo + Z.of_nat 0) with lo by lia. exact H0.
  - cbn [for_loop]. destruct (Hstep lo s) as [s1 [E1 P1]]; [lia|exact H0|].
    rewrite E1; cbn [bind].
    destruct (IH (lo + 1) s1 P1) as [s2 [E2 P2]].
    + intros i s' Hi Pi; apply Hstep; [lia|exact Pi].
    + exists s2; split; [exact E2|]. replace (lo + Z.of_nat (Datatypes.S n)) with (lo + 1 + Z.of_nat n) by lia.
      exact P2.
Qed.

Lemma for_range_inv {S} (P : Z -> S -> Prop) lo hi (body : Z -> S -> res S) s :
  lo <= hi ->
  P lo s ->
  (forall i s, lo <= i < hi -> P i s -> exists s', body i s = Ok s' /\ P (i + 1) s') ->
  exists s', for_range lo hi body s = Ok s' /\ P hi s'.
Proof.
  intros Hle H0 Hstep; unfold for_range.
  destruct (for_loop_inv P body (Z.to_nat (hi - lo)) lo s H0) as [s' [E Ps]].
  - intros i s1 Hi; apply Hstep; lia.
  - exists s'; split; [exact E|]. replace hi with (lo + Z.of_nat (Z.to_nat (hi - lo))) at 1 by lia. exact Ps.
Qed.

Lemma for_range_empty {S} lo hi (body : Z -> S -> res S) s : hi <= lo -> for_range lo hi body s = Ok s.
Proof. intros H; unfold for_range. replace (Z.to_nat (hi - lo)) with O by lia. reflexivity. Qed.

Lemma bind_ok {A B} (r : res A) (f : A -> res B) b :
  bind r f = Ok b -> exists a, r = Ok a /\ f a = Ok b.
Proof. destruct r; cbn; intros H; try discriminate. eauto. Qed.

Lemma b2z_range b : 0 <= b2z b <= 1.
Proof. destruct b; cbn; lia. Qed.
