(* Common/Corr.v — the Coq side of the correspondence check.

   The harness runs the implementation, encodes every case's input and the implementation's canonicalised
   outcome as a [val], and asks Coq to evaluate the model on the same inputs and to print only the indices of
   the cases whose outcomes differ ([mismatches]).  Nothing here is used by any theorem. *)
From Coq Require Import ZArith QArith List Bool.
From Abacus.Common Require Import Arr.
Import ListNotations.
Local Open Scope Z_scope.

Inductive val :=
| VZ (z : Z)
| VQ (q : Q)
| VB (b : bool)
| VL (l : list val)
| VOob
| VRaise (e : err)
| VNone.

Definition err_eqb (a b : err) : bool :=
  match a, b with
  | ValueError, ValueError | KeyError, KeyError | AssertionError, AssertionError | OtherError, OtherError => true
  | _, _ => false
  end.

Fixpoint val_eqb (a b : val) {struct a} : bool :=
  match a, b with
  | VZ x, VZ y => x =? y
  | VQ x, VQ y => Qeq_bool x y
  | VB x, VB y => Bool.eqb x y
  | VL x, VL y =>
      (fix go (x : list val) (y : list val) {struct x} : bool :=
         match x, y with
         | [], [] => true
         | a :: x', b :: y' => val_eqb a b && go x' y'
         | _, _ => false
         end) x y
  | VOob, VOob => true
  | VRaise e, VRaise f => err_eqb e f
  | VNone, VNone => true
  | _, _ => false
  end.

Definition vres {A} (f : A -> val) (r : res A) : val :=
  match r with Ok a => f a | Oob => VOob | Raise e => VRaise e end.

Definition vlistZ (l : list Z) : val := VL (map VZ l).
Definition vlistQ (l : list Q) : val := VL (map VQ l).
Definition vlistB (l : list bool) : val := VL (map VB l).
Definition vopt {A} (f : A -> val) (o : option A) : val := match o with Some a => f a | None => VNone end.

Fixpoint mismatches_from {I} (k : Z) (run : I -> val) (cases : list (I * val)) : list Z :=
  match cases with
  | [] => []
  | (i, expected) :: t =>
      if val_eqb (run i) expected then mismatches_from (k + 1) run t
      else k :: mismatches_from (k + 1) run t
  end.

Definition mismatches {I} (run : I -> val) (cases : list (I * val)) : list Z := mismatches_from 0 run cases.

(* indices of the cases on which a boolean predicate of the model fails (used by the failing-input search) *)
Fixpoint failing_from {I} (k : Z) (p : I -> bool) (cases : list I) : list Z :=
  match cases with
  | [] => []
  | i :: t => if p i then failing_from (k + 1) p t else k :: failing_from (k + 1) p t
  end.
Definition failing {I} (p : I -> bool) (cases : list I) : list Z := failing_from 0 p cases.
