(* Common/Par.v — a small model of data-race-free parallel regions.

   Threads are lists of micro-operations on a shared store: [Ld l] loads location l into the thread's private
   temporary, [St l f] stores f(temporary) to l.  A non-atomic  a[l] += w  is  [Ld l; St l (fun v => v + w)].
   A schedule is any list of thread ids; each entry lets that thread execute its next micro-operation.

   drf_deterministic: if the footprints (sets of locations) of the threads are pairwise disjoint, every schedule
   that runs all threads to completion ends in the store of the sequential composition thread 0; thread 1; ...
   lost_update_possible: without disjointness two increments of the same cell can leave it incremented once. *)
From Coq Require Import ZArith List Bool Lia.
Import ListNotations.
Local Open Scope Z_scope.

Section Par.
Variable V : Type.

Definition loc := Z.
Definition store := loc -> V.
Definition supd (m : store) (l : loc) (v : V) : store := fun x => if x =? l then v else m x.

Inductive op := Ld (l : loc) | St (l : loc) (f : V -> V).
Definition op_loc (o : op) : loc := match o with Ld l => l | St l _ => l end.
Definition locs (ops : list op) : list loc := map op_loc ops.

Definition exec_op (o : op) (s : store * V) : store * V :=
  match o with
  | Ld l => (fst s, fst s l)
  | St l f => (supd (fst s) l (f (snd s)), snd s)
  end.
Definition exec_ops (ops : list op) (s : store * V) : store * V := fold_left (fun s o => exec_op o s) ops s.

Definition tstate := (V * list op)%type.
Definition conf := (store * list tstate)%type.

Fixpoint set_nth_t (ts : list tstate) (k : nat) (x : tstate) : list tstate :=
  match ts, k with
  | [], _ => []
  | _ :: t, O => x :: t
  | h :: t, S k' => h :: set_nth_t t k' x
  end.

Definition step (t : nat) (c : conf) : conf :=
  match nth_error (snd c) t with
  | Some (tmp, o :: rest) =>
      let s' := exec_op o (fst c, tmp) in (fst s', set_nth_t (snd c) t (snd s', rest))
  | _ => c
  end.
Definition run (sch : list nat) (c : conf) : conf := fold_left (fun c t => step t c) sch c.

Definition init (threads : list (list op)) (m0 : store) (d : V) : conf := (m0, map (fun ops => (d, ops)) threads).
Definition finished (c : conf) : Prop := forall x, In x (snd c) -> snd x = [].

(* thread 0 to completion, then thread 1, ... each starting with temporary d *)
Definition seq_from (d : V) (todo : list (list op)) (m : store) : store :=
  fold_left (fun m ops => fst (exec_ops ops (m, d))) todo m.
Definition seq_run (threads : list (list op)) (m0 : store) (d : V) : store := seq_from d threads m0.

Definition disjoint_footprints (threads : list (list op)) : Prop :=
  forall i j l, i <> j -> In l (locs (nth i threads [])) -> In l (locs (nth j threads [])) -> False.

(* ---- frame properties of isolated execution ------------------------------------------------ *)

Lemma supd_same m l v : supd m l v l = v.
Proof. unfold supd. rewrite Z.eqb_refl. reflexivity. Qed.

Lemma supd_other m l v x : x <> l -> supd m l v x = m x.
Proof. intros H. unfold supd. destruct (x =? l) eqn:E; [apply Z.eqb_eq in E; contradiction|reflexivity]. Qed.

Lemma exec_op_frame o s x : x <> op_loc o -> fst (exec_op o s) x = fst s x.
Proof. destruct o as [l|l f]; cbn; intros H; [reflexivity|apply supd_other; exact H]. Qed.

Lemma exec_ops_frame ops s x : ~ In x (locs ops) -> fst (exec_ops ops s) x = fst s x.
Proof.
  revert s; induction ops as [|o ops IH]; intros s H; [reflexivity|].
  cbn [exec_ops fold_left]. fold (exec_ops ops (exec_op o s)).
  rewrite IH by (intros Hin; apply H; right; exact Hin).
  apply exec_op_frame. intros E; apply H; left; symmetry; exact E.
Qed.

Lemma exec_ops_app a b s : exec_ops (a ++ b) s = exec_ops b (exec_ops a s).
Proof. unfold exec_ops. apply fold_left_app. Qed.

(* two stores that agree on a set closed under the ops' locations stay in agreement, with equal temporaries *)
Lemma exec_op_agree (P : loc -> Prop) o m1 m2 tmp :
  P (op_loc o) -> (forall x, P x -> m1 x = m2 x) ->
  (forall x, P x -> fst (exec_op o (m1, tmp)) x = fst (exec_op o (m2, tmp)) x)
  /\ snd (exec_op o (m1, tmp)) = snd (exec_op o (m2, tmp)).
Proof.
  intros Hl Hag. destruct o as [l|l f]; cbn in *.
  - split; [exact Hag|apply Hag; exact Hl].
  - split; [|reflexivity]. intros x Hx. unfold supd. destruct (x =? l); [reflexivity|apply Hag; exact Hx].
Qed.

Lemma exec_ops_agree (P : loc -> Prop) ops m1 m2 tmp :
  (forall l, In l (locs ops) -> P l) -> (forall x, P x -> m1 x = m2 x) ->
  (forall x, P x -> fst (exec_ops ops (m1, tmp)) x = fst (exec_ops ops (m2, tmp)) x)
  /\ snd (exec_ops ops (m1, tmp)) = snd (exec_ops ops (m2, tmp)).
Proof.
  revert m1 m2 tmp; induction ops as [|o ops IH]; intros m1 m2 tmp HP Hag.
  - cbn. split; [exact Hag|reflexivity].
  - cbn [exec_ops fold_left]. fold (exec_ops ops (exec_op o (m1, tmp))). fold (exec_ops ops (exec_op o (m2, tmp))).
    destruct (exec_op_agree P o m1 m2 tmp) as [H1 H2]; [apply HP; left; reflexivity|exact Hag|].
    destruct (exec_op o (m1, tmp)) as [m1' t1] eqn:E1. destruct (exec_op o (m2, tmp)) as [m2' t2] eqn:E2.
    cbn [fst snd] in H1, H2. subst t2.
    apply IH; [intros l Hl; apply HP; right; exact Hl|exact H1].
Qed.

(* ---- the invariant of an arbitrary schedule ------------------------------------------------- *)

Definition inv (threads : list (list op)) (m0 : store) (d : V) (c : conf) : Prop :=
  length (snd c) = length threads /\
  (forall x, (forall t, ~ In x (locs (nth t threads []))) -> fst c x = m0 x) /\
  (forall t tmp rest, nth_error (snd c) t = Some (tmp, rest) ->
     exists pre, nth t threads [] = pre ++ rest /\
       tmp = snd (exec_ops pre (m0, d)) /\
       forall x, In x (locs (nth t threads [])) -> fst c x = fst (exec_ops pre (m0, d)) x).

Lemma nth_error_set_nth_t ts k x t :
  nth_error (set_nth_t ts k x) t =
  if Nat.eqb t k then (match nth_error ts k with Some _ => Some x | None => None end) else nth_error ts t.
Proof.
  revert k t; induction ts as [|h ts IH]; intros k t.
  - cbn. destruct (Nat.eqb t k); destruct k, t; reflexivity.
  - destruct k as [|k]; destruct t as [|t]; cbn; try reflexivity. apply IH.
Qed.

Lemma set_nth_t_length ts k x : length (set_nth_t ts k x) = length ts.
Proof. revert k; induction ts as [|h ts IH]; intros [|k]; cbn; auto. Qed.

Lemma inv_init threads m0 d : inv threads m0 d (init threads m0 d).
Proof.
  unfold inv, init; cbn [fst snd]. split; [apply map_length|]. split; [reflexivity|].
  intros t tmp rest H. rewrite nth_error_map in H.
  destruct (nth_error threads t) as [ops|] eqn:E; cbn in H; [|discriminate].
  inversion H; subst. exists []. split; [cbn; apply nth_error_nth; exact E|]. split; reflexivity.
Qed.

Lemma inv_step threads m0 d c t :
  disjoint_footprints threads -> inv threads m0 d c -> inv threads m0 d (step t c).
Proof.
  intros Hdis [Hlen [Hout Hth]]. unfold step.
  destruct (nth_error (snd c) t) as [[tmp [|o rest]]|] eqn:Et; try (split; [exact Hlen|split; assumption]).
  destruct (Hth t tmp (o :: rest) Et) as [pre [Hops [Htmp Hag]]].
  assert (Hol : In (op_loc o) (locs (nth t threads []))).
  { rewrite Hops. unfold locs. rewrite map_app. apply in_or_app. right. left. reflexivity. }
  unfold inv. cbn zeta. cbn [fst snd].
  split; [rewrite set_nth_t_length; exact Hlen|]. split.
  - intros x Hx. rewrite exec_op_frame; cbn [fst].
    + apply Hout; exact Hx.
    + intros E; subst x. apply (Hx t). exact Hol.
  - intros t' tmp' rest' H'. rewrite nth_error_set_nth_t in H'.
    destruct (Nat.eqb t' t) eqn:Ett.
    + apply Nat.eqb_eq in Ett; subst t'. rewrite Et in H'. inversion H'; subst tmp' rest'; clear H'.
      exists (pre ++ [o]). split; [rewrite Hops, <- app_assoc; reflexivity|].
      rewrite exec_ops_app. cbn [exec_ops fold_left].
      destruct (exec_ops pre (m0, d)) as [mi ti] eqn:Ei. cbn [fst snd] in Htmp, Hag. subst ti.
      destruct (exec_op_agree (fun x => In x (locs (nth t threads []))) o (fst c) mi tmp Hol Hag) as [A B].
      split; [exact B|]. exact A.
    + apply Nat.eqb_neq in Ett.
      destruct (Hth t' tmp' rest' H') as [pre' [Hops' [Htmp' Hag']]].
      exists pre'. split; [exact Hops'|]. split; [exact Htmp'|].
      intros x Hx. rewrite exec_op_frame; cbn [fst]; [apply Hag'; exact Hx|].
      intros E; subst x. exact (Hdis t' t (op_loc o) Ett Hx Hol).
Qed.

Lemma inv_run threads m0 d sch c :
  disjoint_footprints threads -> inv threads m0 d c -> inv threads m0 d (run sch c).
Proof.
  intros Hdis; revert c; induction sch as [|t sch IH]; intros c Hc; [exact Hc|].
  cbn [run fold_left]. apply IH. apply inv_step; assumption.
Qed.

(* ---- the sequential composition satisfies the same characterisation ------------------------- *)

Lemma seq_run_char threads m0 d :
  disjoint_footprints threads ->
  (forall x, (forall t, ~ In x (locs (nth t threads []))) -> seq_run threads m0 d x = m0 x) /\
  (forall t x, (t < length threads)%nat -> In x (locs (nth t threads [])) ->
     seq_run threads m0 d x = fst (exec_ops (nth t threads []) (m0, d)) x).
Proof.
  (* generalise over a suffix: running threads [k..) from a store m that agrees with m0 outside the footprints
     of the threads already run *)
  intros Hdis.
  assert (G : forall done todo m,
    threads = done ++ todo ->
    (forall x, (forall t, (t < length done)%nat -> ~ In x (locs (nth t threads []))) -> m x = m0 x) ->
    let mf := seq_from d todo m in
    (forall x, (forall t, ~ In x (locs (nth t threads []))) -> mf x = m x) /\
    (forall t x, (length done <= t < length threads)%nat -> In x (locs (nth t threads [])) ->
       mf x = fst (exec_ops (nth t threads []) (m0, d)) x) /\
    (forall t x, (t < length done)%nat -> In x (locs (nth t threads [])) -> mf x = m x)).
  { intros done todo; revert done; induction todo as [|ops todo IH]; intros done m Hsplit Hm; cbn zeta.
    - change (seq_from d [] m) with m. split; [reflexivity|]. split; [|reflexivity].
      intros t x Ht. subst threads. rewrite app_nil_r in Ht. lia.
    - change (seq_from d (ops :: todo) m) with (seq_from d todo (fst (exec_ops ops (m, d)))).
      assert (Hsplit' : threads = (done ++ [ops]) ++ todo) by (rewrite <- app_assoc; exact Hsplit).
      assert (Hnth : nth (length done) threads [] = ops).
      { rewrite Hsplit. rewrite app_nth2 by lia. rewrite Nat.sub_diag. reflexivity. }
      remember (fst (exec_ops ops (m, d))) as m1 eqn:Em1.
      assert (Hm1 : forall x, (forall t, (t < length (done ++ [ops]))%nat -> ~ In x (locs (nth t threads []))) ->
                               m1 x = m0 x).
      { intros x Hx. rewrite Em1. rewrite exec_ops_frame.
        - cbn [fst]. apply Hm. intros t Ht. apply Hx. rewrite app_length. cbn. lia.
        - rewrite <- Hnth. apply Hx. rewrite app_length. cbn. lia. }
      destruct (IH (done ++ [ops]) m1 Hsplit' Hm1) as [A [B C]]. cbn zeta in A, B, C.
      assert (Hlen : length (done ++ [ops]) = S (length done)) by (rewrite app_length; cbn; lia).
      split; [|split].
      + intros x Hx. rewrite A by exact Hx. rewrite Em1. rewrite exec_ops_frame; [reflexivity|].
        rewrite <- Hnth. apply Hx.
      + intros t x Ht Hx. destruct (Nat.eq_dec t (length done)) as [->|Hne].
        * rewrite (C (length done) x) by (rewrite ?Hlen; try lia; exact Hx). rewrite Em1. rewrite Hnth in *.
          apply (exec_ops_agree (fun y => In y (locs ops)) ops m m0 d); [auto| |exact Hx].
          intros y Hy. apply Hm. intros t' Ht' Hin.
          apply (Hdis t' (length done) y); [lia|exact Hin|rewrite Hnth; exact Hy].
        * apply B; [rewrite Hlen; lia|exact Hx].
      + intros t x Ht Hx. rewrite (C t x) by (rewrite ?Hlen; try lia; exact Hx). rewrite Em1.
        rewrite exec_ops_frame; [reflexivity|]. rewrite <- Hnth. intros Hin.
        apply (Hdis t (length done) x); [lia|exact Hx|exact Hin]. }
  destruct (G [] threads m0 eq_refl (fun x _ => eq_refl)) as [A [B _]]. cbn zeta in A, B.
  split; [exact A|]. intros t x Ht Hx. apply B; [cbn; lia|exact Hx].
Qed.

Theorem drf_deterministic threads m0 d sch :
  disjoint_footprints threads ->
  finished (run sch (init threads m0 d)) ->
  forall x, fst (run sch (init threads m0 d)) x = seq_run threads m0 d x.
Proof.
  intros Hdis Hfin x.
  pose proof (inv_run threads m0 d sch _ Hdis (inv_init threads m0 d)) as [Hlen [Hout Hth]].
  destruct (seq_run_char threads m0 d Hdis) as [Sout Sin].
  set (c := run sch (init threads m0 d)) in *.
  (* either x is in some thread's footprint or in none *)
  assert (Hdec : (exists t, (t < length threads)%nat /\ In x (locs (nth t threads []))) \/
                 (forall t, ~ In x (locs (nth t threads [])))).
  { clear -threads. induction threads as [|ops ths IH].
    - right. intros t H. destruct t; cbn in H; exact H.
    - destruct (in_dec Z.eq_dec x (locs ops)) as [Hin|Hnin].
      + left. exists O. split; [cbn; lia|exact Hin].
      + destruct IH as [[t [Ht Hin]]|Hno].
        * left. exists (S t). split; [cbn; lia|exact Hin].
        * right. intros [|t]; [exact Hnin|apply Hno]. }
  destruct Hdec as [[t [Ht Hin]]|Hno].
  - rewrite (Sin t x Ht Hin).
    destruct (nth_error (snd c) t) as [[tmp rest]|] eqn:Et.
    + destruct (Hth t tmp rest Et) as [pre [Hops [_ Hag]]].
      assert (rest = []) by (apply (Hfin (tmp, rest)); eapply nth_error_In; exact Et). subst rest.
      rewrite app_nil_r in Hops. rewrite Hag by exact Hin. rewrite Hops. reflexivity.
    + apply nth_error_None in Et. lia.
  - rewrite Sout by exact Hno. apply Hout. exact Hno.
Qed.


(* a schedule in which every thread id occurs at least as often as the thread has operations runs to completion *)
Lemma step_remaining c t t' tmp rest :
  nth_error (snd (step t c)) t' = Some (tmp, rest) ->
  exists tmp0 rest0, nth_error (snd c) t' = Some (tmp0, rest0) /\
    length rest = if Nat.eqb t' t then (length rest0 - 1)%nat else length rest0.
Proof.
  unfold step. destruct (nth_error (snd c) t) as [[tmpt [|o restt]]|] eqn:Et.
  - intros H. exists tmp, rest. split; [exact H|]. destruct (Nat.eqb t' t) eqn:E; [|reflexivity].
    apply Nat.eqb_eq in E; subst t'. rewrite Et in H. inversion H; subst. reflexivity.
  - cbn [snd]. rewrite nth_error_set_nth_t. destruct (Nat.eqb t' t) eqn:E.
    + apply Nat.eqb_eq in E; subst t'. rewrite Et. intros H; inversion H; subst.
      exists tmpt, (o :: rest). split; [reflexivity|]. cbn [length]. lia.
    + intros H. exists tmp, rest. split; [exact H|reflexivity].
  - intros H. exists tmp, rest. split; [exact H|]. destruct (Nat.eqb t' t) eqn:E; [|reflexivity].
    apply Nat.eqb_eq in E; subst t'. rewrite Et in H. discriminate.
Qed.

Lemma run_remaining sch : forall c t' tmp rest,
  nth_error (snd (run sch c)) t' = Some (tmp, rest) ->
  exists tmp0 rest0, nth_error (snd c) t' = Some (tmp0, rest0) /\
    length rest = (length rest0 - count_occ Nat.eq_dec sch t')%nat.
Proof.
  induction sch as [|t sch IH]; intros c t' tmp rest H.
  - exists tmp, rest. split; [exact H|]. cbn. lia.
  - cbn [run fold_left] in H. fold (run sch (step t c)) in H.
    destruct (IH _ _ _ _ H) as [tmp1 [rest1 [H1 L1]]].
    destruct (step_remaining _ _ _ _ _ H1) as [tmp0 [rest0 [H0 L0]]].
    exists tmp0, rest0. split; [exact H0|]. cbn [count_occ].
    destruct (Nat.eq_dec t t') as [->|Hne].
    + rewrite Nat.eqb_refl in L0. lia.
    + assert (E : Nat.eqb t' t = false) by (apply Nat.eqb_neq; congruence). rewrite E in L0. lia.
Qed.

Lemma finished_of_counts threads m0 d sch :
  (forall t, (t < length threads)%nat -> (length (nth t threads []) <= count_occ Nat.eq_dec sch t)%nat) ->
  finished (run sch (init threads m0 d)).
Proof.
  intros Hc [tmp rest] Hin. cbn [snd]. apply In_nth_error in Hin. destruct Hin as [t Ht].
  destruct (run_remaining sch _ _ _ _ Ht) as [tmp0 [rest0 [H0 L]]].
  unfold init in H0. cbn [snd] in H0. rewrite nth_error_map in H0.
  destruct (nth_error threads t) as [ops|] eqn:E; cbn in H0; [|discriminate]. inversion H0; subst.
  assert (Hlt : (t < length threads)%nat) by (apply nth_error_Some; congruence).
  specialize (Hc t Hlt). rewrite (nth_error_nth _ _ _ E) in Hc.
  destruct rest; [reflexivity|cbn [length] in L; lia].
Qed.

(* the form used by the kernel models: every sufficiently long schedule gives the sequential result *)
Corollary drf_any_schedule threads m0 d sch :
  disjoint_footprints threads ->
  (forall t, (t < length threads)%nat -> (length (nth t threads []) <= count_occ Nat.eq_dec sch t)%nat) ->
  forall x, fst (run sch (init threads m0 d)) x = seq_run threads m0 d x.
Proof. intros Hd Hc. apply drf_deterministic; [exact Hd|apply finished_of_counts; exact Hc]. Qed.

End Par.

Arguments Ld {V} l.
Arguments St {V} l f.

(* Without disjoint footprints an update can be lost: two threads each doing  a[3] += 1. *)
Example lost_update_possible :
  let th := [Ld 3; St 3 (fun v => v + 1)] in
  fst (run Z [0%nat; 1%nat; 0%nat; 1%nat] (init Z [th; th] (fun _ => 0) 0)) 3 = 1 /\
  seq_run Z [th; th] (fun _ => 0) 0 3 = 2.
Proof. split; reflexivity. Qed.

Arguments drf_deterministic {V}.
Arguments drf_any_schedule {V}.
Arguments disjoint_footprints {V}.
Arguments seq_run {V}.
Arguments run {V}.
Arguments init {V}.
Arguments locs {V}.
Arguments finished {V}.
