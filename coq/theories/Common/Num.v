(* Common/Num.v — exact-rational helpers used by generated and hand-written models:
   boolean comparisons on Q, truncation, rounding half to even (np.round / np.rint / round),
   tuple projections used by the translator. *)
From Coq Require Import ZArith QArith Qround Qabs Qminmax Lia Lqa.
Local Open Scope Z_scope.

Definition Qltb (a b : Q) : bool := negb (Qle_bool b a).

Definition Qtrunc (q : Q) : Z := if Qle_bool 0 q then Qfloor q else Qceiling q.

Definition round_half_even (q : Q) : Z :=
  let f := Qfloor q in
  let r := (q - inject_Z f)%Q in
  if Qltb r (1 # 2) then f
  else if Qltb (1 # 2) r then f + 1
  else if Z.even f then f else f + 1.

Definition tnth2_0 {A B} (p : A * B) := fst p.
Definition tnth2_1 {A B} (p : A * B) := snd p.
Definition tnth3_0 {A B C} (p : A * B * C) := fst (fst p).
Definition tnth3_1 {A B C} (p : A * B * C) := snd (fst p).
Definition tnth3_2 {A B C} (p : A * B * C) := snd p.

Lemma Qltb_lt a b : Qltb a b = true <-> (a < b)%Q.
Proof.
  unfold Qltb. rewrite Bool.negb_true_iff. split.
  - intros H. apply Qnot_le_lt. intros Hle. apply Qle_bool_iff in Hle. congruence.
  - intros H. destruct (Qle_bool b a) eqn:E; [|reflexivity].
    apply Qle_bool_iff in E. exfalso. apply (Qlt_not_le _ _ H E).
Qed.

Lemma Qltb_ge a b : Qltb a b = false <-> (b <= a)%Q.
Proof.
  unfold Qltb. rewrite Bool.negb_false_iff. apply Qle_bool_iff.
Qed.

(* |round q - q| <= 1/2 *)
Lemma round_half_even_bound q :
  (inject_Z (round_half_even q) - q <= 1 # 2)%Q /\ (q - inject_Z (round_half_even q) <= 1 # 2)%Q.
Proof.
  unfold round_half_even.
  pose proof (Qfloor_le q) as Hf. pose proof (Qlt_floor q) as Hc.
  set (f := Qfloor q) in *.
  destruct (Qltb (q - inject_Z f) (1 # 2)) eqn:E1.
  - apply Qltb_lt in E1. split; lra.
  - apply Qltb_ge in E1.
    destruct (Qltb (1 # 2) (q - inject_Z f)) eqn:E2.
    + apply Qltb_lt in E2. rewrite inject_Z_plus in *. change (inject_Z 1) with 1%Q in *. split; lra.
    + apply Qltb_ge in E2. destruct (Z.even f); rewrite ?inject_Z_plus in *; change (inject_Z 1) with 1%Q in *; split; lra.
Qed.

Lemma round_half_even_inject z : round_half_even (inject_Z z) = z.
Proof.
  unfold round_half_even. rewrite Qfloor_Z.
  assert (H : (inject_Z z - inject_Z z == 0)%Q) by ring.
  destruct (Qltb (inject_Z z - inject_Z z) (1 # 2)) eqn:E; [reflexivity|].
  apply Qltb_ge in E. rewrite H in E. exfalso. revert E. unfold Qle; cbn. lia.
Qed.
