(* C15/Properties.v — pack9 streams decode one particle per record relative to its cell header.

   The arithmetic (six nibble expressions, bias, header test, header quantities, particle expressions) is Gen.v,
   regenerated on every run from abacusnbody/data/pack9.py; the loop (header state, write counter) and the wrapper are the
   hand-written Model.v, tied to the code by the correspondence run.  Statements only; proofs are in Proofs.v. *)
From Coq Require Import ZArith QArith List Bool.
From Abacus.Common Require Import Arr Num.
From Abacus.C15 Require Import Lib Spec Gen Model Proofs.
Import ListNotations.
Local Open Scope Z_scope.

(* ★ expand_bijective, direction 1: for ALL six 12-bit field values, packing them into nine bytes as documented and
   expanding gives back exactly the fields minus the bias 2048 (and the nine values are bytes). *)
Theorem expand_of_bytes : forall f0 f1 f2 f3 f4 f5,
  f12 f0 -> f12 f1 -> f12 f2 -> f12 f3 -> f12 f4 -> f12 f5 ->
  let '(c0, c1, c2, c3, c4, c5, c6, c7, c8) := bytes_of f0 f1 f2 f3 f4 f5 in
  (byte c0 /\ byte c1 /\ byte c2 /\ byte c3 /\ byte c4 /\ byte c5 /\ byte c6 /\ byte c7 /\ byte c8) /\
  p9_short_0 c0 c1 c2 c3 c4 c5 c6 c7 c8 = f0 - bias /\ p9_short_1 c0 c1 c2 c3 c4 c5 c6 c7 c8 = f1 - bias /\
  p9_short_2 c0 c1 c2 c3 c4 c5 c6 c7 c8 = f2 - bias /\ p9_short_3 c0 c1 c2 c3 c4 c5 c6 c7 c8 = f3 - bias /\
  p9_short_4 c0 c1 c2 c3 c4 c5 c6 c7 c8 = f4 - bias /\ p9_short_5 c0 c1 c2 c3 c4 c5 c6 c7 c8 = f5 - bias.
Proof. exact expand_of_bytes_lemma. Qed.
Print Assumptions expand_of_bytes.

(* ★ expand_bijective, direction 2: for ALL 2^72 byte patterns, the six expanded values plus the bias are 12-bit fields
   whose documented packing is the original nine bytes — no two records expand to the same six shorts. *)
Theorem bytes_of_expand : forall c0 c1 c2 c3 c4 c5 c6 c7 c8,
  byte c0 -> byte c1 -> byte c2 -> byte c3 -> byte c4 -> byte c5 -> byte c6 -> byte c7 -> byte c8 ->
  let f k := k c0 c1 c2 c3 c4 c5 c6 c7 c8 + bias in
  (f12 (f p9_short_0) /\ f12 (f p9_short_1) /\ f12 (f p9_short_2) /\ f12 (f p9_short_3) /\ f12 (f p9_short_4) /\
   f12 (f p9_short_5)) /\
  bytes_of (f p9_short_0) (f p9_short_1) (f p9_short_2) (f p9_short_3) (f p9_short_4) (f p9_short_5)
    = (c0, c1, c2, c3, c4, c5, c6, c7, c8).
Proof. exact bytes_of_expand_lemma. Qed.
Print Assumptions bytes_of_expand.

(* the expanded values fit the int16 scratch array: -2048 <= s < 2048 *)
Theorem short_range : forall c0 c1 c2 c3 c4 c5 c6 c7 c8,
  byte c0 -> byte c1 -> byte c2 -> byte c3 -> byte c4 -> byte c5 -> byte c6 -> byte c7 -> byte c8 ->
  let r k := - 2048 <= k c0 c1 c2 c3 c4 c5 c6 c7 c8 < 2048 in
  r p9_short_0 /\ r p9_short_1 /\ r p9_short_2 /\ r p9_short_3 /\ r p9_short_4 /\ r p9_short_5.
Proof. exact short_range_lemma. Qed.
Print Assumptions short_range.

(* a record is a header iff its first byte is 0xFF *)
Theorem header_test : forall c0 c1 c2 c3 c4 c5 c6 c7 c8,
  p9_is_header c0 c1 c2 c3 c4 c5 c6 c7 c8 = (c0 =? 255).
Proof. exact is_header_lemma. Qed.
Print Assumptions header_test.

(* ★ header semantics: with cpd = s1 + 2000 cells per dimension (non-zero), velocity code s2 + 2000 and cell indices
   s3..s5 + 2000: cell size BoxSize/cpd, position quantum BoxSize/(2000 cpd), cell centre (idx + 1/2) BoxSize/cpd -
   BoxSize/2 per axis, velocity quantum code/(2000 cpd) * VelZSpace_to_kms — for all BoxSize, scale and field values. *)
Theorem header_fields : forall box velz s0 s1 s2 s3 s4 s5,
  s1 + 2000 <> 0 ->
  let cpd := s1 + 2000 in
  (p9_hdr_csize box velz s0 s1 s2 s3 s4 s5 == spec_csize box cpd)%Q /\
  (p9_hdr_pscale box velz s0 s1 s2 s3 s4 s5 == spec_pscale box cpd)%Q /\
  (p9_hdr_cellx box velz s0 s1 s2 s3 s4 s5 == spec_cell box cpd (s3 + 2000))%Q /\
  (p9_hdr_celly box velz s0 s1 s2 s3 s4 s5 == spec_cell box cpd (s4 + 2000))%Q /\
  (p9_hdr_cellz box velz s0 s1 s2 s3 s4 s5 == spec_cell box cpd (s5 + 2000))%Q /\
  (p9_hdr_vscale box velz s0 s1 s2 s3 s4 s5 == spec_vscale velz cpd (s2 + 2000))%Q.
Proof. exact header_fields_lemma. Qed.
Print Assumptions header_fields.

(* ★ particle semantics: position k = cell centre k + field k * position quantum; velocity k = field 3+k * velocity quantum *)
Theorem particle_fields : forall pscale cellx celly cellz vscale s0 s1 s2 s3 s4 s5,
  (p9_pos_0 pscale cellx celly cellz vscale s0 s1 s2 s3 s4 s5 == cellx + inject_Z s0 * pscale)%Q /\
  (p9_pos_1 pscale cellx celly cellz vscale s0 s1 s2 s3 s4 s5 == celly + inject_Z s1 * pscale)%Q /\
  (p9_pos_2 pscale cellx celly cellz vscale s0 s1 s2 s3 s4 s5 == cellz + inject_Z s2 * pscale)%Q /\
  (p9_vel_0 pscale cellx celly cellz vscale s0 s1 s2 s3 s4 s5 == inject_Z s3 * vscale)%Q /\
  (p9_vel_1 pscale cellx celly cellz vscale s0 s1 s2 s3 s4 s5 == inject_Z s4 * vscale)%Q /\
  (p9_vel_2 pscale cellx celly cellz vscale s0 s1 s2 s3 s4 s5 == inject_Z s5 * vscale)%Q.
Proof. exact particle_fields_lemma. Qed.
Print Assumptions particle_fields.

(* recovery within one quantum (in fact half): an offset from the cell centre / a velocity encoded by rounding to the
   nearest multiple of the quantum (|multiple| <= 2047) is decoded within quantum/2, and the two fields are 12-bit *)
Theorem roundtrip_quantum : forall pscale cellx celly cellz vscale x u s1 s2 s4 s5,
  (0 < pscale)%Q -> (0 < vscale)%Q ->
  (inject_Z (-2047) <= (x - cellx) / pscale)%Q -> ((x - cellx) / pscale <= inject_Z 2047)%Q ->
  (inject_Z (-2047) <= u / vscale)%Q -> (u / vscale <= inject_Z 2047)%Q ->
  let s0 := round_half_even ((x - cellx) / pscale) in
  let s3 := round_half_even (u / vscale) in
  (f12 (s0 + bias) /\ f12 (s3 + bias)) /\
  (p9_pos_0 pscale cellx celly cellz vscale s0 s1 s2 s3 s4 s5 - x <= pscale / (2 # 1))%Q /\
  (x - p9_pos_0 pscale cellx celly cellz vscale s0 s1 s2 s3 s4 s5 <= pscale / (2 # 1))%Q /\
  (p9_vel_0 pscale cellx celly cellz vscale s0 s1 s2 s3 s4 s5 - u <= vscale / (2 # 1))%Q /\
  (u - p9_vel_0 pscale cellx celly cellz vscale s0 s1 s2 s3 s4 s5 <= vscale / (2 # 1))%Q.
Proof. exact roundtrip_quantum_lemma. Qed.
Print Assumptions roundtrip_quantum.

(* ★ unpack_segments (the stream semantics `particles` of Spec.v, instantiated with the generated record decoders):
   after any prefix s, a header h followed by header-free records ps contributes exactly one particle per record of ps,
   in order, each decoded relative to h; h itself contributes nothing. *)
Theorem unpack_segments : forall box velz st s h ps,
  is_header h = true -> forallb (fun r => negb (is_header r)) ps = true ->
  parts9 box velz st (s ++ [h] ++ ps) = parts9 box velz st s ++ map (dec2 (Some (hdr_of box velz h))) ps.
Proof. intros box velz. exact (unpack_segments_lemma is_header (hdr_of box velz) dec2). Qed.
Print Assumptions unpack_segments.

(* ... for every split of a stream, the second part is decoded relative to the header in force at the split *)
Theorem unpack_concat : forall box velz st a b,
  parts9 box velz st (a ++ b) =
  parts9 box velz st a ++ parts9 box velz (state_after is_header (hdr_of box velz) st a) b.
Proof. intros box velz. exact (particles_app is_header (hdr_of box velz) dec2). Qed.
Print Assumptions unpack_concat.

(* exactly one particle per non-header record; a stream of headers only (or the empty stream) yields none *)
Theorem one_particle_per_record : forall box velz st data,
  length (parts9 box velz st data) = npart9 data /\ (npart9 data <= length data)%nat /\
  (forallb is_header data = true -> parts9 box velz st data = []).
Proof.
  intros box velz st data. split; [exact (particles_length is_header (hdr_of box velz) dec2 st data)|].
  split; [exact (npart_le is_header data)|exact (headers_yield_nothing is_header (hdr_of box velz) dec2 st data)].
Qed.
Print Assumptions one_particle_per_record.

(* ★ unpack_count_safe + functional correctness of the loop: started with w = 0 and the NaN state, with output arrays of
   at least npart rows (in particular of len(data) rows), the kernel model returns Ok — no store is out of range, the write
   index never overtakes the record index — the count is the number of non-header records and rows 0..npart-1 of every
   present output are the stream semantics, everything beyond untouched. *)
Theorem unpack_kernel : forall box velz data po vo,
  (forall b, po = Some b -> (npart9 data <= length b)%nat) ->
  (forall b, vo = Some b -> (npart9 data <= length b)%nat) ->
  p9_kernel data box velz po vo =
    Ok (Z.of_nat (npart9 data),
        option_map (splice 0 (map fst (parts9 box velz None data))) po,
        option_map (splice 0 (map snd (parts9 box velz None data))) vo).
Proof.
  intros box velz data po vo Hp Hv. unfold p9_kernel. change 0 with (Z.of_nat 0).
  exact (p9_loop_ok box velz data None 0 po vo Hp Hv).
Qed.
Print Assumptions unpack_kernel.

(* selection independence (wrapper model): pos-only / vel-only / both, allocated or supplied (any initial content, at
   least npart rows): a requested output is the stream semantics' rows in order, independent of the other selection;
   an allocated output is returned truncated to npart rows, a supplied one gets npart returned and its tail untouched. *)
Theorem unpack_pack9_selection : forall data box velz ps vs,
  sel_fits (npart9 data) ps -> sel_fits (npart9 data) vs ->
  let ps_rows := map fst (parts9 box velz None data) in
  let vs_rows := map snd (parts9 box velz None data) in
  unpack_pack9 data box velz ps vs =
    Ok (spec_ret ps_rows ps, spec_ret vs_rows vs, spec_buf ps_rows (length data) ps, spec_buf vs_rows (length data) vs).
Proof. exact unpack_pack9_lemma. Qed.
Print Assumptions unpack_pack9_selection.
