(* C15/Examples.v — non-vacuity of every hypothesis used in Properties.v, and regression values. *)
From Coq Require Import ZArith QArith List Bool Lia.
From Abacus.Common Require Import Arr Num.
From Abacus.C15 Require Import Lib Spec Gen Model Proofs.
Import ListNotations.
Local Open Scope Z_scope.

Example f12_min : f12 0.      Proof. unfold f12; lia. Qed.
Example f12_max : f12 4095.   Proof. unfold f12; lia. Qed.
Example byte_ff : byte 255.   Proof. unfold byte; lia. Qed.
Example byte_0 : byte 0.      Proof. unfold byte; lia. Qed.

(* a header record: cpd 1701 (field 1749 = 1701 - 2000 + 2048), velocity code 2500, cell (3, 1700, 0) *)
Definition hdr_ex : rec9 := bytes_of 4080 1749 2548 51 1748 48.
Example hdr_ex_is_header : is_header hdr_ex = true.   Proof. reflexivity. Qed.
Example hdr_ex_cpd : let '(_, s1, _, _, _, _) := shorts hdr_ex in s1 + 2000 = 1701 /\ s1 + 2000 <> 0.
Proof. cbn. lia. Qed.
Definition part_ex : rec9 := bytes_of 48 4095 2048 0 2049 2047.
Example part_ex_not_header : is_header part_ex = false.   Proof. reflexivity. Qed.
Example part_ex_shorts : shorts part_ex = (-2000, 2047, 0, -2048, 1, -1).   Proof. reflexivity. Qed.

Example segments_hyp : is_header hdr_ex = true /\ forallb (fun r => negb (is_header r)) [part_ex; part_ex] = true.
Proof. split; reflexivity. Qed.
Example headers_only_hyp : forallb is_header [hdr_ex; hdr_ex] = true.   Proof. reflexivity. Qed.

(* roundtrip hypotheses: cell centre 10, quantum 1/100, x = 10.2349; velocity quantum 3/2, u = -3000 *)
Example roundtrip_hyp :
  (0 < 1 # 100)%Q /\ (0 < 3 # 2)%Q /\
  (inject_Z (-2047) <= ((102349 # 10000) - (10 # 1)) / (1 # 100))%Q /\ (((102349 # 10000) - (10 # 1)) / (1 # 100) <= inject_Z 2047)%Q /\
  (inject_Z (-2047) <= (-3000 # 1) / (3 # 2))%Q /\ ((-3000 # 1) / (3 # 2) <= inject_Z 2047)%Q.
Proof. repeat split; vm_compute; congruence. Qed.

(* kernel / wrapper hypotheses *)
Example kernel_hyp : forall b, Some [nanrow; nanrow] = Some b -> (npart9 [hdr_ex; part_ex; hdr_ex; part_ex] <= length b)%nat.
Proof. intros b H; inversion H; subst. cbn. lia. Qed.
Example fits_given : sel_fits (npart9 [hdr_ex; part_ex]) (SelGiven [nanrow]).   Proof. cbn. lia. Qed.
Example fits_alloc : sel_fits (npart9 [part_ex]) SelAlloc.   Proof. exact I. Qed.

(* ---- regression values -------------------------------------------------------------------------- *)
Example all_zero_bytes : shorts (0, 0, 0, 0, 0, 0, 0, 0, 0) = (-2048, -2048, -2048, -2048, -2048, -2048).
Proof. reflexivity. Qed.
Example all_ff_bytes : shorts (255, 255, 255, 255, 255, 255, 255, 255, 255) = (2047, 2047, 2047, 2047, 2047, 2047).
Proof. reflexivity. Qed.
Example nibble_order : shorts (0x12, 0x34, 0x56, 0x78, 0x9A, 0xBC, 0xDE, 0xF0, 0x11)
  = (0x124 - 2048, 0x356 - 2048, 0x78A - 2048, 0x9BC - 2048, 0xDE0 - 2048, 0xF11 - 2048).
Proof. reflexivity. Qed.

(* box 1701, velz 2000: cell size 1, pscale 1/2000, cell (3,1700,0) centre (3.5, 1700.5, 0.5) - 850.5 *)
Example stream_ex :
  unpack_pack9 [part_ex; hdr_ex; hdr_ex; part_ex] (1701 # 1) (2000 # 1) SelAlloc SelSkip
  = Ok (RetArr [nanrow; pos_row (Some (hdr_of (1701 # 1) (2000 # 1) hdr_ex)) part_ex], RetCount 0,
        Some [nanrow; pos_row (Some (hdr_of (1701 # 1) (2000 # 1) hdr_ex)) part_ex; uninit; uninit], None).
Proof. vm_compute. reflexivity. Qed.
Example stream_ex_values :
  match pos_row (Some (hdr_of (1701 # 1) (2000 # 1) hdr_ex)) part_ex with
  | (FQ a, FQ b, FQ c) => (Qred a, Qred b, Qred c)
  | _ => (0, 0, 0)%Q
  end = (-848 # 1, 1702047 # 2000, -850 # 1)%Q.
Proof. vm_compute. reflexivity. Qed.
Example empty_stream : unpack_pack9 [] 1 1 SelAlloc SelAlloc = Ok (RetArr [], RetArr [], Some [], Some []).
Proof. reflexivity. Qed.
Example short_buffer_is_oob : unpack_pack9 [part_ex; part_ex] 1 1 (SelGiven [nanrow]) SelSkip = Oob.
Proof. reflexivity. Qed.
