(* C15/Run.v — executable glue for the correspondence run (no theorem depends on it).

   Float outputs are compared as the integer quantum they encode.  The inversion uses the DOCUMENTED header semantics
   (Spec.v: cell centre, cellsize/2000, velocity scale) computed from a hand-written nibble decoding, independent of
   Gen.v, exactly as the harness does on the implementation's floats; NaN is VNone; rows of a supplied array beyond the
   decoded count are compared exactly. *)
From Coq Require Import ZArith QArith List Bool.
From Abacus.Common Require Import Arr Num Corr.
From Abacus.C15 Require Import Spec Gen Model.
Import ListNotations.
Local Open Scope Z_scope.

Definition spec_fields (r : rec9) : Z * Z * Z * Z * Z * Z :=
  let '(c0, c1, c2, c3, c4, c5, c6, c7, c8) := r in
  (c0 * 16 + c1 mod 16 - 2048, c1 / 16 * 256 + c2 - 2048, c3 * 16 + c4 mod 16 - 2048, c4 / 16 * 256 + c5 - 2048,
   c6 * 16 + c7 mod 16 - 2048, c7 / 16 * 256 + c8 - 2048).

Definition spec_is_header (r : rec9) : bool :=
  let '(c0, _, _, _, _, _, _, _, _) := r in c0 =? 255.

Definition hdr5 := (Q * Q * Q * Q * Q)%type.   (* pscale, cellx, celly, cellz, vscale *)

Definition spec_hdr (box velz : Q) (r : rec9) : hdr5 :=
  let '(_, s1, s2, s3, s4, s5) := spec_fields r in
  let cpd := s1 + 2000 in
  (spec_pscale box cpd, spec_cell box cpd (s3 + 2000), spec_cell box cpd (s4 + 2000), spec_cell box cpd (s5 + 2000),
   spec_vscale velz cpd (s2 + 2000)).

(* the header in force for every particle record, in order *)
Definition headers (box velz : Q) (data : list rec9) : list (option hdr5) :=
  particles spec_is_header (spec_hdr box velz) (fun st _ => st) None data.

Definition cq (off q : Q) (v : fval) : val :=
  match v with FNan => VNone | FQ x => VZ (round_half_even ((x - off) / q)) end.

Definition canon_pos (h : option hdr5) (r : row) : list val :=
  let '(a, b, c) := r in
  match h with
  | Some (ps, cx, cy, cz, _) => [cq cx ps a; cq cy ps b; cq cz ps c]
  | None => [cq 0 1 a; cq 0 1 b; cq 0 1 c]
  end.

Definition canon_vel (h : option hdr5) (r : row) : list val :=
  let '(a, b, c) := r in
  match h with
  | Some (_, _, _, _, vs) => [cq 0 vs a; cq 0 vs b; cq 0 vs c]
  | None => [cq 0 1 a; cq 0 1 b; cq 0 1 c]
  end.

Fixpoint zipcanon (f : option hdr5 -> row -> list val) (hs : list (option hdr5)) (rows : list row) : list val :=
  match hs, rows with
  | h :: hs', r :: rows' => f h r ++ zipcanon f hs' rows'
  | _, _ => []
  end.

Definition exact_row (r : row) : list val :=
  let e v := match v with FNan => VNone | FQ x => VQ x end in
  let '(a, b, c) := r in [e a; e b; e c].

(* one output: [returned value; decoded rows (VNone if not requested); untouched tail of a supplied array] *)
Definition vout (f : option hdr5 -> row -> list val) (hs : list (option hdr5)) (code : Z) (ret : oret) (buf : option buffer) : val :=
  let n := length hs in
  match ret, buf with
  | RetArr a, _ => VL [VL (zipcanon f hs a); VL (zipcanon f hs a); VL []]
  | RetCount k, None => VL [VZ k; VNone; VNone]
  | RetCount k, Some b => VL [VZ k; VL (zipcanon f hs (firstn n b)); VL (flat_map exact_row (skipn n b))]
  end.

Definition mksel (code : Z) (nmax : nat) (extra : Z) (sent : Q) : osel :=
  if code =? 0 then SelAlloc
  else if code =? 1 then SelSkip
  else SelGiven (repeat (FQ sent, FQ sent, FQ sent) (Z.to_nat (Z.of_nat nmax + extra))).

(* supplied arrays have len(data) + extra rows; extra may be negative down to -(number of headers) *)
Definition p9_case := (Q * Q * list rec9 * Z * Z * Z * Q)%type.

Definition run_p9 (c : p9_case) : val :=
  let '(box, velz, data, pc, vc, extra, sent) := c in
  let hs := headers box velz data in
  let nmax := length data in
  vres (fun '(rp, rv, bp, bv) => VL [vout canon_pos hs pc rp bp; vout canon_vel hs vc rv bv])
       (unpack_pack9 data box velz (mksel pc nmax extra sent) (mksel vc nmax extra sent)).

(* the property on the model (used by the failing-input search): every requested output decodes to the documented
   fields of the non-header records, in order *)
Definition holds_p9 (c : p9_case) : bool :=
  let '(box, velz, data, pc, vc, extra, sent) := c in
  let hs := headers box velz data in
  let recs := filter (fun r => negb (spec_is_header r)) data in
  let flds (sel : Z * Z * Z * Z * Z * Z -> list Z) :=
    flat_map (fun '(h, r) => match h with
                             | Some _ => map VZ (sel (spec_fields r))
                             | None => [VNone; VNone; VNone]
                             end) (combine hs recs) in
  let pf := flds (fun '(s0, s1, s2, _, _, _) => [s0; s1; s2]) in
  let vf := flds (fun '(_, _, _, s3, s4, s5) => [s3; s4; s5]) in
  let n := Z.of_nat (length hs) in
  let tail := VL (flat_map exact_row (repeat (FQ sent, FQ sent, FQ sent) (Z.to_nat (Z.of_nat (length data) + extra - n)))) in
  let exp code l := if code =? 0 then VL [VL l; VL l; VL []]
                    else if code =? 1 then VL [VZ 0; VNone; VNone] else VL [VZ n; VL l; tail] in
  val_eqb (run_p9 c) (VL [exp pc pf; exp vc vf]).
