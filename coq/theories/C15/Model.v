(* C15/Model.v — executable model of abacusnbody/data/pack9.py: _unpack_pack9 (header state, write counter, checked
   stores) and the wrapper unpack_pack9 (allocation, output selection, truncation to the decoded count).

   All arithmetic (nibble expansion, bias, header test, header quantities, particle expressions) is Gen.v, regenerated
   from the source; hand-written here are the loop, the NaN initial header state and the wrapper.  No proofs. *)
From Coq Require Import ZArith QArith List Bool.
From Abacus.Common Require Import Arr.
From Abacus.C15 Require Import Spec Gen.
Import ListNotations.
Local Open Scope Z_scope.
Local Open Scope res_scope.

Inductive fval := FNan | FQ (q : Q).
Definition row := (fval * fval * fval)%type.
Definition buffer := list row.

Record hstate := mkh { h_pscale : Q; h_cellx : Q; h_celly : Q; h_cellz : Q; h_vscale : Q }.

Definition shorts (r : rec9) : Z * Z * Z * Z * Z * Z :=
  let '(c0, c1, c2, c3, c4, c5, c6, c7, c8) := r in
  (p9_short_0 c0 c1 c2 c3 c4 c5 c6 c7 c8, p9_short_1 c0 c1 c2 c3 c4 c5 c6 c7 c8, p9_short_2 c0 c1 c2 c3 c4 c5 c6 c7 c8,
   p9_short_3 c0 c1 c2 c3 c4 c5 c6 c7 c8, p9_short_4 c0 c1 c2 c3 c4 c5 c6 c7 c8, p9_short_5 c0 c1 c2 c3 c4 c5 c6 c7 c8).

Definition is_header (r : rec9) : bool :=
  let '(c0, c1, c2, c3, c4, c5, c6, c7, c8) := r in p9_is_header c0 c1 c2 c3 c4 c5 c6 c7 c8.

Definition hdr_of (box velz : Q) (r : rec9) : hstate :=
  let '(s0, s1, s2, s3, s4, s5) := shorts r in
  mkh (p9_hdr_pscale box velz s0 s1 s2 s3 s4 s5) (p9_hdr_cellx box velz s0 s1 s2 s3 s4 s5)
      (p9_hdr_celly box velz s0 s1 s2 s3 s4 s5) (p9_hdr_cellz box velz s0 s1 s2 s3 s4 s5)
      (p9_hdr_vscale box velz s0 s1 s2 s3 s4 s5).

Definition nanrow : row := (FNan, FNan, FNan).

(* before the first header the state is NaN: every output of such a particle is NaN *)
Definition pos_row (st : option hstate) (r : rec9) : row :=
  match st with
  | None => nanrow
  | Some h =>
      let '(s0, s1, s2, s3, s4, s5) := shorts r in
      let f g := FQ (g (h_pscale h) (h_cellx h) (h_celly h) (h_cellz h) (h_vscale h) s0 s1 s2 s3 s4 s5) in
      (f p9_pos_0, f p9_pos_1, f p9_pos_2)
  end.

Definition vel_row (st : option hstate) (r : rec9) : row :=
  match st with
  | None => nanrow
  | Some h =>
      let '(s0, s1, s2, s3, s4, s5) := shorts r in
      let f g := FQ (g (h_pscale h) (h_cellx h) (h_celly h) (h_cellz h) (h_vscale h) s0 s1 s2 s3 s4 s5) in
      (f p9_vel_0, f p9_vel_1, f p9_vel_2)
  end.

Definition store_opt (o : option buffer) (i : Z) (v : row) : res (option buffer) :=
  match o with
  | None => Ok None
  | Some b => b' <- set b i v ;; Ok (Some b')
  end.

(* for i in range(N): p9 = data[i]; ... ; the write counter w advances on particles only *)
Fixpoint p9_loop (box velz : Q) (data : list rec9) (st : option hstate) (w : Z) (po vo : option buffer)
  : res (Z * option buffer * option buffer) :=
  match data with
  | [] => Ok (w, po, vo)
  | r :: t =>
      if is_header r then p9_loop box velz t (Some (hdr_of box velz r)) w po vo
      else
        po' <- store_opt po w (pos_row st r) ;;
        vo' <- store_opt vo w (vel_row st r) ;;
        p9_loop box velz t st (w + 1) po' vo'
  end.

(* _unpack_pack9(data, boxsize, velzspace_to_kms, posout, velout, dtype) *)
Definition p9_kernel (data : list rec9) (box velz : Q) (po vo : option buffer) :=
  p9_loop box velz data None 0 po vo.

Inductive osel :=
| SelAlloc                    (* None: allocate len(data) rows, return the first npart rows *)
| SelSkip                     (* False: not unpacked, 0 is returned *)
| SelGiven (buf : buffer).    (* the caller's array: filled in place, npart is returned *)

Inductive oret :=
| RetArr (a : buffer)
| RetCount (n : Z).

Definition uninit : row := (FQ 0, FQ 0, FQ 0).   (* np.empty: content irrelevant *)

Definition sel_buf (n : Z) (s : osel) : option buffer :=
  match s with
  | SelAlloc => Some (repeat uninit (Z.to_nat n))
  | SelSkip => None
  | SelGiven b => Some b
  end.

Definition sel_ret (npart : Z) (s : osel) (o : option buffer) : oret :=
  match s, o with
  | SelAlloc, Some b => RetArr (firstn (Z.to_nat npart) b)
  | SelAlloc, None => RetCount 0
  | SelSkip, _ => RetCount 0
  | SelGiven _, _ => RetCount npart
  end.

Definition unpack_pack9 (data : list rec9) (box velz : Q) (ps vs : osel)
  : res (oret * oret * option buffer * option buffer) :=
  let nmax := len data in
  '(npart, po, vo) <- p9_kernel data box velz (sel_buf nmax ps) (sel_buf nmax vs) ;;
  Ok (sel_ret npart ps po, sel_ret npart vs vo, po, vo).
