(* C15/Spec.v — the documented pack9 format, written independently of the code.

   A record is 9 bytes holding six 12-bit fields; two fields (a, b) occupy three bytes as
       [a >> 4] [(a & 15) | ((b >> 8) << 4)] [b & 255].
   Each field is stored biased by 2048.  A record whose first byte is 0xFF is a cell header: its fields 1..5 (each
   biased by a further 2000) are the cells per dimension, the velocity scale code and the three cell indices; it
   yields no particle.  Every other record is a particle: fields 0..2 are the position offsets from the centre of the
   most recent header's cell in units of cellsize/2000, fields 3..5 the velocity in units of the header's velocity scale. *)
From Coq Require Import ZArith QArith List Bool.
Import ListNotations.
Local Open Scope Z_scope.

Definition byte (c : Z) : Prop := 0 <= c < 256.
Definition f12 (f : Z) : Prop := 0 <= f < 4096.

Definition rec9 := (Z * Z * Z * Z * Z * Z * Z * Z * Z)%type.

Definition pack2 (a b : Z) : Z * Z * Z := (a / 16, a mod 16 + 16 * (b / 256), b mod 256).

Definition bytes_of (f0 f1 f2 f3 f4 f5 : Z) : rec9 :=
  let '(c0, c1, c2) := pack2 f0 f1 in
  let '(c3, c4, c5) := pack2 f2 f3 in
  let '(c6, c7, c8) := pack2 f4 f5 in
  (c0, c1, c2, c3, c4, c5, c6, c7, c8).

Definition bias : Z := 2048.

(* header semantics: cpd cells per dimension, velocity code vcode, cell index idx (0 <= idx < cpd) *)
Definition spec_csize (box : Q) (cpd : Z) : Q := (box / inject_Z cpd)%Q.
Definition spec_pscale (box : Q) (cpd : Z) : Q := (box / inject_Z (2000 * cpd))%Q.
Definition spec_cell (box : Q) (cpd idx : Z) : Q := ((inject_Z idx + (1 # 2)) * spec_csize box cpd - box / (2 # 1))%Q.
Definition spec_vscale (velz : Q) (cpd vcode : Z) : Q := (inject_Z vcode / inject_Z (2000 * cpd) * velz)%Q.

(* ---- the stream: one particle per non-header record, relative to the most recent header ----------------------- *)
Section Stream.
  Context {R S P : Type} (is_hdr : R -> bool) (mkst : R -> S) (dec : option S -> R -> P).

  Fixpoint particles (st : option S) (data : list R) : list P :=
    match data with
    | [] => []
    | r :: t => if is_hdr r then particles (Some (mkst r)) t else dec st r :: particles st t
    end.

  (* the header in force after a prefix of the stream *)
  Fixpoint state_after (st : option S) (data : list R) : option S :=
    match data with
    | [] => st
    | r :: t => state_after (if is_hdr r then Some (mkst r) else st) t
    end.

  Definition n_particles (data : list R) : nat := length (filter (fun r => negb (is_hdr r)) data).
End Stream.
