(* C15/Lib.v — bit-field lemmas (masks and shifts as div/mod, disjoint lor as +) and list lemmas for in-place stores. *)
From Coq Require Import ZArith List Bool Lia.
From Abacus.Common Require Import Arr.
Import ListNotations.
Local Open Scope Z_scope.

Definition bfield (a k n : Z) : Z := (a / 2 ^ k) mod 2 ^ n.

Lemma pow2_pos k : 0 <= k -> 0 < 2 ^ k.
Proof. intros; apply Z.pow_pos_nonneg; lia. Qed.

Lemma land_field a k n :
  0 <= k -> 0 <= n -> Z.land a (Z.ones n * 2 ^ k) = bfield a k n * 2 ^ k.
Proof.
  intros Hk Hn. unfold bfield.
  rewrite <- !Z.shiftl_mul_pow2 by lia. rewrite <- Z.land_ones by lia. rewrite <- Z.shiftr_div_pow2 by lia.
  apply Z.bits_inj'. intros i Hi.
  rewrite Z.land_spec. rewrite !Z.shiftl_spec by lia.
  destruct (Z.ltb_spec i k) as [Hlt|Hge].
  - rewrite (Z.testbit_neg_r (Z.ones n)) by lia. rewrite (Z.testbit_neg_r (Z.land _ _)) by lia.
    apply andb_false_r.
  - rewrite Z.land_spec, Z.shiftr_spec by lia. replace (i - k + k) with i by lia. reflexivity.
Qed.

Lemma lor_add_low x y k : 0 <= k -> 0 <= x < 2 ^ k -> Z.lor x (y * 2 ^ k) = x + y * 2 ^ k.
Proof.
  intros Hk Hx. pose proof (pow2_pos k Hk) as Hp.
  assert (Hmod : (x + y * 2 ^ k) mod 2 ^ k = x) by (rewrite Z.mod_add by lia; apply Z.mod_small; lia).
  assert (Hdiv : (x + y * 2 ^ k) / 2 ^ k = y) by (rewrite Z.div_add by lia; rewrite Z.div_small by lia; lia).
  apply Z.bits_inj'. intros i Hi. rewrite Z.lor_spec.
  destruct (Z.ltb_spec i k) as [Hlt|Hge].
  - rewrite Z.mul_pow2_bits_low by lia. rewrite orb_false_r.
    rewrite <- (Z.mod_pow2_bits_low (x + y * 2 ^ k) k i) by lia. rewrite Hmod. reflexivity.
  - assert (Hxi : Z.testbit x i = false).
    { rewrite <- (Z.mod_small x (2 ^ k)) by lia. apply Z.mod_pow2_bits_high. lia. }
    rewrite Hxi. cbn [orb].
    replace i with (i - k + k) at 2 by lia. rewrite <- Z.div_pow2_bits by lia. rewrite Hdiv.
    rewrite Z.mul_pow2_bits by lia. reflexivity.
Qed.

(* the two nibble shuffles of pack9, for arbitrary integers c0, c1 and a byte c2 *)
Lemma nibble_even c0 c1 : Z.lor (Z.land c1 15) (Z.shiftl c0 4) = c1 mod 16 + c0 * 16.
Proof.
  change 15 with (Z.ones 4). rewrite Z.land_ones by lia. rewrite Z.shiftl_mul_pow2 by lia.
  change (2 ^ 4) with 16. apply (lor_add_low (c1 mod 16) c0 4); [lia|]. change (2 ^ 4) with 16.
  apply Z.mod_pos_bound. lia.
Qed.

Lemma nibble_odd c1 c2 : 0 <= c2 < 256 -> Z.lor (Z.shiftl (Z.land c1 240) 4) c2 = c2 + (c1 / 16) mod 16 * 256.
Proof.
  intros Hc. change 240 with (Z.ones 4 * 2 ^ 4). rewrite land_field by lia. rewrite Z.shiftl_mul_pow2 by lia.
  unfold bfield. change (2 ^ 4) with 16. rewrite Z.lor_comm.
  replace ((c1 / 16) mod 16 * 16 * 16) with ((c1 / 16) mod 16 * 2 ^ 8) by (change (2 ^ 8) with 256; ring).
  rewrite (lor_add_low c2 _ 8) by (change (2 ^ 8) with 256; lia). change (2 ^ 8) with 256. reflexivity.
Qed.

(* ---- lists ---------------------------------------------------------------------------------- *)
Lemma firstn_set_nth_succ {T} (b : list T) i v :
  (i < length b)%nat -> firstn (S i) (set_nth b i v) = firstn i b ++ [v].
Proof.
  revert i; induction b as [|h t IH]; intros i Hi; cbn in Hi; [lia|].
  destruct i as [|i]; [reflexivity|]. cbn [set_nth]. rewrite !firstn_cons. cbn [app]. f_equal. apply IH. lia.
Qed.

Lemma skipn_set_nth_above {T} (b : list T) i j v :
  (i < j)%nat -> skipn j (set_nth b i v) = skipn j b.
Proof.
  revert i j; induction b as [|h t IH]; intros i j Hij; [destruct j; reflexivity|].
  destruct j as [|j]; [lia|]. destruct i as [|i]; cbn [set_nth skipn]; [reflexivity|]. apply IH. lia.
Qed.

(* rows [w, w + |l|) of b replaced by l *)
Definition splice {T} (w : nat) (l : list T) (b : list T) : list T := firstn w b ++ l ++ skipn (w + length l) b.

Lemma splice_nil {T} w (b : list T) : splice w [] b = b.
Proof. unfold splice. cbn [app length]. rewrite Nat.add_0_r. apply firstn_skipn. Qed.

Lemma splice_step {T} (v : T) l w b :
  (w < length b)%nat -> splice (S w) l (set_nth b w v) = splice w (v :: l) b.
Proof.
  intros Hw. unfold splice. rewrite firstn_set_nth_succ by exact Hw.
  rewrite skipn_set_nth_above by lia. cbn [length]. rewrite <- app_assoc. cbn [app].
  replace (S w + length l)%nat with (w + S (length l))%nat by lia. reflexivity.
Qed.

Lemma splice_length {T} w (l b : list T) : (w + length l <= length b)%nat -> length (splice w l b) = length b.
Proof.
  intros H. unfold splice. rewrite !app_length, firstn_length, skipn_length. lia.
Qed.
