(* C15/Proofs.v — lemmas about the GENERATED arithmetic of Gen.v (regenerated from pack9.py) and about the stream model. *)
From Coq Require Import ZArith QArith Qround List Bool Lia Lqa ZifyBool.
From Abacus.Common Require Import Arr Num.
From Abacus.C15 Require Import Lib Spec Gen Model.
Import ListNotations.
Local Open Scope Z_scope.

Ltac Zify.zify_post_hook ::= Z.to_euclidean_division_equations.

(* ---- nibble expansion --------------------------------------------------------------------------- *)
Lemma bias_is : p9_bias = bias.  Proof. reflexivity. Qed.

Lemma raw_0_is c0 c1 c2 c3 c4 c5 c6 c7 c8 : p9_raw_0 c0 c1 c2 c3 c4 c5 c6 c7 c8 = c1 mod 16 + c0 * 16.
Proof. apply nibble_even. Qed.
Lemma raw_2_is c0 c1 c2 c3 c4 c5 c6 c7 c8 : p9_raw_2 c0 c1 c2 c3 c4 c5 c6 c7 c8 = c4 mod 16 + c3 * 16.
Proof. apply nibble_even. Qed.
Lemma raw_4_is c0 c1 c2 c3 c4 c5 c6 c7 c8 : p9_raw_4 c0 c1 c2 c3 c4 c5 c6 c7 c8 = c7 mod 16 + c6 * 16.
Proof. apply nibble_even. Qed.
Lemma raw_1_is c0 c1 c2 c3 c4 c5 c6 c7 c8 : byte c2 -> p9_raw_1 c0 c1 c2 c3 c4 c5 c6 c7 c8 = c2 + (c1 / 16) mod 16 * 256.
Proof. apply nibble_odd. Qed.
Lemma raw_3_is c0 c1 c2 c3 c4 c5 c6 c7 c8 : byte c5 -> p9_raw_3 c0 c1 c2 c3 c4 c5 c6 c7 c8 = c5 + (c4 / 16) mod 16 * 256.
Proof. apply nibble_odd. Qed.
Lemma raw_5_is c0 c1 c2 c3 c4 c5 c6 c7 c8 : byte c8 -> p9_raw_5 c0 c1 c2 c3 c4 c5 c6 c7 c8 = c8 + (c7 / 16) mod 16 * 256.
Proof. apply nibble_odd. Qed.

Lemma pack2_bytes a b : f12 a -> f12 b ->
  let '(x, y, z) := pack2 a b in byte x /\ byte y /\ byte z /\ y mod 16 + x * 16 = a /\ z + (y / 16) mod 16 * 256 = b.
Proof. unfold f12, pack2, byte. intros Ha Hb. lia. Qed.

Lemma unpack2_bytes x y z : byte x -> byte y -> byte z ->
  f12 (y mod 16 + x * 16) /\ f12 (z + (y / 16) mod 16 * 256) /\
  pack2 (y mod 16 + x * 16) (z + (y / 16) mod 16 * 256) = (x, y, z).
Proof.
  unfold f12, pack2, byte. intros Hx Hy Hz. split; [lia|]. split; [lia|].
  f_equal; [f_equal|]; lia.
Qed.

(* fields -> bytes -> shorts *)
Lemma expand_of_bytes_lemma : forall f0 f1 f2 f3 f4 f5,
  f12 f0 -> f12 f1 -> f12 f2 -> f12 f3 -> f12 f4 -> f12 f5 ->
  let '(c0, c1, c2, c3, c4, c5, c6, c7, c8) := bytes_of f0 f1 f2 f3 f4 f5 in
  (byte c0 /\ byte c1 /\ byte c2 /\ byte c3 /\ byte c4 /\ byte c5 /\ byte c6 /\ byte c7 /\ byte c8) /\
  p9_short_0 c0 c1 c2 c3 c4 c5 c6 c7 c8 = f0 - bias /\ p9_short_1 c0 c1 c2 c3 c4 c5 c6 c7 c8 = f1 - bias /\
  p9_short_2 c0 c1 c2 c3 c4 c5 c6 c7 c8 = f2 - bias /\ p9_short_3 c0 c1 c2 c3 c4 c5 c6 c7 c8 = f3 - bias /\
  p9_short_4 c0 c1 c2 c3 c4 c5 c6 c7 c8 = f4 - bias /\ p9_short_5 c0 c1 c2 c3 c4 c5 c6 c7 c8 = f5 - bias.
Proof.
  intros f0 f1 f2 f3 f4 f5 H0 H1 H2 H3 H4 H5. unfold bytes_of.
  pose proof (pack2_bytes f0 f1 H0 H1) as P01. pose proof (pack2_bytes f2 f3 H2 H3) as P23.
  pose proof (pack2_bytes f4 f5 H4 H5) as P45.
  destruct (pack2 f0 f1) as [[c0 c1] c2]. destruct (pack2 f2 f3) as [[c3 c4] c5]. destruct (pack2 f4 f5) as [[c6 c7] c8].
  destruct P01 as [B0 [B1 [B2 [E0 E1]]]]. destruct P23 as [B3 [B4 [B5 [E2 E3]]]]. destruct P45 as [B6 [B7 [B8 [E4 E5]]]].
  split; [repeat split; first [apply B0|apply B1|apply B2|apply B3|apply B4|apply B5|apply B6|apply B7|apply B8]|].
  unfold p9_short_0, p9_short_1, p9_short_2, p9_short_3, p9_short_4, p9_short_5. rewrite bias_is.
  rewrite raw_0_is, raw_2_is, raw_4_is. rewrite raw_1_is, raw_3_is, raw_5_is by assumption.
  rewrite E0, E1, E2, E3, E4, E5. repeat split; reflexivity.
Qed.

(* bytes -> shorts -> fields -> bytes *)
Lemma bytes_of_expand_lemma : forall c0 c1 c2 c3 c4 c5 c6 c7 c8,
  byte c0 -> byte c1 -> byte c2 -> byte c3 -> byte c4 -> byte c5 -> byte c6 -> byte c7 -> byte c8 ->
  let f k := k c0 c1 c2 c3 c4 c5 c6 c7 c8 + bias in
  (f12 (f p9_short_0) /\ f12 (f p9_short_1) /\ f12 (f p9_short_2) /\ f12 (f p9_short_3) /\ f12 (f p9_short_4) /\
   f12 (f p9_short_5)) /\
  bytes_of (f p9_short_0) (f p9_short_1) (f p9_short_2) (f p9_short_3) (f p9_short_4) (f p9_short_5)
    = (c0, c1, c2, c3, c4, c5, c6, c7, c8).
Proof.
  intros c0 c1 c2 c3 c4 c5 c6 c7 c8 B0 B1 B2 B3 B4 B5 B6 B7 B8 f. unfold f.
  unfold p9_short_0, p9_short_1, p9_short_2, p9_short_3, p9_short_4, p9_short_5. rewrite bias_is.
  rewrite raw_0_is, raw_2_is, raw_4_is. rewrite raw_1_is, raw_3_is, raw_5_is by assumption.
  repeat match goal with |- context [?x - bias + bias] => replace (x - bias + bias) with x by lia end.
  destruct (unpack2_bytes c0 c1 c2 B0 B1 B2) as [F0 [F1 E01]].
  destruct (unpack2_bytes c3 c4 c5 B3 B4 B5) as [F2 [F3 E23]].
  destruct (unpack2_bytes c6 c7 c8 B6 B7 B8) as [F4 [F5 E45]].
  split; [repeat split; first [apply F0|apply F1|apply F2|apply F3|apply F4|apply F5]|].
  unfold bytes_of. rewrite E01, E23, E45. reflexivity.
Qed.

Lemma short_range_lemma : forall c0 c1 c2 c3 c4 c5 c6 c7 c8,
  byte c0 -> byte c1 -> byte c2 -> byte c3 -> byte c4 -> byte c5 -> byte c6 -> byte c7 -> byte c8 ->
  let r k := - 2048 <= k c0 c1 c2 c3 c4 c5 c6 c7 c8 < 2048 in
  r p9_short_0 /\ r p9_short_1 /\ r p9_short_2 /\ r p9_short_3 /\ r p9_short_4 /\ r p9_short_5.
Proof.
  intros c0 c1 c2 c3 c4 c5 c6 c7 c8 B0 B1 B2 B3 B4 B5 B6 B7 B8 r.
  destruct (bytes_of_expand_lemma c0 c1 c2 c3 c4 c5 c6 c7 c8 B0 B1 B2 B3 B4 B5 B6 B7 B8) as [[F0 [F1 [F2 [F3 [F4 F5]]]]] _].
  unfold r, f12, bias in *. repeat split; lia.
Qed.

(* a header record is one whose first byte is 0xFF *)
Lemma is_header_lemma : forall c0 c1 c2 c3 c4 c5 c6 c7 c8,
  p9_is_header c0 c1 c2 c3 c4 c5 c6 c7 c8 = (c0 =? 255).
Proof. reflexivity. Qed.

(* ---- header and particle quantities ------------------------------------------------------------ *)
Lemma inj_nonzero z : z <> 0 -> ~ (inject_Z z == 0)%Q.
Proof. intros H E. apply H. unfold Qeq in E. cbn in E. lia. Qed.

Lemma header_fields_lemma : forall box velz s0 s1 s2 s3 s4 s5,
  s1 + 2000 <> 0 ->
  let cpd := s1 + 2000 in
  (p9_hdr_csize box velz s0 s1 s2 s3 s4 s5 == spec_csize box cpd)%Q /\
  (p9_hdr_pscale box velz s0 s1 s2 s3 s4 s5 == spec_pscale box cpd)%Q /\
  (p9_hdr_cellx box velz s0 s1 s2 s3 s4 s5 == spec_cell box cpd (s3 + 2000))%Q /\
  (p9_hdr_celly box velz s0 s1 s2 s3 s4 s5 == spec_cell box cpd (s4 + 2000))%Q /\
  (p9_hdr_cellz box velz s0 s1 s2 s3 s4 s5 == spec_cell box cpd (s5 + 2000))%Q /\
  (p9_hdr_vscale box velz s0 s1 s2 s3 s4 s5 == spec_vscale velz cpd (s2 + 2000))%Q.
Proof.
  intros box velz s0 s1 s2 s3 s4 s5 Hc cpd. pose proof (inj_nonzero _ Hc) as Hq. fold cpd in Hq.
  unfold p9_hdr_csize, p9_hdr_pscale, p9_hdr_cellx, p9_hdr_celly, p9_hdr_cellz, p9_hdr_vscale, p9_hdr_csize,
    p9_hdr_invcpd, p9_halfbox, spec_csize, spec_pscale, spec_cell, spec_csize, spec_vscale.
  fold cpd. rewrite !inject_Z_plus, !inject_Z_mult.
  change (inject_Z 2000) with (2000 # 1)%Q. change (inject_Z 2) with (2 # 1)%Q.
  set (c := inject_Z cpd) in *.
  repeat split; field; exact Hq.
Qed.

Lemma particle_fields_lemma : forall pscale cellx celly cellz vscale s0 s1 s2 s3 s4 s5,
  (p9_pos_0 pscale cellx celly cellz vscale s0 s1 s2 s3 s4 s5 == cellx + inject_Z s0 * pscale)%Q /\
  (p9_pos_1 pscale cellx celly cellz vscale s0 s1 s2 s3 s4 s5 == celly + inject_Z s1 * pscale)%Q /\
  (p9_pos_2 pscale cellx celly cellz vscale s0 s1 s2 s3 s4 s5 == cellz + inject_Z s2 * pscale)%Q /\
  (p9_vel_0 pscale cellx celly cellz vscale s0 s1 s2 s3 s4 s5 == inject_Z s3 * vscale)%Q /\
  (p9_vel_1 pscale cellx celly cellz vscale s0 s1 s2 s3 s4 s5 == inject_Z s4 * vscale)%Q /\
  (p9_vel_2 pscale cellx celly cellz vscale s0 s1 s2 s3 s4 s5 == inject_Z s5 * vscale)%Q.
Proof.
  intros. unfold p9_pos_0, p9_pos_1, p9_pos_2, p9_vel_0, p9_vel_1, p9_vel_2. repeat split; ring.
Qed.

(* quantum recovery: an offset d (position relative to the cell centre, or a velocity) encoded by rounding d/q to the
   nearest integer s, |s| <= 2047, is recovered as s*q within q/2 <= one quantum *)
Lemma round_scaled_bound (q x : Q) :
  (0 < q)%Q ->
  let n := round_half_even (x / q) in
  (inject_Z n * q - x <= q / (2 # 1))%Q /\ (x - inject_Z n * q <= q / (2 # 1))%Q.
Proof.
  intros Hq n. destruct (round_half_even_bound (x / q)) as [H1 H2]. fold n in H1, H2.
  assert (Hx : (x == (x / q) * q)%Q) by (field; lra).
  set (t := (x / q)%Q) in *. set (m := inject_Z n) in *.
  assert (E1 : (m * q - x == (m - t) * q)%Q) by (rewrite Hx at 1; ring).
  assert (E2 : (x - m * q == (t - m) * q)%Q) by (rewrite Hx at 1; ring).
  assert (Eh : (q / (2 # 1) == (1 # 2) * q)%Q) by (field).
  rewrite E1, E2, Eh. split; apply Qmult_le_compat_r; try assumption; apply Qlt_le_weak; exact Hq.
Qed.

Lemma round_in_range (t : Q) (lo hi : Z) :
  (inject_Z lo <= t)%Q -> (t <= inject_Z hi)%Q -> lo <= round_half_even t <= hi.
Proof.
  intros Hlo Hhi. destruct (round_half_even_bound t) as [H1 H2].
  set (n := round_half_even t) in *. clearbody n.
  assert (A : (inject_Z n < inject_Z (hi + 1))%Q) by (rewrite inject_Z_plus; change (inject_Z 1) with 1%Q; lra).
  assert (B : (inject_Z (lo - 1) < inject_Z n)%Q).
  { unfold Z.sub. rewrite inject_Z_plus, inject_Z_opp. change (inject_Z 1) with 1%Q. lra. }
  rewrite <- Zlt_Qlt in A, B. lia.
Qed.

Lemma roundtrip_quantum_lemma : forall pscale cellx celly cellz vscale x u s1 s2 s4 s5,
  (0 < pscale)%Q -> (0 < vscale)%Q ->
  (inject_Z (-2047) <= (x - cellx) / pscale)%Q -> ((x - cellx) / pscale <= inject_Z 2047)%Q ->
  (inject_Z (-2047) <= u / vscale)%Q -> (u / vscale <= inject_Z 2047)%Q ->
  let s0 := round_half_even ((x - cellx) / pscale) in
  let s3 := round_half_even (u / vscale) in
  (f12 (s0 + bias) /\ f12 (s3 + bias)) /\
  (p9_pos_0 pscale cellx celly cellz vscale s0 s1 s2 s3 s4 s5 - x <= pscale / (2 # 1))%Q /\
  (x - p9_pos_0 pscale cellx celly cellz vscale s0 s1 s2 s3 s4 s5 <= pscale / (2 # 1))%Q /\
  (p9_vel_0 pscale cellx celly cellz vscale s0 s1 s2 s3 s4 s5 - u <= vscale / (2 # 1))%Q /\
  (u - p9_vel_0 pscale cellx celly cellz vscale s0 s1 s2 s3 s4 s5 <= vscale / (2 # 1))%Q.
Proof.
  intros pscale cellx celly cellz vscale x u s1 s2 s4 s5 Hp Hv Hx1 Hx2 Hu1 Hu2 s0 s3.
  pose proof (round_in_range _ _ _ Hx1 Hx2) as R0. pose proof (round_in_range _ _ _ Hu1 Hu2) as R3.
  fold s0 in R0. fold s3 in R3.
  split; [unfold f12, bias; lia|].
  destruct (round_scaled_bound pscale (x - cellx) Hp) as [A1 A2]. fold s0 in A1, A2.
  destruct (round_scaled_bound vscale u Hv) as [B1 B2]. fold s3 in B1, B2.
  unfold p9_pos_0, p9_vel_0. clearbody s0 s3. repeat split; lra.
Qed.

(* ---- the stream ---------------------------------------------------------------------------------- *)
Section StreamLemmas.
  Context {R S P : Type} (is_hdr : R -> bool) (mkst : R -> S) (dec : option S -> R -> P).
  Notation parts := (particles is_hdr mkst dec).
  Notation after := (state_after is_hdr mkst).
  Notation npart := (n_particles is_hdr).

  Lemma particles_app st a b : parts st (a ++ b) = parts st a ++ parts (after st a) b.
  Proof.
    revert st; induction a as [|r t IH]; intros st; cbn [app particles state_after]; [reflexivity|].
    destruct (is_hdr r); [apply IH|]. cbn [app]. f_equal. apply IH.
  Qed.

  Lemma particles_no_header st ps :
    forallb (fun r => negb (is_hdr r)) ps = true -> parts st ps = map (dec st) ps.
  Proof.
    induction ps as [|r t IH]; cbn [forallb particles map]; [reflexivity|].
    intros H. apply andb_prop in H. destruct H as [Hr Ht]. destruct (is_hdr r); [discriminate|].
    f_equal. apply IH. exact Ht.
  Qed.

  Lemma state_after_app st a b : after st (a ++ b) = after (after st a) b.
  Proof. revert st; induction a as [|r t IH]; intros st; cbn [app state_after]; [reflexivity|]. apply IH. Qed.

  Lemma unpack_segments_lemma st s h ps :
    is_hdr h = true -> forallb (fun r => negb (is_hdr r)) ps = true ->
    parts st (s ++ [h] ++ ps) = parts st s ++ map (dec (Some (mkst h))) ps.
  Proof.
    intros Hh Hps. rewrite particles_app. f_equal. cbn [app particles]. rewrite Hh.
    apply particles_no_header. exact Hps.
  Qed.

  Lemma particles_length st data : length (parts st data) = npart data.
  Proof.
    unfold n_particles. revert st; induction data as [|r t IH]; intros st; cbn [particles filter]; [reflexivity|].
    destruct (is_hdr r); cbn [negb length]; [apply IH|]. f_equal. apply IH.
  Qed.

  Lemma npart_le data : (npart data <= length data)%nat.
  Proof.
    clear mkst dec. unfold n_particles. induction data as [|r t IH]; cbn [filter length]; [lia|].
    destruct (negb (is_hdr r)); cbn [length]; lia.
  Qed.

  Lemma headers_yield_nothing st data :
    forallb is_hdr data = true -> parts st data = [].
  Proof.
    revert st; induction data as [|r t IH]; intros st; cbn [forallb particles]; [reflexivity|].
    intros H. apply andb_prop in H. destruct H as [Hr Ht]. rewrite Hr. apply IH. exact Ht.
  Qed.
End StreamLemmas.

(* ---- the kernel ---------------------------------------------------------------------------------- *)
Definition dec2 (st : option hstate) (r : rec9) : row * row := (pos_row st r, vel_row st r).

Definition parts9 (box velz : Q) := particles is_header (hdr_of box velz) dec2.
Definition npart9 := n_particles is_header.

Lemma store_opt_ok o w v :
  (forall b, o = Some b -> (w < length b)%nat) ->
  store_opt o (Z.of_nat w) v = Ok (option_map (fun b => set_nth b w v) o).
Proof.
  intros H. destruct o as [b|]; cbn [store_opt option_map]; [|reflexivity].
  rewrite set_ok; [cbn [bind]; rewrite Nat2Z.id; reflexivity|]. specialize (H b eq_refl). unfold len. lia.
Qed.

Lemma p9_loop_ok box velz : forall data st w po vo,
  (forall b, po = Some b -> (w + npart9 data <= length b)%nat) ->
  (forall b, vo = Some b -> (w + npart9 data <= length b)%nat) ->
  p9_loop box velz data st (Z.of_nat w) po vo =
    Ok (Z.of_nat (w + npart9 data),
        option_map (splice w (map fst (parts9 box velz st data))) po,
        option_map (splice w (map snd (parts9 box velz st data))) vo).
Proof.
  induction data as [|r t IH]; intros st w po vo Hp Hv.
  - cbn [p9_loop]. unfold npart9, n_particles, parts9. cbn [filter length particles map].
    rewrite Nat.add_0_r. f_equal. f_equal; [f_equal|].
    + destruct po; cbn [option_map]; [rewrite splice_nil|]; reflexivity.
    + destruct vo; cbn [option_map]; [rewrite splice_nil|]; reflexivity.
  - cbn [p9_loop]. unfold npart9, n_particles, parts9 in *. cbn [filter particles] in *.
    destruct (is_header r) eqn:Hh; cbn [negb] in *.
    + apply IH; assumption.
    + cbn [length] in Hp, Hv.
      rewrite store_opt_ok by (intros b Hb; specialize (Hp b Hb); lia). cbn [bind].
      rewrite store_opt_ok by (intros b Hb; specialize (Hv b Hb); lia). cbn [bind].
      replace (Z.of_nat w + 1) with (Z.of_nat (S w)) by lia.
      rewrite IH.
      * cbn [length map fst snd dec2]. f_equal. f_equal; [f_equal; [f_equal; lia|]|].
        -- destruct po as [b|]; cbn [option_map]; [|reflexivity]. f_equal. apply splice_step.
           specialize (Hp b eq_refl). lia.
        -- destruct vo as [b|]; cbn [option_map]; [|reflexivity]. f_equal. apply splice_step.
           specialize (Hv b eq_refl). lia.
      * intros b Hb. destruct po as [b0|]; cbn [option_map] in Hb; [|discriminate]. inversion Hb; subst.
        rewrite set_nth_length. specialize (Hp b0 eq_refl). lia.
      * intros b Hb. destruct vo as [b0|]; cbn [option_map] in Hb; [|discriminate]. inversion Hb; subst.
        rewrite set_nth_length. specialize (Hv b0 eq_refl). lia.
Qed.

(* ---- the wrapper --------------------------------------------------------------------------------- *)
Definition sel_fits (n : nat) (s : osel) : Prop :=
  match s with SelGiven b => (n <= length b)%nat | _ => True end.

Definition spec_buf (l : list row) (nmax : nat) (s : osel) : option buffer :=
  match s with
  | SelAlloc => Some (l ++ repeat uninit (nmax - length l))
  | SelSkip => None
  | SelGiven b => Some (l ++ skipn (length l) b)
  end.

Definition spec_ret (l : list row) (s : osel) : oret :=
  match s with
  | SelAlloc => RetArr l
  | SelSkip => RetCount 0
  | SelGiven _ => RetCount (len l)
  end.

Lemma skipn_repeat {T} (x : T) n k : skipn k (repeat x n) = repeat x (n - k).
Proof.
  revert k; induction n as [|n IH]; intros k; [destruct k; reflexivity|].
  destruct k as [|k]; [reflexivity|]. cbn [repeat skipn Nat.sub]. apply IH.
Qed.

Lemma firstn_app_exact {T} (l r : list T) : firstn (length l) (l ++ r) = l.
Proof. rewrite firstn_app, Nat.sub_diag, firstn_all. cbn [firstn]. apply app_nil_r. Qed.

Lemma unpack_pack9_lemma : forall data box velz ps vs,
  sel_fits (npart9 data) ps -> sel_fits (npart9 data) vs ->
  let ps_rows := map fst (parts9 box velz None data) in
  let vs_rows := map snd (parts9 box velz None data) in
  unpack_pack9 data box velz ps vs =
    Ok (spec_ret ps_rows ps, spec_ret vs_rows vs, spec_buf ps_rows (length data) ps, spec_buf vs_rows (length data) vs).
Proof.
  intros data box velz ps vs Hp Hv ps_rows vs_rows. unfold unpack_pack9, p9_kernel.
  pose proof (npart_le is_header data) as Hle. fold (npart9 data) in Hle.
  assert (Lp : length ps_rows = npart9 data)
    by (unfold ps_rows, parts9; rewrite map_length; apply particles_length).
  assert (Lv : length vs_rows = npart9 data)
    by (unfold vs_rows, parts9; rewrite map_length; apply particles_length).
  change 0 with (Z.of_nat 0). rewrite p9_loop_ok.
  - cbn [bind Nat.add]. fold ps_rows vs_rows.
    assert (G : forall l s, length l = npart9 data -> sel_fits (npart9 data) s ->
              option_map (splice 0 l) (sel_buf (len data) s) = spec_buf l (length data) s
              /\ sel_ret (Z.of_nat (npart9 data)) s (option_map (splice 0 l) (sel_buf (len data) s)) = spec_ret l s).
    { intros l s Hl Hs. destruct s as [| |b]; cbn [sel_buf option_map spec_buf sel_ret spec_ret].
      - unfold splice. cbn [firstn app Nat.add]. unfold len. rewrite Nat2Z.id, skipn_repeat.
        split; [reflexivity|]. rewrite Nat2Z.id, <- Hl. rewrite firstn_app_exact. reflexivity.
      - split; reflexivity.
      - split; [reflexivity|]. unfold len. rewrite Hl. reflexivity. }
    destruct (G ps_rows ps Lp Hp) as [G1 G2]. destruct (G vs_rows vs Lv Hv) as [G3 G4].
    rewrite G2, G4, G1, G3. reflexivity.
  - intros b Hb. cbn [Nat.add]. destruct ps as [| |b0]; cbn [sel_buf] in Hb; inversion Hb; subst.
    + unfold len. rewrite Nat2Z.id, repeat_length. exact Hle.
    + exact Hp.
  - intros b Hb. cbn [Nat.add]. destruct vs as [| |b0]; cbn [sel_buf] in Hb; inversion Hb; subst.
    + unfold len. rewrite Nat2Z.id, repeat_length. exact Hle.
    + exact Hv.
Qed.
