(* C08/ProofsKppi.v — bin_kppi: k_perp is searched from scratch for every (i, j) (it is not monotone in j, so the
   range test of the j loop must `continue`), k_par^2 = kz^2 is searched incrementally along kz after its range test. *)
From Coq Require Import ZArith QArith List Bool Lia Lqa ZifyBool Permutation.
From Abacus.Common Require Import Arr Num.
From Abacus.C08 Require Import Parts Spec Lib Model Gen ProofsFold ProofsSearch ProofsPar.
Import ListNotations.
Local Open Scope Z_scope.

Ltac Zify.zify_post_hook ::= Z.to_euclidean_division_equations.

Record kppi_ok (P : kppi_parts) : Prop := {
  pk_kzlen : forall n, kp_kzlen P n = n / 2 + 1;
  pk_nbins : forall l, kp_nbins P l = l - 1;
  pk_fold_i : forall n i, 0 < n -> 0 <= i < n -> kp_fold_i P i n = f2 n i;
  pk_fold_j : forall n i, 0 < n -> 0 <= i < n -> kp_fold_j P i n = f2 n i;
  pk_kmag2 : forall a b, kp_kmag2 P a b = a + b;
  pk_kz2 : forall k, kp_kz2 P k = k ^ 2;
  pk_skip_low : forall x e, kp_skip_low P x e = Qltb x e;
  pk_low_idx : kp_low_idx P = 0;
  pk_low_exit : kp_low_exit P = EContinue;
  pk_stop_high : forall x e, kp_stop_high P x e = Qle_bool e x;
  pk_high_idx : kp_high_idx P = -1;
  pk_high_exit : kp_high_exit P = EContinue;      (* k_perp is NOT monotone in j *)
  pk_adv_k : forall x e, kp_adv_k P x e = Qltb e x;
  pk_kidx : forall b, kp_kidx P b = b + 1;
  pk_kstep : forall b, kp_kstep P b = b + 1;
  pk_adv_pi : forall x e, kp_adv_pi P x e = Qltb e x;
  pk_piidx : forall b, kp_piidx P b = b + 1;
  pk_pistep : forall b, kp_pistep P b = b + 1;
  pk_stop_pi : forall x e, kp_stop_pi P x e = Qle_bool e x;
  pk_pihigh_idx : kp_pihigh_idx P = -1;
  pk_pihigh_exit : kp_pihigh_exit P = EBreak;     (* kz^2 IS monotone in k *)
  pk_check_first : kp_pi_check_first P = true;    (* range test before the search *)
  pk_mult : forall n k, kp_mult P k n = smult n k;
  pk_wmult : forall n k w, kp_wmult P k n w = smult n k * w;
}.

Lemma kppi_gen_ok : kppi_ok kppi_gen.
Proof.
  constructor; cbn [kppi_gen kp_kzlen kp_nbins kp_fold_i kp_fold_j kp_kmag2 kp_kz2 kp_skip_low kp_low_idx kp_low_exit
                    kp_stop_high kp_high_idx kp_high_exit kp_adv_k kp_kidx kp_kstep kp_adv_pi kp_piidx kp_pistep
                    kp_stop_pi kp_pihigh_idx kp_pihigh_exit kp_pi_check_first kp_mult kp_wmult].
  - intros n. unfold kppi_kzlen. lia.
  - intros l. unfold kppi_nbins. lia.
  - intros n i Hn Hi. apply kppi_fold_i_ok; assumption.
  - intros n i Hn Hi. apply kppi_fold_j_ok; assumption.
  - intros a b. unfold kppi_kmag2. lia.
  - intros k. unfold kppi_kz2. lia.
  - intros x e. reflexivity.
  - reflexivity.
  - reflexivity.
  - intros x e. reflexivity.
  - reflexivity.
  - reflexivity.
  - intros x e. reflexivity.
  - intros b. unfold kppi_kidx. lia.
  - intros b. unfold kppi_kstep. lia.
  - intros x e. reflexivity.
  - intros b. unfold kppi_piidx. lia.
  - intros b. unfold kppi_pistep. lia.
  - intros x e. reflexivity.
  - reflexivity.
  - reflexivity.
  - reflexivity.
  - intros n k. apply kppi_mult_ok.
  - intros n k w. apply kppi_wmult_ok.
Qed.

Section KPPI.
  Variable P : kppi_parts.
  Hypothesis HP : kppi_ok P.
  Variables (n : Z) (E PI : list Q) (W : list Z) (T : Z).
  Hypothesis Hn : 0 < n.
  Hypothesis HT : 0 < T.
  Hypothesis HE : incr E.
  Hypothesis HPI : incr PI.
  Hypothesis HlE : 2 <= len E.
  Hypothesis HlP : 2 <= len PI.
  Hypothesis HP0 : (qnth PI 0 <= 0)%Q.
  Hypothesis HW : len W = n * n * (n / 2 + 1).

  Let Nk := len E - 1.
  Let Npi := len PI - 1.
  Let kz := n / 2 + 1.

  Lemma pmodel_Nk : kppi_Nk P E = Nk.
  Proof. unfold kppi_Nk. rewrite (pk_nbins P HP). reflexivity. Qed.
  Lemma pmodel_kz : kppi_kz P n = kz.
  Proof. unfold kppi_kz. rewrite (pk_kzlen P HP). reflexivity. Qed.

  Lemma ind_kppi_at s k2 bk bpi b p :
    in_range E (inject_Z s) = true -> in_bin E bk (inject_Z s) = true ->
    in_range PI (inject_Z k2) = true -> in_bin PI bpi (inject_Z k2) = true ->
    0 <= bk < Nk -> 0 <= bpi < Npi -> 0 <= b < Nk -> 0 <= p < Npi ->
    ind_kppi E PI b p s k2 = if (b =? bk) && (p =? bpi) then 1 else 0.
  Proof.
    intros Hr Hb Hrp Hp Rbk Rbpi Rb Rp. unfold ind_kppi. rewrite Hr, Hrp. cbn [andb].
    destruct (in_bin E b (inject_Z s)) eqn:A; cbn [andb].
    - assert (b = bk) by (apply (in_bin_unique E b bk (inject_Z s) HE); unfold Nk in *; try lia; assumption). subst b.
      rewrite Z.eqb_refl. cbn [andb].
      destruct (in_bin PI p (inject_Z k2)) eqn:B.
      + assert (p = bpi) by (apply (in_bin_unique PI p bpi (inject_Z k2) HPI); unfold Npi in *; try lia; assumption).
        subst p. rewrite Z.eqb_refl. reflexivity.
      + destruct (p =? bpi) eqn:C; [|reflexivity]. assert (p = bpi) by lia. subst p. congruence.
    - destruct (b =? bk) eqn:C; [|reflexivity]. assert (b = bk) by lia. subst b. congruence.
  Qed.

  Lemma ind_kppi_out_k s k2 b p : in_range E (inject_Z s) = false -> ind_kppi E PI b p s k2 = 0.
  Proof. intros H. unfold ind_kppi. rewrite H. reflexivity. Qed.

  Lemma ind_kppi_out_pi s k2 b p : in_range PI (inject_Z k2) = false -> ind_kppi E PI b p s k2 = 0.
  Proof. intros H. unfold ind_kppi. rewrite H. rewrite andb_false_r. reflexivity. Qed.

  Definition pterm (s b p k : Z) : Z := smult n k * ind_kppi E PI b p s (k ^ 2).
  Definition pwterm (i j s b p k : Z) : Z := smult n k * at_half n W i j k * ind_kppi E PI b p s (k ^ 2).

  Section ROW.
    Variables (tid i j s bk : Z).
    Hypothesis Htid : 0 <= tid < T.
    Hypothesis Hi : 0 <= i < n.
    Hypothesis Hj : 0 <= j < n.
    Hypothesis Hbk : 0 <= bk < Nk.
    Hypothesis Hsr : in_range E (inject_Z s) = true.
    Hypothesis Hsb : in_bin E bk (inject_Z s) = true.

    Let z (k : Z) : Q := inject_Z (k ^ 2).

    Lemma z_mono k k' : 0 <= k -> k <= k' -> (z k <= z k')%Q.
    Proof. intros H0 H. unfold z. apply inject_Z_le. nia. Qed.

    Lemma pkloop_ok : forall m k bpi cnt ws,
      0 <= k -> k + Z.of_nat m = kz ->
      0 <= bpi -> bpi + 1 < len PI -> (bpi = 0 \/ (qnth PI bpi < z k)%Q) ->
      len cnt = T * Nk * Npi -> len ws = T * Nk * Npi ->
      exists bpi' cnt' ws',
        loop_brk m k (kppi_kbody P n E PI W T tid i j bk) (bpi, cnt, ws) = Ok (bpi', cnt', ws') /\
        adds T Nk Npi cnt cnt' (fun t b p => if t =? tid then sum_n m k (pterm s b p) else 0) /\
        adds T Nk Npi ws ws' (fun t b p => if t =? tid then sum_n m k (pwterm i j s b p) else 0).
    Proof.
      induction m as [|m IH]; intros k bpi cnt ws Hk Hkm Hb0 Hb1 Hbz Lc Lw.
      - cbn [loop_brk sum_n]. exists bpi, cnt, ws. split; [reflexivity|].
        split; apply adds_zero; intros t b p _ _ _; destruct (t =? tid); reflexivity.
      - cbn [loop_brk]. unfold kppi_kbody at 1.
        rewrite (pk_kz2 P HP). fold (z k).
        rewrite (pk_check_first P HP). rewrite (pk_pihigh_idx P HP). rewrite qlast_get by lia. cbn [bind].
        rewrite (pk_stop_pi P HP).
        assert (Hzm : (z k <= z (k + 1))%Q) by (apply z_mono; lia).
        assert (Hz0 : (0 <= z k)%Q) by (unfold z; apply (inject_Z_le 0); nia).
        destruct (Qle_bool (qlast PI) (z k)) eqn:Ahigh.
        + (* at or beyond pimax: break; kz^2 is increasing along k, nothing is dropped *)
          cbn [bind negb]. rewrite (pk_pihigh_exit P HP). cbn [goes_on bind fst snd].
          exists bpi, cnt, ws. split; [reflexivity|].
          assert (Hrest : forall k', k <= k' -> in_range PI (z k') = false).
          { intros k' Hk'. unfold in_range. qprop. assert ((z k <= z k')%Q) by (apply z_mono; lia).
            destruct (Qltb (z k') (qlast PI)) eqn:B; [|apply andb_false_r]. qprop. lra. }
          split; apply adds_zero; intros t b p _ _ _; destruct (t =? tid); try reflexivity;
            apply sum_n_zero; intros k' Hk'; [unfold pterm|unfold pwterm];
            rewrite (ind_kppi_out_pi _ _ _ _ (Hrest k' ltac:(lia))); lia.
        + qprop.
          assert (Hin : in_range PI (z k) = true).
          { unfold in_range. apply andb_true_intro. split; [apply Qle_bool_iff; lra|apply Qltb_lt; exact Ahigh]. }
          rewrite (search_ext _ _ (fun x e => Qltb e x) _ (fun b => b + 1) _ (fun b => b + 1) PI (z k) bpi
                     (pk_adv_pi P HP) (pk_piidx P HP) (pk_pistep P HP)).
          destruct (search_std (S (length PI)) PI (z k) bpi HPI Hb0 Hb1) as [bpi' [Es [B1 [B2 [B3 B4]]]]].
          { apply Qlt_le_weak. exact Ahigh. }
          { unfold len. lia. }
          unfold search_code in Es. rewrite Es. cbn [bind negb].
          assert (HbinP : in_bin PI bpi' (z k) = true).
          { apply in_bin_intro; [intros _; lra| |exact B3].
            intros Hne. destruct B4 as [->|B4]; [|exact B4]. destruct Hbz as [?|?]; [lia|assumption]. }
          rewrite pmodel_Nk. fold Npi.
          destruct (add3_spec cnt T Nk Npi tid bk bpi' (kp_mult P k n) Lc Htid Hbk) as [cnt1 [Ec1 Ac1]];
            [unfold Npi; lia|].
          unfold kppi_Npi. fold Npi. rewrite Ec1. cbn [bind].
          change (mesh_kz n) with kz. rewrite (get3_spec W n n kz i j k HW Hi Hj) by (unfold kz in *; lia). cbn [bind].
          change (nth (Z.to_nat ((i * n + j) * kz + k)) W 0) with (at_half n W i j k).
          destruct (add3_spec ws T Nk Npi tid bk bpi' (kp_wmult P k n (at_half n W i j k)) Lw Htid Hbk) as [ws1 [Ew1 Aw1]];
            [unfold Npi; lia|].
          rewrite Ew1. cbn [bind fst snd].
          destruct (IH (k + 1) bpi' cnt1 ws1) as [bpi'' [cnt' [ws' [Ev [Ac Aw]]]]]; try lia.
          { apply in_bin_elim in HbinP. destruct HbinP as [_ [L _]].
            destruct (Z.eq_dec bpi' 0) as [?|Hne]; [left; assumption|right]. specialize (L Hne). lra. }
          { destruct Ac1 as [L1 _]. lia. }
          { destruct Aw1 as [L1 _]. lia. }
          exists bpi'', cnt', ws'. split; [exact Ev|].
          assert (Hind : forall b p, 0 <= b < Nk -> 0 <= p < Npi ->
                    ind_kppi E PI b p s (k ^ 2) = if (b =? bk) && (p =? bpi') then 1 else 0).
          { intros b p Rb Rp. apply ind_kppi_at; try assumption; unfold Npi; lia. }
          split.
          * apply (adds_trans _ _ _ _ _ _ _ _ _ Ac1 Ac). intros t b p Rt Rb Rp.
            destruct (t =? tid) eqn:Et; cbn [andb]; [|reflexivity]. cbn [sum_n]. f_equal.
            unfold pterm. rewrite (Hind b p Rb Rp). rewrite (pk_mult P HP).
            destruct ((b =? bk) && (p =? bpi')); lia.
          * apply (adds_trans _ _ _ _ _ _ _ _ _ Aw1 Aw). intros t b p Rt Rb Rp.
            destruct (t =? tid) eqn:Et; cbn [andb]; [|reflexivity]. cbn [sum_n]. f_equal.
            unfold pwterm. rewrite (Hind b p Rb Rp). rewrite (pk_wmult P HP).
            destruct ((b =? bk) && (p =? bpi')); lia.
    Qed.
  End ROW.

  (* one (i, j): k_perp range tests (both `continue`), from-scratch k search, then the kz loop *)
  Lemma pjbody_ok tid i i2 j cnt ws :
    0 <= tid < T -> 0 <= i < n -> 0 <= j < n -> 0 <= i2 ->
    len cnt = T * Nk * Npi -> len ws = T * Nk * Npi ->
    exists cnt' ws', kppi_jbody P n E PI W T tid i i2 j (cnt, ws) = Ok (true, (cnt', ws')) /\
      adds T Nk Npi cnt cnt' (fun t b p => if t =? tid then sumZ 0 kz (pterm (i2 + f2 n j) b p) else 0) /\
      adds T Nk Npi ws ws' (fun t b p => if t =? tid then sumZ 0 kz (pwterm i j (i2 + f2 n j) b p) else 0).
  Proof.
    intros Htid Hi Hj Hi2 Lc Lw. unfold kppi_jbody. rewrite (pk_fold_j P HP n j Hn Hj). rewrite (pk_kmag2 P HP).
    set (s := i2 + f2 n j).
    rewrite (pk_low_idx P HP). rewrite qnth_get by lia. cbn [bind]. rewrite (pk_skip_low P HP).
    destruct (Qltb (inject_Z s) (qnth E 0)) eqn:Alow.
    - rewrite (pk_low_exit P HP). cbn [goes_on]. exists cnt, ws. split; [reflexivity|].
      assert (Hout : in_range E (inject_Z s) = false).
      { unfold in_range. qprop. destruct (Qle_bool (qnth E 0) (inject_Z s)) eqn:B; [|reflexivity]. qprop. lra. }
      split; apply adds_zero; intros t b p _ _ _; destruct (t =? tid); try reflexivity;
        apply sumZ_zero; intros k _; [unfold pterm|unfold pwterm]; rewrite (ind_kppi_out_k _ _ _ _ Hout); lia.
    - rewrite (pk_high_idx P HP). rewrite qlast_get by lia. cbn [bind]. rewrite (pk_stop_high P HP).
      destruct (Qle_bool (qlast E) (inject_Z s)) eqn:Ahigh.
      + rewrite (pk_high_exit P HP). cbn [goes_on]. exists cnt, ws. split; [reflexivity|].
        assert (Hout : in_range E (inject_Z s) = false).
        { unfold in_range. qprop. destruct (Qltb (inject_Z s) (qlast E)) eqn:B; [|apply andb_false_r]. qprop. lra. }
        split; apply adds_zero; intros t b p _ _ _; destruct (t =? tid); try reflexivity;
          apply sumZ_zero; intros k _; [unfold pterm|unfold pwterm]; rewrite (ind_kppi_out_k _ _ _ _ Hout); lia.
      + qprop.
        assert (Hin : in_range E (inject_Z s) = true).
        { unfold in_range. apply andb_true_intro. split; [apply Qle_bool_iff; exact Alow|apply Qltb_lt; exact Ahigh]. }
        rewrite (search_ext _ _ (fun x e => Qltb e x) _ (fun b => b + 1) _ (fun b => b + 1) E (inject_Z s) 0
                   (pk_adv_k P HP) (pk_kidx P HP) (pk_kstep P HP)).
        destruct (search_std (S (length E)) E (inject_Z s) 0 HE) as [bk [Es [B1 [B2 [B3 B4]]]]]; try lia.
        { apply Qlt_le_weak. exact Ahigh. }
        { unfold len. lia. }
        unfold search_code in Es. rewrite Es. cbn [bind].
        assert (HbinE : in_bin E bk (inject_Z s) = true).
        { apply in_bin_intro; [intros _; exact Alow| |exact B3].
          intros Hne. destruct B4 as [->|B4]; [lia|exact B4]. }
        rewrite pmodel_kz. cbn [fst snd].
        destruct (pkloop_ok tid i j s bk Htid Hi Hj ltac:(unfold Nk; lia) Hin HbinE (Z.to_nat kz) 0 0 cnt ws)
          as [bpi' [cnt' [ws' [Ev [Ac Aw]]]]]; try lia; try (left; reflexivity); try assumption.
        rewrite Ev. cbn [bind]. exists cnt', ws'. split; [reflexivity|].
        unfold sumZ. rewrite Z.sub_0_r. split; assumption.
  Qed.

  Definition prow (i b p : Z) : Z := sumZ 0 n (fun j => sumZ 0 kz (pterm (f2 n i + f2 n j) b p)).
  Definition pwrow (i b p : Z) : Z := sumZ 0 n (fun j => sumZ 0 kz (pwterm i j (f2 n i + f2 n j) b p)).

  Lemma pibody_ok sched i cnt ws :
    valid_sched T sched -> 0 <= i < n ->
    len cnt = T * Nk * Npi -> len ws = T * Nk * Npi ->
    exists cnt' ws', kppi_ibody P n E PI W T sched i (cnt, ws) = Ok (cnt', ws') /\
      adds T Nk Npi cnt cnt' (fun t b p => if t =? sched i then prow i b p else 0) /\
      adds T Nk Npi ws ws' (fun t b p => if t =? sched i then pwrow i b p else 0).
  Proof.
    intros Hs Hi Lc Lw. unfold kppi_ibody. rewrite (pk_fold_i P HP n i Hn Hi).
    set (tid := sched i). assert (Htid : 0 <= tid < T) by apply Hs.
    pose (Inv := fun (j : Z) (st : list Z * list Z) =>
      adds T Nk Npi cnt (fst st)
        (fun t b p => if t =? tid then sumZ 0 j (fun j' => sumZ 0 kz (pterm (f2 n i + f2 n j') b p)) else 0) /\
      adds T Nk Npi ws (snd st)
        (fun t b p => if t =? tid then sumZ 0 j (fun j' => sumZ 0 kz (pwterm i j' (f2 n i + f2 n j') b p)) else 0)).
    destruct (loop_brk_inv Inv (kppi_jbody P n E PI W T tid i (f2 n i)) (Z.to_nat n) 0 (cnt, ws)) as [[cnt' ws'] [Ev [Ac Aw]]].
    - split; cbn [fst snd]; apply adds_zero; intros t b p _ _ _; destruct (t =? tid); try reflexivity;
        apply sumZ_empty; lia.
    - intros j [c w] Hj [Ac Aw]. cbn [fst snd] in Ac, Aw.
      destruct (pjbody_ok tid i (f2 n i) j c w Htid Hi ltac:(lia) (f2_nonneg n i)) as [c' [w' [Ej [Bc Bw]]]].
      { destruct Ac as [L _]. lia. }
      { destruct Aw as [L _]. lia. }
      exists (c', w'). split; [exact Ej|]. split; cbn [fst snd].
      + apply (adds_trans _ _ _ _ _ _ _ _ _ Ac Bc). intros t b p _ _ _. destruct (t =? tid); [|reflexivity].
        rewrite (sumZ_last 0 (j + 1)) by lia. replace (j + 1 - 1) with j by lia. reflexivity.
      + apply (adds_trans _ _ _ _ _ _ _ _ _ Aw Bw). intros t b p _ _ _. destruct (t =? tid); [|reflexivity].
        rewrite (sumZ_last 0 (j + 1)) by lia. replace (j + 1 - 1) with j by lia. reflexivity.
    - replace (0 + Z.of_nat (Z.to_nat n)) with n in Ac, Aw by lia.
      exists cnt', ws'. split; [exact Ev|]. split; assumption.
  Qed.

  Lemma prow_total b p : sumZ 0 n (fun i => prow i b p) = kppi_full_count n E PI b p.
  Proof.
    unfold kppi_full_count, prow. apply sumZ_ext. intros a Ha. apply sumZ_ext. intros bb Hbb.
    symmetry. unfold kz, pterm. apply (halfmesh_1d n (fun zz => ind_kppi E PI b p (f2 n a + f2 n bb) zz) Hn).
  Qed.

  Lemma bin_kppi_ok order sched :
    valid_sched T sched -> Permutation order (range n) ->
    bin_kppi P n E PI W T order sched =
      Ok (map (fun c => kppi_full_count n E PI (c / Npi) (c mod Npi)) (range (Nk * Npi)),
          map (fun c => kppi_half_wsum n E PI W (c / Npi) (c mod Npi)) (range (Nk * Npi))).
  Proof.
    intros Hs Hperm. unfold bin_kppi, kppi_slabs. rewrite pmodel_Nk. unfold kppi_Npi. fold Npi.
    pose proof (par_reduce_ok T Nk Npi n (kppi_ibody P n E PI W T sched) sched prow pwrow HT
                  ltac:(unfold Nk; lia) ltac:(unfold Npi; lia) Hs) as Hpar.
    specialize (Hpar (fun i cnt ws Hi Lc Lw => pibody_ok sched i cnt ws Hs Hi Lc Lw) order Hperm).
    destruct (run_order order (kppi_ibody P n E PI W T sched) (zeros (T * Nk * Npi), zeros (T * Nk * Npi)))
      as [[cnt ws]| |err]; cbn [bind fst snd] in Hpar |- *; try discriminate.
    rewrite Hpar. f_equal. f_equal.
    - apply map_ext. intros c. apply prow_total.
  Qed.
End KPPI.
