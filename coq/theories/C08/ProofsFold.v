(* C08/ProofsFold.v — the frequency fold and the half-mesh multiplicities.

   fftfreq_*           characterisation of numpy.fft.fftfreq (Spec.fftfreq)
   fold_sites_ok       every regenerated fold expression (bin_kmu, bin_kppi, expand_poles_to_3d, get_smoothing,
                       get_delta_mu2) is the squared signed frequency; the kx/ky of shift_field_fft are the signed
                       frequency itself
   halfmesh_1d         sum over the full axis of g(freq^2) = sum over the stored half with multiplicities
   halfmesh_multiset   the 3-D statement (product with the identity on the first two axes) *)
From Coq Require Import ZArith QArith List Bool Lia ZifyBool.
From Abacus.Common Require Import Arr Num.
From Abacus.C08 Require Import Parts Spec Lib Gen.
Import ListNotations.
Local Open Scope Z_scope.

Ltac Zify.zify_post_hook ::= Z.to_euclidean_division_equations.

Lemma fftfreq_simpl n i : 0 < n -> fftfreq n i = if 2 * i <? n then i else i - n.
Proof.
  intros Hn. unfold fftfreq.
  destruct (i <? (n - 1) / 2 + 1) eqn:A; destruct (2 * i <? n) eqn:B; lia.
Qed.

(* the signed frequency is the representative of i modulo n in [-n/2, n/2) *)
Lemma fftfreq_char n i : 0 < n -> 0 <= i < n ->
  (fftfreq n i - i) mod n = 0 /\ - n <= 2 * fftfreq n i < n.
Proof.
  intros Hn Hi. rewrite fftfreq_simpl by exact Hn.
  destruct (2 * i <? n) eqn:B.
  - rewrite Z.sub_diag. rewrite Z.mod_0_l by lia. lia.
  - replace (i - n - i) with ((-1) * n) by lia. rewrite Z.mod_mul by lia. lia.
Qed.

Lemma f2_low n i : 0 < n -> 0 <= i -> 2 * i < n -> f2 n i = i ^ 2.
Proof. intros Hn H0 H. unfold f2. rewrite fftfreq_simpl by exact Hn. destruct (2 * i <? n) eqn:B; [reflexivity|lia]. Qed.

Lemma f2_high n i : 0 < n -> n <= 2 * i -> f2 n i = (n - i) ^ 2.
Proof.
  intros Hn H. unfold f2. rewrite fftfreq_simpl by exact Hn. destruct (2 * i <? n) eqn:B; [lia|].
  replace (i - n) with (- (n - i)) by lia. rewrite Z.pow_2_r, Z.pow_2_r. lia.
Qed.

Lemma f2_nonneg n i : 0 <= f2 n i.
Proof. unfold f2. apply Z.pow_even_nonneg. exists 1. reflexivity. Qed.

(* ---- the regenerated fold expressions ---------------------------------------------------------------- *)
Definition is_fold (f : Z -> Z -> Z) : Prop := forall n i, 0 < n -> 0 <= i < n -> f i n = f2 n i.
Definition is_freq (f : Z -> Z -> Z) : Prop := forall n i, 0 < n -> 0 <= i < n -> f i n = fftfreq n i.

Ltac fold_tac :=
  intros n i Hn Hi; unfold f2; rewrite fftfreq_simpl by exact Hn;
  match goal with |- ?f i n = _ => unfold f end;
  repeat match goal with |- context [if ?c then _ else _] => destruct c eqn:? end; try reflexivity; try lia.

Lemma kmu_fold_i_ok : is_fold kmu_fold_i.  Proof. fold_tac. Qed.
Lemma kmu_fold_j_ok : is_fold kmu_fold_j.  Proof. fold_tac. Qed.
Lemma kppi_fold_i_ok : is_fold kppi_fold_i.  Proof. fold_tac. Qed.
Lemma kppi_fold_j_ok : is_fold kppi_fold_j.  Proof. fold_tac. Qed.

Lemma fold_sites_ok : Forall is_fold fold_sites.
Proof. unfold fold_sites. repeat (apply Forall_cons; [fold_tac|]). apply Forall_nil. Qed.

Lemma freq_sites_ok : Forall is_freq freq_sites.
Proof.
  unfold freq_sites.
  repeat (apply Forall_cons;
    [intros n i Hn Hi; rewrite fftfreq_simpl by exact Hn;
     match goal with |- ?f i n = _ => unfold f end;
     repeat match goal with |- context [if ?c then _ else _] => destruct c eqn:? end; try reflexivity; lia|]).
  apply Forall_nil.
Qed.

(* the kz of shift_field_fft runs over the stored half only, where the frequency is the index *)
Lemma freq_shift_kz_ok n k : 0 < n -> 0 <= k -> k < n / 2 + 1 -> 2 * k <> n -> freq_shift_kz k n = fftfreq n k.
Proof. intros Hn H0 Hk Hny. unfold freq_shift_kz. rewrite fftfreq_simpl by exact Hn. destruct (2 * k <? n) eqn:B; lia. Qed.

(* ---- multiplicities ---------------------------------------------------------------------------------- *)
Lemma smult_pos n k : 0 < smult n k.
Proof. unfold smult. destruct ((k =? 0) || (2 * k =? n)); lia. Qed.

(* 1-D: pairing f <-> -f.  For every test function g on squared frequencies. *)
Lemma halfmesh_1d n (g : Z -> Z) : 0 < n ->
  sumZ 0 n (fun c => g (f2 n c)) = sumZ 0 (n / 2 + 1) (fun k => smult n k * g (k ^ 2)).
Proof.
  intros Hn.
  set (N := (n - 1) / 2 + 1).
  assert (HN : 1 <= N <= n) by (unfold N; lia).
  assert (HNn : N + n / 2 = n) by (unfold N; lia).
  rewrite (sumZ_split 0 N n) by lia.
  (* lower part: frequency = index *)
  rewrite (sumZ_ext 0 N (fun c => g (f2 n c)) (fun c => g (c ^ 2))).
  2:{ intros i Hi. rewrite f2_low; [reflexivity|lia|lia|unfold N in *; lia]. }
  (* upper part: frequency = index - n; mirror it onto 1 .. n/2 *)
  rewrite (sumZ_ext N n (fun c => g (f2 n c)) (fun c => g ((n - c) ^ 2))).
  2:{ intros i Hi. rewrite f2_high; [reflexivity|lia|unfold N in *; lia]. }
  rewrite (sumZ_mirror N n n (fun c => g ((n - c) ^ 2))).
  replace (n - n + 1) with 1 by lia. replace (n - N + 1) with (n / 2 + 1) by lia.
  rewrite (sumZ_ext 1 (n / 2 + 1) (fun i => g ((n - (n - i)) ^ 2)) (fun i => g (i ^ 2))).
  2:{ intros i Hi. do 2 f_equal. lia. }
  rewrite (sumZ_first 0 N) by lia.
  rewrite (sumZ_first 0 (n / 2 + 1)) by lia.
  replace (0 + 1) with 1 by lia.
  assert (H0 : smult n 0 = 1) by (unfold smult; reflexivity). rewrite H0.
  destruct (Z.eq_dec (n mod 2) 0) as [Hev|Hodd].
  - (* even mesh: N = n/2, the Nyquist plane k = n/2 is its own mirror *)
    assert (HNe : N = n / 2) by (unfold N; lia).
    rewrite HNe.
    rewrite (sumZ_last 1 (n / 2 + 1)) by lia.
    rewrite (sumZ_last 1 (n / 2 + 1) (fun k => smult n k * g (k ^ 2))) by lia.
    replace (n / 2 + 1 - 1) with (n / 2) by lia.
    rewrite (sumZ_ext 1 (n / 2) (fun k => smult n k * g (k ^ 2)) (fun k => 2 * g (k ^ 2))).
    2:{ intros k Hk. unfold smult. destruct (k =? 0) eqn:A; destruct (2 * k =? n) eqn:B; cbn [orb]; lia. }
    rewrite sumZ_scale.
    assert (Hs : smult n (n / 2) = 1).
    { unfold smult. destruct (n / 2 =? 0) eqn:A; destruct (2 * (n / 2) =? n) eqn:B; cbn [orb]; lia. }
    rewrite Hs. lia.
  - (* odd mesh: N = n/2 + 1, no self-conjugate plane besides k = 0 *)
    assert (HNo : N = n / 2 + 1) by (unfold N; lia).
    rewrite HNo.
    rewrite (sumZ_ext 1 (n / 2 + 1) (fun k => smult n k * g (k ^ 2)) (fun k => 2 * g (k ^ 2))).
    2:{ intros k Hk. unfold smult. destruct (k =? 0) eqn:A; destruct (2 * k =? n) eqn:B; cbn [orb]; lia. }
    rewrite sumZ_scale. lia.
Qed.

(* 3-D: the multiset of (kx^2, ky^2, kz^2) over the full n^3 mesh equals that over the stored half mesh
   (n, n, n/2+1) with multiplicity smult — stated for every test function on the triple *)
Lemma halfmesh_3d n (g : Z -> Z -> Z -> Z) : 0 < n ->
  sumZ 0 n (fun a => sumZ 0 n (fun b => sumZ 0 n (fun c => g (f2 n a) (f2 n b) (f2 n c)))) =
  sumZ 0 n (fun a => sumZ 0 n (fun b => sumZ 0 (n / 2 + 1) (fun k => smult n k * g (f2 n a) (f2 n b) (k ^ 2)))).
Proof.
  intros Hn. apply sumZ_ext. intros a Ha. apply sumZ_ext. intros b Hb.
  apply (halfmesh_1d n (fun z => g (f2 n a) (f2 n b) z) Hn).
Qed.

(* multiplicity form: how often a given triple of squares occurs *)
Definition tri_eq (u v w x y z : Z) : Z := b2z ((u =? x) && (v =? y) && (w =? z)).

Lemma halfmesh_multiplicity n u v w : 0 < n ->
  sumZ 0 n (fun a => sumZ 0 n (fun b => sumZ 0 n (fun c => tri_eq u v w (f2 n a) (f2 n b) (f2 n c)))) =
  sumZ 0 n (fun a => sumZ 0 n (fun b => sumZ 0 (n / 2 + 1) (fun k =>
     smult n k * tri_eq u v w (f2 n a) (f2 n b) (k ^ 2)))).
Proof. intros Hn. apply (halfmesh_3d n (tri_eq u v w) Hn). Qed.

(* the multiplicity expressions regenerated from the four accumulation statements of bin_kmu and the two of bin_kppi *)
Lemma kmu_mult_ok n k : kmu_mult k n = smult n k.
Proof. unfold kmu_mult, smult. repeat match goal with |- context [(?a =? ?b)] => destruct (a =? b) eqn:? end; cbn [orb andb negb]; lia. Qed.
Lemma kmu_wmult_ok n k w : kmu_wmult k n w = smult n k * w.
Proof. unfold kmu_wmult, smult. repeat match goal with |- context [(?a =? ?b)] => destruct (a =? b) eqn:? end; cbn [orb andb negb]; lia. Qed.
Lemma kmu_kavg_mult_ok n k w dk : kmu_kavg_mult k n w dk = smult n k * (w * dk).
Proof. unfold kmu_kavg_mult, smult. repeat match goal with |- context [(?a =? ?b)] => destruct (a =? b) eqn:? end; cbn [orb andb negb]; lia. Qed.
Lemma kmu_pole_mult_ok n k w pw : kmu_pole_mult k n w pw = smult n k * (w * pw).
Proof. unfold kmu_pole_mult, smult. repeat match goal with |- context [(?a =? ?b)] => destruct (a =? b) eqn:? end; cbn [orb andb negb]; lia. Qed.
Lemma kppi_mult_ok n k : kppi_mult k n = smult n k.
Proof. unfold kppi_mult, smult. repeat match goal with |- context [(?a =? ?b)] => destruct (a =? b) eqn:? end; cbn [orb andb negb]; lia. Qed.
Lemma kppi_wmult_ok n k w : kppi_wmult k n w = smult n k * w.
Proof. unfold kppi_wmult, smult. repeat match goal with |- context [(?a =? ?b)] => destruct (a =? b) eqn:? end; cbn [orb andb negb]; lia. Qed.
