(* C08/Model.v — executable model of the loops of bin_kmu and bin_kppi (abacusnbody/analysis/power_spectrum.py),
   statement by statement, over the generated pieces of Parts.v / Gen.v.  No proofs here.

   * arrays are flat row-major lists with a per-axis bounds check (numba semantics: one negative wrap, else Oob),
     so `= Ok ...` also states that no edge, mesh or accumulator access is out of bounds;
   * squared edges are exact rationals (the float32 values the kernel computes), mesh values are integers
     (dyadic values scaled); floating-point rounding is not modelled;
   * the `while x > edges[b+1]: b += 1` searches carry explicit fuel (out of fuel = OtherError, excluded by the theorems);
   * `continue` / `break` are modelled by loop bodies that return whether the loop goes on;
   * the prange loop is an arbitrary execution order `order` of the iterations together with an arbitrary
     assignment `sched : i -> thread id`; each iteration accumulates into the slab of its thread
     (`counts[tid, bk, bmu] += ...`), and the slabs are summed afterwards (`counts.sum(axis=0)`). *)
From Coq Require Import ZArith QArith List Bool.
From Abacus.Common Require Import Arr Num.
From Abacus.C08 Require Import Parts Spec.
Import ListNotations.
Local Open Scope Z_scope.
Local Open Scope res_scope.

(* ---- checked flat indexing ------------------------------------------------------------------------ *)
Definition norm_ax (d i : Z) : res Z :=
  if (0 <=? i) && (i <? d) then Ok i
  else if (- d <=? i) && (i <? 0) then Ok (i + d)
  else Oob.

Definition flat3 (d0 d1 d2 i0 i1 i2 : Z) : res Z :=
  a <- norm_ax d0 i0 ;; b <- norm_ax d1 i1 ;; c <- norm_ax d2 i2 ;; Ok ((a * d1 + b) * d2 + c).

Definition get3 {A} (arr : list A) (d0 d1 d2 i0 i1 i2 : Z) : res A :=
  q <- flat3 d0 d1 d2 i0 i1 i2 ;; get arr q.

(* arr[i0, i1, i2] += v *)
Definition add3 (arr : list Z) (d0 d1 d2 i0 i1 i2 v : Z) : res (list Z) :=
  q <- flat3 d0 d1 d2 i0 i1 i2 ;; upd arr q (fun x => x + v).

Definition zeros (n : Z) : list Z := repeat 0 (Z.to_nat n).

(* the stored half of an n^3 rfft mesh has shape (n, n, n // 2 + 1) — a fact about the caller's array, independent of
   the kernels' own `kzlen` *)
Definition mesh_kz (n1d : Z) : Z := n1d / 2 + 1.

(* ---- control ------------------------------------------------------------------------------------- *)
(* while adv x edges[idx b]: b = step b *)
Fixpoint search (fuel : nat) (adv : Q -> Q -> bool) (idx step : Z -> Z) (E : list Q) (x : Q) (b : Z) : res Z :=
  match fuel with
  | O => Raise OtherError
  | S f => e <- get E (idx b) ;; if adv x e then search f adv idx step E x (step b) else Ok b
  end.

(* for k in range(k0, k0 + m): (go_on, s) = body k s; if not go_on: break *)
Fixpoint loop_brk {S} (m : nat) (k : Z) (body : Z -> S -> res (bool * S)) (s : S) : res S :=
  match m with
  | O => Ok s
  | Datatypes.S m' => bind (body k s) (fun r => if fst r then loop_brk m' (k + 1) body (snd r) else Ok (snd r))
  end.

(* the prange loop: iterations in an arbitrary order *)
Fixpoint run_order {S} (order : list Z) (body : Z -> S -> res S) (s : S) : res S :=
  match order with
  | [] => Ok s
  | i :: t => bind (body i s) (run_order t body)
  end.

(* arr.sum(axis=0) for arr of shape (T, B) *)
Definition reduce (T B : Z) (arr : list Z) : list Z :=
  map (fun c => sumZ 0 T (fun t => nth (Z.to_nat (t * B + c)) arr 0)) (range B).

(* ---- bin_kmu ------------------------------------------------------------------------------------- *)
Section KMU.
  Variable P : kmu_parts.
  Variables (n1d : Z) (E M : list Q) (W : list Z) (T : Z).

  Definition kmu_Nk := ku_nbins P (len E).
  Definition kmu_Nmu := ku_nbins P (len M).
  Definition kmu_kz := ku_kzlen P n1d.

  Definition kst := (Z * Z * list Z * list Z)%type.   (* bk, bmu, counts, weighted_counts *)

  Definition kmu_kbody (tid i j i2 j2 k : Z) (st : kst) : res (bool * kst) :=
    let '(bk, bmu, cnt, ws) := st in
    let kk := ku_kmag2 P i2 j2 k in
    let kmag2 := inject_Z kk in
    let mu2 := ku_mu2 P kk k in
    e0 <- get E (ku_low_idx P) ;;
    if ku_skip_low P kmag2 e0 then Ok (goes_on (ku_low_exit P), st) else
    el <- get E (ku_high_idx P) ;;
    if ku_stop_high P kmag2 el then Ok (goes_on (ku_high_exit P), st) else
    bk <- search (S (length E)) (ku_adv_k P) (ku_kidx P) (ku_kstep P) E kmag2 bk ;;
    bmu <- search (S (length M)) (ku_adv_mu P) (ku_muidx P) (ku_mustep P) M mu2 bmu ;;
    cnt <- add3 cnt T kmu_Nk kmu_Nmu tid bk bmu (ku_mult P k n1d) ;;
    w <- get3 W n1d n1d (mesh_kz n1d) i j k ;;
    ws <- add3 ws T kmu_Nk kmu_Nmu tid bk bmu (ku_wmult P k n1d w) ;;
    Ok (true, (bk, bmu, cnt, ws)).

  Definition kmu_jbody (tid i i2 j : Z) (acc : list Z * list Z) : res (list Z * list Z) :=
    let j2 := ku_fold_j P j n1d in
    st <- loop_brk (Z.to_nat kmu_kz) 0 (kmu_kbody tid i j i2 j2) (0, 0, fst acc, snd acc) ;;
    let '(_, _, cnt, ws) := st in Ok (cnt, ws).

  Definition kmu_ibody (sched : Z -> Z) (i : Z) (acc : list Z * list Z) : res (list Z * list Z) :=
    let tid := sched i in
    let i2 := ku_fold_i P i n1d in
    for_range 0 n1d (kmu_jbody tid i i2) acc.

  Definition kmu_slabs (order : list Z) (sched : Z -> Z) : res (list Z * list Z) :=
    let sz := T * kmu_Nk * kmu_Nmu in
    run_order order (kmu_ibody sched) (zeros sz, zeros sz).

  (* reduced integer outputs: counts (N_mode, shape Nk x Nmu) and the per-bin sums of the mesh value *)
  Definition bin_kmu (order : list Z) (sched : Z -> Z) : res (list Z * list Z) :=
    '(cnt, ws) <- kmu_slabs order sched ;;
    Ok (reduce T (kmu_Nk * kmu_Nmu) cnt, reduce T (kmu_Nk * kmu_Nmu) ws).
End KMU.

(* the trailing part of bin_kmu on the reduced arrays (shape Nk x Nmu, flat):
   counts_poles = counts.sum(axis=1); the l = 0 pole is weighted_counts.sum(axis=1) / counts_poles;
   wedge means are weighted_counts / counts where counts != 0 *)
Definition row_sum (Nmu : Z) (arr : list Z) (b : Z) : Z := sumZ 0 Nmu (fun m => nth (Z.to_nat (b * Nmu + m)) arr 0).

Definition mean_of (s c : Z) : Q := if c =? 0 then inject_Z s else (inject_Z s / inject_Z c)%Q.

Definition kmu_means (cnt ws : list Z) : list Q := map (fun p => mean_of (snd p) (fst p)) (combine cnt ws).
Definition kmu_counts_poles (Nk Nmu : Z) (cnt : list Z) : list Z := map (row_sum Nmu cnt) (range Nk).
Definition kmu_pole0 (Nk Nmu : Z) (cnt ws : list Z) : list Q :=
  map (fun b => mean_of (row_sum Nmu ws b) (row_sum Nmu cnt b)) (range Nk).

(* ---- bin_kppi ------------------------------------------------------------------------------------ *)
Section KPPI.
  Variable P : kppi_parts.
  Variables (n1d : Z) (E PI : list Q) (W : list Z) (T : Z).

  Definition kppi_Nk := kp_nbins P (len E).
  Definition kppi_Npi := len PI - 1.            (* piedges2 has Npi + 1 entries *)
  Definition kppi_kz := kp_kzlen P n1d.

  Definition pst := (Z * list Z * list Z)%type.   (* bpi, counts, weighted_counts *)

  Definition kppi_kbody (tid i j bk k : Z) (st : pst) : res (bool * pst) :=
    let '(bpi, cnt, ws) := st in
    let kz2 := inject_Z (kp_kz2 P k) in
    let fuel := S (length PI) in
    r <- (if kp_pi_check_first P then
            el <- get PI (kp_pihigh_idx P) ;;
            if kp_stop_pi P kz2 el then Ok (false, bpi)
            else bpi <- search fuel (kp_adv_pi P) (kp_piidx P) (kp_pistep P) PI kz2 bpi ;; Ok (true, bpi)
          else
            bpi <- search fuel (kp_adv_pi P) (kp_piidx P) (kp_pistep P) PI kz2 bpi ;;
            el <- get PI (kp_pihigh_idx P) ;;
            if kp_stop_pi P kz2 el then Ok (false, bpi) else Ok (true, bpi)) ;;
    let '(inside, bpi) := r in
    if negb inside then Ok (goes_on (kp_pihigh_exit P), (bpi, cnt, ws)) else
    cnt <- add3 cnt T kppi_Nk kppi_Npi tid bk bpi (kp_mult P k n1d) ;;
    w <- get3 W n1d n1d (mesh_kz n1d) i j k ;;
    ws <- add3 ws T kppi_Nk kppi_Npi tid bk bpi (kp_wmult P k n1d w) ;;
    Ok (true, (bpi, cnt, ws)).

  Definition kppi_jbody (tid i i2 j : Z) (acc : list Z * list Z) : res (bool * (list Z * list Z)) :=
    let j2 := kp_fold_j P j n1d in
    let kmag2 := inject_Z (kp_kmag2 P i2 j2) in
    e0 <- get E (kp_low_idx P) ;;
    if kp_skip_low P kmag2 e0 then Ok (goes_on (kp_low_exit P), acc) else
    el <- get E (kp_high_idx P) ;;
    if kp_stop_high P kmag2 el then Ok (goes_on (kp_high_exit P), acc) else
    bk <- search (S (length E)) (kp_adv_k P) (kp_kidx P) (kp_kstep P) E kmag2 0 ;;
    st <- loop_brk (Z.to_nat kppi_kz) 0 (kppi_kbody tid i j bk) (0, fst acc, snd acc) ;;
    let '(_, cnt, ws) := st in Ok (true, (cnt, ws)).

  Definition kppi_ibody (sched : Z -> Z) (i : Z) (acc : list Z * list Z) : res (list Z * list Z) :=
    let tid := sched i in
    let i2 := kp_fold_i P i n1d in
    loop_brk (Z.to_nat n1d) 0 (kppi_jbody tid i i2) acc.

  Definition kppi_slabs (order : list Z) (sched : Z -> Z) : res (list Z * list Z) :=
    let sz := T * kppi_Nk * kppi_Npi in
    run_order order (kppi_ibody sched) (zeros sz, zeros sz).

  Definition bin_kppi (order : list Z) (sched : Z -> Z) : res (list Z * list Z) :=
    '(cnt, ws) <- kppi_slabs order sched ;;
    Ok (reduce T (kppi_Nk * kppi_Npi) cnt, reduce T (kppi_Nk * kppi_Npi) ws).
End KPPI.

(* ---- P_n(x, n): Legendre polynomial of even order n as a polynomial in x = mu^2 ------------------------ *)
Fixpoint zfact (n : nat) : Z := match n with O => 1 | S n' => Z.of_nat n * zfact n' end.
Definition choose (n k : Z) : Z := zfact (Z.to_nat n) / (zfact (Z.to_nat k) * zfact (Z.to_nat (n - k))).

Fixpoint qpow (x : Q) (e : nat) : Q := match e with O => 1%Q | S e' => (x * qpow x e')%Q end.

(* sum_{k=0}^{n//2} (-1)^k C(n,k) C(2n-2k,n) x^((n-2k)/2) * 0.5^n   (n even: the exponents are integers).
   [pn_coeffs n] lists, term by term of the loop, the signed integer factor and the exponent of x. *)
Definition pn_coeffs (n : Z) : list (Z * nat) :=
  map (fun k => ((if k mod 2 =? 0 then 1 else -1) * (choose n k * choose (2 * n - 2 * k) n), Z.to_nat ((n - 2 * k) / 2)))
      (range (n / 2 + 1)).

Definition P_n_even (x : Q) (n : Z) : Q :=
  (fold_left Qplus (map (fun ce => (inject_Z (fst ce) * qpow x (snd ce))%Q) (pn_coeffs n)) 0%Q
   * qpow (1 # 2) (Z.to_nat n))%Q.

(* P_n for either parity, as a polynomial in mu >= 0 with x = mu^2: the loop adds  +-C(n,k) C(2n-2k,n) * x ** (0.5*(n-2k)),
   and x ** ((n-2k)/2) = mu^(n-2k) (half-integer powers of x for odd n).  [pn_terms n]: signed factor and the exponent
   of mu, term by term of the loop. *)
Definition pn_terms (n : Z) : list (Z * nat) :=
  map (fun k => ((if k mod 2 =? 0 then 1 else -1) * (choose n k * choose (2 * n - 2 * k) n), Z.to_nat (n - 2 * k)))
      (range (n / 2 + 1)).

Definition P_n_mu (mu : Q) (n : Z) : Q :=
  (fold_left Qplus (map (fun ce => (inject_Z (fst ce) * qpow mu (snd ce))%Q) (pn_terms n)) 0%Q
   * qpow (1 # 2) (Z.to_nat n))%Q.
