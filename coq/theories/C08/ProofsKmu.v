(* C08/ProofsKmu.v — bin_kmu: the loops accumulate, into the slab of the executing thread, exactly the
   multiplicity-weighted indicator of the bin of every half-mesh mode; summed over slabs this is the full-mesh count.

   The lemmas are proved for every instance P of the generated record that satisfies [kmu_ok]; [kmu_gen_ok] shows
   that what the translator regenerated from the source does. *)
From Coq Require Import ZArith QArith List Bool Lia Lqa ZifyBool Permutation.
From Abacus.Common Require Import Arr Num.
From Abacus.C08 Require Import Parts Spec Lib Model Gen ProofsFold ProofsSearch.
Import ListNotations.
Local Open Scope Z_scope.

Ltac Zify.zify_post_hook ::= Z.to_euclidean_division_equations.

Record kmu_ok (P : kmu_parts) : Prop := {
  ok_kzlen : forall n, ku_kzlen P n = n / 2 + 1;
  ok_nbins : forall l, ku_nbins P l = l - 1;
  ok_fold_i : forall n i, 0 < n -> 0 <= i < n -> ku_fold_i P i n = f2 n i;
  ok_fold_j : forall n i, 0 < n -> 0 <= i < n -> ku_fold_j P i n = f2 n i;
  ok_kmag2 : forall a b k, ku_kmag2 P a b k = a + b + k ^ 2;
  ok_mu2 : forall kk k, (ku_mu2 P kk k == mu2q kk (k ^ 2))%Q;
  ok_skip_low : forall x e, ku_skip_low P x e = Qltb x e;
  ok_low_idx : ku_low_idx P = 0;
  ok_low_exit : ku_low_exit P = EContinue;
  ok_stop_high : forall x e, ku_stop_high P x e = Qle_bool e x;
  ok_high_idx : ku_high_idx P = -1;
  ok_high_exit : ku_high_exit P = EBreak;
  ok_adv_k : forall x e, ku_adv_k P x e = Qltb e x;
  ok_kidx : forall b, ku_kidx P b = b + 1;
  ok_kstep : forall b, ku_kstep P b = b + 1;
  ok_adv_mu : forall x e, ku_adv_mu P x e = Qltb e x;
  ok_muidx : forall b, ku_muidx P b = b + 1;
  ok_mustep : forall b, ku_mustep P b = b + 1;
  ok_mult : forall n k, ku_mult P k n = smult n k;
  ok_wmult : forall n k w, ku_wmult P k n w = smult n k * w;
}.

(* what was regenerated from bin_kmu satisfies it *)
Lemma kmu_gen_ok : kmu_ok kmu_gen.
Proof.
  constructor; cbn [kmu_gen ku_kzlen ku_nbins ku_fold_i ku_fold_j ku_kmag2 ku_mu2 ku_skip_low ku_low_idx ku_low_exit
                    ku_stop_high ku_high_idx ku_high_exit ku_adv_k ku_kidx ku_kstep ku_adv_mu ku_muidx ku_mustep
                    ku_mult ku_wmult].
  - intros n. unfold kmu_kzlen. lia.
  - intros l. unfold kmu_nbins. lia.
  - intros n i Hn Hi. apply kmu_fold_i_ok; assumption.
  - intros n i Hn Hi. apply kmu_fold_j_ok; assumption.
  - intros a b k. unfold kmu_kmag2. lia.
  - intros kk k. unfold kmu_mu2, mu2q. destruct (0 <? kk); [|reflexivity]. unfold Qdiv. ring.
  - intros x e. reflexivity.
  - reflexivity.
  - reflexivity.
  - intros x e. reflexivity.
  - reflexivity.
  - reflexivity.
  - intros x e. reflexivity.
  - intros b. unfold kmu_kidx. lia.
  - intros b. unfold kmu_kstep. lia.
  - intros x e. reflexivity.
  - intros b. unfold kmu_muidx. lia.
  - intros b. unfold kmu_mustep. lia.
  - intros n k. apply kmu_mult_ok.
  - intros n k w. apply kmu_wmult_ok.
Qed.

Section KMU.
  Variable P : kmu_parts.
  Hypothesis HP : kmu_ok P.
  Variables (n : Z) (E M : list Q) (W : list Z) (T : Z).
  Hypothesis Hn : 0 < n.
  Hypothesis HT : 0 < T.
  Hypothesis HE : incr E.
  Hypothesis HM : incr M.
  Hypothesis HlE : 2 <= len E.
  Hypothesis HlM : 2 <= len M.
  Hypothesis HM0 : (qnth M 0 <= 0)%Q.
  Hypothesis HM1 : (1 <= qlast M)%Q.
  Hypothesis HW : len W = n * n * (n / 2 + 1).

  Let Nk := len E - 1.
  Let Nmu := len M - 1.
  Let kz := n / 2 + 1.

  Lemma model_Nk : kmu_Nk P E = Nk.
  Proof. unfold kmu_Nk. rewrite (ok_nbins P HP). reflexivity. Qed.
  Lemma model_Nmu : kmu_Nmu P M = Nmu.
  Proof. unfold kmu_Nmu. rewrite (ok_nbins P HP). reflexivity. Qed.
  Lemma model_kz : kmu_kz P n = kz.
  Proof. unfold kmu_kz. rewrite (ok_kzlen P HP). reflexivity. Qed.

  (* the bin indicator once the bins of the mode are known *)
  Lemma ind_kmu_at s k2 bk bmu b mm :
    in_range E (inject_Z (s + k2)) = true ->
    in_bin E bk (inject_Z (s + k2)) = true -> in_bin M bmu (mu2q (s + k2) k2) = true ->
    0 <= bk < Nk -> 0 <= bmu < Nmu -> 0 <= b < Nk -> 0 <= mm < Nmu ->
    ind_kmu E M b mm s k2 = if (b =? bk) && (mm =? bmu) then 1 else 0.
  Proof.
    intros Hr Hb Hm Rbk Rbmu Rb Rmm. unfold ind_kmu. rewrite Hr. cbn [andb].
    destruct (in_bin E b (inject_Z (s + k2))) eqn:A; cbn [andb].
    - assert (b = bk) by (apply (in_bin_unique E b bk (inject_Z (s + k2)) HE); unfold Nk in *; try lia; assumption). subst b.
      rewrite Z.eqb_refl. cbn [andb].
      destruct (in_bin M mm (mu2q (s + k2) k2)) eqn:B.
      + assert (mm = bmu) by (apply (in_bin_unique M mm bmu (mu2q (s + k2) k2) HM); unfold Nmu in *; try lia; assumption). subst mm.
        rewrite Z.eqb_refl. reflexivity.
      + destruct (mm =? bmu) eqn:C; [|reflexivity]. assert (mm = bmu) by lia. subst mm. congruence.
    - destruct (b =? bk) eqn:C; [|reflexivity]. assert (b = bk) by lia. subst b. congruence.
  Qed.

  Lemma ind_kmu_out s k2 b mm : in_range E (inject_Z (s + k2)) = false -> ind_kmu E M b mm s k2 = 0.
  Proof. intros H. unfold ind_kmu. rewrite H. reflexivity. Qed.

  Section ROW.
    Variables (tid i j i2 j2 : Z).
    Hypothesis Htid : 0 <= tid < T.
    Hypothesis Hi : 0 <= i < n.
    Hypothesis Hj : 0 <= j < n.
    Hypothesis Hi2 : 0 <= i2.
    Hypothesis Hj2 : 0 <= j2.

    Let s := i2 + j2.
    Let x (k : Z) : Q := inject_Z (s + k ^ 2).
    Let y (k : Z) : Q := mu2q (s + k ^ 2) (k ^ 2).

    Definition cterm (b mm k : Z) : Z := smult n k * ind_kmu E M b mm s (k ^ 2).
    Definition wterm (b mm k : Z) : Z := smult n k * at_half n W i j k * ind_kmu E M b mm s (k ^ 2).

    Lemma x_mono k k' : 0 <= k -> k <= k' -> (x k <= x k')%Q.
    Proof. intros H0 H. unfold x. apply inject_Z_le. nia. Qed.

    (* incremental_search_correct, as the invariant of the innermost loop *)
    Lemma kloop_ok : forall m k bk bmu cnt ws,
      0 <= k -> k + Z.of_nat m = kz ->
      0 <= bk -> bk + 1 < len E -> (bk = 0 \/ (qnth E bk < x k)%Q) ->
      0 <= bmu -> bmu + 1 < len M -> (bmu = 0 \/ (qnth M bmu < y k)%Q) ->
      len cnt = T * Nk * Nmu -> len ws = T * Nk * Nmu ->
      exists bk' bmu' cnt' ws',
        loop_brk m k (kmu_kbody P n E M W T tid i j i2 j2) (bk, bmu, cnt, ws) = Ok (bk', bmu', cnt', ws') /\
        adds T Nk Nmu cnt cnt' (fun t b mm => if t =? tid then sum_n m k (cterm b mm) else 0) /\
        adds T Nk Nmu ws ws' (fun t b mm => if t =? tid then sum_n m k (wterm b mm) else 0).
    Proof.
      induction m as [|m IH]; intros k bk bmu cnt ws Hk Hkm Hbk0 Hbk1 Hbkx Hbm0 Hbm1 Hbmy Lc Lw.
      - cbn [loop_brk sum_n]. exists bk, bmu, cnt, ws. split; [reflexivity|].
        split; apply adds_zero; intros t b mm _ _ _; destruct (t =? tid); reflexivity.
      - cbn [loop_brk]. unfold kmu_kbody at 1.
        rewrite (ok_kmag2 P HP). fold s. fold (x k).
        rewrite (ok_low_idx P HP). rewrite qnth_get by lia. cbn [bind].
        rewrite (ok_skip_low P HP).
        assert (Hxm : (x k <= x (k + 1))%Q) by (apply x_mono; lia).
        assert (Hym : (y k <= y (k + 1))%Q) by (unfold y; apply mu2q_mono; unfold s; lia).
        destruct (Qltb (x k) (qnth E 0)) eqn:Alow.
        + (* below the first edge: continue *)
          rewrite (ok_low_exit P HP). cbn [goes_on bind fst snd].
          destruct (IH (k + 1) bk bmu cnt ws) as [bk' [bmu' [cnt' [ws' [Ev [Ac Aw]]]]]]; try lia; try assumption.
          { destruct Hbkx as [?|Hlt]; [left; assumption|right; lra]. }
          { destruct Hbmy as [?|Hlt]; [left; assumption|right; lra]. }
          exists bk', bmu', cnt', ws'. split; [exact Ev|].
          assert (Hout : in_range E (x k) = false).
          { unfold in_range. qprop. destruct (Qle_bool (qnth E 0) (x k)) eqn:B; [|reflexivity]. qprop. lra. }
          split; [apply (adds_ext _ _ _ _ _ _ _ Ac)|apply (adds_ext _ _ _ _ _ _ _ Aw)];
            intros t b mm _ _ _; destruct (t =? tid); try reflexivity; cbn [sum_n];
            [unfold cterm at 1|unfold wterm at 1]; unfold x in Hout; rewrite (ind_kmu_out _ _ _ _ Hout); lia.
        + rewrite (ok_high_idx P HP). rewrite qlast_get by lia. cbn [bind].
          rewrite (ok_stop_high P HP).
          destruct (Qle_bool (qlast E) (x k)) eqn:Ahigh.
          * (* at or beyond the last edge: break; kmag2 is non-decreasing along k, nothing is dropped *)
            rewrite (ok_high_exit P HP). cbn [goes_on bind fst snd].
            exists bk, bmu, cnt, ws. split; [reflexivity|].
            assert (Hrest : forall k', k <= k' -> in_range E (x k') = false).
            { intros k' Hk'. unfold in_range. qprop. assert ((x k <= x k')%Q) by (apply x_mono; lia).
              destruct (Qltb (x k') (qlast E)) eqn:B; [|apply andb_false_r]. qprop. lra. }
            split; apply adds_zero; intros t b mm _ _ _; destruct (t =? tid); try reflexivity;
              apply sum_n_zero; intros k' Hk'; [unfold cterm|unfold wterm];
              rewrite (ind_kmu_out _ _ _ _ (Hrest k' ltac:(lia))); lia.
          * (* inside the binned range *)
            qprop.
            assert (Hin : in_range E (x k) = true).
            { unfold in_range. apply andb_true_intro. split; [apply Qle_bool_iff; exact Alow|apply Qltb_lt; exact Ahigh]. }
            (* k search *)
            rewrite (search_ext _ _ (fun x e => Qltb e x) _ (fun b => b + 1) _ (fun b => b + 1) E (x k) bk
                       (ok_adv_k P HP) (ok_kidx P HP) (ok_kstep P HP)).
            destruct (search_std (S (length E)) E (x k) bk HE Hbk0 Hbk1) as [bk' [Es [B1 [B2 [B3 B4]]]]].
            { apply Qlt_le_weak. exact Ahigh. }
            { unfold len. lia. }
            unfold search_code in Es. rewrite Es. cbn [bind].
            assert (HbinE : in_bin E bk' (x k) = true).
            { apply in_bin_intro; [intros _; exact Alow| |exact B3].
              intros Hne. destruct B4 as [->|B4]; [|exact B4]. destruct Hbkx as [?|?]; [lia|assumption]. }
            (* mu search *)
            set (ym := ku_mu2 P (s + k ^ 2) k).
            assert (Hyeq : (ym == y k)%Q) by (unfold ym, y; apply (ok_mu2 P HP)).
            assert (Hyb : (0 <= y k <= 1)%Q) by (unfold y; apply mu2q_bounds; unfold s; nia).
            rewrite (search_ext _ _ (fun x e => Qltb e x) _ (fun b => b + 1) _ (fun b => b + 1) M ym bmu
                       (ok_adv_mu P HP) (ok_muidx P HP) (ok_mustep P HP)).
            destruct (search_std (S (length M)) M ym bmu HM Hbm0 Hbm1) as [bmu' [Ems [C1 [C2 [C3 C4]]]]].
            { lra. }
            { unfold len. lia. }
            unfold search_code in Ems. rewrite Ems. cbn [bind].
            assert (HbinM : in_bin M bmu' (y k) = true).
            { apply in_bin_intro; [intros _; lra| |lra].
              intros Hne. destruct C4 as [->|C4]; [|lra]. destruct Hbmy as [?|?]; [lia|assumption]. }
            (* accumulate *)
            rewrite model_Nk, model_Nmu.
            destruct (add3_spec cnt T Nk Nmu tid bk' bmu' (ku_mult P k n) Lc Htid) as [cnt1 [Ec1 Ac1]];
              [unfold Nk; lia|unfold Nmu; lia|].
            rewrite Ec1. cbn [bind].
            change (mesh_kz n) with kz. rewrite (get3_spec W n n kz i j k HW Hi Hj) by (unfold kz in *; lia). cbn [bind].
            change (nth (Z.to_nat ((i * n + j) * kz + k)) W 0) with (at_half n W i j k).
            destruct (add3_spec ws T Nk Nmu tid bk' bmu' (ku_wmult P k n (at_half n W i j k)) Lw Htid) as [ws1 [Ew1 Aw1]];
              [unfold Nk; lia|unfold Nmu; lia|].
            rewrite Ew1. cbn [bind fst snd].
            destruct (IH (k + 1) bk' bmu' cnt1 ws1) as [bk'' [bmu'' [cnt' [ws' [Ev [Ac Aw]]]]]]; try lia.
            { apply in_bin_elim in HbinE. destruct HbinE as [_ [L _]].
              destruct (Z.eq_dec bk' 0) as [?|Hne]; [left; assumption|right]. specialize (L Hne). lra. }
            { apply in_bin_elim in HbinM. destruct HbinM as [_ [L _]].
              destruct (Z.eq_dec bmu' 0) as [?|Hne]; [left; assumption|right]. specialize (L Hne). lra. }
            { destruct Ac1 as [L1 _]. lia. }
            { destruct Aw1 as [L1 _]. lia. }
            exists bk'', bmu'', cnt', ws'. split; [exact Ev|].
            assert (Hind : forall b mm, 0 <= b < Nk -> 0 <= mm < Nmu ->
                      ind_kmu E M b mm s (k ^ 2) = if (b =? bk') && (mm =? bmu') then 1 else 0).
            { intros b mm Rb Rm. apply ind_kmu_at; try assumption; unfold Nk, Nmu; lia. }
            split.
            -- apply (adds_trans _ _ _ _ _ _ _ _ _ Ac1 Ac). intros t b mm Rt Rb Rm.
               destruct (t =? tid) eqn:Et; cbn [andb]; [|reflexivity]. cbn [sum_n]. f_equal.
               unfold cterm. rewrite (Hind b mm Rb Rm). rewrite (ok_mult P HP).
               destruct ((b =? bk') && (mm =? bmu')); lia.
            -- apply (adds_trans _ _ _ _ _ _ _ _ _ Aw1 Aw). intros t b mm Rt Rb Rm.
               destruct (t =? tid) eqn:Et; cbn [andb]; [|reflexivity]. cbn [sum_n]. f_equal.
               unfold wterm. rewrite (Hind b mm Rb Rm). rewrite (ok_wmult P HP).
               destruct ((b =? bk') && (mm =? bmu')); lia.
    Qed.
  End ROW.

  (* ---- one (i, j) row -------------------------------------------------------------------------------- *)
  Lemma jbody_ok tid i i2 j cnt ws :
    0 <= tid < T -> 0 <= i < n -> 0 <= j < n -> 0 <= i2 ->
    len cnt = T * Nk * Nmu -> len ws = T * Nk * Nmu ->
    exists cnt' ws', kmu_jbody P n E M W T tid i i2 j (cnt, ws) = Ok (cnt', ws') /\
      adds T Nk Nmu cnt cnt' (fun t b mm => if t =? tid then sumZ 0 kz (cterm i2 (f2 n j) b mm) else 0) /\
      adds T Nk Nmu ws ws' (fun t b mm => if t =? tid then sumZ 0 kz (wterm i j i2 (f2 n j) b mm) else 0).
  Proof.
    intros Htid Hi Hj Hi2 Lc Lw. unfold kmu_jbody. rewrite (ok_fold_j P HP n j Hn Hj). rewrite model_kz.
    cbn [fst snd].
    destruct (kloop_ok tid i j i2 (f2 n j) Htid Hi Hj Hi2 (f2_nonneg n j) (Z.to_nat kz) 0 0 0 cnt ws)
      as [bk' [bmu' [cnt' [ws' [Ev [Ac Aw]]]]]]; try lia; try (left; reflexivity); try assumption.
    rewrite Ev. cbn [bind]. exists cnt', ws'. split; [reflexivity|].
    unfold sumZ. rewrite Z.sub_0_r. split; assumption.
  Qed.

  (* ---- one iteration of the parallel loop -------------------------------------------------------------- *)
  Definition crow (i b mm : Z) : Z := sumZ 0 n (fun j => sumZ 0 kz (cterm (f2 n i) (f2 n j) b mm)).
  Definition wrow (i b mm : Z) : Z := sumZ 0 n (fun j => sumZ 0 kz (wterm i j (f2 n i) (f2 n j) b mm)).

  Lemma ibody_ok sched i cnt ws :
    valid_sched T sched -> 0 <= i < n ->
    len cnt = T * Nk * Nmu -> len ws = T * Nk * Nmu ->
    exists cnt' ws', kmu_ibody P n E M W T sched i (cnt, ws) = Ok (cnt', ws') /\
      adds T Nk Nmu cnt cnt' (fun t b mm => if t =? sched i then crow i b mm else 0) /\
      adds T Nk Nmu ws ws' (fun t b mm => if t =? sched i then wrow i b mm else 0).
  Proof.
    intros Hs Hi Lc Lw. unfold kmu_ibody. rewrite (ok_fold_i P HP n i Hn Hi).
    set (tid := sched i). assert (Htid : 0 <= tid < T) by apply Hs.
    pose (Inv := fun (j : Z) (st : list Z * list Z) =>
      adds T Nk Nmu cnt (fst st)
        (fun t b mm => if t =? tid then sumZ 0 j (fun j' => sumZ 0 kz (cterm (f2 n i) (f2 n j') b mm)) else 0) /\
      adds T Nk Nmu ws (snd st)
        (fun t b mm => if t =? tid then sumZ 0 j (fun j' => sumZ 0 kz (wterm i j' (f2 n i) (f2 n j') b mm)) else 0)).
    destruct (for_range_inv Inv 0 n (kmu_jbody P n E M W T tid i (f2 n i)) (cnt, ws)) as [[cnt' ws'] [Ev [Ac Aw]]].
    - lia.
    - split; cbn [fst snd]; apply adds_zero; intros t b mm _ _ _; destruct (t =? tid); try reflexivity;
        apply sumZ_empty; lia.
    - intros j [c w] Hj [Ac Aw]. cbn [fst snd] in Ac, Aw.
      destruct (jbody_ok tid i (f2 n i) j c w Htid Hi Hj (f2_nonneg n i)) as [c' [w' [Ej [Bc Bw]]]].
      { destruct Ac as [L _]. lia. }
      { destruct Aw as [L _]. lia. }
      exists (c', w'). split; [exact Ej|]. split; cbn [fst snd].
      + apply (adds_trans _ _ _ _ _ _ _ _ _ Ac Bc). intros t b mm _ _ _. destruct (t =? tid); [|reflexivity].
        rewrite (sumZ_last 0 (j + 1)) by lia. replace (j + 1 - 1) with j by lia. reflexivity.
      + apply (adds_trans _ _ _ _ _ _ _ _ _ Aw Bw). intros t b mm _ _ _. destruct (t =? tid); [|reflexivity].
        rewrite (sumZ_last 0 (j + 1)) by lia. replace (j + 1 - 1) with j by lia. reflexivity.
    - exists cnt', ws'. split; [exact Ev|]. split; assumption.
  Qed.

  (* ---- the parallel loop: any execution order, any assignment of iterations to threads ------------------ *)
  Lemma slabs_ok sched : valid_sched T sched -> forall order cnt ws,
    Forall (fun i => 0 <= i < n) order ->
    len cnt = T * Nk * Nmu -> len ws = T * Nk * Nmu ->
    exists cnt' ws', run_order order (kmu_ibody P n E M W T sched) (cnt, ws) = Ok (cnt', ws') /\
      adds T Nk Nmu cnt cnt' (fun t b mm => lsum order (fun i => if t =? sched i then crow i b mm else 0)) /\
      adds T Nk Nmu ws ws' (fun t b mm => lsum order (fun i => if t =? sched i then wrow i b mm else 0)).
  Proof.
    intros Hs. induction order as [|i order IH]; intros cnt ws Hall Lc Lw.
    - cbn [run_order]. exists cnt, ws. split; [reflexivity|]. split; apply adds_zero; reflexivity.
    - cbn [run_order]. inversion Hall as [|i' o' Hi Hrest]; subst.
      destruct (ibody_ok sched i cnt ws Hs Hi Lc Lw) as [c1 [w1 [E1 [Ac1 Aw1]]]].
      rewrite E1. cbn [bind].
      destruct (IH c1 w1 Hrest) as [c2 [w2 [E2 [Ac2 Aw2]]]].
      { destruct Ac1 as [L _]. lia. }
      { destruct Aw1 as [L _]. lia. }
      exists c2, w2. split; [exact E2|]. split.
      + apply (adds_trans _ _ _ _ _ _ _ _ _ Ac1 Ac2). intros t b mm _ _ _. reflexivity.
      + apply (adds_trans _ _ _ _ _ _ _ _ _ Aw1 Aw2). intros t b mm _ _ _. reflexivity.
  Qed.

  (* summing the slabs: the thread assignment drops out *)
  Lemma reduce_lsum sched order (arr : list Z) (R : Z -> Z -> Z -> Z) :
    valid_sched T sched ->
    (forall t b mm, 0 <= t < T -> 0 <= b < Nk -> 0 <= mm < Nmu ->
       at3 arr Nk Nmu t b mm = lsum order (fun i => if t =? sched i then R i b mm else 0)) ->
    reduce T (Nk * Nmu) arr = map (fun c => lsum order (fun i => R i (c / Nmu) (c mod Nmu))) (range (Nk * Nmu)).
  Proof.
    intros Hs Hat. unfold reduce. apply map_ext_in. intros c Hc. apply in_range_list in Hc.
    assert (HNmu : 0 < Nmu) by (unfold Nmu; lia).
    assert (Hb : 0 <= c / Nmu < Nk).
    { split; [apply Z.div_pos; lia|]. apply Z.div_lt_upper_bound; [lia|]. rewrite Z.mul_comm. lia. }
    assert (Hm : 0 <= c mod Nmu < Nmu) by (apply Z.mod_pos_bound; lia).
    rewrite (sumZ_ext 0 T _ (fun t => lsum order (fun i => if t =? sched i then R i (c / Nmu) (c mod Nmu) else 0))).
    2:{ intros t Ht. rewrite <- (Hat t (c / Nmu) (c mod Nmu) Ht Hb Hm). unfold at3. do 2 f_equal.
        rewrite (Z.div_mod c Nmu) at 1 by lia. ring. }
    rewrite lsum_sumZ_swap. apply lsum_ext. intros i _.
    apply sumZ_single. apply Hs.
  Qed.

  Definition spec_cnt (c : Z) : Z := kmu_full_count n E M (c / Nmu) (c mod Nmu).
  Definition spec_ws (c : Z) : Z := kmu_half_wsum n E M W (c / Nmu) (c mod Nmu).

  Lemma crow_total b mm : sumZ 0 n (fun i => crow i b mm) = kmu_full_count n E M b mm.
  Proof.
    unfold kmu_full_count, crow. apply sumZ_ext. intros a Ha. apply sumZ_ext. intros bb Hbb.
    symmetry. unfold kz, cterm. apply (halfmesh_1d n (fun z => ind_kmu E M b mm (f2 n a + f2 n bb) z) Hn).
  Qed.

  Lemma wrow_total b mm : sumZ 0 n (fun i => wrow i b mm) = kmu_half_wsum n E M W b mm.
  Proof. reflexivity. Qed.

  (* bin_kmu_counts / bin_means (half-mesh form) / thread_independent in one statement: for every execution order
     and every thread assignment the result is Ok (no access out of bounds, no search out of fuel) and the reduced
     arrays are the specification's *)
  Lemma bin_kmu_ok order sched :
    valid_sched T sched -> Permutation order (range n) ->
    bin_kmu P n E M W T order sched =
      Ok (map spec_cnt (range (Nk * Nmu)), map spec_ws (range (Nk * Nmu))).
  Proof.
    intros Hs Hperm. unfold bin_kmu, kmu_slabs. rewrite model_Nk, model_Nmu.
    assert (Hsz : 0 <= T * Nk * Nmu) by (unfold Nk, Nmu; nia).
    destruct (slabs_ok sched Hs order (zeros (T * Nk * Nmu)) (zeros (T * Nk * Nmu))) as [cnt [ws [Ev [Ac Aw]]]].
    { apply Forall_forall. intros i Hin. apply in_range_list. apply (Permutation_in _ Hperm Hin). }
    { apply zeros_len. exact Hsz. }
    { apply zeros_len. exact Hsz. }
    rewrite Ev. cbn [bind]. f_equal. f_equal.
    - rewrite (reduce_lsum sched order cnt crow Hs).
      2:{ intros t b mm Ht Hb Hm. destruct Ac as [_ Ac]. rewrite (Ac t b mm Ht Hb Hm). unfold at3. rewrite zeros_nth. lia. }
      apply map_ext. intros c. rewrite (lsum_perm _ _ _ Hperm). rewrite lsum_range. apply crow_total.
    - rewrite (reduce_lsum sched order ws wrow Hs).
      2:{ intros t b mm Ht Hb Hm. destruct Aw as [_ Aw]. rewrite (Aw t b mm Ht Hb Hm). unfold at3. rewrite zeros_nth. lia. }
      apply map_ext. intros c. rewrite (lsum_perm _ _ _ Hperm). rewrite lsum_range. apply wrow_total.
  Qed.
End KMU.
