(* C08/ProofsThreads.v — thread bookkeeping of bin_kmu / bin_kppi (the event lists regenerated in Gen.v): the accumulators
   have a slab for every thread id the prange loop can produce, whatever thread count is in force on entry. *)
From Coq Require Import ZArith List String Lia.
From Abacus.C08 Require Import Parts Gen.
Import ListNotations.
Local Open Scope Z_scope.

(* ---- thread bookkeeping: the accumulators have a slab for every thread id the prange loop can produce ------------- *)
Ltac tev_tac :=
  intros entry req He Hr; cbn;
  do 2 eexists; split; [reflexivity | split; [discriminate | repeat constructor; lia]].

Lemma kmu_threads_covered_lemma : threads_covered kmu_tevents.
Proof. tev_tac. Qed.

Lemma kppi_threads_covered_lemma : threads_covered kppi_tevents.
Proof. tev_tac. Qed.

(* a frozen fragment that is NOT covered (allocation sized by the thread count in force on entry, the loop run with the
   requested one): entry = 2, nthread = 5 leaves thread ids 2, 3, 4 without a slab *)
Example stale_thread_count_not_covered :
  ~ threads_covered [TGet "saved"%string; TGet "nworker"%string; TAlloc "nworker"%string; TSet "nthread"%string; TLoop].
Proof.
  intros H. destruct (H 2 5 ltac:(lia) ltac:(lia)) as [c [al [E [_ F]]]].
  cbn in E. inversion E; subst. inversion F; subst. lia.
Qed.
