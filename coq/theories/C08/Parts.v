(* C08/Parts.v — the interface between the generated text (Gen.v) and the hand-written loop model (Model.v).

   Everything in bin_kmu / bin_kppi where a one-token edit silently changes which modes are counted is a field
   of these records and is regenerated from the source on every run: the frequency-fold expressions, the
   multiplicity expressions, |k|^2 and mu^2, the three comparison directions with the edge index each one reads,
   the kind of loop exit (continue / break) taken by each range test, and — for bin_kppi — the loop that carries
   the k-range test and the order of the pi search and the pi range test.  No proofs here. *)
From Coq Require Import ZArith QArith List String.
Import ListNotations.
Local Open Scope Z_scope.

Inductive exit_kind := EContinue | EBreak.

(* does the enclosing loop go on after this exit? *)
Definition goes_on (e : exit_kind) : bool := match e with EContinue => true | EBreak => false end.

Record kmu_parts := {
  ku_kzlen : Z -> Z;                 (* n1d |-> n1d // 2 + 1 *)
  ku_nbins : Z -> Z;                 (* len(edges) |-> number of bins *)
  ku_fold_i : Z -> Z -> Z;           (* i n1d |-> i2 *)
  ku_fold_j : Z -> Z -> Z;           (* j n1d |-> j2 *)
  ku_kmag2 : Z -> Z -> Z -> Z;       (* i2 j2 k |-> the integer under dtype(...) *)
  ku_mu2 : Z -> Z -> Q;              (* kmag2 k |-> mu2 *)
  ku_skip_low : Q -> Q -> bool;      (* kmag2 e |-> `kmag2 < e` *)
  ku_low_idx : Z;
  ku_low_exit : exit_kind;
  ku_stop_high : Q -> Q -> bool;     (* kmag2 e |-> `kmag2 >= e` *)
  ku_high_idx : Z;
  ku_high_exit : exit_kind;
  ku_adv_k : Q -> Q -> bool;         (* kmag2 e |-> `kmag2 > e` *)
  ku_kidx : Z -> Z;                  (* bk |-> bk + 1, the edge read by the search *)
  ku_kstep : Z -> Z;                 (* bk |-> bk + 1, the increment *)
  ku_adv_mu : Q -> Q -> bool;
  ku_muidx : Z -> Z;
  ku_mustep : Z -> Z;
  ku_mult : Z -> Z -> Z;             (* k n1d |-> increment of counts *)
  ku_wmult : Z -> Z -> Z -> Z;       (* k n1d w |-> increment of weighted_counts *)
}.

Record kppi_parts := {
  kp_kzlen : Z -> Z;
  kp_nbins : Z -> Z;
  kp_fold_i : Z -> Z -> Z;
  kp_fold_j : Z -> Z -> Z;
  kp_kmag2 : Z -> Z -> Z;            (* i2 j2 |-> k_perp^2 *)
  kp_kz2 : Z -> Z;                   (* k |-> k_par^2 *)
  kp_skip_low : Q -> Q -> bool;
  kp_low_idx : Z;
  kp_low_exit : exit_kind;
  kp_stop_high : Q -> Q -> bool;
  kp_high_idx : Z;
  kp_high_exit : exit_kind;          (* exit of the j loop taken when k_perp is beyond the last edge *)
  kp_adv_k : Q -> Q -> bool;
  kp_kidx : Z -> Z;
  kp_kstep : Z -> Z;
  kp_adv_pi : Q -> Q -> bool;
  kp_piidx : Z -> Z;
  kp_pistep : Z -> Z;
  kp_stop_pi : Q -> Q -> bool;       (* kz2 e |-> `kz2 >= e` *)
  kp_pihigh_idx : Z;
  kp_pihigh_exit : exit_kind;
  kp_pi_check_first : bool;          (* is the pi range test executed before the pi search? *)
  kp_mult : Z -> Z -> Z;
  kp_wmult : Z -> Z -> Z -> Z;
}.

(* ---- the thread-count bookkeeping of a kernel whose per-thread accumulators are indexed by numba.get_thread_id() ----

   numba keeps ONE process-wide current thread count: numba.set_num_threads(v) assigns it, numba.get_num_threads()
   reads it, a prange loop runs with thread ids 0 .. current-1.  What matters for `acc[tid, ...] += ...` is the ORDER of
   these events relative to the allocation of the accumulators, so that order is regenerated from the source:
   the top-level statements of the kernel up to its prange loop, reduced to the four kinds of event below. *)
Inductive tev :=
| TSet (v : string)      (* numba.set_num_threads(v) *)
| TGet (v : string)      (* v = numba.get_num_threads() *)
| TAlloc (v : string)    (* <accumulator indexed by tid> = np.zeros((v, ...)) *)
| TLoop.                 (* the prange loop *)

Definition tenv := list (string * Z).
Fixpoint tlookup (env : tenv) (v : string) : Z :=
  match env with
  | [] => 0
  | (k, x) :: r => if String.eqb k v then x else tlookup r v
  end.

(* returns the thread count the loop runs with and the first dimensions of the accumulators allocated before it *)
Fixpoint run_tev (evs : list tev) (cur : Z) (env : tenv) (allocs : list Z) : option (Z * list Z) :=
  match evs with
  | [] => None
  | TSet v :: r => run_tev r (tlookup env v) env allocs
  | TGet v :: r => run_tev r cur ((v, cur) :: env) allocs
  | TAlloc v :: r => run_tev r cur env (tlookup env v :: allocs)
  | TLoop :: _ => Some (cur, allocs)
  end.

(* for every thread count in force when the kernel is entered (left behind by whatever numba code ran before) and every
   requested nthread, each accumulator has at least as many slabs as the loop has threads: tid < first dimension *)
Definition threads_covered (evs : list tev) : Prop :=
  forall entry req, 1 <= entry -> 1 <= req ->
  exists c al, run_tev evs entry [("nthread"%string, req)] [] = Some (c, al) /\ al <> [] /\ Forall (fun a => c <= a) al.
