(* C08/ProofsPn.v — the ingredients of P_n regenerated from power_spectrum.py (Gen.v: the factorial table, the range guard of
   `factorial`, n_choose_k as a quotient of table entries, the loop range, the integer factor, the parity test and the
   exponent) against the hand-written transcription Model.pn_terms that the Legendre theorems are about. *)
From Coq Require Import ZArith List Bool Lia.
From Abacus.Common Require Import Arr.
From Abacus.C08 Require Import Parts Spec Model Gen.
Import ListNotations.
Local Open Scope Z_scope.

Ltac Zify.zify_post_hook ::= Z.to_euclidean_division_equations.

(* the table holds 0!, 1!, ..., 20! *)
Lemma fact_table_correct_lemma : gen_fact_table = map (fun n => zfact (Z.to_nat n)) (range 21).
Proof. vm_compute. reflexivity. Qed.

(* `factorial` rejects exactly the arguments outside the table *)
Lemma fact_guard_lemma : forall n, gen_fact_guard n = false <-> 0 <= n < len gen_fact_table.
Proof.
  intros n. unfold gen_fact_guard. change (len gen_fact_table) with 21.
  destruct (20 <? n) eqn:A; destruct (n <? 0) eqn:B; cbn [orb]; split; intros H; try discriminate; try lia; try reflexivity.
Qed.

(* n_choose_k on the table is the binomial coefficient of the model, wherever `factorial` accepts its arguments *)
Definition choose_ok (n k : Z) : bool := gen_choose n k =? choose n k.

Lemma gen_choose_correct_lemma : forall n k, 0 <= k <= n -> n <= 20 -> gen_choose n k = choose n k.
Proof.
  assert (H : forallb (fun n => forallb (fun k => choose_ok n k) (range (n + 1))) (range 21) = true) by (vm_compute; reflexivity).
  intros n k Hk Hn. rewrite forallb_forall in H.
  assert (In n (range 21)) as Hin.
  { unfold range. apply in_map_iff. exists (Z.to_nat n). split; [lia|]. apply in_seq. lia. }
  specialize (H n Hin). rewrite forallb_forall in H.
  assert (In k (range (n + 1))) as Hik.
  { unfold range. apply in_map_iff. exists (Z.to_nat k). split; [lia|]. apply in_seq. lia. }
  specialize (H k Hik). unfold choose_ok in H. lia.
Qed.

(* the loop of P_n, term by term: the regenerated range, factor, parity and exponent give Model.pn_terms for every order
   the documentation supports (0..10: all factorial arguments stay inside the table) *)
Definition gen_pn_terms (n : Z) : list (Z * nat) :=
  map (fun k => ((if gen_pn_even k then 1 else -1) * gen_pn_factor n k, Z.to_nat (gen_pn_twice_exp n k))) (range (gen_pn_range n)).

Lemma pn_terms_regenerated_lemma : forall l, In l [0; 1; 2; 3; 4; 5; 6; 7; 8; 9; 10] -> gen_pn_terms l = pn_terms l.
Proof.
  intros l Hl. cbn [In] in Hl.
  repeat (destruct Hl as [<-|Hl]; [vm_compute; reflexivity|]). destruct Hl.
Qed.

(* inside the loop every factorial argument is accepted by the guard, for the supported orders *)
Lemma pn_factorials_in_table_lemma : forall l k, 0 <= l <= 10 -> 0 <= k < gen_pn_range l ->
  gen_fact_guard l = false /\ gen_fact_guard k = false /\ gen_fact_guard (l - k) = false /\
  gen_fact_guard (2 * l - 2 * k) = false /\ gen_fact_guard (2 * l - 2 * k - l) = false.
Proof.
  intros l k Hl Hk. unfold gen_pn_range in Hk.
  repeat split; apply fact_guard_lemma; change (len gen_fact_table) with 21; lia.
Qed.
