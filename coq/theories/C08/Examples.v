(* C08/Examples.v — non-vacuity of the hypotheses of Properties.v on concrete, non-trivial inputs, and regression values. *)
From Coq Require Import ZArith QArith List Bool Lia Permutation.
From Abacus.Common Require Import Arr Num.
From Abacus.C08 Require Import Parts Spec Lib Model Gen ProofsSearch Proofs.
Import ListNotations.
Local Open Scope Z_scope.

(* squared edges of  k in {0.5, 1.5, 2.5, 3.5} k_f  and  mu in {0, 1/2, 1} *)
Definition exE : list Q := [1 # 4; 9 # 4; 25 # 4; 49 # 4]%Q.
Definition exM : list Q := [0; 1 # 4; 1]%Q.
Definition exPI : list Q := [0; 1; 4; 9]%Q.
Definition exW (n : Z) : list Z := map (fun q => q mod 8) (range (n * n * (n / 2 + 1))).

Example hyp_incr_E : incr exE.  Proof. apply incrb_incr. reflexivity. Qed.
Example hyp_incr_M : incr exM.  Proof. apply incrb_incr. reflexivity. Qed.
Example hyp_incr_PI : incr exPI.  Proof. apply incrb_incr. reflexivity. Qed.
Example hyp_len_E : 2 <= len exE.  Proof. vm_compute. discriminate. Qed.
Example hyp_len_M : 2 <= len exM.  Proof. vm_compute. discriminate. Qed.
Example hyp_mu_from_0 : (qnth exM 0 <= 0)%Q.  Proof. vm_compute. discriminate. Qed.
Example hyp_mu_to_1 : (1 <= qlast exM)%Q.  Proof. vm_compute. discriminate. Qed.
Example hyp_pi_from_0 : (qnth exPI 0 <= 0)%Q.  Proof. vm_compute. discriminate. Qed.
Example hyp_mesh_shape : len (exW 5) = 5 * 5 * (5 / 2 + 1).  Proof. reflexivity. Qed.
Example hyp_sched : valid_sched 3 (fun i => i mod 3).
Proof. intros i. apply Z.mod_pos_bound. lia. Qed.
Example hyp_order : Permutation [3; 0; 4; 1; 2] (range 5).
Proof.
  change (range 5) with ([0; 1; 2] ++ 3 :: [4]).
  apply Permutation_trans with (3 :: [0; 1; 2] ++ [4]); [|apply Permutation_middle].
  apply perm_skip. cbn [app]. apply perm_skip.
  change [1; 2; 4] with ([1; 2] ++ 4 :: []). change [4; 1; 2] with (4 :: [1; 2] ++ []).
  apply Permutation_middle.
Qed.
Example hyp_search_sequence : nondecreasing [1; 1; 2; 5 # 1; 6 # 1]%Q /\
  Forall (fun x => (qnth exE 0 <= x)%Q /\ (x <= qlast exE)%Q) [1; 1; 2; 5 # 1; 6 # 1]%Q.
Proof.
  split; [cbn; repeat split; discriminate|].
  repeat constructor; vm_compute; discriminate.
Qed.
Example hyp_search_member : In gen_search_mu [gen_search_k; gen_search_mu; gen_search_kperp; gen_search_pi].
Proof. right. left. reflexivity. Qed.

(* regression values (n = 5: odd mesh; n = 4: even mesh with a Nyquist plane; every mode of the full mesh in range) *)
Definition allE : list Q := [0; 100 # 1]%Q.
Example ex_total_odd :
  bin_kmu kmu_gen 5 allE [0; 1]%Q (exW 5) 2 (range 5) (fun i => i mod 2) = Ok ([125], kmu_spec_wsums 5 allE [0; 1]%Q (exW 5)).
Proof. vm_compute. reflexivity. Qed.
Example ex_total_even :
  fst (match bin_kmu kmu_gen 4 allE [0; 1]%Q (exW 4) 3 (range 4) (fun i => i mod 3) with Ok r => r | _ => ([], []) end) = [64].
Proof. vm_compute. reflexivity. Qed.
Example ex_bins_odd :
  bin_kmu kmu_gen 5 exE exM (exW 5) 3 [3; 0; 4; 1; 2] (fun i => i mod 3) =
  Ok (kmu_spec_counts 5 exE exM, kmu_spec_wsums 5 exE exM (exW 5)).
Proof. vm_compute. reflexivity. Qed.
Example ex_bins_values : kmu_spec_counts 5 exE exM = [8; 10; 36; 26; 12; 32].
Proof. vm_compute. reflexivity. Qed.
Example ex_kppi_even :
  bin_kppi kppi_gen 4 allE exPI (exW 4) 2 (rev (range 4)) (fun i => i mod 2) =
  Ok (kppi_spec_counts 4 allE exPI, kppi_spec_wsums 4 allE exPI (exW 4)).
Proof. vm_compute. reflexivity. Qed.
Example ex_kppi_values : kppi_spec_counts 4 allE exPI = [48; 16; 0].
Proof. vm_compute. reflexivity. Qed.
Example ex_search_carry : run_search gen_search_k exE [1; 1; 2; 5 # 1; 6 # 1]%Q 0 = Ok [0; 0; 0; 1; 1].
Proof. vm_compute. reflexivity. Qed.
(* outside the preconditions the model reports the out-of-bounds read: mu edges ending below 1 *)
Example ex_mu_short_oob : bin_kmu kmu_gen 2 allE [0; 1 # 4]%Q (exW 2) 1 (range 2) (fun _ => 0) = Oob.
Proof. vm_compute. reflexivity. Qed.

(* extended theorems: a mesh that is not symmetric under (a, b) -> (-a, -b), an odd and an even size *)
Example ex_hermitian_odd : kmu_full_wsum 5 exE exM (exW 5) 1 1 = kmu_half_wsum 5 exE exM (exW 5) 1 1.
Proof. vm_compute. reflexivity. Qed.
Example ex_hermitian_even : kmu_full_wsum 4 allE [0; 1]%Q (exW 4) 0 0 = kmu_half_wsum 4 allE [0; 1]%Q (exW 4) 0 0.
Proof. vm_compute. reflexivity. Qed.
Example ex_pn4 : (P_n_even (1 # 3) 4 == -7 # 18)%Q.
Proof. vm_compute. reflexivity. Qed.

(* hypotheses of break_drops_nothing / thread_independent: slab arrays of the right size, a second valid schedule *)
Example hyp_slab_len : len (zeros (3 * (len exE - 1) * (len exM - 1))) = 3 * (len exE - 1) * (len exM - 1).
Proof. reflexivity. Qed.
Example hyp_sched2 : valid_sched 16 (fun i => (i * 16) / 5 mod 16).
Proof. intros i. apply Z.mod_pos_bound. lia. Qed.
Example hyp_pole_row : 0 <= 1 < len exE - 1.
Proof. vm_compute. split; [discriminate|reflexivity]. Qed.
