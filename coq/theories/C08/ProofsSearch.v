(* C08/ProofsSearch.v — the incremental bin search, bins as intervals, flat accumulators.

   search_std        along the code's `while x > edges[b+1]: b += 1`, started from a bin whose lower edge is below x
                     and with x not beyond the last edge: terminates, never reads past the last edge, and returns
                     the bin whose interval contains x
   in_bin_unique     bins of strictly increasing edges are disjoint
   add3_spec/adds    effect of `acc[t, b, m] += v` on a flat accumulator, compositional *)
From Coq Require Import ZArith QArith List Bool Lia Lqa ZifyBool.
From Abacus.Common Require Import Arr Num.
From Abacus.C08 Require Import Parts Spec Lib Model.
Import ListNotations.
Local Open Scope Z_scope.

(* ---- edges ------------------------------------------------------------------------------------------- *)
Lemma qnth_get E b : 0 <= b < len E -> get E b = Ok (qnth E b).
Proof. intros H. unfold qnth. apply get_ok_nth. exact H. Qed.

Lemma qlast_get E : 0 < len E -> get E (-1) = Ok (qlast E).
Proof.
  intros H. unfold qlast, qnth. rewrite (get_neg_nth E (-1) 0%Q) by lia.
  do 2 f_equal. lia.
Qed.

Lemma incr_le E a b : incr E -> 0 <= a -> a <= b -> b < len E -> (qnth E a <= qnth E b)%Q.
Proof.
  intros HI Ha Hab Hb. destruct (Z.eq_dec a b) as [->|Hne]; [apply Qle_refl|].
  apply Qlt_le_weak. apply HI; lia.
Qed.

Lemma search_ext fuel : forall adv adv' idx idx' step step' E x b,
  (forall x e, adv x e = adv' x e) -> (forall b, idx b = idx' b) -> (forall b, step b = step' b) ->
  search fuel adv idx step E x b = search fuel adv' idx' step' E x b.
Proof.
  induction fuel as [|f IH]; intros adv adv' idx idx' step step' E x b Ha Hi Hs; cbn [search]; [reflexivity|].
  rewrite Hi. destruct (get E (idx' b)) as [e| |err]; cbn [bind]; try reflexivity.
  rewrite Ha. destruct (adv' x e); [|reflexivity]. rewrite Hs. apply IH; assumption.
Qed.

(* the code's search:  while x > E[b+1]: b += 1 *)
Definition search_code (fuel : nat) (E : list Q) (x : Q) (b : Z) : res Z :=
  search fuel (fun x e => Qltb e x) (fun b => b + 1) (fun b => b + 1) E x b.

Lemma search_std : forall fuel E x b,
  incr E -> 0 <= b -> b + 1 < len E -> (x <= qlast E)%Q ->
  len E - 1 - b <= Z.of_nat fuel ->
  exists b', search_code fuel E x b = Ok b'
    /\ b <= b' /\ b' + 1 < len E /\ (x <= qnth E (b' + 1))%Q /\ (b' = b \/ (qnth E b' < x)%Q).
Proof.
  unfold search_code.
  induction fuel as [|f IH]; intros E x b HI Hb0 Hb1 Hx Hfuel; [lia|].
  cbn [search]. rewrite qnth_get by lia. cbn [bind].
  destruct (Qltb (qnth E (b + 1)) x) eqn:A.
  - apply Qltb_lt in A.
    assert (Hnl : b + 1 <> len E - 1).
    { intros Heq. unfold qlast in Hx. rewrite <- Heq in Hx. exact (Qlt_not_le _ _ A Hx). }
    destruct (IH E x (b + 1) HI) as [b' [Es [H1 [H2 [H3 H4]]]]]; try lia; try exact Hx.
    exists b'. split; [exact Es|]. split; [lia|]. split; [exact H2|]. split; [exact H3|].
    right. destruct H4 as [->|H4]; [exact A|exact H4].
  - apply Qltb_ge in A. exists b. split; [reflexivity|]. split; [lia|]. split; [exact Hb1|]. split; [exact A|].
    left. reflexivity.
Qed.

(* ---- bins as intervals -------------------------------------------------------------------------------- *)
Lemma in_bin_intro E b x :
  (b = 0 -> (qnth E 0 <= x)%Q) -> (b <> 0 -> (qnth E b < x)%Q) -> (x <= qnth E (b + 1))%Q -> in_bin E b x = true.
Proof.
  intros H0 H1 H2. unfold in_bin. apply andb_true_intro. split.
  - destruct (b =? 0) eqn:A.
    + apply Qle_bool_iff. apply H0. lia.
    + apply Qltb_lt. apply H1. lia.
  - apply Qle_bool_iff. exact H2.
Qed.

Lemma in_bin_elim E b x : in_bin E b x = true ->
  (b = 0 -> (qnth E 0 <= x)%Q) /\ (b <> 0 -> (qnth E b < x)%Q) /\ (x <= qnth E (b + 1))%Q.
Proof.
  unfold in_bin. intros H. apply andb_prop in H. destruct H as [H1 H2]. apply Qle_bool_iff in H2.
  destruct (b =? 0) eqn:A.
  - apply Qle_bool_iff in H1. repeat split; [intros _; exact H1|intros; lia|exact H2].
  - apply Qltb_lt in H1. repeat split; [intros; lia|intros _; exact H1|exact H2].
Qed.

Lemma in_bin_unique E b b' x : incr E ->
  0 <= b -> b + 1 < len E -> 0 <= b' -> b' + 1 < len E ->
  in_bin E b x = true -> in_bin E b' x = true -> b = b'.
Proof.
  intros HI Hb0 Hb1 Hc0 Hc1 H1 H2.
  apply in_bin_elim in H1. apply in_bin_elim in H2.
  destruct H1 as [_ [L1 U1]]. destruct H2 as [_ [L2 U2]].
  destruct (Z.lt_trichotomy b b') as [Hlt|[Heq|Hgt]]; [|exact Heq|]; exfalso.
  - assert (Hle : (qnth E (b + 1) <= qnth E b')%Q) by (apply incr_le; [exact HI|lia|lia|lia]).
    assert (L := L2 ltac:(lia)). lra.
  - assert (Hle : (qnth E (b' + 1) <= qnth E b)%Q) by (apply incr_le; [exact HI|lia|lia|lia]).
    assert (L := L1 ltac:(lia)). lra.
Qed.

Lemma in_bin_Qeq E b x y : (x == y)%Q -> in_bin E b x = in_bin E b y.
Proof.
  intros H. unfold in_bin.
  assert (A : forall e, Qle_bool e x = Qle_bool e y).
  { intros e. destruct (Qle_bool e x) eqn:P; destruct (Qle_bool e y) eqn:R; try reflexivity; qprop; lra. }
  assert (B : forall e, Qltb e x = Qltb e y).
  { intros e. destruct (Qltb e x) eqn:P; destruct (Qltb e y) eqn:R; try reflexivity; qprop; lra. }
  assert (C : forall e, Qle_bool x e = Qle_bool y e).
  { intros e. destruct (Qle_bool x e) eqn:P; destruct (Qle_bool y e) eqn:R; try reflexivity; qprop; lra. }
  rewrite A, B, C. reflexivity.
Qed.

(* ---- mu^2 along kz ------------------------------------------------------------------------------------ *)
Lemma mu2q_bounds s k2 : 0 <= s -> 0 <= k2 -> (0 <= mu2q (s + k2) k2 <= 1)%Q.
Proof.
  intros Hs Hk. unfold mu2q. destruct (0 <? s + k2) eqn:A; [|split; lra].
  assert (Hp : (0 < inject_Z (s + k2))%Q) by (apply (inject_Z_lt 0); lia).
  split.
  - apply Qle_shift_div_l; [exact Hp|]. rewrite Qmult_0_l. apply (inject_Z_le 0). exact Hk.
  - apply Qle_shift_div_r; [exact Hp|]. rewrite Qmult_1_l. apply inject_Z_le. lia.
Qed.

Lemma mu2q_mono s k k' : 0 <= s -> 0 <= k -> k <= k' ->
  (mu2q (s + k ^ 2) (k ^ 2) <= mu2q (s + k' ^ 2) (k' ^ 2))%Q.
Proof.
  intros Hs Hk Hkk.
  assert (Hsq : k ^ 2 <= k' ^ 2) by nia.
  assert (H0 : 0 <= k ^ 2) by nia.
  unfold mu2q at 1. destruct (0 <? s + k ^ 2) eqn:A.
  - unfold mu2q. destruct (0 <? s + k' ^ 2) eqn:B; [|lia].
    assert (Hp : (0 < inject_Z (s + k ^ 2))%Q) by (apply (inject_Z_lt 0); lia).
    assert (Hp' : (0 < inject_Z (s + k' ^ 2))%Q) by (apply (inject_Z_lt 0); lia).
    apply Qle_shift_div_r; [exact Hp|].
    unfold Qdiv. rewrite <- Qmult_assoc. rewrite (Qmult_comm (/ _)). rewrite Qmult_assoc.
    apply Qle_shift_div_l; [exact Hp'|].
    rewrite <- !inject_Z_mult. apply inject_Z_le.
    clear A B Hp Hp'. set (a := k ^ 2) in *. set (b := k' ^ 2) in *. clearbody a b.
    assert (0 <= (b - a) * s) by (apply Z.mul_nonneg_nonneg; lia). lia.
  - apply (mu2q_bounds s (k' ^ 2)); [exact Hs|nia].
Qed.

(* ---- flat accumulators -------------------------------------------------------------------------------- *)
Definition at3 (arr : list Z) (d1 d2 t b m : Z) : Z := nth (Z.to_nat ((t * d1 + b) * d2 + m)) arr 0.

Definition adds (d0 d1 d2 : Z) (arr arr' : list Z) (D : Z -> Z -> Z -> Z) : Prop :=
  len arr' = len arr /\
  forall t b m, 0 <= t < d0 -> 0 <= b < d1 -> 0 <= m < d2 -> at3 arr' d1 d2 t b m = at3 arr d1 d2 t b m + D t b m.

Lemma adds_zero d0 d1 d2 arr D :
  (forall t b m, 0 <= t < d0 -> 0 <= b < d1 -> 0 <= m < d2 -> D t b m = 0) -> adds d0 d1 d2 arr arr D.
Proof. intros H. split; [reflexivity|]. intros t b m Ht Hb Hm. rewrite H by assumption. lia. Qed.

Lemma adds_trans d0 d1 d2 a1 a2 a3 D1 D2 D :
  adds d0 d1 d2 a1 a2 D1 -> adds d0 d1 d2 a2 a3 D2 ->
  (forall t b m, 0 <= t < d0 -> 0 <= b < d1 -> 0 <= m < d2 -> D t b m = D1 t b m + D2 t b m) ->
  adds d0 d1 d2 a1 a3 D.
Proof.
  intros [L1 H1] [L2 H2] HD. split; [congruence|].
  intros t b m Ht Hb Hm. rewrite H2, H1, HD by assumption. lia.
Qed.

Lemma adds_ext d0 d1 d2 a1 a2 D D' :
  adds d0 d1 d2 a1 a2 D ->
  (forall t b m, 0 <= t < d0 -> 0 <= b < d1 -> 0 <= m < d2 -> D' t b m = D t b m) ->
  adds d0 d1 d2 a1 a2 D'.
Proof. intros [L H] HD. split; [exact L|]. intros t b m Ht Hb Hm. rewrite H, HD by assumption. reflexivity. Qed.

Lemma norm_ax_ok d i : 0 <= i < d -> norm_ax d i = Ok i.
Proof. intros H. unfold norm_ax. destruct (0 <=? i) eqn:A; destruct (i <? d) eqn:B; cbn [andb]; try reflexivity; lia. Qed.

Lemma flat_range d0 d1 d2 t b m : 0 <= t < d0 -> 0 <= b < d1 -> 0 <= m < d2 ->
  0 <= (t * d1 + b) * d2 + m < d0 * d1 * d2.
Proof.
  intros Ht Hb Hm.
  assert (A0 : 0 <= t * d1) by (apply Z.mul_nonneg_nonneg; lia).
  assert (A1 : 0 <= (t * d1 + b) * d2) by (apply Z.mul_nonneg_nonneg; lia).
  assert (A2 : t * d1 <= (d0 - 1) * d1) by (apply Z.mul_le_mono_nonneg_r; lia).
  assert (A3 : (t * d1 + b) * d2 <= (d0 * d1 - 1) * d2) by (apply Z.mul_le_mono_nonneg_r; lia).
  lia.
Qed.

Lemma div_flat x d m : 0 <= m < d -> (x * d + m) / d = x.
Proof. intros H. symmetry. apply (Z.div_unique _ d x m); [left; exact H|ring]. Qed.

Lemma flat_inj d1 d2 t b m t' b' m' : 0 <= b < d1 -> 0 <= m < d2 -> 0 <= b' < d1 -> 0 <= m' < d2 ->
  (t * d1 + b) * d2 + m = (t' * d1 + b') * d2 + m' -> t = t' /\ b = b' /\ m = m'.
Proof.
  intros Hb Hm Hb' Hm' H.
  assert (A : t * d1 + b = t' * d1 + b' /\ m = m').
  { assert (E1 : ((t * d1 + b) * d2 + m) / d2 = t * d1 + b) by (apply div_flat; lia).
    assert (E2 : ((t' * d1 + b') * d2 + m') / d2 = t' * d1 + b') by (apply div_flat; lia).
    rewrite H in E1. split; [congruence|]. rewrite E2 in E1. rewrite <- E1 in H. lia. }
  destruct A as [A ->].
  assert (B : t = t' /\ b = b').
  { assert (E1 : (t * d1 + b) / d1 = t) by (apply div_flat; lia).
    assert (E2 : (t' * d1 + b') / d1 = t') by (apply div_flat; lia).
    rewrite A in E1. split; [congruence|]. rewrite E2 in E1. subst t'. lia. }
  destruct B as [-> ->]. auto.
Qed.

Lemma flat3_ok d0 d1 d2 t b m : 0 <= t < d0 -> 0 <= b < d1 -> 0 <= m < d2 ->
  flat3 d0 d1 d2 t b m = Ok ((t * d1 + b) * d2 + m).
Proof. intros Ht Hb Hm. unfold flat3. rewrite !norm_ax_ok by assumption. reflexivity. Qed.

Lemma add3_spec arr d0 d1 d2 i0 i1 i2 v :
  len arr = d0 * d1 * d2 -> 0 <= i0 < d0 -> 0 <= i1 < d1 -> 0 <= i2 < d2 ->
  exists arr', add3 arr d0 d1 d2 i0 i1 i2 v = Ok arr' /\
    adds d0 d1 d2 arr arr' (fun t b m => if (t =? i0) && (b =? i1) && (m =? i2) then v else 0).
Proof.
  intros HL H0 H1 H2. unfold add3. rewrite flat3_ok by assumption. cbn [bind].
  pose proof (flat_range d0 d1 d2 i0 i1 i2 H0 H1 H2) as Hq.
  set (q := (i0 * d1 + i1) * d2 + i2) in *.
  unfold upd. rewrite (get_ok_nth arr q 0) by lia. cbn [bind]. rewrite set_ok by lia.
  eexists. split; [reflexivity|]. split.
  - unfold len. rewrite set_nth_length. reflexivity.
  - intros t b m Ht Hb Hm. unfold at3.
    destruct ((t =? i0) && (b =? i1) && (m =? i2)) eqn:A.
    + assert (t = i0 /\ b = i1 /\ m = i2) as [-> [-> ->]] by lia. fold q.
      rewrite set_nth_nth; [reflexivity|]. unfold len in *. lia.
    + rewrite set_nth_nth_other; [lia|].
      intros Heq. apply Z2Nat.inj in Heq; [|lia|pose proof (flat_range d0 d1 d2 t b m Ht Hb Hm); lia].
      unfold q in Heq. symmetry in Heq. apply flat_inj in Heq; try assumption. lia.
Qed.

Lemma add3_len arr d0 d1 d2 i0 i1 i2 v arr' : add3 arr d0 d1 d2 i0 i1 i2 v = Ok arr' -> len arr' = len arr.
Proof.
  unfold add3. intros H. apply bind_ok in H. destruct H as [q [_ H]]. unfold upd in H.
  apply bind_ok in H. destruct H as [a [_ H]]. apply set_len in H. exact H.
Qed.

Lemma get3_spec (W : list Z) d0 d1 d2 t b m :
  len W = d0 * d1 * d2 -> 0 <= t < d0 -> 0 <= b < d1 -> 0 <= m < d2 ->
  get3 W d0 d1 d2 t b m = Ok (nth (Z.to_nat ((t * d1 + b) * d2 + m)) W 0).
Proof.
  intros HL Ht Hb Hm. unfold get3. rewrite flat3_ok by assumption. cbn [bind].
  apply get_ok_nth. pose proof (flat_range d0 d1 d2 t b m Ht Hb Hm). lia.
Qed.

Lemma zeros_len n : 0 <= n -> len (zeros n) = n.
Proof. intros H. unfold zeros, len. rewrite repeat_length. lia. Qed.

Lemma zeros_nth n k : nth k (zeros n) 0 = 0.
Proof. unfold zeros. apply nth_repeat. Qed.
