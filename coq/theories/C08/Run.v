(* C08/Run.v — executable glue for the correspondence check (no theorem depends on it). *)
From Coq Require Import ZArith QArith List Bool.
From Abacus.Common Require Import Arr Corr.
From Abacus.C08 Require Import Parts Spec Gen Model.
Import ListNotations.
Local Open Scope Z_scope.

Definition sched_mod (T i : Z) : Z := i mod T.

(* the integer test mesh both sides build: W[i, j, k] = (wa*i + wb*j + wc*k + wd) mod wm, shape (n, n, n/2+1) *)
Definition wspec := (Z * Z * Z * Z * Z)%type.
Definition mkW (n : Z) (w : wspec) : list Z :=
  let '(wa, wb, wc, wd, wm) := w in
  let kz := n / 2 + 1 in
  map (fun q => (wa * (q / (kz * n)) + wb * ((q / kz) mod n) + wc * (q mod kz) + wd) mod wm) (range (n * n * kz)).

(* n1d, squared k edges, squared mu (or pi) edges, mesh, number of threads *)
Definition case := (Z * list Q * list Q * wspec * Z)%type.

Definition vpair (r : list Z * list Z) : val := VL [vlistZ (fst r); vlistZ (snd r)].

Definition run_kmu (c : case) : val :=
  let '(n, E, M, w, T) := c in vres vpair (bin_kmu kmu_gen n E M (mkW n w) T (range n) (sched_mod T)).

Definition run_kppi (c : case) : val :=
  let '(n, E, PI, w, T) := c in vres vpair (bin_kppi kppi_gen n E PI (mkW n w) T (range n) (sched_mod T)).

(* reversed execution order and a different thread assignment: must not matter *)
Definition run_kmu_rev (c : case) : val :=
  let '(n, E, M, w, T) := c in
  vres vpair (bin_kmu kmu_gen n E M (mkW n w) T (rev (range n)) (fun i => (T - 1) - (i * T) / n)).

(* the property predicate evaluated on the model: counts = brute-force full-mesh counts of Spec.v *)
Definition spec_counts_kmu (n : Z) (E M : list Q) : list Z :=
  let Nmu := len M - 1 in
  map (fun c => kmu_full_count n E M (c / Nmu) (c mod Nmu)) (range ((len E - 1) * Nmu)).
Definition spec_counts_kppi (n : Z) (E PI : list Q) : list Z :=
  let Npi := len PI - 1 in
  map (fun c => kppi_full_count n E PI (c / Npi) (c mod Npi)) (range ((len E - 1) * Npi)).

Definition holds_kmu (c : case) : bool :=
  let '(n, E, M, w, T) := c in
  match bin_kmu kmu_gen n E M (mkW n w) T (range n) (sched_mod T) with
  | Ok (cnt, _) => val_eqb (vlistZ cnt) (vlistZ (spec_counts_kmu n E M))
  | _ => false
  end.
Definition holds_kppi (c : case) : bool :=
  let '(n, E, PI, w, T) := c in
  match bin_kppi kppi_gen n E PI (mkW n w) T (range n) (sched_mod T) with
  | Ok (cnt, _) => val_eqb (vlistZ cnt) (vlistZ (spec_counts_kppi n E PI))
  | _ => false
  end.

(* exact values of the Legendre weights the poles use: (2l+1) P_l(mu2) for even l *)
Definition run_pn (c : Q * Z) : val := VQ (P_n_even (fst c) (snd c)).
(* either parity, argument mu (x = mu^2) *)
Definition run_pn_mu (c : Q * Z) : val := VQ (P_n_mu (fst c) (snd c)).
