(* C08/ProofsExt.v — the extended theorems: P_n is the Legendre polynomial (l = 0, 2, ..., 10), the l = 0 pole is the
   mode-weighted mu-average of the wedges, and the half-mesh weighted sums are the full-mesh sums of the Hermitian
   extension of the stored mesh. *)
From Coq Require Import ZArith QArith Qfield List Bool Lia Lqa ZifyBool Field.
From Abacus.Common Require Import Arr Num.
From Abacus.C08 Require Import Parts Spec Lib Model Gen ProofsFold ProofsSearch.
Import ListNotations.
Local Open Scope Z_scope.

Ltac Zify.zify_post_hook ::= Z.to_euclidean_division_equations.

(* ---- P_n --------------------------------------------------------------------------------------------------- *)
Ltac pn_tac cs :=
  intros mu; unfold P_n_even;
  match goal with |- context [Z.to_nat ?n] => let e := eval vm_compute in (Z.to_nat n) in change (Z.to_nat n) with e end;
  match goal with |- context [pn_coeffs ?n] => replace (pn_coeffs n) with cs by (vm_compute; reflexivity) end;
  cbn [map fold_left fst snd qpow legendre legendre_pair Z.of_nat Pos.of_succ_nat Pos.succ];
  unfold inject_Z; field.

Lemma pn0 : forall mu : Q, (P_n_even (mu * mu) 0 == legendre 0 mu)%Q.
Proof. pn_tac [(1, 0%nat)]. Qed.
Lemma pn2 : forall mu : Q, (P_n_even (mu * mu) 2 == legendre 2 mu)%Q.
Proof. pn_tac [(6, 1%nat); (-2, 0%nat)]. Qed.
Lemma pn4 : forall mu : Q, (P_n_even (mu * mu) 4 == legendre 4 mu)%Q.
Proof. pn_tac [(70, 2%nat); (-60, 1%nat); (6, 0%nat)]. Qed.
Lemma pn6 : forall mu : Q, (P_n_even (mu * mu) 6 == legendre 6 mu)%Q.
Proof. pn_tac [(924, 3%nat); (-1260, 2%nat); (420, 1%nat); (-20, 0%nat)]. Qed.
Lemma pn8 : forall mu : Q, (P_n_even (mu * mu) 8 == legendre 8 mu)%Q.
Proof. pn_tac [(12870, 4%nat); (-24024, 3%nat); (13860, 2%nat); (-2520, 1%nat); (70, 0%nat)]. Qed.
Lemma pn10 : forall mu : Q, (P_n_even (mu * mu) 10 == legendre 10 mu)%Q.
Proof. pn_tac [(184756, 5%nat); (-437580, 4%nat); (360360, 3%nat); (-120120, 2%nat); (13860, 1%nat); (-252, 0%nat)]. Qed.

Lemma P_n_is_legendre_lemma : forall l, In l [0; 2; 4; 6; 8; 10] ->
  forall mu : Q, (P_n_even (mu * mu) l == legendre (Z.to_nat l) mu)%Q.
Proof.
  intros l Hl mu. cbn [In] in Hl.
  destruct Hl as [<-|[<-|[<-|[<-|[<-|[<-|[]]]]]]];
    [apply pn0|apply pn2|apply pn4|apply pn6|apply pn8|apply pn10].
Qed.

(* P_n for either parity, in terms of mu (x = mu^2) *)
Ltac pnmu_tac cs :=
  intros mu; unfold P_n_mu;
  match goal with |- context [Z.to_nat ?n] => let e := eval vm_compute in (Z.to_nat n) in change (Z.to_nat n) with e end;
  match goal with |- context [pn_terms ?n] => replace (pn_terms n) with cs by (vm_compute; reflexivity) end;
  cbn [map fold_left fst snd qpow legendre legendre_pair Z.of_nat Pos.of_succ_nat Pos.succ];
  unfold inject_Z; field.

Lemma pnmu1 : forall mu : Q, (P_n_mu mu 1 == legendre 1 mu)%Q.
Proof. pnmu_tac [(2, 1%nat)]. Qed.
Lemma pnmu3 : forall mu : Q, (P_n_mu mu 3 == legendre 3 mu)%Q.
Proof. pnmu_tac [(20, 3%nat); (-12, 1%nat)]. Qed.
Lemma pnmu5 : forall mu : Q, (P_n_mu mu 5 == legendre 5 mu)%Q.
Proof. pnmu_tac [(252, 5%nat); (-280, 3%nat); (60, 1%nat)]. Qed.
Lemma pnmu7 : forall mu : Q, (P_n_mu mu 7 == legendre 7 mu)%Q.
Proof. pnmu_tac [(3432, 7%nat); (-5544, 5%nat); (2520, 3%nat); (-280, 1%nat)]. Qed.
Lemma pnmu9 : forall mu : Q, (P_n_mu mu 9 == legendre 9 mu)%Q.
Proof. pnmu_tac [(48620, 9%nat); (-102960, 7%nat); (72072, 5%nat); (-18480, 3%nat); (1260, 1%nat)]. Qed.

Lemma P_n_odd_is_legendre_lemma : forall l, In l [1; 3; 5; 7; 9] ->
  forall mu : Q, (P_n_mu mu l == legendre (Z.to_nat l) mu)%Q.
Proof.
  intros l Hl mu. cbn [In] in Hl.
  destruct Hl as [<-|[<-|[<-|[<-|[<-|[]]]]]]; [apply pnmu1|apply pnmu3|apply pnmu5|apply pnmu7|apply pnmu9].
Qed.

(* the two transcriptions of the loop agree on even orders *)
Lemma P_n_mu_even_lemma : forall l, In l [0; 2; 4; 6; 8; 10] ->
  forall mu : Q, (P_n_mu mu l == P_n_even (mu * mu) l)%Q.
Proof.
  intros l Hl mu. cbn [In] in Hl.
  destruct Hl as [<-|[<-|[<-|[<-|[<-|[<-|[]]]]]]]; unfold P_n_mu, P_n_even;
    match goal with |- context [pn_terms ?n] => let e := eval vm_compute in (pn_terms n) in change (pn_terms n) with e end;
    match goal with |- context [pn_coeffs ?n] => let e := eval vm_compute in (pn_coeffs n) in change (pn_coeffs n) with e end;
    match goal with |- context [Z.to_nat ?n] => let e := eval vm_compute in (Z.to_nat n) in change (Z.to_nat n) with e end;
    cbn [map fold_left fst snd qpow]; unfold inject_Z; ring.
Qed.

(* ---- l = 0 pole --------------------------------------------------------------------------------------------- *)
Lemma sum_n_nonneg m : forall lo f, (forall i, lo <= i < lo + Z.of_nat m -> 0 <= f i) -> 0 <= sum_n m lo f.
Proof.
  induction m as [|m IH]; intros lo f H; cbn [sum_n]; [lia|].
  assert (0 <= f lo) by (apply H; lia).
  assert (0 <= sum_n m (lo + 1) f) by (apply IH; intros i Hi; apply H; lia). lia.
Qed.

Lemma sum_n_nonneg_zero m : forall lo f, (forall i, lo <= i < lo + Z.of_nat m -> 0 <= f i) ->
  sum_n m lo f = 0 -> forall i, lo <= i < lo + Z.of_nat m -> f i = 0.
Proof.
  induction m as [|m IH]; intros lo f H Hs i Hi; [lia|]. cbn [sum_n] in Hs.
  assert (A : 0 <= f lo) by (apply H; lia).
  assert (B : 0 <= sum_n m (lo + 1) f) by (apply sum_n_nonneg; intros j Hj; apply H; lia).
  destruct (Z.eq_dec i lo) as [->|Hne]; [lia|].
  apply (IH (lo + 1) f); [intros j Hj; apply H; lia|lia|lia].
Qed.

Lemma sumZ_nonneg lo hi f : (forall i, lo <= i < hi -> 0 <= f i) -> 0 <= sumZ lo hi f.
Proof. intros H. unfold sumZ. apply sum_n_nonneg. intros i Hi. apply H. lia. Qed.

Lemma sumZ_nonneg_zero lo hi f : (forall i, lo <= i < hi -> 0 <= f i) -> sumZ lo hi f = 0 ->
  forall i, lo <= i < hi -> f i = 0.
Proof.
  intros H Hs i Hi. unfold sumZ in Hs.
  apply (sum_n_nonneg_zero (Z.to_nat (hi - lo)) lo f); [intros j Hj; apply H; lia|exact Hs|lia].
Qed.

Lemma ind_kmu_range E M b m s k2 : 0 <= ind_kmu E M b m s k2 <= 1.
Proof. unfold ind_kmu. destruct (_ && _ && _); cbn [b2z]; lia. Qed.

Lemma kmu_full_count_half n E M b m : 0 < n ->
  kmu_full_count n E M b m =
  sumZ 0 n (fun a => sumZ 0 n (fun bb => sumZ 0 (n / 2 + 1) (fun k =>
    smult n k * ind_kmu E M b m (f2 n a + f2 n bb) (k ^ 2)))).
Proof.
  intros Hn. unfold kmu_full_count. apply sumZ_ext. intros a Ha. apply sumZ_ext. intros bb Hbb.
  apply (halfmesh_1d n (fun z => ind_kmu E M b m (f2 n a + f2 n bb) z) Hn).
Qed.

Lemma kmu_count_nonneg n E M b m : 0 < n -> 0 <= kmu_full_count n E M b m.
Proof.
  intros Hn. unfold kmu_full_count. apply sumZ_nonneg. intros a Ha. apply sumZ_nonneg. intros bb Hbb.
  apply sumZ_nonneg. intros c Hc. apply ind_kmu_range.
Qed.

Lemma cterm_nonneg n E M b m s k : 0 <= smult n k * ind_kmu E M b m s (k ^ 2).
Proof. apply Z.mul_nonneg_nonneg; [pose proof (smult_pos n k); lia|apply ind_kmu_range]. Qed.

Lemma kmu_empty_bin_no_weight n E M W b m : 0 < n ->
  kmu_full_count n E M b m = 0 -> kmu_half_wsum n E M W b m = 0.
Proof.
  intros Hn H0. rewrite kmu_full_count_half in H0 by exact Hn. unfold kmu_half_wsum.
  apply sumZ_zero. intros a Ha. apply sumZ_zero. intros bb Hbb. apply sumZ_zero. intros k Hk.
  assert (T1 : sumZ 0 n (fun bb => sumZ 0 (n / 2 + 1) (fun k => smult n k * ind_kmu E M b m (f2 n a + f2 n bb) (k ^ 2))) = 0).
  { apply (sumZ_nonneg_zero 0 n (fun a => sumZ 0 n (fun bb => sumZ 0 (n / 2 + 1)
             (fun k => smult n k * ind_kmu E M b m (f2 n a + f2 n bb) (k ^ 2))))); [|exact H0|exact Ha].
    intros i Hi. apply sumZ_nonneg. intros j Hj. apply sumZ_nonneg. intros l Hl. apply cterm_nonneg. }
  assert (T2 : sumZ 0 (n / 2 + 1) (fun k => smult n k * ind_kmu E M b m (f2 n a + f2 n bb) (k ^ 2)) = 0).
  { apply (sumZ_nonneg_zero 0 n (fun bb => sumZ 0 (n / 2 + 1)
             (fun k => smult n k * ind_kmu E M b m (f2 n a + f2 n bb) (k ^ 2)))); [|exact T1|exact Hbb].
    intros j Hj. apply sumZ_nonneg. intros l Hl. apply cterm_nonneg. }
  assert (T3 : smult n k * ind_kmu E M b m (f2 n a + f2 n bb) (k ^ 2) = 0).
  { apply (sumZ_nonneg_zero 0 (n / 2 + 1) (fun k => smult n k * ind_kmu E M b m (f2 n a + f2 n bb) (k ^ 2)));
      [|exact T2|exact Hk]. intros l Hl. apply cterm_nonneg. }
  rewrite <- Z.mul_assoc, (Z.mul_comm (at_half n W a bb k)), Z.mul_assoc, T3. reflexivity.
Qed.

Lemma mean_times_count s c : (c = 0 -> s = 0) -> (mean_of s c * inject_Z c == inject_Z s)%Q.
Proof.
  intros H. unfold mean_of. destruct (c =? 0) eqn:A.
  - assert (c = 0) by lia. subst c. rewrite (H eq_refl). reflexivity.
  - assert (Hc : ~ (inject_Z c == 0)%Q).
    { intros Heq. unfold Qeq in Heq. cbn [Qnum Qden inject_Z] in Heq. lia. }
    field. exact Hc.
Qed.

Lemma nth_map_range {A} (f : Z -> A) N c d : 0 <= c < N -> nth (Z.to_nat c) (map f (range N)) d = f c.
Proof.
  intros H. unfold range. rewrite map_map.
  rewrite (nth_indep _ d (f (Z.of_nat 0))) by (rewrite map_length, seq_length; lia).
  rewrite (map_nth (fun x => f (Z.of_nat x)) (seq 0 (Z.to_nat N)) 0%nat (Z.to_nat c)).
  rewrite seq_nth by lia. f_equal. lia.
Qed.

Lemma flat_bm Nmu b m : 0 <= m < Nmu -> (b * Nmu + m) / Nmu = b /\ (b * Nmu + m) mod Nmu = m.
Proof.
  intros H. split; [apply div_flat; exact H|].
  rewrite Z.add_comm, Z.mod_add by lia. apply Z.mod_small. exact H.
Qed.

Lemma spec_counts_at n E M b m : 0 <= b < len E - 1 -> 0 <= m < len M - 1 ->
  nth (Z.to_nat (b * (len M - 1) + m)) (kmu_spec_counts n E M) 0 = kmu_full_count n E M b m.
Proof.
  intros Hb Hm. unfold kmu_spec_counts. cbv zeta. rewrite nth_map_range.
  - destruct (flat_bm (len M - 1) b m Hm) as [-> ->]. reflexivity.
  - pose proof (flat_range 1 (len E - 1) (len M - 1) 0 b m ltac:(lia) Hb Hm). lia.
Qed.

Lemma spec_wsums_at n E M W b m : 0 <= b < len E - 1 -> 0 <= m < len M - 1 ->
  nth (Z.to_nat (b * (len M - 1) + m)) (kmu_spec_wsums n E M W) 0 = kmu_half_wsum n E M W b m.
Proof.
  intros Hb Hm. unfold kmu_spec_wsums. cbv zeta. rewrite nth_map_range.
  - destruct (flat_bm (len M - 1) b m Hm) as [-> ->]. reflexivity.
  - pose proof (flat_range 1 (len E - 1) (len M - 1) 0 b m ltac:(lia) Hb Hm). lia.
Qed.

(* wedge mean x count = wedge sum, and pole-0 x N_mode_poles = sum over mu of the wedge sums: the l = 0 multipole is the
   mode-weighted average over mu of the wedge means *)
Lemma pole0_is_mu_average_lemma : forall n E M W b,
  0 < n -> 0 <= b < len E - 1 ->
  let Nmu := len M - 1 in
  let cnt := kmu_spec_counts n E M in
  let ws := kmu_spec_wsums n E M W in
  let at_ (arr : list Z) (m : Z) := nth (Z.to_nat (b * Nmu + m)) arr 0 in
  (forall m, 0 <= m < Nmu -> (mean_of (at_ ws m) (at_ cnt m) * inject_Z (at_ cnt m) == inject_Z (at_ ws m))%Q) /\
  (mean_of (row_sum Nmu ws b) (row_sum Nmu cnt b) * inject_Z (row_sum Nmu cnt b)
     == inject_Z (sumZ 0 Nmu (fun m => at_ ws m)))%Q.
Proof.
  intros n E M W b Hn Hb Nmu cnt ws at_. split.
  - intros m Hm. apply mean_times_count. unfold at_, cnt, ws, Nmu.
    rewrite spec_counts_at, spec_wsums_at by assumption. apply kmu_empty_bin_no_weight. exact Hn.
  - change (sumZ 0 Nmu (fun m => at_ ws m)) with (row_sum Nmu ws b).
    apply mean_times_count. unfold row_sum. intros H0. apply sumZ_zero. intros m Hm.
    assert (Hz : nth (Z.to_nat (b * Nmu + m)) cnt 0 = 0).
    { apply (sumZ_nonneg_zero 0 Nmu (fun m => nth (Z.to_nat (b * Nmu + m)) cnt 0)); [|exact H0|exact Hm].
      intros i Hi. unfold cnt, Nmu in *. rewrite spec_counts_at by assumption. apply kmu_count_nonneg. exact Hn. }
    unfold cnt, ws, Nmu in *. rewrite spec_counts_at in Hz by assumption.
    rewrite spec_wsums_at by assumption. apply kmu_empty_bin_no_weight; assumption.
Qed.

(* ---- Hermitian extension: the half-mesh weighted sums are the full-mesh sums --------------------------------- *)
Lemma f2_half n c : 0 < n -> 0 <= c -> 2 * c <= n -> f2 n c = c ^ 2.
Proof.
  intros Hn H0 H. destruct (Z.eq_dec (2 * c) n) as [He|Hne].
  - rewrite f2_high by lia. f_equal. lia.
  - apply f2_low; lia.
Qed.

Definition negi (n a : Z) : Z := (n - a) mod n.

Lemma negi_range n a : 0 < n -> 0 <= negi n a < n.
Proof. intros Hn. unfold negi. apply Z.mod_pos_bound. exact Hn. Qed.

Lemma f2_negi n a : 0 < n -> 0 <= a < n -> f2 n (negi n a) = f2 n a.
Proof.
  intros Hn Ha. unfold negi. destruct (Z.eq_dec a 0) as [->|Hne].
  - rewrite Z.sub_0_r, Z.mod_same by lia. reflexivity.
  - rewrite Z.mod_small by lia.
    destruct (Z_lt_ge_dec (2 * (n - a)) n) as [H|H].
    + rewrite f2_low by lia. rewrite f2_high by lia. reflexivity.
    + rewrite f2_high by lia. rewrite f2_half by lia. f_equal. lia.
Qed.

Lemma sum_negi n (F : Z -> Z) : 0 < n -> sumZ 0 n (fun a => F (negi n a)) = sumZ 0 n F.
Proof.
  intros Hn. rewrite (sumZ_first 0 n) by lia. rewrite (sumZ_first 0 n F) by lia.
  unfold negi at 1. rewrite Z.sub_0_r, Z.mod_same by lia. f_equal.
  replace (0 + 1) with 1 by lia.
  rewrite (sumZ_ext 1 n (fun a => F (negi n a)) (fun a => F (n - a))).
  2:{ intros a Ha. unfold negi. rewrite Z.mod_small by lia. reflexivity. }
  rewrite (sumZ_mirror 1 n n F). replace (n - n + 1) with 1 by lia. replace (n - 1 + 1) with n by lia. reflexivity.
Qed.

Lemma smult_sum n (T : Z -> Z) : 0 < n ->
  sumZ 0 (n / 2 + 1) T + sumZ 1 (n - (n / 2 + 1) + 1) T = sumZ 0 (n / 2 + 1) (fun k => smult n k * T k).
Proof.
  intros Hn.
  rewrite (sumZ_first 0 (n / 2 + 1) T) by lia.
  rewrite (sumZ_first 0 (n / 2 + 1) (fun k => smult n k * T k)) by lia.
  replace (0 + 1) with 1 by lia.
  assert (H0 : smult n 0 = 1) by reflexivity. rewrite H0.
  destruct (Z.eq_dec (n mod 2) 0) as [Hev|Hodd].
  - replace (n - (n / 2 + 1) + 1) with (n / 2) by lia.
    rewrite (sumZ_last 1 (n / 2 + 1) T) by lia.
    rewrite (sumZ_last 1 (n / 2 + 1) (fun k => smult n k * T k)) by lia.
    replace (n / 2 + 1 - 1) with (n / 2) by lia.
    rewrite (sumZ_ext 1 (n / 2) (fun k => smult n k * T k) (fun k => 2 * T k)).
    2:{ intros k Hk. unfold smult. destruct (k =? 0) eqn:A; destruct (2 * k =? n) eqn:B; cbn [orb]; lia. }
    rewrite sumZ_scale.
    assert (Hs : smult n (n / 2) = 1).
    { unfold smult. destruct (n / 2 =? 0) eqn:A; destruct (2 * (n / 2) =? n) eqn:B; cbn [orb]; lia. }
    rewrite Hs. lia.
  - replace (n - (n / 2 + 1) + 1) with (n / 2 + 1) by lia.
    rewrite (sumZ_ext 1 (n / 2 + 1) (fun k => smult n k * T k) (fun k => 2 * T k)).
    2:{ intros k Hk. unfold smult. destruct (k =? 0) eqn:A; destruct (2 * k =? n) eqn:B; cbn [orb]; lia. }
    rewrite sumZ_scale. lia.
Qed.

Lemma bin_means_full_lemma : forall n E M W b m, 0 < n ->
  kmu_full_wsum n E M W b m = kmu_half_wsum n E M W b m.
Proof.
  intros n E M W b m Hn. unfold kmu_full_wsum, kmu_half_wsum.
  set (kz := n / 2 + 1).
  set (T := fun a bb k => at_half n W a bb k * ind_kmu E M b m (f2 n a + f2 n bb) (k ^ 2)).
  set (U := fun a bb => sumZ 1 (n - kz + 1) (T a bb)).
  (* per (a, bb): stored part + mirrored part *)
  rewrite (sumZ_ext 0 n _ (fun a => sumZ 0 n (fun bb => sumZ 0 kz (T a bb) + U (negi n a) (negi n bb)))).
  2:{ intros a Ha. apply sumZ_ext. intros bb Hbb.
      rewrite (sumZ_split 0 kz n) by (unfold kz; lia). f_equal.
      - apply sumZ_ext. intros c Hc. unfold full_val, T. fold kz.
        destruct (c <? kz) eqn:A; [|lia]. rewrite (f2_half n c) by (unfold kz in *; lia). reflexivity.
      - unfold U. rewrite (sumZ_mirror kz n n). replace (n - n + 1) with 1 by lia.
        apply sumZ_ext. intros k Hk. unfold full_val, T. fold kz.
        destruct (n - k <? kz) eqn:A; [lia|]. fold (negi n a). fold (negi n bb).
        rewrite (f2_high n (n - k)) by (unfold kz in *; lia).
        rewrite !f2_negi by assumption. replace (n - (n - k)) with k by lia. reflexivity. }
  rewrite (sumZ_ext 0 n _ (fun a => sumZ 0 n (fun bb => sumZ 0 kz (T a bb)) + sumZ 0 n (fun bb => U (negi n a) (negi n bb)))).
  2:{ intros a Ha. apply sumZ_plus. }
  rewrite sumZ_plus.
  (* undo the negation of both indices *)
  rewrite (sumZ_ext 0 n (fun a => sumZ 0 n (fun bb => U (negi n a) (negi n bb))) (fun a => sumZ 0 n (fun bb => U (negi n a) bb))).
  2:{ intros a Ha. apply (sum_negi n (fun x => U (negi n a) x) Hn). }
  rewrite (sum_negi n (fun x => sumZ 0 n (fun bb => U x bb)) Hn).
  rewrite <- sumZ_plus. apply sumZ_ext. intros a Ha.
  rewrite <- sumZ_plus. apply sumZ_ext. intros bb Hbb.
  unfold U, kz. rewrite (smult_sum n (T a bb) Hn). apply sumZ_ext. intros k Hk. unfold T. ring.
Qed.
