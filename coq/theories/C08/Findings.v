(* C08/Findings.v — kernel-checked record of the four defects found in the original bin_kmu / bin_kppi
   (abacusnbody/analysis/power_spectrum.py at /repo 57394d2; repaired by /verif/fixes/C08-*.patch).

   [kmuO_gen] / [kppiO_gen] are frozen copies of what tools/gen/c08.py produced from the ORIGINAL source:
     (a) fold  `i**2 if i < n1d // 2 else (i - n1d)**2` : on an odd mesh index (n-1)/2 is folded to a negative frequency;
     (b) multiplicity `1 if k == 0 else 2` : the Nyquist plane 2k = n of an even mesh is counted twice;
     (c) bin_kppi: `break` on the j loop although k_perp^2 = i2 + j2 is not monotone in j;
     (d) bin_kppi: `while kz2 > piedges2[bpi + 1]` runs before the range test `kz2 >= piedges2[-1]`.
   Each theorem exhibits an input that satisfies every hypothesis of the corresponding full-strength theorem of
   Properties.v and on which the original violates its conclusion (witness by vm_compute). *)
From Coq Require Import ZArith QArith Qround Qabs Qminmax List Bool.
From Abacus.Common Require Import Arr Num.
From Abacus.C08 Require Import Parts Spec Model.
Import ListNotations.
Local Open Scope Z_scope.

Definition kmuO_kzlen (n1d : Z) : Z :=
  ((n1d / 2%Z)%Z + 1%Z)%Z.

Definition kmuO_nbins (nedges : Z) : Z :=
  (nedges - 1%Z)%Z.

Definition kmuO_fold_i (i : Z) (n1d : Z) : Z :=
  (if (i <? (n1d / 2%Z)%Z)%Z then (i ^ 2)%Z else ((i - n1d)%Z ^ 2)%Z).

Definition kmuO_fold_j (i : Z) (n1d : Z) : Z :=
  (if (i <? (n1d / 2%Z)%Z)%Z then (i ^ 2)%Z else ((i - n1d)%Z ^ 2)%Z).

Definition kmuO_kmag2 (i2 : Z) (j2 : Z) (k : Z) : Z :=
  ((i2 + j2)%Z + (k ^ 2)%Z)%Z.

Definition kmuO_mu2 (kmag2 : Z) (k : Z) : Q :=
  if (0%Z <? kmag2)%Z then ((inject_Z (k ^ 2)%Z) * ((1 # 1)%Q / (inject_Z kmag2))%Q)%Q else (0 # 1)%Q.

Definition kmuO_low_test (x : Q) (e : Q) : bool :=
  (Qltb x e).

Definition kmuO_low_idx : Z := 0%Z.

Definition kmuO_low_exit : exit_kind := EContinue.

Definition kmuO_high_test (x : Q) (e : Q) : bool :=
  (Qle_bool e x).

Definition kmuO_high_idx : Z := (-1)%Z.

Definition kmuO_high_exit : exit_kind := EBreak.

Definition kmuO_adv_k (x : Q) (e : Q) : bool :=
  (Qltb e x).

Definition kmuO_kidx (b : Z) : Z :=
  (b + 1%Z)%Z.

Definition kmuO_kstep (b : Z) : Z :=
  (b + 1%Z)%Z.

Definition kmuO_adv_mu (x : Q) (e : Q) : bool :=
  (Qltb e x).

Definition kmuO_muidx (b : Z) : Z :=
  (b + 1%Z)%Z.

Definition kmuO_mustep (b : Z) : Z :=
  (b + 1%Z)%Z.

Definition kmuO_mult (k : Z) (n1d : Z) : Z :=
  (if (k =? 0%Z)%Z then 1%Z else 2%Z).

Definition kmuO_wmult (k : Z) (n1d : Z) (w : Z) : Z :=
  (if (k =? 0%Z)%Z then w else (2%Z * w)%Z).

Definition kmuO_kavg_mult (k : Z) (n1d : Z) (w : Z) (dk : Z) : Z :=
  (if (k =? 0%Z)%Z then (w * dk)%Z else ((2%Z * w)%Z * dk)%Z).

Definition kmuO_pole_mult (k : Z) (n1d : Z) (w : Z) (pw : Z) : Z :=
  (if (k =? 0%Z)%Z then (w * pw)%Z else ((2%Z * w)%Z * pw)%Z).

Definition kmuO_gen : kmu_parts := {|
  ku_kzlen := kmuO_kzlen; ku_nbins := kmuO_nbins; ku_fold_i := kmuO_fold_i; ku_fold_j := kmuO_fold_j;
  ku_kmag2 := kmuO_kmag2; ku_mu2 := kmuO_mu2;
  ku_skip_low := kmuO_low_test; ku_low_idx := kmuO_low_idx; ku_low_exit := kmuO_low_exit;
  ku_stop_high := kmuO_high_test; ku_high_idx := kmuO_high_idx; ku_high_exit := kmuO_high_exit;
  ku_adv_k := kmuO_adv_k; ku_kidx := kmuO_kidx; ku_kstep := kmuO_kstep;
  ku_adv_mu := kmuO_adv_mu; ku_muidx := kmuO_muidx; ku_mustep := kmuO_mustep;
  ku_mult := kmuO_mult; ku_wmult := kmuO_wmult |}.

Definition kppiO_kzlen (n1d : Z) : Z :=
  ((n1d / 2%Z)%Z + 1%Z)%Z.

Definition kppiO_nbins (nedges : Z) : Z :=
  (nedges - 1%Z)%Z.

Definition kppiO_fold_i (i : Z) (n1d : Z) : Z :=
  (if (i <? (n1d / 2%Z)%Z)%Z then (i ^ 2)%Z else ((i - n1d)%Z ^ 2)%Z).

Definition kppiO_fold_j (i : Z) (n1d : Z) : Z :=
  (if (i <? (n1d / 2%Z)%Z)%Z then (i ^ 2)%Z else ((i - n1d)%Z ^ 2)%Z).

Definition kppiO_kmag2 (i2 : Z) (j2 : Z) : Z :=
  (i2 + j2)%Z.

Definition kppiO_kz2 (k : Z) : Z :=
  (k ^ 2)%Z.

Definition kppiO_low_test (x : Q) (e : Q) : bool :=
  (Qltb x e).

Definition kppiO_low_idx : Z := 0%Z.

Definition kppiO_low_exit : exit_kind := EContinue.

Definition kppiO_high_test (x : Q) (e : Q) : bool :=
  (Qle_bool e x).

Definition kppiO_high_idx : Z := (-1)%Z.

Definition kppiO_high_exit : exit_kind := EBreak.

Definition kppiO_pihigh_test (x : Q) (e : Q) : bool :=
  (Qle_bool e x).

Definition kppiO_pihigh_idx : Z := (-1)%Z.

Definition kppiO_pihigh_exit : exit_kind := EBreak.

Definition kppiO_adv_k (x : Q) (e : Q) : bool :=
  (Qltb e x).

Definition kppiO_kidx (b : Z) : Z :=
  (b + 1%Z)%Z.

Definition kppiO_kstep (b : Z) : Z :=
  (b + 1%Z)%Z.

Definition kppiO_adv_pi (x : Q) (e : Q) : bool :=
  (Qltb e x).

Definition kppiO_piidx (b : Z) : Z :=
  (b + 1%Z)%Z.

Definition kppiO_pistep (b : Z) : Z :=
  (b + 1%Z)%Z.

Definition kppiO_pi_check_first : bool := false.

Definition kppiO_mult (k : Z) (n1d : Z) : Z :=
  (if (k =? 0%Z)%Z then 1%Z else 2%Z).

Definition kppiO_wmult (k : Z) (n1d : Z) (w : Z) : Z :=
  (if (k =? 0%Z)%Z then w else (2%Z * w)%Z).

Definition kppiO_gen : kppi_parts := {|
  kp_kzlen := kppiO_kzlen; kp_nbins := kppiO_nbins; kp_fold_i := kppiO_fold_i; kp_fold_j := kppiO_fold_j;
  kp_kmag2 := kppiO_kmag2; kp_kz2 := kppiO_kz2;
  kp_skip_low := kppiO_low_test; kp_low_idx := kppiO_low_idx; kp_low_exit := kppiO_low_exit;
  kp_stop_high := kppiO_high_test; kp_high_idx := kppiO_high_idx; kp_high_exit := kppiO_high_exit;
  kp_adv_k := kppiO_adv_k; kp_kidx := kppiO_kidx; kp_kstep := kppiO_kstep;
  kp_adv_pi := kppiO_adv_pi; kp_piidx := kppiO_piidx; kp_pistep := kppiO_pistep;
  kp_stop_pi := kppiO_pihigh_test; kp_pihigh_idx := kppiO_pihigh_idx; kp_pihigh_exit := kppiO_pihigh_exit;
  kp_pi_check_first := kppiO_pi_check_first;
  kp_mult := kppiO_mult; kp_wmult := kppiO_wmult |}.


(* ------------------------------------------------------------------------------------------------------- *)
Definition ones (n : Z) : list Z := repeat 1 (Z.to_nat (n * n * (n / 2 + 1))).
Definition natural (n : Z) : list Z := range n.          (* execution order 0, 1, ..., n-1 *)
Definition one_thread (i : Z) : Z := 0.

(* (a) the fold expression is not the squared fftfreq frequency on an odd mesh: n = 3, index 1 (frequency +1)
       is folded to (1 - 3)^2 = 4 *)
Theorem fold_orig_refuted : exists n i, 0 < n /\ 0 <= i < n /\ kmuO_fold_i i n <> (fftfreq n i) ^ 2.
Proof. exists 3, 1. split; [reflexivity|]. split; [split; [discriminate|reflexivity]|]. vm_compute. discriminate. Qed.

(* ... and the counts of bin_kmu are wrong on it: n = 3, one k bin (0.5, 1.5] in units of the fundamental
   (squared edges 1/4, 9/4), one mu bin: 18 modes have |k|^2 in {1, 2}, the original finds 10 *)
Theorem bin_kmu_counts_orig_refuted_odd : exists n E M,
  0 < n /\ incrb E = true /\ incrb M = true /\ 2 <= len E /\ 2 <= len M /\
  Qle_bool (qnth M 0) 0 = true /\ Qle_bool 1 (qlast M) = true /\
  exists cnt ws, bin_kmu kmuO_gen n E M (ones n) 1 (natural n) one_thread = Ok (cnt, ws) /\
    cnt <> kmu_spec_counts n E M.
Proof.
  exists 3, [1 # 4; 9 # 4]%Q, [0; 1]%Q. repeat (split; [reflexivity || (vm_compute; discriminate)|]).
  eexists. eexists. split; [vm_compute; reflexivity|]. vm_compute. discriminate.
Qed.

(* (b) the Nyquist plane of an even mesh is counted twice: n = 2, every mode but the zero mode in range
       (squared edges 1/4, 4): 7 modes, the original reports 11 *)
Theorem bin_kmu_counts_orig_refuted_even : exists n E M,
  0 < n /\ n mod 2 = 0 /\ incrb E = true /\ incrb M = true /\ 2 <= len E /\ 2 <= len M /\
  Qle_bool (qnth M 0) 0 = true /\ Qle_bool 1 (qlast M) = true /\
  bin_kmu kmuO_gen n E M (ones n) 1 (natural n) one_thread = Ok ([11], [11]) /\
  kmu_spec_counts n E M = [7].
Proof.
  exists 2, [1 # 4; 4 # 1]%Q, [0; 1]%Q. repeat (split; [reflexivity || (vm_compute; discriminate)|]).
  split; vm_compute; reflexivity.
Qed.

(* the multiplicity expression itself: the sum of the multiplicities over the stored half of an even mesh is not n *)
Theorem mult_orig_refuted : exists n, 0 < n /\ sumZ 0 (n / 2 + 1) (fun k => kmuO_mult k n) <> n.
Proof. exists 2. split; [reflexivity|]. vm_compute. discriminate. Qed.

(* (c) bin_kppi drops modes: n = 4, k_perp^2 < 9/4, k_par^2 < 4 (the Nyquist plane is outside, so (b) does not
       interfere): 27 modes; j = 2 has k_perp^2 = 4 -> `break`, and j = 3 (k_perp^2 = 1 again) is never visited: 18 *)
Theorem bin_kppi_counts_orig_refuted_break : exists n E PI,
  0 < n /\ incrb E = true /\ incrb PI = true /\ 2 <= len E /\ 2 <= len PI /\ Qle_bool (qnth PI 0) 0 = true /\
  bin_kppi kppiO_gen n E PI (ones n) 1 (natural n) one_thread = Ok ([18], [18]) /\
  kppi_spec_counts n E PI = [27].
Proof.
  exists 4, [0; 9 # 4]%Q, [0; 4 # 1]%Q. repeat (split; [reflexivity || (vm_compute; discriminate)|]).
  split; vm_compute; reflexivity.
Qed.

(* (d) bin_kppi reads piedges2 past its end: n = 4, pimax = 1.5 (squared pi edges 0, 9/4); kz = 2 has
       kz2 = 4 > piedges2[1]: the search increments bpi to 1 and reads piedges2[2] before the range test can stop it *)
Theorem bin_kppi_orig_refuted_oob : exists n E PI,
  0 < n /\ incrb E = true /\ incrb PI = true /\ 2 <= len E /\ 2 <= len PI /\ Qle_bool (qnth PI 0) 0 = true /\
  bin_kppi kppiO_gen n E PI (ones n) 1 (natural n) one_thread = Oob.
Proof.
  exists 4, [0; 100 # 1]%Q, [0; 9 # 4]%Q. repeat (split; [reflexivity || (vm_compute; discriminate)|]).
  vm_compute. reflexivity.
Qed.

(* the Nyquist plane in bin_kppi too: n = 2, everything in range: 8 modes, the original reports 12 *)
Theorem bin_kppi_counts_orig_refuted_even : exists n E PI,
  0 < n /\ incrb E = true /\ incrb PI = true /\ 2 <= len E /\ 2 <= len PI /\ Qle_bool (qnth PI 0) 0 = true /\
  bin_kppi kppiO_gen n E PI (ones n) 1 (natural n) one_thread = Ok ([12], [12]) /\
  kppi_spec_counts n E PI = [8].
Proof.
  exists 2, [0; 100 # 1]%Q, [0; 100 # 1]%Q. repeat (split; [reflexivity || (vm_compute; discriminate)|]).
  split; vm_compute; reflexivity.
Qed.
