(* C08/Lib.v — finite sums over integer ranges and lists, boolean/propositional bridges on Q. *)
From Coq Require Import ZArith QArith List Bool Lia Lqa Permutation ZifyBool.
From Abacus.Common Require Import Arr Num.
From Abacus.C08 Require Import Spec.
Import ListNotations.
Local Open Scope Z_scope.

(* ---- sum_n ----------------------------------------------------------------------------------------- *)
Lemma sum_n_ext m : forall lo f g,
  (forall i, lo <= i < lo + Z.of_nat m -> f i = g i) -> sum_n m lo f = sum_n m lo g.
Proof.
  induction m as [|m IH]; intros lo f g H; cbn [sum_n]; [reflexivity|].
  rewrite (H lo) by lia. f_equal. apply IH. intros i Hi. apply H. lia.
Qed.

Lemma sum_n_zero m : forall lo f, (forall i, lo <= i < lo + Z.of_nat m -> f i = 0) -> sum_n m lo f = 0.
Proof.
  induction m as [|m IH]; intros lo f H; cbn [sum_n]; [reflexivity|].
  rewrite (H lo) by lia. rewrite IH; [reflexivity|]. intros i Hi. apply H. lia.
Qed.

Lemma sum_n_plus m : forall lo f g, sum_n m lo (fun i => f i + g i) = sum_n m lo f + sum_n m lo g.
Proof. induction m as [|m IH]; intros lo f g; cbn [sum_n]; [reflexivity|]. rewrite IH. lia. Qed.

Lemma sum_n_scale m : forall lo c f, sum_n m lo (fun i => c * f i) = c * sum_n m lo f.
Proof. induction m as [|m IH]; intros lo c f; cbn [sum_n]; [lia|]. rewrite IH. lia. Qed.

Lemma sum_n_app m1 : forall m2 lo f,
  sum_n (m1 + m2) lo f = sum_n m1 lo f + sum_n m2 (lo + Z.of_nat m1) f.
Proof.
  induction m1 as [|m1 IH]; intros m2 lo f.
  - cbn [Nat.add sum_n]. replace (lo + Z.of_nat 0) with lo by lia. lia.
  - cbn [Nat.add sum_n]. rewrite IH. replace (lo + 1 + Z.of_nat m1) with (lo + Z.of_nat (S m1)) by lia. lia.
Qed.

Lemma sum_n_last m lo f : sum_n (S m) lo f = sum_n m lo f + f (lo + Z.of_nat m).
Proof.
  replace (S m) with (m + 1)%nat by lia. rewrite sum_n_app. cbn [sum_n]. lia.
Qed.

Lemma sum_n_shift m : forall lo d f, sum_n m (lo + d) f = sum_n m lo (fun i => f (i + d)).
Proof.
  induction m as [|m IH]; intros lo d f; cbn [sum_n]; [reflexivity|].
  f_equal. replace (lo + d + 1) with (lo + 1 + d) by lia. apply IH.
Qed.

Lemma sum_n_rev m : forall lo f, sum_n m lo f = sum_n m lo (fun i => f (2 * lo + Z.of_nat m - 1 - i)).
Proof.
  induction m as [|m IH]; intros lo f; [reflexivity|].
  rewrite sum_n_last. cbn [sum_n]. rewrite (IH lo f).
  replace (2 * lo + Z.of_nat (S m) - 1 - lo) with (lo + Z.of_nat m) by lia.
  rewrite Z.add_comm. f_equal.
  replace (lo + 1) with (lo + 1)%Z by reflexivity.
  rewrite (sum_n_shift m lo 1). apply sum_n_ext. intros i Hi. f_equal. lia.
Qed.

Lemma sum_n_single m : forall lo j v,
  sum_n m lo (fun i => if i =? j then v else 0) = if (lo <=? j) && (j <? lo + Z.of_nat m) then v else 0.
Proof.
  induction m as [|m IH]; intros lo j v; cbn [sum_n].
  - destruct (lo <=? j) eqn:A; destruct (j <? lo + Z.of_nat 0) eqn:B; cbn [andb]; try reflexivity; lia.
  - rewrite IH. destruct (lo =? j) eqn:A; destruct (lo + 1 <=? j) eqn:B; destruct (j <? lo + 1 + Z.of_nat m) eqn:C;
      destruct (lo <=? j) eqn:D; destruct (j <? lo + Z.of_nat (S m)) eqn:F; cbn [andb]; lia.
Qed.

(* ---- sumZ ------------------------------------------------------------------------------------------ *)
Lemma sumZ_ext lo hi f g : (forall i, lo <= i < hi -> f i = g i) -> sumZ lo hi f = sumZ lo hi g.
Proof. intros H. unfold sumZ. apply sum_n_ext. intros i Hi. apply H. lia. Qed.

Lemma sumZ_zero lo hi f : (forall i, lo <= i < hi -> f i = 0) -> sumZ lo hi f = 0.
Proof. intros H. unfold sumZ. apply sum_n_zero. intros i Hi. apply H. lia. Qed.

Lemma sumZ_empty lo hi f : hi <= lo -> sumZ lo hi f = 0.
Proof. intros H. unfold sumZ. replace (Z.to_nat (hi - lo)) with O by lia. reflexivity. Qed.

Lemma sumZ_plus lo hi f g : sumZ lo hi (fun i => f i + g i) = sumZ lo hi f + sumZ lo hi g.
Proof. apply sum_n_plus. Qed.

Lemma sumZ_scale lo hi c f : sumZ lo hi (fun i => c * f i) = c * sumZ lo hi f.
Proof. apply sum_n_scale. Qed.

Lemma sumZ_split lo mid hi f : lo <= mid <= hi -> sumZ lo hi f = sumZ lo mid f + sumZ mid hi f.
Proof.
  intros H. unfold sumZ.
  replace (Z.to_nat (hi - lo)) with (Z.to_nat (mid - lo) + Z.to_nat (hi - mid))%nat by lia.
  rewrite sum_n_app. do 2 f_equal. lia.
Qed.

Lemma sumZ_first lo hi f : lo < hi -> sumZ lo hi f = f lo + sumZ (lo + 1) hi f.
Proof.
  intros H. rewrite (sumZ_split lo (lo + 1) hi) by lia. f_equal.
  unfold sumZ. replace (Z.to_nat (lo + 1 - lo)) with 1%nat by lia. cbn [sum_n]. lia.
Qed.

Lemma sumZ_last lo hi f : lo < hi -> sumZ lo hi f = sumZ lo (hi - 1) f + f (hi - 1).
Proof.
  intros H. rewrite (sumZ_split lo (hi - 1) hi) by lia. f_equal.
  unfold sumZ. replace (Z.to_nat (hi - (hi - 1))) with 1%nat by lia. cbn [sum_n]. lia.
Qed.

(* sum over [lo, hi) of f = sum over [lo', hi') of f o (c - .) when the two ranges are mirror images *)
Lemma sumZ_mirror lo hi c f : sumZ lo hi f = sumZ (c - hi + 1) (c - lo + 1) (fun i => f (c - i)).
Proof.
  destruct (Z_le_gt_dec hi lo) as [H|H].
  - rewrite !sumZ_empty by lia. reflexivity.
  - unfold sumZ. replace (Z.to_nat (c - lo + 1 - (c - hi + 1))) with (Z.to_nat (hi - lo)) by lia.
    rewrite (sum_n_rev _ lo f).
    replace (c - hi + 1) with (lo + (c - hi + 1 - lo)) by lia.
    rewrite sum_n_shift. apply sum_n_ext. intros i Hi. f_equal. lia.
Qed.

Lemma sumZ_single lo hi j v : lo <= j < hi -> sumZ lo hi (fun i => if i =? j then v else 0) = v.
Proof.
  intros H. unfold sumZ. rewrite sum_n_single.
  destruct (lo <=? j) eqn:A; destruct (j <? lo + Z.of_nat (Z.to_nat (hi - lo))) eqn:B; cbn [andb]; try reflexivity; lia.
Qed.

Lemma sum_n_sumZ_swap m : forall lo1 lo2 hi2 (F : Z -> Z -> Z),
  sum_n m lo1 (fun a => sumZ lo2 hi2 (fun b => F a b)) = sumZ lo2 hi2 (fun b => sum_n m lo1 (fun a => F a b)).
Proof.
  induction m as [|m IH]; intros lo1 lo2 hi2 F; cbn [sum_n].
  - symmetry. apply sumZ_zero. reflexivity.
  - rewrite IH. rewrite <- sumZ_plus. reflexivity.
Qed.

Lemma sumZ_swap lo1 hi1 lo2 hi2 (F : Z -> Z -> Z) :
  sumZ lo1 hi1 (fun a => sumZ lo2 hi2 (fun b => F a b)) = sumZ lo2 hi2 (fun b => sumZ lo1 hi1 (fun a => F a b)).
Proof. unfold sumZ at 1. rewrite sum_n_sumZ_swap. reflexivity. Qed.

(* ---- lsum ------------------------------------------------------------------------------------------ *)
Lemma lsum_ext l f g : (forall i, In i l -> f i = g i) -> lsum l f = lsum l g.
Proof.
  induction l as [|a l IH]; intros H; cbn [lsum fold_right]; [reflexivity|].
  rewrite (H a) by (left; reflexivity). f_equal. apply IH. intros i Hi. apply H. right. exact Hi.
Qed.

Lemma lsum_perm l l' f : Permutation l l' -> lsum l f = lsum l' f.
Proof.
  induction 1 as [|x l l' HP IH|x y l|l l' l'' HP1 IH1 HP2 IH2]; unfold lsum in *; cbn [fold_right]; lia.
Qed.

Lemma lsum_sumZ_swap l lo hi (F : Z -> Z -> Z) :
  sumZ lo hi (fun t => lsum l (fun i => F t i)) = lsum l (fun i => sumZ lo hi (fun t => F t i)).
Proof.
  induction l as [|a l IH]; cbn [lsum fold_right].
  - apply sumZ_zero. reflexivity.
  - rewrite sumZ_plus. f_equal. exact IH.
Qed.

Lemma lsum_map_seq m : forall s f,
  lsum (map Z.of_nat (seq s m)) f = sum_n m (Z.of_nat s) f.
Proof.
  induction m as [|m IH]; intros s f; cbn [seq map lsum fold_right sum_n]; [reflexivity|].
  f_equal. change (fold_right (fun i acc => f i + acc) 0 (map Z.of_nat (seq (S s) m))) with (lsum (map Z.of_nat (seq (S s) m)) f).
  rewrite IH. f_equal. lia.
Qed.

Lemma lsum_range n f : lsum (range n) f = sumZ 0 n f.
Proof. unfold range, sumZ. rewrite lsum_map_seq. rewrite Z.sub_0_r. reflexivity. Qed.

Lemma in_range_list n i : In i (range n) <-> 0 <= i < n.
Proof.
  unfold range. rewrite in_map_iff. split.
  - intros [k [Hk Hin]]. apply in_seq in Hin. lia.
  - intros H. exists (Z.to_nat i). split; [lia|]. apply in_seq. lia.
Qed.

(* ---- Q booleans ------------------------------------------------------------------------------------ *)
Lemma Qle_bool_false a b : Qle_bool a b = false <-> (b < a)%Q.
Proof.
  split.
  - intros H. apply Qnot_le_lt. intros Hle. apply Qle_bool_iff in Hle. congruence.
  - intros H. destruct (Qle_bool a b) eqn:E; [|reflexivity].
    apply Qle_bool_iff in E. exfalso. exact (Qlt_not_le _ _ H E).
Qed.

Lemma Qle_bool_true a b : Qle_bool a b = true <-> (a <= b)%Q.
Proof. apply Qle_bool_iff. Qed.

Lemma inject_Z_le a b : a <= b -> (inject_Z a <= inject_Z b)%Q.
Proof. intros H. rewrite <- Zle_Qle. exact H. Qed.

Lemma inject_Z_lt a b : a < b -> (inject_Z a < inject_Z b)%Q.
Proof. intros H. rewrite <- Zlt_Qlt. exact H. Qed.

(* turn every boolean comparison on Q in the context into a proposition *)
Ltac qprop :=
  repeat match goal with
  | H : Qltb _ _ = true |- _ => apply Qltb_lt in H
  | H : Qltb _ _ = false |- _ => apply Qltb_ge in H
  | H : Qle_bool _ _ = true |- _ => apply Qle_bool_iff in H
  | H : Qle_bool _ _ = false |- _ => apply Qle_bool_false in H
  end.

(* ---- strictly increasing edge lists ------------------------------------------------------------------- *)
Lemma qnth_cons x t b : 0 < b -> qnth (x :: t) b = qnth t (b - 1).
Proof.
  intros H. unfold qnth. replace (Z.to_nat b) with (S (Z.to_nat (b - 1))) by lia. reflexivity.
Qed.

Lemma incrb_head x t : incrb (x :: t) = true -> forall c, 0 <= c < len t -> (x < qnth t c)%Q.
Proof.
  revert x. induction t as [|y t IH]; intros x H c Hc.
  - unfold len in Hc. cbn in Hc. lia.
  - cbn [incrb] in H. apply andb_prop in H. destruct H as [Hxy Ht]. apply Qltb_lt in Hxy.
    destruct (Z.eq_dec c 0) as [->|Hne].
    + exact Hxy.
    + rewrite qnth_cons by lia. apply Qlt_trans with y; [exact Hxy|].
      apply IH; [exact Ht|]. rewrite len_cons in Hc. lia.
Qed.

Lemma incrb_incr E : incrb E = true -> incr E.
Proof.
  induction E as [|x t IH]; intros H a b Ha Hab Hb.
  - unfold len in Hb. cbn in Hb. lia.
  - rewrite len_cons in Hb. destruct (Z.eq_dec a 0) as [->|Hne].
    + rewrite (qnth_cons x t b) by lia. unfold qnth at 1. cbn [Z.to_nat nth].
      apply incrb_head; [exact H|lia].
    + rewrite !qnth_cons by lia. apply IH; try lia.
      cbn [incrb] in H. destruct t as [|y t']; [reflexivity|]. apply andb_prop in H. apply H.
Qed.
