(* C08/Properties.v — the property theorems, about the pieces regenerated from bin_kmu / bin_kppi (Gen.v) inside the
   hand-written loop model (Model.v).  Nothing but statements closed by `exact` and their assumptions.

   Reading guide.  E, M, PI are the *squared* bin edges in units of the fundamental (what the kernels compare with);
   [incr] = strictly increasing; bins as coded: first bin closed on the left, every bin closed on the right, the k
   (and pi) range open at its last edge ([in_bin], [in_range] of Spec.v).  [fftfreq] is numpy.fft.fftfreq.
   [kmu_spec_counts n E M] is the brute-force number of modes of the FULL n^3 mesh per bin (Spec.v).
   A result `Ok ...` also says: no edge / mesh / accumulator access was out of bounds and no search ran away. *)
From Coq Require Import ZArith QArith List Bool Permutation Lia.
From Abacus.Common Require Import Arr.
From Abacus.C08 Require Import Parts Spec Model Gen ProofsSearch Proofs ProofsExt ProofsThreads ProofsPn.
Import ListNotations.
Local Open Scope Z_scope.

(* ★ fold_is_fftfreq²: every occurrence of the fold expression in power_spectrum.py (bin_kmu, bin_kppi,
   expand_poles_to_3d, get_smoothing, get_delta_mu2: i2 and j2) is the squared signed frequency of the index, and the
   kx, ky of shift_field_fft are the signed frequency, for every mesh size, odd or even *)
Theorem fold_is_fftfreq_sq :
  Forall (fun f => forall n i, 0 < n -> 0 <= i < n -> f i n = (fftfreq n i) ^ 2) fold_sites /\
  Forall (fun f => forall n i, 0 < n -> 0 <= i < n -> f i n = fftfreq n i) freq_sites.
Proof. exact fold_is_fftfreq_sq_lemma. Qed.
Print Assumptions fold_is_fftfreq_sq.

(* ... spelled out for the four sites the two kernels use *)
Theorem fold_kernels : forall n i, 0 < n -> 0 <= i < n ->
  kmu_fold_i i n = (fftfreq n i) ^ 2 /\ kmu_fold_j i n = (fftfreq n i) ^ 2 /\
  kppi_fold_i i n = (fftfreq n i) ^ 2 /\ kppi_fold_j i n = (fftfreq n i) ^ 2.
Proof. exact fold_kernels_lemma. Qed.
Print Assumptions fold_kernels.

(* the transcription of numpy's fftfreq is the representative of i modulo n in [-n/2, n/2) *)
Theorem fftfreq_spec : forall n i, 0 < n -> 0 <= i < n ->
  (fftfreq n i - i) mod n = 0 /\ - n <= 2 * fftfreq n i < n.
Proof. exact fftfreq_spec_lemma. Qed.
Print Assumptions fftfreq_spec.

(* the 1-D multiplicity lemma: pairing f <-> -f; multiplicity 1 for kz = 0 and 2 kz = n, else 2 *)
Theorem halfmesh_1d : forall n (g : Z -> Z), 0 < n ->
  sumZ 0 n (fun c => g ((fftfreq n c) ^ 2)) = sumZ 0 (n / 2 + 1) (fun k => smult n k * g (k ^ 2)).
Proof. exact halfmesh_1d_lemma. Qed.
Print Assumptions halfmesh_1d.

(* ★ halfmesh_multiset: the multiset of (kx^2, ky^2, kz^2) over the full n^3 mesh equals that of the stored half mesh
   (n, n, n/2+1) with multiplicity [smult] — as equality of the sums of every test function g over the two *)
Theorem halfmesh_multiset : forall n (g : Z -> Z -> Z -> Z), 0 < n ->
  sumZ 0 n (fun a => sumZ 0 n (fun b => sumZ 0 n (fun c =>
     g ((fftfreq n a) ^ 2) ((fftfreq n b) ^ 2) ((fftfreq n c) ^ 2)))) =
  sumZ 0 n (fun a => sumZ 0 n (fun b => sumZ 0 (n / 2 + 1) (fun k =>
     smult n k * g ((fftfreq n a) ^ 2) ((fftfreq n b) ^ 2) (k ^ 2)))).
Proof. exact halfmesh_multiset_lemma. Qed.
Print Assumptions halfmesh_multiset.

(* the six regenerated multiplicity expressions (counts, weighted_counts, weighted_counts_k, weighted_counts_poles of
   bin_kmu; counts, weighted_counts of bin_kppi) all are  smult * payload *)
Theorem mult_sites : forall n k w x,
  kmu_mult k n = smult n k /\ kmu_wmult k n w = smult n k * w /\
  kmu_kavg_mult k n w x = smult n k * (w * x) /\ kmu_pole_mult k n w x = smult n k * (w * x) /\
  kppi_mult k n = smult n k /\ kppi_wmult k n w = smult n k * w.
Proof. exact mult_sites_lemma. Qed.
Print Assumptions mult_sites.

(* ★ incremental_search_correct: for each of the four regenerated `while x > edges[b+1]: b += 1` searches, along any
   non-decreasing sequence xs inside [E_0, E_last] the index carried from element to element ([run_search]) is, for
   every element, the index the search finds from scratch (b = 0), that bin's interval contains the element, and
   no read goes past the last edge (the result is Ok) *)
Theorem incremental_search_correct :
  forall f, In f [gen_search_k; gen_search_mu; gen_search_kperp; gen_search_pi] ->
  forall E xs, incr E -> 2 <= len E -> nondecreasing xs ->
  Forall (fun x => (qnth E 0 <= x)%Q /\ (x <= qlast E)%Q) xs ->
  exists bs, run_search f E xs 0 = Ok bs /\
    Forall2 (fun x b' => f E x 0 = Ok b' /\ in_bin E b' x = true /\ 0 <= b' /\ b' + 1 < len E) xs bs.
Proof. exact incremental_search_correct_lemma. Qed.
Print Assumptions incremental_search_correct.

(* ... one step, with uniqueness of the bin *)
Theorem search_step : forall f, In f [gen_search_k; gen_search_mu; gen_search_kperp; gen_search_pi] ->
  forall E x b,
  incr E -> 0 <= b -> b + 1 < len E -> (b = 0 \/ (qnth E b < x)%Q) -> (qnth E 0 <= x)%Q -> (x <= qlast E)%Q ->
  exists b', f E x b = Ok b' /\ b <= b' /\ b' + 1 < len E /\ in_bin E b' x = true /\
    (forall c, 0 <= c -> c + 1 < len E -> in_bin E c x = true -> c = b').
Proof. exact search_step_lemma. Qed.
Print Assumptions search_step.

(* ... `break` on the innermost, monotone loop drops nothing: one (i, j) row of bin_kmu adds to the slab of its
   thread the multiplicity-weighted bin indicator summed over ALL kz of the stored half, whatever the slab held *)
Theorem break_drops_nothing : forall n E M W T tid i j cnt ws,
  0 < n -> 0 < T -> incr E -> incr M -> 2 <= len E -> 2 <= len M -> (qnth M 0 <= 0)%Q -> (1 <= qlast M)%Q ->
  len W = n * n * (n / 2 + 1) ->
  0 <= tid < T -> 0 <= i < n -> 0 <= j < n ->
  len cnt = T * (len E - 1) * (len M - 1) -> len ws = T * (len E - 1) * (len M - 1) ->
  exists cnt' ws', kmu_jbody kmu_gen n E M W T tid i ((fftfreq n i) ^ 2) j (cnt, ws) = Ok (cnt', ws') /\
    adds T (len E - 1) (len M - 1) cnt cnt' (fun t b m => if t =? tid then
       sumZ 0 (n / 2 + 1) (fun k => smult n k * ind_kmu E M b m ((fftfreq n i) ^ 2 + (fftfreq n j) ^ 2) (k ^ 2)) else 0).
Proof. exact kmu_row_complete_lemma. Qed.
Print Assumptions break_drops_nothing.

(* ★ bin_kmu_counts (+ edge_reads_in_bounds + bin_means, half-mesh form): for every mesh size, every pair of strictly
   increasing squared-edge arrays (mu edges from <= 0 to >= 1), every integer mesh, every number of threads, every
   execution order of the prange iterations and every assignment of iterations to threads, bin_kmu returns Ok and
     counts[b][m]          = number of modes of the full n^3 mesh in (k-bin b, mu-bin m),
     weighted sum [b][m]   = sum over exactly those modes of the stored half of  multiplicity * mesh value *)
Theorem bin_kmu_counts : forall n E M W T order sched,
  0 < n -> 0 < T -> incr E -> incr M -> 2 <= len E -> 2 <= len M -> (qnth M 0 <= 0)%Q -> (1 <= qlast M)%Q ->
  len W = n * n * (n / 2 + 1) -> valid_sched T sched -> Permutation order (range n) ->
  bin_kmu kmu_gen n E M W T order sched = Ok (kmu_spec_counts n E M, kmu_spec_wsums n E M W).
Proof. exact bin_kmu_correct_lemma. Qed.
Print Assumptions bin_kmu_counts.

(* ★ bin_kppi_counts: the same for (k_perp, k_par) bins; pi edges start at (or below) 0 *)
Theorem bin_kppi_counts : forall n E PI W T order sched,
  0 < n -> 0 < T -> incr E -> incr PI -> 2 <= len E -> 2 <= len PI -> (qnth PI 0 <= 0)%Q ->
  len W = n * n * (n / 2 + 1) -> valid_sched T sched -> Permutation order (range n) ->
  bin_kppi kppi_gen n E PI W T order sched = Ok (kppi_spec_counts n E PI, kppi_spec_wsums n E PI W).
Proof. exact bin_kppi_correct_lemma. Qed.
Print Assumptions bin_kppi_counts.

(* ★ thread_independent: two runs with different thread counts, execution orders and thread assignments return the
   same integer arrays (bin_kmu additionally needs its mu edges to reach 1) *)
Theorem thread_independent : forall n E M W T1 T2 order1 order2 sched1 sched2,
  0 < n -> 0 < T1 -> 0 < T2 -> incr E -> incr M -> 2 <= len E -> 2 <= len M -> (qnth M 0 <= 0)%Q ->
  len W = n * n * (n / 2 + 1) ->
  valid_sched T1 sched1 -> valid_sched T2 sched2 -> Permutation order1 (range n) -> Permutation order2 (range n) ->
  ((1 <= qlast M)%Q -> bin_kmu kmu_gen n E M W T1 order1 sched1 = bin_kmu kmu_gen n E M W T2 order2 sched2) /\
  bin_kppi kppi_gen n E M W T1 order1 sched1 = bin_kppi kppi_gen n E M W T2 order2 sched2.
Proof. exact thread_independent_lemma. Qed.
Print Assumptions thread_independent.

(* bin_means (extended): the per-bin weighted sum the kernels return — [kmu_spec_wsums], sums over the stored half with
   multiplicities — is the sum of the mesh value over exactly the modes of the FULL mesh in that bin, the mesh being
   extended to the full mesh by Hermitian symmetry ([full_val]: the value at (a, b, c), c beyond the stored half, is the
   stored value at (-a, -b, -c)); the reported mean is this sum divided by the count of bin_kmu_counts *)
Theorem bin_means : forall n E M W b m, 0 < n ->
  kmu_full_wsum n E M W b m = kmu_half_wsum n E M W b m.
Proof. exact bin_means_full_lemma. Qed.
Print Assumptions bin_means.

(* pole0_is_mu_average (extended): on the arrays bin_kmu returns, wedge mean x wedge count = wedge sum for every wedge
   (also the empty ones), and (l = 0 pole) x N_mode_poles = sum over mu of the wedge sums: the monopole is the
   mode-weighted average over mu of the wedge means *)
Theorem pole0_is_mu_average : forall n E M W b,
  0 < n -> 0 <= b < len E - 1 ->
  let Nmu := len M - 1 in
  let cnt := kmu_spec_counts n E M in
  let ws := kmu_spec_wsums n E M W in
  let at_ (arr : list Z) (m : Z) := nth (Z.to_nat (b * Nmu + m)) arr 0 in
  (forall m, 0 <= m < Nmu -> (mean_of (at_ ws m) (at_ cnt m) * inject_Z (at_ cnt m) == inject_Z (at_ ws m))%Q) /\
  (mean_of (row_sum Nmu ws b) (row_sum Nmu cnt b) * inject_Z (row_sum Nmu cnt b)
     == inject_Z (sumZ 0 Nmu (fun m => at_ ws m)))%Q.
Proof. exact pole0_is_mu_average_lemma. Qed.
Print Assumptions pole0_is_mu_average.

(* P_n_is_legendre (extended): the explicit sum P_n evaluates (hand model [P_n_even] of the loop of P_n, as a polynomial
   in x = mu^2) is the Legendre polynomial of the Bonnet recursion, for the even orders up to the documented maximum 10 *)
Theorem P_n_is_legendre : forall l, In l [0; 2; 4; 6; 8; 10] ->
  forall mu : Q, (P_n_even (mu * mu) l == legendre (Z.to_nat l) mu)%Q.
Proof. exact P_n_is_legendre_lemma. Qed.
Print Assumptions P_n_is_legendre.

(* odd orders (valid input: poles may contain 1, 3, ...): with x = mu^2 the loop's half-integer powers x ** ((l-2k)/2) are
   mu^(l-2k), and the sum is the Legendre polynomial P_l(mu), mu >= 0 — so an odd pole is the mode mean of
   (2l+1) P_l(|mu|) * value; the two transcriptions of the loop agree on even orders *)
Theorem P_n_odd_is_legendre : forall l, In l [1; 3; 5; 7; 9] ->
  forall mu : Q, (P_n_mu mu l == legendre (Z.to_nat l) mu)%Q.
Proof. exact P_n_odd_is_legendre_lemma. Qed.
Print Assumptions P_n_odd_is_legendre.

Theorem P_n_mu_even : forall l, In l [0; 2; 4; 6; 8; 10] ->
  forall mu : Q, (P_n_mu mu l == P_n_even (mu * mu) l)%Q.
Proof. exact P_n_mu_even_lemma. Qed.
Print Assumptions P_n_mu_even.

(* the ingredients of P_n are regenerated from the source (factorial table, the guard of `factorial`, n_choose_k, the loop
   range / factor / parity / exponent of P_n; the three function bodies are also compared textually by the generator):
   the table holds 0!..20!, `factorial` accepts exactly the indices of the table, n_choose_k is the binomial coefficient
   wherever it is defined, and for every supported order 0..10 the regenerated loop yields term by term the transcription
   Model.pn_terms that P_n_is_legendre / P_n_odd_is_legendre are about, without leaving the table *)
Theorem factorial_table_correct : gen_fact_table = map (fun n => zfact (Z.to_nat n)) (range 21).
Proof. exact fact_table_correct_lemma. Qed.
Print Assumptions factorial_table_correct.

Theorem n_choose_k_is_binomial : forall n k, 0 <= k <= n -> n <= 20 ->
  gen_fact_guard n = false /\ gen_choose n k = choose n k.
Proof.
  intros n k Hk Hn. split; [apply fact_guard_lemma; change (len gen_fact_table) with 21; lia|].
  exact (gen_choose_correct_lemma n k Hk Hn).
Qed.
Print Assumptions n_choose_k_is_binomial.

Theorem P_n_terms_regenerated : forall l, In l [0; 1; 2; 3; 4; 5; 6; 7; 8; 9; 10] ->
  gen_pn_terms l = pn_terms l /\
  forall k, 0 <= k < gen_pn_range l ->
    gen_fact_guard l = false /\ gen_fact_guard k = false /\ gen_fact_guard (l - k) = false /\
    gen_fact_guard (2 * l - 2 * k) = false /\ gen_fact_guard (2 * l - 2 * k - l) = false.
Proof.
  intros l Hl. split; [exact (pn_terms_regenerated_lemma l Hl)|].
  intros k Hk. apply pn_factorials_in_table_lemma; [|exact Hk].
  cbn [In] in Hl. repeat (destruct Hl as [<-|Hl]; [lia|]). destruct Hl.
Qed.
Print Assumptions P_n_terms_regenerated.

(* thread bookkeeping (the order of numba.set_num_threads / get_num_threads / accumulator allocation / prange loop is
   regenerated from both kernels): whatever thread count earlier numba code left in force and whatever nthread is
   requested, every accumulator indexed by numba.get_thread_id() has at least as many slabs as the loop has threads —
   the hypothesis `0 <= sched i < T` of the counting theorems above is met by every thread id the loop can produce *)
Theorem accumulators_cover_threads : threads_covered kmu_tevents /\ threads_covered kppi_tevents.
Proof. exact (conj kmu_threads_covered_lemma kppi_threads_covered_lemma). Qed.
Print Assumptions accumulators_cover_threads.
