(* C08/Proofs.v — the lemmas behind Properties.v, about the definitions regenerated in Gen.v. *)
From Coq Require Import ZArith QArith List Bool Lia Lqa ZifyBool Permutation.
From Abacus.Common Require Import Arr Num.
From Abacus.C08 Require Import Parts Spec Lib Model Gen ProofsFold ProofsSearch ProofsPar ProofsKmu ProofsKppi.
Import ListNotations.
Local Open Scope Z_scope.

(* ---- fold --------------------------------------------------------------------------------------------- *)
Lemma fold_is_fftfreq_sq_lemma :
  Forall (fun f => forall n i, 0 < n -> 0 <= i < n -> f i n = (fftfreq n i) ^ 2) fold_sites /\
  Forall (fun f => forall n i, 0 < n -> 0 <= i < n -> f i n = fftfreq n i) freq_sites.
Proof. split; [exact fold_sites_ok|exact freq_sites_ok]. Qed.

Lemma fold_kernels_lemma : forall n i, 0 < n -> 0 <= i < n ->
  kmu_fold_i i n = (fftfreq n i) ^ 2 /\ kmu_fold_j i n = (fftfreq n i) ^ 2 /\
  kppi_fold_i i n = (fftfreq n i) ^ 2 /\ kppi_fold_j i n = (fftfreq n i) ^ 2.
Proof.
  intros n i Hn Hi.
  split; [apply kmu_fold_i_ok; assumption|]. split; [apply kmu_fold_j_ok; assumption|].
  split; [apply kppi_fold_i_ok; assumption|apply kppi_fold_j_ok; assumption].
Qed.

Lemma fftfreq_spec_lemma : forall n i, 0 < n -> 0 <= i < n ->
  (fftfreq n i - i) mod n = 0 /\ - n <= 2 * fftfreq n i < n.
Proof. exact fftfreq_char. Qed.

(* ---- multiplicities ------------------------------------------------------------------------------------- *)
Lemma halfmesh_1d_lemma : forall n (g : Z -> Z), 0 < n ->
  sumZ 0 n (fun c => g ((fftfreq n c) ^ 2)) = sumZ 0 (n / 2 + 1) (fun k => smult n k * g (k ^ 2)).
Proof. exact halfmesh_1d. Qed.

Lemma halfmesh_multiset_lemma : forall n (g : Z -> Z -> Z -> Z), 0 < n ->
  sumZ 0 n (fun a => sumZ 0 n (fun b => sumZ 0 n (fun c =>
     g ((fftfreq n a) ^ 2) ((fftfreq n b) ^ 2) ((fftfreq n c) ^ 2)))) =
  sumZ 0 n (fun a => sumZ 0 n (fun b => sumZ 0 (n / 2 + 1) (fun k =>
     smult n k * g ((fftfreq n a) ^ 2) ((fftfreq n b) ^ 2) (k ^ 2)))).
Proof. exact halfmesh_3d. Qed.

Lemma mult_sites_lemma : forall n k w x,
  kmu_mult k n = smult n k /\ kmu_wmult k n w = smult n k * w /\
  kmu_kavg_mult k n w x = smult n k * (w * x) /\ kmu_pole_mult k n w x = smult n k * (w * x) /\
  kppi_mult k n = smult n k /\ kppi_wmult k n w = smult n k * w.
Proof.
  intros n k w x.
  split; [apply kmu_mult_ok|]. split; [apply kmu_wmult_ok|]. split; [apply kmu_kavg_mult_ok|].
  split; [apply kmu_pole_mult_ok|]. split; [apply kppi_mult_ok|apply kppi_wmult_ok].
Qed.

(* ---- the search ------------------------------------------------------------------------------------------- *)
(* the search as regenerated from the two `while` loops of bin_kmu and the two of bin_kppi *)
Definition gen_search_k (E : list Q) (x : Q) (b : Z) : res Z := search (S (length E)) kmu_adv_k kmu_kidx kmu_kstep E x b.
Definition gen_search_mu (E : list Q) (x : Q) (b : Z) : res Z := search (S (length E)) kmu_adv_mu kmu_muidx kmu_mustep E x b.
Definition gen_search_kperp (E : list Q) (x : Q) (b : Z) : res Z := search (S (length E)) kppi_adv_k kppi_kidx kppi_kstep E x b.
Definition gen_search_pi (E : list Q) (x : Q) (b : Z) : res Z := search (S (length E)) kppi_adv_pi kppi_piidx kppi_pistep E x b.

Definition searches_agree (f : list Q -> Q -> Z -> res Z) : Prop :=
  forall E x b, f E x b = search_code (S (length E)) E x b.

Lemma gen_searches_are_code :
  searches_agree gen_search_k /\ searches_agree gen_search_mu /\ searches_agree gen_search_kperp /\ searches_agree gen_search_pi.
Proof.
  split; [|split; [|split]]; intros E x b; unfold search_code;
    [apply (search_ext _ _ _ _ _ _ _ E x b (ok_adv_k _ kmu_gen_ok) (ok_kidx _ kmu_gen_ok) (ok_kstep _ kmu_gen_ok))
    |apply (search_ext _ _ _ _ _ _ _ E x b (ok_adv_mu _ kmu_gen_ok) (ok_muidx _ kmu_gen_ok) (ok_mustep _ kmu_gen_ok))
    |apply (search_ext _ _ _ _ _ _ _ E x b (pk_adv_k _ kppi_gen_ok) (pk_kidx _ kppi_gen_ok) (pk_kstep _ kppi_gen_ok))
    |apply (search_ext _ _ _ _ _ _ _ E x b (pk_adv_pi _ kppi_gen_ok) (pk_piidx _ kppi_gen_ok) (pk_pistep _ kppi_gen_ok))].
Qed.

(* one step: started anywhere at or below the right bin, the search ends in the bin whose interval contains x,
   which is unique, and never reads past the last edge (Ok, not Oob) *)
Lemma search_step_lemma : forall f, In f [gen_search_k; gen_search_mu; gen_search_kperp; gen_search_pi] ->
  forall E x b,
  incr E -> 0 <= b -> b + 1 < len E -> (b = 0 \/ (qnth E b < x)%Q) -> (qnth E 0 <= x)%Q -> (x <= qlast E)%Q ->
  exists b', f E x b = Ok b' /\ b <= b' /\ b' + 1 < len E /\ in_bin E b' x = true /\
    (forall c, 0 <= c -> c + 1 < len E -> in_bin E c x = true -> c = b').
Proof.
  intros f Hf E x b HI Hb0 Hb1 Hlb Hlo Hhi.
  assert (Hfc : f E x b = search_code (S (length E)) E x b).
  { destruct gen_searches_are_code as [A [B [C D]]].
    cbn [In] in Hf. destruct Hf as [<-|[<-|[<-|[<-|[]]]]]; [apply A|apply B|apply C|apply D]. }
  rewrite Hfc.
  destruct (search_std (S (length E)) E x b HI Hb0 Hb1 Hhi) as [b' [Es [B1 [B2 [B3 B4]]]]].
  { unfold len. lia. }
  exists b'. split; [exact Es|]. split; [exact B1|]. split; [exact B2|].
  assert (Hbin : in_bin E b' x = true).
  { apply in_bin_intro; [intros _; exact Hlo| |exact B3].
    intros Hne. destruct B4 as [->|B4]; [|exact B4]. destruct Hlb as [?|?]; [lia|assumption]. }
  split; [exact Hbin|].
  intros c Hc0 Hc1 Hc. apply (in_bin_unique E c b' x HI); try lia; assumption.
Qed.

(* along a non-decreasing sequence: carry the index from one element to the next *)
Fixpoint run_search (f : list Q -> Q -> Z -> res Z) (E : list Q) (xs : list Q) (b : Z) : res (list Z) :=
  match xs with
  | [] => Ok []
  | x :: t => bind (f E x b) (fun b' => bind (run_search f E t b') (fun r => Ok (b' :: r)))
  end.

Fixpoint nondecreasing (xs : list Q) : Prop :=
  match xs with
  | [] => True
  | x :: t => match t with [] => True | y :: _ => (x <= y)%Q end /\ nondecreasing t
  end.

Lemma run_search_lemma_aux : forall f, In f [gen_search_k; gen_search_mu; gen_search_kperp; gen_search_pi] ->
  forall E, incr E -> 2 <= len E ->
  forall xs b, nondecreasing xs -> Forall (fun x => (qnth E 0 <= x)%Q /\ (x <= qlast E)%Q) xs ->
  0 <= b -> b + 1 < len E -> (b = 0 \/ match xs with [] => True | x :: _ => (qnth E b < x)%Q end) ->
  exists bs, run_search f E xs b = Ok bs /\
    Forall2 (fun x b' => f E x 0 = Ok b' /\ in_bin E b' x = true /\ 0 <= b' /\ b' + 1 < len E) xs bs.
Proof.
  intros f Hf E HI HlE. induction xs as [|x t IH]; intros b Hnd Hall Hb0 Hb1 Hlb.
  - exists []. split; [reflexivity|constructor].
  - cbn [run_search]. inversion Hall as [|x' t' [Hlo Hhi] Hrest]; subst.
    destruct Hnd as [Hxy Hnd].
    destruct (search_step_lemma f Hf E x b HI Hb0 Hb1) as [b' [Es [B1 [B2 [B3 B4]]]]]; try assumption.
    rewrite Es. cbn [bind].
    destruct (IH b' Hnd Hrest ltac:(lia) B2) as [bs [Er Hf2]].
    { destruct (Z.eq_dec b' 0) as [?|Hne]; [left; assumption|right].
      destruct t as [|y t']; [exact I|].
      apply in_bin_elim in B3. destruct B3 as [_ [L _]]. specialize (L Hne). lra. }
    rewrite Er. cbn [bind]. exists (b' :: bs). split; [reflexivity|].
    constructor; [|exact Hf2].
    (* from scratch *)
    destruct (search_step_lemma f Hf E x 0 HI ltac:(lia) ltac:(lia) ltac:(left; reflexivity) Hlo Hhi)
      as [b0 [Es0 [C1 [C2 [C3 C4]]]]].
    assert (b' = b0) by (apply C4; [lia|exact B2|exact B3]). subst b0.
    repeat split; try assumption; lia.
Qed.

Lemma incremental_search_correct_lemma :
  forall f, In f [gen_search_k; gen_search_mu; gen_search_kperp; gen_search_pi] ->
  forall E xs, incr E -> 2 <= len E -> nondecreasing xs ->
  Forall (fun x => (qnth E 0 <= x)%Q /\ (x <= qlast E)%Q) xs ->
  exists bs, run_search f E xs 0 = Ok bs /\
    Forall2 (fun x b' => f E x 0 = Ok b' /\ in_bin E b' x = true /\ 0 <= b' /\ b' + 1 < len E) xs bs.
Proof.
  intros f Hf E xs HI HlE Hnd Hall.
  apply (run_search_lemma_aux f Hf E HI HlE xs 0 Hnd Hall); [lia|lia|left; reflexivity].
Qed.

(* break on the innermost (monotone) loop drops nothing: one (i, j) row of bin_kmu accumulates the sum over ALL kz *)
Lemma kmu_row_complete_lemma : forall n E M W T tid i j cnt ws,
  0 < n -> 0 < T -> incr E -> incr M -> 2 <= len E -> 2 <= len M -> (qnth M 0 <= 0)%Q -> (1 <= qlast M)%Q ->
  len W = n * n * (n / 2 + 1) ->
  0 <= tid < T -> 0 <= i < n -> 0 <= j < n ->
  len cnt = T * (len E - 1) * (len M - 1) -> len ws = T * (len E - 1) * (len M - 1) ->
  exists cnt' ws', kmu_jbody kmu_gen n E M W T tid i ((fftfreq n i) ^ 2) j (cnt, ws) = Ok (cnt', ws') /\
    adds T (len E - 1) (len M - 1) cnt cnt' (fun t b m => if t =? tid then
       sumZ 0 (n / 2 + 1) (fun k => smult n k * ind_kmu E M b m ((fftfreq n i) ^ 2 + (fftfreq n j) ^ 2) (k ^ 2)) else 0).
Proof.
  intros n E M W T tid i j cnt ws Hn HT HE HM HlE HlM HM0 HM1 HW Htid Hi Hj Lc Lw.
  destruct (jbody_ok kmu_gen kmu_gen_ok n E M W T Hn HE HM HlE HlM HM0 HM1 HW tid i (f2 n i) j cnt ws Htid Hi Hj
              (f2_nonneg n i) Lc Lw) as [c' [w' [Ev [Ac _]]]].
  exists c', w'. split; [exact Ev|]. exact Ac.
Qed.

(* ---- the kernels ------------------------------------------------------------------------------------------ *)
Lemma bin_kmu_correct_lemma : forall n E M W T order sched,
  0 < n -> 0 < T -> incr E -> incr M -> 2 <= len E -> 2 <= len M -> (qnth M 0 <= 0)%Q -> (1 <= qlast M)%Q ->
  len W = n * n * (n / 2 + 1) -> valid_sched T sched -> Permutation order (range n) ->
  bin_kmu kmu_gen n E M W T order sched = Ok (kmu_spec_counts n E M, kmu_spec_wsums n E M W).
Proof.
  intros n E M W T order sched Hn HT HE HM HlE HlM HM0 HM1 HW Hs Hp.
  exact (bin_kmu_ok kmu_gen kmu_gen_ok n E M W T Hn HT HE HM HlE HlM HM0 HM1 HW order sched Hs Hp).
Qed.

Lemma bin_kppi_correct_lemma : forall n E PI W T order sched,
  0 < n -> 0 < T -> incr E -> incr PI -> 2 <= len E -> 2 <= len PI -> (qnth PI 0 <= 0)%Q ->
  len W = n * n * (n / 2 + 1) -> valid_sched T sched -> Permutation order (range n) ->
  bin_kppi kppi_gen n E PI W T order sched = Ok (kppi_spec_counts n E PI, kppi_spec_wsums n E PI W).
Proof.
  intros n E PI W T order sched Hn HT HE HPI HlE HlP HP0 HW Hs Hp.
  exact (bin_kppi_ok kppi_gen kppi_gen_ok n E PI W T Hn HT HE HPI HlE HlP HP0 HW order sched Hs Hp).
Qed.

Lemma thread_independent_lemma : forall n E M W T1 T2 order1 order2 sched1 sched2,
  0 < n -> 0 < T1 -> 0 < T2 -> incr E -> incr M -> 2 <= len E -> 2 <= len M -> (qnth M 0 <= 0)%Q ->
  len W = n * n * (n / 2 + 1) ->
  valid_sched T1 sched1 -> valid_sched T2 sched2 -> Permutation order1 (range n) -> Permutation order2 (range n) ->
  ((1 <= qlast M)%Q -> bin_kmu kmu_gen n E M W T1 order1 sched1 = bin_kmu kmu_gen n E M W T2 order2 sched2) /\
  bin_kppi kppi_gen n E M W T1 order1 sched1 = bin_kppi kppi_gen n E M W T2 order2 sched2.
Proof.
  intros n E M W T1 T2 o1 o2 s1 s2 Hn HT1 HT2 HE HM HlE HlM HM0 HW Hs1 Hs2 Hp1 Hp2. split.
  - intros HM1. rewrite !bin_kmu_correct_lemma by assumption. reflexivity.
  - rewrite !bin_kppi_correct_lemma by assumption. reflexivity.
Qed.
