(* C08/Spec.v — what "every Fourier mode is binned exactly once" means, written without looking at the kernels.

   Full mesh: indices (a, b, c) in [0,n)^3 with signed integer frequencies numpy.fft.fftfreq gives them.
   A mode lies in k-bin b when its |k|^2 is inside the binned range and inside bin b, and in mu-bin m when its
   mu^2 = kz^2/|k|^2 (0 for the zero mode) is inside bin m.  Bin convention as coded: the first bin is closed on the
   left, every bin is closed on the right, the binned k (or pi) range as a whole is open at its last edge.
   Edges are the *squared* edges in units of the fundamental (what the kernels compare with), exact rationals.
   The specification of the counts is the plain triple sum over the full mesh of the indicator of the bin. *)
From Coq Require Import ZArith QArith List Bool Lia.
From Abacus.Common Require Import Arr Num.
Import ListNotations.
Local Open Scope Z_scope.

(* numpy.fft.fftfreq(n, 1/n)[i], transcribed from numpy/fft/_helper.py:
     N = (n-1)//2 + 1 ; results[:N] = arange(0, N) ; results[N:] = arange(-(n//2), 0) *)
Definition fftfreq (n i : Z) : Z :=
  let N := (n - 1) / 2 + 1 in
  if i <? N then i else - (n / 2) + (i - N).

(* number of full-mesh modes (a, b, +-k) represented by the half-mesh entry (a, b, k): planes that are their own
   conjugate (kz = 0, and kz = n/2 on an even mesh) count once, every other plane stands for itself and its mirror *)
Definition smult (n k : Z) : Z := if (k =? 0) || (2 * k =? n) then 1 else 2.

(* finite sums over integer ranges *)
Fixpoint sum_n (m : nat) (lo : Z) (f : Z -> Z) : Z :=
  match m with O => 0 | S m' => f lo + sum_n m' (lo + 1) f end.
Definition sumZ (lo hi : Z) (f : Z -> Z) : Z := sum_n (Z.to_nat (hi - lo)) lo f.

Definition lsum (l : list Z) (f : Z -> Z) : Z := fold_right (fun i acc => f i + acc) 0 l.

Definition range (n : Z) : list Z := map Z.of_nat (seq 0 (Z.to_nat n)).

Definition qnth (E : list Q) (b : Z) : Q := nth (Z.to_nat b) E 0%Q.
Definition qlast (E : list Q) : Q := qnth E (len E - 1).

(* strictly increasing edges *)
Definition incr (E : list Q) : Prop := forall a b, 0 <= a -> a < b -> b < len E -> (qnth E a < qnth E b)%Q.

(* the same, decidable (adjacent edges) *)
Fixpoint incrb (E : list Q) : bool :=
  match E with
  | [] => true
  | x :: t => match t with [] => true | y :: _ => Qltb x y && incrb t end
  end.

Definition in_bin (E : list Q) (b : Z) (x : Q) : bool :=
  (if b =? 0 then Qle_bool (qnth E 0) x else Qltb (qnth E b) x) && Qle_bool x (qnth E (b + 1)).

Definition in_range (E : list Q) (x : Q) : bool := Qle_bool (qnth E 0) x && Qltb x (qlast E).

(* mu^2 of a mode with |k|^2 = kk and kz^2 = kz2 *)
Definition mu2q (kk kz2 : Z) : Q := if 0 <? kk then (inject_Z kz2 / inject_Z kk)%Q else 0%Q.

(* indicator that a mode with kx^2 + ky^2 = s and kz^2 = kz2 falls into (k-bin b, mu-bin m) *)
Definition ind_kmu (E M : list Q) (b m s kz2 : Z) : Z :=
  b2z (in_range E (inject_Z (s + kz2)) && in_bin E b (inject_Z (s + kz2)) && in_bin M m (mu2q (s + kz2) kz2)).

(* ... into (k_perp-bin b, k_par-bin p) *)
Definition ind_kppi (E PI : list Q) (b p s kz2 : Z) : Z :=
  b2z (in_range E (inject_Z s) && in_bin E b (inject_Z s)
       && in_range PI (inject_Z kz2) && in_bin PI p (inject_Z kz2)).

Definition f2 (n a : Z) : Z := (fftfreq n a) ^ 2.

(* THE SPECIFICATION: number of modes of the full n^3 mesh in the bin *)
Definition kmu_full_count (n : Z) (E M : list Q) (b m : Z) : Z :=
  sumZ 0 n (fun a => sumZ 0 n (fun bb => sumZ 0 n (fun c => ind_kmu E M b m (f2 n a + f2 n bb) (f2 n c)))).

Definition kppi_full_count (n : Z) (E PI : list Q) (b p : Z) : Z :=
  sumZ 0 n (fun a => sumZ 0 n (fun bb => sumZ 0 n (fun c => ind_kppi E PI b p (f2 n a + f2 n bb) (f2 n c)))).

(* Hermitian extension of a half-complex mesh W of shape (n, n, n/2+1) holding a real, even quantity (|delta_k|^2):
   the value at full-mesh index (a, b, c) with c beyond the stored half is the stored value of the mirror mode *)
Definition at_half (n : Z) (W : list Z) (a b c : Z) : Z :=
  nth (Z.to_nat ((a * n + b) * (n / 2 + 1) + c)) W 0.
Definition full_val (n : Z) (W : list Z) (a b c : Z) : Z :=
  if c <? n / 2 + 1 then at_half n W a b c else at_half n W ((n - a) mod n) ((n - b) mod n) (n - c).

(* sum of the mesh value over the full-mesh modes in the bin *)
Definition kmu_full_wsum (n : Z) (E M : list Q) (W : list Z) (b m : Z) : Z :=
  sumZ 0 n (fun a => sumZ 0 n (fun bb => sumZ 0 n (fun c =>
    full_val n W a bb c * ind_kmu E M b m (f2 n a + f2 n bb) (f2 n c)))).

(* the same sums over the stored half with multiplicities (what a correct kernel accumulates) *)
Definition kmu_half_wsum (n : Z) (E M : list Q) (W : list Z) (b m : Z) : Z :=
  sumZ 0 n (fun a => sumZ 0 n (fun bb => sumZ 0 (n / 2 + 1) (fun k =>
    smult n k * at_half n W a bb k * ind_kmu E M b m (f2 n a + f2 n bb) (k ^ 2)))).

Definition kppi_half_wsum (n : Z) (E PI : list Q) (W : list Z) (b p : Z) : Z :=
  sumZ 0 n (fun a => sumZ 0 n (fun bb => sumZ 0 (n / 2 + 1) (fun k =>
    smult n k * at_half n W a bb k * ind_kppi E PI b p (f2 n a + f2 n bb) (k ^ 2)))).

(* the reduced output arrays, flat (Nk x Nmu), as the specification wants them *)
Definition kmu_spec_counts (n : Z) (E M : list Q) : list Z :=
  let Nmu := len M - 1 in
  map (fun c => kmu_full_count n E M (c / Nmu) (c mod Nmu)) (range ((len E - 1) * Nmu)).
Definition kmu_spec_wsums (n : Z) (E M : list Q) (W : list Z) : list Z :=
  let Nmu := len M - 1 in
  map (fun c => kmu_half_wsum n E M W (c / Nmu) (c mod Nmu)) (range ((len E - 1) * Nmu)).
Definition kppi_spec_counts (n : Z) (E PI : list Q) : list Z :=
  let Npi := len PI - 1 in
  map (fun c => kppi_full_count n E PI (c / Npi) (c mod Npi)) (range ((len E - 1) * Npi)).
Definition kppi_spec_wsums (n : Z) (E PI : list Q) (W : list Z) : list Z :=
  let Npi := len PI - 1 in
  map (fun c => kppi_half_wsum n E PI W (c / Npi) (c mod Npi)) (range ((len E - 1) * Npi)).

(* a valid schedule: every iteration of the parallel loop runs on one of the T threads *)
Definition valid_sched (T : Z) (sched : Z -> Z) : Prop := forall i, 0 <= sched i < T.

(* Legendre polynomials by the Bonnet recursion  (l+1) P_{l+1} = (2l+1) x P_l - l P_{l-1}  *)
Fixpoint legendre_pair (l : nat) (x : Q) : Q * Q :=   (* (P_l, P_{l-1}) *)
  match l with
  | O => (1, 0)%Q
  | S l' => let '(p, pm) := legendre_pair l' x in
            let lz := inject_Z (Z.of_nat l') in
            ((((2 * lz + 1) * x * p - lz * pm) / (lz + 1))%Q, p)
  end.
Definition legendre (l : nat) (x : Q) : Q := fst (legendre_pair l x).
