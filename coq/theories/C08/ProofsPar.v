(* C08/ProofsPar.v — the parallel loop with per-thread slabs and the reduction over slabs, generically:
   if every iteration i adds a slab-independent contribution row(i) into the slab of the thread that runs it, then for
   every execution order (a permutation of the iterations) and every assignment of iterations to threads the reduced
   array is  sum_i row(i)  — the schedule drops out. *)
From Coq Require Import ZArith QArith List Bool Lia ZifyBool Permutation.
From Abacus.Common Require Import Arr Num.
From Abacus.C08 Require Import Parts Spec Lib Model ProofsSearch.
Import ListNotations.
Local Open Scope Z_scope.

Ltac Zify.zify_post_hook ::= Z.to_euclidean_division_equations.

Lemma loop_brk_inv {S} (P : Z -> S -> Prop) (body : Z -> S -> res (bool * S)) : forall m lo s,
  P lo s ->
  (forall k s, lo <= k < lo + Z.of_nat m -> P k s -> exists s', body k s = Ok (true, s') /\ P (k + 1) s') ->
  exists s', loop_brk m lo body s = Ok s' /\ P (lo + Z.of_nat m) s'.
Proof.
  induction m as [|m IH]; intros lo s H0 Hstep.
  - exists s. split; [reflexivity|]. replace (lo + Z.of_nat 0) with lo by lia. exact H0.
  - cbn [loop_brk]. destruct (Hstep lo s) as [s1 [E1 P1]]; [lia|exact H0|].
    rewrite E1. cbn [bind fst snd].
    destruct (IH (lo + 1) s1 P1) as [s2 [E2 P2]].
    + intros k s' Hk Pk. apply Hstep; [lia|exact Pk].
    + exists s2. split; [exact E2|]. replace (lo + Z.of_nat (Datatypes.S m)) with (lo + 1 + Z.of_nat m) by lia. exact P2.
Qed.

Section PAR.
  Variables (T d1 d2 n : Z).
  Variable body : Z -> list Z * list Z -> res (list Z * list Z).
  Variable sched : Z -> Z.
  Variables (crow wrow : Z -> Z -> Z -> Z).
  Hypothesis HT : 0 < T.
  Hypothesis Hd1 : 0 <= d1.
  Hypothesis Hd2 : 0 < d2.
  Hypothesis Hs : valid_sched T sched.
  Hypothesis Hbody : forall i cnt ws, 0 <= i < n -> len cnt = T * d1 * d2 -> len ws = T * d1 * d2 ->
    exists cnt' ws', body i (cnt, ws) = Ok (cnt', ws') /\
      adds T d1 d2 cnt cnt' (fun t b m => if t =? sched i then crow i b m else 0) /\
      adds T d1 d2 ws ws' (fun t b m => if t =? sched i then wrow i b m else 0).

  Lemma run_order_adds : forall order cnt ws,
    Forall (fun i => 0 <= i < n) order -> len cnt = T * d1 * d2 -> len ws = T * d1 * d2 ->
    exists cnt' ws', run_order order body (cnt, ws) = Ok (cnt', ws') /\
      adds T d1 d2 cnt cnt' (fun t b m => lsum order (fun i => if t =? sched i then crow i b m else 0)) /\
      adds T d1 d2 ws ws' (fun t b m => lsum order (fun i => if t =? sched i then wrow i b m else 0)).
  Proof.
    induction order as [|i order IH]; intros cnt ws Hall Lc Lw.
    - cbn [run_order]. exists cnt, ws. split; [reflexivity|]. split; apply adds_zero; reflexivity.
    - cbn [run_order]. inversion Hall as [|i' o' Hi Hrest]; subst.
      destruct (Hbody i cnt ws Hi Lc Lw) as [c1 [w1 [E1 [Ac1 Aw1]]]].
      rewrite E1. cbn [bind].
      destruct (IH c1 w1 Hrest) as [c2 [w2 [E2 [Ac2 Aw2]]]].
      { destruct Ac1 as [L _]. lia. }
      { destruct Aw1 as [L _]. lia. }
      exists c2, w2. split; [exact E2|]. split.
      + apply (adds_trans _ _ _ _ _ _ _ _ _ Ac1 Ac2). intros t b m _ _ _. reflexivity.
      + apply (adds_trans _ _ _ _ _ _ _ _ _ Aw1 Aw2). intros t b m _ _ _. reflexivity.
  Qed.

  Lemma reduce_lsum_gen order (arr : list Z) (R : Z -> Z -> Z -> Z) :
    (forall t b m, 0 <= t < T -> 0 <= b < d1 -> 0 <= m < d2 ->
       at3 arr d1 d2 t b m = lsum order (fun i => if t =? sched i then R i b m else 0)) ->
    reduce T (d1 * d2) arr = map (fun c => lsum order (fun i => R i (c / d2) (c mod d2))) (range (d1 * d2)).
  Proof.
    intros Hat. unfold reduce. apply map_ext_in. intros c Hc. apply in_range_list in Hc.
    assert (Hb : 0 <= c / d2 < d1).
    { split; [apply Z.div_pos; lia|]. apply Z.div_lt_upper_bound; [lia|]. rewrite Z.mul_comm. lia. }
    assert (Hm : 0 <= c mod d2 < d2) by (apply Z.mod_pos_bound; lia).
    rewrite (sumZ_ext 0 T _ (fun t => lsum order (fun i => if t =? sched i then R i (c / d2) (c mod d2) else 0))).
    2:{ intros t Ht. rewrite <- (Hat t (c / d2) (c mod d2) Ht Hb Hm). unfold at3. do 2 f_equal.
        rewrite (Z.div_mod c d2) at 1 by lia. ring. }
    rewrite lsum_sumZ_swap. apply lsum_ext. intros i _.
    apply sumZ_single. apply Hs.
  Qed.

  Lemma par_reduce_ok order : Permutation order (range n) ->
    bind (run_order order body (zeros (T * d1 * d2), zeros (T * d1 * d2)))
         (fun r => Ok (reduce T (d1 * d2) (fst r), reduce T (d1 * d2) (snd r))) =
    Ok (map (fun c => sumZ 0 n (fun i => crow i (c / d2) (c mod d2))) (range (d1 * d2)),
        map (fun c => sumZ 0 n (fun i => wrow i (c / d2) (c mod d2))) (range (d1 * d2))).
  Proof.
    intros Hperm.
    assert (Hsz : 0 <= T * d1 * d2) by nia.
    destruct (run_order_adds order (zeros (T * d1 * d2)) (zeros (T * d1 * d2))) as [cnt [ws [Ev [Ac Aw]]]].
    { apply Forall_forall. intros i Hin. apply in_range_list. apply (Permutation_in _ Hperm Hin). }
    { apply zeros_len. exact Hsz. }
    { apply zeros_len. exact Hsz. }
    rewrite Ev. cbn [bind fst snd]. f_equal. f_equal.
    - rewrite (reduce_lsum_gen order cnt crow).
      2:{ intros t b m Ht Hb Hm. destruct Ac as [_ Ac]. rewrite (Ac t b m Ht Hb Hm). unfold at3. rewrite zeros_nth. lia. }
      apply map_ext. intros c. rewrite (lsum_perm _ _ _ Hperm). rewrite lsum_range. reflexivity.
    - rewrite (reduce_lsum_gen order ws wrow).
      2:{ intros t b m Ht Hb Hm. destruct Aw as [_ Aw]. rewrite (Aw t b m Ht Hb Hm). unfold at3. rewrite zeros_nth. lia. }
      apply map_ext. intros c. rewrite (lsum_perm _ _ _ Hperm). rewrite lsum_range. reflexivity.
  Qed.
End PAR.
