(* C19/Examples.v — non-vacuity of the hypotheses and regression values. *)
From Coq Require Import ZArith List.
From Abacus.Common Require Import Arr.
From Abacus.C19 Require Import Spec Gen.
Import ListNotations.
Local Open Scope Z_scope.

Example hyp_nonvacuous_general : len [0; 0; 0; 0; 0] = expected_len [1; 2; 3; 4] true true.
Proof. reflexivity. Qed.
Example hyp_nonvacuous_empty_both : len [7] = expected_len [] true true.
Proof. reflexivity. Qed.
Example hyp_nonvacuous_empty_final : len (@nil Z) = expected_len [] false true.
Proof. reflexivity. Qed.
Example hyp_nonvacuous_single : len (@nil Z) = expected_len [5] false false.
Proof. reflexivity. Qed.

Example ex1 : cumsum [1; 2; 3; 4] [0; 0; 0; 0] false true 0 = Ok ([1; 3; 6; 10], 10).
Proof. vm_compute. reflexivity. Qed.
Example ex2 : cumsum [1; 2; 3; 4] [9; 9; 9; 9; 9] true true 0 = Ok ([0; 1; 3; 6; 10], 10).
Proof. vm_compute. reflexivity. Qed.
Example ex3 : cumsum [1; 2; 3; 4] [9; 9; 9] false false 5 = Ok ([6; 8; 11], 15).
Proof. vm_compute. reflexivity. Qed.
Example ex_empty_final : cumsum [] [] false true 3 = Ok ([], 3).
Proof. vm_compute. reflexivity. Qed.
Example ex_empty_both : cumsum [] [9] true true 3 = Ok ([3], 3).
Proof. vm_compute. reflexivity. Qed.
Example ex_empty_initial : cumsum [] [] true false 3 = Ok ([], 3).
Proof. vm_compute. reflexivity. Qed.
Example ex_empty_neither : cumsum [] [] false false 3 = Raise ValueError.
Proof. vm_compute. reflexivity. Qed.
Example ex_single : cumsum [5] [] false false 1 = Ok ([], 6).
Proof. vm_compute. reflexivity. Qed.
