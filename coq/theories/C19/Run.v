(* C19/Run.v — executable glue for the correspondence check (no theorem depends on it). *)
From Coq Require Import ZArith List Bool.
From Abacus.Common Require Import Arr Corr.
From Abacus.C19 Require Import Spec Gen.
Import ListNotations.
Local Open Scope Z_scope.

Definition case := (list Z * list Z * bool * bool * Z)%type.

Definition run (c : case) : val :=
  let '(arr, out, initial, final, offset) := c in
  vres (fun '(o, t) => VL [vlistZ o; VZ t]) (cumsum arr out initial final offset).

(* the property predicate evaluated on the model: used to search for a failing input when a proof breaks *)
Definition holds (c : case) : bool :=
  let '(arr, out, initial, final, offset) := c in
  if len out =? expected_len arr initial final then
    val_eqb (run c) (VL [vlistZ (spec_out arr initial final offset); VZ (spec_total arr offset)])
  else val_eqb (run c) (VRaise ValueError).
