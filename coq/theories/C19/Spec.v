(* C19/Spec.v — the specification of the cumulative-sum helper, independent of the code.

   prefix_sums off [a1..aN] = [S0; S1; ...; SN]  with  Sk = off + a1 + ... + ak   (N+1 entries).
   The helper's output is that list with S0 dropped unless `initial` and SN dropped unless `final`;
   its length is N - 1 + initial + final for every N >= 0 with the one exception N = 0, neither flag
   (the formula gives -1: no output array has that length, so every call is rejected). *)
From Coq Require Import ZArith List Bool Lia.
From Abacus.Common Require Import Arr.
Import ListNotations.
Local Open Scope Z_scope.

Fixpoint zsum (l : list Z) : Z := match l with [] => 0 | x :: t => x + zsum t end.

Fixpoint prefix_sums (acc : Z) (l : list Z) : list Z :=
  acc :: match l with [] => [] | x :: t => prefix_sums (acc + x) t end.

Definition select (initial final : bool) (p : list Z) : list Z :=
  let p1 := if final then p else removelast p in
  if initial then p1 else tl p1.

Definition spec_out (arr : list Z) (initial final : bool) (offset : Z) : list Z :=
  select initial final (prefix_sums offset arr).

Definition spec_total (arr : list Z) (offset : Z) : Z := offset + zsum arr.

(* numpy.cumsum, written independently *)
Fixpoint np_cumsum (acc : Z) (l : list Z) : list Z :=
  match l with [] => [] | x :: t => (acc + x) :: np_cumsum (acc + x) t end.

Definition expected_len (arr : list Z) (initial final : bool) : Z :=
  len arr - 1 + b2z initial + b2z final.
