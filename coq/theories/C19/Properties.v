(* C19/Properties.v — the property theorems, about the model regenerated from abacusnbody/util.py.
   Nothing but statements closed by `exact` and their assumptions. *)
From Coq Require Import ZArith List.
From Abacus.Common Require Import Arr.
From Abacus.C19 Require Import Spec Gen Proofs.
Import ListNotations.
Local Open Scope Z_scope.

(* For every input length (0 and 1 included), flag pair, offset and initial content of `out`:
   an output array of the selected length is filled with exactly the selected partial sums, the grand total is
   returned, and no access is out of bounds (the result is Ok, not Oob). *)
Theorem cumsum_correct : forall arr out initial final offset,
  len out = expected_len arr initial final ->
  cumsum arr out initial final offset = Ok (spec_out arr initial final offset, spec_total arr offset).
Proof. exact cumsum_correct_lemma. Qed.
Print Assumptions cumsum_correct.

(* Any other output length is rejected before anything is read or written. *)
Theorem cumsum_rejects : forall arr out initial final offset,
  len out <> expected_len arr initial final ->
  cumsum arr out initial final offset = Raise ValueError.
Proof. exact cumsum_rejects_lemma. Qed.
Print Assumptions cumsum_rejects.

(* The defaults are numpy.cumsum. *)
Theorem cumsum_numpy : forall arr out,
  len out = len arr ->
  cumsum arr out false true 0 = Ok (np_cumsum 0 arr, zsum arr).
Proof. exact cumsum_numpy_lemma. Qed.
Print Assumptions cumsum_numpy.

(* Carrying the returned total into a second call continues the sums of the concatenated input
   (how the subsample loader chains A into B). *)
Theorem cumsum_carry : forall a b outa outb,
  len outa = len a -> len outb = len b ->
  exists ra ta rb tb,
    cumsum a outa true false 0 = Ok (ra, ta) /\
    cumsum b outb true false ta = Ok (rb, tb) /\
    ra ++ rb = removelast (prefix_sums 0 (a ++ b)) /\ tb = zsum (a ++ b).
Proof. exact cumsum_carry_lemma. Qed.
Print Assumptions cumsum_carry.
