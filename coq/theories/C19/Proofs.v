(* C19/Proofs.v — proofs about the GENERATED model Gen.cumsum (regenerated from /repo on every run). *)
From Coq Require Import ZArith List Bool Lia.
From Abacus.Common Require Import Arr.
From Abacus.C19 Require Import Spec Gen.
Import ListNotations.
Local Open Scope Z_scope.

(* ---- facts about the specification -------------------------------------------------------- *)

Lemma prefix_sums_length off l : length (prefix_sums off l) = S (length l).
Proof. revert off; induction l as [|x t IH]; intros off; cbn; [reflexivity|]. rewrite IH; reflexivity. Qed.

Lemma prefix_sums_nth off l j d :
  (j <= length l)%nat -> nth j (prefix_sums off l) d = off + zsum (firstn j l).
Proof.
  revert off j; induction l as [|x t IH]; intros off j Hj.
  - cbn in Hj. assert (j = O) by lia; subst. cbn. lia.
  - destruct j as [|j]; [cbn; lia|]. cbn [prefix_sums nth firstn zsum].
    rewrite IH by (cbn in Hj; lia). lia.
Qed.

Lemma nth_tl {A} (l : list A) j d : nth j (tl l) d = nth (S j) l d.
Proof. destruct l; cbn; [destruct j; reflexivity|reflexivity]. Qed.

Lemma length_tl {A} (l : list A) : length (tl l) = (length l - 1)%nat.
Proof. destruct l; cbn; lia. Qed.

Lemma length_removelast {A} (l : list A) : length (removelast l) = (length l - 1)%nat.
Proof.
  induction l as [|a t IH]; [reflexivity|]. destruct t as [|b t]; [reflexivity|].
  change (removelast (a :: b :: t)) with (a :: removelast (b :: t)). cbn [length] in *. lia.
Qed.

Lemma nth_removelast {A} (l : list A) j d :
  (S j < length l)%nat -> nth j (removelast l) d = nth j l d.
Proof.
  revert j; induction l as [|a t IH]; intros j Hj; [cbn in Hj; lia|].
  destruct t as [|b t]; [cbn in Hj; lia|].
  change (removelast (a :: b :: t)) with (a :: removelast (b :: t)).
  destruct j as [|j]; [reflexivity|]. cbn [nth]. apply IH. cbn [length] in *. lia.
Qed.

Lemma zsum_app a b : zsum (a ++ b) = zsum a + zsum b.
Proof. induction a as [|x t IH]; cbn; lia. Qed.

Lemma firstn_succ_nth (l : list Z) k :
  (k < length l)%nat -> zsum (firstn (S k) l) = zsum (firstn k l) + nth k l 0.
Proof.
  revert k; induction l as [|x t IH]; intros k Hk; [cbn in Hk; lia|].
  destruct k as [|k]; [cbn; lia|]. cbn [length] in Hk.
  change (firstn (S (S k)) (x :: t)) with (x :: firstn (S k) t).
  change (firstn (S k) (x :: t)) with (x :: firstn k t). cbn [zsum nth].
  rewrite IH by lia. lia.
Qed.

Lemma spec_out_length arr initial final offset :
  0 <= expected_len arr initial final ->
  len (spec_out arr initial final offset) = expected_len arr initial final.
Proof.
  unfold spec_out, select, expected_len, len. intros H.
  destruct initial, final; cbn [b2z] in *;
    rewrite ?length_tl, ?length_removelast, ?prefix_sums_length; lia.
Qed.

(* the j-th selected partial sum *)
Lemma spec_out_nth arr initial final offset j :
  0 <= j < expected_len arr initial final ->
  nth (Z.to_nat j) (spec_out arr initial final offset) 0
  = offset + zsum (firstn (Z.to_nat (j + 1 - b2z initial)) arr).
Proof.
  unfold spec_out, select, expected_len, len. intros H.
  destruct initial, final; cbn [b2z] in *.
  - rewrite prefix_sums_nth by lia. do 3 f_equal. lia.
  - rewrite nth_removelast by (rewrite prefix_sums_length; lia).
    rewrite prefix_sums_nth by lia. do 3 f_equal. lia.
  - rewrite nth_tl. rewrite prefix_sums_nth by lia. do 3 f_equal. lia.
  - rewrite nth_tl. rewrite nth_removelast by (rewrite prefix_sums_length; lia).
    rewrite prefix_sums_nth by lia. do 3 f_equal. lia.
Qed.

Lemma np_cumsum_tl acc l : np_cumsum acc l = tl (prefix_sums acc l).
Proof.
  revert acc; induction l as [|x t IH]; intros acc; [reflexivity|].
  cbn [np_cumsum prefix_sums tl]. rewrite IH. destruct t; reflexivity.
Qed.

Lemma prefix_sums_app off a b :
  prefix_sums off (a ++ b) = removelast (prefix_sums off a) ++ prefix_sums (off + zsum a) b.
Proof.
  revert off; induction a as [|x t IH]; intros off.
  - cbn [app zsum prefix_sums removelast]. replace (off + 0) with off by lia. reflexivity.
  - cbn [app zsum]. cbn [prefix_sums]. fold (prefix_sums (off + x) (t ++ b)). rewrite IH.
    replace (off + x + zsum t) with (off + (x + zsum t)) by lia.
    assert (Hne : prefix_sums (off + x) t <> []) by (destruct t; discriminate).
    destruct (prefix_sums (off + x) t) eqn:E; [congruence|]. reflexivity.
Qed.

(* ---- the generated kernel ----------------------------------------------------------------- *)

Definition loop_inv (arr out0 : list Z) (initial final : bool) (offset : Z) (i : Z) (s : Z * list Z) : Prop :=
  let '(total, out) := s in
  total = offset + zsum (firstn (Z.to_nat i) arr)
  /\ len out = len out0
  /\ forall j, 0 <= j < i + b2z initial ->
       nth (Z.to_nat j) out 0 = nth (Z.to_nat j) (spec_out arr initial final offset) 0.

Lemma pointwise_eq (l1 l2 : list Z) :
  len l1 = len l2 ->
  (forall j, 0 <= j < len l1 -> nth (Z.to_nat j) l1 0 = nth (Z.to_nat j) l2 0) ->
  l1 = l2.
Proof.
  unfold len; intros Hl Hp. apply (nth_ext l1 l2 0 0); [lia|].
  intros n Hn. specialize (Hp (Z.of_nat n)). rewrite Nat2Z.id in Hp. apply Hp. lia.
Qed.

Lemma cumsum_correct_lemma arr out initial final offset :
  len out = expected_len arr initial final ->
  cumsum arr out initial final offset
  = Ok (spec_out arr initial final offset, spec_total arr offset).
Proof.
  intros Hlen. pose proof (b2z_range initial) as Hbi. pose proof (b2z_range final) as Hbf. unfold cumsum.
  fold (expected_len arr initial final).
  rewrite Hlen, Z.eqb_refl. cbn [negb].
  pose proof (len_nonneg out) as Hout0.
  destruct (len arr =? 0) eqn:EN.
  - (* empty input *)
    apply Z.eqb_eq in EN.
    assert (Harr : arr = []) by (destruct arr; [reflexivity|rewrite len_cons in EN; pose proof (len_nonneg arr); lia]).
    subst arr. unfold expected_len in *. rewrite len_nil in *.
    destruct initial, final; cbn [b2z] in *; try lia.
    + (* both flags: one cell *)
      destruct out as [|o [|o' t]]; try (unfold len in Hlen; cbn in Hlen; lia).
      unfold spec_total, spec_out, select. cbn. rewrite Z.add_0_r. reflexivity.
    + destruct out; [|rewrite len_cons in Hlen; pose proof (len_nonneg out); lia].
      unfold spec_total, spec_out, select. cbn. rewrite Z.add_0_r. reflexivity.
    + destruct out; [|rewrite len_cons in Hlen; pose proof (len_nonneg out); lia].
      unfold spec_total, spec_out, select. cbn. rewrite Z.add_0_r. reflexivity.
  - apply Z.eqb_neq in EN. pose proof (len_nonneg arr) as HN.
    assert (HN1 : 1 <= len arr) by lia. clear EN.
    assert (Hspec_len : len (spec_out arr initial final offset) = expected_len arr initial final).
    { apply spec_out_length. unfold expected_len. destruct initial, final; cbn [b2z]; lia. }
    (* the write of the initial element *)
    assert (Hinit : exists out1,
      (if initial then out <- set out 0 offset ;; Ok out else Ok out) = Ok out1
      /\ loop_inv arr out initial final offset 0 (offset, out1)).
    { destruct initial; cbn [b2z].
      - assert (0 < len out) by (unfold expected_len in Hlen; cbn [b2z] in Hlen; destruct final; cbn [b2z] in Hlen; lia).
        rewrite set_ok by lia. cbn [bind]. eexists; split; [reflexivity|].
        unfold loop_inv. split; [cbn; lia|]. split.
        + unfold len; rewrite set_nth_length; reflexivity.
        + intros j Hj. cbn [b2z] in Hj. assert (j = 0) by lia; subst j. cbn [Z.to_nat].
          rewrite set_nth_nth by (unfold len in *; lia).
          pose proof (spec_out_nth arr true final offset 0) as Hs. cbn [Z.to_nat b2z] in Hs.
          rewrite Hs by (unfold expected_len in *; cbn [b2z] in *; lia). cbn. lia.
      - eexists; split; [reflexivity|]. unfold loop_inv. split; [cbn; lia|]. split; [reflexivity|].
        intros j Hj; cbn [b2z] in Hj; lia. }
    destruct Hinit as [out1 [E1 Inv0]]. rewrite E1. cbn [bind].
    (* the loop *)
    match goal with
    | |- context [for_range ?lo ?hi ?body ?s] =>
        destruct (for_range_inv (loop_inv arr out initial final offset) lo hi body s)
          as [[total2 out2] [E2 Inv2]]
    end.
    + lia.
    + exact Inv0.
    + intros i [total out'] Hi [Ht [Hl Hp]].
      rewrite (get_ok_nth arr i 0) by lia. cbn [bind].
      assert (Hidx : 0 <= i + b2z initial < len out').
      { rewrite Hl, Hlen. unfold expected_len. destruct initial, final; cbn [b2z]; lia. }
      rewrite set_ok by exact Hidx. cbn [bind]. eexists; split; [reflexivity|].
      unfold loop_inv. split; [|split].
      * replace (Z.to_nat (i + 1)) with (S (Z.to_nat i)) by lia.
        rewrite firstn_succ_nth by (unfold len in *; lia). lia.
      * unfold len; rewrite set_nth_length; exact Hl.
      * intros j Hj. destruct (Z.eq_dec j (i + b2z initial)) as [->|Hne].
        -- rewrite set_nth_nth by (unfold len in *; lia).
           rewrite spec_out_nth by (unfold expected_len; destruct initial, final; cbn [b2z] in *; lia).
           replace (Z.to_nat (i + b2z initial + 1 - b2z initial)) with (S (Z.to_nat i)) by lia.
           rewrite firstn_succ_nth by (unfold len in *; lia). lia.
        -- rewrite set_nth_nth_other by lia. apply Hp. lia.
    + rewrite E2. cbn [bind].
      destruct Inv2 as [Ht [Hl Hp]].
      rewrite (get_neg_nth arr (-1) 0) by lia. cbn [bind].
      assert (Htot : total2 + nth (Z.to_nat (-1 + len arr)) arr 0 = spec_total arr offset).
      { unfold spec_total. rewrite Ht.
        replace (zsum arr) with (zsum (firstn (S (Z.to_nat (len arr - 1))) arr)).
        - rewrite firstn_succ_nth by (unfold len in *; lia).
          replace (-1 + len arr) with (len arr - 1) by lia. lia.
        - rewrite firstn_all2 by (unfold len in *; lia). reflexivity. }
      rewrite Htot.
      destruct final; cbn [b2z] in *.
      * assert (Hlo : 0 < len out2) by (rewrite Hl, Hlen; unfold expected_len; destruct initial; cbn [b2z]; lia).
        rewrite set_neg by lia. cbn [bind]. do 2 f_equal.
        apply pointwise_eq.
        -- unfold len; rewrite set_nth_length. fold (len out2). rewrite Hl, Hlen. symmetry; exact Hspec_len.
        -- unfold len at 1; rewrite set_nth_length; fold (len out2). intros j Hj.
           destruct (Z.eq_dec j (len out2 - 1)) as [->|Hne].
           ++ replace (Z.to_nat (-1 + len out2)) with (Z.to_nat (len out2 - 1)) by lia.
              rewrite set_nth_nth by (unfold len in *; lia).
              rewrite spec_out_nth by (unfold expected_len in *; rewrite Hl, Hlen; cbn [b2z]; lia).
              unfold spec_total. do 2 f_equal.
              rewrite firstn_all2; [reflexivity|].
              rewrite Hl, Hlen. unfold expected_len, len. destruct initial; cbn [b2z]; lia.
           ++ rewrite set_nth_nth_other by lia. apply Hp.
              rewrite Hl, Hlen in Hj, Hne. unfold expected_len in *. destruct initial; cbn [b2z] in *; lia.
      * cbn [bind]. do 2 f_equal. apply pointwise_eq.
        -- rewrite Hl, Hlen. symmetry; exact Hspec_len.
        -- intros j Hj. apply Hp. rewrite Hl, Hlen in Hj. unfold expected_len in Hj. cbn [b2z] in Hj. lia.
Qed.

Lemma cumsum_rejects_lemma arr out initial final offset :
  len out <> expected_len arr initial final ->
  cumsum arr out initial final offset = Raise ValueError.
Proof.
  intros H. unfold cumsum. fold (expected_len arr initial final).
  destruct (len out =? expected_len arr initial final) eqn:E; [apply Z.eqb_eq in E; contradiction|reflexivity].
Qed.

Lemma cumsum_numpy_lemma arr out :
  len out = len arr ->
  cumsum arr out false true 0 = Ok (np_cumsum 0 arr, zsum arr).
Proof.
  intros H. rewrite cumsum_correct_lemma by (unfold expected_len; cbn [b2z]; lia).
  unfold spec_out, select, spec_total. rewrite np_cumsum_tl. reflexivity.
Qed.

(* carrying the total of a first call into a second one continues the sums of the concatenation
   (the A -> B carry used by the subsample loader) *)
Lemma cumsum_carry_lemma a b outa outb :
  len outa = len a -> len outb = len b ->
  exists ra ta rb tb,
    cumsum a outa true false 0 = Ok (ra, ta) /\
    cumsum b outb true false ta = Ok (rb, tb) /\
    ra ++ rb = removelast (prefix_sums 0 (a ++ b)) /\ tb = zsum (a ++ b).
Proof.
  intros Ha Hb.
  rewrite cumsum_correct_lemma by (unfold expected_len; cbn [b2z]; lia).
  do 2 eexists.
  rewrite cumsum_correct_lemma by (unfold expected_len; cbn [b2z]; lia).
  do 2 eexists. split; [reflexivity|]. split; [reflexivity|].
  unfold spec_out, select, spec_total. split.
  - rewrite prefix_sums_app. cbn [Z.add].
    assert (Hne : prefix_sums (0 + zsum a) b <> []) by (destruct b; discriminate).
    rewrite removelast_app by exact Hne. reflexivity.
  - rewrite zsum_app. lia.
Qed.
