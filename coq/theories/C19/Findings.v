(* C19/Findings.v — kernel-checked record of the defect found in the original abacusnbody.util.cumsum
   (fixed by the `fix:` commit recorded in /verif/known_findings.json).

   [cumsum_orig] is a frozen copy of what the translator produced from the original source: the accesses
   arr[-1], out[0] and out[-1] were not guarded by N > 0. *)
From Coq Require Import ZArith List Bool.
From Abacus.Common Require Import Arr.
From Abacus.C19 Require Import Spec.
Import ListNotations.
Local Open Scope Z_scope.
Local Open Scope res_scope.

Definition cumsum_orig (arr : (list Z)) (out : (list Z)) (initial : bool) (final : bool) (offset : Z) : res ((list Z) * Z) :=
  let N := (len arr) in
  let N_out := (((N - 1%Z)%Z + (b2z initial))%Z + (b2z final))%Z in
  if (negb ((len out) =? N_out)%Z) then
  Raise ValueError
  else
  let total := offset in
  out <- (if initial then
  out <- set out 0%Z total ;;
  Ok out
  else
  Ok out) ;;
  '(total, out) <- for_range 0%Z (N - 1%Z)%Z (fun i '(total, out) =>
  r1_ <- (get arr i) ;;
  let total := (total + r1_)%Z in
  out <- set out (i + (b2z initial))%Z total ;;
  Ok (total, out)) (total, out) ;;
  r2_ <- (get arr (-1)%Z) ;;
  let total := (total + r2_)%Z in
  out <- (if final then
  out <- set out (-1)%Z total ;;
  Ok out
  else
  Ok out) ;;
  Ok (out, total).

(* the statement of cumsum_correct is false of the original: an empty input reads arr[-1] *)
Theorem cumsum_orig_refuted : exists arr out initial final offset,
  len out = expected_len arr initial final /\
  cumsum_orig arr out initial final offset = Oob.
Proof. exists [], [], false, true, 0. split; vm_compute; reflexivity. Qed.

(* ... for each of the three admissible flag pairs, whatever the offset *)
Theorem cumsum_orig_empty_always_oob : forall initial final offset out,
  len out = expected_len [] initial final ->
  cumsum_orig [] out initial final offset = Oob.
Proof.
  intros initial final offset out H. unfold cumsum_orig.
  fold (expected_len [] initial final). rewrite H, Z.eqb_refl. cbn [negb].
  destruct initial, final; unfold expected_len in H; cbn in H;
    destruct out as [|o [|o' t]]; cbn in H; try discriminate; try reflexivity;
    exfalso; unfold len in H; cbn in H; destruct (length t); discriminate.
Qed.
