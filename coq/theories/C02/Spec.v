(* C02/Spec.v — what the property says, independently of how the loader goes about it.

   A request is valid for an option set when its columns are pairwise distinct and each is a declared halo column
   (user_dt), or a cleaning column (clean_dt_progen) when cleaned halos are loaded.  The value a column must have is
   [Model.spec_value]: its own loader expression applied to the raw row, reading its intermediate inputs by their
   own expressions — a function of the catalog row and the unit option only. *)
From Coq Require Import ZArith QArith List Bool.
From Abacus.HaloTable Require Import Expr Gen.
From Abacus.C02 Require Import Config Model.
Import ListNotations.

Definition valid_fields (cleaned : bool) (l : list col) : Prop :=
  NoDup l /\
  forall c, In c l -> In c (names user_dt) \/ (cleaned = true /\ In c (names clean_dt_progen)).

Definition valid_request (cleaned : bool) (r : request) : Prop :=
  valid_fields cleaned (initial_fields cleaned r).

(* the name under which a requested column comes back: with cleaning, N_total replaces N (and is renamed N at the very end) *)
Definition returned_as (cleaned : bool) (c : col) : col :=
  if cleaned then (if col_eqb c c_N then c_N_total else c) else c.

(* the repaired structure of the code: temporaries take the dtype of their own name; the index columns are added
   whenever subsamples are requested, the _merge ones only with cleaning *)
Definition sound_config (cfg : config) : Prop :=
  temp_dtype cfg = TDField /\ index_need_cleaned cfg = false /\ merge_need_cleaned cfg = true.

(* the index columns of the subsamples being loaded are replaced by re-indexed ones (C01) *)
Definition index_cols (loadA loadB : bool) : list col :=
  (if loadA then [c_npstartA; c_npoutA] else []) ++ (if loadB then [c_npstartB; c_npoutB] else []).
