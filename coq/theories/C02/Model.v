(* C02/Model.v — hand-written executable model of the halo-column request framework of CompaSOHaloCatalog
   (_setup_fields, the allocation in _read_halo_info, _get_halo_fields_dependencies, the extra_fields temporaries,
   the _load_halo_field loop, and the index-column bookkeeping of the subsample loader), over the loader table
   generated into HaloTable/Gen.v and parametrised by the structural facts generated into C02/Gen.v ([config]).
   No proofs in here.

   One halo row and one component at a time (per-row independence of the NumPy column arithmetic is structural; superslab
   concatenation and filter_func are C03).  Modelled: list bookkeeping exactly as the Python does it (list.remove removes
   the first occurrence, dict keys keep first position, the growing iter_fields worklist, "last occurrence first"
   de-duplication), dtype (kind, number of components) of every table column including the temporaries, the cast on
   assignment (integers truncate), np.empty content (NUninit), KeyError / ValueError outcomes.
   Not modelled: halo light cones (halo_lc), passthrough, float32 rounding, file IO (every raw column a loader reads is
   assumed present in the files), the second axis of the *_mainprog columns. *)
From Coq Require Import ZArith QArith List Bool.
From Abacus.Common Require Import Arr Num.
From Abacus.HaloTable Require Import Expr Gen.
From Abacus.C02 Require Import Config.
Import ListNotations.
Local Open Scope Z_scope.
Local Open Scope res_scope.

(* ------------------------------------------------------------------ list bookkeeping on column names *)
Definition col_eqb (a b : col) : bool := col_idx a =? col_idx b.

Fixpoint mem (c : col) (l : list col) : bool :=
  match l with [] => false | x :: t => col_eqb c x || mem c t end.

(* list.remove(x): first occurrence only *)
Fixpoint remove_first (c : col) (l : list col) : list col :=
  match l with [] => [] | x :: t => if col_eqb c x then t else x :: remove_first c t end.

(* list(dict.fromkeys(l)): first occurrences, in order *)
Fixpoint dedup (l : list col) : list col :=
  match l with [] => [] | x :: t => x :: filter (fun y => negb (col_eqb y x)) (dedup t) end.

Definition add_if_absent (c : col) (l : list col) : list col := if mem c l then l else l ++ [c].

Definition is_nil {A} (l : list A) : bool := match l with [] => true | _ => false end.

Fixpoint last_opt (l : list col) : option col :=
  match l with [] => None | [x] => Some x | _ :: t => last_opt t end.

(* ------------------------------------------------------------------ dtype tables *)
Definition dtable := list (col * dkind * Z).
Definition names (t : dtable) : list col := map (fun e => fst (fst e)) t.

Fixpoint dt_find (c : col) (t : dtable) : option (dkind * Z) :=
  match t with
  | [] => None
  | (x, k, n) :: r => if col_eqb c x then Some (k, n) else dt_find c r
  end.

(* cols[col] = np.empty(N, dtype=halo_lc_dt[col] if col in halo_lc_dt.names else user_dt[col]) *)
Definition alloc_dtype (c : col) : option (dkind * Z) :=
  match dt_find c halo_lc_dt with Some d => Some d | None => dt_find c user_dt end.

(* the dtype a column has by declaration (first table that names it); the loader produces values of this shape *)
Definition home (c : col) : dkind * Z :=
  match dt_find c halo_lc_dt with
  | Some d => d
  | None => match dt_find c user_dt with
            | Some d => d
            | None => match dt_find c clean_dt_progen with Some d => d | None => (F32, 1) end
            end
  end.

(* ------------------------------------------------------------------ _setup_fields *)
Inductive request := RDefault | RAll | RFields (l : list col).

Definition initial_fields (cleaned : bool) (r : request) : list col :=
  match r with
  | RDefault => names user_dt ++ (if cleaned then names clean_dt else [])
  | RAll => names user_dt ++ (if cleaned then names clean_dt_progen else [])
  | RFields l => l
  end.

(* cleaned: 'N' is dropped and 'N_total' is required *)
Definition require_ntotal (cleaned : bool) (f : list col) : list col :=
  if cleaned then add_if_absent c_N_total (if mem c_N f then remove_first c_N f else f) else f.

(* for item in clean_dt_progen.names: if item in fields: fields.remove(item); cleaned_fields += [item] *)
Definition split_cleaned (cleaned : bool) (f : list col) : list col * list col :=
  if cleaned then
    fold_left (fun fc item => if mem item (fst fc) then (remove_first item (fst fc), snd fc ++ [item]) else fc)
              (names clean_dt_progen) (f, [])
  else (f, []).

Definition add_index (cfg : config) (cleaned : bool) (s o sm om : col) (fc : list col * list col)
  : list col * list col :=
  (if negb (index_need_cleaned cfg) || cleaned then add_if_absent o (add_if_absent s (fst fc)) else fst fc,
   if negb (merge_need_cleaned cfg) || cleaned then add_if_absent om (add_if_absent sm (snd fc)) else snd fc).

Definition setup_fields (cfg : config) (cleaned loadA loadB : bool) (r : request) : list col * list col :=
  let fc := split_cleaned cleaned (require_ntotal cleaned (initial_fields cleaned r)) in
  let fc := if loadA then add_index cfg cleaned c_npstartA c_npoutA c_npstartA_merge c_npoutA_merge fc else fc in
  if loadB then add_index cfg cleaned c_npstartB c_npoutB c_npstartB_merge c_npoutB_merge fc else fc.

(* ------------------------------------------------------------------ _get_halo_fields_dependencies *)
Definition halo_deps (c : col) : list col := halo_reads (expr_of c).

(* the for loop over the growing list iter_fields: the sequence of fields it visits *)
Fixpoint visit (fuel : nat) (pending : list col) : option (list col) :=
  match pending with
  | [] => Some []
  | c :: rest =>
      match fuel with
      | O => None
      | S f => option_map (cons c) (visit f (rest ++ halo_deps c))
      end
  end.

Definition maxdeps : nat := fold_right Nat.max O (map (fun c => length (halo_deps c)) all_cols).
Definition visit_fuel (fs : list col) : nat := S (length fs * S maxdeps).

Record depinfo := { fields_with_deps : list col; extra_fields : list col }.

Definition deps_of_iter (fs iter : list col) : depinfo :=
  {| fields_with_deps := dedup (rev iter);
     extra_fields := dedup (rev (filter (fun k => negb (mem k fs)) (flat_map halo_deps iter))) |}.

Definition get_deps (fs : list col) : res depinfo :=
  match visit (visit_fuel fs) fs with
  | None => Raise OtherError                       (* out of fuel: excluded by the theorems *)
  | Some iter =>
      if forallb (fun c => n_loaders c =? 1) iter then Ok (deps_of_iter fs iter)
      else Raise KeyError                          (* no loader, or more than one way to load the field *)
  end.

(* ------------------------------------------------------------------ the per-file table *)
Definition entry := (col * (dkind * Z) * num)%type.
Definition tab := list entry.
Definition ename (e : entry) : col := fst (fst e).

Fixpoint tab_find (c : col) (t : tab) : option (dkind * Z * num) :=
  match t with
  | [] => None
  | (x, d, v) :: r => if col_eqb c x then Some (d, v) else tab_find c r
  end.

Definition tab_has (c : col) (t : tab) : bool := match tab_find c t with Some _ => true | None => false end.
Definition tab_val (c : col) (t : tab) : num := match tab_find c t with Some (_, v) => v | None => NUninit end.

Fixpoint tab_set (c : col) (v : num) (t : tab) : tab :=
  match t with
  | [] => []
  | (x, d, w) :: r => if col_eqb c x then (x, d, v) :: r else (x, d, w) :: tab_set c v r
  end.

(* dict semantics of `cols`: a repeated key keeps its first position *)
Fixpoint dedup_entries (t : tab) : tab :=
  match t with [] => [] | e :: r => e :: filter (fun y => negb (col_eqb (ename y) (ename e))) (dedup_entries r) end.

(* halos[c][:] = value : cast to the column's kind; a scalar column cannot take a vector and vice versa *)
Definition cast (k : dkind) (v : num) : num :=
  if dkind_is_float k then v
  else match v with
       | NQ q => NQ (inject_Z (Qtrunc q))
       | NUninit => NUninit
       | _ => NNaN
       end.

Definition assign (t : tab) (c : col) (v : num) : res tab :=
  match tab_find c t with
  | None => Raise KeyError
  | Some (k, n, _) => if n =? snd (home c) then Ok (tab_set c (cast k v) t) else Raise ValueError
  end.

Fixpoint mapM {A B} (f : A -> res B) (l : list A) : res (list B) :=
  match l with
  | [] => Ok []
  | a :: t => b <- f a ;; r <- mapM f t ;; Ok (b :: r)
  end.

Fixpoint foldM {A S} (f : S -> A -> res S) (l : list A) (s : S) : res S :=
  match l with
  | [] => Ok s
  | a :: t => s' <- f s a ;; foldM f t s'
  end.

Definition alloc_field (c : col) : res entry :=
  match alloc_dtype c with Some d => Ok (c, d, NUninit) | None => Raise KeyError end.
Definition alloc_cleaned (c : col) : res entry :=
  match dt_find c clean_dt_progen with Some d => Ok (c, d, NUninit) | None => Raise KeyError end.

(* the variable `col` after `for col in fields` / `for col in cleaned_fields` *)
Definition stale_col (fields cfields : list col) : option col :=
  match last_opt cfields with Some c => Some c | None => last_opt fields end.

Definition temp_entry (cfg : config) (stale : option col) (f : col) : res entry :=
  let src := if mem f (names clean_dt_progen) then clean_dt_progen else user_dt in
  match temp_dtype cfg with
  | TDField => match dt_find f src with Some d => Ok (f, d, NUninit) | None => Raise KeyError end
  | TDStaleCol =>
      match stale with
      | None => Raise OtherError
      | Some k => match dt_find k src with Some d => Ok (f, d, NUninit) | None => Raise KeyError end
      end
  end.

Section Load.
  Variables (u : unitsym -> Q) (raw : rawcol -> Q) (rawany : rawcol -> bool).

  Definition eval_in (t : tab) (c : col) : num := evalN u raw rawany (fun d => tab_val d t) (expr_of c).

  (* _load_halo_field for one entry of fields_with_deps *)
  Definition step (st : tab * list col) (c : col) : res (tab * list col) :=
    let '(t, loaded) := st in
    if mem c loaded then Ok st
    else if negb (n_loaders c =? 1) then Raise KeyError
    else if negb (forallb (fun d => tab_has d t) (halo_deps c)) then Raise KeyError
    else
      t1 <- assign t c (eval_in t c) ;;
      let others := filter (fun k => tab_has k t) (also_loads c) in
      t2 <- foldM (fun t' k => assign t' k (eval_in t' k)) others t1 ;;
      Ok (t2, loaded ++ c :: others).

  (* ---------------------------------------------------------------- subsample index bookkeeping *)
  Inductive outv := Val (v : num) | Reindexed.
  Definition out := list (col * outv).

  Fixpoint out_find (c : col) (o : out) : option outv :=
    match o with [] => None | (x, v) :: r => if col_eqb c x then Some v else out_find c r end.

  (* _compute_new_subsample_indices / _load_subsamples read these columns of self.halos; afterwards
     _update_subsample_index_cols drops them and appends the re-indexed npstart / npout *)
  Definition subsample_cols (cleaned : bool) (s o sm om : col) : list col :=
    [s; o] ++ (if cleaned then [sm; om] else []).

  Definition reindex (cleaned : bool) (s o sm om : col) (o_ : out) : res out :=
    let need := subsample_cols cleaned s o sm om in
    if forallb (fun c => match out_find c o_ with Some _ => true | None => false end) need then
      Ok (filter (fun e => negb (mem (fst e) need)) o_ ++ [(s, Reindexed); (o, Reindexed)])
    else Raise KeyError.

  Definition load (cfg : config) (cleaned loadA loadB : bool) (r : request) : res out :=
    let '(fields, cfields) := setup_fields cfg cleaned loadA loadB r in
    if negb cleaned && negb (is_nil cfields) then Raise OtherError else
    cols1 <- mapM alloc_field fields ;;
    cols2 <- mapM alloc_cleaned cfields ;;
    let tab0 := dedup_entries (cols1 ++ cols2) in
    let all_fields := map ename tab0 in
    d <- get_deps all_fields ;;
    temps <- mapM (temp_entry cfg (stale_col fields cfields)) (extra_fields d) ;;
    st <- foldM step (fields_with_deps d) (tab0 ++ temps, []) ;;
    let visible := map (fun c => (c, Val (tab_val c (fst st)))) all_fields in
    o1 <- (if loadA then reindex cleaned c_npstartA c_npoutA c_npstartA_merge c_npoutA_merge visible else Ok visible) ;;
    if loadB then reindex cleaned c_npstartB c_npoutB c_npstartB_merge c_npoutB_merge o1 else Ok o1.
End Load.

(* the specification value of a column: its own expression on the raw row, intermediate inputs being the columns it reads,
   each cast to its declared kind — no reference to the request *)
Section SpecValue.
  Variables (u : unitsym -> Q) (raw : rawcol -> Q) (rawany : rawcol -> bool).
  Definition spec_leaf (c : col) : num :=
    cast (fst (home c)) (evalN u raw rawany (fun _ => NUninit) (expr_of c)).
  Definition spec_value (c : col) : num :=
    cast (fst (home c)) (evalN u raw rawany spec_leaf (expr_of c)).
End SpecValue.

(* ------------------------------------------------------------------ facts about the generated tables, checked by vm_compute *)
Definition subset (a b : list col) : bool := forallb (fun c => mem c b) a.

Definition tables_ok : bool :=
  (* exactly one loader per column; intermediate inputs are themselves computed from raw columns only, are declared in
     user_dt or clean_dt_progen (the tables the temporaries take their dtype from) with the dtype they have everywhere,
     and are floats (their cast is the identity); incidentally loaded columns read raw columns only *)
  forallb (fun c => (n_loaders c =? 1)
                    && forallb (fun d => is_nil (halo_deps d)
                                         && (match dt_find d (if mem d (names clean_dt_progen) then clean_dt_progen else user_dt) with
                                             | Some dd => dkind_eqb (fst dd) (fst (home d)) && (snd dd =? snd (home d))
                                             | None => false
                                             end))
                               (halo_deps c)
                    && forallb (fun k => is_nil (halo_deps k)) (also_loads c)) all_cols
  (* a column declared in several tables has the same dtype in all of them *)
  && forallb (fun c =>
       forallb (fun t => match dt_find c t with
                         | Some d => dkind_eqb (fst d) (fst (home c)) && (snd d =? snd (home c))
                         | None => true end) [halo_lc_dt; user_dt; clean_dt_progen; clean_dt]) all_cols
  && subset (names clean_dt) (names clean_dt_progen)
  (* the cleaned tables and user_dt are disjoint *)
  && forallb (fun c => negb (mem c (names user_dt))) (names clean_dt_progen).
