(* C02/Lib.v — list and table lemmas used by Proofs.v. *)
From Coq Require Import ZArith QArith List Bool Lia.
From Abacus.Common Require Import Arr Num.
From Abacus.HaloTable Require Import Expr Gen.
From Abacus.C02 Require Import Config Model.
Import ListNotations.
Local Open Scope Z_scope.

(* ------------------------------------------------------------------ column names *)
Lemma all_cols_nth : forall c, nth_error all_cols (Z.to_nat (col_idx c)) = Some c.
Proof. destruct c; reflexivity. Qed.

Lemma col_idx_inj a b : col_idx a = col_idx b -> a = b.
Proof.
  intros H. pose proof (all_cols_nth a) as Ha. pose proof (all_cols_nth b) as Hb.
  rewrite H in Ha. congruence.
Qed.

Lemma col_eqb_eq a b : col_eqb a b = true <-> a = b.
Proof.
  unfold col_eqb. rewrite Z.eqb_eq. split; [apply col_idx_inj | intros ->; reflexivity].
Qed.

Lemma col_eqb_refl a : col_eqb a a = true.
Proof. apply col_eqb_eq. reflexivity. Qed.

Lemma col_eqb_neq a b : col_eqb a b = false <-> a <> b.
Proof.
  split.
  - intros H E. apply col_eqb_eq in E. congruence.
  - intros H. destruct (col_eqb a b) eqn:E; [apply col_eqb_eq in E; contradiction | reflexivity].
Qed.

Lemma col_eqb_sym a b : col_eqb a b = col_eqb b a.
Proof. unfold col_eqb. apply Z.eqb_sym. Qed.

Lemma all_cols_complete : forall c, In c all_cols.
Proof. intros c. eapply nth_error_In. apply all_cols_nth. Qed.

Lemma mem_In c l : mem c l = true <-> In c l.
Proof.
  induction l as [|x t IH]; cbn [mem In].
  - split; [discriminate | tauto].
  - rewrite orb_true_iff, IH, col_eqb_eq. split; intros [H|H]; auto.
Qed.

Lemma mem_false c l : mem c l = false <-> ~ In c l.
Proof.
  split.
  - intros H E. apply mem_In in E. congruence.
  - intros H. destruct (mem c l) eqn:E; [apply mem_In in E; contradiction | reflexivity].
Qed.

(* ------------------------------------------------------------------ dedup / remove_first *)
Lemma In_dedup x l : In x (dedup l) <-> In x l.
Proof.
  induction l as [|y t IH]; cbn [dedup In]; [tauto|].
  rewrite filter_In, IH. split.
  - intros [H|[H _]]; auto.
  - intros [H|H]; auto. destruct (col_eqb x y) eqn:E.
    + apply col_eqb_eq in E. auto.
    + right. split; [exact H | reflexivity].
Qed.

Lemma filter_filter {A} (f g : A -> bool) l :
  filter f (filter g l) = filter (fun y => g y && f y) l.
Proof.
  induction l as [|x t IH]; cbn [filter]; [reflexivity|].
  destruct (g x); cbn [filter andb]; [destruct (f x)|]; rewrite IH; reflexivity.
Qed.

Lemma dedup_app a b :
  dedup (a ++ b) = dedup a ++ filter (fun y => negb (mem y a)) (dedup b).
Proof.
  induction a as [|x t IH]; cbn [app dedup mem].
  - cbn [negb]. symmetry. clear. induction (dedup b) as [|y r IHr]; cbn [filter]; [reflexivity|]. f_equal. exact IHr.
  - f_equal. rewrite IH, filter_app, filter_filter. f_equal.
    apply filter_ext. intros y. rewrite negb_orb. apply andb_comm.
Qed.

Lemma remove_first_NoDup c l : NoDup l -> remove_first c l = filter (fun y => negb (col_eqb y c)) l.
Proof.
  induction l as [|x t IH]; intros Hn; cbn [remove_first filter]; [reflexivity|].
  inversion Hn as [|? ? Hx Ht]; subst.
  rewrite (col_eqb_sym x c). destruct (col_eqb c x) eqn:E; cbn [negb].
  - apply col_eqb_eq in E. subst x. symmetry. clear IH Hn Ht.
    induction t as [|y r IHr]; cbn [filter]; [reflexivity|].
    destruct (col_eqb y c) eqn:E; cbn [negb].
    + apply col_eqb_eq in E. subst. exfalso. apply Hx. left. reflexivity.
    + f_equal. apply IHr. intros H. apply Hx. right. exact H.
  - f_equal. apply IH. exact Ht.
Qed.

Lemma NoDup_filter {A} (f : A -> bool) l : NoDup l -> NoDup (filter f l).
Proof.
  induction 1 as [|x t Hx Ht IH]; cbn [filter]; [constructor|].
  destruct (f x); [constructor; [|exact IH] | exact IH].
  intros H. apply filter_In in H. tauto.
Qed.

Lemma add_if_absent_In c x l : In x (add_if_absent c l) <-> x = c \/ In x l.
Proof.
  unfold add_if_absent. destruct (mem c l) eqn:E.
  - apply mem_In in E. split; [auto | intros [->|H]; auto].
  - rewrite in_app_iff. cbn [In]. split; intros H; intuition auto.
Qed.

Lemma NoDup_snoc {A} (c : A) l : NoDup l -> ~ In c l -> NoDup (l ++ [c]).
Proof.
  induction 1 as [|x t Hx Ht IH]; intros Hc; cbn [app].
  - constructor; [intros []|constructor].
  - constructor.
    + rewrite in_app_iff. cbn [In]. intros [H|[H|[]]]; [contradiction|]. subst. apply Hc. left. reflexivity.
    + apply IH. intros H. apply Hc. right. exact H.
Qed.

Lemma add_if_absent_NoDup c l : NoDup l -> NoDup (add_if_absent c l).
Proof.
  intros Hn. unfold add_if_absent. destruct (mem c l) eqn:E; [exact Hn|].
  apply mem_false in E. apply NoDup_snoc; assumption.
Qed.

(* ------------------------------------------------------------------ the result monad *)
Lemma bind_ok {A B} (r : res A) (f : A -> res B) b :
  bind r f = Ok b -> exists a, r = Ok a /\ f a = Ok b.
Proof. destruct r; cbn [bind]; intros H; try discriminate. eauto. Qed.

Lemma foldM_app {A S} (f : S -> A -> res S) a b s :
  foldM f (a ++ b) s = bind (foldM f a s) (foldM f b).
Proof.
  revert s. induction a as [|x t IH]; intros s; cbn [app foldM bind]; [reflexivity|].
  destruct (f s x); cbn [bind]; auto.
Qed.

Lemma mapM_ok_names {A B} (f : A -> res B) (g : B -> A) l r :
  (forall a b, f a = Ok b -> g b = a) -> mapM f l = Ok r -> map g r = l.
Proof.
  intros Hg. revert r. induction l as [|a t IH]; intros r; cbn [mapM].
  - intros H. inversion H. reflexivity.
  - intros H. apply bind_ok in H as [b [Hb H]]. apply bind_ok in H as [r' [Hr H]].
    inversion H; subst. cbn [map]. rewrite (Hg _ _ Hb), (IH _ Hr). reflexivity.
Qed.

Lemma mapM_ok_Forall {A B} (f : A -> res B) (P : B -> Prop) l r :
  (forall a b, f a = Ok b -> P b) -> mapM f l = Ok r -> Forall P r.
Proof.
  intros HP. revert r. induction l as [|a t IH]; intros r; cbn [mapM].
  - intros H. inversion H. constructor.
  - intros H. apply bind_ok in H as [b [Hb H]]. apply bind_ok in H as [r' [Hr H]].
    inversion H; subst. constructor; eauto.
Qed.

Lemma mapM_ok_Forall_In {A B} (f : A -> res B) (P : B -> Prop) l r :
  (forall a b, In a l -> f a = Ok b -> P b) -> mapM f l = Ok r -> Forall P r.
Proof.
  revert r. induction l as [|a t IH]; intros r HP; cbn [mapM].
  - intros H. inversion H. constructor.
  - intros H. apply bind_ok in H as [b [Hb H]]. apply bind_ok in H as [r' [Hr H]].
    inversion H; subst. constructor; [eapply HP; [left; reflexivity | exact Hb]|].
    apply IH; [|exact Hr]. intros a' b' Ha'. apply HP. right. exact Ha'.
Qed.

Lemma mapM_total {A B} (f : A -> res B) l :
  (forall a, In a l -> exists b, f a = Ok b) -> exists r, mapM f l = Ok r.
Proof.
  induction l as [|a t IH]; intros H; cbn [mapM]; [eauto|].
  destruct (H a (or_introl eq_refl)) as [b Hb]. rewrite Hb. cbn [bind].
  destruct IH as [r Hr]; [intros; apply H; right; assumption|]. rewrite Hr. cbn [bind]. eauto.
Qed.

(* ------------------------------------------------------------------ dtype tables *)
Lemma dt_find_In c t : In c (names t) -> exists d, dt_find c t = Some d.
Proof.
  induction t as [|[[x k] n] r IH]; cbn [names map In dt_find fst]; [tauto|].
  intros [H|H].
  - subst. rewrite col_eqb_refl. eauto.
  - destruct (col_eqb c x); eauto.
Qed.

Lemma dt_find_names c t d : dt_find c t = Some d -> In c (names t).
Proof.
  induction t as [|[[x k] n] r IH]; cbn [names map In dt_find fst]; [discriminate|].
  destruct (col_eqb c x) eqn:E; [apply col_eqb_eq in E; auto | intros H; right; apply IH; exact H].
Qed.

(* ------------------------------------------------------------------ tables of columns *)
Lemma tab_find_app c a b :
  tab_find c (a ++ b) = match tab_find c a with Some r => Some r | None => tab_find c b end.
Proof.
  induction a as [|[[x d] v] r IH]; cbn [app tab_find]; [reflexivity|].
  destruct (col_eqb c x); [reflexivity | exact IH].
Qed.

Lemma tab_find_In c t : In c (map ename t) <-> exists r, tab_find c t = Some r.
Proof.
  induction t as [|[[x d] v] r IH]; cbn [map In tab_find ename fst].
  - split; [tauto | intros [? H]; discriminate].
  - destruct (col_eqb c x) eqn:E.
    + apply col_eqb_eq in E. split; eauto.
    + apply col_eqb_neq in E. rewrite <- IH. split; [intros [H|H]; [congruence | exact H] | auto].
Qed.

Lemma tab_has_In c t : tab_has c t = true <-> In c (map ename t).
Proof.
  unfold tab_has. rewrite tab_find_In. destruct (tab_find c t); split; eauto; try discriminate.
  intros [? H]; discriminate.
Qed.

Lemma tab_find_Forall (P : entry -> Prop) c t d v :
  Forall P t -> tab_find c t = Some (d, v) -> P (c, d, v).
Proof.
  induction 1 as [|[[x d'] v'] r Hx Hr IH]; cbn [tab_find]; [discriminate|].
  destruct (col_eqb c x) eqn:E; [|exact IH].
  apply col_eqb_eq in E. intros H. inversion H; subst. exact Hx.
Qed.

Lemma tab_find_set_same c v t d w :
  tab_find c t = Some (d, w) -> tab_find c (tab_set c v t) = Some (d, v).
Proof.
  induction t as [|[[x d'] v'] r IH]; cbn [tab_find tab_set]; [discriminate|].
  destruct (col_eqb c x) eqn:E; cbn [tab_find]; rewrite E; [intros H; inversion H; reflexivity | exact IH].
Qed.

Lemma tab_find_set_other c c' v t :
  c' <> c -> tab_find c' (tab_set c v t) = tab_find c' t.
Proof.
  intros Hne. induction t as [|[[x d'] v'] r IH]; cbn [tab_find tab_set]; [reflexivity|].
  destruct (col_eqb c x) eqn:E; cbn [tab_find].
  - apply col_eqb_eq in E. subst x. apply col_eqb_neq in Hne. rewrite Hne. reflexivity.
  - destruct (col_eqb c' x); [reflexivity | exact IH].
Qed.

Lemma In_dedup_entries c t : In c (map ename (dedup_entries t)) <-> In c (map ename t).
Proof.
  induction t as [|e r IH]; cbn [dedup_entries map In]; [tauto|].
  rewrite <- IH. split.
  - intros [H|H]; auto. right. apply in_map_iff in H as [y [Hy Hin]]. apply filter_In in Hin as [Hin _].
    apply in_map_iff. eauto.
  - intros [H|H]; auto. destruct (col_eqb c (ename e)) eqn:E.
    + apply col_eqb_eq in E. auto.
    + right. apply in_map_iff in H as [y [Hy Hin]]. apply in_map_iff. exists y. split; [exact Hy|].
      apply filter_In. split; [exact Hin|]. rewrite Hy, E. reflexivity.
Qed.

Lemma Forall_dedup_entries (P : entry -> Prop) t : Forall P t -> Forall P (dedup_entries t).
Proof.
  induction 1 as [|e r He Hr IH]; cbn [dedup_entries]; constructor; [exact He|].
  apply Forall_forall. intros y Hy. apply filter_In in Hy as [Hy _]. rewrite Forall_forall in IH. auto.
Qed.
