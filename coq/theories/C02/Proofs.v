(* C02/Proofs.v — lemmas about the request-framework model over the generated loader table and the generated
   structural facts (C02/Gen.code_config). *)
From Coq Require Import ZArith QArith List Bool Lia.
From Abacus.Common Require Import Arr Num.
From Abacus.HaloTable Require Import Expr Gen.
From Abacus.C02 Require Import Config Gen Model Spec Lib.
Import ListNotations.
Local Open Scope Z_scope.

(* ================================================================== A. facts about the generated tables *)
Lemma tables_ok_true : tables_ok = true.
Proof. vm_compute. reflexivity. Qed.

Lemma nl_one : forall c, n_loaders c = 1.
Proof. destruct c; reflexivity. Qed.

Lemma deps_leaf : forall c d, In d (halo_deps c) -> halo_deps d = [].
Proof. intros c d H. destruct c; vm_compute in H; intuition (subst; reflexivity). Qed.

Lemma deps_temp_dtype : forall c d, In d (halo_deps c) ->
  dt_find d (if mem d (names clean_dt_progen) then clean_dt_progen else user_dt) = Some (home d).
Proof. intros c d H. destruct c; vm_compute in H; intuition (subst; reflexivity). Qed.

Lemma also_leaf : forall c k, In k (also_loads c) -> halo_deps k = [].
Proof. intros c k H. destruct c; vm_compute in H; intuition (subst; reflexivity). Qed.

Lemma deps_len : forall c, (length (halo_deps c) <= maxdeps)%nat.
Proof. destruct c; vm_compute; repeat constructor. Qed.

Lemma alloc_home c d : alloc_dtype c = Some d -> d = home c.
Proof.
  unfold alloc_dtype, home. destruct (dt_find c halo_lc_dt); [congruence|].
  destruct (dt_find c user_dt); congruence.
Qed.

Lemma progen_home : forall c d, dt_find c clean_dt_progen = Some d -> d = home c.
Proof. intros c d H. destruct c; vm_compute in H; try discriminate H; inversion H; reflexivity. Qed.

Lemma user_alloc c : In c (names user_dt) -> exists d, alloc_dtype c = Some d.
Proof.
  intros H. unfold alloc_dtype. destruct (dt_find c halo_lc_dt); [eauto|]. apply dt_find_In. exact H.
Qed.

(* ================================================================== B. the dependency worklist *)
Lemma visit_leaves q fuel :
  (forall c, In c q -> halo_deps c = []) -> (length q <= fuel)%nat -> visit fuel q = Some q.
Proof.
  revert fuel. induction q as [|c t IH]; intros fuel Hl Hf; [destruct fuel; reflexivity|].
  destruct fuel as [|f]; [cbn in Hf; lia|]. cbn [visit].
  rewrite (Hl c (or_introl eq_refl)), app_nil_r, IH; [reflexivity | intros; apply Hl; right; assumption | cbn in Hf; lia].
Qed.

Lemma visit_closed p : forall q fuel,
  (forall c, In c q -> halo_deps c = []) ->
  (length p + length q + length (flat_map halo_deps p) <= fuel)%nat ->
  visit fuel (p ++ q) = Some (p ++ q ++ flat_map halo_deps p).
Proof.
  induction p as [|c t IH]; intros q fuel Hq Hf; cbn [app flat_map].
  - rewrite app_nil_r. apply visit_leaves; [exact Hq | cbn in Hf; lia].
  - destruct fuel as [|f]; [cbn in Hf; lia|]. cbn [visit].
    rewrite <- app_assoc, (IH (q ++ halo_deps c) f).
    + cbn [option_map]. rewrite <- !app_assoc. reflexivity.
    + intros x Hx. apply in_app_or in Hx as [Hx|Hx]; [apply Hq; exact Hx | eapply deps_leaf; exact Hx].
    + cbn [length flat_map] in Hf. rewrite !app_length in *. lia.
Qed.

Lemma flat_map_deps_len l : (length (flat_map halo_deps l) <= length l * maxdeps)%nat.
Proof.
  induction l as [|c t IH]; cbn [flat_map length]; [lia|].
  rewrite app_length. pose proof (deps_len c). lia.
Qed.

Lemma visit_all fs : visit (visit_fuel fs) fs = Some (fs ++ flat_map halo_deps fs).
Proof.
  pose proof (visit_closed fs [] (visit_fuel fs)) as H. rewrite app_nil_r in H. cbn [app] in H.
  apply H; [intros c []|]. unfold visit_fuel. pose proof (flat_map_deps_len fs). cbn [length]. lia.
Qed.

Lemma get_deps_eq fs :
  get_deps fs = Ok (deps_of_iter fs (fs ++ flat_map halo_deps fs)).
Proof.
  unfold get_deps. rewrite visit_all.
  replace (forallb (fun c => n_loaders c =? 1) (fs ++ flat_map halo_deps fs)) with true; [reflexivity|].
  symmetry. apply forallb_forall. intros c _. rewrite nl_one. reflexivity.
Qed.

(* ================================================================== C. the evaluation loop *)
Section Loop.
  Variables (u : unitsym -> Q) (raw : rawcol -> Q) (rawany : rawcol -> bool).
  Notation specv := (spec_value u raw rawany).
  Notation specl := (spec_leaf u raw rawany).
  Notation step := (step u raw rawany).
  Notation eval_in := (eval_in u raw rawany).

  Lemma spec_value_leaf d : halo_deps d = [] -> specv d = specl d.
  Proof.
    intros H. unfold spec_value, spec_leaf. f_equal. apply evalN_ext.
    unfold halo_deps in H. rewrite H. intros c [].
  Qed.

  (* every column of the table has its declared dtype *)
  Definition good_tab (t : tab) : Prop := forall c d v, tab_find c t = Some (d, v) -> d = home c.
  (* the columns loaded so far are in the table and hold their specification value *)
  Definition Inv (t : tab) (loaded : list col) : Prop :=
    forall y, In y loaded -> tab_has y t = true /\ tab_val y t = specv y.

  Lemma assign_ok t c v L :
    good_tab t -> Inv t L -> tab_has c t = true -> cast (fst (home c)) v = specv c ->
    exists t', assign t c v = Ok t' /\ good_tab t' /\ Inv t' (c :: L) /\ (forall x, tab_has x t' = tab_has x t).
  Proof.
    intros Hg Hi Hc Hv. unfold assign, tab_has in *.
    destruct (tab_find c t) as [[[k n] w]|] eqn:Ef; [|discriminate].
    pose proof (Hg _ _ _ Ef) as Hd. rewrite <- Hd in *. cbn [snd fst] in *. rewrite Z.eqb_refl.
    eexists. split; [reflexivity|].
    assert (Hhas : forall x, match tab_find x (tab_set c (cast k v) t) with Some _ => true | None => false end
                            = match tab_find x t with Some _ => true | None => false end).
    { intros x. destruct (col_eqb x c) eqn:E.
      - apply col_eqb_eq in E. subst x. rewrite (tab_find_set_same _ _ _ _ _ Ef), Ef. reflexivity.
      - apply col_eqb_neq in E. rewrite (tab_find_set_other _ _ _ _ E). reflexivity. }
    split; [|split; [|exact Hhas]].
    - intros x d v' Hx. destruct (col_eqb x c) eqn:E.
      + apply col_eqb_eq in E. subst x. rewrite (tab_find_set_same _ _ _ _ _ Ef) in Hx. inversion Hx; subst. exact Hd.
      + apply col_eqb_neq in E. rewrite (tab_find_set_other _ _ _ _ E) in Hx. eapply Hg. exact Hx.
    - intros y Hy. unfold tab_has, tab_val. rewrite Hhas. destruct (col_eqb y c) eqn:E.
      + apply col_eqb_eq in E. subst y. rewrite (tab_find_set_same _ _ _ _ _ Ef), Ef. split; [reflexivity | exact Hv].
      + apply col_eqb_neq in E. rewrite (tab_find_set_other _ _ _ _ E).
        destruct Hy as [Hy|Hy]; [congruence|]. apply Hi in Hy. exact Hy.
  Qed.

  Lemma eval_leaf t k : halo_deps k = [] -> cast (fst (home k)) (eval_in t k) = specv k.
  Proof.
    intros H. rewrite (spec_value_leaf _ H). unfold spec_leaf, Model.eval_in. f_equal. apply evalN_ext.
    unfold halo_deps in H. rewrite H. intros c [].
  Qed.

  Lemma others_ok others : forall t L,
    good_tab t -> Inv t L -> (forall k, In k others -> tab_has k t = true /\ halo_deps k = []) ->
    exists t', foldM (fun t' k => assign t' k (eval_in t' k)) others t = Ok t' /\ good_tab t' /\
               Inv t' (L ++ others) /\ (forall x, tab_has x t' = tab_has x t).
  Proof.
    induction others as [|k r IH]; intros t L Hg Hi Hk; cbn [foldM].
    - exists t. rewrite app_nil_r. auto.
    - destruct (Hk k (or_introl eq_refl)) as [Hkt Hkl].
      destruct (assign_ok t k (eval_in t k) L Hg Hi Hkt (eval_leaf t k Hkl)) as [t1 [E1 [Hg1 [Hi1 Hh1]]]].
      rewrite E1. cbn [bind].
      destruct (IH t1 (k :: L) Hg1 Hi1) as [t2 [E2 [Hg2 [Hi2 Hh2]]]].
      { intros k' Hk'. rewrite Hh1. apply Hk. right. exact Hk'. }
      exists t2. split; [exact E2|]. split; [exact Hg2|]. split.
      + intros y Hy. apply Hi2. apply in_app_or in Hy as [Hy|[Hy|Hy]].
        * apply in_or_app. left. right. exact Hy.
        * subst. apply in_or_app. left. left. reflexivity.
        * apply in_or_app. right. exact Hy.
      + intros x. rewrite Hh2. apply Hh1.
  Qed.

  Lemma step_ok t loaded c :
    good_tab t -> Inv t loaded -> tab_has c t = true -> (forall d, In d (halo_deps c) -> In d loaded) ->
    exists t' loaded', step (t, loaded) c = Ok (t', loaded') /\ good_tab t' /\ Inv t' loaded' /\
                       incl loaded loaded' /\ In c loaded' /\ (forall x, tab_has x t' = tab_has x t).
  Proof.
    intros Hg Hi Hc Hd. unfold Model.step.
    destruct (mem c loaded) eqn:Em.
    - exists t, loaded. apply mem_In in Em.
      split; [reflexivity|]. split; [exact Hg|]. split; [exact Hi|]. split; [apply incl_refl|].
      split; [exact Em | reflexivity].
    - rewrite nl_one. cbn [Z.eqb Pos.eqb negb].
      replace (forallb (fun d => tab_has d t) (halo_deps c)) with true
        by (symmetry; apply forallb_forall; intros d Hd'; apply Hi; auto).
      cbn [negb].
      assert (Hv : cast (fst (home c)) (eval_in t c) = specv c).
      { unfold spec_value, Model.eval_in. f_equal. apply evalN_ext. intros d Hd'.
        destruct (Hi d (Hd d Hd')) as [_ Hval]. rewrite Hval. apply spec_value_leaf. eapply deps_leaf. exact Hd'. }
      destruct (assign_ok t c (eval_in t c) loaded Hg Hi Hc Hv) as [t1 [E1 [Hg1 [Hi1 Hh1]]]].
      rewrite E1. cbn [bind].
      set (others := filter (fun k => tab_has k t) (also_loads c)).
      destruct (others_ok others t1 (c :: loaded) Hg1 Hi1) as [t2 [E2 [Hg2 [Hi2 Hh2]]]].
      { intros k Hk. apply filter_In in Hk as [Hk1 Hk2]. rewrite Hh1. split; [exact Hk2 | eapply also_leaf; exact Hk1]. }
      rewrite E2. cbn [bind]. exists t2, (loaded ++ c :: others).
      split; [reflexivity|]. split; [exact Hg2|]. split.
      + intros y Hy. apply Hi2. apply in_app_or in Hy as [Hy|[Hy|Hy]].
        * apply in_or_app. left. right. exact Hy.
        * subst. apply in_or_app. left. left. reflexivity.
        * apply in_or_app. right. exact Hy.
      + split; [apply incl_appl, incl_refl|]. split; [apply in_or_app; right; left; reflexivity|].
        intros x. rewrite Hh2. apply Hh1.
  Qed.

  Lemma loop_ok L : forall t loaded,
    good_tab t -> Inv t loaded ->
    (forall x, In x L -> tab_has x t = true /\ forall d, In d (halo_deps x) -> In d loaded) ->
    exists t' loaded', foldM step L (t, loaded) = Ok (t', loaded') /\ good_tab t' /\ Inv t' loaded' /\
                       incl loaded loaded' /\ incl L loaded' /\ (forall x, tab_has x t' = tab_has x t).
  Proof.
    induction L as [|c r IH]; intros t loaded Hg Hi HL; cbn [foldM].
    - exists t, loaded. split; [reflexivity|]. split; [exact Hg|]. split; [exact Hi|]. split; [apply incl_refl|].
      split; [intros x [] | reflexivity].
    - destruct (HL c (or_introl eq_refl)) as [Hc Hd].
      destruct (step_ok t loaded c Hg Hi Hc Hd) as [t1 [l1 [E1 [Hg1 [Hi1 [Hin1 [Hc1 Hh1]]]]]]].
      rewrite E1. cbn [bind].
      destruct (IH t1 l1 Hg1 Hi1) as [t2 [l2 [E2 [Hg2 [Hi2 [Hin2 [HL2 Hh2]]]]]]].
      { intros x Hx. destruct (HL x (or_intror Hx)) as [Hx1 Hx2]. rewrite Hh1. split; [exact Hx1|].
        intros d Hd'. apply Hin1. auto. }
      exists t2, l2. split; [exact E2|]. split; [exact Hg2|]. split; [exact Hi2|].
      split; [eapply incl_tran; eassumption|]. split.
      + intros x [Hx|Hx]; [subst; apply Hin2; exact Hc1 | apply HL2; exact Hx].
      + intros x. rewrite Hh2. apply Hh1.
  Qed.
End Loop.

(* ================================================================== D. allocation, temporaries and the loop together *)
Definition dtype_ok (e : entry) : Prop := snd (fst e) = home (ename e).

Lemma good_tab_Forall t : Forall dtype_ok t -> good_tab t.
Proof.
  intros H c d v Hf. pose proof (tab_find_Forall dtype_ok c t d v H Hf) as Hp. exact Hp.
Qed.

Section Core.
  Variables (u : unitsym -> Q) (raw : rawcol -> Q) (rawany : rawcol -> bool).

  Lemma core cfg fields cfields cols1 cols2 :
    temp_dtype cfg = TDField ->
    mapM alloc_field fields = Ok cols1 -> mapM alloc_cleaned cfields = Ok cols2 ->
    let tab0 := dedup_entries (cols1 ++ cols2) in
    let fs := map ename tab0 in
    let d := deps_of_iter fs (fs ++ flat_map halo_deps fs) in
    exists temps st,
      get_deps fs = Ok d /\
      mapM (temp_entry cfg (stale_col fields cfields)) (extra_fields d) = Ok temps /\
      foldM (step u raw rawany) (fields_with_deps d) (tab0 ++ temps, []) = Ok st /\
      forall c, In c fs -> tab_val c (fst st) = spec_value u raw rawany c.
  Proof.
    intros Hcfg H1 H2 tab0 fs d.
    set (D := flat_map halo_deps fs) in *.
    assert (Hextra : forall f, In f (extra_fields d) <-> In f D /\ ~ In f fs).
    { intros f. cbn [d extra_fields deps_of_iter]. rewrite In_dedup, <- in_rev, filter_In, negb_true_iff, mem_false.
      rewrite flat_map_app, in_app_iff. fold D. split; [|tauto].
      intros [[H|H] Hn]; [tauto|]. exfalso.
      apply in_flat_map in H as [y [Hy H]]. apply in_flat_map in Hy as [z [_ Hy]].
      rewrite (deps_leaf _ _ Hy) in H. destruct H. }
    (* temporaries *)
    assert (Htemp1 : forall f, In f (extra_fields d) ->
                temp_entry cfg (stale_col fields cfields) f = Ok (f, home f, NUninit)).
    { intros f Hf. apply Hextra in Hf as [Hf _]. apply in_flat_map in Hf as [y [_ Hf]].
      unfold temp_entry. cbv zeta. rewrite Hcfg.
      assert (Hm : forall X : option (dkind * Z), X = Some (home f) ->
                match X with Some d0 => Ok (f, d0, NUninit) | None => Raise KeyError end = Ok (f, home f, NUninit))
        by (intros X ->; reflexivity).
      apply Hm. exact (deps_temp_dtype _ _ Hf). }
    destruct (mapM_total (temp_entry cfg (stale_col fields cfields)) (extra_fields d)) as [temps Htemps];
      [intros f Hf; rewrite (Htemp1 f Hf); eauto|].
    exists temps.
    assert (Hnames : map ename temps = extra_fields d).
    { eapply mapM_ok_names; [|exact Htemps]. intros a b. unfold temp_entry. cbv zeta. rewrite Hcfg.
      destruct (dt_find a _); intros H; inversion H; reflexivity. }
    assert (Hgt : Forall dtype_ok temps).
    { eapply mapM_ok_Forall_In; [|exact Htemps]. intros a b Ha Hb. rewrite (Htemp1 a Ha) in Hb.
      inversion Hb. reflexivity. }
    assert (Hg0 : Forall dtype_ok tab0).
    { apply Forall_dedup_entries, Forall_app. split.
      - eapply mapM_ok_Forall; [|exact H1]. intros a b. unfold alloc_field.
        destruct (alloc_dtype a) eqn:E; intros H; inversion H. unfold dtype_ok. cbn. apply alloc_home. exact E.
      - eapply mapM_ok_Forall; [|exact H2]. intros a b. unfold alloc_cleaned.
        destruct (dt_find a clean_dt_progen) eqn:E; intros H; inversion H. unfold dtype_ok. cbn.
        apply progen_home. exact E. }
    assert (Hg : good_tab (tab0 ++ temps)) by (apply good_tab_Forall, Forall_app; auto).
    assert (Hhas : forall x, In x fs \/ In x D -> tab_has x (tab0 ++ temps) = true).
    { intros x Hx. apply tab_has_In. rewrite map_app, in_app_iff, Hnames, Hextra. fold fs.
      destruct (mem x fs) eqn:E; [apply mem_In in E; auto | apply mem_false in E; tauto]. }
    (* the order: first the intermediate inputs, then the requested columns *)
    assert (Hfwd : fields_with_deps d
                   = dedup (rev D) ++ filter (fun y => negb (mem y (rev D))) (dedup (rev fs))).
    { cbn [d fields_with_deps deps_of_iter]. fold D. rewrite rev_app_distr. apply dedup_app. }
    rewrite Hfwd.
    destruct (loop_ok u raw rawany (dedup (rev D)) (tab0 ++ temps) []) as [t1 [l1 [E1 [Hg1 [Hi1 [_ [HL1 Hh1]]]]]]].
    { exact Hg. }
    { intros y []. }
    { intros x Hx. rewrite In_dedup, <- in_rev in Hx. split; [apply Hhas; auto|].
      apply in_flat_map in Hx as [y [_ Hx]]. rewrite (deps_leaf _ _ Hx). intros ? []. }
    destruct (loop_ok u raw rawany (filter (fun y => negb (mem y (rev D))) (dedup (rev fs))) t1 l1 Hg1 Hi1)
      as [t2 [l2 [E2 [Hg2 [Hi2 [Hin2 [HL2 Hh2]]]]]]].
    { intros x Hx. apply filter_In in Hx as [Hx _]. rewrite In_dedup, <- in_rev in Hx. split.
      - rewrite Hh1. apply Hhas. auto.
      - intros dd Hdd. apply HL1. rewrite In_dedup, <- in_rev. apply in_flat_map. eauto. }
    exists (t2, l2). split; [apply get_deps_eq|]. split; [exact Htemps|]. split.
    - rewrite foldM_app.
      match goal with |- bind ?X _ = _ => replace X with (Ok (t1, l1) : res (tab * list col)) by (symmetry; exact E1) end.
      cbn [bind]. exact E2.
    - intros c Hc. cbn [fst]. apply Hi2.
      destruct (mem c (rev D)) eqn:E.
      + apply Hin2, HL1. rewrite In_dedup. apply mem_In. exact E.
      + apply HL2, filter_In. split; [rewrite In_dedup, <- in_rev; exact Hc | rewrite E; reflexivity].
  Qed.
End Core.

(* ================================================================== E. _setup_fields *)
Lemma remove_first_NoDup_keeps c l : NoDup l -> NoDup (remove_first c l).
Proof. intros H. rewrite remove_first_NoDup by exact H. apply NoDup_filter. exact H. Qed.

Lemma In_remove_first x c l : NoDup l -> (In x (remove_first c l) <-> In x l /\ x <> c).
Proof.
  intros H. rewrite remove_first_NoDup by exact H. rewrite filter_In, negb_true_iff, col_eqb_neq. tauto.
Qed.

(* the split loop, for any list of cleaned names without repetition *)
Lemma split_fold P : NoDup P -> forall f cf, NoDup f ->
  fold_left (fun fc item => if mem item (fst fc) then (remove_first item (fst fc), snd fc ++ [item]) else fc) P (f, cf)
  = (filter (fun x => negb (mem x P)) f, cf ++ filter (fun i => mem i f) P).
Proof.
  induction 1 as [|item P' Hi HP IH]; intros f cf Hf; cbn [fold_left fst snd filter mem].
  - rewrite app_nil_r. f_equal. clear. induction f as [|x t IHt]; cbn [filter negb]; [reflexivity | f_equal; exact IHt].
  - destruct (mem item f) eqn:Em.
    + rewrite IH by (apply remove_first_NoDup_keeps; exact Hf). f_equal.
      * rewrite remove_first_NoDup by exact Hf. rewrite filter_filter. apply filter_ext.
        intros x. rewrite negb_orb. reflexivity.
      * rewrite <- app_assoc. cbn [app]. do 2 f_equal. apply filter_ext_in. intros i Hi'.
        destruct (mem i (remove_first item f)) eqn:E1.
        -- apply mem_In, In_remove_first in E1 as [E1 _]; [|exact Hf]. symmetry. apply mem_In. exact E1.
        -- destruct (mem i f) eqn:E2; [|reflexivity]. exfalso. apply mem_false in E1. apply E1.
           apply In_remove_first; [exact Hf|]. apply mem_In in E2. split; [exact E2|]. intros ->. contradiction.
    + rewrite IH by exact Hf. f_equal. apply filter_ext_in. intros x Hx.
      destruct (col_eqb x item) eqn:E; [|reflexivity]. apply col_eqb_eq in E. subst x.
      apply mem_false in Em. contradiction.
Qed.

Lemma progen_NoDup : NoDup (names clean_dt_progen).
Proof.
  apply (NoDup_map_inv col_idx). vm_compute.
  repeat (constructor; [cbn [In]; intuition discriminate|]). constructor.
Qed.

Ltac in_names := apply mem_In; vm_compute; reflexivity.

Lemma add_index_props cfg cleaned s o sm om f cf :
  sound_config cfg ->
  let fc := add_index cfg cleaned s o sm om (f, cf) in
  (forall x, In x (fst fc) <-> x = s \/ x = o \/ In x f) /\
  (forall x, In x (snd fc) <-> (cleaned = true /\ (x = sm \/ x = om)) \/ In x cf).
Proof.
  intros [_ [Hi Hm]] fc. subst fc. unfold add_index. rewrite Hi, Hm. cbn [negb orb fst snd]. split; intros x.
  - rewrite !add_if_absent_In. tauto.
  - destruct cleaned; [rewrite !add_if_absent_In; intuition congruence | intuition congruence].
Qed.

Lemma require_ntotal_props cleaned f0 :
  NoDup f0 ->
  NoDup (require_ntotal cleaned f0) /\
  (forall x, In x (require_ntotal cleaned f0) <->
             if cleaned then x = c_N_total \/ (In x f0 /\ x <> c_N) else In x f0).
Proof.
  intros Hn. unfold require_ntotal. destruct cleaned; [|tauto].
  destruct (mem c_N f0) eqn:E.
  - split; [apply add_if_absent_NoDup, remove_first_NoDup_keeps; exact Hn|].
    intros x. rewrite add_if_absent_In, In_remove_first by exact Hn. tauto.
  - split; [apply add_if_absent_NoDup; exact Hn|].
    intros x. rewrite add_if_absent_In. apply mem_false in E. split; [|tauto].
    intros [H|H]; [auto|]. right. split; [exact H | intros ->; contradiction].
Qed.

Lemma setup_props cfg cleaned loadA loadB r :
  sound_config cfg -> valid_request cleaned r ->
  let fc := setup_fields cfg cleaned loadA loadB r in
  (forall x, In x (fst fc) -> In x (names user_dt)) /\
  (forall x, In x (snd fc) -> In x (names clean_dt_progen)) /\
  (cleaned = false -> snd fc = []) /\
  (forall c, In c (initial_fields cleaned r) -> In (returned_as cleaned c) (fst fc ++ snd fc)) /\
  (loadA = true -> In c_npstartA (fst fc) /\ In c_npoutA (fst fc) /\
                   (cleaned = true -> In c_npstartA_merge (snd fc) /\ In c_npoutA_merge (snd fc))) /\
  (loadB = true -> In c_npstartB (fst fc) /\ In c_npoutB (fst fc) /\
                   (cleaned = true -> In c_npstartB_merge (snd fc) /\ In c_npoutB_merge (snd fc))).
Proof.
  intros Hcfg [Hnd Hval] fc. subst fc. unfold setup_fields.
  set (f0 := initial_fields cleaned r) in *.
  destruct (require_ntotal_props cleaned f0 Hnd) as [Hn1 Hin1].
  set (f1 := require_ntotal cleaned f0) in *.
  (* after the split *)
  assert (Hsplit : let fc2 := split_cleaned cleaned f1 in
            (forall x, In x (fst fc2) -> In x (names user_dt)) /\
            (forall x, In x (snd fc2) -> In x (names clean_dt_progen)) /\
            (cleaned = false -> snd fc2 = []) /\
            (forall c, In c f0 -> In (returned_as cleaned c) (fst fc2 ++ snd fc2))).
  { unfold split_cleaned. destruct cleaned.
    - rewrite (split_fold _ progen_NoDup f1 [] Hn1). cbn [fst snd app].
      split; [|split; [|split; [discriminate|]]].
      + intros x Hx. apply filter_In in Hx as [Hx Hp]. apply negb_true_iff, mem_false in Hp.
        apply Hin1 in Hx as [->|[Hx _]]; [exfalso; apply Hp; in_names|].
        destruct (Hval x Hx) as [H|[_ H]]; [exact H | contradiction].
      + intros x Hx. apply filter_In in Hx. tauto.
      + intros c Hc. unfold returned_as.
        assert (Hcase : forall y, In y f1 -> In y (filter (fun x => negb (mem x (names clean_dt_progen))) f1 ++
                                                   filter (fun i => mem i f1) (names clean_dt_progen))).
        { intros y Hy. apply in_or_app. destruct (mem y (names clean_dt_progen)) eqn:E.
          - right. apply filter_In. split; [apply mem_In; exact E | apply mem_In; exact Hy].
          - left. apply filter_In. split; [exact Hy | rewrite E; reflexivity]. }
        destruct (col_eqb c c_N) eqn:E; apply Hcase, Hin1; [left; reflexivity|].
        right. split; [exact Hc | apply col_eqb_neq; exact E].
    - cbn [fst snd]. split; [|split; [intros x []|split; [reflexivity|]]].
      + intros x Hx. apply Hin1 in Hx. destruct (Hval x Hx) as [H|[H _]]; [exact H | discriminate].
      + intros c Hc. unfold returned_as. apply in_or_app. left. apply Hin1. exact Hc. }
  cbv zeta in Hsplit. destruct (split_cleaned cleaned f1) as [f2 cf2]. cbn [fst snd] in Hsplit.
  destruct Hsplit as [Hu2 [Hp2 [Hc2 Hr2]]].
  (* index columns of A *)
  pose proof (add_index_props cfg cleaned c_npstartA c_npoutA c_npstartA_merge c_npoutA_merge f2 cf2 Hcfg) as HA.
  cbv zeta in HA.
  set (fcA := if loadA then add_index cfg cleaned c_npstartA c_npoutA c_npstartA_merge c_npoutA_merge (f2, cf2)
              else (f2, cf2)) in *.
  assert (HfA : forall x, In x (fst fcA) <-> (loadA = true /\ (x = c_npstartA \/ x = c_npoutA)) \/ In x f2).
  { intros x. subst fcA. destruct loadA; [rewrite (proj1 HA x); intuition congruence | cbn [fst]; intuition congruence]. }
  assert (HcA : forall x, In x (snd fcA) <->
                          (loadA = true /\ cleaned = true /\ (x = c_npstartA_merge \/ x = c_npoutA_merge)) \/ In x cf2).
  { intros x. subst fcA. destruct loadA; [rewrite (proj2 HA x); intuition congruence | cbn [snd]; intuition congruence]. }
  clearbody fcA. clear HA. destruct fcA as [f3 cf3]. cbn [fst snd] in HfA, HcA.
  pose proof (add_index_props cfg cleaned c_npstartB c_npoutB c_npstartB_merge c_npoutB_merge f3 cf3 Hcfg) as HB.
  cbv zeta in HB.
  set (fcB := if loadB then add_index cfg cleaned c_npstartB c_npoutB c_npstartB_merge c_npoutB_merge (f3, cf3)
              else (f3, cf3)) in *.
  assert (HfB : forall x, In x (fst fcB) <-> (loadB = true /\ (x = c_npstartB \/ x = c_npoutB)) \/ In x f3).
  { intros x. subst fcB. destruct loadB; [rewrite (proj1 HB x); intuition congruence | cbn [fst]; intuition congruence]. }
  assert (HcB : forall x, In x (snd fcB) <->
                          (loadB = true /\ cleaned = true /\ (x = c_npstartB_merge \/ x = c_npoutB_merge)) \/ In x cf3).
  { intros x. subst fcB. destruct loadB; [rewrite (proj2 HB x); intuition congruence | cbn [snd]; intuition congruence]. }
  clearbody fcB. clear HB. destruct fcB as [f4 cf4]. cbn [fst snd] in *.
  split; [|split; [|split; [|split; [|split]]]].
  - intros x Hx. apply HfB in Hx as [[_ [->| ->]]|Hx]; try in_names.
    apply HfA in Hx as [[_ [->| ->]]|Hx]; try in_names. auto.
  - intros x Hx. apply HcB in Hx as [[_ [_ [->| ->]]]|Hx]; try in_names.
    apply HcA in Hx as [[_ [_ [->| ->]]]|Hx]; try in_names. auto.
  - intros Hcl. destruct cf4 as [|x t]; [reflexivity|]. exfalso.
    assert (Hx : In x (x :: t)) by (left; reflexivity).
    apply HcB in Hx as [[_ [H _]]|Hx]; [congruence|].
    apply HcA in Hx as [[_ [H _]]|Hx]; [congruence|]. rewrite (Hc2 Hcl) in Hx. destruct Hx.
  - intros c Hc. specialize (Hr2 c Hc). apply in_app_or in Hr2 as [H|H]; apply in_or_app.
    + left. apply HfB. right. apply HfA. right. exact H.
    + right. apply HcB. right. apply HcA. right. exact H.
  - intros HlA. split; [|split].
    + apply HfB. right. apply HfA. left. auto.
    + apply HfB. right. apply HfA. left. auto.
    + intros Hcl. split; apply HcB; right; apply HcA; left; auto.
  - intros HlB. split; [|split].
    + apply HfB. left. auto.
    + apply HfB. left. auto.
    + intros Hcl. split; apply HcB; left; auto.
Qed.

(* ================================================================== F. the visible table and the index bookkeeping *)
Lemma out_find_app c a b :
  out_find c (a ++ b) = match out_find c a with Some v => Some v | None => out_find c b end.
Proof.
  induction a as [|[x v] r IH]; cbn [app out_find]; [reflexivity|].
  destruct (col_eqb c x); [reflexivity | exact IH].
Qed.

Lemma out_find_filter (p : col -> bool) c o :
  out_find c (filter (fun e => p (fst e)) o) = if p c then out_find c o else None.
Proof.
  induction o as [|[x v] r IH]; cbn [filter out_find fst]; [destruct (p c); reflexivity|].
  destruct (col_eqb c x) eqn:E.
  - apply col_eqb_eq in E. subst x. destruct (p c) eqn:Ep; cbn [out_find]; [rewrite col_eqb_refl; reflexivity|].
    exact IH.
  - destruct (p x); cbn [out_find]; [rewrite E|]; exact IH.
Qed.

Lemma out_find_visible (g : col -> num) c l :
  out_find c (map (fun x => (x, Val (g x))) l) = if mem c l then Some (Val (g c)) else None.
Proof.
  induction l as [|x t IH]; cbn [map out_find mem]; [reflexivity|].
  destruct (col_eqb c x) eqn:E; cbn [orb]; [apply col_eqb_eq in E; subst; reflexivity | exact IH].
Qed.

Lemma reindex_val cleaned s o sm om o_ o' c v :
  reindex cleaned s o sm om o_ = Ok o' -> out_find c o' = Some (Val v) -> out_find c o_ = Some (Val v).
Proof.
  unfold reindex. destruct (forallb _ _); [|discriminate]. intros H. inversion H; subst. clear H.
  rewrite out_find_app.
  rewrite (out_find_filter (fun x => negb (mem x (subsample_cols cleaned s o sm om)))).
  destruct (negb (mem c (subsample_cols cleaned s o sm om))).
  - destruct (out_find c o_); [auto|]. cbn [out_find]. destruct (col_eqb c s); [discriminate|].
    destruct (col_eqb c o); discriminate.
  - cbn [out_find]. destruct (col_eqb c s); [discriminate|]. destruct (col_eqb c o); discriminate.
Qed.

Lemma reindex_total cleaned s o sm om o_ :
  (forall c, In c (subsample_cols cleaned s o sm om) -> out_find c o_ <> None) ->
  exists o', reindex cleaned s o sm om o_ = Ok o' /\
             forall c, out_find c o_ <> None -> c <> sm -> c <> om -> out_find c o' <> None.
Proof.
  intros Hneed. unfold reindex.
  replace (forallb _ (subsample_cols cleaned s o sm om)) with true.
  - eexists. split; [reflexivity|]. intros c Hc Hsm Hom.
    rewrite out_find_app, (out_find_filter (fun x => negb (mem x (subsample_cols cleaned s o sm om)))).
    destruct (mem c (subsample_cols cleaned s o sm om)) eqn:E; cbn [negb].
    + cbn [out_find]. apply mem_In in E. unfold subsample_cols in E.
      assert (Hso : c = s \/ c = o).
      { destruct cleaned; cbn [app In] in E; intuition congruence. }
      destruct Hso as [->| ->]; [rewrite col_eqb_refl; discriminate|].
      destruct (col_eqb o s); [discriminate|]. rewrite col_eqb_refl. discriminate.
    + destruct (out_find c o_); [discriminate | contradiction].
  - symmetry. apply forallb_forall. intros c Hc. specialize (Hneed c Hc). destruct (out_find c o_); [reflexivity | contradiction].
Qed.

Lemma ok_inj {A} (r : res A) a b : r = Ok a -> r = Ok b -> a = b.
Proof. congruence. Qed.

Section Final.
  Variables (u : unitsym -> Q) (raw : rawcol -> Q) (rawany : rawcol -> bool).
  Notation load := (load u raw rawany).
  Notation specv := (spec_value u raw rawany).

  (* whatever the request: a value that comes back for column c is the specification value of c *)
  Lemma load_values cfg cleaned loadA loadB r o c v :
    temp_dtype cfg = TDField ->
    load cfg cleaned loadA loadB r = Ok o -> out_find c o = Some (Val v) -> v = specv c.
  Proof.
    intros Hcfg Hload Hfind. unfold Model.load in Hload.
    destruct (setup_fields cfg cleaned loadA loadB r) as [fields cfields].
    destruct (negb cleaned && negb (is_nil cfields)); [discriminate|].
    apply bind_ok in Hload as [cols1 [H1 Hload]]. apply bind_ok in Hload as [cols2 [H2 Hload]].
    destruct (core u raw rawany cfg fields cfields cols1 cols2 Hcfg H1 H2) as [temps [st [Hd [Ht [Hs Hv]]]]].
    apply bind_ok in Hload as [d' [Hd' Hload]]. pose proof (ok_inj _ _ _ Hd' Hd) as ->.
    apply bind_ok in Hload as [temps' [Ht' Hload]]. pose proof (ok_inj _ _ _ Ht' Ht) as ->.
    apply bind_ok in Hload as [st' [Hs' Hload]]. pose proof (ok_inj _ _ _ Hs' Hs) as ->.
    apply bind_ok in Hload as [o1 [Ho1 Hload]].
    assert (Hvis : forall vis, vis = map (fun x => (x, Val (tab_val x (fst st)))) (map ename (dedup_entries (cols1 ++ cols2))) ->
                   out_find c vis = Some (Val v) -> v = specv c).
    { intros vis -> Hf. rewrite out_find_visible in Hf.
      destruct (mem c _) eqn:E; [|discriminate]. inversion Hf. apply Hv. apply mem_In. exact E. }
    assert (Ho1v : out_find c o1 = Some (Val v) -> v = specv c).
    { destruct loadA.
      - intros H. eapply Hvis; [reflexivity|]. eapply reindex_val; eassumption.
      - inversion Ho1; subst. apply Hvis. reflexivity. }
    apply Ho1v. destruct loadB.
    - eapply reindex_val; eassumption.
    - inversion Hload; subst. exact Hfind.
  Qed.

  (* a valid request never fails, and every requested column comes back (except the _merge index columns, which the
     subsample loader consumes) *)
  Lemma load_total cfg cleaned loadA loadB r :
    sound_config cfg -> valid_request cleaned r ->
    exists o, load cfg cleaned loadA loadB r = Ok o /\
              forall c, In c (initial_fields cleaned r) ->
                        ~ In c [c_npstartA_merge; c_npoutA_merge; c_npstartB_merge; c_npoutB_merge] ->
                        out_find (returned_as cleaned c) o <> None.
  Proof.
    intros Hcfg Hvalid. pose proof (setup_props cfg cleaned loadA loadB r Hcfg Hvalid) as Hp. cbv zeta in Hp.
    unfold Model.load. destruct (setup_fields cfg cleaned loadA loadB r) as [fields cfields]. cbn [fst snd] in Hp.
    destruct Hp as [Hu [Hpg [Hcl [Hret [HA HB]]]]].
    replace (negb cleaned && negb (is_nil cfields)) with false
      by (destruct cleaned; [reflexivity | rewrite (Hcl eq_refl); reflexivity]).
    destruct (mapM_total alloc_field fields) as [cols1 H1].
    { intros a Ha. destruct (user_alloc a (Hu a Ha)) as [d Hd]. unfold alloc_field. rewrite Hd. eauto. }
    destruct (mapM_total alloc_cleaned cfields) as [cols2 H2].
    { intros a Ha. destruct (dt_find_In a _ (Hpg a Ha)) as [d Hd]. unfold alloc_cleaned. rewrite Hd. eauto. }
    rewrite H1, H2. cbn [bind].
    destruct (core u raw rawany cfg fields cfields cols1 cols2 (proj1 Hcfg) H1 H2) as [temps [st [Hd [Ht [Hs Hv]]]]].
    match goal with |- context [bind (get_deps ?fs) ?k] =>
      replace (get_deps fs) with (Ok (deps_of_iter fs (fs ++ flat_map halo_deps fs))) by (symmetry; exact Hd) end.
    cbn [bind].
    match goal with |- context [bind (mapM ?f ?l) ?k] =>
      replace (mapM f l) with (Ok temps : res (list entry)) by (symmetry; exact Ht) end.
    cbn [bind].
    match goal with |- context [bind (foldM ?f ?l ?s) ?k] =>
      replace (foldM f l s) with (Ok st : res (tab * list col)) by (symmetry; exact Hs) end.
    cbn [bind].
    set (fs := map ename (dedup_entries (cols1 ++ cols2))) in *.
    set (vis := map (fun c => (c, Val (tab_val c (fst st)))) fs).
    assert (Hfs : forall x, In x fs <-> In x (fields ++ cfields)).
    { assert (Hn1 : map ename cols1 = fields).
      { eapply mapM_ok_names; [|exact H1]. intros a b. unfold alloc_field.
        destruct (alloc_dtype a); intros H; inversion H; reflexivity. }
      assert (Hn2 : map ename cols2 = cfields).
      { eapply mapM_ok_names; [|exact H2]. intros a b. unfold alloc_cleaned.
        destruct (dt_find a clean_dt_progen); intros H; inversion H; reflexivity. }
      intros x. subst fs. rewrite In_dedup_entries, map_app, Hn1, Hn2. reflexivity. }
    assert (Hvis : forall x, out_find x vis <> None <-> In x (fields ++ cfields)).
    { intros x. subst vis. rewrite out_find_visible, <- Hfs, <- mem_In. destruct (mem x fs); split; congruence. }
    (* subsample A *)
    assert (HoA : exists o1,
              (if loadA then reindex cleaned c_npstartA c_npoutA c_npstartA_merge c_npoutA_merge vis else Ok vis) = Ok o1 /\
              forall x, In x (fields ++ cfields) -> x <> c_npstartA_merge -> x <> c_npoutA_merge -> out_find x o1 <> None).
    { destruct loadA.
      - destruct (HA eq_refl) as [Hs1 [Hs2 Hs3]].
        destruct (reindex_total cleaned c_npstartA c_npoutA c_npstartA_merge c_npoutA_merge vis) as [o1 [E1 Hk]].
        { intros x Hx. apply Hvis. apply in_or_app. unfold subsample_cols in Hx.
          destruct cleaned; cbn [app In] in Hx.
          - destruct (Hs3 eq_refl). intuition (subst; auto).
          - intuition (subst; auto). }
        exists o1. split; [exact E1|]. intros x Hx. apply Hk, Hvis. exact Hx.
      - exists vis. split; [reflexivity|]. intros x Hx _ _. apply Hvis. exact Hx. }
    destruct HoA as [o1 [E1 Hk1]]. rewrite E1. cbn [bind].
    assert (HoB : exists o2,
              (if loadB then reindex cleaned c_npstartB c_npoutB c_npstartB_merge c_npoutB_merge o1 else Ok o1) = Ok o2 /\
              forall x, In x (fields ++ cfields) -> x <> c_npstartA_merge -> x <> c_npoutA_merge ->
                        x <> c_npstartB_merge -> x <> c_npoutB_merge -> out_find x o2 <> None).
    { destruct loadB.
      - destruct (HB eq_refl) as [Hs1 [Hs2 Hs3]].
        destruct (reindex_total cleaned c_npstartB c_npoutB c_npstartB_merge c_npoutB_merge o1) as [o2 [E2 Hk]].
        { intros x Hx. unfold subsample_cols in Hx.
          destruct cleaned; cbn [app In] in Hx.
          - destruct (Hs3 eq_refl).
            destruct Hx as [<-|[<-|[<-|[<-|[]]]]]; apply Hk1; try (apply in_or_app; auto); discriminate.
          - destruct Hx as [<-|[<-|[]]]; apply Hk1; try (apply in_or_app; auto); discriminate. }
        exists o2. split; [exact E2|]. intros x Hx ? ? ? ?. apply Hk; auto.
      - exists o1. split; [reflexivity|]. intros x Hx ? ? _ _. apply Hk1; auto. }
    destruct HoB as [o2 [E2 Hk2]]. exists o2. split; [exact E2|].
    intros c Hc Hnot. cbn [In] in Hnot.
    assert (Hr : forall m, In m [c_npstartA_merge; c_npoutA_merge; c_npstartB_merge; c_npoutB_merge] ->
                           returned_as cleaned c <> m).
    { intros m Hm E. unfold returned_as in E. destruct cleaned; [|subst; tauto].
      destruct (col_eqb c c_N); [cbn [In] in Hm; subst; intuition discriminate | subst; tauto]. }
    apply Hk2; [apply Hret; exact Hc | | | |]; apply Hr; cbn [In]; auto.
  Qed.
End Final.

(* ================================================================== G. remaining clauses *)
Lemma app_eq_prefix {A} (a b p s : list A) x :
  a ++ b = p ++ x :: s -> ~ In x a -> exists r, p = a ++ r.
Proof.
  revert p. induction a as [|y a' IH]; intros p He Hx; [exists p; reflexivity|].
  destruct p as [|z p']; cbn [app] in He.
  - inversion He; subst. exfalso. apply Hx. left. reflexivity.
  - inversion He; subst. destruct (IH p' H1) as [r Hr]; [intros H; apply Hx; right; exact H|].
    exists r. rewrite Hr. reflexivity.
Qed.

(* a column is computed after everything it reads *)
Lemma deps_order fs d : get_deps fs = Ok d ->
  forall p x s, fields_with_deps d = p ++ x :: s -> forall dd, In dd (halo_deps x) -> In dd p.
Proof.
  intros Hd p x s Hsplit dd Hdd. rewrite get_deps_eq in Hd. inversion Hd; subst d. clear Hd.
  cbn [fields_with_deps deps_of_iter] in Hsplit. rewrite rev_app_distr, dedup_app in Hsplit.
  set (D := flat_map halo_deps fs) in *.
  assert (Hx : ~ In x (dedup (rev D))).
  { rewrite In_dedup, <- in_rev. intros H. apply in_flat_map in H as [y [_ H]].
    rewrite (deps_leaf _ _ H) in Hdd. destruct Hdd. }
  destruct (app_eq_prefix _ _ _ _ _ Hsplit Hx) as [r ->].
  apply in_or_app. left. rewrite In_dedup, <- in_rev.
  (* x itself is one of the fields: it is in the second part *)
  rewrite <- app_assoc in Hsplit. apply app_inv_head in Hsplit.
  assert (Hxin : In x (filter (fun y => negb (mem y (rev D))) (dedup (rev fs)))).
  { rewrite Hsplit. apply in_or_app. right. left. reflexivity. }
  apply filter_In in Hxin as [Hxin _]. rewrite In_dedup, <- in_rev in Hxin.
  apply in_flat_map. eauto.
Qed.

Lemma reindex_reidx cleaned s o sm om o_ o' c :
  reindex cleaned s o sm om o_ = Ok o' -> out_find c o' = Some Reindexed ->
  out_find c o_ = Some Reindexed \/ c = s \/ c = o.
Proof.
  unfold reindex. destruct (forallb _ _); [|discriminate]. intros H. inversion H; subst. clear H.
  rewrite out_find_app, (out_find_filter (fun x => negb (mem x (subsample_cols cleaned s o sm om)))).
  destruct (negb (mem c (subsample_cols cleaned s o sm om))).
  - destruct (out_find c o_) as [w|]; [intros H; inversion H; auto|].
    cbn [out_find]. destruct (col_eqb c s) eqn:E1; [apply col_eqb_eq in E1; auto|].
    destruct (col_eqb c o) eqn:E2; [apply col_eqb_eq in E2; auto | discriminate].
  - cbn [out_find]. destruct (col_eqb c s) eqn:E1; [apply col_eqb_eq in E1; auto|].
    destruct (col_eqb c o) eqn:E2; [apply col_eqb_eq in E2; auto | discriminate].
Qed.

Lemma load_reindexed u raw rawany cfg cleaned loadA loadB r o c :
  load u raw rawany cfg cleaned loadA loadB r = Ok o -> out_find c o = Some Reindexed ->
  In c (index_cols loadA loadB).
Proof.
  intros Hload Hfind. unfold load in Hload.
  destruct (setup_fields cfg cleaned loadA loadB r) as [fields cfields].
  destruct (negb cleaned && negb (is_nil cfields)); [discriminate|].
  apply bind_ok in Hload as [cols1 [_ Hload]]. apply bind_ok in Hload as [cols2 [_ Hload]].
  apply bind_ok in Hload as [d [_ Hload]]. apply bind_ok in Hload as [temps [_ Hload]].
  apply bind_ok in Hload as [st [_ Hload]]. apply bind_ok in Hload as [o1 [Ho1 Hload]].
  set (vis := map (fun x => (x, Val (tab_val x (fst st)))) (map ename (dedup_entries (cols1 ++ cols2)))) in *.
  assert (Hvis : out_find c vis <> Some Reindexed).
  { subst vis. rewrite out_find_visible. destruct (mem c _); discriminate. }
  unfold index_cols.
  assert (H1 : out_find c o1 = Some Reindexed -> In c (if loadA then [c_npstartA; c_npoutA] else [])).
  { destruct loadA.
    - intros H. destruct (reindex_reidx _ _ _ _ _ _ _ _ Ho1 H) as [H'|[->| ->]]; cbn [In]; auto.
    - inversion Ho1; subst. intros H. contradiction. }
  apply in_or_app. destruct loadB.
  - destruct (reindex_reidx _ _ _ _ _ _ _ _ Hload Hfind) as [H'|[->| ->]]; cbn [In]; auto.
  - inversion Hload; subst. auto.
Qed.

(* boolean validity check, to show the default and 'all' requests valid by computation *)
Fixpoint nodupb (l : list col) : bool := match l with [] => true | x :: t => negb (mem x t) && nodupb t end.

Lemma nodupb_NoDup l : nodupb l = true -> NoDup l.
Proof.
  induction l as [|x t IH]; cbn [nodupb]; intros H; constructor; apply andb_prop in H as [H1 H2].
  - apply mem_false, negb_true_iff. exact H1.
  - apply IH. exact H2.
Qed.

Definition validb (cleaned : bool) (l : list col) : bool :=
  nodupb l && forallb (fun c => mem c (names user_dt) || (cleaned && mem c (names clean_dt_progen))) l.

Lemma validb_sound cleaned l : validb cleaned l = true -> valid_fields cleaned l.
Proof.
  unfold validb. intros H. apply andb_prop in H as [H1 H2]. split; [apply nodupb_NoDup; exact H1|].
  intros c Hc. rewrite forallb_forall in H2. specialize (H2 c Hc). apply orb_prop in H2 as [H|H].
  - left. apply mem_In. exact H.
  - right. apply andb_prop in H as [Ha Hb]. split; [exact Ha | apply mem_In; exact Hb].
Qed.

Lemma builtin_requests_valid : forall cleaned, valid_request cleaned RDefault /\ valid_request cleaned RAll.
Proof. intros [|]; split; apply validb_sound; vm_compute; reflexivity. Qed.

Lemma code_config_sound : sound_config code_config.
Proof. repeat split; reflexivity. Qed.

(* ================================================================== H. the statements of Properties.v *)
Lemma column_value_spec_lemma : forall u raw rawany cleaned loadA loadB r o c v,
  load u raw rawany code_config cleaned loadA loadB r = Ok o ->
  out_find c o = Some (Val v) ->
  v = spec_value u raw rawany c.
Proof.
  intros u raw rawany cleaned loadA loadB r o c v H F.
  exact (load_values u raw rawany code_config cleaned loadA loadB r o c v eq_refl H F).
Qed.

Lemma column_value_independent_lemma : forall u raw rawany cl1 a1 b1 r1 o1 cl2 a2 b2 r2 o2 c v1 v2,
  load u raw rawany code_config cl1 a1 b1 r1 = Ok o1 ->
  load u raw rawany code_config cl2 a2 b2 r2 = Ok o2 ->
  out_find c o1 = Some (Val v1) -> out_find c o2 = Some (Val v2) ->
  v1 = v2.
Proof.
  intros u raw rawany cl1 a1 b1 r1 o1 cl2 a2 b2 r2 o2 c v1 v2 H1 H2 F1 F2.
  rewrite (column_value_spec_lemma _ _ _ _ _ _ _ _ _ _ H1 F1), (column_value_spec_lemma _ _ _ _ _ _ _ _ _ _ H2 F2).
  reflexivity.
Qed.

Lemma request_never_fails_lemma : forall u raw rawany cleaned loadA loadB r,
  valid_request cleaned r ->
  exists o, load u raw rawany code_config cleaned loadA loadB r = Ok o /\
            forall c, In c (initial_fields cleaned r) ->
                      ~ In c [c_npstartA_merge; c_npoutA_merge; c_npstartB_merge; c_npoutB_merge] ->
                      out_find (returned_as cleaned c) o <> None.
Proof. intros. apply load_total; [exact code_config_sound | assumption]. Qed.

Lemma index_columns_added_lemma : forall cleaned loadA loadB r,
  valid_request cleaned r ->
  let fc := setup_fields code_config cleaned loadA loadB r in
  (loadA = true -> forall c, In c (subsample_cols cleaned c_npstartA c_npoutA c_npstartA_merge c_npoutA_merge) ->
                             In c (fst fc ++ snd fc)) /\
  (loadB = true -> forall c, In c (subsample_cols cleaned c_npstartB c_npoutB c_npstartB_merge c_npoutB_merge) ->
                             In c (fst fc ++ snd fc)).
Proof.
  intros cleaned loadA loadB r Hv fc.
  destruct (setup_props code_config cleaned loadA loadB r code_config_sound Hv) as [_ [_ [_ [_ [HA HB]]]]].
  fold fc in HA, HB. unfold subsample_cols.
  split; intros Hl c Hc; [destruct (HA Hl) as [H1 [H2 H3]] | destruct (HB Hl) as [H1 [H2 H3]]];
    apply in_or_app; destruct cleaned; cbn [app In] in Hc;
    try (destruct (H3 eq_refl) as [H4 H5]); intuition (subst; auto).
Qed.
