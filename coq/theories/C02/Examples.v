(* C02/Examples.v — non-vacuity of the hypotheses of Properties.v and regression values of the model. *)
From Coq Require Import ZArith QArith List Bool.
From Abacus.Common Require Import Arr Num.
From Abacus.HaloTable Require Import Expr Gen.
From Abacus.C02 Require Import Config Gen Model Spec Lib Proofs Findings.
Import ListNotations.

(* valid requests exist: explicit lists (with and without the intermediate inputs, integer column last), cleaned columns *)
Example valid_explicit : valid_request false (RFields [c_sigmavMid_com; c_N]) /\
                         valid_request false (RFields [c_sigmavMaj_com; c_sigmavMid_com; c_id]) /\
                         valid_request true (RFields [c_sigmavMid_L2com; c_haloindex; c_N; c_v_L2com_mainprog]).
Proof. split; [|split]; apply validb_sound; vm_compute; reflexivity. Qed.

(* a request with a repeated or a foreign column is not valid (and the real loader raises on it) *)
Example invalid_examples : validb false [c_x_com; c_x_com] = false /\ validb false [c_haloindex] = false.
Proof. split; vm_compute; reflexivity. Qed.

Example config_is_sound : sound_config code_config.
Proof. exact code_config_sound. Qed.

Definition ex_load := load w_units w_raw (fun _ => false) code_config.

(* hypotheses of column_value_independent: two successful loads returning the same column *)
Example independent_inhabited : exists o1 o2 v,
  ex_load false false false (RFields [c_sigmavMid_com]) = Ok o1 /\
  ex_load true true false RDefault = Ok o2 /\
  out_find c_sigmavMid_com o1 = Some (Val v) /\ out_find c_sigmavMid_com o2 = Some (Val v).
Proof.
  do 3 eexists. split; [vm_compute; reflexivity|]. split; [vm_compute; reflexivity|].
  split; vm_compute; reflexivity.
Qed.

(* hypothesis of deps_order_sound / a non-trivial order: the intermediate inputs come first *)
Example order_example :
  option_map fields_with_deps (match get_deps [c_sigmavMid_com; c_N] with Ok d => Some d | _ => None end)
  = Some [c_sigmavMin_com; c_sigmavMaj_com; c_N; c_sigmavMid_com].
Proof. vm_compute. reflexivity. Qed.

Example extra_example :
  option_map extra_fields (match get_deps [c_sigmavMid_com; c_sigmavMaj_com] with Ok d => Some d | _ => None end)
  = Some [c_sigmavMin_com].
Proof. vm_compute. reflexivity. Qed.

(* regression: the repaired structure loads what the original refused *)
Example repaired_cleaned_alone : exists o, ex_load true false false (RFields [c_sigmavMid_com]) = Ok o /\ length o = 2%nat.
Proof. eexists. split; vm_compute; reflexivity. Qed.
Example repaired_uncleaned_subsamples :
  ex_load false true false (RFields [c_N]) = Ok [(c_N, Val (NQ (7 # 1))); (c_npstartA, Reindexed); (c_npoutA, Reindexed)].
Proof. vm_compute. reflexivity. Qed.
Example reindexed_inhabited : exists o, ex_load true true true RAll = Ok o /\ out_find c_npoutB o = Some Reindexed.
Proof. eexists. split; vm_compute; reflexivity. Qed.
