(* C02/Config.v — the structural facts of the request framework that tools/gen/c02.py reads off the source and the
   model is parametrised by (so that the theorems are about what the code says now). *)
From Coq Require Import Bool.

(* which name keys the dtype of a temporary (extra_fields) column *)
Inductive temp_dtype_key := TDField | TDStaleCol.

Record config := {
  temp_dtype : temp_dtype_key;
  index_need_cleaned : bool;     (* npstart{AB}/npout{AB} are auto-added only if cleaned *)
  merge_need_cleaned : bool      (* npstart{AB}_merge/npout{AB}_merge are auto-added only if cleaned *)
}.
