(* C02/Properties.v — the property theorems.  They are about Model.load instantiated with the structural facts
   regenerated from the source (C02/Gen.code_config: dtype key of the temporaries, guards of the index columns)
   over the loader table regenerated from the source (HaloTable/Gen).  Only statements closed by `exact`. *)
From Coq Require Import ZArith QArith List Bool.
From Abacus.Common Require Import Arr.
From Abacus.HaloTable Require Import Expr Gen.
From Abacus.C02 Require Import Config Gen Model Spec Lib Proofs.
Import ListNotations.

(* Facts about the generated tables that the other theorems use (one loader per column, intermediate inputs are
   computed from raw columns only and are declared with one dtype, cleaned tables disjoint from user_dt). *)
Theorem tables_facts : tables_ok = true.
Proof. exact tables_ok_true. Qed.
Print Assumptions tables_facts.

(* ★ Whatever was requested: a value returned for column c is the specification value of c — a function of the raw row
   and the unit option only (u = units, raw/rawany = the catalog row). *)
Theorem column_value_spec : forall u raw rawany cleaned loadA loadB r o c v,
  load u raw rawany code_config cleaned loadA loadB r = Ok o ->
  out_find c o = Some (Val v) ->
  v = spec_value u raw rawany c.
Proof. exact column_value_spec_lemma. Qed.
Print Assumptions column_value_spec.

(* ★ column_value_independent: two loads of the same catalog row with the same unit option, with any two requests
   (explicit lists in any order, 'all', default), cleaned on or off, any subsample selections: a column both return has the
   same value in both.  (The npstart/npout columns of the subsamples being loaded come back re-indexed, as [Reindexed],
   see reindexed_only_index_columns; that is C01's subject.) *)
Theorem column_value_independent : forall u raw rawany cl1 a1 b1 r1 o1 cl2 a2 b2 r2 o2 c v1 v2,
  load u raw rawany code_config cl1 a1 b1 r1 = Ok o1 ->
  load u raw rawany code_config cl2 a2 b2 r2 = Ok o2 ->
  out_find c o1 = Some (Val v1) -> out_find c o2 = Some (Val v2) ->
  v1 = v2.
Proof. exact column_value_independent_lemma. Qed.
Print Assumptions column_value_independent.

(* ★ request_never_fails: a request of pairwise distinct valid columns (or 'all' / default, see builtin_requests_valid),
   with any subsample selection, loads without error, and every requested column comes back (N as N_total when
   cleaned; the _merge index columns are consumed by the subsample loader). *)
Theorem request_never_fails : forall u raw rawany cleaned loadA loadB r,
  valid_request cleaned r ->
  exists o, load u raw rawany code_config cleaned loadA loadB r = Ok o /\
            forall c, In c (initial_fields cleaned r) ->
                      ~ In c [c_npstartA_merge; c_npoutA_merge; c_npstartB_merge; c_npoutB_merge] ->
                      out_find (returned_as cleaned c) o <> None.
Proof. exact request_never_fails_lemma. Qed.
Print Assumptions request_never_fails.

Theorem builtin_requests_valid : forall cleaned, valid_request cleaned RDefault /\ valid_request cleaned RAll.
Proof. exact Proofs.builtin_requests_valid. Qed.
Print Assumptions builtin_requests_valid.

(* deps_order_sound: in the order in which _read_halo_info loads the fields, a column comes after everything it reads. *)
Theorem deps_order_sound : forall fs d,
  get_deps fs = Ok d ->
  forall p x s, fields_with_deps d = p ++ x :: s ->
  forall dd, In dd (halo_deps x) -> In dd p.
Proof. exact deps_order. Qed.
Print Assumptions deps_order_sound.

(* index_columns_added: whenever subsample A (B) is requested, every column the subsample loader reads is among the
   fields to load, whatever the request and whether or not cleaning is on. *)
Theorem index_columns_added : forall cleaned loadA loadB r,
  valid_request cleaned r ->
  let fc := setup_fields code_config cleaned loadA loadB r in
  (loadA = true -> forall c, In c (subsample_cols cleaned c_npstartA c_npoutA c_npstartA_merge c_npoutA_merge) ->
                             In c (fst fc ++ snd fc)) /\
  (loadB = true -> forall c, In c (subsample_cols cleaned c_npstartB c_npoutB c_npstartB_merge c_npoutB_merge) ->
                             In c (fst fc ++ snd fc)).
Proof. exact index_columns_added_lemma. Qed.
Print Assumptions index_columns_added.

(* only the index columns of the subsamples being loaded are replaced by re-indexed ones *)
Theorem reindexed_only_index_columns : forall u raw rawany cfg cleaned loadA loadB r o c,
  load u raw rawany cfg cleaned loadA loadB r = Ok o -> out_find c o = Some Reindexed ->
  In c (index_cols loadA loadB).
Proof. exact load_reindexed. Qed.
Print Assumptions reindexed_only_index_columns.
