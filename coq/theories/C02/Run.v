(* C02/Run.v — executable glue for the correspondence check (no theorem depends on it). *)
From Coq Require Import ZArith QArith List Bool.
From Abacus.Common Require Import Arr Num Corr.
From Abacus.HaloTable Require Import Expr Gen Values Show.
From Abacus.C02 Require Import Config Gen Model.
Import ListNotations.
Local Open Scope Z_scope.

(* cleaned, load A, load B, units on, BoxSize, VelZSpace_to_kms, request, raw row (one component), raw columns with a
   non-zero component, queried columns with the implementation's float and tolerance (see C05/Run.v) *)
Definition case := (bool * bool * bool * bool * Q * Q * request * list (rawcol * Q) * list rawcol * list query)%type.

Definition run_with (cfg : config) (c : case) : val :=
  let '(cleaned, la, lb, on, box, zkms, r, rawl, anyl, qs) := c in
  match load (units_of on box zkms) (lookup rawl) (member anyl) cfg cleaned la lb r with
  | Ok o =>
      VL [VZ (Z.of_nat (length o));
          VL (map (fun '(c, m, h) => match out_find c o with
                                     | Some (Val v) => show v m h
                                     | Some Reindexed => VL []
                                     | None => VRaise OtherError
                                     end) qs)]
  | Oob => VOob
  | Raise e => VRaise e
  end.

Definition run : case -> val := run_with code_config.

Definition num_eqb (a b : num) : bool :=
  match a, b with
  | NQ x, NQ y => Qeq_bool x y
  | NSqrt x, NSqrt y => Qeq_bool x y
  | NNaN, NNaN => true
  | NEuler w x, NEuler w' y => (w =? w') && Qeq_bool x y
  | NUninit, NUninit => true
  | _, _ => false
  end.

(* the property predicate on the model (requests fed to it are valid): the load succeeds and every value that comes back
   is the specification value of its column *)
Definition holds (c : case) : bool :=
  let '(cleaned, la, lb, on, box, zkms, r, rawl, anyl, _) := c in
  let u := units_of on box zkms in
  match load u (lookup rawl) (member anyl) code_config cleaned la lb r with
  | Ok o => forallb (fun '(c, ov) => match ov with
                                     | Val v => num_eqb v (spec_value u (lookup rawl) (member anyl) c)
                                     | Reindexed => true
                                     end) o
  | _ => false
  end.
