(* C02/Findings.v — kernel-checked record of the two defects of the original request framework
   (abacusnbody/data/compaso_halo_catalog.py).

   [cfg_orig] is the frozen copy of what tools/gen/c02.py read off the original source:
     * _read_halo_info allocated the temporary (extra_fields) columns with dtype src[col], `col` being the variable left
       over from the allocation loops (the last cleaned field, else the last requested field), instead of src[field];
     * _setup_fields added the npstart/npout index columns the subsample loader reads only `if cleaned`. *)
From Coq Require Import ZArith QArith List Bool.
From Abacus.Common Require Import Arr Num.
From Abacus.HaloTable Require Import Expr Gen.
From Abacus.C02 Require Import Config Model.
Import ListNotations.

Definition cfg_orig : config :=
  {| temp_dtype := TDStaleCol; index_need_cleaned := true; merge_need_cleaned := true |}.

Definition w_units (s : unitsym) : Q := match s with UBox => 5 # 2 | UZkms => 3 # 1 end.
Definition w_raw (r : rawcol) : Q :=
  match r with
  | r_sigmav3d_com => 3 # 2
  | r_sigmavMin_to_sigmav3d_com_i16 => 8000 # 1
  | r_sigmavMax_to_sigmav3d_com_i16 => 16000 # 1
  | _ => 7 # 1
  end.
Definition w_load := load w_units w_raw (fun _ => false) cfg_orig.

(* column_value_independent is false of the original: sigmavMid_com requested together with the integer column N is
   computed from temporaries sigmavMaj_com / sigmavMin_com truncated to N's dtype (uint32) *)
Theorem column_value_independent_orig_refuted : exists r1 r2 o1 o2 v1 v2,
  w_load false false false r1 = Ok o1 /\ w_load false false false r2 = Ok o2 /\
  out_find c_sigmavMid_com o1 = Some (Val (NSqrt v1)) /\ out_find c_sigmavMid_com o2 = Some (Val (NSqrt v2)) /\
  ~ (v1 == v2)%Q.
Proof.
  exists (RFields [c_sigmavMid_com]), (RFields [c_sigmavMid_com; c_N]).
  do 4 eexists. repeat split; try (vm_compute; reflexivity).
  intros H. vm_compute in H. discriminate H.
Qed.

(* request_never_fails is false of the original, three ways *)
(* (a) cleaned: the stale variable is the last cleaned field (N_total), which user_dt does not have -> KeyError *)
Theorem request_never_fails_orig_refuted_cleaned :
  w_load true false false (RFields [c_sigmavMid_com]) = Raise KeyError.
Proof. vm_compute. reflexivity. Qed.

(* (b) the stale variable names a 3-vector column: the scalar temporary gets shape (n, 3) -> ValueError *)
Theorem request_never_fails_orig_refuted_shape :
  w_load false false false (RFields [c_sigmavMid_com; c_x_com]) = Raise ValueError.
Proof. vm_compute. reflexivity. Qed.

(* (c) uncleaned + subsamples: npoutA is not among the loaded columns when the subsample loader asks for it *)
Theorem request_never_fails_orig_refuted_index :
  w_load false true false (RFields [c_N]) = Raise KeyError.
Proof. vm_compute. reflexivity. Qed.
