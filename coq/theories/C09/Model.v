(* C09/Model.v — the two-pass HOD algorithm shared by gen_cent and gen_sats (GRAND_HOD.py), hand-written in the
   checked-access monad of Common/Arr.v, and the catalogue assembly of gen_gals.  No proofs in this file.

   The per-host arithmetic is NOT here: [code] stands for the generated threshold chain (Gen.cent_keep / Gen.sat_keep
   applied to the host's numbers) and [fill T] for the generated fill expressions (Gen.cent_fill_T / Gen.sat_fill_T).
   The skeleton mirrored below (Nout / hstart / keep / gstart allocation, the two prange loops, the prefix sums, the
   cursor triple j1,j2,j3 = gstart[tid], count slot c-1 for keep code c, cursor jc for `keep[i] == c`) is verified
   statement by statement by tools/gen/c09.py on every run.

   Threads are executed in the order 0,1,...,Nthread-1 here; that every other interleaving of the threads' writes gives
   the same arrays is the subject of C10 (Common/Par.v), for which pass 2 also returns, per thread, the trace of its
   writes (tracer code, row index, row value).  np.empty arrays are lists of [None] (uninitialised); reading a [None]
   cell of keep is an error, and a [None] left in an output is an unwritten row. *)
From Coq Require Import ZArith List Bool.
From Abacus.Common Require Import Arr.
Import ListNotations.
Local Open Scope Z_scope.
Local Open Scope res_scope.

Definition cnt3 := (Z * Z * Z)%type.
Definition z3 : cnt3 := (0, 0, 0).

Definition in13 (c : Z) : bool := (1 <=? c) && (c <=? 3).

Definition sel3 {X} (c : Z) (s : X * X * X) : X :=
  let '(a, b, d) := s in if c =? 1 then a else if c =? 2 then b else d.
Definition put3 {X} (c : Z) (v : X) (s : X * X * X) : X * X * X :=
  let '(a, b, d) := s in if c =? 1 then (v, b, d) else if c =? 2 then (a, v, d) else (a, b, v).

(* Nout[tid, c-1, 0] += 1 in the branch that sets keep[i] = c  (c = 1,2,3); nothing for c = 0 *)
Definition bump (c : Z) (n : cnt3) : cnt3 := if in13 c then put3 c (sel3 c n + 1) n else n.

Definition add3 (a b : cnt3) : cnt3 :=
  let '(a1, a2, a3) := a in let '(b1, b2, b3) := b in (a1 + b1, a2 + b2, a3 + b3).

(* gstart[0,:] = 0 ; gstart[1:,k] = Nout[:,k,0].cumsum() *)
Fixpoint cumsum3 (acc : cnt3) (l : list cnt3) : list cnt3 :=
  match l with
  | [] => []
  | n :: t => add3 acc n :: cumsum3 (add3 acc n) t
  end.
Definition gstart_of (Nout : list cnt3) : list cnt3 := z3 :: cumsum3 z3 Nout.

Section TwoPass.
Variables A R : Type.
Variable code : A -> Z.
Variable fill : Z -> A -> R.

Definition event := (Z * Z * R)%type.     (* tracer code, row index, row written *)

Definition pass1 (Nthread : Z) (hstart : list Z) (hosts : list A) : res (list (option Z) * list cnt3) :=
  let H := len hosts in
  let Nout := repeat z3 (Z.to_nat Nthread) in
  let keep := repeat (@None Z) (Z.to_nat H) in
  for_range 0 Nthread (fun tid '(keep, Nout) =>
    lo <- get hstart tid ;;
    hi <- get hstart (tid + 1) ;;
    for_range lo hi (fun i '(keep, Nout) =>
      h <- get hosts i ;;
      let c := code h in
      Nout <- upd Nout tid (bump c) ;;
      keep <- set keep i (Some c) ;;
      Ok (keep, Nout)) (keep, Nout)) (keep, Nout).

Definition outs3 := (list (option R) * list (option R) * list (option R))%type.

Definition fill_host (keep : list (option Z)) (hosts : list A) (i : Z) (s : outs3 * cnt3 * list event)
  : res (outs3 * cnt3 * list event) :=
  let '(outs, js, tr) := s in
  k <- get keep i ;;
  match k with
  | None => Raise OtherError                      (* keep[i] read before it was written *)
  | Some c =>
      if in13 c then
        h <- get hosts i ;;
        let j := sel3 c js in
        o <- set (sel3 c outs) j (Some (fill c h)) ;;
        Ok (put3 c o outs, put3 c (j + 1) js, tr ++ [(c, j, fill c h)])
      else Ok s
  end.

Definition pass2 (Nthread : Z) (hstart : list Z) (hosts : list A) (keep : list (option Z)) (gstart : list cnt3)
  : res (outs3 * list (list event)) :=
  n <- get gstart (-1) ;;
  let mk (k : Z) := repeat (@None R) (Z.to_nat k) in
  let outs : outs3 := (mk (sel3 1 n), mk (sel3 2 n), mk (sel3 3 n)) in
  for_range 0 Nthread (fun tid '(outs, traces) =>
    js <- get gstart tid ;;
    lo <- get hstart tid ;;
    hi <- get hstart (tid + 1) ;;
    '(outs, _, tr) <- for_range lo hi (fill_host keep hosts) (outs, js, []) ;;
    Ok (outs, traces ++ [tr])) (outs, []).

(* one kernel call: keep codes, the three output tables, the per-thread write traces of the fill pass *)
Definition two_pass (Nthread : Z) (hstart : list Z) (hosts : list A)
  : res (list (option Z) * outs3 * list (list event)) :=
  '(keep, Nout) <- pass1 Nthread hstart hosts ;;
  '(outs, traces) <- pass2 Nthread hstart hosts keep (gstart_of Nout) ;;
  Ok (keep, outs, traces).

End TwoPass.

(* gen_gals: centrals, then satellites whose chain sees keep_cent[pinds[p]], then per requested tracer
   Ncent = len(centrals) and every column = fast_concatenate(centrals, satellites)  (argument order verified by the
   generator; fast_concatenate is represented by its specification ++, proved of its thread-level model in C10). *)
Section Gals.
Variables H P R : Type.                 (* halo rows, particle rows, output rows *)
Variable hcode : H -> Z.
Variable hfill : Z -> H -> R.
Variable pind : P -> Z.                 (* pinds[p] *)
Variable pcode : Z -> P -> Z.           (* keep_cent of the host halo -> particle -> code *)
Variable pfill : Z -> P -> R.

Definition unopt (l : list (option Z)) : list Z := map (fun o => match o with Some c => c | None => 0 end) l.

(* keep_cent[subsample['pinds']] : NumPy fancy indexing (IndexError when out of range) *)
Fixpoint gather (keep : list Z) (ps : list P) : res (list (Z * P)) :=
  match ps with
  | [] => Ok []
  | p :: t => k <- get keep (pind p) ;; r <- gather keep t ;; Ok ((k, p) :: r)
  end.

Definition catalogue := (Z * list (option R))%type.      (* Ncent, rows *)

Definition gen_gals (Nthread : Z) (hstart_h hstart_p : list Z) (halos : list H) (parts : list P)
  : res (catalogue * catalogue * catalogue) :=
  '(keep, co, _) <- two_pass H R hcode hfill Nthread hstart_h halos ;;
  kp <- gather (unopt keep) parts ;;
  '(_, so, _) <- two_pass (Z * P) R (fun kp => pcode (fst kp) (snd kp)) (fun T kp => pfill T (snd kp))
                   Nthread hstart_p kp ;;
  let cat (T : Z) : catalogue := (len (sel3 T co), sel3 T co ++ sel3 T so) in
  Ok (cat 1, cat 2, cat 3).
End Gals.
