(* C09/Proofs.v — the lemmas behind Properties.v. *)
From Coq Require Import ZArith QArith Qround Qabs Qminmax List Bool Lia Lqa.
From Abacus.Common Require Import Arr Num.
From Abacus.C09 Require Import Gen Spec Model Lib TwoPass Chain.
Import ListNotations.
Local Open Scope Q_scope.

(* ---- the decision chain and the slices ------------------------------------------------------ *)
Lemma chain3_slice r M1 M2 M3 : M1 <= M2 -> M2 <= M3 ->
  forall T, chain3 r M1 M2 M3 = T <-> in_slice T M1 M2 M3 r.
Proof.
  intros H12 H23 T. destruct (chain3_12 r M1 M2 M3) as [A B]. destruct (chain3_30 r M1 M2 M3 H12 H23) as [C D].
  pose proof (chain3_range r M1 M2 M3) as Rg. unfold in_slice.
  destruct (T =? 1)%Z eqn:E1; [apply Z.eqb_eq in E1; subst T; exact A|].
  destruct (T =? 2)%Z eqn:E2; [apply Z.eqb_eq in E2; subst T; exact B|].
  destruct (T =? 3)%Z eqn:E3; [apply Z.eqb_eq in E3; subst T; exact C|].
  destruct (T =? 0)%Z eqn:E0; [apply Z.eqb_eq in E0; subst T; exact D|].
  apply Z.eqb_neq in E1, E2, E3, E0. split; [intros H|intros []].
  assert (Hc : (chain3 r M1 M2 M3 = 0 \/ chain3 r M1 M2 M3 = 1 \/ chain3 r M1 M2 M3 = 2 \/ chain3 r M1 M2 M3 = 3)%Z) by lia.
  lia.
Qed.

Lemma slices_disjoint r M1 M2 M3 T T' : M1 <= M2 -> M2 <= M3 ->
  in_slice T M1 M2 M3 r -> in_slice T' M1 M2 M3 r -> T = T'.
Proof.
  intros H12 H23 A B. apply (chain3_slice r M1 M2 M3 H12 H23) in A, B. congruence.
Qed.

Lemma chain3_first_indep r M1 M2 M3 N2 N3 : chain3 r M1 M2 M3 = 1%Z <-> chain3 r M1 N2 N3 = 1%Z.
Proof. rewrite (proj1 (chain3_12 r M1 M2 M3)), (proj1 (chain3_12 r M1 N2 N3)). reflexivity. Qed.

Lemma chain3_second_indep r M1 M2 M3 N3 : chain3 r M1 M2 M3 = 2%Z <-> chain3 r M1 M2 N3 = 2%Z.
Proof. rewrite (proj2 (chain3_12 r M1 M2 M3)), (proj2 (chain3_12 r M1 M2 N3)). reflexivity. Qed.

Lemma chain3_nested_1 r M1 M2 M3 N1 N2 N3 : M1 <= N1 -> chain3 r M1 M2 M3 = 1%Z -> chain3 r N1 N2 N3 = 1%Z.
Proof. intros H. rewrite (proj1 (chain3_12 r M1 M2 M3)), (proj1 (chain3_12 r N1 N2 N3)). lra. Qed.

Lemma chain3_nested_2 r M1 M2 M3 N2 N3 : M2 <= N2 -> chain3 r M1 M2 M3 = 2%Z -> chain3 r M1 N2 N3 = 2%Z.
Proof. intros H. rewrite (proj2 (chain3_12 r M1 M2 M3)), (proj2 (chain3_12 r M1 N2 N3)). lra. Qed.

Lemma chain3_nested_3 r M1 M2 M3 N3 : M3 <= N3 -> chain3 r M1 M2 M3 = 3%Z -> chain3 r M1 M2 N3 = 3%Z.
Proof.
  intros H. unfold chain3. destruct (Qle_bool r M1); [discriminate|]. destruct (Qle_bool r M2); [discriminate|].
  destruct (Qle_bool r M3) eqn:E3; [|discriminate]. intros _. destruct (Qle_bool r N3) eqn:E4; [reflexivity|]. qprops. lra.
Qed.

(* kept by one of the first k tracers  <->  r below the k-th marker *)
Lemma chain3_upto r M1 M2 M3 : M1 <= M2 -> M2 <= M3 ->
  ((chain3 r M1 M2 M3 = 1 \/ chain3 r M1 M2 M3 = 2)%Z <-> r <= M2) /\
  ((chain3 r M1 M2 M3 <> 0)%Z <-> r <= M3).
Proof.
  intros H12 H23. unfold chain3.
  destruct (Qle_bool r M1) eqn:E1; [|destruct (Qle_bool r M2) eqn:E2; [|destruct (Qle_bool r M3) eqn:E3]]; qprops;
    (split; split; intros H; try lra; try lia; try (left; reflexivity); try (right; reflexivity); try discriminate;
     try (destruct H; discriminate)).
Qed.

Lemma chain3_aggregate r M1 M2 M3 N1 N2 N3 :
  M1 <= M2 -> M2 <= M3 -> N1 <= N2 -> N2 <= N3 -> M1 <= N1 -> M2 <= N2 -> M3 <= N3 ->
  (chain3 r M1 M2 M3 = 1%Z -> chain3 r N1 N2 N3 = 1%Z) /\
  ((chain3 r M1 M2 M3 = 1 \/ chain3 r M1 M2 M3 = 2)%Z -> (chain3 r N1 N2 N3 = 1 \/ chain3 r N1 N2 N3 = 2)%Z) /\
  ((chain3 r M1 M2 M3 <> 0)%Z -> (chain3 r N1 N2 N3 <> 0)%Z).
Proof.
  intros A1 A2 B1 B2 C1 C2 C3. split; [apply chain3_nested_1; exact C1|].
  destruct (chain3_upto r M1 M2 M3 A1 A2) as [U1 U2]. destruct (chain3_upto r N1 N2 N3 B1 B2) as [V1 V2].
  rewrite U1, U2, V1, V2. split; lra.
Qed.

(* markers grow with the incompleteness factors *)
Lemma b2q_nonneg w : 0 <= b2q w.
Proof. destruct w; unfold b2q; lra. Qed.

Lemma mk_mono w W W' : W <= W' -> b2q w * W <= b2q w * W'.
Proof. intros H. destruct w; unfold b2q; lra. Qed.

Lemma cent_width_mono occ ic ic' mult : 0 <= occ * mult -> ic <= ic' -> cent_width occ ic mult <= cent_width occ ic' mult.
Proof. intros H0 H. unfold cent_width. nra. Qed.

Lemma sat_width_mono occ w ic ic' dec : 0 <= occ * w * dec -> ic <= ic' -> sat_width occ w ic dec <= sat_width occ w ic' dec.
Proof. intros H0 H. unfold sat_width. nra. Qed.

(* ---- fill expressions ------------------------------------------------------------------------ *)
Definition row := (Q * Q * Q * Q * Q * Q * Q * Z)%type.
Definition r_x (r : row) : Q := let '(x, _, _, _, _, _, _, _) := r in x.
Definition r_y (r : row) : Q := let '(_, y, _, _, _, _, _, _) := r in y.
Definition r_z (r : row) : Q := let '(_, _, z, _, _, _, _, _) := r in z.
Definition r_vx (r : row) : Q := let '(_, _, _, v, _, _, _, _) := r in v.
Definition r_vy (r : row) : Q := let '(_, _, _, _, v, _, _, _) := r in v.
Definition r_vz (r : row) : Q := let '(_, _, _, _, _, v, _, _) := r in v.
Definition r_mass (r : row) : Q := let '(_, _, _, _, _, _, m, _) := r in m.
Definition r_id (r : row) : Z := let '(_, _, _, _, _, _, _, i) := r in i.

(* the three generated central fills are one function of the tracer's alpha_c; same for satellites *)
Definition cent_fill (sqrtf : Q -> Q) (T : Z) := if (T =? 1)%Z then cent_fill_1 sqrtf else if (T =? 2)%Z then cent_fill_2 sqrtf else cent_fill_3 sqrtf.
Definition sat_fill (sqrtf : Q -> Q) (T : Z) := if (T =? 1)%Z then sat_fill_1 sqrtf else if (T =? 2)%Z then sat_fill_2 sqrtf else sat_fill_3 sqrtf.

Lemma cent_fill_same sqrtf : cent_fill_2 sqrtf = cent_fill_1 sqrtf /\ cent_fill_3 sqrtf = cent_fill_1 sqrtf.
Proof. split; reflexivity. Qed.
Lemma sat_fill_same sqrtf : sat_fill_2 sqrtf = sat_fill_1 sqrtf /\ sat_fill_3 sqrtf = sat_fill_1 sqrtf.
Proof. split; reflexivity. Qed.

Lemma cent_fill_eq sqrtf T : cent_fill sqrtf T = cent_fill_1 sqrtf.
Proof. unfold cent_fill. destruct (T =? 1)%Z, (T =? 2)%Z; reflexivity. Qed.
Lemma sat_fill_eq sqrtf T : sat_fill sqrtf T = sat_fill_1 sqrtf.
Proof. unfold sat_fill. destruct (T =? 1)%Z, (T =? 2)%Z; reflexivity. Qed.

Section FillLemmas.
Variable sqrtf : Q -> Q.
Variables p0 p1 p2 v0 v1 v2 d0 d1 d2 mass : Q.
Variable ident : Z.
Variable alpha : Q.
Variables o0 o1 o2 inv lbox : Q.

(* centrals *)
Lemma cent_fill_host rsd ho :
  let r := cent_fill_1 sqrtf p0 p1 p2 v0 v1 v2 d0 d1 d2 mass ident alpha rsd ho o0 o1 o2 inv lbox in
  r_mass r = mass /\ r_id r = ident /\
  r_vx r = cent_vel v0 alpha d0 /\ r_vy r = cent_vel v1 alpha d1 /\ r_vz r = cent_vel v2 alpha d2 /\
  (rsd = false -> r_x r = p0 /\ r_y r = p1 /\ r_z r = p2).
Proof.
  unfold cent_fill_1, cent_vel. cbv zeta. destruct rsd, ho; cbn [andb]; cbv beta iota;
    repeat split; try reflexivity; intros; discriminate.
Qed.

Lemma cent_fill_box :
  let r := cent_fill_1 sqrtf p0 p1 p2 v0 v1 v2 d0 d1 d2 mass ident alpha true false o0 o1 o2 inv lbox in
  r_x r = p0 /\ r_y r = p1 /\ r_z r = wrap (p2 + cent_vel v2 alpha d2 * inv) lbox.
Proof. unfold cent_fill_1, cent_vel. cbv zeta. cbn [andb]. cbv beta iota. repeat split; reflexivity. Qed.

Lemma cent_fill_cone :
  let r := cent_fill_1 sqrtf p0 p1 p2 v0 v1 v2 d0 d1 d2 mass ident alpha true true o0 o1 o2 inv lbox in
  let s := (p0 - o0) * (p0 - o0) + (p1 - o1) * (p1 - o1) + (p2 - o2) * (p2 - o2) in
  let n0 := (p0 - o0) * (1 / sqrtf s) in let n1 := (p1 - o1) * (1 / sqrtf s) in let n2 := (p2 - o2) * (1 / sqrtf s) in
  let vlos := cent_vel v0 alpha d0 * n0 + cent_vel v1 alpha d1 * n1 + cent_vel v2 alpha d2 * n2 in
  r_x r = p0 + inv * vlos * n0 /\ r_y r = p1 + inv * vlos * n1 /\ r_z r = p2 + inv * vlos * n2.
Proof. unfold cent_fill_1, cent_vel. cbv zeta. cbn [andb]. cbv beta iota. repeat split; reflexivity. Qed.

(* satellites: pX = particle position/velocity (p, v), dX = host halo velocity *)
Lemma sat_fill_host rsd ho :
  let r := sat_fill_1 sqrtf p0 p1 p2 v0 v1 v2 d0 d1 d2 mass ident alpha rsd ho o0 o1 o2 inv lbox in
  r_mass r = mass /\ r_id r = ident /\
  r_vx r = sat_vel d0 alpha v0 /\ r_vy r = sat_vel d1 alpha v1 /\ r_vz r = sat_vel d2 alpha v2 /\
  (rsd = false -> r_x r = p0 /\ r_y r = p1 /\ r_z r = p2).
Proof.
  unfold sat_fill_1, sat_vel. cbv zeta. destruct rsd, ho; cbn [andb]; cbv beta iota;
    repeat split; try reflexivity; intros; discriminate.
Qed.

Lemma sat_fill_box :
  let r := sat_fill_1 sqrtf p0 p1 p2 v0 v1 v2 d0 d1 d2 mass ident alpha true false o0 o1 o2 inv lbox in
  r_x r = p0 /\ r_y r = p1 /\ r_z r = wrap (p2 + sat_vel d2 alpha v2 * inv) lbox.
Proof. unfold sat_fill_1, sat_vel. cbv zeta. cbn [andb]. cbv beta iota. repeat split; reflexivity. Qed.

Lemma sat_fill_cone :
  let r := sat_fill_1 sqrtf p0 p1 p2 v0 v1 v2 d0 d1 d2 mass ident alpha true true o0 o1 o2 inv lbox in
  let s := (p0 - o0) * (p0 - o0) + (p1 - o1) * (p1 - o1) + (p2 - o2) * (p2 - o2) in
  let n0 := (p0 - o0) * (1 / sqrtf s) in let n1 := (p1 - o1) * (1 / sqrtf s) in let n2 := (p2 - o2) * (1 / sqrtf s) in
  let vlos := sat_vel d0 alpha v0 * n0 + sat_vel d1 alpha v1 * n1 + sat_vel d2 alpha v2 * n2 in
  r_x r = p0 + inv * vlos * n0 /\ r_y r = p1 + inv * vlos * n1 /\ r_z r = p2 + inv * vlos * n2.
Proof. unfold sat_fill_1, sat_vel. cbv zeta. cbn [andb]. cbv beta iota. repeat split; reflexivity. Qed.

(* the unit line-of-sight vector, when sqrtf is a square root of |pos - origin|^2 *)
Lemma los_unit :
  let s := (p0 - o0) * (p0 - o0) + (p1 - o1) * (p1 - o1) + (p2 - o2) * (p2 - o2) in
  let n0 := (p0 - o0) * (1 / sqrtf s) in let n1 := (p1 - o1) * (1 / sqrtf s) in let n2 := (p2 - o2) * (1 / sqrtf s) in
  sqrtf s * sqrtf s == s -> ~ sqrtf s == 0 ->
  n0 * n0 + n1 * n1 + n2 * n2 == 1 /\
  n0 * sqrtf s == p0 - o0 /\ n1 * sqrtf s == p1 - o1 /\ n2 * sqrtf s == p2 - o2.
Proof.
  intros s n0 n1 n2 Hs Hz. subst n0 n1 n2. set (q := sqrtf s) in *.
  assert (E : (p0 - o0) * (1 / q) * ((p0 - o0) * (1 / q)) + (p1 - o1) * (1 / q) * ((p1 - o1) * (1 / q)) +
              (p2 - o2) * (1 / q) * ((p2 - o2) * (1 / q)) == s / (q * q)).
  { subst s. field. exact Hz. }
  split; [rewrite E, Hs; field; rewrite <- Hs; intros C; apply Hz; nra|].
  repeat split; field; exact Hz.
Qed.

End FillLemmas.

(* ---- gen_gals: centrals first, Ncent ----------------------------------------------------------- *)
Local Open Scope Z_scope.

Section GalsProofs.
Variables H P R : Type.
Variable hcode : H -> Z.
Variable hfill : Z -> H -> R.
Variable pind : P -> Z.
Variable pcode : Z -> P -> Z.
Variable pfill : Z -> P -> R.

Lemma unopt_some l : unopt (map Some l) = l.
Proof. unfold unopt. rewrite map_map. apply map_id. Qed.

Lemma gather_ok keep parts :
  (forall p, In p parts -> - len keep <= pind p < len keep) ->
  exists kp, gather P pind keep parts = Ok kp /\ map snd kp = parts /\
             (forall k p, In (k, p) kp -> get keep (pind p) = Ok k).
Proof.
  induction parts as [|p t IH]; intros Hr.
  - exists []. split; [reflexivity|]. split; [reflexivity|]. intros k p [].
  - destruct IH as [kp [E [M F]]]; [intros q Hq; apply Hr; right; exact Hq|].
    assert (Hg : is_ok (get keep (pind p)) = true) by (apply get_is_ok; apply Hr; left; reflexivity).
    destruct (get keep (pind p)) as [k| |] eqn:Ek; try discriminate.
    exists ((k, p) :: kp). cbn [gather]. rewrite Ek. cbn [bind]. rewrite E. cbn [bind].
    split; [reflexivity|]. split; [cbn [map snd]; rewrite M; reflexivity|].
    intros k' p' [Hin|Hin]; [inversion Hin; subst; exact Ek|apply F; exact Hin].
Qed.

Definition pc (kp : Z * P) : Z := pcode (fst kp) (snd kp).
Definition pf (T : Z) (kp : Z * P) : R := pfill T (snd kp).

Definition cat_spec (halos : list H) (kp : list (Z * P)) (T : Z) : catalogue R :=
  (count H hcode T halos,
   map Some (rows H R hcode hfill T halos) ++ map Some (rows (Z * P) R pc pf T kp)).

Lemma gen_gals_correct Nthread hh hp halos parts :
  good_hstart Nthread hh (len halos) -> good_hstart Nthread hp (len parts) ->
  (forall p, In p parts -> - len halos <= pind p < len halos) ->
  exists kp, gather P pind (map hcode halos) parts = Ok kp /\ map snd kp = parts /\
    gen_gals H P R hcode hfill pind pcode pfill Nthread hh hp halos parts
    = Ok (cat_spec halos kp 1, cat_spec halos kp 2, cat_spec halos kp 3).
Proof.
  intros Gh Gp Hr.
  destruct (gather_ok (map hcode halos) parts) as [kp [Eg [M F]]]; [rewrite len_map; exact Hr|].
  exists kp. split; [exact Eg|]. split; [exact M|].
  unfold gen_gals. rewrite (two_pass_correct H R hcode hfill halos Nthread hh Gh). cbn [bind].
  unfold kcodes. rewrite unopt_some, Eg. cbn [bind].
  assert (Lk : len kp = len parts) by (rewrite <- M; rewrite len_map; reflexivity).
  rewrite <- Lk in Gp.
  change (fun kp0 : Z * P => pcode (fst kp0) (snd kp0)) with pc.
  change (fun (T : Z) (kp0 : Z * P) => pfill T (snd kp0)) with pf.
  rewrite (two_pass_correct (Z * P) R pc pf kp Nthread hp Gp). cbn [bind].
  unfold cat_spec, outs_spec. cbn [sel3 Z.eqb Pos.eqb]. rewrite !len_map, !len_rows. reflexivity.
Qed.

End GalsProofs.
