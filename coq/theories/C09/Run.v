(* C09/Run.v — executable glue for the correspondence checks of C09 and C10 (no theorem depends on it).

   A halo is (keep code, id) where the code is written by the harness as an application of the generated chain
   Gen.cent_keep to the halo's numbers (so vm_compute evaluates the generated chain); a particle is
   (pinds[p], fun keep_cent => Gen.sat_keep ... keep_cent ..., particle index).  Rows carry the integer payload only
   (halo id / particle index): float columns are never compared through Coq. *)
From Coq Require Import ZArith QArith List Bool.
From Abacus.Common Require Import Arr Corr.
From Abacus.C09 Require Import Gen Model.
Import ListNotations.
Local Open Scope Z_scope.

Definition halo := (Z * Z)%type.
Definition part := (Z * (Z -> Z) * Z)%type.
Definition case := (Z * list Z * list Z * list halo * list part * (bool * bool * bool))%type.

Definition vrows (l : list (option Z)) : val := VL (map (vopt VZ) l).
Definition vcat (want : bool) (c : catalogue Z) : val := if want then VL [VZ (fst c); vrows (snd c)] else VNone.

Definition hcode (h : halo) : Z := fst h.
Definition hfill (T : Z) (h : halo) : Z := snd h.
Definition ppind (p : part) : Z := fst (fst p).
Definition ppcode (kc : Z) (p : part) : Z := snd (fst p) kc.
Definition ppfill (T : Z) (p : part) : Z := snd p.

Definition run (c : case) : val :=
  let '(Nthread, hh, hp, halos, parts, (wL, wE, wQ)) := c in
  vres (fun '(c1, c2, c3) => VL [vcat wL c1; vcat wE c2; vcat wQ c3])
       (gen_gals halo part Z hcode hfill ppind ppcode ppfill Nthread hh hp halos parts).

(* the specification evaluated directly: filters, no threads *)
Definition spec_rows {X} (code : X -> Z) (pay : X -> Z) (T : Z) (l : list X) : list (option Z) :=
  map (fun x => Some (pay x)) (filter (fun x => code x =? T) l).

Definition spec (c : case) : val :=
  let '(Nthread, hh, hp, halos, parts, (wL, wE, wQ)) := c in
  let keep := map hcode halos in
  match gather part ppind keep parts with
  | Ok kp =>
      let cat T := (len (spec_rows hcode snd T halos),
                    spec_rows hcode snd T halos ++ spec_rows (fun kp => ppcode (fst kp) (snd kp)) (fun kp => snd (snd kp)) T kp) in
      VL [vcat wL (cat 1); vcat wE (cat 2); vcat wQ (cat 3)]
  | Oob => VOob
  | Raise e => VRaise e
  end.

Definition holds (c : case) : bool := val_eqb (run c) (spec c).
