(* C09/Examples.v — non-vacuity of every hypothesis used in Properties.v, and regression values of the generated chain. *)
From Coq Require Import ZArith QArith List Bool Lia Lqa.
From Abacus.Common Require Import Arr Corr.
From Abacus.C09 Require Import Gen Spec Model Lib TwoPass Chain Proofs Run.
Import ListNotations.
Local Open Scope Q_scope.

(* non-negative widths (keep_iff_slice): occupation 1/2 at the mass cut, ic 9/10, multiplicity 1 *)
Example widths_nonneg : 0 <= b2q true * cent_width (1#2) (9#10) 1 /\ 0 <= b2q false * cent_width (1#3) 1 1.
Proof. split; vm_compute; congruence. Qed.

Example sat_widths_nonneg :
  0 <= b2q true * sat_width (conformity_occ 1 (1#10) (2#10) (3#10)) (1#4) 1 (decoration true (1#10) 0 0 0 (-1#2) 0 0 0).
Proof. vm_compute; congruence. Qed.

(* ties: r on a marker belongs to the slice below (closed above); r = 0 with LRG not requested lands in LRG's empty
   slice [0,0] (code 1: convention of the code, the host then hosts nothing visible) *)
Example tie_on_marker : cent_keep true true false (1#2) (1#4) 0 1 1 1 1 (1#2) = 1%Z /\
                        cent_keep true true false (1#2) (1#4) 0 1 1 1 1 (3#4) = 2%Z /\
                        cent_keep true true false (1#2) (1#4) 0 1 1 1 1 (7#8) = 0%Z.
Proof. repeat split; vm_compute; reflexivity. Qed.

Example zero_with_disabled_first : cent_keep false true false (1#2) (1#4) 0 1 1 1 1 0 = 1%Z /\
                                   cent_keep false true false (1#2) (1#4) 0 1 1 1 1 (1#8) = 2%Z.
Proof. split; vm_compute; reflexivity. Qed.

(* nestedness hypotheses: 0 <= occ * mult, ic <= ic' *)
Example nested_hyps : 0 <= (1#2) * 1 /\ (1#2) <= 1.
Proof. split; vm_compute; congruence. Qed.

(* wrap: an argument within one box of the range *)
Example wrap_hyps : 0 < 100 /\ - (100 / 2) - 100 <= 75 /\ 75 < 100 / 2 + 100 /\ wrap 75 100 == -25 /\ wrap (-50) 100 == -50
                    /\ wrap 50 100 == -50.
Proof. repeat split; vm_compute; congruence. Qed.

(* light cone: a square root exists for pos - origin = (3, 4, 0) *)
Example los_hyps : let sq (s : Q) := 5 in
  sq ((3 - 0) * (3 - 0) + (4 - 0) * (4 - 0) + (0 - 0) * (0 - 0)) * sq 25 == 25 /\ ~ sq 25 == 0.
Proof. split; vm_compute; congruence. Qed.

Example rsd_velz : ~ 100 == 0.
Proof. vm_compute; congruence. Qed.

(* block tables: np.rint(np.linspace(0, 5, 4)) = [0, 2, 3, 5]; more threads than hosts: [0,0,1,1,2] *)
Example good_hstart_ex : good_hstart 3 [0; 2; 3; 5]%Z 5 /\ good_hstart 4 [0; 0; 1; 1; 2]%Z 2 /\ good_hstart 2 [0; 0; 0]%Z 0.
Proof.
  repeat split; try (vm_compute; congruence); try reflexivity;
    intros t Ht; unfold hsv;
    match goal with H : (0 <= t < ?n)%Z |- _ =>
      assert (C : (t = 0 \/ t = 1 \/ t = 2 \/ t = 3)%Z) by lia end;
    destruct C as [C|[C|[C|C]]]; subst t; try lia; vm_compute; congruence.
Qed.

(* a full run: 5 halos, 3 threads, two tracers; particles pick the ELG conformity branch from their halo's central *)
Example run_small :
  run (3, [0; 2; 3; 5], [0; 1; 2; 3], [(1, 10); (0, 11); (2, 12); (1, 13); (2, 14)],
       [(0, fun kc => kc, 100); (1, fun kc => 2, 101); (2, fun kc => kc, 102)], (true, true, false))%Z
  = VL [VL [VZ 2; VL [VZ 10; VZ 13; VZ 100]]; VL [VZ 2; VL [VZ 12; VZ 14; VZ 101; VZ 102]]; VNone].
Proof. vm_compute. reflexivity. Qed.

Example holds_small :
  holds (3, [0; 2; 3; 5], [0; 1; 2; 3], [(1, 10); (0, 11); (2, 12); (1, 13); (2, 14)],
         [(0, fun kc => kc, 100); (1, fun kc => 2, 101); (2, fun kc => kc, 102)], (true, true, false))%Z = true.
Proof. vm_compute. reflexivity. Qed.
