(* C09/Chain.v — lemmas about the generated threshold chains (Gen.cent_keep, Gen.sat_keep), wrap and the fill
   expressions, over exact rationals. *)
From Coq Require Import ZArith QArith Qround Qabs Qminmax Bool Lia Lqa.
From Abacus.Common Require Import Num.
From Abacus.C09 Require Import Gen Spec.
Local Open Scope Q_scope.

Lemma Qle_bool_false a b : Qle_bool a b = false -> b < a.
Proof. intros H. apply Qltb_lt. unfold Qltb. rewrite H. reflexivity. Qed.

Ltac qprops :=
  repeat match goal with
  | H : Qle_bool _ _ = true |- _ => apply Qle_bool_iff in H
  | H : Qle_bool _ _ = false |- _ => apply Qle_bool_false in H
  | H : Qltb _ _ = true |- _ => apply Qltb_lt in H
  | H : Qltb _ _ = false |- _ => apply Qltb_ge in H
  end.

(* the decision chain on three markers *)
Definition chain3 (r M1 M2 M3 : Q) : Z :=
  if Qle_bool r M1 then 1%Z else if Qle_bool r M2 then 2%Z else if Qle_bool r M3 then 3%Z else 0%Z.

Lemma chain3_12 r M1 M2 M3 :
  (chain3 r M1 M2 M3 = 1%Z <-> r <= M1) /\ (chain3 r M1 M2 M3 = 2%Z <-> M1 < r /\ r <= M2).
Proof.
  unfold chain3.
  destruct (Qle_bool r M1) eqn:E1; [|destruct (Qle_bool r M2) eqn:E2; [|destruct (Qle_bool r M3) eqn:E3]];
    qprops; (split; split; intros H; try discriminate; try reflexivity; try lra; try (split; lra)).
Qed.

Lemma chain3_30 r M1 M2 M3 : M1 <= M2 -> M2 <= M3 ->
  (chain3 r M1 M2 M3 = 3%Z <-> M2 < r /\ r <= M3) /\ (chain3 r M1 M2 M3 = 0%Z <-> M3 < r).
Proof.
  intros H12 H23. unfold chain3.
  destruct (Qle_bool r M1) eqn:E1; [|destruct (Qle_bool r M2) eqn:E2; [|destruct (Qle_bool r M3) eqn:E3]];
    qprops; (split; split; intros H; try discriminate; try reflexivity; try lra; try (split; lra)).
Qed.

Lemma chain3_range r M1 M2 M3 : (0 <= chain3 r M1 M2 M3 <= 3)%Z.
Proof. unfold chain3. destruct (Qle_bool r M1), (Qle_bool r M2), (Qle_bool r M3); lia. Qed.

Lemma chain3_ext r M1 M2 M3 N1 N2 N3 : M1 == N1 -> M2 == N2 -> M3 == N3 -> chain3 r M1 M2 M3 = chain3 r N1 N2 N3.
Proof.
  intros E1 E2 E3. unfold chain3.
  assert (B : forall a b, a == b -> Qle_bool r a = Qle_bool r b).
  { intros a b E. destruct (Qle_bool r a) eqn:Ea, (Qle_bool r b) eqn:Eb; try reflexivity; qprops; lra. }
  rewrite (B _ _ E1), (B _ _ E2), (B _ _ E3). reflexivity.
Qed.

(* the generated central chain is the decision chain on the stacked markers of the specification *)
Lemma cent_keep_chain wL wE wQ occL occE occQ icL icE icQ mult r :
  cent_keep wL wE wQ occL occE occQ icL icE icQ mult r =
  chain3 r (mk1 wL (cent_width occL icL mult))
           (mk2 wL wE (cent_width occL icL mult) (cent_width occE icE mult))
           (mk3 wL wE wQ (cent_width occL icL mult) (cent_width occE icE mult) (cent_width occQ icQ mult)).
Proof.
  unfold cent_keep. cbv zeta.
  match goal with |- (if Qle_bool _ ?a then _ else if Qle_bool _ ?b then _ else if Qle_bool _ ?c then _ else _) = _ =>
    change (chain3 r a b c = chain3 r (mk1 wL (cent_width occL icL mult))
           (mk2 wL wE (cent_width occL icL mult) (cent_width occE icE mult))
           (mk3 wL wE wQ (cent_width occL icL mult) (cent_width occE icE mult) (cent_width occQ icQ mult))) end.
  apply chain3_ext; unfold mk3, mk2, mk1, cent_width, b2q; destruct wL, wE, wQ; ring.
Qed.

Lemma sat_keep_chain wL wE wQ er kc occL occE0 occE1 occE2 occQ icL icE icQ w r rk rkv rkp rkr
      sL svL spL srL sE svE spE srE sQ svQ spQ srQ :
  let WL := sat_width occL w icL (decoration er sL svL spL srL rk rkv rkp rkr) in
  let WE := sat_width (conformity_occ kc occE0 occE1 occE2) w icE (decoration er sE svE spE srE rk rkv rkp rkr) in
  let WQ := sat_width occQ w icQ (decoration er sQ svQ spQ srQ rk rkv rkp rkr) in
  sat_keep wL wE wQ er kc occL occE0 occE1 occE2 occQ icL icE icQ w r rk rkv rkp rkr
           sL svL spL srL sE svE spE srE sQ svQ spQ srQ =
  chain3 r (mk1 wL WL) (mk2 wL wE WL WE) (mk3 wL wE wQ WL WE WQ).
Proof.
  intros WL WE WQ. unfold sat_keep. cbv zeta.
  match goal with |- (if Qle_bool _ ?a then _ else if Qle_bool _ ?b then _ else if Qle_bool _ ?c then _ else _) = _ =>
    change (chain3 r a b c = chain3 r (mk1 wL WL) (mk2 wL wE WL WE) (mk3 wL wE wQ WL WE WQ)) end.
  subst WL WE WQ.
  apply chain3_ext; unfold mk3, mk2, mk1, sat_width, conformity_occ, decoration, b2q;
    destruct wL, wE, wQ, er, (kc =? 1)%Z, (kc =? 2)%Z; ring.
Qed.

Lemma half L : L / 2 == L * (1 # 2).
Proof. field. Qed.

(* ---- wrap --------------------------------------------------------------------------------- *)
Lemma wrap_cases x L :
  (L / 2 <= x /\ wrap x L = x - L) \/ (x < - (L / 2) /\ ~ L / 2 <= x /\ wrap x L = x + L)
  \/ (- (L / 2) <= x /\ x < L / 2 /\ wrap x L = x).
Proof.
  unfold wrap. cbv zeta. change (inject_Z 2) with 2.
  destruct (Qle_bool (L / 2) x) eqn:E1; [|destruct (Qltb x (- (L / 2))) eqn:E2]; qprops.
  - left. split; [exact E1|reflexivity].
  - right; left. split; [exact E2|]. split; [apply Qlt_not_le; exact E1|reflexivity].
  - right; right. split; [exact E2|]. split; [exact E1|reflexivity].
Qed.

Lemma wrap_range x L : 0 < L -> - (L / 2) - L <= x -> x < L / 2 + L -> in_box L (wrap x L).
Proof.
  intros HL H1 H2. unfold in_box. destruct (wrap_cases x L) as [[A E]|[[A [B E]]|[A [B E]]]]; rewrite E;
    rewrite half in *; lra.
Qed.

Lemma wrap_shift x L : wrap x L == x \/ wrap x L == x - L \/ wrap x L == x + L.
Proof.
  destruct (wrap_cases x L) as [[A E]|[[A [B E]]|[A [B E]]]]; rewrite E; [right; left|right; right|left]; reflexivity.
Qed.

Lemma wrap_id x L : in_box L x -> wrap x L = x.
Proof.
  intros [H1 H2]. destruct (wrap_cases x L) as [[A E]|[[A [B E]]|[A [B E]]]]; try exact E; rewrite half in *; lra.
Qed.
