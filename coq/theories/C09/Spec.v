(* C09/Spec.v — the HOD selection rule and the row contents, written independently of the code.

   A host draws one uniform number r.  The tracers LRG (1), ELG (2), QSO (3) own consecutive slices of the line:
   with widths W1 W2 W3 (zero for a tracer that is not requested) and markers m1 = W1, m2 = m1 + W2, m3 = m2 + W3,
   tracer 1 owns (-inf, m1] (i.e. [0, m1] for r >= 0: the first slice is closed at 0), tracer 2 owns (m1, m2],
   tracer 3 owns (m2, m3]; a host outside every slice hosts nothing (code 0).
   The width of a tracer is  mean occupation x incompleteness x multiplicity (centrals)  or
   mean occupation x particle weight x incompleteness x rank decoration (satellites). *)
From Coq Require Import ZArith QArith Bool.
Local Open Scope Q_scope.

Definition b2q (b : bool) : Q := if b then 1 else 0.

Definition in_slice (T : Z) (m1 m2 m3 r : Q) : Prop :=
  if (T =? 1)%Z then r <= m1
  else if (T =? 2)%Z then m1 < r /\ r <= m2
  else if (T =? 3)%Z then m2 < r /\ r <= m3
  else if (T =? 0)%Z then m3 < r
  else False.

(* centrals: occupation x ic x halo multiplicity *)
Definition cent_width (occ ic mult : Q) : Q := occ * ic * mult.

(* satellites: occupation x particle weight x ic x (1 + s.ranks ...) when ranks are enabled *)
Definition decoration (enable_ranks : bool) (s s_v s_p s_r ranks ranksv ranksp ranksr : Q) : Q :=
  if enable_ranks then 1 + s * ranks + s_v * ranksv + s_p * ranksp + s_r * ranksr else 1.
Definition sat_width (occ weight ic dec : Q) : Q := occ * weight * ic * dec.
(* ELG conformity: the ELG satellite occupation depends on the central its halo hosts (none/QSO, LRG, ELG) *)
Definition conformity_occ (keep_cent : Z) (occ_other occ_with_LRG occ_with_ELG : Q) : Q :=
  if (keep_cent =? 1)%Z then occ_with_LRG else if (keep_cent =? 2)%Z then occ_with_ELG else occ_other.

(* stacked markers for widths W1 W2 W3 and request flags *)
Definition mk1 (w1 : bool) (W1 : Q) : Q := b2q w1 * W1.
Definition mk2 (w1 w2 : bool) (W1 W2 : Q) : Q := mk1 w1 W1 + b2q w2 * W2.
Definition mk3 (w1 w2 w3 : bool) (W1 W2 W3 : Q) : Q := mk2 w1 w2 W1 W2 + b2q w3 * W3.

(* velocity bias *)
Definition cent_vel (v alpha_c dev : Q) : Q := v + alpha_c * dev.
Definition sat_vel (vh alpha_s vp : Q) : Q := vh + alpha_s * (vp - vh).

(* periodic wrap into [-L/2, L/2) *)
Definition in_box (L z : Q) : Prop := - (L / 2) <= z /\ z < L / 2.
