(* C09/TwoPass.v — the two-pass kernel model (Model.two_pass) computes, for every thread count and every monotone
   block table, the filter of the hosts by keep code, each row written exactly once.  Used by C09 and C10. *)
From Coq Require Import ZArith List Bool Lia.
From Abacus.Common Require Import Arr.
From Abacus.C09 Require Import Model Lib.
Import ListNotations.
Local Open Scope Z_scope.
Local Open Scope res_scope.

Lemma in13_cases c : in13 c = true -> c = 1 \/ c = 2 \/ c = 3.
Proof. unfold in13. intros H. apply andb_true_iff in H. destruct H as [H1 H2]. apply Z.leb_le in H1, H2. lia. Qed.

Lemma in13_false c : in13 c = false -> c <> 1 /\ c <> 2 /\ c <> 3.
Proof.
  unfold in13. intros H. apply andb_false_iff in H. destruct H as [H|H]; apply Z.leb_gt in H; lia.
Qed.

Section TwoPassProofs.
Variables A R : Type.
Variable code : A -> Z.
Variable fill : Z -> A -> R.

Definition isT (T : Z) (h : A) : bool := code h =? T.
Definition count (T : Z) (l : list A) : Z := len (filter (isT T) l).
Definition counts (l : list A) : cnt3 := (count 1 l, count 2 l, count 3 l).
Definition rows (T : Z) (l : list A) : list R := map (fill T) (filter (isT T) l).
Definition kcodes (l : list A) : list Z := map code l.

(* the write a host causes, given the hosts before it *)
Definition ev_at (p : list A) (h : A) : list (event R) :=
  if in13 (code h) then [(code h, count (code h) p, fill (code h) h)] else [].
Fixpoint evs_pre (p l : list A) : list (event R) :=
  match l with
  | [] => []
  | h :: t => ev_at p h ++ evs_pre (p ++ [h]) t
  end.

Lemma evs_pre_app p l1 l2 : evs_pre p (l1 ++ l2) = evs_pre p l1 ++ evs_pre (p ++ l1) l2.
Proof.
  revert p; induction l1 as [|h t IH]; intros p; cbn [app evs_pre].
  - rewrite app_nil_r. reflexivity.
  - rewrite IH, <- !app_assoc. reflexivity.
Qed.

Lemma evs_pre_snoc p l h : evs_pre p (l ++ [h]) = evs_pre p l ++ ev_at (p ++ l) h.
Proof. rewrite evs_pre_app. cbn [evs_pre]. rewrite app_nil_r. reflexivity. Qed.

Lemma count_nonneg T l : 0 <= count T l.
Proof. unfold count. apply len_nonneg. Qed.

Lemma count_app T l1 l2 : count T (l1 ++ l2) = count T l1 + count T l2.
Proof. unfold count. rewrite filter_app, len_app. reflexivity. Qed.

Lemma count_one T h : count T [h] = if code h =? T then 1 else 0.
Proof. unfold count, isT. cbn [filter]. destruct (code h =? T); reflexivity. Qed.

Lemma count_snoc T l h : count T (l ++ [h]) = count T l + (if code h =? T then 1 else 0).
Proof. rewrite count_app, count_one. reflexivity. Qed.

Lemma counts_app l1 l2 : add3 (counts l1) (counts l2) = counts (l1 ++ l2).
Proof. unfold counts, add3. rewrite !count_app. reflexivity. Qed.

Lemma counts_nil : counts [] = z3.
Proof. reflexivity. Qed.

Lemma counts_snoc l h : counts (l ++ [h]) = bump (code h) (counts l).
Proof.
  unfold counts, bump. rewrite !count_snoc.
  destruct (in13 (code h)) eqn:E.
  - apply in13_cases in E. destruct E as [E|[E|E]]; rewrite E; cbn; f_equal; try f_equal; lia.
  - apply in13_false in E. destruct E as [E1 [E2 E3]].
    apply Z.eqb_neq in E1, E2, E3. rewrite E1, E2, E3. f_equal; try f_equal; lia.
Qed.

Lemma sel3_counts T l : 1 <= T <= 3 -> sel3 T (counts l) = count T l.
Proof. intros H. assert (T = 1 \/ T = 2 \/ T = 3) as [E|[E|E]] by lia; subst T; reflexivity. Qed.

Lemma rows_app T l1 l2 : rows T (l1 ++ l2) = rows T l1 ++ rows T l2.
Proof. unfold rows. rewrite filter_app, map_app. reflexivity. Qed.

Lemma len_rows T l : len (rows T l) = count T l.
Proof. unfold rows, count. apply len_map. Qed.

Lemma length_rows T l : length (rows T l) = Z.to_nat (count T l).
Proof. pose proof (len_rows T l) as H. unfold len in H. lia. Qed.

(* the host at position i with code T is row number (count T (pre i)) of tracer T *)
Lemma rows_nth hosts i h T :
  0 <= i -> nth_error hosts (Z.to_nat i) = Some h -> code h = T ->
  nth_error (rows T hosts) (Z.to_nat (count T (pre hosts i))) = Some (fill T h)
  /\ count T (pre hosts i) < count T hosts.
Proof.
  intros Hi Hn Hc. destruct (nth_error_split _ _ Hn) as [l1 [l2 [E L]]].
  assert (Hp : pre hosts i = l1).
  { unfold pre. rewrite E, <- L. rewrite firstn_app, Nat.sub_diag. cbn [firstn]. rewrite app_nil_r. apply firstn_all. }
  rewrite Hp. rewrite E. split.
  - rewrite rows_app. rewrite nth_error_app2 by (rewrite length_rows; lia).
    rewrite length_rows, Nat.sub_diag. unfold rows at 1. cbn [filter]. unfold isT at 1. rewrite Hc, Z.eqb_refl. reflexivity.
  - rewrite count_app. replace (h :: l2) with ([h] ++ l2) by reflexivity. rewrite count_app, count_one, Hc, Z.eqb_refl.
    pose proof (count_nonneg T l2). lia.
Qed.

(* ---- block tables ------------------------------------------------------------------------- *)
Definition hsv (hstart : list Z) (t : Z) : Z := nth (Z.to_nat t) hstart 0.

Definition good_hstart (Nthread : Z) (hstart : list Z) (H : Z) : Prop :=
  1 <= Nthread /\ len hstart = Nthread + 1 /\ hsv hstart 0 = 0 /\ hsv hstart Nthread = H /\
  forall t, 0 <= t < Nthread -> hsv hstart t <= hsv hstart (t + 1).

Lemma hsv_mono Nthread hstart H : good_hstart Nthread hstart H ->
  forall s t, 0 <= s <= t -> t <= Nthread -> hsv hstart s <= hsv hstart t.
Proof.
  intros [_ [_ [_ [_ Hm]]]] s t Hst Ht.
  replace t with (s + Z.of_nat (Z.to_nat (t - s))) by lia.
  assert (Hb : s + Z.of_nat (Z.to_nat (t - s)) <= Nthread) by lia. revert Hb.
  induction (Z.to_nat (t - s)) as [|n IH]; intros Hb.
  - replace (s + Z.of_nat 0) with s by lia. lia.
  - replace (s + Z.of_nat (S n)) with (s + Z.of_nat n + 1) by lia.
    specialize (Hm (s + Z.of_nat n)). lia.
Qed.

Lemma hsv_range Nthread hstart H : good_hstart Nthread hstart H ->
  forall t, 0 <= t <= Nthread -> 0 <= hsv hstart t <= H.
Proof.
  intros G t Ht. pose proof (hsv_mono _ _ _ G 0 t) as H1. pose proof (hsv_mono _ _ _ G t Nthread) as H2.
  destruct G as [_ [_ [G0 [GH _]]]]. lia.
Qed.

Lemma get_hsv Nthread hstart H t : good_hstart Nthread hstart H -> 0 <= t <= Nthread ->
  get hstart t = Ok (hsv hstart t).
Proof. intros [_ [L _]] Ht. unfold hsv. apply get_ok_nth. lia. Qed.

Lemma nth_error_map_seqZ {X} (f : Z -> X) lo n k :
  (k < n)%nat -> nth_error (map f (seqZ lo n)) k = Some (f (lo + Z.of_nat k)).
Proof.
  intros H. unfold seqZ. rewrite map_map, nth_error_map, nth_error_nth' with (d := O) by (rewrite seq_length; lia).
  rewrite seq_nth by lia. reflexivity.
Qed.

(* ---- pass 1 ------------------------------------------------------------------------------- *)
Section Hosts.
Variable hosts : list A.
Variable Nthread : Z.
Variable hstart : list Z.
Hypothesis G : good_hstart Nthread hstart (len hosts).

Let hs := hsv hstart.
Definition delta (t : Z) : cnt3 := counts (blk hosts (hs t) (hs (t + 1))).
Definition Nout_spec : list cnt3 := map delta (seqZ 0 (Z.to_nat Nthread)).

Lemma nth_error_hosts i : 0 <= i < len hosts -> exists h, get hosts i = Ok h /\ nth_error hosts (Z.to_nat i) = Some h.
Proof. apply get_nth_error. Qed.

Lemma kcodes_nth i h : nth_error hosts (Z.to_nat i) = Some h -> nth_error (kcodes hosts) (Z.to_nat i) = Some (code h).
Proof. intros E. unfold kcodes. rewrite nth_error_map, E. reflexivity. Qed.

Lemma len_kcodes : len (kcodes hosts) = len hosts.
Proof. apply len_map. Qed.

Lemma pass1_inner tid keep0 Nout0 :
  0 <= tid < Nthread ->
  len Nout0 = Nthread -> nth (Z.to_nat tid) Nout0 z3 = z3 ->
  keep0 = parr (kcodes hosts) (hs tid) ->
  for_range (hs tid) (hs (tid + 1)) (fun i '(keep, Nout) =>
      h <- get hosts i ;;
      Nout <- upd Nout tid (bump (code h)) ;;
      keep <- set keep i (Some (code h)) ;;
      Ok (keep, Nout)) (keep0, Nout0)
  = Ok (parr (kcodes hosts) (hs (tid + 1)), set_nth Nout0 (Z.to_nat tid) (delta tid)).
Proof.
  intros Ht HL Hz Hk.
  pose proof (hsv_range _ _ _ G tid ltac:(lia)) as R1. pose proof (hsv_range _ _ _ G (tid + 1) ltac:(lia)) as R2.
  destruct G as [_ [_ [_ [_ Hm]]]]. specialize (Hm tid Ht). fold hs in R1, R2, Hm.
  set (P := fun (i : Z) (s : list (option Z) * list cnt3) =>
              s = (parr (kcodes hosts) i, set_nth Nout0 (Z.to_nat tid) (counts (blk hosts (hs tid) i)))).
  match goal with |- for_range ?lo ?hi ?body ?s = _ =>
    destruct (for_range_inv P lo hi body s) as [s' [E Ps]] end.
  - exact Hm.
  - unfold P. rewrite blk_same, counts_nil, <- Hz, set_nth_same by (unfold len in HL; lia). rewrite Hk. reflexivity.
  - intros i s Hi Ps. unfold P in Ps. subst s.
    destruct (nth_error_hosts i ltac:(lia)) as [h [Eg En]]. rewrite Eg. cbn [bind].
    rewrite (upd_ok _ tid _ z3) by (unfold len; rewrite set_nth_length; unfold len in HL; lia). cbn [bind].
    rewrite set_nth_nth by (unfold len in HL; lia). rewrite set_nth_twice.
    rewrite (parr_set (kcodes hosts) i (code h)) by (rewrite ?len_kcodes; try lia; apply kcodes_nth; exact En).
    cbn [bind]. eexists. split; [reflexivity|]. unfold P.
    rewrite (blk_succ hosts (hs tid) i h) by (try lia; exact En). rewrite counts_snoc. reflexivity.
  - rewrite E. unfold P in Ps. rewrite Ps. reflexivity.
Qed.

Lemma pass1_correct :
  pass1 A code Nthread hstart hosts = Ok (map Some (kcodes hosts), Nout_spec).
Proof.
  unfold pass1.
  pose proof G as [N1 [HL [H0 [HH Hm]]]]. fold hs in H0, HH, Hm.
  set (P := fun (tid : Z) (s : list (option Z) * list cnt3) =>
              s = (parr (kcodes hosts) (hs tid),
                   map delta (seqZ 0 (Z.to_nat tid)) ++ repeat z3 (Z.to_nat (Nthread - tid)))).
  match goal with |- for_range ?lo ?hi ?body ?s = _ =>
    destruct (for_range_inv P lo hi body s) as [s' [E Ps]] end.
  - lia.
  - unfold P. rewrite H0, parr_0. cbn [Z.to_nat seqZ seq map app]. rewrite Z.sub_0_r.
    unfold kcodes. rewrite map_length. unfold len. rewrite Nat2Z.id. reflexivity.
  - intros tid s Ht Ps. unfold P in Ps. subst s.
    rewrite (get_hsv _ _ _ tid G) by lia. rewrite (get_hsv _ _ _ (tid + 1) G) by lia. cbn [bind]. fold hs.
    set (N0 := map delta (seqZ 0 (Z.to_nat tid)) ++ repeat z3 (Z.to_nat (Nthread - tid))).
    assert (L0 : length (map delta (seqZ 0 (Z.to_nat tid))) = Z.to_nat tid).
    { unfold seqZ. rewrite !map_length, seq_length. reflexivity. }
    assert (HN0 : len N0 = Nthread).
    { unfold N0. rewrite len_app, len_repeat. unfold len. rewrite L0. lia. }
    assert (Hz : nth (Z.to_nat tid) N0 z3 = z3).
    { unfold N0. rewrite app_nth2 by lia. rewrite L0, Nat.sub_diag.
      destruct (Z.to_nat (Nthread - tid)) eqn:En; [lia|reflexivity]. }
    rewrite (pass1_inner tid _ N0 Ht HN0 Hz eq_refl).
    eexists. split; [reflexivity|]. unfold P. f_equal. unfold N0.
    rewrite set_nth_app_r by lia. rewrite L0, Nat.sub_diag.
    replace (Z.to_nat (tid + 1)) with (S (Z.to_nat tid)) by lia. rewrite seqZ_S, map_app, <- app_assoc. f_equal.
    replace (0 + Z.of_nat (Z.to_nat tid)) with tid by lia.
    destruct (Z.to_nat (Nthread - tid)) eqn:En; [lia|].
    replace (Z.to_nat (Nthread - (tid + 1))) with n by lia. reflexivity.
  - rewrite E. unfold P in Ps. rewrite Ps. rewrite HH, <- len_kcodes, parr_full.
    rewrite Z.sub_diag. cbn [Z.to_nat repeat]. rewrite app_nil_r. reflexivity.
Qed.

(* ---- prefix sums -------------------------------------------------------------------------- *)
Lemma delta_add t : 0 <= t < Nthread -> add3 (counts (pre hosts (hs t))) (delta t) = counts (pre hosts (hs (t + 1))).
Proof.
  intros Ht. unfold delta. rewrite counts_app.
  pose proof (hsv_range _ _ _ G t ltac:(lia)) as R1. destruct G as [_ [_ [_ [_ Hm]]]]. specialize (Hm t Ht).
  fold hs in R1, Hm. rewrite <- pre_split by lia. reflexivity.
Qed.

Lemma cumsum3_spec n s : 0 <= s -> s + Z.of_nat n <= Nthread ->
  cumsum3 (counts (pre hosts (hs s))) (map delta (seqZ s n)) =
  map (fun t => counts (pre hosts (hs (t + 1)))) (seqZ s n).
Proof.
  revert s; induction n as [|n IH]; intros s Hs Hb; [reflexivity|].
  rewrite seqZ_cons. cbn [map cumsum3]. rewrite delta_add by lia. f_equal. apply IH; lia.
Qed.

Definition gstart_spec : list cnt3 := z3 :: map (fun t => counts (pre hosts (hs (t + 1)))) (seqZ 0 (Z.to_nat Nthread)).

Lemma gstart_correct : gstart_of Nout_spec = gstart_spec.
Proof.
  unfold gstart_of, Nout_spec, gstart_spec. f_equal.
  pose proof G as [N1 [HL [H0 _]]]. fold hs in H0.
  replace z3 with (counts (pre hosts (hs 0))) at 1 by (rewrite H0; reflexivity).
  apply cumsum3_spec; lia.
Qed.

Lemma len_gstart_spec : len gstart_spec = Nthread + 1.
Proof.
  unfold gstart_spec. rewrite len_cons, len_map. unfold len, seqZ. rewrite map_length, seq_length.
  destruct G as [N1 _]. lia.
Qed.

Lemma get_gstart t : 0 <= t <= Nthread -> get gstart_spec t = Ok (counts (pre hosts (hs t))).
Proof.
  intros Ht. rewrite (get_ok_nth _ _ z3) by (rewrite len_gstart_spec; lia). f_equal.
  pose proof G as [N1 [HL [H0 _]]]. fold hs in H0.
  destruct (Z.eq_dec t 0) as [->|Hne]; [rewrite H0; reflexivity|].
  unfold gstart_spec. replace (Z.to_nat t) with (S (Z.to_nat (t - 1))) by lia. cbn [nth].
  apply nth_error_nth. rewrite nth_error_map_seqZ by lia.
  replace (0 + Z.of_nat (Z.to_nat (t - 1)) + 1) with t by lia. reflexivity.
Qed.

Lemma get_gstart_last : get gstart_spec (-1) = Ok (counts hosts).
Proof.
  pose proof G as [N1 [HL [H0 [HH _]]]]. fold hs in HH.
  rewrite (get_neg_nth _ _ z3) by (rewrite len_gstart_spec; lia). rewrite len_gstart_spec.
  replace (-1 + (Nthread + 1)) with Nthread by lia.
  pose proof (get_gstart Nthread ltac:(lia)) as E. rewrite (get_ok_nth _ _ z3) in E by (rewrite len_gstart_spec; lia).
  rewrite E, HH, pre_all. reflexivity.
Qed.

(* ---- pass 2 ------------------------------------------------------------------------------- *)
Definition arr (T i : Z) : list (option R) := parr (rows T hosts) (count T (pre hosts i)).
Definition arrs (i : Z) : outs3 R := (arr 1 i, arr 2 i, arr 3 i).

Lemma fill_host_step i tr0 :
  0 <= i < len hosts ->
  exists h, nth_error hosts (Z.to_nat i) = Some h /\
  fill_host A R fill (map Some (kcodes hosts)) hosts i (arrs i, counts (pre hosts i), tr0)
  = Ok (arrs (i + 1), counts (pre hosts (i + 1)), tr0 ++ ev_at (pre hosts i) h)
  /\ pre hosts (i + 1) = pre hosts i ++ [h].
Proof.
  intros Hi. destruct (nth_error_hosts i Hi) as [h [Eg En]]. exists h. split; [exact En|].
  assert (Hp : pre hosts (i + 1) = pre hosts i ++ [h]) by (apply pre_succ; [lia|exact En]).
  split; [|exact Hp].
  unfold fill_host.
  assert (Ek : get (map Some (kcodes hosts)) i = Ok (Some (code h))).
  { destruct (get_nth_error (map Some (kcodes hosts)) i) as [x [E1 E2]]; [rewrite len_map, len_kcodes; lia|].
    rewrite E1. rewrite nth_error_map, (kcodes_nth i h En) in E2. cbn in E2. inversion E2. reflexivity. }
  rewrite Ek. cbn [bind]. unfold ev_at.
  destruct (in13 (code h)) eqn:E13.
  - rewrite Eg. cbn [bind].
    assert (Hc : 1 <= code h <= 3) by (apply in13_cases in E13; lia).
    rewrite sel3_counts by exact Hc.
    destruct (rows_nth hosts i h (code h) ltac:(lia) En eq_refl) as [Hrow Hlt].
    assert (Hsel : sel3 (code h) (arrs i) = arr (code h) i).
    { unfold arrs. apply in13_cases in E13. destruct E13 as [E|[E|E]]; rewrite E; reflexivity. }
    rewrite Hsel. unfold arr at 1.
    rewrite (parr_set (rows (code h) hosts) _ (fill (code h) h))
      by (try exact Hrow; rewrite len_rows; pose proof (count_nonneg (code h) (pre hosts i)); lia).
    cbn [bind]. do 2 f_equal.
    + f_equal.
      * unfold arrs, arr. rewrite Hp, !count_snoc.
        apply in13_cases in E13. destruct E13 as [E|[E|E]]; rewrite E; cbn; rewrite ?Z.add_0_r; reflexivity.
      * rewrite Hp, counts_snoc. unfold bump. rewrite E13, sel3_counts by exact Hc. reflexivity.
  - rewrite app_nil_r. do 2 f_equal.
    apply in13_false in E13. destruct E13 as [E1 [E2 E3]]. apply Z.eqb_neq in E1, E2, E3. f_equal.
    + unfold arrs, arr. rewrite Hp, !count_snoc, E1, E2, E3, !Z.add_0_r. reflexivity.
    + rewrite Hp. unfold counts. rewrite !count_snoc, E1, E2, E3, !Z.add_0_r. reflexivity.
Qed.

Definition trace_spec (t : Z) : list (event R) := evs_pre (pre hosts (hs t)) (blk hosts (hs t) (hs (t + 1))).

Lemma pass2_inner tid :
  0 <= tid < Nthread ->
  for_range (hs tid) (hs (tid + 1)) (fill_host A R fill (map Some (kcodes hosts)) hosts)
            (arrs (hs tid), counts (pre hosts (hs tid)), [])
  = Ok (arrs (hs (tid + 1)), counts (pre hosts (hs (tid + 1))), trace_spec tid).
Proof.
  intros Ht.
  pose proof (hsv_range _ _ _ G tid ltac:(lia)) as R1. pose proof (hsv_range _ _ _ G (tid + 1) ltac:(lia)) as R2.
  destruct G as [_ [_ [_ [_ Hm]]]]. specialize (Hm tid Ht). fold hs in R1, R2, Hm.
  set (P := fun (i : Z) (s : outs3 R * cnt3 * list (event R)) =>
              s = (arrs i, counts (pre hosts i), evs_pre (pre hosts (hs tid)) (blk hosts (hs tid) i))).
  match goal with |- for_range ?lo ?hi ?body ?s = _ =>
    destruct (for_range_inv P lo hi body s) as [s' [E Ps]] end.
  - exact Hm.
  - unfold P. rewrite blk_same. reflexivity.
  - intros i s Hi Ps. unfold P in Ps. subst s.
    destruct (fill_host_step i (evs_pre (pre hosts (hs tid)) (blk hosts (hs tid) i)) ltac:(lia)) as [h [En [Es Hp]]].
    rewrite Es. eexists. split; [reflexivity|]. unfold P. f_equal.
    rewrite (blk_succ hosts (hs tid) i h) by (try lia; exact En). rewrite evs_pre_snoc.
    rewrite <- pre_split by lia. reflexivity.
  - rewrite E. unfold P in Ps. rewrite Ps. reflexivity.
Qed.

Definition outs_spec : outs3 R := (map Some (rows 1 hosts), map Some (rows 2 hosts), map Some (rows 3 hosts)).
Definition traces_spec : list (list (event R)) := map trace_spec (seqZ 0 (Z.to_nat Nthread)).

Lemma pass2_correct :
  pass2 A R fill Nthread hstart hosts (map Some (kcodes hosts)) gstart_spec = Ok (outs_spec, traces_spec).
Proof.
  unfold pass2. rewrite get_gstart_last. cbn [bind].
  pose proof G as [N1 [HL [H0 [HH Hm]]]]. fold hs in H0, HH, Hm.
  rewrite !sel3_counts by lia.
  set (P := fun (tid : Z) (s : outs3 R * list (list (event R))) =>
              s = (arrs (hs tid), map trace_spec (seqZ 0 (Z.to_nat tid)))).
  match goal with |- for_range ?lo ?hi ?body ?s = _ =>
    destruct (for_range_inv P lo hi body s) as [s' [E Ps]] end.
  - lia.
  - unfold P. rewrite H0. unfold arrs, arr. rewrite pre_0. cbn [Z.to_nat seqZ seq map].
    assert (C0 : forall T, count T [] = 0) by reflexivity. rewrite !C0, !parr_0, !length_rows. reflexivity.
  - intros tid s Ht Ps. unfold P in Ps. subst s.
    rewrite get_gstart by lia. rewrite (get_hsv _ _ _ tid G) by lia. rewrite (get_hsv _ _ _ (tid + 1) G) by lia.
    cbn [bind]. fold hs. rewrite (pass2_inner tid Ht). cbn [bind].
    eexists. split; [reflexivity|]. unfold P. f_equal.
    replace (Z.to_nat (tid + 1)) with (S (Z.to_nat tid)) by lia. rewrite seqZ_S, map_app. cbn [map].
    replace (0 + Z.of_nat (Z.to_nat tid)) with tid by lia. reflexivity.
  - rewrite E. unfold P in Ps. rewrite Ps. f_equal. rewrite HH. unfold arrs, arr, outs_spec.
    rewrite pre_all, <- !len_rows, !parr_full. reflexivity.
Qed.

Lemma two_pass_correct :
  two_pass A R code fill Nthread hstart hosts = Ok (map Some (kcodes hosts), outs_spec, traces_spec).
Proof.
  unfold two_pass. rewrite pass1_correct. cbn [bind]. rewrite gstart_correct, pass2_correct. reflexivity.
Qed.

(* the concatenated traces do not depend on the thread blocks *)
Lemma concat_traces_upto n : (Z.of_nat n <= Nthread) ->
  concat (map trace_spec (seqZ 0 n)) = evs_pre [] (pre hosts (hs (Z.of_nat n))).
Proof.
  pose proof G as [N1 [HL [H0 [HH Hm]]]]. fold hs in H0, HH, Hm.
  induction n as [|n IH]; intros Hn.
  - cbn. rewrite H0. reflexivity.
  - rewrite seqZ_S, map_app, concat_app, IH by lia. cbn [map concat]. rewrite app_nil_r.
    replace (0 + Z.of_nat n) with (Z.of_nat n) by lia. unfold trace_spec.
    replace (Z.of_nat (S n)) with (Z.of_nat n + 1) by lia.
    pose proof (hsv_range _ _ _ G (Z.of_nat n) ltac:(lia)) as R1. fold hs in R1.
    rewrite (pre_split hosts (hs (Z.of_nat n)) (hs (Z.of_nat n + 1))) by (specialize (Hm (Z.of_nat n)); lia).
    rewrite evs_pre_app. reflexivity.
Qed.

Lemma concat_traces : concat traces_spec = evs_pre [] hosts.
Proof.
  pose proof G as [N1 [HL [H0 [HH Hm]]]]. fold hs in HH.
  unfold traces_spec. rewrite concat_traces_upto by lia.
  replace (Z.of_nat (Z.to_nat Nthread)) with Nthread by lia. rewrite HH, pre_all. reflexivity.
Qed.

End Hosts.

(* ---- the events of a host list: every (tracer,row) written exactly once ------------------- *)
Definition ev_key (e : event R) : Z * Z := (fst (fst e), snd (fst e)).
Definition ev_is (T : Z) (e : event R) : bool := fst (fst e) =? T.

Lemma evs_proj T p l : 1 <= T <= 3 ->
  map (fun e => (snd (fst e), snd e)) (filter (ev_is T) (evs_pre p l)) =
  combine (seqZ (count T p) (Z.to_nat (count T l))) (rows T l).
Proof.
  intros HT. revert p; induction l as [|h t IH]; intros p; [reflexivity|].
  cbn [evs_pre]. rewrite filter_app, map_app, IH. unfold ev_at. rewrite count_snoc.
  replace (h :: t) with ([h] ++ t) by reflexivity. rewrite count_app, rows_app, count_one.
  assert (Er : rows T [h] = if code h =? T then [fill T h] else []).
  { unfold rows, isT. cbn [filter]. destruct (code h =? T); reflexivity. }
  rewrite Er.
  destruct (code h =? T) eqn:E.
  - apply Z.eqb_eq in E. assert (E13 : in13 (code h) = true) by (unfold in13; rewrite E; lia).
    rewrite E13. cbn [filter]. unfold ev_is at 1. cbn [fst snd]. rewrite E, Z.eqb_refl. cbn [map app].
    pose proof (count_nonneg T t). replace (Z.to_nat (1 + count T t)) with (S (Z.to_nat (count T t))) by lia.
    rewrite seqZ_cons. reflexivity.
  - rewrite Z.add_0_r, Z.add_0_l. destruct (in13 (code h)); [|reflexivity].
    cbn [filter]. unfold ev_is at 1. cbn [fst snd]. rewrite E. reflexivity.
Qed.

Lemma evs_codes p l e : In e (evs_pre p l) -> in13 (fst (fst e)) = true.
Proof.
  revert p; induction l as [|h t IH]; intros p H; [destruct H|].
  cbn [evs_pre] in H. apply in_app_or in H. destruct H as [H|H]; [|eapply IH; exact H].
  unfold ev_at in H. destruct (in13 (code h)) eqn:E; [|destruct H]. destruct H as [<-|[]]. exact E.
Qed.

Lemma NoDup_by_class (l : list (Z * Z)) :
  (forall T, NoDup (map snd (filter (fun a => fst a =? T) l))) -> NoDup l.
Proof.
  induction l as [|a l IH]; intros H; [constructor|]. constructor.
  - intros Hin. specialize (H (fst a)). cbn [filter] in H. rewrite Z.eqb_refl in H. cbn [map] in H.
    inversion H as [|x xs Hn _]. apply Hn. apply in_map. apply filter_In. split; [exact Hin|apply Z.eqb_refl].
  - apply IH. intros T. specialize (H T). cbn [filter] in H. destruct (fst a =? T); [|exact H].
    cbn [map] in H. inversion H; assumption.
Qed.

Lemma map_fst_combine {X Y} (a : list X) (b : list Y) : length a = length b -> map fst (combine a b) = a.
Proof. revert b; induction a as [|x a IH]; intros [|y b] H; cbn in *; try lia; try reflexivity. f_equal. apply IH. lia. Qed.

Lemma map_snd_combine {X Y} (a : list X) (b : list Y) : length a = length b -> map snd (combine a b) = b.
Proof. revert b; induction a as [|x a IH]; intros [|y b] H; cbn in *; try lia; try reflexivity. f_equal. apply IH. lia. Qed.

Lemma evs_rows_index T l : 1 <= T <= 3 ->
  map (fun e => snd (fst e)) (filter (ev_is T) (evs_pre [] l)) = seqZ 0 (Z.to_nat (count T l)).
Proof.
  intros HT.
  transitivity (map fst (combine (seqZ (count T []) (Z.to_nat (count T l))) (rows T l))).
  - rewrite <- (evs_proj T [] l HT). rewrite map_map. apply map_ext. reflexivity.
  - apply map_fst_combine. unfold seqZ. rewrite map_length, seq_length, length_rows. reflexivity.
Qed.

Lemma evs_rows_value T l : 1 <= T <= 3 ->
  map snd (filter (ev_is T) (evs_pre [] l)) = rows T l.
Proof.
  intros HT.
  transitivity (map snd (combine (seqZ (count T []) (Z.to_nat (count T l))) (rows T l))).
  - rewrite <- (evs_proj T [] l HT). rewrite map_map. apply map_ext. reflexivity.
  - apply map_snd_combine. unfold seqZ. rewrite map_length, seq_length, length_rows. reflexivity.
Qed.

Lemma filter_map_comm {X Y} (f : X -> Y) (p : Y -> bool) l : filter p (map f l) = map f (filter (fun x => p (f x)) l).
Proof. induction l as [|a l IH]; cbn; [reflexivity|]. destruct (p (f a)); cbn; rewrite IH; reflexivity. Qed.

Lemma filter_none {X} (p : X -> bool) l : (forall x, In x l -> p x = false) -> filter p l = [].
Proof.
  induction l as [|a l IH]; intros H; [reflexivity|]. cbn [filter]. rewrite (H a) by (left; reflexivity).
  apply IH. intros x Hx. apply H. right. exact Hx.
Qed.

Lemma evs_keys_nodup l : NoDup (map ev_key (evs_pre [] l)).
Proof.
  apply NoDup_by_class. intros T. rewrite filter_map_comm, map_map. unfold ev_key. cbn [fst snd].
  destruct (in13 T) eqn:E.
  - change (fun x : event R => fst (fst x) =? T) with (ev_is T).
    rewrite evs_rows_index by (apply in13_cases in E; lia). apply NoDup_seqZ.
  - rewrite filter_none; [constructor|]. intros x Hx. apply evs_codes in Hx.
    apply Z.eqb_neq. intros Heq. rewrite Heq in Hx. congruence.
Qed.

Lemma evs_keys_cover l T j :
  In (T, j) (map ev_key (evs_pre [] l)) <-> 1 <= T <= 3 /\ 0 <= j < count T l.
Proof.
  split.
  - intros H. apply in_map_iff in H. destruct H as [e [Ek He]]. unfold ev_key in Ek.
    pose proof (f_equal fst Ek) as E1. pose proof (f_equal snd Ek) as E2. cbn [fst snd] in E1, E2.
    pose proof (evs_codes _ _ _ He) as Hc. rewrite E1 in Hc. apply in13_cases in Hc.
    assert (HT : 1 <= T <= 3) by lia. split; [exact HT|].
    assert (Hin : In j (map (fun e : event R => snd (fst e)) (filter (ev_is T) (evs_pre [] l)))).
    { apply in_map_iff. exists e. split; [exact E2|]. apply filter_In. split; [exact He|].
      unfold ev_is. rewrite E1. apply Z.eqb_refl. }
    rewrite evs_rows_index in Hin by exact HT. apply in_seqZ in Hin. pose proof (count_nonneg T l). lia.
  - intros [HT Hj].
    assert (Hin : In j (seqZ 0 (Z.to_nat (count T l)))) by (apply in_seqZ; lia).
    rewrite <- evs_rows_index in Hin by exact HT. apply in_map_iff in Hin. destruct Hin as [e [Ej He]].
    apply filter_In in He. destruct He as [He Hc]. unfold ev_is in Hc. apply Z.eqb_eq in Hc.
    apply in_map_iff. exists e. split; [|exact He]. unfold ev_key. rewrite Hc, Ej. reflexivity.
Qed.

Lemma in_combine_seqZ {X} (L : list X) lo n j v :
  In (j, v) (combine (seqZ lo n) L) -> lo <= j /\ nth_error L (Z.to_nat (j - lo)) = Some v.
Proof.
  revert lo L; induction n as [|n IH]; intros lo L H; [destruct H|].
  rewrite seqZ_cons in H. destruct L as [|x L]; [destruct H|]. cbn [combine] in H. destruct H as [H|H].
  - inversion H; subst. rewrite Z.sub_diag. split; [lia|reflexivity].
  - apply IH in H. destruct H as [H1 H2]. split; [lia|].
    replace (Z.to_nat (j - lo)) with (S (Z.to_nat (j - (lo + 1)))) by lia. exact H2.
Qed.

(* an event carries the row that the filter puts at its index *)
Lemma evs_value l T j v : In (T, j, v) (evs_pre [] l) -> nth_error (rows T l) (Z.to_nat j) = Some v.
Proof.
  intros H. pose proof (evs_codes _ _ _ H) as Hc. cbn [fst] in Hc. apply in13_cases in Hc.
  assert (HT : 1 <= T <= 3) by lia.
  assert (Hin : In (j, v) (map (fun e => (snd (fst e), snd e)) (filter (ev_is T) (evs_pre [] l)))).
  { apply in_map_iff. exists (T, j, v). split; [reflexivity|]. apply filter_In. split; [exact H|].
    unfold ev_is. cbn [fst]. apply Z.eqb_refl. }
  rewrite (evs_proj T [] l HT) in Hin. apply in_combine_seqZ in Hin. destruct Hin as [_ Hn].
  change (count T []) with 0 in Hn. rewrite Z.sub_0_r in Hn. exact Hn.
Qed.

End TwoPassProofs.
