(* C09/Properties.v — Galaxies follow the HOD threshold rule and inherit their host.
   Statements only; about Gen.v (regenerated from abacusnbody/hod/GRAND_HOD.py on every run) and Model.v. *)
From Coq Require Import ZArith QArith List Bool.
From Abacus.Common Require Import Arr Num.
From Abacus.C09 Require Import Gen Spec Model Lib TwoPass Chain Proofs Final.
Import ListNotations.
Local Open Scope Q_scope.

(* A halo hosts a central of tracer T (code 1 LRG, 2 ELG, 3 QSO; 0 none) exactly when its random number lies in T's slice,
   the slices being stacked in the order LRG, ELG, QSO with widths  want_T * occupation_T * ic_T * multiplicity  —
   about the threshold chain regenerated from gen_cent.  (The first slice is r <= m1: closed at 0 for r >= 0.) *)
Theorem keep_iff_slice_cent :
  forall wL wE wQ occL occE occQ icL icE icQ mult r,
  let W1 := cent_width occL icL mult in let W2 := cent_width occE icE mult in
  let W3 := cent_width occQ icQ mult in
  0 <= b2q wE * W2 -> 0 <= b2q wQ * W3 ->
  forall T, cent_keep wL wE wQ occL occE occQ icL icE icQ mult r = T <->
            in_slice T (mk1 wL W1) (mk2 wL wE W1 W2) (mk3 wL wE wQ W1 W2 W3) r.
Proof. exact keep_iff_slice_cent_lemma. Qed.
Print Assumptions keep_iff_slice_cent.

(* The same for a subsample particle and a satellite: widths  want_T * occupation_T * particle weight * ic_T * rank decoration,
   the ELG occupation chosen by the central its halo hosts (conformity) — about the chain regenerated from gen_sats. *)
Theorem keep_iff_slice_sat :
  forall wL wE wQ er kc occL occE0 occE1 occE2 occQ icL icE icQ w r rk rkv rkp rkr sL svL spL srL sE svE spE srE sQ svQ spQ srQ,
  let WL := sat_width occL w icL (decoration er sL svL spL srL rk rkv rkp rkr) in
  let WE := sat_width (conformity_occ kc occE0 occE1 occE2) w icE (decoration er sE svE spE srE rk rkv rkp rkr) in
  let WQ := sat_width occQ w icQ (decoration er sQ svQ spQ srQ rk rkv rkp rkr) in
  0 <= b2q wE * WE -> 0 <= b2q wQ * WQ ->
  forall T, sat_keep wL wE wQ er kc occL occE0 occE1 occE2 occQ icL icE icQ w r rk rkv rkp rkr sL svL spL srL sE svE spE srE sQ svQ spQ srQ = T <->
            in_slice T (mk1 wL WL) (mk2 wL wE WL WE) (mk3 wL wE wQ WL WE WQ) r.
Proof. exact keep_iff_slice_sat_lemma. Qed.
Print Assumptions keep_iff_slice_sat.

(* The markers are stacked: each tracer adds exactly its own width, and nothing when it is not requested. *)
Theorem marker_increments :
  forall w1 w2 w3 W1 W2 W3,
  mk1 w1 W1 == b2q w1 * W1 /\ mk2 w1 w2 W1 W2 - mk1 w1 W1 == b2q w2 * W2 /\
  mk3 w1 w2 w3 W1 W2 W3 - mk2 w1 w2 W1 W2 == b2q w3 * W3 /\ b2q false == 0 /\ b2q true == 1.
Proof. exact marker_increments_lemma. Qed.
Print Assumptions marker_increments.

(* A host carries at most one galaxy: the slices are pairwise disjoint, and the chains return one code in 0..3. *)
Theorem at_most_one :
  (forall m1 m2 m3 r T T', m1 <= m2 -> m2 <= m3 -> in_slice T m1 m2 m3 r -> in_slice T' m1 m2 m3 r -> T = T') /\
  (forall wL wE wQ occL occE occQ icL icE icQ mult r, (0 <= cent_keep wL wE wQ occL occE occQ icL icE icQ mult r <= 3)%Z) /\
  (forall wL wE wQ er kc occL occE0 occE1 occE2 occQ icL icE icQ w r rk rkv rkp rkr sL svL spL srL sE svE spE srE sQ svQ spQ srQ, (0 <= sat_keep wL wE wQ er kc occL occE0 occE1 occE2 occQ icL icE icQ w r rk rkv rkp rkr sL svL spL srL sE svE spE srE sQ svQ spQ srQ <= 3)%Z).
Proof. exact at_most_one_lemma. Qed.
Print Assumptions at_most_one.

(* Enabling (or changing any parameter of) a later tracer never changes an earlier tracer's selection: the LRG selection
   does not depend on anything of ELG and QSO, the ELG selection on nothing of QSO. *)
Theorem later_tracer_irrelevant_cent :
  forall wL wE wQ occL occE occQ icL icE icQ mult r wE' wQ' occE' occQ' icE' icQ',
  (cent_keep wL wE wQ occL occE occQ icL icE icQ mult r = 1%Z <-> cent_keep wL wE' wQ' occL occE' occQ' icL icE' icQ' mult r = 1%Z) /\
  (cent_keep wL wE wQ occL occE occQ icL icE icQ mult r = 2%Z <-> cent_keep wL wE wQ' occL occE occQ' icL icE icQ' mult r = 2%Z).
Proof. exact later_tracer_irrelevant_cent_lemma. Qed.
Print Assumptions later_tracer_irrelevant_cent.

(* The same for satellites. *)
Theorem later_tracer_irrelevant_sat :
  forall wL wE wQ er kc occL occE0 occE1 occE2 occQ icL icE icQ w r rk rkv rkp rkr sL svL spL srL sE svE spE srE sQ svQ spQ srQ
         wE' wQ' occE0' occE1' occE2' occQ' icE' icQ' sE' svE' spE' srE' sQ' svQ' spQ' srQ',
  (sat_keep wL wE wQ er kc occL occE0 occE1 occE2 occQ icL icE icQ w r rk rkv rkp rkr sL svL spL srL sE svE spE srE sQ svQ spQ srQ = 1%Z <-> sat_keep wL wE' wQ' er kc occL occE0' occE1' occE2' occQ' icL icE' icQ' w r rk rkv rkp rkr sL svL spL srL sE' svE' spE' srE' sQ' svQ' spQ' srQ' = 1%Z) /\
  (sat_keep wL wE wQ er kc occL occE0 occE1 occE2 occQ icL icE icQ w r rk rkv rkp rkr sL svL spL srL sE svE spE srE sQ svQ spQ srQ = 2%Z <-> sat_keep wL wE wQ' er kc occL occE0 occE1 occE2 occQ' icL icE icQ' w r rk rkv rkp rkr sL svL spL srL sE svE spE srE sQ' svQ' spQ' srQ' = 2%Z).
Proof. exact later_tracer_irrelevant_sat_lemma. Qed.
Print Assumptions later_tracer_irrelevant_sat.

(* Selections are nested as incompleteness grows, tracer by tracer: raising ic_T (everything before T unchanged, anything
   after T arbitrary) keeps every central of tracer T selected.  For the first tracer this holds whatever else changes. *)
Theorem nested_in_ic_own_cent :
  forall wL wE wQ occL occE occQ icL icE icQ mult r icL' icE' icQ' wE' wQ' occE' occQ' icE'' icQ'',
  (0 <= occL * mult -> icL <= icL' ->
     cent_keep wL wE wQ occL occE occQ icL icE icQ mult r = 1%Z -> cent_keep wL wE' wQ' occL occE' occQ' icL' icE'' icQ'' mult r = 1%Z) /\
  (0 <= occE * mult -> icE <= icE' ->
     cent_keep wL wE wQ occL occE occQ icL icE icQ mult r = 2%Z -> cent_keep wL wE wQ' occL occE occQ' icL icE' icQ'' mult r = 2%Z) /\
  (0 <= occQ * mult -> icQ <= icQ' ->
     cent_keep wL wE wQ occL occE occQ icL icE icQ mult r = 3%Z -> cent_keep wL wE wQ occL occE occQ icL icE icQ' mult r = 3%Z).
Proof. exact nested_in_ic_own_cent_lemma. Qed.
Print Assumptions nested_in_ic_own_cent.

(* The same for satellites (the decorated weight occ * weight * decoration must be non-negative). *)
Theorem nested_in_ic_own_sat :
  forall wL wE wQ er kc occL occE0 occE1 occE2 occQ icL icE icQ w r rk rkv rkp rkr sL svL spL srL sE svE spE srE sQ svQ spQ srQ icL' icE' icQ',
  (0 <= occL * w * decoration er sL svL spL srL rk rkv rkp rkr -> icL <= icL' ->
     sat_keep wL wE wQ er kc occL occE0 occE1 occE2 occQ icL icE icQ w r rk rkv rkp rkr sL svL spL srL sE svE spE srE sQ svQ spQ srQ = 1%Z ->
     sat_keep wL wE wQ er kc occL occE0 occE1 occE2 occQ icL' icE icQ w r rk rkv rkp rkr sL svL spL srL sE svE spE srE sQ svQ spQ srQ = 1%Z) /\
  (0 <= conformity_occ kc occE0 occE1 occE2 * w * decoration er sE svE spE srE rk rkv rkp rkr -> icE <= icE' ->
     sat_keep wL wE wQ er kc occL occE0 occE1 occE2 occQ icL icE icQ w r rk rkv rkp rkr sL svL spL srL sE svE spE srE sQ svQ spQ srQ = 2%Z ->
     sat_keep wL wE wQ er kc occL occE0 occE1 occE2 occQ icL icE' icQ w r rk rkv rkp rkr sL svL spL srL sE svE spE srE sQ svQ spQ srQ = 2%Z) /\
  (0 <= occQ * w * decoration er sQ svQ spQ srQ rk rkv rkp rkr -> icQ <= icQ' ->
     sat_keep wL wE wQ er kc occL occE0 occE1 occE2 occQ icL icE icQ w r rk rkv rkp rkr sL svL spL srL sE svE spE srE sQ svQ spQ srQ = 3%Z ->
     sat_keep wL wE wQ er kc occL occE0 occE1 occE2 occQ icL icE icQ' w r rk rkv rkp rkr sL svL spL srL sE svE spE srE sQ svQ spQ srQ = 3%Z).
Proof. exact nested_in_ic_own_sat_lemma. Qed.
Print Assumptions nested_in_ic_own_sat.

(* ... and in aggregate: when every ic grows (non-negative occupations and ic), a halo kept by one of the first k tracers
   stays kept by one of the first k tracers, k = 1, 2, 3. *)
Theorem nested_in_ic_aggregate_cent :
  forall wL wE wQ occL occE occQ icL icE icQ mult r icL' icE' icQ',
  0 <= occL * mult -> 0 <= occE * mult -> 0 <= occQ * mult -> 0 <= icL -> 0 <= icE -> 0 <= icQ ->
  icL <= icL' -> icE <= icE' -> icQ <= icQ' ->
  let k := cent_keep wL wE wQ occL occE occQ icL icE icQ mult r in
  let k' := cent_keep wL wE wQ occL occE occQ icL' icE' icQ' mult r in
  (k = 1 -> k' = 1)%Z /\ (k = 1 \/ k = 2 -> k' = 1 \/ k' = 2)%Z /\ (k <> 0 -> k' <> 0)%Z.
Proof. exact nested_in_ic_aggregate_cent_lemma. Qed.
Print Assumptions nested_in_ic_aggregate_cent.

(* What does NOT hold (a note on the property text, not a defect): raising the incompleteness factor of an EARLIER tracer
   moves the later tracers' slices, so a later tracer's selection is not nested in that direction. *)
Theorem nested_in_ic_not_across_tracers :
  exists occL occE occQ icL icL' icE icQ mult r,
  0 <= occL * mult /\ icL <= icL' /\
  cent_keep true true true occL occE occQ icL icE icQ mult r = 2%Z /\
  cent_keep true true true occL occE occQ icL' icE icQ mult r = 1%Z.
Proof. exact nested_in_ic_not_across_tracers_lemma. Qed.
Print Assumptions nested_in_ic_not_across_tracers.

(* Every central carries its halo's mass and id, the halo velocity plus alpha_c times the stored deviate, and (without RSD)
   the halo position — about the fill expressions regenerated from gen_cent, for each of the three tracers. *)
Theorem fill_inherits_host_cent :
  forall sqrtf T p0 p1 p2 v0 v1 v2 d0 d1 d2 mass ident alpha rsd ho o0 o1 o2 inv lbox,
  let r := cent_fill sqrtf T p0 p1 p2 v0 v1 v2 d0 d1 d2 mass ident alpha rsd ho o0 o1 o2 inv lbox in
  r_mass r = mass /\ r_id r = ident /\
  r_vx r = cent_vel v0 alpha d0 /\ r_vy r = cent_vel v1 alpha d1 /\ r_vz r = cent_vel v2 alpha d2 /\
  (rsd = false -> r_x r = p0 /\ r_y r = p1 /\ r_z r = p2).
Proof. exact fill_inherits_host_cent_lemma. Qed.
Print Assumptions fill_inherits_host_cent.

(* Every satellite carries its host halo's mass and id (the particle's phmass / phid), the velocity
   v_halo + alpha_s (v_particle - v_halo), and (without RSD) the particle position.  (d0 d1 d2 = host halo velocity.) *)
Theorem fill_inherits_host_sat :
  forall sqrtf T p0 p1 p2 v0 v1 v2 d0 d1 d2 mass ident alpha rsd ho o0 o1 o2 inv lbox,
  let r := sat_fill sqrtf T p0 p1 p2 v0 v1 v2 d0 d1 d2 mass ident alpha rsd ho o0 o1 o2 inv lbox in
  r_mass r = mass /\ r_id r = ident /\
  r_vx r = sat_vel d0 alpha v0 /\ r_vy r = sat_vel d1 alpha v1 /\ r_vz r = sat_vel d2 alpha v2 /\
  (rsd = false -> r_x r = p0 /\ r_y r = p1 /\ r_z r = p2).
Proof. exact fill_inherits_host_sat_lemma. Qed.
Print Assumptions fill_inherits_host_sat.

(* Box observer (origin None), RSD on: x and y are untouched; z becomes wrap(z + v_z / velz2kms, L) with v_z the biased
   velocity, and the wrapped value lies in [-L/2, L/2) whenever the unwrapped one is within one box of that range. *)
Theorem rsd_moves_only_los_box :
  forall sqrtf T p0 p1 p2 v0 v1 v2 d0 d1 d2 mass ident alpha o0 o1 o2 inv lbox velz2kms,
  ~ velz2kms == 0 -> inv = 1 / velz2kms ->
  let rc := cent_fill sqrtf T p0 p1 p2 v0 v1 v2 d0 d1 d2 mass ident alpha true false o0 o1 o2 inv lbox in
  let rs := sat_fill sqrtf T p0 p1 p2 v0 v1 v2 d0 d1 d2 mass ident alpha true false o0 o1 o2 inv lbox in
  let uc := p2 + cent_vel v2 alpha d2 / velz2kms in
  let us := p2 + sat_vel d2 alpha v2 / velz2kms in
  (r_x rc = p0 /\ r_y rc = p1 /\ r_z rc == wrap uc lbox) /\
  (r_x rs = p0 /\ r_y rs = p1 /\ r_z rs == wrap us lbox) /\
  (forall u, (wrap u lbox == u \/ wrap u lbox == u - lbox \/ wrap u lbox == u + lbox) /\
             (0 < lbox -> - (lbox / 2) - lbox <= u -> u < lbox / 2 + lbox -> in_box lbox (wrap u lbox))).
Proof. exact rsd_moves_only_los_box_lemma. Qed.
Print Assumptions rsd_moves_only_los_box.

(* Light cone (origin given), RSD on: the galaxy is displaced along n = (pos - origin) / sqrtf|pos - origin|^2 by
   (v . n) / velz2kms (v the biased velocity), i.e. parallel to the line of sight; n is the unit line-of-sight vector
   as soon as sqrtf returns a square root (np.sqrt itself is not modelled). *)
Theorem rsd_moves_only_los_cone :
  forall sqrtf T p0 p1 p2 v0 v1 v2 d0 d1 d2 mass ident alpha o0 o1 o2 inv lbox,
  let rc := cent_fill sqrtf T p0 p1 p2 v0 v1 v2 d0 d1 d2 mass ident alpha true true o0 o1 o2 inv lbox in
  let rs := sat_fill sqrtf T p0 p1 p2 v0 v1 v2 d0 d1 d2 mass ident alpha true true o0 o1 o2 inv lbox in
  let s := (p0 - o0) * (p0 - o0) + (p1 - o1) * (p1 - o1) + (p2 - o2) * (p2 - o2) in
  let n0 := (p0 - o0) * (1 / sqrtf s) in let n1 := (p1 - o1) * (1 / sqrtf s) in let n2 := (p2 - o2) * (1 / sqrtf s) in
  let vc := cent_vel v0 alpha d0 * n0 + cent_vel v1 alpha d1 * n1 + cent_vel v2 alpha d2 * n2 in
  let vs := sat_vel d0 alpha v0 * n0 + sat_vel d1 alpha v1 * n1 + sat_vel d2 alpha v2 * n2 in
  (r_x rc = p0 + inv * vc * n0 /\ r_y rc = p1 + inv * vc * n1 /\ r_z rc = p2 + inv * vc * n2) /\
  (r_x rs = p0 + inv * vs * n0 /\ r_y rs = p1 + inv * vs * n1 /\ r_z rs = p2 + inv * vs * n2) /\
  (sqrtf s * sqrtf s == s -> ~ sqrtf s == 0 ->
     n0 * n0 + n1 * n1 + n2 * n2 == 1 /\
     n0 * sqrtf s == p0 - o0 /\ n1 * sqrtf s == p1 - o1 /\ n2 * sqrtf s == p2 - o2).
Proof. exact rsd_moves_only_los_cone_lemma. Qed.
Print Assumptions rsd_moves_only_los_cone.

(* gen_gals (for every thread count and block table): the catalogue of tracer T is the centrals of T (halos with code T, in halo
   order, filled) followed by the satellites of T (particles with code T given the central code of their halo, in particle
   order), and Ncent is the number of centrals — so the first Ncent rows are exactly the centrals. *)
Theorem centrals_first_ncent :
  forall (H P R : Type) (hcode : H -> Z) (hfill : Z -> H -> R) (pind : P -> Z) (pcode : Z -> P -> Z) (pfill : Z -> P -> R)
         Nthread hh hp halos parts,
  good_hstart Nthread hh (len halos) -> good_hstart Nthread hp (len parts) ->
  (forall p, In p parts -> (- len halos <= pind p < len halos)%Z) ->
  exists kp, gather P pind (map hcode halos) parts = Ok kp /\ map snd kp = parts /\
    let cents T := map Some (rows H R hcode hfill T halos) in
    let sats T := map Some (rows (Z * P) R (pc P pcode) (pf P R pfill) T kp) in
    let cat T := (len (cents T), cents T ++ sats T) in
    gen_gals H P R hcode hfill pind pcode pfill Nthread hh hp halos parts = Ok (cat 1%Z, cat 2%Z, cat 3%Z) /\
    forall T, firstn (Z.to_nat (fst (cat T))) (snd (cat T)) = cents T /\
              skipn (Z.to_nat (fst (cat T))) (snd (cat T)) = sats T.
Proof. exact centrals_first_ncent_lemma. Qed.
Print Assumptions centrals_first_ncent.

