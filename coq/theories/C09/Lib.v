(* C09/Lib.v — list lemmas shared by the two-pass proofs (C09, C10): arrays filled as a growing prefix,
   integer ranges, counting. *)
From Coq Require Import ZArith List Bool Lia FinFun.
From Abacus.Common Require Import Arr.
Import ListNotations.
Local Open Scope Z_scope.

(* an np.empty array whose first k cells have been written with the first k elements of L *)
Definition parr {X} (L : list X) (k : Z) : list (option X) :=
  map Some (firstn (Z.to_nat k) L) ++ repeat None (length L - Z.to_nat k).

Definition zrange (n : nat) : list Z := map Z.of_nat (seq 0 n).
Definition seqZ (lo : Z) (n : nat) : list Z := map (fun k => lo + Z.of_nat k) (seq 0 n).

Lemma firstn_succ {X} (L : list X) n x : nth_error L n = Some x -> firstn (S n) L = firstn n L ++ [x].
Proof.
  revert n; induction L as [|a L IH]; intros [|n] H; cbn in *; try discriminate.
  - inversion H; reflexivity.
  - f_equal. apply IH. exact H.
Qed.

Lemma len_repeat {X} (x : X) n : len (repeat x n) = Z.of_nat n.
Proof. unfold len. rewrite repeat_length. reflexivity. Qed.

Lemma len_map {X Y} (f : X -> Y) l : len (map f l) = len l.
Proof. unfold len. rewrite map_length. reflexivity. Qed.

Lemma len_firstn {X} (l : list X) k : 0 <= k <= len l -> len (firstn (Z.to_nat k) l) = k.
Proof. intros H. unfold len in *. rewrite firstn_length. lia. Qed.

Lemma parr_len {X} (L : list X) k : 0 <= k <= len L -> len (parr L k) = len L.
Proof.
  intros H. unfold parr. rewrite len_app, len_map, len_repeat, len_firstn by exact H. unfold len in *. lia.
Qed.

Lemma parr_0 {X} (L : list X) : parr L 0 = repeat None (length L).
Proof. unfold parr. cbn. rewrite Nat.sub_0_r. reflexivity. Qed.

Lemma parr_full {X} (L : list X) : parr L (len L) = map Some L.
Proof.
  unfold parr, len. rewrite Nat2Z.id, firstn_all, Nat.sub_diag. cbn. apply app_nil_r.
Qed.

Lemma parr_set {X} (L : list X) k x :
  0 <= k < len L -> nth_error L (Z.to_nat k) = Some x -> set (parr L k) k (Some x) = Ok (parr L (k + 1)).
Proof.
  intros Hk Hx. rewrite set_ok by (rewrite parr_len; lia). f_equal. unfold parr.
  assert (Hl : length (map Some (firstn (Z.to_nat k) L)) = Z.to_nat k).
  { rewrite map_length, firstn_length. unfold len in Hk. lia. }
  rewrite set_nth_app_r by lia. rewrite Hl, Nat.sub_diag.
  replace (Z.to_nat (k + 1)) with (S (Z.to_nat k)) by lia.
  rewrite (firstn_succ L _ x Hx), map_app, <- app_assoc. f_equal.
  destruct (length L - Z.to_nat k)%nat as [|m] eqn:E; [unfold len in Hk; lia|].
  replace (length L - S (Z.to_nat k))%nat with m by lia. reflexivity.
Qed.

Lemma get_nth_error {X} (l : list X) i :
  0 <= i < len l -> exists x, get l i = Ok x /\ nth_error l (Z.to_nat i) = Some x.
Proof.
  intros H. unfold get. rewrite norm_idx_pos by exact H.
  destruct (nth_error l (Z.to_nat i)) as [x|] eqn:E.
  - exists x. split; reflexivity.
  - apply nth_error_None in E. unfold len in H. lia.
Qed.

Lemma get_last {X} (l : list X) x : get (l ++ [x]) (-1) = Ok x.
Proof.
  unfold get. rewrite norm_idx_neg by (rewrite len_app; unfold len; cbn [length]; lia).
  rewrite len_app. replace (Z.to_nat (-1 + (len l + len [x]))) with (length l) by (unfold len; cbn [length]; lia).
  rewrite nth_error_app2 by lia. rewrite Nat.sub_diag. reflexivity.
Qed.

Lemma zrange_S n : zrange (S n) = zrange n ++ [Z.of_nat n].
Proof. unfold zrange. rewrite seq_S, map_app. reflexivity. Qed.

Lemma zrange_length n : length (zrange n) = n.
Proof. unfold zrange. rewrite map_length, seq_length. reflexivity. Qed.

Lemma nth_error_zrange n k : (k < n)%nat -> nth_error (zrange n) k = Some (Z.of_nat k).
Proof.
  intros H. unfold zrange. rewrite nth_error_map, nth_error_nth' with (d := O) by (rewrite seq_length; lia).
  rewrite seq_nth by lia. reflexivity.
Qed.

Lemma seqZ_S lo n : seqZ lo (S n) = seqZ lo n ++ [lo + Z.of_nat n].
Proof. unfold seqZ. rewrite seq_S, map_app. reflexivity. Qed.

Lemma seqZ_cons lo n : seqZ lo (S n) = lo :: seqZ (lo + 1) n.
Proof.
  unfold seqZ. cbn [seq map]. f_equal; [lia|]. rewrite <- seq_shift, map_map. apply map_ext. intros k. lia.
Qed.

Lemma seqZ_app lo n m : seqZ lo (n + m) = seqZ lo n ++ seqZ (lo + Z.of_nat n) m.
Proof.
  revert lo; induction n as [|n IH]; intros lo.
  - cbn. replace (lo + 0) with lo by lia. reflexivity.
  - replace (S n + m)%nat with (S (n + m)) by lia. rewrite !seqZ_cons, IH. cbn [app]. do 3 f_equal. lia.
Qed.

Lemma seqZ_0 n : seqZ 0 n = zrange n.
Proof. unfold seqZ, zrange. apply map_ext. intros; lia. Qed.

Lemma in_seqZ lo n x : In x (seqZ lo n) <-> lo <= x < lo + Z.of_nat n.
Proof.
  unfold seqZ. rewrite in_map_iff. split.
  - intros [k [E Hk]]. apply in_seq in Hk. lia.
  - intros H. exists (Z.to_nat (x - lo)). split; [lia|]. apply in_seq. lia.
Qed.

Lemma NoDup_seqZ lo n : NoDup (seqZ lo n).
Proof.
  unfold seqZ. apply Injective_map_NoDup; [|apply seq_NoDup]. intros a b H. lia.
Qed.

(* sub-list [a, b) as used for thread blocks *)
Definition pre {X} (l : list X) (k : Z) : list X := firstn (Z.to_nat k) l.
Definition blk {X} (l : list X) (a b : Z) : list X := firstn (Z.to_nat (b - a)) (skipn (Z.to_nat a) l).

Lemma pre_split {X} (l : list X) a b : 0 <= a <= b -> pre l b = pre l a ++ blk l a b.
Proof.
  intros H. unfold pre, blk. replace (Z.to_nat b) with (Z.to_nat a + Z.to_nat (b - a))%nat by lia.
  rewrite <- (firstn_skipn (Z.to_nat a) l) at 1.
  rewrite firstn_app. rewrite firstn_firstn. rewrite firstn_length.
  destruct (Nat.le_gt_cases (Z.to_nat a) (length l)) as [Hle|Hgt].
  - replace (Init.Nat.min (Z.to_nat a + Z.to_nat (b - a)) (Z.to_nat a)) with (Z.to_nat a) by lia.
    replace (Z.to_nat a + Z.to_nat (b - a) - Init.Nat.min (Z.to_nat a) (length l))%nat with (Z.to_nat (b - a)) by lia.
    reflexivity.
  - rewrite (skipn_all2 l) by lia. rewrite !firstn_nil, !app_nil_r.
    rewrite !firstn_all2 by lia. reflexivity.
Qed.

Lemma blk_same {X} (l : list X) a : blk l a a = [].
Proof. unfold blk. rewrite Z.sub_diag. reflexivity. Qed.

Lemma nth_error_skipn' {X} (l : list X) a n : nth_error (skipn a l) n = nth_error l (a + n).
Proof.
  revert l; induction a as [|a IH]; intros l; [reflexivity|]. destruct l as [|h t]; cbn [skipn plus nth_error].
  - destruct n; reflexivity.
  - apply IH.
Qed.

Lemma blk_succ {X} (l : list X) a i x :
  0 <= a <= i -> nth_error l (Z.to_nat i) = Some x -> blk l a (i + 1) = blk l a i ++ [x].
Proof.
  intros H Hx. unfold blk. replace (Z.to_nat (i + 1 - a)) with (S (Z.to_nat (i - a))) by lia.
  apply firstn_succ. rewrite nth_error_skipn'. replace (Z.to_nat a + Z.to_nat (i - a))%nat with (Z.to_nat i) by lia.
  exact Hx.
Qed.

Lemma pre_succ {X} (l : list X) i x : 0 <= i -> nth_error l (Z.to_nat i) = Some x -> pre l (i + 1) = pre l i ++ [x].
Proof. intros H Hx. unfold pre. replace (Z.to_nat (i + 1)) with (S (Z.to_nat i)) by lia. apply firstn_succ; exact Hx. Qed.

Lemma pre_0 {X} (l : list X) : pre l 0 = [].
Proof. reflexivity. Qed.

Lemma pre_all {X} (l : list X) : pre l (len l) = l.
Proof. unfold pre, len. rewrite Nat2Z.id. apply firstn_all. Qed.

Lemma set_nth_twice {X} (l : list X) k a b : set_nth (set_nth l k a) k b = set_nth l k b.
Proof. revert k; induction l as [|h t IH]; intros [|k]; cbn; try reflexivity. f_equal. apply IH. Qed.

Lemma set_nth_same {X} (l : list X) k d : (k < length l)%nat -> set_nth l k (nth k l d) = l.
Proof. revert k; induction l as [|h t IH]; intros [|k] H; cbn in *; try lia; try reflexivity. f_equal. apply IH. lia. Qed.

Lemma upd_ok {X} (l : list X) i f d :
  0 <= i < len l -> upd l i f = Ok (set_nth l (Z.to_nat i) (f (nth (Z.to_nat i) l d))).
Proof.
  intros H. unfold upd. rewrite (get_ok_nth l i d H). cbn [bind]. apply set_ok. exact H.
Qed.
