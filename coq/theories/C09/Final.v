(* C09/Final.v — the lemmas carrying the exact statements of Properties.v. *)
From Coq Require Import ZArith QArith Qround Qabs Qminmax List Bool Lia Lqa.
From Abacus.Common Require Import Arr Num.
From Abacus.C09 Require Import Gen Spec Model Lib TwoPass Chain Proofs.
Import ListNotations.
Local Open Scope Q_scope.

Lemma keep_iff_slice_cent_lemma :
  forall wL wE wQ occL occE occQ icL icE icQ mult r,
  let W1 := cent_width occL icL mult in let W2 := cent_width occE icE mult in
  let W3 := cent_width occQ icQ mult in
  0 <= b2q wE * W2 -> 0 <= b2q wQ * W3 ->
  forall T, cent_keep wL wE wQ occL occE occQ icL icE icQ mult r = T <->
            in_slice T (mk1 wL W1) (mk2 wL wE W1 W2) (mk3 wL wE wQ W1 W2 W3) r.
Proof.
  intros. rewrite cent_keep_chain. apply chain3_slice; unfold mk3, mk2; subst W1 W2 W3; lra.
Qed.

Lemma keep_iff_slice_sat_lemma :
  forall wL wE wQ er kc occL occE0 occE1 occE2 occQ icL icE icQ w r rk rkv rkp rkr sL svL spL srL sE svE spE srE sQ svQ spQ srQ,
  let WL := sat_width occL w icL (decoration er sL svL spL srL rk rkv rkp rkr) in
  let WE := sat_width (conformity_occ kc occE0 occE1 occE2) w icE (decoration er sE svE spE srE rk rkv rkp rkr) in
  let WQ := sat_width occQ w icQ (decoration er sQ svQ spQ srQ rk rkv rkp rkr) in
  0 <= b2q wE * WE -> 0 <= b2q wQ * WQ ->
  forall T, sat_keep wL wE wQ er kc occL occE0 occE1 occE2 occQ icL icE icQ w r rk rkv rkp rkr sL svL spL srL sE svE spE srE sQ svQ spQ srQ = T <->
            in_slice T (mk1 wL WL) (mk2 wL wE WL WE) (mk3 wL wE wQ WL WE WQ) r.
Proof.
  intros. rewrite sat_keep_chain. apply chain3_slice; unfold mk3, mk2; subst WL WE WQ; lra.
Qed.

Lemma marker_increments_lemma :
  forall w1 w2 w3 W1 W2 W3,
  mk1 w1 W1 == b2q w1 * W1 /\ mk2 w1 w2 W1 W2 - mk1 w1 W1 == b2q w2 * W2 /\
  mk3 w1 w2 w3 W1 W2 W3 - mk2 w1 w2 W1 W2 == b2q w3 * W3 /\ b2q false == 0 /\ b2q true == 1.
Proof.
  intros. unfold mk3, mk2, mk1, b2q. split; [|split; [|split; [|split]]]; ring.
Qed.

Lemma at_most_one_lemma :
  (forall m1 m2 m3 r T T', m1 <= m2 -> m2 <= m3 -> in_slice T m1 m2 m3 r -> in_slice T' m1 m2 m3 r -> T = T') /\
  (forall wL wE wQ occL occE occQ icL icE icQ mult r, (0 <= cent_keep wL wE wQ occL occE occQ icL icE icQ mult r <= 3)%Z) /\
  (forall wL wE wQ er kc occL occE0 occE1 occE2 occQ icL icE icQ w r rk rkv rkp rkr sL svL spL srL sE svE spE srE sQ svQ spQ srQ, (0 <= sat_keep wL wE wQ er kc occL occE0 occE1 occE2 occQ icL icE icQ w r rk rkv rkp rkr sL svL spL srL sE svE spE srE sQ svQ spQ srQ <= 3)%Z).
Proof.
  split; [intros m1 m2 m3 r T T' H12 H23 A B; exact (slices_disjoint r m1 m2 m3 T T' H12 H23 A B)|]. split; intros.
  - rewrite cent_keep_chain. apply chain3_range.
  - rewrite sat_keep_chain. apply chain3_range.
Qed.

Lemma later_tracer_irrelevant_cent_lemma :
  forall wL wE wQ occL occE occQ icL icE icQ mult r wE' wQ' occE' occQ' icE' icQ',
  (cent_keep wL wE wQ occL occE occQ icL icE icQ mult r = 1%Z <-> cent_keep wL wE' wQ' occL occE' occQ' icL icE' icQ' mult r = 1%Z) /\
  (cent_keep wL wE wQ occL occE occQ icL icE icQ mult r = 2%Z <-> cent_keep wL wE wQ' occL occE occQ' icL icE icQ' mult r = 2%Z).
Proof.
  intros. rewrite !cent_keep_chain. split; [apply chain3_first_indep|apply chain3_second_indep].
Qed.

Lemma later_tracer_irrelevant_sat_lemma :
  forall wL wE wQ er kc occL occE0 occE1 occE2 occQ icL icE icQ w r rk rkv rkp rkr sL svL spL srL sE svE spE srE sQ svQ spQ srQ
         wE' wQ' occE0' occE1' occE2' occQ' icE' icQ' sE' svE' spE' srE' sQ' svQ' spQ' srQ',
  (sat_keep wL wE wQ er kc occL occE0 occE1 occE2 occQ icL icE icQ w r rk rkv rkp rkr sL svL spL srL sE svE spE srE sQ svQ spQ srQ = 1%Z <-> sat_keep wL wE' wQ' er kc occL occE0' occE1' occE2' occQ' icL icE' icQ' w r rk rkv rkp rkr sL svL spL srL sE' svE' spE' srE' sQ' svQ' spQ' srQ' = 1%Z) /\
  (sat_keep wL wE wQ er kc occL occE0 occE1 occE2 occQ icL icE icQ w r rk rkv rkp rkr sL svL spL srL sE svE spE srE sQ svQ spQ srQ = 2%Z <-> sat_keep wL wE wQ' er kc occL occE0 occE1 occE2 occQ' icL icE icQ' w r rk rkv rkp rkr sL svL spL srL sE svE spE srE sQ' svQ' spQ' srQ' = 2%Z).
Proof.
  intros. rewrite !sat_keep_chain. cbv zeta. split; [apply chain3_first_indep|apply chain3_second_indep].
Qed.

Lemma nested_in_ic_own_cent_lemma :
  forall wL wE wQ occL occE occQ icL icE icQ mult r icL' icE' icQ' wE' wQ' occE' occQ' icE'' icQ'',
  (0 <= occL * mult -> icL <= icL' ->
     cent_keep wL wE wQ occL occE occQ icL icE icQ mult r = 1%Z -> cent_keep wL wE' wQ' occL occE' occQ' icL' icE'' icQ'' mult r = 1%Z) /\
  (0 <= occE * mult -> icE <= icE' ->
     cent_keep wL wE wQ occL occE occQ icL icE icQ mult r = 2%Z -> cent_keep wL wE wQ' occL occE occQ' icL icE' icQ'' mult r = 2%Z) /\
  (0 <= occQ * mult -> icQ <= icQ' ->
     cent_keep wL wE wQ occL occE occQ icL icE icQ mult r = 3%Z -> cent_keep wL wE wQ occL occE occQ icL icE icQ' mult r = 3%Z).
Proof.
  intros. rewrite !cent_keep_chain. split; [|split]; intros H0 Hic.
  - apply chain3_nested_1. unfold mk1. apply mk_mono, cent_width_mono; assumption.
  - apply chain3_nested_2. unfold mk2. apply Qplus_le_r, mk_mono, cent_width_mono; assumption.
  - apply chain3_nested_3. unfold mk3. apply Qplus_le_r, mk_mono, cent_width_mono; assumption.
Qed.

Lemma nested_in_ic_own_sat_lemma :
  forall wL wE wQ er kc occL occE0 occE1 occE2 occQ icL icE icQ w r rk rkv rkp rkr sL svL spL srL sE svE spE srE sQ svQ spQ srQ icL' icE' icQ',
  (0 <= occL * w * decoration er sL svL spL srL rk rkv rkp rkr -> icL <= icL' ->
     sat_keep wL wE wQ er kc occL occE0 occE1 occE2 occQ icL icE icQ w r rk rkv rkp rkr sL svL spL srL sE svE spE srE sQ svQ spQ srQ = 1%Z ->
     sat_keep wL wE wQ er kc occL occE0 occE1 occE2 occQ icL' icE icQ w r rk rkv rkp rkr sL svL spL srL sE svE spE srE sQ svQ spQ srQ = 1%Z) /\
  (0 <= conformity_occ kc occE0 occE1 occE2 * w * decoration er sE svE spE srE rk rkv rkp rkr -> icE <= icE' ->
     sat_keep wL wE wQ er kc occL occE0 occE1 occE2 occQ icL icE icQ w r rk rkv rkp rkr sL svL spL srL sE svE spE srE sQ svQ spQ srQ = 2%Z ->
     sat_keep wL wE wQ er kc occL occE0 occE1 occE2 occQ icL icE' icQ w r rk rkv rkp rkr sL svL spL srL sE svE spE srE sQ svQ spQ srQ = 2%Z) /\
  (0 <= occQ * w * decoration er sQ svQ spQ srQ rk rkv rkp rkr -> icQ <= icQ' ->
     sat_keep wL wE wQ er kc occL occE0 occE1 occE2 occQ icL icE icQ w r rk rkv rkp rkr sL svL spL srL sE svE spE srE sQ svQ spQ srQ = 3%Z ->
     sat_keep wL wE wQ er kc occL occE0 occE1 occE2 occQ icL icE icQ' w r rk rkv rkp rkr sL svL spL srL sE svE spE srE sQ svQ spQ srQ = 3%Z).
Proof.
  intros. rewrite !sat_keep_chain. cbv zeta. split; [|split]; intros H0 Hic.
  - apply chain3_nested_1. unfold mk1. apply mk_mono, sat_width_mono; assumption.
  - apply chain3_nested_2. unfold mk2. apply Qplus_le_r, mk_mono, sat_width_mono; assumption.
  - apply chain3_nested_3. unfold mk3. apply Qplus_le_r, mk_mono, sat_width_mono; assumption.
Qed.

Lemma nested_in_ic_aggregate_cent_lemma :
  forall wL wE wQ occL occE occQ icL icE icQ mult r icL' icE' icQ',
  0 <= occL * mult -> 0 <= occE * mult -> 0 <= occQ * mult -> 0 <= icL -> 0 <= icE -> 0 <= icQ ->
  icL <= icL' -> icE <= icE' -> icQ <= icQ' ->
  let k := cent_keep wL wE wQ occL occE occQ icL icE icQ mult r in
  let k' := cent_keep wL wE wQ occL occE occQ icL' icE' icQ' mult r in
  (k = 1 -> k' = 1)%Z /\ (k = 1 \/ k = 2 -> k' = 1 \/ k' = 2)%Z /\ (k <> 0 -> k' <> 0)%Z.
Proof.
  intros until icQ'. intros HL HE HQ IL IE IQ LL LE LQ k k'. subst k k'. rewrite !cent_keep_chain.
  pose proof (cent_width_mono occL icL icL' mult HL LL). pose proof (cent_width_mono occE icE icE' mult HE LE).
  pose proof (cent_width_mono occQ icQ icQ' mult HQ LQ).
  assert (0 <= cent_width occE icE mult) by (unfold cent_width; nra).
  assert (0 <= cent_width occQ icQ mult) by (unfold cent_width; nra).
  pose proof (b2q_nonneg wL). pose proof (b2q_nonneg wE). pose proof (b2q_nonneg wQ).
  apply chain3_aggregate; unfold mk3, mk2, mk1; destruct wL, wE, wQ; unfold b2q in *; lra.
Qed.

Lemma nested_in_ic_not_across_tracers_lemma :
  exists occL occE occQ icL icL' icE icQ mult r,
  0 <= occL * mult /\ icL <= icL' /\
  cent_keep true true true occL occE occQ icL icE icQ mult r = 2%Z /\
  cent_keep true true true occL occE occQ icL' icE icQ mult r = 1%Z.
Proof.
  exists (1#2), (1#4), (1#4), (1#2), 1, 1, 1, 1, (3#10). repeat split; vm_compute; congruence.
Qed.

Lemma fill_inherits_host_cent_lemma :
  forall sqrtf T p0 p1 p2 v0 v1 v2 d0 d1 d2 mass ident alpha rsd ho o0 o1 o2 inv lbox,
  let r := cent_fill sqrtf T p0 p1 p2 v0 v1 v2 d0 d1 d2 mass ident alpha rsd ho o0 o1 o2 inv lbox in
  r_mass r = mass /\ r_id r = ident /\
  r_vx r = cent_vel v0 alpha d0 /\ r_vy r = cent_vel v1 alpha d1 /\ r_vz r = cent_vel v2 alpha d2 /\
  (rsd = false -> r_x r = p0 /\ r_y r = p1 /\ r_z r = p2).
Proof.
  intros until lbox. rewrite cent_fill_eq. apply cent_fill_host.
Qed.

Lemma fill_inherits_host_sat_lemma :
  forall sqrtf T p0 p1 p2 v0 v1 v2 d0 d1 d2 mass ident alpha rsd ho o0 o1 o2 inv lbox,
  let r := sat_fill sqrtf T p0 p1 p2 v0 v1 v2 d0 d1 d2 mass ident alpha rsd ho o0 o1 o2 inv lbox in
  r_mass r = mass /\ r_id r = ident /\
  r_vx r = sat_vel d0 alpha v0 /\ r_vy r = sat_vel d1 alpha v1 /\ r_vz r = sat_vel d2 alpha v2 /\
  (rsd = false -> r_x r = p0 /\ r_y r = p1 /\ r_z r = p2).
Proof.
  intros until lbox. rewrite sat_fill_eq. apply sat_fill_host.
Qed.

Lemma rsd_moves_only_los_box_lemma :
  forall sqrtf T p0 p1 p2 v0 v1 v2 d0 d1 d2 mass ident alpha o0 o1 o2 inv lbox velz2kms,
  ~ velz2kms == 0 -> inv = 1 / velz2kms ->
  let rc := cent_fill sqrtf T p0 p1 p2 v0 v1 v2 d0 d1 d2 mass ident alpha true false o0 o1 o2 inv lbox in
  let rs := sat_fill sqrtf T p0 p1 p2 v0 v1 v2 d0 d1 d2 mass ident alpha true false o0 o1 o2 inv lbox in
  let uc := p2 + cent_vel v2 alpha d2 / velz2kms in
  let us := p2 + sat_vel d2 alpha v2 / velz2kms in
  (r_x rc = p0 /\ r_y rc = p1 /\ r_z rc == wrap uc lbox) /\
  (r_x rs = p0 /\ r_y rs = p1 /\ r_z rs == wrap us lbox) /\
  (forall u, (wrap u lbox == u \/ wrap u lbox == u - lbox \/ wrap u lbox == u + lbox) /\
             (0 < lbox -> - (lbox / 2) - lbox <= u -> u < lbox / 2 + lbox -> in_box lbox (wrap u lbox))).
Proof.
  intros until velz2kms. intros Hv Hinv rc rs uc us. subst rc rs uc us. rewrite cent_fill_eq, sat_fill_eq.
  destruct (cent_fill_box sqrtf p0 p1 p2 v0 v1 v2 d0 d1 d2 mass ident alpha o0 o1 o2 inv lbox) as [A [B C]].
  destruct (sat_fill_box sqrtf p0 p1 p2 v0 v1 v2 d0 d1 d2 mass ident alpha o0 o1 o2 inv lbox) as [A' [B' C']].
  assert (W : forall a b, a == b -> wrap a lbox == wrap b lbox).
  { intros a b E. unfold wrap. cbv zeta.
    assert (B1 : Qle_bool (lbox / inject_Z 2) a = Qle_bool (lbox / inject_Z 2) b).
    { destruct (Qle_bool (lbox / inject_Z 2) a) eqn:Ea, (Qle_bool (lbox / inject_Z 2) b) eqn:Eb; try reflexivity; qprops; lra. }
    assert (B2 : Qltb a (- (lbox / inject_Z 2)) = Qltb b (- (lbox / inject_Z 2))).
    { destruct (Qltb a (- (lbox / inject_Z 2))) eqn:Ea, (Qltb b (- (lbox / inject_Z 2))) eqn:Eb; try reflexivity; qprops; lra. }
    rewrite B1, B2. destruct (Qle_bool (lbox / inject_Z 2) b); [lra|]. destruct (Qltb b (- (lbox / inject_Z 2))); lra. }
  split; [split; [exact A|split; [exact B|]]|split; [split; [exact A'|split; [exact B'|]]|]].
  - rewrite C. apply W. rewrite Hinv. field. exact Hv.
  - rewrite C'. apply W. rewrite Hinv. field. exact Hv.
  - intros u. split; [apply wrap_shift|apply wrap_range].
Qed.

Lemma rsd_moves_only_los_cone_lemma :
  forall sqrtf T p0 p1 p2 v0 v1 v2 d0 d1 d2 mass ident alpha o0 o1 o2 inv lbox,
  let rc := cent_fill sqrtf T p0 p1 p2 v0 v1 v2 d0 d1 d2 mass ident alpha true true o0 o1 o2 inv lbox in
  let rs := sat_fill sqrtf T p0 p1 p2 v0 v1 v2 d0 d1 d2 mass ident alpha true true o0 o1 o2 inv lbox in
  let s := (p0 - o0) * (p0 - o0) + (p1 - o1) * (p1 - o1) + (p2 - o2) * (p2 - o2) in
  let n0 := (p0 - o0) * (1 / sqrtf s) in let n1 := (p1 - o1) * (1 / sqrtf s) in let n2 := (p2 - o2) * (1 / sqrtf s) in
  let vc := cent_vel v0 alpha d0 * n0 + cent_vel v1 alpha d1 * n1 + cent_vel v2 alpha d2 * n2 in
  let vs := sat_vel d0 alpha v0 * n0 + sat_vel d1 alpha v1 * n1 + sat_vel d2 alpha v2 * n2 in
  (r_x rc = p0 + inv * vc * n0 /\ r_y rc = p1 + inv * vc * n1 /\ r_z rc = p2 + inv * vc * n2) /\
  (r_x rs = p0 + inv * vs * n0 /\ r_y rs = p1 + inv * vs * n1 /\ r_z rs = p2 + inv * vs * n2) /\
  (sqrtf s * sqrtf s == s -> ~ sqrtf s == 0 ->
     n0 * n0 + n1 * n1 + n2 * n2 == 1 /\
     n0 * sqrtf s == p0 - o0 /\ n1 * sqrtf s == p1 - o1 /\ n2 * sqrtf s == p2 - o2).
Proof.
  intros until lbox. intros rc rs s n0 n1 n2 vc vs. subst rc rs. rewrite cent_fill_eq, sat_fill_eq.
  split; [apply cent_fill_cone|]. split; [apply sat_fill_cone|]. apply los_unit.
Qed.

Lemma centrals_first_ncent_lemma :
  forall (H P R : Type) (hcode : H -> Z) (hfill : Z -> H -> R) (pind : P -> Z) (pcode : Z -> P -> Z) (pfill : Z -> P -> R)
         Nthread hh hp halos parts,
  good_hstart Nthread hh (len halos) -> good_hstart Nthread hp (len parts) ->
  (forall p, In p parts -> (- len halos <= pind p < len halos)%Z) ->
  exists kp, gather P pind (map hcode halos) parts = Ok kp /\ map snd kp = parts /\
    let cents T := map Some (rows H R hcode hfill T halos) in
    let sats T := map Some (rows (Z * P) R (pc P pcode) (pf P R pfill) T kp) in
    let cat T := (len (cents T), cents T ++ sats T) in
    gen_gals H P R hcode hfill pind pcode pfill Nthread hh hp halos parts = Ok (cat 1%Z, cat 2%Z, cat 3%Z) /\
    forall T, firstn (Z.to_nat (fst (cat T))) (snd (cat T)) = cents T /\
              skipn (Z.to_nat (fst (cat T))) (snd (cat T)) = sats T.
Proof.
  intros until parts. intros Gh Gp Hr.
  destruct (gen_gals_correct H P R hcode hfill pind pcode pfill Nthread hh hp halos parts Gh Gp Hr) as [kp [Eg [M E]]].
  exists kp. split; [exact Eg|]. split; [exact M|]. cbv zeta. split.
  - rewrite E. unfold cat_spec. rewrite !len_map, !len_rows. reflexivity.
  - intros T. cbn [fst snd]. unfold len. rewrite Nat2Z.id. split.
    + rewrite firstn_app, Nat.sub_diag, firstn_all. cbn [firstn]. apply app_nil_r.
    + rewrite skipn_app, Nat.sub_diag, skipn_all. reflexivity.
Qed.

