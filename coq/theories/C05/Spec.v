(* C05/Spec.v — what "consistent physical units" means, written from the documented HaloStat record
   (the struct comment in compaso_halo_catalog.py / the AbacusSummit data model), not from the loader code.

   Every halo column gets a class:
     Stored d r     the column is the stored raw column r, a quantity of dimension d in unit-box / stored units;
     Ratio p code   a compressed ratio: the int16 raw column `code`, divided by 32000, times the column p it is relative to;
     Code d code    an int16 raw column divided by 32000, itself a quantity of dimension d (sigman);
     Derived d      not stored: defined from other columns (sigmavMid, by Pythagoras from sigmav3d, sigmavMin, sigmavMaj);
     External       decoded by code outside this property (Euler16 eigenvectors: C18; light-cone origin code and
                    interpolated positions/velocities, stored in final units): only unit-invariance is claimed.
   Dimensions: DLength (x BoxSize), DVelocity (x VelZSpace_to_kms), DNone (integers, densities, and the
   main-progenitor / light-cone quantities, which are stored already converted — a recorded decision, not a finding).
   The only names taken from the generated file are the constructors of [col] and [rawcol] (the column names). *)
From Coq Require Import ZArith QArith Reals List.
From Abacus.HaloTable Require Import Expr Gen.

Inductive dim := DLength | DVelocity | DNone.

Inductive uclass :=
| Stored (d : dim) (r : rawcol)
| Ratio (parent : col) (code : rawcol)
| Code (d : dim) (code : rawcol)
| Derived (d : dim)
| External.

Definition class_of (c : col) : uclass :=
  match c with
  | c_id => Stored DNone r_id
  | c_npstartA => Stored DNone r_npstartA
  | c_npstartB => Stored DNone r_npstartB
  | c_npoutA => Stored DNone r_npoutA
  | c_npoutB => Stored DNone r_npoutB
  | c_ntaggedA => Stored DNone r_ntaggedA
  | c_ntaggedB => Stored DNone r_ntaggedB
  | c_N => Stored DNone r_N
  | c_L2_N => Stored DNone r_L2_N
  | c_L0_N => Stored DNone r_L0_N
  | c_x_com => Stored DLength r_x_com
  | c_v_com => Stored DVelocity r_v_com
  | c_sigmav3d_com => Stored DVelocity r_sigmav3d_com
  | c_meanSpeed_com => Stored DVelocity r_meanSpeed_com
  | c_sigmav3d_r50_com => Stored DVelocity r_sigmav3d_r50_com
  | c_meanSpeed_r50_com => Stored DVelocity r_meanSpeed_r50_com
  | c_r100_com => Stored DLength r_r100_com
  | c_vcirc_max_com => Stored DVelocity r_vcirc_max_com
  | c_SO_central_particle => Stored DLength r_SO_central_particle
  | c_SO_central_density => Stored DNone r_SO_central_density
  | c_SO_radius => Stored DLength r_SO_radius
  | c_x_L2com => Stored DLength r_x_L2com
  | c_v_L2com => Stored DVelocity r_v_L2com
  | c_sigmav3d_L2com => Stored DVelocity r_sigmav3d_L2com
  | c_meanSpeed_L2com => Stored DVelocity r_meanSpeed_L2com
  | c_sigmav3d_r50_L2com => Stored DVelocity r_sigmav3d_r50_L2com
  | c_meanSpeed_r50_L2com => Stored DVelocity r_meanSpeed_r50_L2com
  | c_r100_L2com => Stored DLength r_r100_L2com
  | c_vcirc_max_L2com => Stored DVelocity r_vcirc_max_L2com
  | c_SO_L2max_central_particle => Stored DLength r_SO_L2max_central_particle
  | c_SO_L2max_central_density => Stored DNone r_SO_L2max_central_density
  | c_SO_L2max_radius => Stored DLength r_SO_L2max_radius
  | c_sigmavMin_com => Ratio c_sigmav3d_com r_sigmavMin_to_sigmav3d_com_i16
  | c_sigmavMid_com => Derived DVelocity
  | c_sigmavMaj_com => Ratio c_sigmav3d_com r_sigmavMax_to_sigmav3d_com_i16
  | c_r10_com => Ratio c_r100_com r_r10_com_i16
  | c_r25_com => Ratio c_r100_com r_r25_com_i16
  | c_r33_com => Ratio c_r100_com r_r33_com_i16
  | c_r50_com => Ratio c_r100_com r_r50_com_i16
  | c_r67_com => Ratio c_r100_com r_r67_com_i16
  | c_r75_com => Ratio c_r100_com r_r75_com_i16
  | c_r90_com => Ratio c_r100_com r_r90_com_i16
  | c_r95_com => Ratio c_r100_com r_r95_com_i16
  | c_r98_com => Ratio c_r100_com r_r98_com_i16
  | c_sigmar_com => Ratio c_r100_com r_sigmar_com_i16
  | c_sigman_com => Code DLength r_sigman_com_i16
  | c_sigmar_eigenvecsMin_com => External
  | c_sigmar_eigenvecsMid_com => External
  | c_sigmar_eigenvecsMaj_com => External
  | c_sigmav_eigenvecsMin_com => External
  | c_sigmav_eigenvecsMid_com => External
  | c_sigmav_eigenvecsMaj_com => External
  | c_sigman_eigenvecsMin_com => External
  | c_sigman_eigenvecsMid_com => External
  | c_sigman_eigenvecsMaj_com => External
  | c_sigmavrad_com => Ratio c_sigmav3d_com r_sigmavrad_to_sigmav3d_com_i16
  | c_sigmavtan_com => Ratio c_sigmav3d_com r_sigmavtan_to_sigmav3d_com_i16
  | c_rvcirc_max_com => Ratio c_r100_com r_rvcirc_max_com_i16
  | c_sigmavMin_L2com => Ratio c_sigmav3d_L2com r_sigmavMin_to_sigmav3d_L2com_i16
  | c_sigmavMid_L2com => Derived DVelocity
  | c_sigmavMaj_L2com => Ratio c_sigmav3d_L2com r_sigmavMax_to_sigmav3d_L2com_i16
  | c_r10_L2com => Ratio c_r100_L2com r_r10_L2com_i16
  | c_r25_L2com => Ratio c_r100_L2com r_r25_L2com_i16
  | c_r33_L2com => Ratio c_r100_L2com r_r33_L2com_i16
  | c_r50_L2com => Ratio c_r100_L2com r_r50_L2com_i16
  | c_r67_L2com => Ratio c_r100_L2com r_r67_L2com_i16
  | c_r75_L2com => Ratio c_r100_L2com r_r75_L2com_i16
  | c_r90_L2com => Ratio c_r100_L2com r_r90_L2com_i16
  | c_r95_L2com => Ratio c_r100_L2com r_r95_L2com_i16
  | c_r98_L2com => Ratio c_r100_L2com r_r98_L2com_i16
  | c_sigmar_L2com => Ratio c_r100_L2com r_sigmar_L2com_i16
  | c_sigman_L2com => Code DLength r_sigman_L2com_i16
  | c_sigmar_eigenvecsMin_L2com => External
  | c_sigmar_eigenvecsMid_L2com => External
  | c_sigmar_eigenvecsMaj_L2com => External
  | c_sigmav_eigenvecsMin_L2com => External
  | c_sigmav_eigenvecsMid_L2com => External
  | c_sigmav_eigenvecsMaj_L2com => External
  | c_sigman_eigenvecsMin_L2com => External
  | c_sigman_eigenvecsMid_L2com => External
  | c_sigman_eigenvecsMaj_L2com => External
  | c_sigmavrad_L2com => Ratio c_sigmav3d_L2com r_sigmavrad_to_sigmav3d_L2com_i16
  | c_sigmavtan_L2com => Ratio c_sigmav3d_L2com r_sigmavtan_to_sigmav3d_L2com_i16
  | c_rvcirc_max_L2com => Ratio c_r100_L2com r_rvcirc_max_L2com_i16
  | c_npstartA_merge => Stored DNone r_npstartA_merge
  | c_npstartB_merge => Stored DNone r_npstartB_merge
  | c_npoutA_merge => Stored DNone r_npoutA_merge
  | c_npoutB_merge => Stored DNone r_npoutB_merge
  | c_N_total => Stored DNone r_N_total
  | c_N_merge => Stored DNone r_N_merge
  | c_haloindex => Stored DNone r_haloindex
  | c_is_merged_to => Stored DNone r_is_merged_to
  | c_haloindex_mainprog => Stored DNone r_haloindex_mainprog
  | c_v_L2com_mainprog => Stored DNone r_v_L2com_mainprog
  | c_N_mainprog => Stored DNone r_N_mainprog
  | c_vcirc_max_L2com_mainprog => Stored DNone r_vcirc_max_L2com_mainprog
  | c_sigmav3d_L2com_mainprog => Stored DNone r_sigmav3d_L2com_mainprog
  | c_N_interp => Stored DNone r_N_interp
  | c_index_halo => Stored DNone r_index_halo
  | c_origin => External
  | c_pos_avg => Stored DNone r_pos_avg
  | c_pos_interp => External
  | c_vel_avg => Stored DNone r_vel_avg
  | c_vel_interp => External
  | c_redshift_interp => Stored DNone r_redshift_interp
  end.

Definition dim_of (c : col) : dim :=
  match class_of c with
  | Stored d _ | Code d _ | Derived d => d
  | Ratio p _ => match class_of p with Stored d _ | Code d _ | Derived d => d | _ => DNone end
  | External => DNone
  end.

Local Open Scope R_scope.

(* the factor between the converted and the stored value *)
Definition factor (box zkms : R) (d : dim) : R :=
  match d with DLength => box | DVelocity => zkms | DNone => 1 end.

(* the documented scale of the int16 ratio codes *)
Definition CODE_SCALE : R := 32000.

(* the three principal velocity dispersions and the total, per centre definition *)
Inductive centre := Com | L2com.
Definition sig3d (k : centre) : col := match k with Com => c_sigmav3d_com | L2com => c_sigmav3d_L2com end.
Definition sigMin (k : centre) : col := match k with Com => c_sigmavMin_com | L2com => c_sigmavMin_L2com end.
Definition sigMid (k : centre) : col := match k with Com => c_sigmavMid_com | L2com => c_sigmavMid_L2com end.
Definition sigMaj (k : centre) : col := match k with Com => c_sigmavMaj_com | L2com => c_sigmavMaj_L2com end.
Definition codeMin (k : centre) : rawcol :=
  match k with Com => r_sigmavMin_to_sigmav3d_com_i16 | L2com => r_sigmavMin_to_sigmav3d_L2com_i16 end.
Definition codeMax (k : centre) : rawcol :=
  match k with Com => r_sigmavMax_to_sigmav3d_com_i16 | L2com => r_sigmavMax_to_sigmav3d_L2com_i16 end.

(* the stored ratios leave room for a middle dispersion: Min^2 + Max^2 <= 1 (else np.sqrt returns NaN) *)
Definition ratios_admissible (raw : rawcol -> R) (k : centre) : Prop :=
  (raw (codeMin k) / CODE_SCALE) * (raw (codeMin k) / CODE_SCALE)
  + (raw (codeMax k) / CODE_SCALE) * (raw (codeMax k) / CODE_SCALE) <= 1.
