(* C05/Properties.v — the property theorems, about the loader table regenerated from
   abacusnbody/data/compaso_halo_catalog.py (Gen.expr_of, Gen.unit_off, Gen.n_loaders).
   Values are real numbers (float32 rounding is not modelled); [X] are the two opaque functions
   (Euler16 decoder, integer modulus), universally quantified.  Only statements closed by `exact`. *)
From Coq Require Import ZArith QArith Reals List.
From Abacus.HaloTable Require Import Expr Gen Values.
From Abacus.C05 Require Import Spec Proofs.
Local Open Scope R_scope.

(* Every column name of the dtype tables is matched by exactly one registered regular expression, divisions are by
   non-zero constants, and a column read through halos[..] is itself computed from raw columns only. *)
Theorem table_wellformed : table_ok = true /\ depth_ok = true.
Proof. exact table_wellformed_lemma. Qed.
Print Assumptions table_wellformed.

(* ★ For all stored values, BoxSize > 0 and VelZSpace_to_kms > 0: the column loaded with conversion on equals the
   column loaded with conversion off times BoxSize (length-like), VelZSpace_to_kms (velocity-like: in particular
   sigmavMin/Mid/Maj/rad/tan) or 1 (integer, dimensionless).  For sigmavMid the stored ratios must leave a
   non-negative radicand (otherwise np.sqrt is NaN with either option). *)
Theorem units_factor : forall X raw rawany box zkms c,
  0 < box -> 0 < zkms ->
  (forall k, c = sigMid k -> ratios_admissible raw k) ->
  valueR X (unitsR box zkms) raw rawany c
  = valueR X units_offR raw rawany c * factor box zkms (dim_of c).
Proof. exact units_factor_lemma. Qed.
Print Assumptions units_factor.

(* Stored columns: with conversion off the stored value comes back; with conversion on, times its unit. *)
Theorem stored_columns : forall X raw rawany box zkms c d r,
  class_of c = Stored d r ->
  valueR X units_offR raw rawany c = raw r /\
  valueR X (unitsR box zkms) raw rawany c = raw r * factor box zkms d.
Proof. exact stored_lemma. Qed.
Print Assumptions stored_columns.

(* Compressed ratio columns equal int16/32000 times the column they are relative to, in the same units
   (conversion on, off, or any other valuation u), and that column is a stored length or velocity. *)
Theorem ratio_columns : forall X raw rawany u c p code,
  class_of c = Ratio p code ->
  valueR X u raw rawany c = raw code / CODE_SCALE * valueR X u raw rawany p
  /\ (exists r, class_of p = Stored DLength r \/ class_of p = Stored DVelocity r).
Proof. exact ratio_lemma. Qed.
Print Assumptions ratio_columns.

(* sigman: int16/32000 in unit-box units. *)
Theorem code_columns : forall X raw rawany c d code,
  class_of c = Code d code -> valueR X units_offR raw rawany c = raw code / CODE_SCALE.
Proof. exact code_lemma. Qed.
Print Assumptions code_columns.

(* ★ The squares of the three principal dispersions sum to the square of sigmav3d in the same units, whatever the
   unit valuation u (conversion on: u = unitsR box zkms; off: u = units_offR). *)
Theorem dispersion_pythagoras : forall X raw rawany u k,
  ratios_admissible raw k ->
  let v := valueR X u raw rawany in
  v (sigMin k) * v (sigMin k) + v (sigMid k) * v (sigMid k) + v (sigMaj k) * v (sigMaj k)
  = v (sig3d k) * v (sig3d k).
Proof. exact pythagoras_lemma. Qed.
Print Assumptions dispersion_pythagoras.

(* Integer and dimensionless columns (and the externally decoded ones) are returned unchanged by the unit option;
   together with stored_columns: they equal the stored value. *)
Theorem integers_unchanged : forall X raw rawany box zkms c,
  dim_of c = DNone ->
  valueR X (unitsR box zkms) raw rawany c = valueR X units_offR raw rawany c.
Proof. exact unchanged_lemma. Qed.
Print Assumptions integers_unchanged.

Theorem external_columns_unitless : forall c, class_of c = External -> mentions_unit (expr_of c) = false.
Proof. exact external_lemma. Qed.
Print Assumptions external_columns_unitless.
