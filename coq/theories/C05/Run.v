(* C05/Run.v — executable glue for the correspondence check (no theorem depends on it). *)
From Coq Require Import ZArith QArith List Bool.
From Abacus.Common Require Import Arr Num Corr.
From Abacus.HaloTable Require Import Expr Gen Values Show.
From Abacus.C05 Require Import Spec.
Import ListNotations.
Local Open Scope Z_scope.

(* units on?, BoxSize, VelZSpace_to_kms, one row of raw values (one component), raw columns with a non-zero component *)
Definition case := (bool * Q * Q * list (rawcol * Q) * list rawcol * list query)%type.


Definition run (c : case) : val :=
  let '(on, box, zkms, rawl, anyl, qs) := c in
  VL (map (fun '(c, m, h) => show (valueN (units_of on box zkms) (lookup rawl) (member anyl) c) m h) qs).

(* the property predicate on the model, for the failing-input search: converted = stored * factor (through squares for
   np.sqrt) for every queried column, and Pythagoras for both centre definitions with conversion on *)
Definition factorQ (box zkms : Q) (d : dim) : Q := match d with DLength => box | DVelocity => zkms | DNone => 1%Q end.

Definition num_scaled (von voff : num) (f : Q) : bool :=
  match von, voff with
  | NQ a, NQ b => Qeq_bool a (b * f)%Q
  | NSqrt a, NSqrt b => Qeq_bool a (b * f * f)%Q
  | NNaN, NNaN => true
  | NEuler w a, NEuler w' b => (w =? w') && Qeq_bool a b
  | _, _ => false
  end.

Definition sq (v : num) : option Q := match v with NQ q => Some (q * q)%Q | NSqrt r => Some r | _ => None end.

Definition pythagoras_ok (v : col -> num) (k : centre) : bool :=
  match sq (v (sigMin k)), sq (v (sigMid k)), sq (v (sigMaj k)), sq (v (sig3d k)) with
  | Some a, Some b, Some c, Some d => Qeq_bool (a + b + c)%Q d
  | _, None, _, _ => true    (* NaN: the stored ratios are not admissible *)
  | _, _, _, _ => false
  end.

Definition holds (c : case) : bool :=
  let '(_, box, zkms, rawl, anyl, qs) := c in
  let von := valueN (unitsQ box zkms) (lookup rawl) (member anyl) in
  let voff := valueN unit_off (lookup rawl) (member anyl) in
  forallb (fun '(c, _, _) => num_scaled (von c) (voff c) (factorQ box zkms (dim_of c))) qs
  && pythagoras_ok von Com && pythagoras_ok von L2com && pythagoras_ok voff Com && pythagoras_ok voff L2com.
