(* C05/Proofs.v — lemmas about the GENERATED loader table (Gen.expr_of), one case per column. *)
From Coq Require Import ZArith QArith Reals Qreals List Bool Lra Psatz.
From Abacus.HaloTable Require Import Expr Gen Values.
From Abacus.C05 Require Import Spec.
Local Open Scope R_scope.

(* unfold the value of one concrete column down to arithmetic over raw values and the unit symbols *)
Ltac crunch :=
  cbv beta delta [valueR leafR units_offR dim_of];
  cbn [evalR expr_of class_of factor unitsR unit_off];
  unfold Q2R; cbn [Qnum Qden].

Lemma table_wellformed_lemma : table_ok = true /\ depth_ok = true.
Proof. split; vm_compute; reflexivity. Qed.

(* sqrt (B * z^2) = sqrt B * z *)
Lemma sqrt_scale B z : 0 <= B -> 0 <= z -> sqrt (B * (z * z)) = sqrt B * z.
Proof.
  intros HB Hz. rewrite sqrt_mult_alt by exact HB. rewrite sqrt_square by exact Hz. reflexivity.
Qed.

Lemma admissible_radicand s a b :
  a / 32000 * (a / 32000) + b / 32000 * (b / 32000) <= 1 ->
  0 <= s * s * (1 - a / 32000 * (a / 32000) - b / 32000 * (b / 32000)).
Proof. intros H. apply Rmult_le_pos; [apply Rle_0_sqr || nra | lra]. Qed.

Section Columns.
  Variables (X : extR) (raw : rawcol -> R) (rawany : rawcol -> bool).

  Notation on box zkms := (valueR X (unitsR box zkms) raw rawany).
  Notation off := (valueR X units_offR raw rawany).

  Lemma mid_scale (k : centre) box zkms :
    0 < box -> 0 < zkms -> ratios_admissible raw k ->
    on box zkms (sigMid k) = off (sigMid k) * zkms.
  Proof.
    intros Hb Hz Hadm. unfold ratios_admissible, CODE_SCALE in Hadm.
    destruct k; cbn [sigMid codeMin codeMax] in *; crunch;
      match goal with
      | |- sqrt ?A = sqrt ?B * _ =>
          replace A with (B * (zkms * zkms)) by field;
          apply sqrt_scale; [|lra]
      end;
      match goal with
      | |- 0 <= ?B =>
          match type of Hadm with
          | ?a / _ * _ + ?b / _ * _ <= 1 =>
              match B with
              | context [?s * ?s * _] =>
                  replace B with (s * s * (1 - b / 32000 * (b / 32000) - a / 32000 * (a / 32000))) by field;
                  apply admissible_radicand; lra
              end
          end
      end.
  Qed.

  (* ★ units_factor *)
  Lemma units_factor_lemma : forall box zkms c,
    0 < box -> 0 < zkms ->
    (forall k, c = sigMid k -> ratios_admissible raw k) ->
    on box zkms c = off c * factor box zkms (dim_of c).
  Proof.
    intros box zkms c Hb Hz Hadm.
    destruct c;
      try (crunch; (reflexivity || field));
      [ exact (mid_scale Com box zkms Hb Hz (Hadm Com eq_refl))
      | exact (mid_scale L2com box zkms Hb Hz (Hadm L2com eq_refl)) ].
  Qed.

  (* stored columns: the converted value is the stored value times the unit of its dimension *)
  Lemma stored_lemma : forall box zkms c d r,
    class_of c = Stored d r ->
    off c = raw r /\ on box zkms c = raw r * factor box zkms d.
  Proof.
    intros box zkms c d r Hc.
    destruct c; cbn [class_of] in Hc; try discriminate Hc;
      injection Hc as <- <-; crunch; split; (reflexivity || field).
  Qed.

  (* compressed ratio columns, in whatever units (on, off, or any other valuation of box / zspace_to_kms) *)
  Lemma ratio_lemma : forall u c p code,
    class_of c = Ratio p code ->
    valueR X u raw rawany c = raw code / CODE_SCALE * valueR X u raw rawany p
    /\ (exists r, class_of p = Stored DLength r \/ class_of p = Stored DVelocity r).
  Proof.
    intros u c p code Hc.
    destruct c; cbn [class_of] in Hc; try discriminate Hc;
      injection Hc as <- <-; (split; [unfold CODE_SCALE; crunch; field | eexists; cbn [class_of]; auto]).
  Qed.

  Lemma code_lemma : forall c d code,
    class_of c = Code d code -> off c = raw code / CODE_SCALE.
  Proof.
    intros c d code Hc.
    destruct c; cbn [class_of] in Hc; try discriminate Hc;
      injection Hc as <- <-; unfold CODE_SCALE; crunch; field.
  Qed.

  (* ★ dispersion_pythagoras, for any valuation of the unit symbols (in particular conversion on and off) *)
  Lemma pythagoras_lemma : forall u k,
    ratios_admissible raw k ->
    let v := valueR X u raw rawany in
    v (sigMin k) * v (sigMin k) + v (sigMid k) * v (sigMid k) + v (sigMaj k) * v (sigMaj k)
    = v (sig3d k) * v (sig3d k).
  Proof.
    intros u k Hadm v. subst v. unfold ratios_admissible, CODE_SCALE in Hadm.
    destruct k; cbn [sigMin sigMid sigMaj sig3d codeMin codeMax] in *; crunch;
      match goal with
      | |- context [sqrt ?A] =>
          assert (HA : 0 <= A);
          [ match type of Hadm with
            | ?a / _ * _ + ?b / _ * _ <= 1 =>
                match A with
                | context [?s * ?s * (?z * ?z)] =>
                    replace A with ((s * z) * (s * z) * (1 - b / 32000 * (b / 32000) - a / 32000 * (a / 32000))) by field;
                    apply admissible_radicand; lra
                end
            end
          | rewrite (sqrt_sqrt A HA); field ]
      end.
  Qed.

  (* integer / dimensionless / externally decoded columns do not depend on the unit option *)
  Lemma unchanged_lemma : forall box zkms c,
    dim_of c = DNone -> on box zkms c = off c.
  Proof.
    intros box zkms c Hd.
    destruct c; cbv [dim_of] in Hd; cbn [class_of] in Hd; try discriminate Hd; crunch; reflexivity.
  Qed.

  (* ... and the externally decoded ones never mention a unit symbol at all *)
  Lemma external_lemma : forall c, class_of c = External -> mentions_unit (expr_of c) = false.
  Proof. intros c Hc. destruct c; cbn [class_of] in Hc; try discriminate Hc; reflexivity. Qed.
End Columns.
