(* C05/Examples.v — non-vacuity of every hypothesis used in Properties.v, and regression values of the
   executable model (vm_compute). *)
From Coq Require Import ZArith QArith Reals Qreals List Bool Lra.
From Abacus.HaloTable Require Import Expr Gen Values Show.
From Abacus.C05 Require Import Spec Run.
Import ListNotations.

(* a non-trivial stored row satisfies ratios_admissible: Min/3d = 1/4, Max/3d = 1/2 *)
Definition ex_raw (r : rawcol) : R :=
  match r with
  | r_sigmavMin_to_sigmav3d_com_i16 | r_sigmavMin_to_sigmav3d_L2com_i16 => 8000
  | r_sigmavMax_to_sigmav3d_com_i16 | r_sigmavMax_to_sigmav3d_L2com_i16 => 16000
  | _ => 3
  end%R.

Example admissible_inhabited : forall k, ratios_admissible ex_raw k.
Proof. intros k. unfold ratios_admissible, CODE_SCALE. destruct k; cbn [codeMin codeMax ex_raw]; lra. Qed.

Example units_positive_inhabited : (0 < 500 /\ 0 < 30000)%R.
Proof. split; lra. Qed.

Example stored_inhabited : class_of c_x_L2com = Stored DLength r_x_L2com /\
                           class_of c_vcirc_max_com = Stored DVelocity r_vcirc_max_com /\
                           class_of c_N = Stored DNone r_N.
Proof. repeat split. Qed.

Example ratio_inhabited : class_of c_sigmavtan_L2com = Ratio c_sigmav3d_L2com r_sigmavtan_to_sigmav3d_L2com_i16 /\
                          class_of c_r50_com = Ratio c_r100_com r_r50_com_i16.
Proof. repeat split. Qed.

Example code_inhabited : class_of c_sigman_com = Code DLength r_sigman_com_i16.
Proof. reflexivity. Qed.

Example dimensionless_inhabited : dim_of c_id = DNone /\ dim_of c_SO_central_density = DNone
                                  /\ dim_of c_sigmav_eigenvecsMaj_com = DNone.
Proof. repeat split. Qed.

Example external_inhabited : class_of c_origin = External /\ class_of c_sigmar_eigenvecsMin_L2com = External.
Proof. repeat split. Qed.

Example sigMid_is_a_column : sigMid Com = c_sigmavMid_com /\ dim_of (sigMid L2com) = DVelocity.
Proof. repeat split. Qed.

(* regression values of the executable model: BoxSize 500, VelZSpace_to_kms 30000 *)
Definition ex_rawQ : list (rawcol * Q) :=
  [(r_r100_com, 3 # 4); (r_r25_com_i16, 16000 # 1); (r_sigmav3d_com, 3 # 2);
   (r_sigmavMin_to_sigmav3d_com_i16, 8000 # 1); (r_sigmavMax_to_sigmav3d_com_i16, 16000 # 1);
   (r_x_com, (-5) # 8); (r_origin, 5 # 1); (r_N, 70001 # 1)].

Definition ex_val (on : bool) (c : col) : num :=
  valueN (units_of on 500 30000) (lookup ex_rawQ) (member []) c.

Example ex_r25_on : ex_val true c_r25_com = NQ ((16000 # 1) * (3 # 4) / (32000 # 1) * 500).
Proof. reflexivity. Qed.
Example ex_r25_value : match ex_val true c_r25_com with NQ q => Qeq_bool q (375 # 2) | _ => false end = true.
Proof. vm_compute. reflexivity. Qed.
Example ex_r25_off : match ex_val false c_r25_com with NQ q => Qeq_bool q (3 # 8) | _ => false end = true.
Proof. vm_compute. reflexivity. Qed.
Example ex_x_on : match ex_val true c_x_com with NQ q => Qeq_bool q ((-625) # 2) | _ => false end = true.
Proof. vm_compute. reflexivity. Qed.
Example ex_origin : match ex_val true c_origin with NQ q => Qeq_bool q 2 | _ => false end = true.
Proof. vm_compute. reflexivity. Qed.
Example ex_N : match ex_val true c_N with NQ q => Qeq_bool q 70001 | _ => false end = true.
Proof. vm_compute. reflexivity. Qed.
(* sigmavMid^2 = sigmav3d^2 (1 - 1/16 - 1/4) in the units of sigmav3d *)
Example ex_mid_on : match ex_val true c_sigmavMid_com with
                    | NSqrt r => Qeq_bool r ((3 # 2) * (3 # 2) * (11 # 16) * 30000 * 30000)
                    | _ => false end = true.
Proof. vm_compute. reflexivity. Qed.
Example ex_holds : holds (true, 500, 30000, ex_rawQ, [],
                          map (fun c => (c, 0, 0)) all_cols) = true.
Proof. vm_compute. reflexivity. Qed.
