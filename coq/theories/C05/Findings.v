(* C05/Findings.v — kernel-checked record of the unit defect in the original loaders of the principal / radial /
   tangential velocity dispersions (abacusnbody/data/compaso_halo_catalog.py, _sigmav_loader and the sigmavMid lambda).

   Frozen, self-contained copy of what tools/gen/c05.py extracted from the original source for the `_com` columns:
   the ratio columns and the radicand of sigmavMid were multiplied by `box`, while sigmav3d is multiplied by
   `zspace_to_kms`.  (Own name types, so that this record does not depend on the regenerated Gen.v.) *)
From Coq Require Import ZArith QArith List Bool.
From Abacus.Common Require Import Num.
From Abacus.HaloTable Require Import Expr.
Import ListNotations.

Inductive fcol := f_sigmav3d | f_sigmavMin | f_sigmavMid | f_sigmavMaj.
Inductive fraw := fr_sigmav3d | fr_Min_to_3d_i16 | fr_Max_to_3d_i16.

Definition expr_orig (c : fcol) : expr fcol fraw :=
  match c with
  | f_sigmav3d => EMul (ERaw fr_sigmav3d) (EUnit UZkms)
  | f_sigmavMin => EMul (EDivC (EMul (ERaw fr_Min_to_3d_i16) (ERaw fr_sigmav3d)) (32000 # 1)) (EUnit UBox)
  | f_sigmavMaj => EMul (EDivC (EMul (ERaw fr_Max_to_3d_i16) (ERaw fr_sigmav3d)) (32000 # 1)) (EUnit UBox)
  | f_sigmavMid =>
      ESqrt (ESub (ESub (EMul (EMul (ERaw fr_sigmav3d) (ERaw fr_sigmav3d)) (ESqr (EUnit UBox)))
                        (ESqr (EHalo f_sigmavMaj))) (ESqr (EHalo f_sigmavMin)))
  end.

Definition value_orig (u : unitsym -> Q) (raw : fraw -> Q) (c : fcol) : num :=
  evalN u raw (fun _ => false)
        (fun d => evalN u raw (fun _ => false) (fun _ => NUninit) (expr_orig d)) (expr_orig c).

(* square of a value (the square of np.sqrt(r) is r) *)
Definition sqv (v : num) : option Q := match v with NQ q => Some (q * q) | NSqrt r => Some r | _ => None end.

Definition pythagoras_defect (u : unitsym -> Q) (raw : fraw -> Q) : option Q :=   (* (Min^2+Mid^2+Maj^2) / sigmav3d^2 *)
  match sqv (value_orig u raw f_sigmavMin), sqv (value_orig u raw f_sigmavMid),
        sqv (value_orig u raw f_sigmavMaj), sqv (value_orig u raw f_sigmav3d) with
  | Some a, Some b, Some c, Some d => Some (Qred ((a + b + c) / d))
  | _, _, _, _ => None
  end.

Definition units_on (box zkms : Q) (u : unitsym) : Q := match u with UBox => box | UZkms => zkms end.
Definition witness_raw (r : fraw) : Q :=
  match r with fr_sigmav3d => 3 # 2 | fr_Min_to_3d_i16 => 8000 # 1 | fr_Max_to_3d_i16 => 16000 # 1 end.

(* dispersion_pythagoras is false of the original: with BoxSize = 500 and VelZSpace_to_kms = 30000 the squares of the
   three principal dispersions sum to (500/30000)^2 = 1/3600 of sigmav3d^2; with conversion off the ratio is 1. *)
Theorem dispersion_pythagoras_orig_refuted : exists box zkms raw,
  (0 < box)%Q /\ (0 < zkms)%Q /\
  pythagoras_defect (units_on box zkms) raw = Some (1 # 3600) /\
  pythagoras_defect (units_on 1 1) raw = Some (1 # 1).
Proof.
  exists 500, 30000, witness_raw. repeat split; vm_compute; reflexivity.
Qed.

(* units_factor is false of the original: sigmavMin with conversion on is the stored-unit value times BoxSize,
   not times VelZSpace_to_kms *)
Theorem units_factor_orig_refuted : exists box zkms raw qon qoff,
  (0 < box)%Q /\ (0 < zkms)%Q /\
  value_orig (units_on box zkms) raw f_sigmavMin = NQ qon /\
  value_orig (units_on 1 1) raw f_sigmavMin = NQ qoff /\
  qon == qoff * box /\ ~ qon == qoff * zkms.
Proof.
  exists 500, 30000, witness_raw. eexists. eexists.
  repeat split; try (vm_compute; reflexivity).
  vm_compute. discriminate.
Qed.
