(* C01/Spec.v — what a loaded catalog must look like, written independently of the loader's index arithmetic.

   For a halo row r of superslab s and subsample x (A or B):
     orig   = the particles addressed by r's start/count in s's own particle file — none if r was cleaned away
     merged = (cleaned catalogs) the particles addressed by r's merge start/count in s's cleaning file
     block  = orig ++ merged                                   "that halo's own particles"
   The subsample table is the concatenation of the blocks, halo rows in file order within a superslab, superslabs in
   argument order, all of A before all of B; the kept rows are those selected by the filter mask of their superslab. *)
From Coq Require Import ZArith List Bool.
From Abacus.Common Require Import Arr.
From Abacus.C01 Require Import Model.
Import ListNotations.
Local Open Scope Z_scope.

Section Spec.
Context {P : Type}.
Variable cleaned passthrough : bool.
Variable filt : option filter.

Definition away (r : hrow) : bool := cleaned && (ntot r =? 0).

Definition orig (x : ab) (s : slab P) (r : hrow) : list P :=
  if away r then [] else slice (part x s) (st x r) (st x r + ct x r).

Definition merged (x : ab) (s : slab P) (r : hrow) : list P :=
  if cleaned then slice (cpart x s) (mst x r) (mst x r + mct x r) else [].

Definition block (x : ab) (s : slab P) (r : hrow) : list P := orig x s r ++ merged x s r.

(* the rows of one superslab that survive filter_func *)
Definition kept_rows (rows : list hrow) : list hrow :=
  match filt with
  | None => rows
  | Some f => mask_select (f (map (present cleaned passthrough) rows)) rows
  end.
Definition kept (s : slab P) : list hrow := kept_rows (s_rows s).

Definition slab_blocks (x : ab) (s : slab P) : list (list P) := map (block x s) (kept s).
Definition cat_blocks (x : ab) (cat : list (slab P)) : list (list P) := flat_map (slab_blocks x) cat.

(* the whole subsample table *)
Definition spec_subsamples (load_ab : list ab) (cat : list (slab P)) : list P :=
  flat_map (fun x => concat (cat_blocks x cat)) load_ab.

(* the loaded halo rows, before re-indexing *)
Definition spec_rows (cat : list (slab P)) : list hrow := flat_map kept cat.

(* ---- the index columns the property demands: npstart = offset of the row's block in the table, npout = its length *)

(* total length of the blocks of the subsamples that precede x in load_AB ("all of A before all of B") *)
Fixpoint offset_of (l : list ab) (x : ab) (cat : list (slab P)) : Z :=
  match l with
  | [] => 0
  | y :: t => if ab_eqb x y then 0 else len (concat (cat_blocks y cat)) + offset_of t x cat
  end.

(* offset of the g-th row's block for subsample x *)
Definition block_offset (l : list ab) (x : ab) (cat : list (slab P)) (g : nat) : Z :=
  offset_of l x cat + len (concat (firstn g (cat_blocks x cat))).

Definition block_of (x : ab) (cat : list (slab P)) (g : nat) : list P := nth g (cat_blocks x cat) [].

(* a start/count pair addresses a range inside a file (an empty range may start anywhere) *)
Definition range_ok (l : list P) (a c : Z) : Prop := c = 0 \/ (0 < c /\ 0 <= a /\ a + c <= len l).

Definition wf_row (x : ab) (s : slab P) (r : hrow) : Prop :=
  (away r = true \/ range_ok (part x s) (st x r) (ct x r)) /\
  (cleaned = true -> range_ok (cpart x s) (mst x r) (mct x r)).

(* "every read range inside its file" *)
Definition wf_catalog (load_ab : list ab) (cat : list (slab P)) : Prop :=
  forall x s r, In x load_ab -> In s cat -> In r (s_rows s) -> wf_row x s r.

(* a filter function returns one mask entry per row *)
Definition filt_ok : Prop :=
  match filt with None => True | Some f => forall t, length (f t) = length t end.

End Spec.

(* load_AB as the loader builds it: [k for k in 'AB' if ...] — A, B or both, A first; [] means no subsamples *)
Definition ab_ok (load_ab : list ab) : Prop :=
  load_ab = [] \/ load_ab = [SA] \/ load_ab = [SB] \/ load_ab = [SA; SB].

(* (start, count) pairs that tile [from, to) contiguously, in order *)
Fixpoint tiles (pairs : list (Z * Z)) (from to : Z) : Prop :=
  match pairs with
  | [] => from = to
  | (a, c) :: rest => a = from /\ 0 <= c /\ tiles rest (from + c) to
  end.

(* the slice a halo row addresses in the subsample table *)
Definition row_slice {Q} (x : ab) (subs : list Q) (r : hrow) : list Q := slice subs (st x r) (st x r + ct x r).

(* executable versions of the hypotheses (used by Run.holds and the examples) *)
Definition range_okb {P} (l : list P) (a c : Z) : bool := (c =? 0) || ((0 <? c) && (0 <=? a) && (a + c <=? len l)).
Definition wf_rowb {P} (cleaned : bool) (x : ab) (s : slab P) (r : hrow) : bool :=
  (away cleaned r || range_okb (part x s) (st x r) (ct x r)) &&
  (negb cleaned || range_okb (cpart x s) (mst x r) (mct x r)).
Definition wf_catalogb {P} (cleaned : bool) (load_ab : list ab) (cat : list (slab P)) : bool :=
  forallb (fun x => forallb (fun s => forallb (wf_rowb cleaned x s) (s_rows s)) cat) load_ab.
