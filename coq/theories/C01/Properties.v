(* C01/Properties.v — each halo row indexes exactly its own subsample particles.
   Statements about the model of coq/theories/C01/Model.v (which calls the cumsum regenerated from abacusnbody/util.py),
   for every particle type P, decoder dec, catalog, filter, cleaned/passthrough flag and load_AB in {[], [A], [B], [A;B]}.
   Hypotheses: wf_catalog (every read range of a kept-or-not row lies inside its file; Spec.v), filt_ok (a filter returns
   one mask entry per row), ab_ok.  Only `exact`s and Print Assumptions here. *)
From Coq Require Import ZArith List.
From Abacus.Common Require Import Arr.
From Abacus.C01 Require Import Model Spec Proofs.
Import ListNotations.
Local Open Scope Z_scope.

(* The subsample table is, for all of A then all of B, superslab by superslab, kept halo row by kept halo row, the
   row's original particles (none if cleaned away) followed by its merged-in particles, each decoded from its own raw
   record; nothing else is written and no cell is left unwritten. *)
Theorem zipper_refines_spec :
  forall (P Q : Type) (dec : P -> Q) cleaned passthrough filt load_ab (cat : list (slab P)) garbage,
  wf_catalog cleaned load_ab cat -> filt_ok filt -> ab_ok load_ab ->
  exists rows', load dec cleaned passthrough filt load_ab cat garbage
                = Ok (rows', map Some (map dec (spec_subsamples cleaned passthrough filt load_ab cat))).
Proof. exact (@zipper_refines_spec_lemma). Qed.
Print Assumptions zipper_refines_spec.

(* Ok = no array access of the loader (offset arrays, halo_file_offsets, output slices) is out of range. *)
Theorem zipper_safe :
  forall (P Q : Type) (dec : P -> Q) cleaned passthrough filt load_ab (cat : list (slab P)) garbage,
  wf_catalog cleaned load_ab cat -> filt_ok filt -> ab_ok load_ab ->
  is_ok (load dec cleaned passthrough filt load_ab cat garbage) = true.
Proof. exact (@zipper_safe_lemma). Qed.
Print Assumptions zipper_safe.

(* Row g of the loaded table is row g of the kept rows; for a loaded subsample its npstart is the offset of its block
   in the table (everything of the earlier subsample, then the blocks of the earlier rows) and its npout the length of
   the block; the columns of a subsample that is not loaded are untouched; N is the cleaned count when cleaned. *)
Theorem index_columns_spec :
  forall (P Q : Type) (dec : P -> Q) cleaned passthrough filt load_ab (cat : list (slab P)) garbage,
  wf_catalog cleaned load_ab cat -> filt_ok filt -> ab_ok load_ab ->
  forall rows' subs,
  load dec cleaned passthrough filt load_ab cat garbage = Ok (rows', subs) ->
  length rows' = length (spec_rows cleaned passthrough filt cat) /\
  forall g r, nth_error (spec_rows cleaned passthrough filt cat) g = Some r ->
    exists r', nth_error rows' g = Some r' /\
      hid r' = hid r /\ hN r' = hN (present cleaned passthrough r) /\
      forall x, (In x load_ab -> st x r' = block_offset cleaned passthrough filt load_ab x cat g /\
                                 ct x r' = len (block_of cleaned passthrough filt x cat g)) /\
                (~ In x load_ab -> st x r' = st x r /\ ct x r' = ct x r).
Proof. exact (@index_columns_spec_lemma). Qed.
Print Assumptions index_columns_spec.

(* THE property: subsamples[npstart : npstart+npout] of every loaded row is exactly that row's own block ... *)
Theorem slice_is_own_particles :
  forall (P Q : Type) (dec : P -> Q) cleaned passthrough filt load_ab (cat : list (slab P)) garbage,
  wf_catalog cleaned load_ab cat -> filt_ok filt -> ab_ok load_ab ->
  forall rows' subs,
  load dec cleaned passthrough filt load_ab cat garbage = Ok (rows', subs) ->
  forall g r' x, In x load_ab -> nth_error rows' g = Some r' ->
    row_slice x subs r' = map Some (map dec (block_of cleaned passthrough filt x cat g)).
Proof. exact (@slice_is_own_particles_lemma). Qed.
Print Assumptions slice_is_own_particles.

(* ... where the g-th block is (original ++ merged) of the g-th kept row, read from that row's own superslab. *)
Theorem block_is_own_row :
  forall (P : Type) cleaned passthrough filt x (cat : list (slab P)) g r,
  nth_error (spec_rows cleaned passthrough filt cat) g = Some r ->
  exists s, In s cat /\ In r (kept cleaned passthrough filt s) /\
            block_of cleaned passthrough filt x cat g = block cleaned x s r.
Proof. exact (@block_of_row). Qed.
Print Assumptions block_is_own_row.

(* The slices are contiguous and disjoint, in halo-row order, all of A before all of B, starting at 0, and their
   lengths sum to the length of the subsample table. *)
Theorem slices_tile :
  forall (P Q : Type) (dec : P -> Q) cleaned passthrough filt load_ab (cat : list (slab P)) garbage,
  wf_catalog cleaned load_ab cat -> filt_ok filt -> ab_ok load_ab ->
  forall rows' subs,
  load dec cleaned passthrough filt load_ab cat garbage = Ok (rows', subs) ->
  tiles (flat_map (fun x => map (fun r' => (st x r', ct x r')) rows') load_ab) 0 (len subs).
Proof. exact (@slices_tile_lemma2). Qed.
Print Assumptions slices_tile.

(* Decoding commutes with loading: any decoded column (pos, vel, pid, rvint, packedpid, lagr_idx, density, ...) is the
   decoder mapped over the raw-record table, with the same halo rows. *)
Theorem decode_commutes :
  forall (P Q : Type) (dec : P -> Q) cleaned passthrough filt load_ab (cat : list (slab P)) garbage,
  wf_catalog cleaned load_ab cat -> filt_ok filt -> ab_ok load_ab ->
  forall rows' subs rows0 subs0,
  load dec cleaned passthrough filt load_ab cat garbage = Ok (rows', subs) ->
  load (fun p : P => p) cleaned passthrough filt load_ab cat garbage = Ok (rows0, subs0) ->
  rows' = rows0 /\ subs = map (option_map dec) subs0.
Proof. exact (@decode_commutes_lemma). Qed.
Print Assumptions decode_commutes.

(* Light-cone catalogs: the single particle file is taken as it is and the stored index columns are kept (so a row's
   slice is the range it addresses in lc_pid_rv); rows are the filtered rows of the single halo file. *)
Theorem lc_layout :
  forall (Q : Type) filt rows (lc_part : list Q) garbage,
  filt_ok filt ->
  load_lc filt rows lc_part garbage = Ok (kept_rows false false filt rows, map Some lc_part).
Proof. exact (@lc_layout_lemma). Qed.
Print Assumptions lc_layout.
