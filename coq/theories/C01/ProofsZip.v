(* C01/ProofsZip.v — the zipper (_unpack_*_subsamples) and the loops of _load_subsamples around it. *)
From Coq Require Import ZArith List Bool Lia.
From Abacus.Common Require Import Arr.
From Abacus.C19 Require Import Spec Gen Proofs.
From Abacus.C01 Require Import Model Spec Lib ProofsRead ProofsIdx.
Import ListNotations.
Local Open Scope Z_scope.

Lemma range_ok_len {P} (l : list P) a c : range_ok l a c -> len (slice l a (a + c)) = c.
Proof.
  intros [->|[Hc [Ha Hl]]].
  - rewrite Z.add_0_r, slice_same. reflexivity.
  - apply len_slice_exact; lia.
Qed.

Lemma if_cases {A} (b : bool) (u v w : A) :
  (b = true -> u = w) -> (b = false -> v = w) -> (if b then u else v) = w.
Proof. destruct b; auto. Qed.

Section Zip.
Context {P Q : Type}.
Variable dec : P -> Q.
Variable cleaned passthrough : bool.
Variable filt : option filter.
Variable l : list ab.          (* load_AB *)
Variable x : ab.               (* the subsample being loaded *)
Hypothesis Hx : In x l.

Notation block := (block cleaned).
Notation zrow := (zrow cleaned l).
Notation cnt_final := (cnt_final cleaned x).

(* what the zipper reads for a (zeroed) row is the specified block, and the cumulative sum counted its length *)
Lemma zrow_reads (s : slab P) (r : hrow) :
  wf_row cleaned x s r ->
  slice (part x s) (st x (zrow r)) (st x (zrow r) + ct x (zrow r)) = orig cleaned x s r /\
  len (orig cleaned x s r) = ct x (zrow r) /\
  (cleaned = true ->
     slice (cpart x s) (mst x (zrow r)) (mst x (zrow r) + mct x (zrow r)) = merged cleaned x s r /\
     len (merged cleaned x s r) = mct x r) /\
  mct x (zrow r) = mct x r /\
  cnt_final r = len (block x s r) /\ 0 <= ct x (zrow r).
Proof.
  intros [Ho Hm].
  destruct (zrow_fields cleaned l r) as [_ [_ [_ [F4 [F5 [F6 F7]]]]]].
  rewrite F4, F5, F6, F7.
  assert (Hhas : has_ab x l = true) by (apply has_ab_in; exact Hx). rewrite Hhas, andb_true_r.
  assert (Hmer : cleaned = true ->
     slice (cpart x s) (mst x r) (mst x r + mct x r) = merged cleaned x s r /\ len (merged cleaned x s r) = mct x r).
  { intros Hc. unfold merged. rewrite Hc. split; [reflexivity|]. apply range_ok_len. apply Hm. exact Hc. }
  assert (Hmlen : len (merged cleaned x s r) = if cleaned then mct x r else 0).
  { destruct cleaned eqn:Hc; [apply Hmer; reflexivity|reflexivity]. }
  unfold Spec.block, ProofsIdx.cnt_final. rewrite len_app, Hmlen.
  unfold orig, away in *.
  destruct (cleaned && (ntot r =? 0)) eqn:Ea.
  - rewrite Z.add_0_r, slice_same.
    split; [reflexivity|]. split; [reflexivity|]. split; [intros Hc; destruct (Hmer Hc) as [HA HB]; split; [exact HA|rewrite Hc; reflexivity]|]. split; [reflexivity|].
    split; [unfold len; cbn; lia|lia].
  - destruct Ho as [Ho|Ho]; [discriminate|].
    pose proof (range_ok_len _ _ _ Ho) as Hlen.
    assert (0 <= ct x r) by (rewrite <- Hlen; apply len_nonneg).
    split; [reflexivity|]. split; [exact Hlen|]. split; [intros Hc; destruct (Hmer Hc) as [HA HB]; split; [exact HA|rewrite Hc; reflexivity]|]. split; [reflexivity|].
    split; [rewrite Hlen; reflexivity|assumption].
Qed.

Lemma block_len_nonneg (s : slab P) r : 0 <= len (block x s r).
Proof. apply len_nonneg. Qed.

Lemma zipper_spec (s : slab P) (swo : list Z) : forall rowsK i W pre k,
  (forall r, In r rowsK -> wf_row cleaned x s r) ->
  (forall j, 0 <= j <= len rowsK ->
     get swo (i + j) = Ok (W + zsum (firstn (Z.to_nat j) (map cnt_final rowsK)))) ->
  W = len pre -> zsum (map cnt_final rowsK) <= Z.of_nat k ->
  zipper dec cleaned x (part x s) (cpart x s) swo i (map zrow rowsK) (pre ++ repeat None k)
  = Ok ((pre ++ map Some (map dec (concat (map (block x s) rowsK))))
          ++ repeat None (k - length (concat (map (block x s) rowsK)))).
Proof.
  induction rowsK as [|r t IH]; intros i W pre k Hwf Hget HW Hk.
  - cbn. rewrite app_nil_r, Nat.sub_0_r. reflexivity.
  - cbn [map zipper].
    destruct (zrow_reads s r (Hwf r (or_introl eq_refl))) as [Ro [Rol [Rm [Rmc [Rc Rct0]]]]].
    assert (Htail0 : 0 <= zsum (map cnt_final t)).
    { apply zsum_nonneg. intros v Hv. apply in_map_iff in Hv. destruct Hv as [r' [<- Hr']].
      destruct (zrow_reads s r' (Hwf r' (or_intror Hr'))) as [_ [_ [_ [_ [Rc' _]]]]]. rewrite Rc'. apply len_nonneg. }
    cbn [map zsum] in Hk. pose proof (len_nonneg (block x s r)) as Hb0.
    pose proof (len_nonneg t) as Ht0.
    rewrite <- (Z.add_0_r i) at 1. rewrite Hget by (rewrite len_cons; lia). cbn [Z.to_nat firstn zsum bind].
    rewrite (Hget 1) by (rewrite len_cons; lia).
    change (Z.to_nat 1) with 1%nat. cbn [map firstn zsum bind]. rewrite !Z.add_0_r.
    rewrite Ro.
    assert (Hlo : len (pre ++ repeat (@None Q) k) = W + Z.of_nat k) by (rewrite len_app, len_repeat; lia).
    rewrite Hlo. pose proof (len_nonneg pre).
    unfold clip.
    replace (Z.max 0 (Z.min (W + Z.of_nat k) W)) with W by lia.
    replace (Z.max W (Z.max 0 (Z.min (W + Z.of_nat k) (W + cnt_final r)))) with (W + cnt_final r) by lia.
    assert (Hco : cnt_final r = len (orig cleaned x s r) + len (merged cleaned x s r)).
    { rewrite Rc. unfold Spec.block. apply len_app. }
    pose proof (len_nonneg (merged cleaned x s r)) as Hm0.
    rewrite write_elems_tail; [|exact HW|rewrite len_map; lia|rewrite len_map; lia].
    cbn [bind]. rewrite map_length.
    set (pre1 := pre ++ map Some (map dec (orig cleaned x s r))).
    set (k1 := (k - length (orig cleaned x s r))%nat).
    assert (Hpre1 : len pre1 = W + len (orig cleaned x s r)) by (unfold pre1; rewrite len_app, !len_map; lia).
    assert (Hk1 : Z.of_nat k1 = Z.of_nat k - len (orig cleaned x s r)) by (unfold k1, len in *; lia).
    assert (Hstep : exists pre2 k2,
      (if cleaned
       then write_elems (pre1 ++ repeat None k1) (Z.min (W + Z.max 0 (ct x (zrow r))) (W + cnt_final r))
              (W + cnt_final r) 0
              (map dec (slice (cpart x s) (mst x (zrow r)) (mst x (zrow r) + mct x (zrow r))))
       else Ok (pre1 ++ repeat None k1)) = Ok (pre2 ++ repeat None k2) /\
      pre2 = pre ++ map Some (map dec (block x s r)) /\
      k2 = (k - length (block x s r))%nat).
    { exists (pre ++ map Some (map dec (block x s r))), (k - length (block x s r))%nat.
      split; [|split; reflexivity].
      apply if_cases; intros Hc.
      - destruct (Rm Hc) as [Rms Rml]. rewrite Rms.
        replace (Z.min (W + Z.max 0 (ct x (zrow r))) (W + cnt_final r)) with (len pre1) by lia.
        rewrite write_elems_tail; [|reflexivity|rewrite len_map; lia|rewrite len_map; lia].
        rewrite map_length. f_equal. f_equal.
        + unfold pre1, Spec.block. rewrite <- app_assoc, <- !map_app. reflexivity.
        + unfold k1, Spec.block. rewrite app_length. f_equal. lia.
      - assert (Hme : merged cleaned x s r = []) by (unfold merged; rewrite Hc; reflexivity).
        unfold pre1, k1, Spec.block. rewrite Hme, app_nil_r. reflexivity. }
    destruct Hstep as [pre2 [k2 [E [Hp2 Hk2]]]]. rewrite E. cbn [bind].
    rewrite (IH (i + 1) (W + cnt_final r) pre2 k2).
    + subst pre2 k2. cbn [concat]. rewrite !map_app, <- !app_assoc. rewrite app_length.
      replace (k - (length (block x s r) + length (concat (map (block x s) t))))%nat
        with (k - length (block x s r) - length (concat (map (block x s) t)))%nat by lia. reflexivity.
    + intros r' Hr'. apply Hwf. right. exact Hr'.
    + intros j Hj. replace (i + 1 + j) with (i + (j + 1)) by lia.
      rewrite Hget by (rewrite len_cons; lia).
      replace (Z.to_nat (j + 1)) with (S (Z.to_nat j)) by lia. cbn [map firstn zsum]. f_equal. lia.
    + subst pre2. rewrite len_app, !len_map. lia.
    + subst k2. unfold len in *. lia.
Qed.

End Zip.
