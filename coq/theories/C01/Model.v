(* C01/Model.v — executable model of the CompaSO subsample loader (hand-written, tied to the code by the
   correspondence run of tools/harness/c01.py and c03.py; NO proofs in this file).

   Mirrors, statement by statement, abacusnbody/data/compaso_halo_catalog.py:
     read_halo_info          _read_halo_info        (per-file unpack into the preallocated table, filter_func,
                                                     compaction halos[:n] = halos[mask], N_halo_per_file, truncation)
     compute_indices         _compute_new_subsample_indices   (zeroing of cleaned-away counts, util.cumsum with the
                                                     running total carried from A into B)
     load_subsamples         _load_subsamples       (N_subsamp, halo_file_offsets, per-file row and offset slices)
     zipper                  _unpack_rv_subsamples / _unpack_pid_subsamples (original then merged-in particles per halo)
     update_index_cols       _update_subsample_index_cols
     load                    the part of __init__ that chains them;  load_lc = _load_halo_lc_subsamples
   util.cumsum is NOT re-modelled: the definition regenerated from abacusnbody/util.py (Abacus.C19.Gen.cumsum) is used.

   Particles are abstract records of a type P; the decoded output columns (pos, vel, pid, rvint, packedpid, lagr_idx,
   ...) are [dec p] for a decoder [dec : P -> Q] applied at the moment a record is written, as bitpacked._unpack_rvint
   / _unpack_pids do.  Output cells are [option Q]: [None] is a cell of np.empty that was never written.
   Array accesses by computed index are checked ([get]/[set] of Common/Arr.v: out of range = Oob); slices clip as
   in Python. *)
From Coq Require Import ZArith List Bool.
From Abacus.Common Require Import Arr.
From Abacus.C19 Require Import Spec Gen.   (* Spec only for zsum *)
Import ListNotations.
Local Open Scope Z_scope.
Local Open Scope res_scope.

Inductive ab := SA | SB.

Definition ab_eqb (x y : ab) : bool :=
  match x, y with SA, SA | SB, SB => true | _, _ => false end.

(* one halo row: identity, particle count N, original index columns, cleaning columns *)
Record hrow := mkrow {
  hid : Z; hN : Z;
  stA : Z; ctA : Z; stB : Z; ctB : Z;              (* npstartA npoutA npstartB npoutB *)
  ntot : Z;                                          (* N_total; 0 = cleaned away *)
  mstA : Z; mctA : Z; mstB : Z; mctB : Z }.         (* npstart{A,B}_merge npout{A,B}_merge *)

Definition st (x : ab) (r : hrow) : Z := match x with SA => stA r | SB => stB r end.
Definition ct (x : ab) (r : hrow) : Z := match x with SA => ctA r | SB => ctB r end.
Definition mst (x : ab) (r : hrow) : Z := match x with SA => mstA r | SB => mstB r end.
Definition mct (x : ab) (r : hrow) : Z := match x with SA => mctA r | SB => mctB r end.

Definition set_ct (x : ab) (v : Z) (r : hrow) : hrow :=
  match x with
  | SA => mkrow (hid r) (hN r) (stA r) v (stB r) (ctB r) (ntot r) (mstA r) (mctA r) (mstB r) (mctB r)
  | SB => mkrow (hid r) (hN r) (stA r) (ctA r) (stB r) v (ntot r) (mstA r) (mctA r) (mstB r) (mctB r)
  end.
Definition set_st (x : ab) (v : Z) (r : hrow) : hrow :=
  match x with
  | SA => mkrow (hid r) (hN r) v (ctA r) (stB r) (ctB r) (ntot r) (mstA r) (mctA r) (mstB r) (mctB r)
  | SB => mkrow (hid r) (hN r) (stA r) (ctA r) v (ctB r) (ntot r) (mstA r) (mctA r) (mstB r) (mctB r)
  end.
Definition set_N (v : Z) (r : hrow) : hrow :=
  mkrow (hid r) v (stA r) (ctA r) (stB r) (ctB r) (ntot r) (mstA r) (mctA r) (mstB r) (mctB r).

(* one superslab: halo_info rows, halo_{rv|pid}_{A,B} arrays, cleaned_rvpid arrays *)
Record slab (P : Type) := mkslab {
  s_rows : list hrow;
  s_partA : list P; s_partB : list P;
  s_cpartA : list P; s_cpartB : list P }.
Arguments mkslab {P}. Arguments s_rows {P}. Arguments s_partA {P}. Arguments s_partB {P}.
Arguments s_cpartA {P}. Arguments s_cpartB {P}.

Definition part {P} (x : ab) (s : slab P) : list P := match x with SA => s_partA s | SB => s_partB s end.
Definition cpart {P} (x : ab) (s : slab P) : list P := match x with SA => s_cpartA s | SB => s_cpartB s end.

(* ---------------------------------------------------------------------------------------------------------- *)
(* _read_halo_info                                                                                             *)

(* rows[mask] *)
Fixpoint mask_select {A} (m : list bool) (l : list A) : list A :=
  match m, l with
  | b :: m', a :: l' => if b then a :: mask_select m' l' else mask_select m' l'
  | _, _ => []
  end.

(* element-wise checked copy of [rows] into the table starting at [off] *)
Fixpoint write_rows {A} (tbl : list A) (off : Z) (rows : list A) : res (list A) :=
  match rows with
  | [] => Ok tbl
  | r :: t => tbl' <- set tbl off r ;; write_rows tbl' (off + 1) t
  end.

(* what the table looks like to filter_func and to the user: for cleaned catalogs outside passthrough mode the
   column N_total carries the name N (rename_column('N_total', 'N')) *)
Definition present (cleaned passthrough : bool) (r : hrow) : hrow :=
  if cleaned && negb passthrough then set_N (ntot r) r else r.

Definition filter := list hrow -> list bool.

Fixpoint read_files (cleaned passthrough : bool) (filt : option filter) (files : list (list hrow))
         (tbl : list hrow) (n_written : Z) : res (list hrow * Z * list Z) :=
  match files with
  | [] => Ok (tbl, n_written, [])
  | raw :: rest =>
      (* halos = self.halos[N_written : N_written + len(rawhalos)]; every column is unpacked into it *)
      tbl1 <- write_rows tbl n_written raw ;;
      let halos := slice tbl1 n_written (n_written + len raw) in
      '(tbl2, n_superslab) <-
        match filt with
        | Some f =>
            let mask := f (map (present cleaned passthrough) halos) in
            let sel := mask_select mask halos in
            tbl2 <- write_rows tbl1 n_written sel ;;         (* halos[:nmask] = halos[mask] *)
            Ok (tbl2, len sel)
        | None => Ok (tbl1, len halos)
        end ;;
      '(tbl3, nw, counts) <- read_files cleaned passthrough filt rest tbl2 (n_written + n_superslab) ;;
      Ok (tbl3, nw, n_superslab :: counts)                   (* N_halo_per_file[i] = N_superslab *)
  end.

(* returns (self.halos, N_halo_per_file); [garbage] is the content of np.empty *)
Definition read_halo_info (cleaned passthrough : bool) (filt : option filter) (files : list (list hrow))
           (garbage : hrow) : res (list hrow * list Z) :=
  let n_halos := zsum (map len files) in
  let tbl0 := repeat garbage (Z.to_nat n_halos) in
  '(tbl, nw, counts) <- read_files cleaned passthrough filt files tbl0 0 ;;
  Ok (slice tbl 0 nw, counts).                               (* self.halos = self.halos[:N_written] *)

(* ---------------------------------------------------------------------------------------------------------- *)
(* _compute_new_subsample_indices                                                                              *)

Definition zero_away (x : ab) (r : hrow) : hrow := if ntot r =? 0 then set_ct x 0 r else r.

(* the dict npstartAB_new as an association list in load_AB order *)
Fixpoint compute_indices (cleaned : bool) (load_ab : list ab) (rows : list hrow) (offset : Z)
  : res (list hrow * list (ab * list Z)) :=
  match load_ab with
  | [] => Ok (rows, [])
  | x :: rest =>
      (* self.halos[npoutAB][cleaned_mask] = 0 ; npoutAB = npoutAB + npoutAB_merge *)
      let rows1 := if cleaned then map (zero_away x) rows else rows in
      let npout := map (fun r => if cleaned then ct x r + mct x r else ct x r) rows1 in
      '(starts, offset') <- cumsum npout (repeat 0 (S (length rows1))) true true offset ;;
      '(rows2, m) <- compute_indices cleaned rest rows1 offset' ;;
      Ok (rows2, (x, starts) :: m)
  end.

Fixpoint find_starts (x : ab) (m : list (ab * list Z)) : res (list Z) :=
  match m with
  | [] => Raise KeyError
  | (y, s) :: t => if ab_eqb x y then Ok s else find_starts x t
  end.

(* ---------------------------------------------------------------------------------------------------------- *)
(* _unpack_rv_subsamples / _unpack_pid_subsamples                                                              *)

Definition clip (n a : Z) : Z := Z.max 0 (Z.min n a).

(* out_slice[j] = dec e for the elements of a halo, where out_slice = out[lo:hi]; numba does not check j *)
Fixpoint write_elems {Q} (out : list (option Q)) (lo hi j : Z) (elems : list Q) : res (list (option Q)) :=
  match elems with
  | [] => Ok out
  | e :: t =>
      if lo + j <? hi then out' <- set out (lo + j) (Some e) ;; write_elems out' lo hi (j + 1) t
      else Oob
  end.

Fixpoint zipper {P Q} (dec : P -> Q) (cleaned : bool) (x : ab) (slab_part clean_part : list P)
         (swo : list Z) (i : Z) (rows : list hrow) (out : list (option Q)) : res (list (option Q)) :=
  match rows with
  | [] => Ok out
  | r :: t =>
      let halo_p := slice slab_part (st x r) (st x r + ct x r) in
      wstart <- get swo i ;;
      wend <- get swo (i + 1) ;;
      let lo := clip (len out) wstart in
      let hi := Z.max lo (clip (len out) wend) in            (* out[wstart:wend] *)
      out1 <- write_elems out lo hi 0 (map dec halo_p) ;;
      out2 <- (if cleaned then
                 let chp := slice clean_part (mst x r) (mst x r + mct x r) in
                 let woff := ct x r in                        (* fast-forward the write index *)
                 let lo' := Z.min (lo + Z.max 0 woff) hi in   (* out_slice[woff:] *)
                 write_elems out1 lo' hi 0 (map dec chp)
               else Ok out1) ;;
      zipper dec cleaned x slab_part clean_part swo (i + 1) t out2
  end.

(* ---------------------------------------------------------------------------------------------------------- *)
(* _load_subsamples                                                                                            *)

Fixpoint load_files {P Q} (dec : P -> Q) (cleaned : bool) (x : ab) (rows : list hrow) (starts hfo : list Z)
         (i : Z) (cat : list (slab P)) (out : list (option Q)) : res (list (option Q)) :=
  match cat with
  | [] => Ok out
  | s :: rest =>
      lo <- get hfo i ;;
      hi <- get hfo (i + 1) ;;
      let slab_halos := slice rows lo hi in
      let swo := slice starts lo (hi + 1) in                 (* one extra element: where the last halo ends *)
      out1 <- zipper dec cleaned x (part x s) (cpart x s) swo 0 slab_halos out ;;
      load_files dec cleaned x rows starts hfo (i + 1) rest out1
  end.

Fixpoint load_abs {P Q} (dec : P -> Q) (cleaned : bool) (todo : list ab) (rows : list hrow)
         (dict : list (ab * list Z)) (hfo : list Z) (cat : list (slab P)) (out : list (option Q))
  : res (list (option Q)) :=
  match todo with
  | [] => Ok out
  | x :: rest =>
      starts <- find_starts x dict ;;
      out1 <- load_files dec cleaned x rows starts hfo 0 cat out ;;
      load_abs dec cleaned rest rows dict hfo cat out1
  end.

Definition has_ab (x : ab) (l : list ab) : bool := existsb (ab_eqb x) l.

Definition load_subsamples {P Q} (dec : P -> Q) (cleaned : bool) (load_ab : list ab) (rows : list hrow)
           (dict : list (ab * list Z)) (counts : list Z) (cat : list (slab P)) : res (list (option Q)) :=
  last_starts <- find_starts (if has_ab SB load_ab then SB else SA) dict ;;
  n_subsamp <- get last_starts (-1) ;;
  let out0 := repeat None (Z.to_nat n_subsamp) in
  '(hfo, _) <- cumsum counts (repeat 0 (S (length counts))) true true 0 ;;
  load_abs dec cleaned load_ab rows dict hfo cat out0.

(* ---------------------------------------------------------------------------------------------------------- *)
(* _update_subsample_index_cols                                                                                *)

(* npstart = starts[:-1], npout = diff(starts) *)
Fixpoint reindex (x : ab) (rows : list hrow) (starts : list Z) : list hrow :=
  match rows, starts with
  | r :: t, s0 :: ((s1 :: _) as starts') => set_st x s0 (set_ct x (s1 - s0) r) :: reindex x t starts'
  | _, _ => []
  end.

Fixpoint update_index_cols (todo : list ab) (dict : list (ab * list Z)) (rows : list hrow) : res (list hrow) :=
  match todo with
  | [] => Ok rows
  | x :: rest => starts <- find_starts x dict ;; update_index_cols rest dict (reindex x rows starts)
  end.

(* ---------------------------------------------------------------------------------------------------------- *)
(* CompaSOHaloCatalog.__init__                                                                                 *)

Definition load {P Q} (dec : P -> Q) (cleaned passthrough : bool) (filt : option filter) (load_ab : list ab)
           (cat : list (slab P)) (garbage : hrow) : res (list hrow * list (option Q)) :=
  '(halos, counts) <- read_halo_info cleaned passthrough filt (map s_rows cat) garbage ;;
  match load_ab with
  | [] => Ok (map (present cleaned passthrough) halos, [])
  | _ =>
      '(halos1, dict) <- compute_indices cleaned load_ab halos 0 ;;
      subs <- load_subsamples dec cleaned load_ab halos1 dict counts cat ;;
      halos2 <- update_index_cols load_ab dict halos1 ;;
      Ok (map (present cleaned passthrough) halos2, subs)
  end.

(* Light-cone catalogs (halo_lc): the constructor switches the local `cleaned` off (and unpack_bits), reads the single
   lc_halo_info file through _read_halo_info (filter_func included) and then _load_halo_lc_subsamples takes the
   already-decoded columns of the single lc_pid_rv file as they are; the stored index columns are kept.
   NOTE: follows the REPAIRED _read_halo_info (fixes/C03-lc-filter-rename.patch): the rename of N_total to N for the
   filter is governed by the local `cleaned`; the original tested self.cleaned, which is forced True for light cones,
   and raised KeyError for every filter_func (C03/Findings.v). *)
Definition load_lc {Q} (filt : option filter) (rows : list hrow) (lc_part : list Q) (garbage : hrow)
  : res (list hrow * list (option Q)) :=
  '(halos, _) <- read_halo_info false false filt [rows] garbage ;;
  Ok (halos, map Some lc_part).
