(* C01/Proofs.v — assembly: the whole load, the new index columns, the slices. *)
From Coq Require Import ZArith List Bool Lia.
From Abacus.Common Require Import Arr.
From Abacus.C19 Require Import Spec Gen Proofs.
From Abacus.C01 Require Import Model Spec Lib ProofsRead ProofsIdx ProofsZip ProofsLoad.
Import ListNotations.
Local Open Scope Z_scope.

Lemma ab_ok_nodup l : ab_ok l -> NoDup l.
Proof.
  intros [H|[H|[H|H]]]; subst l; repeat constructor; cbn; try tauto.
  intros [H|[]]; discriminate.
Qed.

(* ---- _update_subsample_index_cols ---------------------------------------------------------------------- *)

(* explicit form of the re-indexed rows *)
Fixpoint assign_index (x : ab) (off : Z) (rows : list hrow) (cnts : list Z) : list hrow :=
  match rows, cnts with
  | r :: t, c :: ct' => set_st x off (set_ct x c r) :: assign_index x (off + c) t ct'
  | _, _ => []
  end.

Lemma reindex_assign x : forall rows cnts off,
  reindex x rows (prefix_sums off cnts) = assign_index x off rows cnts.
Proof.
  induction rows as [|r t IH]; intros cnts off.
  - destruct cnts; reflexivity.
  - destruct cnts as [|c ct']; [reflexivity|].
    cbn [prefix_sums]. fold (prefix_sums (off + c) ct').
    assert (E : exists tl, prefix_sums (off + c) ct' = (off + c) :: tl) by (destruct ct'; eexists; reflexivity).
    destruct E as [tl E]. cbn [reindex]. rewrite E. rewrite <- E. rewrite IH.
    cbn [assign_index]. do 3 f_equal. lia.
Qed.

Lemma assign_index_length x : forall rows cnts off,
  length rows = length cnts -> length (assign_index x off rows cnts) = length rows.
Proof.
  induction rows as [|r t IH]; intros [|c ct'] off H; cbn in *; try lia. rewrite IH; lia.
Qed.

Lemma set_fields y v r :
  (forall x, st x (set_st y v r) = if ab_eqb x y then v else st x r) /\
  (forall x, ct x (set_st y v r) = ct x r) /\
  (forall x, st x (set_ct y v r) = st x r) /\
  (forall x, ct x (set_ct y v r) = if ab_eqb x y then v else ct x r) /\
  hid (set_st y v r) = hid r /\ hid (set_ct y v r) = hid r /\ hN (set_st y v r) = hN r /\ hN (set_ct y v r) = hN r /\
  ntot (set_st y v r) = ntot r /\ ntot (set_ct y v r) = ntot r.
Proof. repeat split; try (destruct y; reflexivity); intros x; destruct x, y; reflexivity. Qed.

(* the g-th re-indexed row *)
Lemma assign_index_nth x : forall rows cnts off g r,
  length rows = length cnts -> nth_error rows g = Some r ->
  nth_error (assign_index x off rows cnts) g
  = Some (set_st x (off + zsum (firstn g cnts)) (set_ct x (nth g cnts 0) r)).
Proof.
  induction rows as [|r0 t IH]; intros [|c ct'] off g r Hl Hn; cbn in Hl; try lia; [destruct g; discriminate|].
  destruct g as [|g].
  - cbn in Hn. inversion Hn; subst. cbn. rewrite Z.add_0_r. reflexivity.
  - cbn [nth_error assign_index] in *. rewrite (IH ct' (off + c) g r) by (try lia; exact Hn).
    cbn [firstn zsum nth]. replace (off + c + zsum (firstn g ct')) with (off + (c + zsum (firstn g ct'))) by lia.
    reflexivity.
Qed.

Section Final.
Context {P Q : Type}.
Variable dec : P -> Q.
Variable cleaned passthrough : bool.
Variable filt : option filter.
Variable l : list ab.
Variable cat : list (slab P).
Hypothesis Hwf : wf_catalog cleaned l cat.
Hypothesis Hfilt : filt_ok filt.
Hypothesis Hab : ab_ok l.

Notation K := (kept cleaned passthrough filt).
Notation blocks := (cat_blocks cleaned passthrough filt).
Notation zrow := (zrow cleaned l).
Notation cnt_final := (cnt_final cleaned).
Notation allrows := (allrows cleaned passthrough filt cat).
Notation counts := (counts cleaned passthrough filt cat).
Notation subs_of := (fun ll => spec_subsamples cleaned passthrough filt ll cat).
Notation present := (present cleaned passthrough).

Let Hnd : NoDup l := ab_ok_nodup l Hab.

Lemma allrows_spec_rows : allrows = spec_rows cleaned passthrough filt cat.
Proof. reflexivity. Qed.

(* block lengths are what the cumulative sums saw *)
Lemma cnt_map_blocks x : In x l -> map (cnt_final x) allrows = map len (blocks x cat).
Proof.
  intros Hx. unfold ProofsLoad.allrows, cat_blocks.
  assert (H : forall ss, (forall s, In s ss -> In s cat) ->
            map (cnt_final x) (flat_map K ss) = map len (flat_map (slab_blocks cleaned passthrough filt x) ss)).
  { induction ss as [|s t IH]; intros Hin; [reflexivity|]. cbn [flat_map]. rewrite !map_app.
    rewrite IH by (intros; apply Hin; right; assumption). f_equal.
    unfold slab_blocks. rewrite map_map. apply map_ext_in. intros r Hr.
    assert (Hs : In s cat) by (apply Hin; left; reflexivity).
    destruct (zrow_reads cleaned l x Hx s r (wf_kept cleaned passthrough filt l cat Hwf x s r Hx Hs Hr))
      as [_ [_ [_ [_ [Rc _]]]]]. exact Rc. }
  apply H. tauto.
Qed.

Lemma n_subsamp_key :
  l <> [] ->
  let key := if has_ab SB l then SB else SA in
  In key l /\ base cleaned l allrows key + total cleaned allrows key = len (subs_of l).
Proof.
  intros Hne key.
  assert (Hlen : len (subs_of l) = zsum (map (total cleaned allrows) l))
    by (apply (len_subs_of cleaned passthrough filt l cat Hwf); tauto).
  cbv beta in *. rewrite Hlen. unfold key.
  clear Hnd Hlen Hwf. destruct Hab as [H|[H|[H|H]]]; rewrite H in *; [congruence| | |]; cbn; (split; [tauto|lia]).
Qed.

Lemma load_subsamples_spec :
  l <> [] ->
  load_subsamples dec cleaned l (map zrow allrows) (dict_final cleaned l allrows 0) counts cat
  = Ok (map Some (map dec (subs_of l))).
Proof.
  intros Hne. unfold load_subsamples.
  destruct (n_subsamp_key Hne) as [Hkey Htot].
  rewrite find_starts_final by exact Hkey. cbn [bind].
  rewrite get_prefix_sums_last. cbn [bind]. rewrite Z.add_0_l. fold (total cleaned allrows (if has_ab SB l then SB else SA)).
  rewrite Htot.
  rewrite cumsum_correct_lemma.
  2:{ unfold expected_len. cbn [b2z]. unfold len. rewrite repeat_length. lia. }
  cbn [bind]. unfold spec_out, Spec.select.
  rewrite <- (app_nil_l (repeat None _)).
  rewrite (load_abs_spec dec cleaned passthrough filt l cat Hwf Hnd l [] [] _ eq_refl).
  - cbn [app]. unfold len. rewrite Nat2Z.id, Nat.sub_diag. cbn [repeat]. apply f_equal, app_nil_r.
  - reflexivity.
  - unfold len. lia.
Qed.

(* the re-indexed rows, explicitly *)
Fixpoint assign_all (todo : list ab) (off : Z) (rows : list hrow) : list hrow :=
  match todo with
  | [] => rows
  | x :: t => assign_all t (off + len (concat (blocks x cat))) (assign_index x off rows (map len (blocks x cat)))
  end.

Lemma blocks_length x : length (blocks x cat) = length allrows.
Proof.
  unfold cat_blocks, ProofsLoad.allrows. generalize cat as ss. induction ss as [|s t IH]; [reflexivity|].
  cbn [flat_map]. rewrite !app_length, IH. unfold slab_blocks. rewrite map_length. reflexivity.
Qed.

Lemma update_index_cols_spec : forall todo done rows,
  l = done ++ todo -> length rows = length allrows ->
  update_index_cols todo (dict_final cleaned l allrows 0) rows
  = Ok (assign_all todo (len (subs_of done)) rows).
Proof.
  induction todo as [|x todo IH]; intros done rows Hl Hlen; [reflexivity|].
  cbn [update_index_cols assign_all].
  assert (Hx : In x l) by (rewrite Hl; apply in_or_app; right; left; reflexivity).
  rewrite find_starts_final by exact Hx. cbn [bind]. rewrite Z.add_0_l.
  rewrite (base_done cleaned passthrough filt l cat Hwf Hnd done x todo Hl).
  rewrite reindex_assign, (cnt_map_blocks x Hx).
  rewrite (IH (done ++ [x])).
  - rewrite spec_subsamples_snoc, len_app. reflexivity.
  - rewrite <- app_assoc. exact Hl.
  - rewrite assign_index_length; [exact Hlen|]. rewrite map_length, blocks_length. exact Hlen.
Qed.

(* ---- the whole load ------------------------------------------------------------------------------------ *)

Definition loaded_rows : list hrow := map present (assign_all l 0 (map zrow allrows)).

Lemma load_spec garbage :
  load dec cleaned passthrough filt l cat garbage = Ok (loaded_rows, map Some (map dec (subs_of l))).
Proof.
  unfold load. rewrite (read_halo_info_spec cleaned passthrough filt Hfilt). cbn [bind].
  assert (Hrows : concat (map (kept_rows cleaned passthrough filt) (map s_rows cat)) = allrows).
  { unfold ProofsLoad.allrows. rewrite map_map. rewrite flat_map_concat_map. reflexivity. }
  assert (Hcounts : map (fun f => len (kept_rows cleaned passthrough filt f)) (map s_rows cat) = counts).
  { unfold ProofsLoad.counts. rewrite map_map. reflexivity. }
  rewrite Hrows, Hcounts.
  destruct l as [|x0 t0] eqn:El.
  - unfold loaded_rows. rewrite El. cbn. unfold ProofsIdx.zrow. cbn. rewrite map_id. reflexivity.
  - rewrite <- El in *. rewrite compute_indices_spec. cbn [bind].
    rewrite load_subsamples_spec by (rewrite El; discriminate). cbn [bind].
    rewrite (update_index_cols_spec l [] _ eq_refl) by (apply map_length). cbn [bind].
    reflexivity.
Qed.

(* ---- the new index columns, row by row ------------------------------------------------------------------ *)

Lemma zsum_firstn_lens (B : list (list P)) g : zsum (firstn g (map len B)) = len (concat (firstn g B)).
Proof. rewrite firstn_map. apply zsum_map_len_concat. Qed.

Lemma nth_lens (B : list (list P)) g : nth g (map len B) 0 = len (nth g B []).
Proof. change 0 with (len (@nil P)). apply map_nth. Qed.

Lemma assign_all_nth : forall todo done rows g r0,
  l = done ++ todo -> length rows = length allrows -> nth_error rows g = Some r0 ->
  exists r1, nth_error (assign_all todo (len (subs_of done)) rows) g = Some r1 /\
    hid r1 = hid r0 /\ hN r1 = hN r0 /\ ntot r1 = ntot r0 /\
    forall x, (In x todo -> st x r1 = block_offset cleaned passthrough filt l x cat g /\
                            ct x r1 = len (block_of cleaned passthrough filt x cat g)) /\
              (~ In x todo -> st x r1 = st x r0 /\ ct x r1 = ct x r0).
Proof.
  induction todo as [|y todo IH]; intros done rows g r0 Hl Hlen Hn.
  - exists r0. cbn [assign_all]. split; [exact Hn|]. split; [reflexivity|]. split; [reflexivity|]. split; [reflexivity|].
    intros x. split; [intros []|intros _; split; reflexivity].
  - cbn [assign_all].
    assert (Hy : In y l) by (rewrite Hl; apply in_or_app; right; left; reflexivity).
    assert (Hlen2 : length rows = length (map len (blocks y cat))) by (rewrite map_length, blocks_length; exact Hlen).
    pose proof (assign_index_nth y rows _ (len (subs_of done)) g r0 Hlen2 Hn) as Hra.
    set (ra := set_st y (len (subs_of done) + zsum (firstn g (map len (blocks y cat))))
                 (set_ct y (nth g (map len (blocks y cat)) 0) r0)) in *.
    destruct (IH (done ++ [y]) (assign_index y (len (subs_of done)) rows (map len (blocks y cat))) g ra)
      as [r1 [E1 [H1 [H2 [H3 H4]]]]].
    + rewrite <- app_assoc. exact Hl.
    + rewrite assign_index_length by exact Hlen2. exact Hlen.
    + exact Hra.
    + rewrite spec_subsamples_snoc, len_app in E1. cbv beta in *. exists r1. split; [exact E1|].
      destruct (set_fields y (len (subs_of done) + zsum (firstn g (map len (blocks y cat))))
                  (set_ct y (nth g (map len (blocks y cat)) 0) r0)) as [S1 [S2 [_ [_ [S5 [_ [S7 [_ [S9 _]]]]]]]]].
      destruct (set_fields y (nth g (map len (blocks y cat)) 0) r0) as [_ [_ [T3 [T4 [_ [T6 [_ [T8 [_ T10]]]]]]]]].
      fold ra in S1, S2, S5, S7, S9.
      split; [rewrite H1, S5, T6; reflexivity|]. split; [rewrite H2, S7, T8; reflexivity|].
      split; [rewrite H3, S9, T10; reflexivity|].
      assert (Hynot : ~ In y todo).
      { rewrite Hl in Hnd. apply NoDup_remove_2 in Hnd. intros H. apply Hnd. apply in_or_app. right. exact H. }
      intros x. destruct (H4 x) as [Hin Hout]. split.
      * intros [<-|Hx]; [|apply Hin; exact Hx].
        destruct (Hout Hynot) as [Hs Hc]. rewrite Hs, Hc, S1, S2, T4, ab_eqb_refl. split.
        -- unfold block_offset. rewrite zsum_firstn_lens.
           rewrite (offset_of_base cleaned passthrough filt l cat Hwf y l) by tauto.
           rewrite (base_done cleaned passthrough filt l cat Hwf Hnd done y todo Hl). reflexivity.
        -- apply nth_lens.
      * intros Hx. assert (Hxy : ab_eqb x y = false).
        { destruct (ab_eqb x y) eqn:E; [|reflexivity]. apply ab_eqb_eq in E. subst. exfalso. apply Hx. left. reflexivity. }
        destruct Hout as [Hs Hc]; [intros H; apply Hx; right; exact H|].
        rewrite Hs, Hc, S1, S2, T3, T4, Hxy. split; reflexivity.
Qed.

Lemma loaded_rows_length : length loaded_rows = length allrows.
Proof.
  unfold loaded_rows. rewrite map_length.
  assert (H : forall todo off rows, length rows = length allrows -> length (assign_all todo off rows) = length allrows).
  { induction todo as [|y t IH]; intros off rows Hr; [exact Hr|]. cbn [assign_all]. apply IH.
    rewrite assign_index_length; [exact Hr|]. rewrite map_length, blocks_length. exact Hr. }
  apply H. apply map_length.
Qed.

(* row g of the loaded table, in terms of row g of the kept rows *)
Lemma loaded_rows_nth g r :
  nth_error allrows g = Some r ->
  exists r', nth_error loaded_rows g = Some r' /\
    hid r' = hid r /\ hN r' = hN (present r) /\
    forall x, (In x l -> st x r' = block_offset cleaned passthrough filt l x cat g /\
                         ct x r' = len (block_of cleaned passthrough filt x cat g)) /\
              (~ In x l -> st x r' = st x r /\ ct x r' = ct x r).
Proof.
  intros Hn.
  assert (Hz : nth_error (map zrow allrows) g = Some (zrow r)) by (rewrite nth_error_map, Hn; reflexivity).
  destruct (assign_all_nth l [] (map zrow allrows) g (zrow r) eq_refl (map_length _ _) Hz)
    as [r1 [E1 [H1 [H2 [H3 H4]]]]].
  exists (present r1). unfold loaded_rows. split.
  { cbv beta in E1. change (len (spec_subsamples cleaned passthrough filt [] cat)) with 0 in E1.
    rewrite nth_error_map, E1. reflexivity. }
  destruct (zrow_fields cleaned l r) as [F1 [F2 [F3 [F4 [_ [_ F7]]]]]].
  assert (Hp : forall q, hid (present q) = hid q /\ (forall x, st x (present q) = st x q) /\
                         (forall x, ct x (present q) = ct x q) /\
                         hN (present q) = if cleaned && negb passthrough then ntot q else hN q).
  { intros q. unfold Model.present. destruct (cleaned && negb passthrough); repeat split; intros; try reflexivity;
      destruct x; reflexivity. }
  destruct (Hp r1) as [P1 [P2 [P3 P4]]]. destruct (Hp r) as [_ [_ [_ P4r]]].
  split; [rewrite P1, H1, F1; reflexivity|]. split; [rewrite P4, P4r, H2, H3, F2, F3; reflexivity|].
  intros x. destruct (H4 x) as [Hin Hout]. rewrite P2, P3. split; [exact Hin|].
  intros Hx. destruct (Hout Hx) as [Hs Hc]. rewrite Hs, Hc, F4, F7.
  assert (Hh : has_ab x l = false).
  { destruct (has_ab x l) eqn:E; [|reflexivity]. apply has_ab_in in E. contradiction. }
  rewrite Hh, andb_false_r. split; reflexivity.
Qed.

(* ---- each row's slice is its own block ------------------------------------------------------------------ *)

Lemma subs_split x : forall ll, In x ll -> NoDup ll ->
  exists pre post, subs_of ll = pre ++ concat (blocks x cat) ++ post /\
                   len pre = offset_of cleaned passthrough filt ll x cat.
Proof.
  induction ll as [|y t IH]; intros Hin Hn; [destruct Hin|].
  unfold spec_subsamples. cbn [flat_map offset_of]. destruct (ab_eqb x y) eqn:E.
  - apply ab_eqb_eq in E. subst y. exists [], (flat_map (fun x0 => concat (blocks x0 cat)) t). split; reflexivity.
  - destruct Hin as [->|Hin]; [rewrite ab_eqb_refl in E; discriminate|].
    inversion Hn; subst. destruct (IH Hin H2) as [pre [post [E1 E2]]].
    exists (concat (blocks y cat) ++ pre), post. unfold spec_subsamples in E1. rewrite E1, len_app, E2.
    split; [rewrite <- app_assoc; reflexivity|reflexivity].
Qed.

Lemma concat_split_nth (B : list (list P)) g :
  (g < length B)%nat -> concat B = concat (firstn g B) ++ nth g B [] ++ concat (skipn (S g) B).
Proof.
  revert g; induction B as [|b t IH]; intros g Hg; [cbn in Hg; lia|].
  destruct g as [|g]; [reflexivity|]. cbn [firstn nth skipn concat]. rewrite (IH g) at 1 by (cbn in Hg; lia).
  rewrite <- app_assoc. reflexivity.
Qed.

Lemma slice_mid_map {A B} (f : A -> B) (p m q : list A) :
  slice (map f (p ++ m ++ q)) (len p) (len p + len m) = map f m.
Proof. rewrite !map_app. rewrite <- (len_map f p), <- (len_map f m). apply slice_app_mid. Qed.

Lemma slice_own_block x g r' :
  In x l -> (g < length allrows)%nat ->
  st x r' = block_offset cleaned passthrough filt l x cat g ->
  ct x r' = len (block_of cleaned passthrough filt x cat g) ->
  row_slice x (map Some (map dec (subs_of l))) r' = map Some (map dec (block_of cleaned passthrough filt x cat g)).
Proof.
  intros Hx Hg Hs Hc. unfold row_slice. rewrite Hs, Hc. unfold block_offset, block_of.
  destruct (subs_split x l Hx Hnd) as [pre [post [E1 E2]]]. cbv beta in E1. rewrite E1.
  rewrite (concat_split_nth (blocks x cat) g) by (rewrite blocks_length; exact Hg).
  rewrite <- E2. rewrite !map_map.
  replace (pre ++ (concat (firstn g (blocks x cat)) ++ nth g (blocks x cat) [] ++ concat (skipn (S g) (blocks x cat))) ++ post)
    with ((pre ++ concat (firstn g (blocks x cat))) ++ nth g (blocks x cat) [] ++ (concat (skipn (S g) (blocks x cat)) ++ post))
    by (rewrite <- !app_assoc; reflexivity).
  rewrite <- len_app. apply slice_mid_map.
Qed.

End Final.

(* ---- the slices tile the table ------------------------------------------------------------------------- *)

Fixpoint pairs_from (off : Z) (cs : list Z) : list (Z * Z) :=
  match cs with [] => [] | c :: t => (off, c) :: pairs_from (off + c) t end.

Definition idx (x : ab) (r : hrow) : Z * Z := (st x r, ct x r).

Lemma idx_assign_same x : forall rows cnts off,
  length rows = length cnts -> map (idx x) (assign_index x off rows cnts) = pairs_from off cnts.
Proof.
  induction rows as [|r t IH]; intros [|c ct'] off H; cbn in H; try lia; [reflexivity|].
  cbn [assign_index map pairs_from]. rewrite IH by lia. f_equal.
  destruct (set_fields x off (set_ct x c r)) as [S1 [S2 _]].
  destruct (set_fields x c r) as [_ [_ [_ [T4 _]]]].
  unfold idx. rewrite S1, S2, T4, ab_eqb_refl. reflexivity.
Qed.

Lemma idx_assign_other x y : ab_eqb x y = false -> forall rows cnts off,
  length rows = length cnts -> map (idx x) (assign_index y off rows cnts) = map (idx x) rows.
Proof.
  intros Hxy. induction rows as [|r t IH]; intros [|c ct'] off H; cbn in H; try lia; [reflexivity|].
  cbn [assign_index map]. rewrite IH by lia. f_equal.
  destruct (set_fields y off (set_ct y c r)) as [S1 [S2 _]].
  destruct (set_fields y c r) as [_ [_ [T3 [T4 _]]]].
  unfold idx. rewrite S1, S2, T3, T4, Hxy. reflexivity.
Qed.

Lemma idx_present cleaned passthrough x rows :
  map (idx x) (map (present cleaned passthrough) rows) = map (idx x) rows.
Proof.
  rewrite map_map. apply map_ext. intros r. unfold idx, present.
  destruct (cleaned && negb passthrough); [|reflexivity]. destruct x; reflexivity.
Qed.

Lemma tiles_app p1 : forall p2 a b c, tiles p1 a b -> tiles p2 b c -> tiles (p1 ++ p2) a c.
Proof.
  induction p1 as [|[s n] t IH]; intros p2 a b c H1 H2; cbn in *.
  - subst. exact H2.
  - destruct H1 as [E [Hn Ht]]. repeat split; try assumption. eapply IH; eassumption.
Qed.

Lemma tiles_pairs_from cs : forall off, (forall c, In c cs -> 0 <= c) -> tiles (pairs_from off cs) off (off + zsum cs).
Proof.
  induction cs as [|c t IH]; intros off H; cbn [pairs_from tiles zsum].
  - lia.
  - split; [reflexivity|]. split; [apply H; left; reflexivity|].
    replace (off + (c + zsum t)) with (off + c + zsum t) by lia. apply IH. intros; apply H; right; assumption.
Qed.

Lemma lens_nonneg {P} (B : list (list P)) : forall c, In c (map len B) -> 0 <= c.
Proof. intros c Hc. apply in_map_iff in Hc. destruct Hc as [b [<- _]]. apply len_nonneg. Qed.

Lemma slices_tile_lemma {P} (cleaned passthrough : bool) (filt : option filter) (l : list ab) (cat : list (slab P)) :
  ab_ok l ->
  tiles (flat_map (fun x => map (idx x) (loaded_rows cleaned passthrough filt l cat)) l)
        0 (len (spec_subsamples cleaned passthrough filt l cat)).
Proof.
  set (rowsZ := map (zrow cleaned l) (allrows cleaned passthrough filt cat)).
  assert (HlenB : forall x, length rowsZ = length (map len (cat_blocks cleaned passthrough filt x cat))).
  { intros x. unfold rowsZ. rewrite !map_length. symmetry. apply blocks_length. }
  unfold loaded_rows. fold rowsZ. clearbody rowsZ.
  intros [H|[H|[H|H]]]; subst l; unfold spec_subsamples; cbn [flat_map assign_all app].
  - reflexivity.
  - rewrite !app_nil_r, idx_present, idx_assign_same by apply HlenB.
    rewrite <- zsum_map_len_concat. apply (tiles_pairs_from _ 0). apply lens_nonneg.
  - rewrite !app_nil_r, idx_present, idx_assign_same by apply HlenB.
    rewrite <- zsum_map_len_concat. apply (tiles_pairs_from _ 0). apply lens_nonneg.
  - rewrite !app_nil_r, !idx_present.
    rewrite idx_assign_same by (rewrite assign_index_length by apply HlenB; apply HlenB).
    rewrite idx_assign_other by (try reflexivity; rewrite assign_index_length by apply HlenB; apply HlenB).
    rewrite idx_assign_same by apply HlenB.
    rewrite len_app, <- !zsum_map_len_concat.
    eapply tiles_app; [apply (tiles_pairs_from _ 0); apply lens_nonneg|].
    apply tiles_pairs_from. apply lens_nonneg.
Qed.

(* ---- statements in the form used by Properties.v -------------------------------------------------------- *)

Section Top.
Context {P Q : Type}.
Variable dec : P -> Q.
Variable cleaned passthrough : bool.
Variable filt : option filter.
Variable l : list ab.
Variable cat : list (slab P).
Variable garbage : hrow.
Hypothesis Hwf : wf_catalog cleaned l cat.
Hypothesis Hfilt : filt_ok filt.
Hypothesis Hab : ab_ok l.

Lemma zipper_refines_spec_lemma :
  exists rows', load dec cleaned passthrough filt l cat garbage
                = Ok (rows', map Some (map dec (spec_subsamples cleaned passthrough filt l cat))).
Proof. eexists. apply load_spec; assumption. Qed.

Lemma zipper_safe_lemma : is_ok (load dec cleaned passthrough filt l cat garbage) = true.
Proof. rewrite (load_spec dec cleaned passthrough filt l cat Hwf Hfilt Hab). reflexivity. Qed.

Lemma load_inv rows' subs :
  load dec cleaned passthrough filt l cat garbage = Ok (rows', subs) ->
  rows' = loaded_rows cleaned passthrough filt l cat /\
  subs = map Some (map dec (spec_subsamples cleaned passthrough filt l cat)).
Proof.
  rewrite (load_spec dec cleaned passthrough filt l cat Hwf Hfilt Hab). intros H. inversion H. split; reflexivity.
Qed.

Lemma index_columns_spec_lemma rows' subs :
  load dec cleaned passthrough filt l cat garbage = Ok (rows', subs) ->
  length rows' = length (spec_rows cleaned passthrough filt cat) /\
  forall g r, nth_error (spec_rows cleaned passthrough filt cat) g = Some r ->
    exists r', nth_error rows' g = Some r' /\
      hid r' = hid r /\ hN r' = hN (present cleaned passthrough r) /\
      forall x, (In x l -> st x r' = block_offset cleaned passthrough filt l x cat g /\
                           ct x r' = len (block_of cleaned passthrough filt x cat g)) /\
                (~ In x l -> st x r' = st x r /\ ct x r' = ct x r).
Proof.
  intros H. destruct (load_inv _ _ H) as [-> _]. split.
  - apply loaded_rows_length.
  - intros g r Hn. apply loaded_rows_nth; assumption.
Qed.

Lemma slice_is_own_particles_lemma rows' subs :
  load dec cleaned passthrough filt l cat garbage = Ok (rows', subs) ->
  forall g r' x, In x l -> nth_error rows' g = Some r' ->
    row_slice x subs r' = map Some (map dec (block_of cleaned passthrough filt x cat g)).
Proof.
  intros H g r' x Hx Hn. destruct (load_inv _ _ H) as [-> ->].
  assert (Hg : (g < length (allrows cleaned passthrough filt cat))%nat).
  { rewrite <- (loaded_rows_length cleaned passthrough filt l cat). apply nth_error_Some. congruence. }
  destruct (nth_error (allrows cleaned passthrough filt cat) g) as [r|] eqn:Er;
    [|apply nth_error_None in Er; lia].
  destruct (loaded_rows_nth cleaned passthrough filt l cat Hwf Hab g r Er) as [r2 [E2 [_ [_ H4]]]].
  rewrite Hn in E2. inversion E2; subst r2. destruct (H4 x) as [Hin _]. destruct (Hin Hx) as [Hs Hc].
  apply slice_own_block; assumption.
Qed.

Lemma slices_tile_lemma2 rows' subs :
  load dec cleaned passthrough filt l cat garbage = Ok (rows', subs) ->
  tiles (flat_map (fun x => map (fun r' => (st x r', ct x r')) rows') l) 0 (len subs).
Proof.
  intros H. destruct (load_inv _ _ H) as [-> ->]. rewrite !len_map.
  apply (slices_tile_lemma cleaned passthrough filt l cat Hab).
Qed.

Lemma decode_commutes_lemma rows' subs rows0 subs0 :
  load dec cleaned passthrough filt l cat garbage = Ok (rows', subs) ->
  load (fun p : P => p) cleaned passthrough filt l cat garbage = Ok (rows0, subs0) ->
  rows' = rows0 /\ subs = map (option_map dec) subs0.
Proof.
  intros H H0. destruct (load_inv _ _ H) as [-> ->].
  rewrite (load_spec (fun p : P => p) cleaned passthrough filt l cat Hwf Hfilt Hab) in H0. inversion H0.
  split; [reflexivity|]. rewrite map_id, !map_map. reflexivity.
Qed.

End Top.

(* the g-th block is the block of the g-th kept row, in its own superslab *)
Lemma block_of_row {P} cleaned passthrough filt (x : ab) (cat : list (slab P)) : forall g r,
  nth_error (spec_rows cleaned passthrough filt cat) g = Some r ->
  exists s, In s cat /\ In r (kept cleaned passthrough filt s) /\
            block_of cleaned passthrough filt x cat g = block cleaned x s r.
Proof.
  unfold spec_rows, block_of, cat_blocks. induction cat as [|s t IH]; intros g r Hn; [destruct g; discriminate|].
  cbn [flat_map] in *.
  destruct (Nat.ltb_spec g (length (kept cleaned passthrough filt s))) as [Hlt|Hge].
  - rewrite nth_error_app1 in Hn by exact Hlt. exists s. split; [left; reflexivity|].
    split; [eapply nth_error_In; exact Hn|].
    rewrite app_nth1 by (unfold slab_blocks; rewrite map_length; exact Hlt).
    unfold slab_blocks. rewrite (nth_indep _ [] (block cleaned x s r)) by (rewrite map_length; exact Hlt).
    rewrite map_nth. f_equal. apply nth_error_nth. exact Hn.
  - rewrite nth_error_app2 in Hn by exact Hge.
    destruct (IH _ _ Hn) as [s' [Hs' [Hr' Hb]]]. exists s'. split; [right; exact Hs'|]. split; [exact Hr'|].
    rewrite app_nth2 by (unfold slab_blocks; rewrite map_length; lia).
    unfold slab_blocks at 1. rewrite map_length. exact Hb.
Qed.

Lemma lc_layout_lemma {Q} (filt : option filter) (rows : list hrow) (lc_part : list Q) garbage :
  filt_ok filt ->
  load_lc filt rows lc_part garbage = Ok (kept_rows false false filt rows, map Some lc_part).
Proof.
  intros Hf. unfold load_lc. rewrite (read_halo_info_spec false false filt Hf). cbn. rewrite app_nil_r. reflexivity.
Qed.
