(* C01/Lib.v — list, slice and checked-write lemmas used by the C01/C03 proofs. *)
From Coq Require Import ZArith List Bool Lia.
From Abacus.Common Require Import Arr.
From Abacus.C19 Require Import Spec Proofs.
From Abacus.C01 Require Import Model.
Import ListNotations.
Local Open Scope Z_scope.

Lemma len_map {A B} (f : A -> B) l : len (map f l) = len l.
Proof. unfold len; rewrite map_length; reflexivity. Qed.

Lemma len_repeat {A} (a : A) n : len (repeat a n) = Z.of_nat n.
Proof. unfold len; rewrite repeat_length; reflexivity. Qed.

Lemma len_firstn_skipn {A} (l : list A) a c :
  0 <= a -> 0 <= c -> a + c <= len l -> len (firstn (Z.to_nat c) (skipn (Z.to_nat a) l)) = c.
Proof. unfold len; intros. rewrite firstn_length, skipn_length. lia. Qed.

(* ---- slices ---------------------------------------------------------------------------------------------- *)

Lemma slice_exact {A} (l : list A) a c :
  0 <= a -> 0 <= c -> a + c <= len l ->
  slice l a (a + c) = firstn (Z.to_nat c) (skipn (Z.to_nat a) l).
Proof.
  intros Ha Hc Hl. unfold slice.
  destruct (a <? 0) eqn:E1; [lia|]. destruct (a + c <? 0) eqn:E2; [lia|].
  pose proof (len_nonneg l).
  replace (Z.max 0 (Z.min (len l) a)) with a by lia.
  replace (Z.max 0 (Z.min (len l) (a + c))) with (a + c) by lia.
  replace (a + c - a) with c by lia. reflexivity.
Qed.

Lemma slice_same {A} (l : list A) a : slice l a a = [].
Proof. unfold slice. rewrite Z.sub_diag. reflexivity. Qed.

Lemma slice_app_mid {A} (p m q : list A) :
  slice (p ++ m ++ q) (len p) (len p + len m) = m.
Proof.
  rewrite slice_exact; try apply len_nonneg.
  - unfold len. rewrite !Nat2Z.id. rewrite skipn_app, skipn_all, Nat.sub_diag. cbn [app skipn].
    rewrite firstn_app, firstn_all, Nat.sub_diag. cbn [firstn]. apply app_nil_r.
  - rewrite !len_app. pose proof (len_nonneg q). lia.
Qed.

Lemma slice_prefix {A} (l q : list A) : slice (l ++ q) 0 (len l) = l.
Proof. apply (slice_app_mid [] l q). Qed.

Lemma len_slice_exact {A} (l : list A) a c :
  0 <= a -> 0 <= c -> a + c <= len l -> len (slice l a (a + c)) = c.
Proof. intros. rewrite slice_exact by assumption. apply len_firstn_skipn; assumption. Qed.

Lemma get_app_mid {A} (p : list A) a q : get (p ++ a :: q) (len p) = Ok a.
Proof.
  rewrite (get_ok_nth _ _ a).
  - unfold len. rewrite Nat2Z.id. rewrite app_nth2, Nat.sub_diag by lia. reflexivity.
  - rewrite len_app, len_cons. pose proof (len_nonneg p). pose proof (len_nonneg q). lia.
Qed.

Lemma get_app_inner {A} (p m q : list A) j :
  0 <= j < len m -> get (p ++ m ++ q) (len p + j) = get m j.
Proof.
  intros Hj. destruct m as [|d m']; [unfold len in Hj; cbn in Hj; lia|].
  set (m := d :: m') in *.
  pose proof (len_nonneg p). pose proof (len_nonneg q).
  rewrite (get_ok_nth _ _ d) by (rewrite !len_app; lia).
  rewrite (get_ok_nth _ _ d) by lia. f_equal.
  rewrite app_nth2 by (unfold len; lia).
  replace (Z.to_nat (len p + j) - length p)%nat with (Z.to_nat j) by (unfold len; lia).
  apply app_nth1. unfold len in Hj. lia.
Qed.

Lemma split3 {A} (l : list A) lo hi :
  0 <= lo -> lo <= hi -> hi <= len l ->
  exists p m q, l = p ++ m ++ q /\ len p = lo /\ len m = hi - lo.
Proof.
  intros H0 H1 H2.
  exists (firstn (Z.to_nat lo) l), (firstn (Z.to_nat (hi - lo)) (skipn (Z.to_nat lo) l)),
         (skipn (Z.to_nat (hi - lo)) (skipn (Z.to_nat lo) l)).
  split; [rewrite !firstn_skipn; reflexivity|].
  unfold len in *. rewrite !firstn_length, skipn_length. lia.
Qed.

Lemma get_slice {A} (l : list A) lo hi j :
  0 <= lo -> lo <= hi -> hi <= len l -> 0 <= j < hi - lo ->
  get (slice l lo hi) j = get l (lo + j).
Proof.
  intros H0 H1 H2 Hj.
  destruct (split3 l lo hi H0 H1 H2) as [p [m [q [El [Hp Hm]]]]]. subst l.
  rewrite <- Hp at 1. replace hi with (len p + len m) by lia. rewrite slice_app_mid.
  rewrite <- Hp. rewrite get_app_inner by lia. reflexivity.
Qed.

(* ---- prefix sums ----------------------------------------------------------------------------------------- *)

Lemma get_prefix_sums off l j :
  0 <= j <= len l -> get (prefix_sums off l) j = Ok (off + zsum (firstn (Z.to_nat j) l)).
Proof.
  intros Hj. rewrite (get_ok_nth _ _ 0).
  - rewrite prefix_sums_nth; [reflexivity|]. unfold len in Hj. lia.
  - unfold len in *. rewrite prefix_sums_length. lia.
Qed.

Lemma get_prefix_sums_last off l : get (prefix_sums off l) (-1) = Ok (off + zsum l).
Proof.
  rewrite (get_neg_nth _ _ 0).
  - unfold len. rewrite prefix_sums_length. rewrite prefix_sums_nth by lia.
    replace (Z.to_nat (-1 + Z.of_nat (S (length l)))) with (length l) by lia. rewrite firstn_all. reflexivity.
  - unfold len. rewrite prefix_sums_length. lia.
Qed.

Lemma len_prefix_sums off l : len (prefix_sums off l) = len l + 1.
Proof. unfold len. rewrite prefix_sums_length. lia. Qed.

Lemma zsum_nonneg l : (forall v, In v l -> 0 <= v) -> 0 <= zsum l.
Proof.
  induction l as [|a t IH]; intros H; cbn [zsum]; [lia|].
  assert (0 <= a) by (apply H; left; reflexivity). assert (0 <= zsum t) by (apply IH; intros; apply H; right; assumption). lia.
Qed.

Lemma zsum_firstn_le l n : (forall v, In v l -> 0 <= v) -> zsum (firstn n l) <= zsum l.
Proof.
  intros H. rewrite <- (firstn_skipn n l) at 2. rewrite zsum_app.
  assert (0 <= zsum (skipn n l)); [|lia]. apply zsum_nonneg. intros v Hv. apply H.
  rewrite <- (firstn_skipn n l). apply in_or_app; right; assumption.
Qed.

Lemma zsum_map_len_concat {A} (ll : list (list A)) : zsum (map len ll) = len (concat ll).
Proof. induction ll as [|a t IH]; cbn [map zsum concat]; [reflexivity|]. rewrite len_app, IH. reflexivity. Qed.

(* ---- checked writes -------------------------------------------------------------------------------------- *)

Lemma set_app_mid {A} (p : list A) a q v : set (p ++ a :: q) (len p) v = Ok (p ++ v :: q).
Proof.
  rewrite set_ok.
  - unfold len. rewrite Nat2Z.id. rewrite set_nth_app_r by lia. rewrite Nat.sub_diag. reflexivity.
  - rewrite len_app, len_cons. pose proof (len_nonneg p). pose proof (len_nonneg q). lia.
Qed.

Lemma write_rows_ok {A} (rows pre mid post : list A) off :
  off = len pre -> (length rows <= length mid)%nat ->
  write_rows (pre ++ mid ++ post) off rows = Ok (pre ++ rows ++ skipn (length rows) mid ++ post).
Proof.
  revert pre mid off. induction rows as [|r t IH]; intros pre mid off Hoff Hlen.
  - cbn. reflexivity.
  - destruct mid as [|m0 mid]; [cbn in Hlen; lia|].
    cbn [write_rows]. subst off. cbn [app]. rewrite set_app_mid. cbn [bind].
    replace (pre ++ r :: mid ++ post) with ((pre ++ [r]) ++ mid ++ post) by (rewrite <- app_assoc; reflexivity).
    rewrite IH.
    + rewrite <- app_assoc. reflexivity.
    + rewrite len_app. unfold len; cbn. lia.
    + cbn in Hlen. lia.
Qed.

Lemma write_elems_ok {Q} (elems : list Q) (pre mid post : list (option Q)) lo hi j :
  lo + j = len pre -> lo + j + len elems <= hi -> (length elems <= length mid)%nat ->
  write_elems (pre ++ mid ++ post) lo hi j elems
  = Ok (pre ++ map Some elems ++ skipn (length elems) mid ++ post).
Proof.
  revert pre mid j. induction elems as [|e t IH]; intros pre mid j Hoff Hhi Hlen.
  - cbn. reflexivity.
  - destruct mid as [|m0 mid]; [cbn in Hlen; lia|].
    cbn [write_elems]. rewrite len_cons in Hhi. pose proof (len_nonneg t).
    destruct (lo + j <? hi) eqn:E; [|lia].
    rewrite Hoff. cbn [app]. rewrite set_app_mid. cbn [bind].
    replace (pre ++ Some e :: mid ++ post) with ((pre ++ [Some e]) ++ mid ++ post) by (rewrite <- app_assoc; reflexivity).
    rewrite IH.
    + rewrite <- app_assoc. reflexivity.
    + rewrite len_app. unfold len at 2; cbn. lia.
    + lia.
    + cbn in Hlen. lia.
Qed.

Lemma skipn_repeat {A} (a : A) n k : skipn n (repeat a k) = repeat a (k - n).
Proof.
  revert k; induction n as [|n IH]; intros k; [rewrite Nat.sub_0_r; reflexivity|].
  destruct k as [|k]; [reflexivity|]. cbn [repeat skipn]. rewrite IH. reflexivity.
Qed.

(* writing a block into the unwritten tail *)
Lemma write_elems_tail {Q} (elems : list Q) (pre : list (option Q)) k lo hi :
  lo = len pre -> lo + len elems <= hi -> len elems <= Z.of_nat k ->
  write_elems (pre ++ repeat None k) lo hi 0 elems
  = Ok ((pre ++ map Some elems) ++ repeat None (k - length elems)).
Proof.
  intros Hlo Hhi Hk.
  rewrite <- (app_nil_r (repeat None k)).
  rewrite write_elems_ok; [|lia|lia|rewrite repeat_length; unfold len in Hk; lia].
  rewrite skipn_repeat, app_nil_r, app_assoc. reflexivity.
Qed.

(* ---- mask selection -------------------------------------------------------------------------------------- *)

Lemma mask_select_length {A} (m : list bool) (l : list A) : (length (mask_select m l) <= length l)%nat.
Proof.
  revert l; induction m as [|b m IH]; intros [|a l]; cbn; try lia.
  destruct b; cbn; specialize (IH l); lia.
Qed.

Lemma mask_select_in {A} (m : list bool) (l : list A) r : In r (mask_select m l) -> In r l.
Proof.
  revert l; induction m as [|b m IH]; intros [|a l]; cbn; try tauto.
  destruct b; cbn; intros H; [destruct H as [H|H]; [left; exact H|right; apply IH; exact H]|right; apply IH; exact H].
Qed.

Lemma mask_select_all {A} (l : list A) : mask_select (repeat true (length l)) l = l.
Proof. induction l as [|a l IH]; cbn; [reflexivity|]. rewrite IH; reflexivity. Qed.

Lemma mask_select_none {A} (l : list A) : mask_select (repeat false (length l)) l = [].
Proof. induction l as [|a l IH]; cbn; [reflexivity|]. exact IH. Qed.

Lemma mask_select_app {A} (m1 m2 : list bool) (l1 l2 : list A) :
  length m1 = length l1 -> mask_select (m1 ++ m2) (l1 ++ l2) = mask_select m1 l1 ++ mask_select m2 l2.
Proof.
  revert l1; induction m1 as [|b m1 IH]; intros [|a l1] H; cbn in *; try discriminate; [reflexivity|].
  destruct b; cbn; rewrite IH by lia; reflexivity.
Qed.

Lemma mask_select_map {A B} (f : A -> B) (m : list bool) (l : list A) :
  mask_select m (map f l) = map f (mask_select m l).
Proof.
  revert l; induction m as [|b m IH]; intros [|a l]; cbn; try reflexivity.
  destruct b; cbn; rewrite IH; reflexivity.
Qed.
