(* C01/ProofsRead.v — _read_halo_info: the preallocated table ends up holding, in file order, exactly the rows each
   superslab's filter mask keeps; N_halo_per_file holds the kept counts (used by C01 and C03). *)
From Coq Require Import ZArith List Bool Lia.
From Abacus.Common Require Import Arr.
From Abacus.C19 Require Import Spec Proofs.
From Abacus.C01 Require Import Model Spec Lib.
Import ListNotations.
Local Open Scope Z_scope.

Section Read.
Variable cleaned passthrough : bool.
Variable filt : option filter.
Hypothesis Hfilt : filt_ok filt.

Notation kept_rows := (kept_rows cleaned passthrough filt).

Lemma kept_rows_length rows : (length (kept_rows rows) <= length rows)%nat.
Proof. clear Hfilt. unfold Spec.kept_rows. destruct filt; [apply mask_select_length|lia]. Qed.

Lemma kept_rows_in rows r : In r (kept_rows rows) -> In r rows.
Proof. clear Hfilt. unfold Spec.kept_rows. destruct filt; [apply mask_select_in|tauto]. Qed.

Lemma read_files_spec files : forall pre junk nw,
  nw = len pre -> zsum (map len files) <= len junk ->
  exists junk',
    read_files cleaned passthrough filt files (pre ++ junk) nw
    = Ok (pre ++ concat (map kept_rows files) ++ junk',
          nw + len (concat (map kept_rows files)),
          map (fun f => len (kept_rows f)) files).
Proof.
  induction files as [|raw rest IH]; intros pre junk nw Hnw Hroom.
  - exists junk. cbn. rewrite Z.add_0_r. reflexivity.
  - cbn [map zsum] in Hroom. pose proof (len_nonneg raw) as Hraw0.
    assert (Hrest0 : 0 <= zsum (map len rest)).
    { apply zsum_nonneg. intros v Hv. apply in_map_iff in Hv. destruct Hv as [l [<- _]]. apply len_nonneg. }
    set (mid := firstn (length raw) junk). set (post := skipn (length raw) junk).
    assert (Hj : junk = mid ++ post) by (symmetry; apply firstn_skipn).
    assert (Hmid : length mid = length raw) by (unfold mid; rewrite firstn_length; unfold len in *; lia).
    assert (Hpost : len post = len junk - len raw) by (unfold post, len; rewrite skipn_length; unfold len in *; lia).
    cbn [read_files]. rewrite Hj.
    rewrite (write_rows_ok raw pre mid post nw Hnw) by lia.
    assert (Hsk : skipn (length raw) mid = []) by (rewrite <- Hmid; apply skipn_all).
    rewrite Hsk. cbn [app bind].
    assert (Hsl : slice (pre ++ raw ++ post) nw (nw + len raw) = raw) by (subst nw; apply slice_app_mid).
    rewrite Hsl.
    assert (Hstep : exists n tbl2 junk2,
      (match filt with
       | Some f =>
           tbl2 <- write_rows (pre ++ raw ++ post) nw
                     (mask_select (f (map (present cleaned passthrough) raw)) raw) ;;
           Ok (tbl2, len (mask_select (f (map (present cleaned passthrough) raw)) raw))
       | None => Ok (pre ++ raw ++ post, len raw)
       end) = Ok (tbl2, n) /\ n = len (kept_rows raw) /\ tbl2 = (pre ++ kept_rows raw) ++ junk2 /\ len post <= len junk2).
    { unfold Spec.kept_rows. destruct filt as [f|].
      - set (sel := mask_select (f (map (present cleaned passthrough) raw)) raw).
        exists (len sel), (pre ++ sel ++ skipn (length sel) raw ++ post), (skipn (length sel) raw ++ post).
        rewrite (write_rows_ok sel pre raw post nw Hnw) by apply mask_select_length. cbn [bind].
        repeat split; [rewrite <- app_assoc; reflexivity|]. rewrite len_app. pose proof (len_nonneg (skipn (length sel) raw)). lia.
      - exists (len raw), (pre ++ raw ++ post), post. repeat split; [rewrite <- app_assoc; reflexivity|lia]. }
    destruct Hstep as [n [tbl2 [junk2 [E [Hn [Ht Hj2]]]]]]. rewrite E. cbn [bind]. subst tbl2.
    destruct (IH (pre ++ kept_rows raw) junk2 (nw + n)) as [junk' E'].
    + rewrite len_app. lia.
    + lia.
    + rewrite E'. cbn [bind]. exists junk'. cbn [map concat]. rewrite <- !app_assoc. rewrite len_app. subst n.
      do 2 f_equal. f_equal. lia.
Qed.

Lemma read_halo_info_spec files garbage :
  read_halo_info cleaned passthrough filt files garbage
  = Ok (concat (map kept_rows files), map (fun f => len (kept_rows f)) files).
Proof.
  unfold read_halo_info.
  destruct (read_files_spec files [] (repeat garbage (Z.to_nat (zsum (map len files)))) 0) as [junk' E].
  - reflexivity.
  - rewrite len_repeat. lia.
  - cbn [app] in E. rewrite E. cbn [bind]. rewrite Z.add_0_l. rewrite slice_prefix. reflexivity.
Qed.

End Read.
