(* C01/Run.v — executable glue for the correspondence runs of C01 and C03 (no theorem depends on it).
   Particles are integer tags; every decoded column is compared through the tag it carries, so dec = identity. *)
From Coq Require Import ZArith List Bool.
From Abacus.Common Require Import Arr Corr.
From Abacus.C01 Require Import Model Spec.
Import ListNotations.
Local Open Scope Z_scope.

(* filter functions the harness uses, as data *)
Inductive fspec :=
| FNone                      (* filter_func=None *)
| FIds (keep : list Z)       (* lambda h: np.isin(h['id'], keep) *)
| FNge (thr : Z)             (* lambda h: h['N'] >= thr   (sees N_total for cleaned, non-passthrough loads) *)
| FEven.                     (* lambda h: np.arange(len(h)) % 2 == 0   (a mask that depends on the table, not the row) *)

Fixpoint evens {A} (l : list A) (b : bool) : list bool :=
  match l with [] => [] | _ :: t => b :: evens t (negb b) end.

Definition interp (f : fspec) : option filter :=
  match f with
  | FNone => None
  | FIds keep => Some (map (fun r => existsb (Z.eqb (hid r)) keep))
  | FNge thr => Some (map (fun r => thr <=? hN r))
  | FEven => Some (fun t => evens t true)
  end.

Definition garbage : hrow := mkrow (-1) (-1) (-1) (-1) (-1) (-1) (-1) (-1) (-1) (-1) (-1).

(* (cleaned, passthrough, filter, load_AB, catalog) *)
Definition case := (bool * bool * fspec * list ab * list (slab Z))%type.

Definition row_val (r : hrow) : val := VL [VZ (hid r); VZ (hN r); VZ (stA r); VZ (ctA r); VZ (stB r); VZ (ctB r)].

Definition out_val (o : list hrow * list (option Z)) : val :=
  VL [VL (map row_val (fst o)); VL (map (vopt VZ) (snd o))].

Definition run (c : case) : val :=
  let '(cleaned, passthrough, f, load_ab, cat) := c in
  vres out_val (load (fun t : Z => t) cleaned passthrough (interp f) load_ab cat garbage).

(* light-cone case: (filter, rows, particles of lc_pid_rv) *)
Definition run_lc (c : fspec * list hrow * list Z) : val :=
  let '(f, rows, lcp) := c in vres out_val (load_lc (interp f) rows lcp garbage).

(* the property predicate evaluated on the model (failing-input search when a proof breaks): on a well-formed
   catalog the load is Ok, the table is the specified concatenation, and every row's slice is its own block *)
Definition zlist_eqb (a b : list Z) : bool := val_eqb (vlistZ a) (vlistZ b).

Fixpoint slices_ok (cleaned passthrough : bool) (f : option filter) (x : ab) (subs : list (option Z))
         (rows' : list hrow) (blocks : list (list Z)) : bool :=
  match rows', blocks with
  | [], [] => true
  | r :: t, b :: bt => val_eqb (VL (map (vopt VZ) (row_slice x subs r))) (vlistZ b)
                       && slices_ok cleaned passthrough f x subs t bt
  | _, _ => false
  end.

Definition holds (c : case) : bool :=
  let '(cleaned, passthrough, f, load_ab, cat) := c in
  if negb (wf_catalogb cleaned load_ab cat) then true else
  match load (fun t : Z => t) cleaned passthrough (interp f) load_ab cat garbage with
  | Ok (rows', subs) =>
      val_eqb (VL (map (vopt VZ) subs)) (vlistZ (spec_subsamples cleaned passthrough (interp f) load_ab cat))
      && forallb (fun x => slices_ok cleaned passthrough (interp f) x subs rows'
                             (cat_blocks cleaned passthrough (interp f) x cat)) load_ab
  | _ => false
  end.
