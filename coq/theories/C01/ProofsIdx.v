(* C01/ProofsIdx.v — _compute_new_subsample_indices: zeroing of cleaned-away counts and the cumulative sums
   (util.cumsum as regenerated for C19, through cumsum_correct) with the running total carried from A to B. *)
From Coq Require Import ZArith List Bool Lia.
From Abacus.Common Require Import Arr.
From Abacus.C19 Require Import Spec Gen Proofs.
From Abacus.C01 Require Import Model Spec Lib.
Import ListNotations.
Local Open Scope Z_scope.

Lemma ab_eqb_eq x y : ab_eqb x y = true <-> x = y.
Proof. destruct x, y; cbn; split; congruence. Qed.

Lemma ab_eqb_refl x : ab_eqb x x = true.
Proof. destruct x; reflexivity. Qed.

Lemma has_ab_in x l : has_ab x l = true <-> In x l.
Proof.
  unfold has_ab. rewrite existsb_exists. split.
  - intros [y [Hy E]]. apply ab_eqb_eq in E. subst. exact Hy.
  - intros H. exists x. split; [exact H|apply ab_eqb_refl].
Qed.

Section Idx.
Variable cleaned : bool.

(* the row after the in-place zeroing done for every subsample of l *)
Definition zrow (l : list ab) (r : hrow) : hrow :=
  fold_left (fun r x => if cleaned then zero_away x r else r) l r.

(* the count the cumulative sum sees for a row: original (0 if cleaned away) + merged *)
Definition cnt_final (x : ab) (r : hrow) : Z :=
  (if cleaned && (ntot r =? 0) then 0 else ct x r) + (if cleaned then mct x r else 0).

Definition total (rows : list hrow) (x : ab) : Z := zsum (map (cnt_final x) rows).

Fixpoint dict_final (l : list ab) (rows : list hrow) (off : Z) : list (ab * list Z) :=
  match l with
  | [] => []
  | x :: t => (x, prefix_sums off (map (cnt_final x) rows)) :: dict_final t rows (off + total rows x)
  end.

(* total of the subsamples that precede x in l *)
Fixpoint base (l : list ab) (rows : list hrow) (x : ab) : Z :=
  match l with
  | [] => 0
  | y :: t => if ab_eqb x y then 0 else total rows y + base t rows x
  end.

Lemma zero_away_fields y r :
  hid (zero_away y r) = hid r /\ hN (zero_away y r) = hN r /\ ntot (zero_away y r) = ntot r /\
  (forall x, st x (zero_away y r) = st x r) /\ (forall x, mst x (zero_away y r) = mst x r) /\
  (forall x, mct x (zero_away y r) = mct x r) /\
  (forall x, ct x (zero_away y r) = if ab_eqb x y && (ntot r =? 0) then 0 else ct x r).
Proof.
  unfold zero_away. destruct (ntot r =? 0) eqn:E.
  - repeat split; try (destruct y; reflexivity); intros x; destruct x, y; reflexivity.
  - repeat split; try reflexivity. intros x. rewrite andb_false_r. reflexivity.
Qed.

Lemma zrow_cons y t r : zrow (y :: t) r = zrow t (if cleaned then zero_away y r else r).
Proof. reflexivity. Qed.

Lemma zrow_fields l : forall r,
  hid (zrow l r) = hid r /\ hN (zrow l r) = hN r /\ ntot (zrow l r) = ntot r /\
  (forall x, st x (zrow l r) = st x r) /\ (forall x, mst x (zrow l r) = mst x r) /\
  (forall x, mct x (zrow l r) = mct x r) /\
  (forall x, ct x (zrow l r) = if cleaned && (ntot r =? 0) && has_ab x l then 0 else ct x r).
Proof.
  induction l as [|y t IH]; intros r.
  - cbn. repeat split; intros; rewrite ?andb_false_r; reflexivity.
  - rewrite zrow_cons.
    set (r1 := if cleaned then zero_away y r else r).
    destruct (IH r1) as [H1 [H2 [H3 [H4 [H5 [H6 H7]]]]]].
    destruct (zero_away_fields y r) as [Z1 [Z2 [Z3 [Z4 [Z5 [Z6 Z7]]]]]].
    assert (Hr1 : hid r1 = hid r /\ hN r1 = hN r /\ ntot r1 = ntot r /\ (forall x, st x r1 = st x r) /\
                  (forall x, mst x r1 = mst x r) /\ (forall x, mct x r1 = mct x r) /\
                  (forall x, ct x r1 = if cleaned && (ab_eqb x y && (ntot r =? 0)) then 0 else ct x r)).
    { unfold r1. destruct cleaned; cbn [andb]; repeat split; auto. }
    destruct Hr1 as [R1 [R2 [R3 [R4 [R5 [R6 R7]]]]]].
    repeat split; try congruence.
    intros x. rewrite H7, R3, R7. unfold has_ab. cbn [existsb].
    destruct cleaned, (ntot r =? 0), (ab_eqb x y), (existsb (ab_eqb x) t); reflexivity.
Qed.

Definition cntm (x : ab) (r : hrow) : Z := if cleaned then ct x r + mct x r else ct x r.

Lemma cntm_zero_away x r : cleaned = true -> cntm x (zero_away x r) = cnt_final x r.
Proof.
  intros Hc. unfold cntm, cnt_final. rewrite Hc. cbn [andb].
  destruct (zero_away_fields x r) as [_ [_ [_ [_ [_ [Z6 Z7]]]]]]. rewrite Z6, Z7, ab_eqb_refl. cbn [andb].
  destruct (ntot r =? 0); reflexivity.
Qed.

Lemma cnt_final_zero_away x y r : cleaned = true -> cnt_final x (zero_away y r) = cnt_final x r.
Proof.
  intros Hc. unfold cnt_final. rewrite Hc. cbn [andb].
  destruct (zero_away_fields y r) as [_ [_ [Z3 [_ [_ [Z6 Z7]]]]]]. rewrite Z3, Z6, Z7.
  destruct (ntot r =? 0); [reflexivity|]. rewrite andb_false_r. reflexivity.
Qed.

Lemma dict_final_ext l : forall rows rows' off,
  (forall x, map (cnt_final x) rows' = map (cnt_final x) rows) ->
  dict_final l rows' off = dict_final l rows off.
Proof.
  induction l as [|x t IH]; intros rows rows' off H; [reflexivity|].
  cbn [dict_final]. unfold total. rewrite H. rewrite (IH rows rows') by exact H. reflexivity.
Qed.

Lemma compute_indices_spec l : forall rows off,
  compute_indices cleaned l rows off = Ok (map (zrow l) rows, dict_final l rows off).
Proof.
  induction l as [|x t IH]; intros rows off.
  - cbn. rewrite map_id. reflexivity.
  - cbn [compute_indices].
    set (rows1 := if cleaned then map (zero_away x) rows else rows).
    assert (Hnp : map (fun r => if cleaned then ct x r + mct x r else ct x r) rows1 = map (cnt_final x) rows).
    { unfold rows1. destruct cleaned eqn:Hc.
      - rewrite map_map. apply map_ext. intros r. unfold cnt_final. rewrite ?Hc.
        destruct (zero_away_fields x r) as [_ [_ [_ [_ [_ [Z6 Z7]]]]]]. rewrite Z6, Z7, ab_eqb_refl. cbn [andb].
        destruct (ntot r =? 0); reflexivity.
      - apply map_ext. intros r. unfold cnt_final. rewrite ?Hc. cbn [andb]. lia. }
    rewrite Hnp.
    rewrite cumsum_correct_lemma.
    2:{ unfold expected_len. cbn [b2z]. rewrite len_map. unfold len. rewrite repeat_length.
        unfold rows1. destruct cleaned; rewrite ?map_length; lia. }
    cbn [bind]. unfold spec_out, Spec.select, spec_total. rewrite IH. cbn [bind].
    f_equal. f_equal.
    + unfold rows1, zrow. destruct cleaned eqn:Hc.
      * rewrite map_map. apply map_ext. intros r. cbn [fold_left]. reflexivity.
      * apply map_ext. intros r. cbn [fold_left]. reflexivity.
    + cbn [dict_final]. unfold total. f_equal. apply dict_final_ext.
      intros y. unfold rows1. destruct cleaned eqn:Hc; [|reflexivity].
      rewrite map_map. apply map_ext. intros r. 
      (* cnt_final is insensitive to the zeroing of a cleaned-away row *)
      apply cnt_final_zero_away. exact Hc.
Qed.

Lemma find_starts_final l : forall rows off x,
  In x l ->
  find_starts x (dict_final l rows off) = Ok (prefix_sums (off + base l rows x) (map (cnt_final x) rows)).
Proof.
  induction l as [|y t IH]; intros rows off x Hin; [destruct Hin|].
  cbn [dict_final find_starts base]. destruct (ab_eqb x y) eqn:E.
  - apply ab_eqb_eq in E. subst y. rewrite Z.add_0_r. reflexivity.
  - destruct Hin as [->|Hin]; [rewrite ab_eqb_refl in E; discriminate|].
    rewrite IH by exact Hin. do 2 f_equal. lia.
Qed.

Lemma base_app done x rest rows :
  ~ In x done -> base (done ++ x :: rest) rows x = zsum (map (total rows) done).
Proof.
  induction done as [|y t IH]; intros Hn; cbn [app base map zsum].
  - rewrite ab_eqb_refl. reflexivity.
  - destruct (ab_eqb x y) eqn:E; [apply ab_eqb_eq in E; subst; exfalso; apply Hn; left; reflexivity|].
    rewrite IH; [reflexivity|]. intros H; apply Hn; right; exact H.
Qed.

End Idx.
