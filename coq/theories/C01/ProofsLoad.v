(* C01/ProofsLoad.v — the loops of _load_subsamples over superslab files and over A, B. *)
From Coq Require Import ZArith List Bool Lia.
From Abacus.Common Require Import Arr.
From Abacus.C19 Require Import Spec Gen Proofs.
From Abacus.C01 Require Import Model Spec Lib ProofsRead ProofsIdx ProofsZip.
Import ListNotations.
Local Open Scope Z_scope.

Lemma firstn_app_mid {A} (a b c : list A) j :
  (j <= length b)%nat -> firstn (length a + j) (a ++ b ++ c) = a ++ firstn j b.
Proof.
  intros Hj. rewrite firstn_app_2. f_equal. rewrite firstn_app.
  replace (j - length b)%nat with O by lia. cbn [firstn]. apply app_nil_r.
Qed.

Section Load.
Context {P Q : Type}.
Variable dec : P -> Q.
Variable cleaned passthrough : bool.
Variable filt : option filter.
Variable l : list ab.          (* load_AB *)
Variable cat : list (slab P).
Hypothesis Hwf : wf_catalog cleaned l cat.

Notation K := (kept cleaned passthrough filt).
Notation blocks := (cat_blocks cleaned passthrough filt).
Notation sblocks := (slab_blocks cleaned passthrough filt).
Notation zrow := (zrow cleaned l).
Notation cnt_final := (cnt_final cleaned).

Definition allrows : list hrow := flat_map K cat.
Definition counts : list Z := map (fun s => len (K s)) cat.

Lemma wf_kept x s r : In x l -> In s cat -> In r (K s) -> wf_row cleaned x s r.
Proof. intros Hx Hs Hr. apply Hwf; try assumption. unfold kept in Hr. eapply kept_rows_in. exact Hr. Qed.

Lemma cnt_sum_slab x s : In x l -> In s cat ->
  zsum (map (cnt_final x) (K s)) = len (concat (sblocks x s)).
Proof.
  intros Hx Hs. unfold slab_blocks.
  assert (H : forall rows, (forall r, In r rows -> wf_row cleaned x s r) ->
            zsum (map (cnt_final x) rows) = len (concat (map (block cleaned x s) rows))).
  { induction rows as [|r t IH]; intros Hr; [reflexivity|]. cbn [map zsum concat]. rewrite len_app.
    rewrite IH by (intros; apply Hr; right; assumption).
    destruct (zrow_reads cleaned l x Hx s r (Hr r (or_introl eq_refl))) as [_ [_ [_ [_ [Rc _]]]]]. rewrite Rc. reflexivity. }
  apply H. intros r Hr. apply wf_kept; assumption.
Qed.

Lemma cnt_sum_cat x (ss : list (slab P)) : In x l -> (forall s, In s ss -> In s cat) ->
  zsum (map (cnt_final x) (flat_map K ss)) = len (concat (blocks x ss)).
Proof.
  intros Hx. induction ss as [|s t IH]; intros Hin; [reflexivity|].
  cbn [flat_map]. unfold cat_blocks in *. cbn [flat_map]. rewrite map_app, zsum_app, concat_app, len_app.
  rewrite IH by (intros; apply Hin; right; assumption).
  rewrite cnt_sum_slab; [reflexivity|exact Hx|apply Hin; left; reflexivity].
Qed.

Lemma counts_prefix (done rest : list (slab P)) :
  zsum (firstn (length done) (map (fun s => len (K s)) (done ++ rest))) = len (flat_map K done).
Proof.
  rewrite map_app. rewrite <- (map_length (fun s => len (K s)) done) at 1.
  rewrite <- (Nat.add_0_r (length (map _ done))). rewrite firstn_app_2. cbn [firstn]. rewrite app_nil_r.
  induction done as [|s t IH]; [reflexivity|]. cbn [map zsum flat_map]. rewrite len_app, IH. reflexivity.
Qed.

Lemma load_files_spec x off : In x l -> forall rest done pre k,
  cat = done ++ rest ->
  len pre = off + len (concat (blocks x done)) ->
  len (concat (blocks x rest)) <= Z.of_nat k ->
  load_files dec cleaned x (map zrow allrows) (prefix_sums off (map (cnt_final x) allrows))
             (prefix_sums 0 counts) (len done) rest (pre ++ repeat None k)
  = Ok ((pre ++ map Some (map dec (concat (blocks x rest))))
          ++ repeat None (k - length (concat (blocks x rest)))).
Proof.
  intros Hx. induction rest as [|s rest IH]; intros done pre k Hcat Hpre Hk.
  - cbn. rewrite app_nil_r, Nat.sub_0_r. reflexivity.
  - cbn [load_files].
    assert (Hs : In s cat) by (rewrite Hcat; apply in_or_app; right; left; reflexivity).
    assert (Hdone : forall s', In s' done -> In s' cat) by (intros; rewrite Hcat; apply in_or_app; left; assumption).
    assert (Hrest : forall s', In s' rest -> In s' cat) by (intros; rewrite Hcat; apply in_or_app; right; right; assumption).
    pose proof (len_nonneg done) as Hd0. pose proof (len_nonneg rest) as Hr0.
    assert (Hclen : len counts = len done + 1 + len rest).
    { unfold counts. rewrite len_map, Hcat, len_app, len_cons. lia. }
    (* the two halo_file_offsets *)
    rewrite get_prefix_sums by lia. cbn [bind].
    rewrite get_prefix_sums by lia. cbn [bind].
    replace (Z.to_nat (len done)) with (length done) by (unfold len; lia).
    replace (Z.to_nat (len done + 1)) with (length (done ++ [s])) by (rewrite app_length; unfold len; cbn; lia).
    assert (Hlo : zsum (firstn (length done) counts) = len (flat_map K done)).
    { unfold counts. rewrite Hcat. apply counts_prefix. }
    assert (Hhi : zsum (firstn (length (done ++ [s])) counts) = len (flat_map K done) + len (K s)).
    { unfold counts. rewrite Hcat.
      replace (done ++ s :: rest) with ((done ++ [s]) ++ rest) by (rewrite <- app_assoc; reflexivity).
      rewrite counts_prefix. rewrite flat_map_app. cbn [flat_map]. rewrite app_nil_r, len_app. reflexivity. }
    rewrite Hlo, Hhi. rewrite !Z.add_0_l.
    set (A := flat_map K done). set (B := K s). set (C := flat_map K rest).
    assert (Hall : allrows = A ++ B ++ C).
    { unfold allrows. rewrite Hcat, flat_map_app. cbn [flat_map]. reflexivity. }
    (* the rows of this superslab *)
    assert (Hrows : slice (map zrow allrows) (len A) (len A + len B) = map zrow B).
    { rewrite Hall, !map_app. rewrite <- (len_map zrow A), <- (len_map zrow B). apply slice_app_mid. }
    rewrite Hrows.
    pose proof (len_nonneg A) as HA0. pose proof (len_nonneg B) as HB0. pose proof (len_nonneg C) as HC0.
    assert (HWA : zsum (map (cnt_final x) A) = len (concat (blocks x done))) by (apply cnt_sum_cat; assumption).
    rewrite (zipper_spec dec cleaned l x Hx s _ B 0 (off + len (concat (blocks x done))) pre k).
    + cbn [bind].
      set (pre1 := pre ++ map Some (map dec (concat (map (block cleaned x s) B)))).
      replace (len done + 1) with (len (done ++ [s])) by (rewrite len_app; unfold len at 2; cbn; lia).
      rewrite (IH (done ++ [s]) pre1).
      * unfold pre1, cat_blocks. cbn [flat_map]. unfold slab_blocks at 3 5. fold B.
        rewrite concat_app, !map_app, <- !app_assoc. rewrite app_length.
        replace (k - (length (concat (map (block cleaned x s) B)) + length (concat (flat_map (sblocks x) rest))))%nat
          with (k - length (concat (map (block cleaned x s) B)) - length (concat (flat_map (sblocks x) rest)))%nat by lia.
        reflexivity.
      * rewrite <- app_assoc. exact Hcat.
      * unfold pre1. rewrite len_app, !len_map, Hpre. unfold cat_blocks. rewrite flat_map_app. cbn [flat_map].
        rewrite app_nil_r, concat_app, len_app. unfold slab_blocks at 3. fold B. lia.
      * unfold cat_blocks in Hk. cbn [flat_map] in Hk. rewrite concat_app, len_app in Hk.
        unfold slab_blocks at 1 in Hk. fold B in Hk. unfold cat_blocks. unfold len in *. lia.
    + intros r Hr. apply wf_kept; assumption.
    + intros j Hj. rewrite Z.add_0_l.
      rewrite get_slice.
      * rewrite get_prefix_sums by (rewrite len_map, Hall, !len_app; lia).
        f_equal. rewrite Hall, !map_app.
        replace (Z.to_nat (len A + j)) with (length (map (cnt_final x) A) + Z.to_nat j)%nat
          by (rewrite map_length; unfold len; lia).
        rewrite firstn_app_mid by (rewrite map_length; unfold len in Hj; lia).
        rewrite zsum_app, HWA. lia.
      * lia.
      * lia.
      * rewrite len_prefix_sums, len_map, Hall, !len_app. lia.
      * lia.
    + exact (eq_sym Hpre).
    + unfold cat_blocks in Hk. cbn [flat_map] in Hk. rewrite concat_app, len_app in Hk.
      unfold B. rewrite cnt_sum_slab by assumption. pose proof (len_nonneg (concat (flat_map (sblocks x) rest))).
      lia.
Qed.

Notation subs_of := (fun ll => spec_subsamples cleaned passthrough filt ll cat).

Lemma total_blocks x : In x l -> total cleaned allrows x = len (concat (blocks x cat)).
Proof. intros Hx. unfold total, allrows. apply cnt_sum_cat; [exact Hx|tauto]. Qed.

Lemma spec_subsamples_snoc ll x : subs_of (ll ++ [x]) = subs_of ll ++ concat (blocks x cat).
Proof. unfold spec_subsamples. rewrite flat_map_app. cbn [flat_map]. rewrite app_nil_r. reflexivity. Qed.

Lemma len_subs_of ll : (forall x, In x ll -> In x l) ->
  len (subs_of ll) = zsum (map (total cleaned allrows) ll).
Proof.
  induction ll as [|x t IH]; intros Hin; [reflexivity|].
  unfold spec_subsamples in *. cbn [flat_map map zsum]. rewrite len_app, IH by (intros; apply Hin; right; assumption).
  rewrite total_blocks by (apply Hin; left; reflexivity). reflexivity.
Qed.

Lemma offset_of_base x : forall ll, (forall y, In y ll -> In y l) ->
  offset_of cleaned passthrough filt ll x cat = base cleaned ll allrows x.
Proof.
  induction ll as [|y t IH]; intros Hin; [reflexivity|].
  cbn [offset_of base]. destruct (ab_eqb x y); [reflexivity|].
  rewrite IH by (intros; apply Hin; right; assumption).
  rewrite total_blocks by (apply Hin; left; reflexivity). reflexivity.
Qed.

Hypothesis Hnd : NoDup l.

Lemma base_done done x todo : l = done ++ x :: todo -> base cleaned l allrows x = len (subs_of done).
Proof.
  intros Hl. rewrite Hl, base_app.
  - symmetry. apply len_subs_of. intros y Hy. rewrite Hl. apply in_or_app. left. exact Hy.
  - rewrite Hl in Hnd. apply NoDup_remove_2 in Hnd. intros H. apply Hnd. apply in_or_app. left. exact H.
Qed.

Lemma load_abs_spec : forall todo done pre k,
  l = done ++ todo ->
  len pre = len (subs_of done) ->
  len (subs_of todo) <= Z.of_nat k ->
  load_abs dec cleaned todo (map zrow allrows) (dict_final cleaned l allrows 0) (prefix_sums 0 counts) cat
           (pre ++ repeat None k)
  = Ok ((pre ++ map Some (map dec (subs_of todo))) ++ repeat None (k - length (subs_of todo))).
Proof.
  induction todo as [|x todo IH]; intros done pre k Hl Hpre Hk.
  - cbn. rewrite app_nil_r, Nat.sub_0_r. reflexivity.
  - cbn [load_abs].
    assert (Hx : In x l) by (rewrite Hl; apply in_or_app; right; left; reflexivity).
    rewrite find_starts_final by exact Hx. cbn [bind]. rewrite Z.add_0_l.
    rewrite (base_done done x todo Hl).
    assert (Hsub : subs_of (x :: todo) = concat (blocks x cat) ++ subs_of todo) by reflexivity.
    rewrite Hsub, len_app in Hk. pose proof (len_nonneg (subs_of todo)) as Ht0.
    change 0 with (len (@nil (slab P))) at 2.
    rewrite (load_files_spec x (len (subs_of done)) Hx cat [] pre k).
    + cbn [bind]. rewrite (IH (done ++ [x])).
      * rewrite Hsub, !map_app, <- !app_assoc, app_length.
        replace (k - (length (concat (blocks x cat)) + length (subs_of todo)))%nat
          with (k - length (concat (blocks x cat)) - length (subs_of todo))%nat by lia. reflexivity.
      * rewrite <- app_assoc. exact Hl.
      * rewrite len_app, !len_map, spec_subsamples_snoc, len_app. lia.
      * unfold len in *. lia.
    + reflexivity.
    + rewrite Hpre. unfold cat_blocks. cbn [flat_map concat]. rewrite len_nil. lia.
    + lia.
Qed.

End Load.
