(* C01/Examples.v — non-vacuity of the hypotheses and regression values. *)
From Coq Require Import ZArith List Bool.
From Abacus.Common Require Import Arr Corr.
From Abacus.C01 Require Import Model Spec Run.
Import ListNotations.
Local Open Scope Z_scope.

(* two superslabs; L0 gaps; a zero-particle halo (id 12); a cleaned-away halo (id 11, N_total = 0) with a merge range;
   an empty merge range stored with start -1; an empty second... third superslab *)
Definition ex_cat : list (slab Z) :=
  [ mkslab [ mkrow 10 50 1 2 0 1 53 0 1 0 0;
             mkrow 11 60 4 2 2 2 0 1 2 (-1) 0;
             mkrow 12 70 7 0 5 1 70 (-1) 0 0 2 ]
           [100; 101; 102; 103; 104; 105; 106; 107] [200; 201; 202; 203; 204; 205; 206]
           [300; 301; 302; 303] [400; 401; 402];
    mkslab [] [110] [] [310] [];
    mkslab [ mkrow 20 80 0 3 1 1 83 0 1 1 1 ]
           [120; 121; 122; 123] [220; 221; 222] [320; 321] [420; 421; 422] ].

Lemma wf_of_bool {P} cleaned l (cat : list (slab P)) : wf_catalogb cleaned l cat = true -> wf_catalog cleaned l cat.
Proof.
  unfold wf_catalogb, wf_catalog. intros H x s r Hx Hs Hr.
  rewrite forallb_forall in H. specialize (H x Hx). rewrite forallb_forall in H. specialize (H s Hs).
  rewrite forallb_forall in H. specialize (H r Hr). unfold wf_rowb in H. apply andb_prop in H. destruct H as [H1 H2].
  assert (Hr_ok : forall (l0 : list P) a c, range_okb l0 a c = true -> range_ok l0 a c).
  { intros l0 a c E. unfold range_okb in E. apply orb_prop in E. destruct E as [E|E].
    - left. apply Z.eqb_eq. exact E.
    - right. apply andb_prop in E. destruct E as [E E3]. apply andb_prop in E. destruct E as [E1 E2].
      apply Z.ltb_lt in E1. apply Z.leb_le in E2. apply Z.leb_le in E3. auto. }
  split.
  - apply orb_prop in H1. destruct H1 as [H1|H1]; [left; exact H1|right; apply Hr_ok; exact H1].
  - intros Hc. rewrite Hc in H2. cbn in H2. apply Hr_ok. exact H2.
Qed.

(* the hypotheses of every theorem are met by a non-trivial catalog, cleaned and not, with and without a filter *)
Example hyp_wf_cleaned : wf_catalog true [SA; SB] ex_cat.
Proof. apply wf_of_bool. vm_compute. reflexivity. Qed.
Example hyp_wf_uncleaned : wf_catalog false [SA; SB] ex_cat.
Proof. apply wf_of_bool. vm_compute. reflexivity. Qed.
Example hyp_ab_ok : ab_ok [SA; SB] /\ ab_ok [SB] /\ ab_ok [].
Proof. unfold ab_ok. repeat split; auto. Qed.
Example hyp_filt_ok_none : filt_ok None.
Proof. exact I. Qed.
Example hyp_filt_ok_ids : filt_ok (interp (FIds [10; 20])).
Proof. cbn. intros t. apply map_length. Qed.
Example hyp_filt_ok_nge : filt_ok (interp (FNge 60)).
Proof. cbn. intros t. apply map_length. Qed.
Lemma evens_length {A} (t : list A) : forall b, length (evens t b) = length t.
Proof. induction t as [|a t IH]; intros b; [reflexivity|]. cbn. f_equal. apply IH. Qed.
Example hyp_filt_ok_even : filt_ok (interp FEven).
Proof. cbn. intros t. apply evens_length. Qed.

(* regression values *)
Example ex_cleaned_AB :
  run (true, false, FNone, [SA; SB], ex_cat)
  = VL [VL [VL [VZ 10; VZ 53; VZ 0; VZ 3; VZ 9; VZ 1]; VL [VZ 11; VZ 0; VZ 3; VZ 2; VZ 10; VZ 0];
            VL [VZ 12; VZ 70; VZ 5; VZ 0; VZ 10; VZ 3]; VL [VZ 20; VZ 83; VZ 5; VZ 4; VZ 13; VZ 2]];
        VL (map VZ [101; 102; 300; 301; 302; 120; 121; 122; 320; 200; 205; 400; 401; 221; 421])].
Proof. vm_compute. reflexivity. Qed.

Example ex_uncleaned_B_filtered :
  run (false, false, FIds [11; 20], [SB], ex_cat)
  = VL [VL [VL [VZ 11; VZ 60; VZ 4; VZ 2; VZ 0; VZ 2]; VL [VZ 20; VZ 80; VZ 0; VZ 3; VZ 2; VZ 1]];
        VL (map VZ [202; 203; 221])].
Proof. vm_compute. reflexivity. Qed.

(* a filter on N sees the cleaned count: halo 11 (N_total = 0) is dropped, halo 10 (53) kept at threshold 53 *)
Example ex_filter_sees_N :
  run (true, false, FNge 53, [SA], ex_cat)
  = VL [VL [VL [VZ 10; VZ 53; VZ 0; VZ 3; VZ 0; VZ 1]; VL [VZ 12; VZ 70; VZ 3; VZ 0; VZ 5; VZ 1];
            VL [VZ 20; VZ 83; VZ 3; VZ 4; VZ 1; VZ 1]];
        VL (map VZ [101; 102; 300; 120; 121; 122; 320])].
Proof. vm_compute. reflexivity. Qed.

Example ex_all_false : run (true, false, FIds [], [SA; SB], ex_cat) = VL [VL []; VL []].
Proof. vm_compute. reflexivity. Qed.

Example ex_holds : forallb holds [(true, false, FNone, [SA; SB], ex_cat); (false, false, FEven, [SA], ex_cat);
                                  (true, true, FNge 60, [SB], ex_cat); (true, false, FIds [], [SA; SB], ex_cat)] = true.
Proof. vm_compute. reflexivity. Qed.

(* a malformed catalog (range beyond the file) is outside the hypotheses, and the model shows why: cells stay unwritten *)
Example ex_malformed_unwritten :
  run (false, false, FNone, [SA], [mkslab [mkrow 1 5 2 3 0 0 5 0 0 0 0] [7; 8; 9] [] [] []])
  = VL [VL [VL [VZ 1; VZ 5; VZ 0; VZ 3; VZ 0; VZ 0]]; VL [VZ 9; VNone; VNone]].
Proof. vm_compute. reflexivity. Qed.
