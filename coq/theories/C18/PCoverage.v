(* C18/PCoverage.v — coverage, structural part: every generic direction, up to sign, lies in exactly one cap pattern.
   (The witnesses are found by search over the generated table, nothing about its numbering is written here.) *)
From Coq Require Import ZArith Reals Lra Lia.
From Abacus.C18 Require Import Spec Gen Lib PMajor.
Local Open Scope R_scope.

(* two opposite vectors cannot both be cap patterns of ordered triples: the largest component zz is positive *)
Lemma major_table_neg_ne : forall cap1 cap2 x1 y1 z1 x2 y2 z2,
  (0 <= cap1 < 12)%Z -> (0 <= cap2 < 12)%Z -> ordered x1 y1 z1 -> ordered x2 y2 z2 ->
  major_table cap1 x1 y1 z1 = scale (-1) (major_table cap2 x2 y2 z2) -> False.
Proof.
  intros cap1 cap2 x1 y1 z1 x2 y2 z2 H1 H2 [Ha1 Hb1] [Ha2 Hb2] E.
  apply Rabs_def2 in Ha1. apply Rabs_def2 in Ha2. destruct Ha1 as [Ha1 Ha1']. destruct Ha2 as [Ha2 Ha2'].
  cap_cases cap1 H1; cap_cases cap2 H2; unfold scale in E; major_compute_in E; injection E as E0 E1 E2; lra.
Qed.

(* the transposed table recovers the triple: x = <column x of the table, u> etc. *)
Ltac try_cap k s a b c :=
  exists k, s,
    (dot (major_table k 1 0 0) (scale s (a, b, c))),
    (dot (major_table k 0 1 0) (scale s (a, b, c))),
    (dot (major_table k 0 0 1) (scale s (a, b, c)));
  major_compute; unfold dot, scale, ordered;
  split; [lia |];
  split; [first [left; reflexivity | right; reflexivity] |];
  split; [split; [apply Rabs_def1; lra | lra] |];
  (f_equal; [f_equal |]); lra.

Ltac search_cap a b c :=
  first [ try_cap 0%Z 1 a b c | try_cap 0%Z (-1) a b c | try_cap 1%Z 1 a b c | try_cap 1%Z (-1) a b c
        | try_cap 2%Z 1 a b c | try_cap 2%Z (-1) a b c | try_cap 3%Z 1 a b c | try_cap 3%Z (-1) a b c
        | try_cap 4%Z 1 a b c | try_cap 4%Z (-1) a b c | try_cap 5%Z 1 a b c | try_cap 5%Z (-1) a b c
        | try_cap 6%Z 1 a b c | try_cap 6%Z (-1) a b c | try_cap 7%Z 1 a b c | try_cap 7%Z (-1) a b c
        | try_cap 8%Z 1 a b c | try_cap 8%Z (-1) a b c | try_cap 9%Z 1 a b c | try_cap 9%Z (-1) a b c
        | try_cap 10%Z 1 a b c | try_cap 10%Z (-1) a b c | try_cap 11%Z 1 a b c | try_cap 11%Z (-1) a b c ].

Lemma coverage_exists : forall v, generic v ->
  exists cap s x y z, (0 <= cap < 12)%Z /\ (s = 1 \/ s = -1) /\ ordered x y z /\ scale s v = major_table cap x y z.
Proof.
  intros [[a b] c] (Hab & Hbc & Hac).
  unfold Rabs in Hab, Hbc, Hac.
  destruct (Rcase_abs a) as [Sa | Sa]; destruct (Rcase_abs b) as [Sb | Sb]; destruct (Rcase_abs c) as [Sc | Sc];
    (destruct (Rtotal_order (Rabs a) (Rabs b)) as [Oab | [Oab | Oab]];
     destruct (Rtotal_order (Rabs b) (Rabs c)) as [Obc | [Obc | Obc]];
     destruct (Rtotal_order (Rabs a) (Rabs c)) as [Oac | [Oac | Oac]];
     unfold Rabs in Oab, Obc, Oac;
     repeat match goal with H : context [Rcase_abs ?t] |- _ => destruct (Rcase_abs t); try (exfalso; lra) end;
     try (exfalso; lra); search_cap a b c).
Qed.

Lemma coverage_unique : forall v cap s x y z cap' s' x' y' z',
  (0 <= cap < 12)%Z -> (s = 1 \/ s = -1) -> ordered x y z -> scale s v = major_table cap x y z ->
  (0 <= cap' < 12)%Z -> (s' = 1 \/ s' = -1) -> ordered x' y' z' -> scale s' v = major_table cap' x' y' z' ->
  cap = cap' /\ s = s' /\ x = x' /\ y = y' /\ z = z'.
Proof.
  intros [[a b] c] cap s x y z cap' s' x' y' z' Hc Hs Ho E Hc' Hs' Ho' E'.
  destruct Hs as [Hs | Hs]; destruct Hs' as [Hs' | Hs']; subst s s'.
  - destruct (major_table_inj _ _ _ _ _ _ _ _ Hc Hc' Ho Ho' ltac:(congruence)) as (A & B & C & D). tauto.
  - exfalso. apply (major_table_neg_ne cap cap' x y z x' y' z' Hc Hc' Ho Ho').
    rewrite <- E, <- E'. unfold scale. (f_equal; [f_equal |]); ring.
  - exfalso. apply (major_table_neg_ne cap' cap x' y' z' x y z Hc' Hc Ho' Ho).
    rewrite <- E, <- E'. unfold scale. (f_equal; [f_equal |]); ring.
  - destruct (major_table_inj _ _ _ _ _ _ _ _ Hc Hc' Ho Ho' ltac:(congruence)) as (A & B & C & D). tauto.
Qed.

Lemma coverage_partial_lemma : forall v, generic v ->
  exists cap s x y z,
    ((0 <= cap < 12)%Z /\ (s = 1 \/ s = -1) /\ ordered x y z /\ scale s v = major_table cap x y z) /\
    forall cap' s' x' y' z',
      (0 <= cap' < 12)%Z -> (s' = 1 \/ s' = -1) -> ordered x' y' z' -> scale s' v = major_table cap' x' y' z' ->
      cap = cap' /\ s = s' /\ x = x' /\ y = y' /\ z = z'.
Proof.
  intros v Hg. destruct (coverage_exists v Hg) as (cap & s & x & y & z & Hc & Hs & Ho & E).
  exists cap, s, x, y, z. split; [tauto|].
  intros cap' s' x' y' z' Hc' Hs' Ho' E'.
  exact (coverage_unique v cap s x y z cap' s' x' y' z' Hc Hs Ho E Hc' Hs' Ho' E').
Qed.
