(* C18/Properties.v — the property theorems, about the definitions regenerated from `_unpack_euler16`
   (abacusnbody/data/compaso_halo_catalog.py) into Gen.v.  Only statements closed by `exact`, and their assumptions.
   The real-valued part is over the standard-library reals: Print Assumptions lists the three stdlib axioms
   ClassicalDedekindReals.sig_forall_dec, ClassicalDedekindReals.sig_not_dec and
   FunctionalExtensionality.functional_extensionality_dep, nothing else. *)
From Coq Require Import ZArith Reals.
From Abacus.C18 Require Import Spec Gen PDecompose PCell PMajor PMinor PTriad PCoverage PCoverBound.
Local Open Scope R_scope.

(* ★ The integer part of the decoder is a bijection from the 65 340 valid codes (0 <= c < 12*121*45) onto the valid
   cells (cap < 12, ring it < 11, ir <= 2 it, azimuth bin < 45): it inverts the format's encoder both ways. *)
Theorem decompose_bijective :
  (forall c, valid_code c ->
     let '(cap, it, ir, iaz) := decompose c in valid_cell cap it ir iaz /\ encode cap it ir iaz = c) /\
  (forall cap it ir iaz, valid_cell cap it ir iaz ->
     valid_code (encode cap it ir iaz) /\ decompose (encode cap it ir iaz) = (cap, it, ir, iaz)) /\
  (forall c1 c2, valid_code c1 -> valid_code c2 -> decompose c1 = decompose c2 -> c1 = c2).
Proof. exact decompose_bijective_lemma. Qed.
Print Assumptions decompose_bijective.

(* ★ For ALL real in-cap parameters in range (not only the integer cells) and every real azimuth parameter, each of the
   12 caps yields unit minor, middle, major axes, pairwise orthogonal, with middle = minor x major. *)
Theorem triad_orthonormal : forall cap it ir iaz, (0 <= cap < 12)%Z -> cell_range it ir ->
  orthonormal_triad (triad cap it ir iaz).
Proof. exact triad_orthonormal_lemma. Qed.
Print Assumptions triad_orthonormal.

(* ... hence every valid 16-bit code decodes to an orthonormal right-handed triad. *)
Theorem codes_orthonormal : forall c, valid_code c -> orthonormal_triad (unpack_euler16 c).
Proof. exact unpack_orthonormal_lemma. Qed.
Print Assumptions codes_orthonormal.

(* In range nothing is divided by zero and no negative number goes under a square root: the cell formulas are
   characterised with u in (0, 13/25], 1 - u^2 > 0, 2 - u^2 > 0, norm > 0 (so Coq's total x/0 = 0 is never exercised). *)
Theorem cell_axis_wellformed : forall it ir, cell_range it ir ->
  exists u r n,
    cell_axis it ir = (r * tfun u * n, tfun u * n, n) /\
    u * (IZR EULER_TBIN * EULER_NORM) = it + 1 / 2 /\ 0 < u <= 13/25 /\
    (r + 1) * (it + 1 / 2) = ir + 1 / 2 /\ -1 < r < 1 /\
    0 < n /\ n * n * (1 + (r * tfun u) * (r * tfun u) + tfun u * tfun u) = 1.
Proof. exact cell_axis_char. Qed.
Print Assumptions cell_axis_wellformed.

(* ★ cap_axes_distinct, part 1: in range the cell triple is a unit vector with |xx| < yy < zz ... *)
Theorem cell_axis_ordered : forall it ir x y z, cell_range it ir -> cell_axis it ir = (x, y, z) ->
  x * x + y * y + z * z = 1 /\ ordered x y z /\ 0 < z.
Proof. exact cell_axis_unit_ordered. Qed.
Print Assumptions cell_axis_ordered.

(* ★ ... part 2: so the 12 caps give 12 different (position of zz, position of yy, sign of yy) patterns: equal major axes
   come from the same cap and the same triple. *)
Theorem cap_axes_distinct : forall cap1 cap2 x1 y1 z1 x2 y2 z2,
  (0 <= cap1 < 12)%Z -> (0 <= cap2 < 12)%Z -> ordered x1 y1 z1 -> ordered x2 y2 z2 ->
  major_table cap1 x1 y1 z1 = major_table cap2 x2 y2 z2 ->
  cap1 = cap2 /\ x1 = x2 /\ y1 = y2 /\ z1 = z2.
Proof. exact major_table_inj. Qed.
Print Assumptions cap_axes_distinct.

(* yy/zz is strictly increasing in the ring parameter (so the ring is determined), and the in-ring parameter is then
   determined by xx/yy: distinct real cells in range give distinct triples. *)
Theorem major_injective : forall it1 ir1 it2 ir2, cell_range it1 ir1 -> cell_range it2 ir2 ->
  cell_axis it1 ir1 = cell_axis it2 ir2 -> it1 = it2 /\ ir1 = ir2.
Proof. exact cell_axis_inj. Qed.
Print Assumptions major_injective.

Theorem yy_over_zz_strictly_increasing : forall u v, 0 < u -> u < v -> v <= 13/25 -> tfun u < tfun v.
Proof. exact tfun_incr. Qed.
Print Assumptions yy_over_zz_strictly_increasing.

(* for a fixed cap and major axis the minor axis determines the (real) azimuth parameter: az lies in (0, pi) *)
Theorem minor_injective : forall cap iaz1 iaz2 M0 M1 M2, (0 <= cap < 12)%Z -> az_range iaz1 -> az_range iaz2 ->
  minor_axis cap iaz1 M0 M1 M2 = minor_axis cap iaz2 M0 M1 M2 -> iaz1 = iaz2.
Proof. exact minor_axis_inj. Qed.
Print Assumptions minor_injective.

(* ★ Distinct valid codes decode to distinct triads. *)
Theorem codes_distinct : forall c1 c2, valid_code c1 -> valid_code c2 -> c1 <> c2 ->
  unpack_euler16 c1 <> unpack_euler16 c2.
Proof. exact codes_distinct_lemma. Qed.
Print Assumptions codes_distinct.

(* Coverage, structural part: every generic direction (pairwise different |components|) is, for exactly one sign and
   exactly one cap, the cap's pattern applied to a triple with |x| < y < z. *)
Theorem coverage_partial : forall v, generic v ->
  exists cap s x y z,
    ((0 <= cap < 12)%Z /\ (s = 1 \/ s = -1) /\ ordered x y z /\ scale s v = major_table cap x y z) /\
    forall cap' s' x' y' z',
      (0 <= cap' < 12)%Z -> (s' = 1 \/ s' = -1) -> ordered x' y' z' -> scale s' v = major_table cap' x' y' z' ->
      cap = cap' /\ s = s' /\ x = x' /\ y = y' /\ z = z'.
Proof. exact coverage_partial_lemma. Qed.
Print Assumptions coverage_partial.

(* ★ coverage_bound — the metric half of the coverage clause: every direction (unit vector) is, up to sign, within 4.5
   degrees of the decoded major axis of some valid code.  Proof (PCoverBound.v, PCovRingNN.v): closed cap patterns cover all
   vectors up to sign; the fundamental triangle of a cap, parametrised by t = y/z in [0,1] and r = x/y in [-1,1], is cut into
   121 boxes, one per in-cap cell, and for each box coq-interval bounds the cosine of the angle to the cell's regenerated axis
   (Gen.cell_axis) below by 0.99692 > cos 4.5 degrees.  The bound is close to tight for this assignment (the corner of the
   polar cell is 4.45 degrees from its axis); the nearest axis overall is measured at 3.1 degrees by the harness. *)
Theorem coverage_bound : forall v : vec, dot v v = 1 ->
  exists c, valid_code c /\ cos (45 / 10 * PI / 180) <= Rabs (dot v (snd (unpack_euler16 c))).
Proof. exact coverage_bound_lemma. Qed.
Print Assumptions coverage_bound.
