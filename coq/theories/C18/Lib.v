(* C18/Lib.v — tactics shared by the C18 proofs (no axioms, no statements). *)
From Coq Require Import ZArith Reals Lia.

(* Turn a goal  P (let x := e in body)  into local definitions x := e in the context, one per `let`
   (the generated definitions are let-chains; this exposes them in SSA form without substituting). *)
Ltac let_intros :=
  repeat lazymatch goal with
  | |- ?P (let x := ?e in @?b x) =>
      lazymatch b with
      | (fun z => _) => let y := fresh z in change (let y := e in P (b y)); intro; cbv beta
      end
  end.

(* evaluate closed integer masks  (a =? b)%Z  *)
Ltac eval_masks :=
  repeat match goal with
  | |- context [Z.eqb ?a ?b] => let v := eval vm_compute in (Z.eqb a b) in progress change (Z.eqb a b) with v
  end.

(* split 0 <= cap < 12 into the twelve caps *)
Ltac cap_cases cap H :=
  let E := fresh "E" in
  assert (E : (cap = 0 \/ cap = 1 \/ cap = 2 \/ cap = 3 \/ cap = 4 \/ cap = 5 \/ cap = 6 \/ cap = 7 \/
               cap = 8 \/ cap = 9 \/ cap = 10 \/ cap = 11)%Z) by lia;
  clear H; repeat (destruct E as [E | E]; [subst cap | ]); [.. | subst cap].
