(* GENERATED ONCE by tools/dev/gen_c18_rings.py (committed, not regenerated at check time): ring 3 of the Euler16
   in-cap grid.  Each box lemma is closed by coq-interval: interval arithmetic with bisection, run by reflection inside the kernel at 60-bit
   precision, i.e. on Interval's software floats over Bignums (the primitive 63-bit integers PrimInt63 / Uint63 of the
   standard library appear in Print Assumptions; primitive FLOATS are not used: i_prec is above 53). *)
From Coq Require Import ZArith Reals Lra Lia.
From Interval Require Import Tactic.
From Abacus.C18 Require Import Gen PCovDefs.
Local Open Scope R_scope.

Lemma box_3_0 : forall t r, (1061 / 5000) <= t <= (2867 / 10000) -> (-1) <= r <= (-5 / 7) ->
  c45 <= dotn t r (cell_axis 3 0).
Proof.
  intros t r Ht Hr. unfold c45, dotn, cell_axis, EULER_NORM, EULER_TBIN. cbv zeta.
  interval with (i_bisect t, i_bisect r, i_depth 30, i_prec 60).
Qed.

Lemma box_3_1 : forall t r, (1061 / 5000) <= t <= (2867 / 10000) -> (-5 / 7) <= r <= (-3 / 7) ->
  c45 <= dotn t r (cell_axis 3 1).
Proof.
  intros t r Ht Hr. unfold c45, dotn, cell_axis, EULER_NORM, EULER_TBIN. cbv zeta.
  interval with (i_bisect t, i_bisect r, i_depth 30, i_prec 60).
Qed.

Lemma box_3_2 : forall t r, (1061 / 5000) <= t <= (2867 / 10000) -> (-3 / 7) <= r <= (-1 / 7) ->
  c45 <= dotn t r (cell_axis 3 2).
Proof.
  intros t r Ht Hr. unfold c45, dotn, cell_axis, EULER_NORM, EULER_TBIN. cbv zeta.
  interval with (i_bisect t, i_bisect r, i_depth 30, i_prec 60).
Qed.

Lemma box_3_3 : forall t r, (1061 / 5000) <= t <= (2867 / 10000) -> (-1 / 7) <= r <= (1 / 7) ->
  c45 <= dotn t r (cell_axis 3 3).
Proof.
  intros t r Ht Hr. unfold c45, dotn, cell_axis, EULER_NORM, EULER_TBIN. cbv zeta.
  interval with (i_bisect t, i_bisect r, i_depth 30, i_prec 60).
Qed.

Lemma box_3_4 : forall t r, (1061 / 5000) <= t <= (2867 / 10000) -> (1 / 7) <= r <= (3 / 7) ->
  c45 <= dotn t r (cell_axis 3 4).
Proof.
  intros t r Ht Hr. unfold c45, dotn, cell_axis, EULER_NORM, EULER_TBIN. cbv zeta.
  interval with (i_bisect t, i_bisect r, i_depth 30, i_prec 60).
Qed.

Lemma box_3_5 : forall t r, (1061 / 5000) <= t <= (2867 / 10000) -> (3 / 7) <= r <= (5 / 7) ->
  c45 <= dotn t r (cell_axis 3 5).
Proof.
  intros t r Ht Hr. unfold c45, dotn, cell_axis, EULER_NORM, EULER_TBIN. cbv zeta.
  interval with (i_bisect t, i_bisect r, i_depth 30, i_prec 60).
Qed.

Lemma box_3_6 : forall t r, (1061 / 5000) <= t <= (2867 / 10000) -> (5 / 7) <= r <= 1 ->
  c45 <= dotn t r (cell_axis 3 6).
Proof.
  intros t r Ht Hr. unfold c45, dotn, cell_axis, EULER_NORM, EULER_TBIN. cbv zeta.
  interval with (i_bisect t, i_bisect r, i_depth 30, i_prec 60).
Qed.

Lemma ring_3 : forall t r, (1061 / 5000) <= t <= (2867 / 10000) -> -1 <= r <= 1 ->
  exists ir : Z, (0 <= ir <= 2 * 3)%Z /\ c45 <= dotn t r (cell_axis 3 (IZR ir)).
Proof.
  intros t r Ht Hr.
  destruct (Rle_dec r (-5 / 7)) as [L0 | L0];
    [exists 0%Z; split; [lia | apply box_3_0; lra] |].
  destruct (Rle_dec r (-3 / 7)) as [L1 | L1];
    [exists 1%Z; split; [lia | apply box_3_1; lra] |].
  destruct (Rle_dec r (-1 / 7)) as [L2 | L2];
    [exists 2%Z; split; [lia | apply box_3_2; lra] |].
  destruct (Rle_dec r (1 / 7)) as [L3 | L3];
    [exists 3%Z; split; [lia | apply box_3_3; lra] |].
  destruct (Rle_dec r (3 / 7)) as [L4 | L4];
    [exists 4%Z; split; [lia | apply box_3_4; lra] |].
  destruct (Rle_dec r (5 / 7)) as [L5 | L5];
    [exists 5%Z; split; [lia | apply box_3_5; lra] |].
  exists 6%Z; split; [lia | apply box_3_6; lra].
Qed.
