(* C18/PMinor.v — the minor axis: two components proportional to (cos az, sin az), the third fixed by orthogonality to
   the major axis, then normalised.  Characterisation of the generated `minor_axis`, and injectivity in the azimuth bin. *)
From Coq Require Import ZArith Reals Lra Lia Psatz.
From Abacus.C18 Require Import Spec Gen Lib.
Local Open Scope R_scope.

Lemma minor_axis_char : forall cap iaz M0 M1 M2, (0 <= cap < 12)%Z ->
  exists az w n,
    az * IZR EULER_ABIN = (iaz + 1 / 2) * PI /\ 0 < n /\ n * n = 1 + w * w /\
    (((cap / 4 = 0)%Z /\ (M0 <> 0 -> w * M0 + cos az * M1 + sin az * M2 = 0) /\
       minor_axis cap iaz M0 M1 M2 = (w / n, cos az / n, sin az / n)) \/
     ((cap / 4 = 1)%Z /\ (M1 <> 0 -> sin az * M0 + w * M1 + cos az * M2 = 0) /\
       minor_axis cap iaz M0 M1 M2 = (sin az / n, w / n, cos az / n)) \/
     ((cap / 4 = 2)%Z /\ (M2 <> 0 -> cos az * M0 + sin az * M1 + w * M2 = 0) /\
       minor_axis cap iaz M0 M1 M2 = (cos az / n, sin az / n, w / n))).
Proof.
  intros cap iaz M0 M1 M2 Hcap.
  pose (P := fun p : R * R * R => exists az w n,
    az * IZR EULER_ABIN = (iaz + 1 / 2) * PI /\ 0 < n /\ n * n = 1 + w * w /\
    (((cap / 4 = 0)%Z /\ (M0 <> 0 -> w * M0 + cos az * M1 + sin az * M2 = 0) /\
       p = (w / n, cos az / n, sin az / n)) \/
     ((cap / 4 = 1)%Z /\ (M1 <> 0 -> sin az * M0 + w * M1 + cos az * M2 = 0) /\
       p = (sin az / n, w / n, cos az / n)) \/
     ((cap / 4 = 2)%Z /\ (M2 <> 0 -> cos az * M0 + sin az * M1 + w * M2 = 0) /\
       p = (cos az / n, sin az / n, w / n)))).
  change (P (minor_axis cap iaz M0 M1 M2)).
  assert (Hab : IZR EULER_ABIN = 45) by reflexivity.
  cap_cases cap Hcap; cbv beta zeta delta [minor_axis]; eval_masks; cbv iota; subst P; cbv beta;
    match goal with |- context [cos ?a] => set (az := a) end;
    match goal with |- context [?e / - ?M] => set (w := e / - M) end;
    match goal with |- context [sqrt ?a] => set (n := sqrt a) end;
    pose proof (sin2_cos2 az) as Hsc; unfold Rsqr in Hsc;
    exists az, w, n;
    (assert (Hnn : n * n = 1 + w * w) by (unfold n; rewrite sqrt_sqrt by nra; nra));
    (assert (Hnpos : 0 < n) by (unfold n; apply sqrt_lt_R0; nra));
    (split; [ unfold az; rewrite Hab; field | ]);
    (split; [ exact Hnpos | ]);
    (split; [ exact Hnn | ]);
    first [ left; split; [ reflexivity | ] | right; left; split; [ reflexivity | ] | right; right; split; [ reflexivity | ] ];
    (split; [ intro Hne; unfold w; field; exact Hne | (f_equal; [f_equal|]); unfold Rdiv; ring ]).
Qed.

(* az in (0, pi) for every azimuth bin, and it determines the bin *)
Lemma az_bounds : forall az iaz, az_range iaz -> az * IZR EULER_ABIN = (iaz + 1 / 2) * PI -> 0 < az < PI.
Proof.
  intros az iaz [H0 H1] E. assert (Hab : IZR EULER_ABIN = 45) by reflexivity. rewrite Hab in E.
  pose proof PI_RGT_0. split; nra.
Qed.

Lemma cos_sin_ratio_inj : forall a b, 0 < a < PI -> 0 < b < PI -> cos a * sin b = cos b * sin a -> a = b.
Proof.
  intros a b Ha Hb E.
  destruct (Rtotal_order a b) as [H | [H | H]]; [| exact H |]; exfalso.
  - assert (Hs : 0 < sin (b - a)) by (apply sin_gt_0; lra). rewrite sin_minus in Hs. lra.
  - assert (Hs : 0 < sin (a - b)) by (apply sin_gt_0; lra). rewrite sin_minus in Hs. lra.
Qed.

Lemma minor_axis_inj : forall cap iaz1 iaz2 M0 M1 M2, (0 <= cap < 12)%Z -> az_range iaz1 -> az_range iaz2 ->
  minor_axis cap iaz1 M0 M1 M2 = minor_axis cap iaz2 M0 M1 M2 -> iaz1 = iaz2.
Proof.
  intros cap iaz1 iaz2 M0 M1 M2 Hcap Hr1 Hr2 E.
  destruct (minor_axis_char cap iaz1 M0 M1 M2 Hcap) as (a1 & w1 & n1 & Ha1 & Hn1 & _ & B1).
  destruct (minor_axis_char cap iaz2 M0 M1 M2 Hcap) as (a2 & w2 & n2 & Ha2 & Hn2 & _ & B2).
  pose proof (az_bounds _ _ Hr1 Ha1) as Hb1. pose proof (az_bounds _ _ Hr2 Ha2) as Hb2.
  assert (Hcs : cos a1 / n1 = cos a2 / n2 /\ sin a1 / n1 = sin a2 / n2).
  { destruct B1 as [(G1 & _ & F1) | [(G1 & _ & F1) | (G1 & _ & F1)]];
    destruct B2 as [(G2 & _ & F2) | [(G2 & _ & F2) | (G2 & _ & F2)]];
    try (exfalso; lia); rewrite F1, F2 in E; injection E as E0 E1 E2; split; assumption. }
  destruct Hcs as [Hc Hs].
  assert (Eaz : a1 = a2).
  { apply cos_sin_ratio_inj; try assumption.
    assert (X : (cos a1 / n1) * (sin a2 / n2) = (cos a2 / n2) * (sin a1 / n1)) by (rewrite Hc, Hs; ring).
    apply Rmult_eq_reg_r with (/ n1 * / n2).
    - unfold Rdiv in X. lra.
    - apply Rmult_integral_contrapositive_currified; apply Rinv_neq_0_compat; lra. }
  subst a2. assert (Hab : IZR EULER_ABIN = 45) by reflexivity. rewrite Hab in *.
  pose proof PI_RGT_0. nra.
Qed.
