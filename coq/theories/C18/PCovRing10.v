(* GENERATED ONCE by tools/dev/gen_c18_rings.py (committed, not regenerated at check time): ring 10 of the Euler16
   in-cap grid.  Each box lemma is closed by coq-interval: interval arithmetic with bisection, run by reflection inside the kernel at 60-bit
   precision, i.e. on Interval's software floats over Bignums (the primitive 63-bit integers PrimInt63 / Uint63 of the
   standard library appear in Print Assumptions; primitive FLOATS are not used: i_prec is above 53). *)
From Coq Require Import ZArith Reals Lra Lia.
From Interval Require Import Tactic.
From Abacus.C18 Require Import Gen PCovDefs.
Local Open Scope R_scope.

Lemma box_10_0 : forall t r, (8607 / 10000) <= t <= 1 -> (-1) <= r <= (-19 / 21) ->
  c45 <= dotn t r (cell_axis 10 0).
Proof.
  intros t r Ht Hr. unfold c45, dotn, cell_axis, EULER_NORM, EULER_TBIN. cbv zeta.
  interval with (i_bisect t, i_bisect r, i_depth 30, i_prec 60).
Qed.

Lemma box_10_1 : forall t r, (8607 / 10000) <= t <= 1 -> (-19 / 21) <= r <= (-17 / 21) ->
  c45 <= dotn t r (cell_axis 10 1).
Proof.
  intros t r Ht Hr. unfold c45, dotn, cell_axis, EULER_NORM, EULER_TBIN. cbv zeta.
  interval with (i_bisect t, i_bisect r, i_depth 30, i_prec 60).
Qed.

Lemma box_10_2 : forall t r, (8607 / 10000) <= t <= 1 -> (-17 / 21) <= r <= (-5 / 7) ->
  c45 <= dotn t r (cell_axis 10 2).
Proof.
  intros t r Ht Hr. unfold c45, dotn, cell_axis, EULER_NORM, EULER_TBIN. cbv zeta.
  interval with (i_bisect t, i_bisect r, i_depth 30, i_prec 60).
Qed.

Lemma box_10_3 : forall t r, (8607 / 10000) <= t <= 1 -> (-5 / 7) <= r <= (-13 / 21) ->
  c45 <= dotn t r (cell_axis 10 3).
Proof.
  intros t r Ht Hr. unfold c45, dotn, cell_axis, EULER_NORM, EULER_TBIN. cbv zeta.
  interval with (i_bisect t, i_bisect r, i_depth 30, i_prec 60).
Qed.

Lemma box_10_4 : forall t r, (8607 / 10000) <= t <= 1 -> (-13 / 21) <= r <= (-11 / 21) ->
  c45 <= dotn t r (cell_axis 10 4).
Proof.
  intros t r Ht Hr. unfold c45, dotn, cell_axis, EULER_NORM, EULER_TBIN. cbv zeta.
  interval with (i_bisect t, i_bisect r, i_depth 30, i_prec 60).
Qed.

Lemma box_10_5 : forall t r, (8607 / 10000) <= t <= 1 -> (-11 / 21) <= r <= (-3 / 7) ->
  c45 <= dotn t r (cell_axis 10 5).
Proof.
  intros t r Ht Hr. unfold c45, dotn, cell_axis, EULER_NORM, EULER_TBIN. cbv zeta.
  interval with (i_bisect t, i_bisect r, i_depth 30, i_prec 60).
Qed.

Lemma box_10_6 : forall t r, (8607 / 10000) <= t <= 1 -> (-3 / 7) <= r <= (-1 / 3) ->
  c45 <= dotn t r (cell_axis 10 6).
Proof.
  intros t r Ht Hr. unfold c45, dotn, cell_axis, EULER_NORM, EULER_TBIN. cbv zeta.
  interval with (i_bisect t, i_bisect r, i_depth 30, i_prec 60).
Qed.

Lemma box_10_7 : forall t r, (8607 / 10000) <= t <= 1 -> (-1 / 3) <= r <= (-5 / 21) ->
  c45 <= dotn t r (cell_axis 10 7).
Proof.
  intros t r Ht Hr. unfold c45, dotn, cell_axis, EULER_NORM, EULER_TBIN. cbv zeta.
  interval with (i_bisect t, i_bisect r, i_depth 30, i_prec 60).
Qed.

Lemma box_10_8 : forall t r, (8607 / 10000) <= t <= 1 -> (-5 / 21) <= r <= (-1 / 7) ->
  c45 <= dotn t r (cell_axis 10 8).
Proof.
  intros t r Ht Hr. unfold c45, dotn, cell_axis, EULER_NORM, EULER_TBIN. cbv zeta.
  interval with (i_bisect t, i_bisect r, i_depth 30, i_prec 60).
Qed.

Lemma box_10_9 : forall t r, (8607 / 10000) <= t <= 1 -> (-1 / 7) <= r <= (-1 / 21) ->
  c45 <= dotn t r (cell_axis 10 9).
Proof.
  intros t r Ht Hr. unfold c45, dotn, cell_axis, EULER_NORM, EULER_TBIN. cbv zeta.
  interval with (i_bisect t, i_bisect r, i_depth 30, i_prec 60).
Qed.

Lemma box_10_10 : forall t r, (8607 / 10000) <= t <= 1 -> (-1 / 21) <= r <= (1 / 21) ->
  c45 <= dotn t r (cell_axis 10 10).
Proof.
  intros t r Ht Hr. unfold c45, dotn, cell_axis, EULER_NORM, EULER_TBIN. cbv zeta.
  interval with (i_bisect t, i_bisect r, i_depth 30, i_prec 60).
Qed.

Lemma box_10_11 : forall t r, (8607 / 10000) <= t <= 1 -> (1 / 21) <= r <= (1 / 7) ->
  c45 <= dotn t r (cell_axis 10 11).
Proof.
  intros t r Ht Hr. unfold c45, dotn, cell_axis, EULER_NORM, EULER_TBIN. cbv zeta.
  interval with (i_bisect t, i_bisect r, i_depth 30, i_prec 60).
Qed.

Lemma box_10_12 : forall t r, (8607 / 10000) <= t <= 1 -> (1 / 7) <= r <= (5 / 21) ->
  c45 <= dotn t r (cell_axis 10 12).
Proof.
  intros t r Ht Hr. unfold c45, dotn, cell_axis, EULER_NORM, EULER_TBIN. cbv zeta.
  interval with (i_bisect t, i_bisect r, i_depth 30, i_prec 60).
Qed.

Lemma box_10_13 : forall t r, (8607 / 10000) <= t <= 1 -> (5 / 21) <= r <= (1 / 3) ->
  c45 <= dotn t r (cell_axis 10 13).
Proof.
  intros t r Ht Hr. unfold c45, dotn, cell_axis, EULER_NORM, EULER_TBIN. cbv zeta.
  interval with (i_bisect t, i_bisect r, i_depth 30, i_prec 60).
Qed.

Lemma box_10_14 : forall t r, (8607 / 10000) <= t <= 1 -> (1 / 3) <= r <= (3 / 7) ->
  c45 <= dotn t r (cell_axis 10 14).
Proof.
  intros t r Ht Hr. unfold c45, dotn, cell_axis, EULER_NORM, EULER_TBIN. cbv zeta.
  interval with (i_bisect t, i_bisect r, i_depth 30, i_prec 60).
Qed.

Lemma box_10_15 : forall t r, (8607 / 10000) <= t <= 1 -> (3 / 7) <= r <= (11 / 21) ->
  c45 <= dotn t r (cell_axis 10 15).
Proof.
  intros t r Ht Hr. unfold c45, dotn, cell_axis, EULER_NORM, EULER_TBIN. cbv zeta.
  interval with (i_bisect t, i_bisect r, i_depth 30, i_prec 60).
Qed.

Lemma box_10_16 : forall t r, (8607 / 10000) <= t <= 1 -> (11 / 21) <= r <= (13 / 21) ->
  c45 <= dotn t r (cell_axis 10 16).
Proof.
  intros t r Ht Hr. unfold c45, dotn, cell_axis, EULER_NORM, EULER_TBIN. cbv zeta.
  interval with (i_bisect t, i_bisect r, i_depth 30, i_prec 60).
Qed.

Lemma box_10_17 : forall t r, (8607 / 10000) <= t <= 1 -> (13 / 21) <= r <= (5 / 7) ->
  c45 <= dotn t r (cell_axis 10 17).
Proof.
  intros t r Ht Hr. unfold c45, dotn, cell_axis, EULER_NORM, EULER_TBIN. cbv zeta.
  interval with (i_bisect t, i_bisect r, i_depth 30, i_prec 60).
Qed.

Lemma box_10_18 : forall t r, (8607 / 10000) <= t <= 1 -> (5 / 7) <= r <= (17 / 21) ->
  c45 <= dotn t r (cell_axis 10 18).
Proof.
  intros t r Ht Hr. unfold c45, dotn, cell_axis, EULER_NORM, EULER_TBIN. cbv zeta.
  interval with (i_bisect t, i_bisect r, i_depth 30, i_prec 60).
Qed.

Lemma box_10_19 : forall t r, (8607 / 10000) <= t <= 1 -> (17 / 21) <= r <= (19 / 21) ->
  c45 <= dotn t r (cell_axis 10 19).
Proof.
  intros t r Ht Hr. unfold c45, dotn, cell_axis, EULER_NORM, EULER_TBIN. cbv zeta.
  interval with (i_bisect t, i_bisect r, i_depth 30, i_prec 60).
Qed.

Lemma box_10_20 : forall t r, (8607 / 10000) <= t <= 1 -> (19 / 21) <= r <= 1 ->
  c45 <= dotn t r (cell_axis 10 20).
Proof.
  intros t r Ht Hr. unfold c45, dotn, cell_axis, EULER_NORM, EULER_TBIN. cbv zeta.
  interval with (i_bisect t, i_bisect r, i_depth 30, i_prec 60).
Qed.

Lemma ring_10 : forall t r, (8607 / 10000) <= t <= 1 -> -1 <= r <= 1 ->
  exists ir : Z, (0 <= ir <= 2 * 10)%Z /\ c45 <= dotn t r (cell_axis 10 (IZR ir)).
Proof.
  intros t r Ht Hr.
  destruct (Rle_dec r (-19 / 21)) as [L0 | L0];
    [exists 0%Z; split; [lia | apply box_10_0; lra] |].
  destruct (Rle_dec r (-17 / 21)) as [L1 | L1];
    [exists 1%Z; split; [lia | apply box_10_1; lra] |].
  destruct (Rle_dec r (-5 / 7)) as [L2 | L2];
    [exists 2%Z; split; [lia | apply box_10_2; lra] |].
  destruct (Rle_dec r (-13 / 21)) as [L3 | L3];
    [exists 3%Z; split; [lia | apply box_10_3; lra] |].
  destruct (Rle_dec r (-11 / 21)) as [L4 | L4];
    [exists 4%Z; split; [lia | apply box_10_4; lra] |].
  destruct (Rle_dec r (-3 / 7)) as [L5 | L5];
    [exists 5%Z; split; [lia | apply box_10_5; lra] |].
  destruct (Rle_dec r (-1 / 3)) as [L6 | L6];
    [exists 6%Z; split; [lia | apply box_10_6; lra] |].
  destruct (Rle_dec r (-5 / 21)) as [L7 | L7];
    [exists 7%Z; split; [lia | apply box_10_7; lra] |].
  destruct (Rle_dec r (-1 / 7)) as [L8 | L8];
    [exists 8%Z; split; [lia | apply box_10_8; lra] |].
  destruct (Rle_dec r (-1 / 21)) as [L9 | L9];
    [exists 9%Z; split; [lia | apply box_10_9; lra] |].
  destruct (Rle_dec r (1 / 21)) as [L10 | L10];
    [exists 10%Z; split; [lia | apply box_10_10; lra] |].
  destruct (Rle_dec r (1 / 7)) as [L11 | L11];
    [exists 11%Z; split; [lia | apply box_10_11; lra] |].
  destruct (Rle_dec r (5 / 21)) as [L12 | L12];
    [exists 12%Z; split; [lia | apply box_10_12; lra] |].
  destruct (Rle_dec r (1 / 3)) as [L13 | L13];
    [exists 13%Z; split; [lia | apply box_10_13; lra] |].
  destruct (Rle_dec r (3 / 7)) as [L14 | L14];
    [exists 14%Z; split; [lia | apply box_10_14; lra] |].
  destruct (Rle_dec r (11 / 21)) as [L15 | L15];
    [exists 15%Z; split; [lia | apply box_10_15; lra] |].
  destruct (Rle_dec r (13 / 21)) as [L16 | L16];
    [exists 16%Z; split; [lia | apply box_10_16; lra] |].
  destruct (Rle_dec r (5 / 7)) as [L17 | L17];
    [exists 17%Z; split; [lia | apply box_10_17; lra] |].
  destruct (Rle_dec r (17 / 21)) as [L18 | L18];
    [exists 18%Z; split; [lia | apply box_10_18; lra] |].
  destruct (Rle_dec r (19 / 21)) as [L19 | L19];
    [exists 19%Z; split; [lia | apply box_10_19; lra] |].
  exists 20%Z; split; [lia | apply box_10_20; lra].
Qed.
