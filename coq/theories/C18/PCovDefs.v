(* C18/PCovDefs.v — the quantity the box lemmas of PCovRingNN.v bound: for a direction (r t, t, 1) of a cap's fundamental
   triangle (t = y/z in [0,1], r = x/y in [-1,1]) and a unit axis a, the cosine of the angle between them. *)
From Coq Require Import Reals.
Local Open Scope R_scope.

Definition c45 : R := 99692 / 100000.      (* > cos (4.5 degrees) = 0.99691733... (PCoverBound.cos45_below) *)

Definition dotn (t r : R) (a : R * R * R) : R :=
  let '(x, y, z) := a in
  (r * t * x + t * y + z) / sqrt (1 + (r * t) * (r * t) + t * t).
