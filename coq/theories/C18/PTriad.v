(* C18/PTriad.v — assembling the pieces: orthonormality and handedness of the generated `triad` for all real parameters
   in range, and injectivity of the generated `unpack_euler16` on the valid codes. *)
From Coq Require Import ZArith Reals Lra Lia Psatz.
From Abacus.C18 Require Import Spec Gen Lib PDecompose PCell PMajor PMinor.
Local Open Scope R_scope.

(* ---- middle axis: normalised cross product; the normalisation is by 1 when minor, major are orthonormal *)
Lemma middle_axis_cross : forall m0 m1 m2 M0 M1 M2,
  dot (m0, m1, m2) (m0, m1, m2) = 1 -> dot (M0, M1, M2) (M0, M1, M2) = 1 -> dot (m0, m1, m2) (M0, M1, M2) = 0 ->
  middle_axis m0 m1 m2 M0 M1 M2 = cross (m0, m1, m2) (M0, M1, M2).
Proof.
  intros m0 m1 m2 M0 M1 M2 Hm HM Ho. unfold dot in *.
  cbv beta zeta delta [middle_axis cross].
  match goal with |- context [sqrt ?a] =>
    assert (Hlag : a = (m0 * m0 + m1 * m1 + m2 * m2) * (M0 * M0 + M1 * M1 + M2 * M2)
                       - (m0 * M0 + m1 * M1 + m2 * M2) * (m0 * M0 + m1 * M1 + m2 * M2)) by ring;
    rewrite Hm, HM, Ho in Hlag; replace a with 1 by lra
  end.
  rewrite sqrt_1. (f_equal; [f_equal|]); field.
Qed.

Lemma cross_orthonormal : forall a b : vec, dot a a = 1 -> dot b b = 1 -> dot a b = 0 ->
  dot (cross a b) (cross a b) = 1 /\ dot a (cross a b) = 0 /\ dot (cross a b) b = 0.
Proof.
  intros [[a0 a1] a2] [[b0 b1] b2] Ha Hb Ho. unfold dot, cross in *.
  split; [| split; ring].
  replace ((a1 * b2 - a2 * b1) * (a1 * b2 - a2 * b1) + (a2 * b0 - a0 * b2) * (a2 * b0 - a0 * b2) +
           (a0 * b1 - a1 * b0) * (a0 * b1 - a1 * b0))
    with ((a0 * a0 + a1 * a1 + a2 * a2) * (b0 * b0 + b1 * b1 + b2 * b2)
          - (a0 * b0 + a1 * b1 + a2 * b2) * (a0 * b0 + a1 * b1 + a2 * b2)) by ring.
  rewrite Ha, Hb, Ho. ring.
Qed.

Lemma scaled_unit_orth : forall a b c n M0 M1 M2, 0 < n -> n * n = a * a + b * b + c * c ->
  a * M0 + b * M1 + c * M2 = 0 ->
  dot (a / n, b / n, c / n) (a / n, b / n, c / n) = 1 /\ dot (a / n, b / n, c / n) (M0, M1, M2) = 0.
Proof.
  intros a b c n M0 M1 M2 Hn Hnn Ho. unfold dot. split.
  - replace (a / n * (a / n) + b / n * (b / n) + c / n * (c / n)) with ((a * a + b * b + c * c) / (n * n))
      by (field; lra).
    rewrite <- Hnn. field. lra.
  - replace (a / n * M0 + b / n * M1 + c / n * M2) with ((a * M0 + b * M1 + c * M2) / n) by (field; lra).
    rewrite Ho. field. lra.
Qed.

(* minor axis: unit and orthogonal to any unit major axis produced by the table from a unit triple with zz > 0 *)
Lemma minor_axis_unit_orth : forall cap iaz x y z M0 M1 M2, (0 <= cap < 12)%Z -> 0 < z ->
  major_table cap x y z = (M0, M1, M2) ->
  forall m0 m1 m2, minor_axis cap iaz M0 M1 M2 = (m0, m1, m2) ->
  dot (m0, m1, m2) (m0, m1, m2) = 1 /\ dot (m0, m1, m2) (M0, M1, M2) = 0.
Proof.
  intros cap iaz x y z M0 M1 M2 Hcap Hz HM m0 m1 m2 Hm.
  pose proof (major_table_zpos cap x y z M0 M1 M2 Hcap HM) as Hpos.
  destruct (minor_axis_char cap iaz M0 M1 M2 Hcap) as (az & w & n & _ & Hn & Hnn & B).
  pose proof (sin2_cos2 az) as Hsc. unfold Rsqr in Hsc.
  destruct B as [(G & Hw & F) | [(G & Hw & F) | (G & Hw & F)]];
    destruct Hpos as [(G' & Ez) | [(G' & Ez) | (G' & Ez)]]; try (exfalso; lia);
    rewrite F in Hm; injection Hm as E0 E1 E2; subst m0 m1 m2;
    apply scaled_unit_orth; try assumption; try lra; apply Hw; lra.
Qed.

(* ---- triad_orthonormal *)
Lemma triad_orthonormal_lemma : forall cap it ir iaz, (0 <= cap < 12)%Z -> cell_range it ir ->
  orthonormal_triad (triad cap it ir iaz).
Proof.
  intros cap it ir iaz Hcap Hr. unfold triad.
  destruct (cell_axis it ir) as [[x y] z] eqn:Hc.
  destruct (cell_axis_unit_ordered it ir x y z Hr Hc) as (Hu & _ & Hz).
  destruct (major_table cap x y z) as [[M0 M1] M2] eqn:HM.
  assert (HMM : dot (M0, M1, M2) (M0, M1, M2) = 1) by (rewrite <- HM, major_table_dot by exact Hcap; exact Hu).
  destruct (minor_axis cap iaz M0 M1 M2) as [[m0 m1] m2] eqn:Hm.
  destruct (minor_axis_unit_orth cap iaz x y z M0 M1 M2 Hcap Hz HM m0 m1 m2 Hm) as [Hmm HmM].
  rewrite (middle_axis_cross m0 m1 m2 M0 M1 M2 Hmm HMM HmM).
  destruct (cross_orthonormal (m0, m1, m2) (M0, M1, M2) Hmm HMM HmM) as (Hcc & Hmc & HcM).
  destruct (cross (m0, m1, m2) (M0, M1, M2)) as [[d0 d1] d2] eqn:Hd.
  unfold orthonormal_triad. rewrite Hd. repeat split; assumption.
Qed.

(* ---- projections of the generated glue *)
Lemma triad_major : forall cap it ir iaz,
  snd (triad cap it ir iaz) = (let '(x, y, z) := cell_axis it ir in major_table cap x y z).
Proof.
  intros. unfold triad. destruct (cell_axis it ir) as [[x y] z]. destruct (major_table cap x y z) as [[M0 M1] M2].
  destruct (minor_axis cap iaz M0 M1 M2) as [[m0 m1] m2]. destruct (middle_axis m0 m1 m2 M0 M1 M2) as [[d0 d1] d2].
  reflexivity.
Qed.

Lemma triad_minor : forall cap it ir iaz,
  fst (fst (triad cap it ir iaz)) =
  (let '(x, y, z) := cell_axis it ir in let '(M0, M1, M2) := major_table cap x y z in minor_axis cap iaz M0 M1 M2).
Proof.
  intros. unfold triad. destruct (cell_axis it ir) as [[x y] z]. destruct (major_table cap x y z) as [[M0 M1] M2].
  destruct (minor_axis cap iaz M0 M1 M2) as [[m0 m1] m2]. destruct (middle_axis m0 m1 m2 M0 M1 M2) as [[d0 d1] d2].
  reflexivity.
Qed.

(* distinct (cap, cell) give distinct major axes; same (cap, cell) and distinct azimuth bins give distinct minor axes *)
Lemma triad_inj : forall cap1 it1 ir1 iaz1 cap2 it2 ir2 iaz2,
  (0 <= cap1 < 12)%Z -> (0 <= cap2 < 12)%Z -> cell_range it1 ir1 -> cell_range it2 ir2 ->
  az_range iaz1 -> az_range iaz2 ->
  triad cap1 it1 ir1 iaz1 = triad cap2 it2 ir2 iaz2 ->
  cap1 = cap2 /\ it1 = it2 /\ ir1 = ir2 /\ iaz1 = iaz2.
Proof.
  intros cap1 it1 ir1 iaz1 cap2 it2 ir2 iaz2 Hc1 Hc2 Hr1 Hr2 Ha1 Ha2 E.
  assert (EM : snd (triad cap1 it1 ir1 iaz1) = snd (triad cap2 it2 ir2 iaz2)) by (rewrite E; reflexivity).
  assert (Em : fst (fst (triad cap1 it1 ir1 iaz1)) = fst (fst (triad cap2 it2 ir2 iaz2))) by (rewrite E; reflexivity).
  rewrite !triad_major in EM. rewrite !triad_minor in Em.
  destruct (cell_axis it1 ir1) as [[x1 y1] z1] eqn:Hx1. destruct (cell_axis it2 ir2) as [[x2 y2] z2] eqn:Hx2.
  destruct (cell_axis_unit_ordered _ _ _ _ _ Hr1 Hx1) as (_ & Ho1 & _).
  destruct (cell_axis_unit_ordered _ _ _ _ _ Hr2 Hx2) as (_ & Ho2 & _).
  destruct (major_table_inj _ _ _ _ _ _ _ _ Hc1 Hc2 Ho1 Ho2 EM) as (Ecap & Ex & Ey & Ez).
  subst cap2 x2 y2 z2.
  destruct (cell_axis_inj it1 ir1 it2 ir2 Hr1 Hr2 ltac:(congruence)) as [Eit Eir]. subst it2 ir2.
  destruct (major_table cap1 x1 y1 z1) as [[M0 M1] M2].
  pose proof (minor_axis_inj cap1 iaz1 iaz2 M0 M1 M2 Hc1 Ha1 Ha2 Em) as Eaz.
  repeat split; try reflexivity; exact Eaz.
Qed.

(* ---- integer cells lie in the real ranges *)
Lemma valid_cell_ranges : forall cap it ir iaz, valid_cell cap it ir iaz ->
  (0 <= cap < 12)%Z /\ cell_range (IZR it) (IZR ir) /\ az_range (IZR iaz).
Proof.
  intros cap it ir iaz (Hc & Hit & Hir & Haz). split; [exact Hc|].
  unfold cell_range, az_range.
  replace (2 * IZR it) with (IZR (2 * it)) by (rewrite mult_IZR; reflexivity).
  repeat split; apply IZR_le; lia.
Qed.

Lemma unpack_eq : forall c cap it ir iaz, decompose c = (cap, it, ir, iaz) ->
  unpack_euler16 c = triad cap (IZR it) (IZR ir) (IZR iaz).
Proof. intros c cap it ir iaz H. unfold unpack_euler16. rewrite H. reflexivity. Qed.

Lemma decompose_valid : forall c, valid_code c ->
  exists cap it ir iaz, decompose c = (cap, it, ir, iaz) /\ valid_cell cap it ir iaz /\ encode cap it ir iaz = c.
Proof.
  intros c Hc. pose proof (encode_decompose c Hc) as H.
  destruct (decompose c) as [[[cap it] ir] iaz]. exists cap, it, ir, iaz. tauto.
Qed.

Lemma unpack_orthonormal_lemma : forall c, valid_code c -> orthonormal_triad (unpack_euler16 c).
Proof.
  intros c Hc. destruct (decompose_valid c Hc) as (cap & it & ir & iaz & Hd & Hv & _).
  rewrite (unpack_eq _ _ _ _ _ Hd).
  destruct (valid_cell_ranges _ _ _ _ Hv) as (H1 & H2 & _).
  apply triad_orthonormal_lemma; assumption.
Qed.

Lemma codes_distinct_lemma : forall c1 c2, valid_code c1 -> valid_code c2 -> c1 <> c2 ->
  unpack_euler16 c1 <> unpack_euler16 c2.
Proof.
  intros c1 c2 H1 H2 Hne E. apply Hne.
  destruct (decompose_valid c1 H1) as (cap1 & it1 & ir1 & iaz1 & Hd1 & V1 & A1).
  destruct (decompose_valid c2 H2) as (cap2 & it2 & ir2 & iaz2 & Hd2 & V2 & A2).
  rewrite (unpack_eq _ _ _ _ _ Hd1), (unpack_eq _ _ _ _ _ Hd2) in E.
  destruct (valid_cell_ranges _ _ _ _ V1) as (Hc1 & Hr1 & Ha1).
  destruct (valid_cell_ranges _ _ _ _ V2) as (Hc2 & Hr2 & Ha2).
  destruct (triad_inj _ _ _ _ _ _ _ _ Hc1 Hc2 Hr1 Hr2 Ha1 Ha2 E) as (Ecap & Eit & Eir & Eaz).
  apply eq_IZR in Eit. apply eq_IZR in Eir. apply eq_IZR in Eaz. congruence.
Qed.
