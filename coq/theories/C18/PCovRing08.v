(* GENERATED ONCE by tools/dev/gen_c18_rings.py (committed, not regenerated at check time): ring 8 of the Euler16
   in-cap grid.  Each box lemma is closed by coq-interval: interval arithmetic with bisection, run by reflection inside the kernel at 60-bit
   precision, i.e. on Interval's software floats over Bignums (the primitive 63-bit integers PrimInt63 / Uint63 of the
   standard library appear in Print Assumptions; primitive FLOATS are not used: i_prec is above 53). *)
From Coq Require Import ZArith Reals Lra Lia.
From Interval Require Import Tactic.
From Abacus.C18 Require Import Gen PCovDefs.
Local Open Scope R_scope.

Lemma box_8_0 : forall t r, (3163 / 5000) <= t <= (3699 / 5000) -> (-1) <= r <= (-15 / 17) ->
  c45 <= dotn t r (cell_axis 8 0).
Proof.
  intros t r Ht Hr. unfold c45, dotn, cell_axis, EULER_NORM, EULER_TBIN. cbv zeta.
  interval with (i_bisect t, i_bisect r, i_depth 30, i_prec 60).
Qed.

Lemma box_8_1 : forall t r, (3163 / 5000) <= t <= (3699 / 5000) -> (-15 / 17) <= r <= (-13 / 17) ->
  c45 <= dotn t r (cell_axis 8 1).
Proof.
  intros t r Ht Hr. unfold c45, dotn, cell_axis, EULER_NORM, EULER_TBIN. cbv zeta.
  interval with (i_bisect t, i_bisect r, i_depth 30, i_prec 60).
Qed.

Lemma box_8_2 : forall t r, (3163 / 5000) <= t <= (3699 / 5000) -> (-13 / 17) <= r <= (-11 / 17) ->
  c45 <= dotn t r (cell_axis 8 2).
Proof.
  intros t r Ht Hr. unfold c45, dotn, cell_axis, EULER_NORM, EULER_TBIN. cbv zeta.
  interval with (i_bisect t, i_bisect r, i_depth 30, i_prec 60).
Qed.

Lemma box_8_3 : forall t r, (3163 / 5000) <= t <= (3699 / 5000) -> (-11 / 17) <= r <= (-9 / 17) ->
  c45 <= dotn t r (cell_axis 8 3).
Proof.
  intros t r Ht Hr. unfold c45, dotn, cell_axis, EULER_NORM, EULER_TBIN. cbv zeta.
  interval with (i_bisect t, i_bisect r, i_depth 30, i_prec 60).
Qed.

Lemma box_8_4 : forall t r, (3163 / 5000) <= t <= (3699 / 5000) -> (-9 / 17) <= r <= (-7 / 17) ->
  c45 <= dotn t r (cell_axis 8 4).
Proof.
  intros t r Ht Hr. unfold c45, dotn, cell_axis, EULER_NORM, EULER_TBIN. cbv zeta.
  interval with (i_bisect t, i_bisect r, i_depth 30, i_prec 60).
Qed.

Lemma box_8_5 : forall t r, (3163 / 5000) <= t <= (3699 / 5000) -> (-7 / 17) <= r <= (-5 / 17) ->
  c45 <= dotn t r (cell_axis 8 5).
Proof.
  intros t r Ht Hr. unfold c45, dotn, cell_axis, EULER_NORM, EULER_TBIN. cbv zeta.
  interval with (i_bisect t, i_bisect r, i_depth 30, i_prec 60).
Qed.

Lemma box_8_6 : forall t r, (3163 / 5000) <= t <= (3699 / 5000) -> (-5 / 17) <= r <= (-3 / 17) ->
  c45 <= dotn t r (cell_axis 8 6).
Proof.
  intros t r Ht Hr. unfold c45, dotn, cell_axis, EULER_NORM, EULER_TBIN. cbv zeta.
  interval with (i_bisect t, i_bisect r, i_depth 30, i_prec 60).
Qed.

Lemma box_8_7 : forall t r, (3163 / 5000) <= t <= (3699 / 5000) -> (-3 / 17) <= r <= (-1 / 17) ->
  c45 <= dotn t r (cell_axis 8 7).
Proof.
  intros t r Ht Hr. unfold c45, dotn, cell_axis, EULER_NORM, EULER_TBIN. cbv zeta.
  interval with (i_bisect t, i_bisect r, i_depth 30, i_prec 60).
Qed.

Lemma box_8_8 : forall t r, (3163 / 5000) <= t <= (3699 / 5000) -> (-1 / 17) <= r <= (1 / 17) ->
  c45 <= dotn t r (cell_axis 8 8).
Proof.
  intros t r Ht Hr. unfold c45, dotn, cell_axis, EULER_NORM, EULER_TBIN. cbv zeta.
  interval with (i_bisect t, i_bisect r, i_depth 30, i_prec 60).
Qed.

Lemma box_8_9 : forall t r, (3163 / 5000) <= t <= (3699 / 5000) -> (1 / 17) <= r <= (3 / 17) ->
  c45 <= dotn t r (cell_axis 8 9).
Proof.
  intros t r Ht Hr. unfold c45, dotn, cell_axis, EULER_NORM, EULER_TBIN. cbv zeta.
  interval with (i_bisect t, i_bisect r, i_depth 30, i_prec 60).
Qed.

Lemma box_8_10 : forall t r, (3163 / 5000) <= t <= (3699 / 5000) -> (3 / 17) <= r <= (5 / 17) ->
  c45 <= dotn t r (cell_axis 8 10).
Proof.
  intros t r Ht Hr. unfold c45, dotn, cell_axis, EULER_NORM, EULER_TBIN. cbv zeta.
  interval with (i_bisect t, i_bisect r, i_depth 30, i_prec 60).
Qed.

Lemma box_8_11 : forall t r, (3163 / 5000) <= t <= (3699 / 5000) -> (5 / 17) <= r <= (7 / 17) ->
  c45 <= dotn t r (cell_axis 8 11).
Proof.
  intros t r Ht Hr. unfold c45, dotn, cell_axis, EULER_NORM, EULER_TBIN. cbv zeta.
  interval with (i_bisect t, i_bisect r, i_depth 30, i_prec 60).
Qed.

Lemma box_8_12 : forall t r, (3163 / 5000) <= t <= (3699 / 5000) -> (7 / 17) <= r <= (9 / 17) ->
  c45 <= dotn t r (cell_axis 8 12).
Proof.
  intros t r Ht Hr. unfold c45, dotn, cell_axis, EULER_NORM, EULER_TBIN. cbv zeta.
  interval with (i_bisect t, i_bisect r, i_depth 30, i_prec 60).
Qed.

Lemma box_8_13 : forall t r, (3163 / 5000) <= t <= (3699 / 5000) -> (9 / 17) <= r <= (11 / 17) ->
  c45 <= dotn t r (cell_axis 8 13).
Proof.
  intros t r Ht Hr. unfold c45, dotn, cell_axis, EULER_NORM, EULER_TBIN. cbv zeta.
  interval with (i_bisect t, i_bisect r, i_depth 30, i_prec 60).
Qed.

Lemma box_8_14 : forall t r, (3163 / 5000) <= t <= (3699 / 5000) -> (11 / 17) <= r <= (13 / 17) ->
  c45 <= dotn t r (cell_axis 8 14).
Proof.
  intros t r Ht Hr. unfold c45, dotn, cell_axis, EULER_NORM, EULER_TBIN. cbv zeta.
  interval with (i_bisect t, i_bisect r, i_depth 30, i_prec 60).
Qed.

Lemma box_8_15 : forall t r, (3163 / 5000) <= t <= (3699 / 5000) -> (13 / 17) <= r <= (15 / 17) ->
  c45 <= dotn t r (cell_axis 8 15).
Proof.
  intros t r Ht Hr. unfold c45, dotn, cell_axis, EULER_NORM, EULER_TBIN. cbv zeta.
  interval with (i_bisect t, i_bisect r, i_depth 30, i_prec 60).
Qed.

Lemma box_8_16 : forall t r, (3163 / 5000) <= t <= (3699 / 5000) -> (15 / 17) <= r <= 1 ->
  c45 <= dotn t r (cell_axis 8 16).
Proof.
  intros t r Ht Hr. unfold c45, dotn, cell_axis, EULER_NORM, EULER_TBIN. cbv zeta.
  interval with (i_bisect t, i_bisect r, i_depth 30, i_prec 60).
Qed.

Lemma ring_8 : forall t r, (3163 / 5000) <= t <= (3699 / 5000) -> -1 <= r <= 1 ->
  exists ir : Z, (0 <= ir <= 2 * 8)%Z /\ c45 <= dotn t r (cell_axis 8 (IZR ir)).
Proof.
  intros t r Ht Hr.
  destruct (Rle_dec r (-15 / 17)) as [L0 | L0];
    [exists 0%Z; split; [lia | apply box_8_0; lra] |].
  destruct (Rle_dec r (-13 / 17)) as [L1 | L1];
    [exists 1%Z; split; [lia | apply box_8_1; lra] |].
  destruct (Rle_dec r (-11 / 17)) as [L2 | L2];
    [exists 2%Z; split; [lia | apply box_8_2; lra] |].
  destruct (Rle_dec r (-9 / 17)) as [L3 | L3];
    [exists 3%Z; split; [lia | apply box_8_3; lra] |].
  destruct (Rle_dec r (-7 / 17)) as [L4 | L4];
    [exists 4%Z; split; [lia | apply box_8_4; lra] |].
  destruct (Rle_dec r (-5 / 17)) as [L5 | L5];
    [exists 5%Z; split; [lia | apply box_8_5; lra] |].
  destruct (Rle_dec r (-3 / 17)) as [L6 | L6];
    [exists 6%Z; split; [lia | apply box_8_6; lra] |].
  destruct (Rle_dec r (-1 / 17)) as [L7 | L7];
    [exists 7%Z; split; [lia | apply box_8_7; lra] |].
  destruct (Rle_dec r (1 / 17)) as [L8 | L8];
    [exists 8%Z; split; [lia | apply box_8_8; lra] |].
  destruct (Rle_dec r (3 / 17)) as [L9 | L9];
    [exists 9%Z; split; [lia | apply box_8_9; lra] |].
  destruct (Rle_dec r (5 / 17)) as [L10 | L10];
    [exists 10%Z; split; [lia | apply box_8_10; lra] |].
  destruct (Rle_dec r (7 / 17)) as [L11 | L11];
    [exists 11%Z; split; [lia | apply box_8_11; lra] |].
  destruct (Rle_dec r (9 / 17)) as [L12 | L12];
    [exists 12%Z; split; [lia | apply box_8_12; lra] |].
  destruct (Rle_dec r (11 / 17)) as [L13 | L13];
    [exists 13%Z; split; [lia | apply box_8_13; lra] |].
  destruct (Rle_dec r (13 / 17)) as [L14 | L14];
    [exists 14%Z; split; [lia | apply box_8_14; lra] |].
  destruct (Rle_dec r (15 / 17)) as [L15 | L15];
    [exists 15%Z; split; [lia | apply box_8_15; lra] |].
  exists 16%Z; split; [lia | apply box_8_16; lra].
Qed.
