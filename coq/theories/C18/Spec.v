(* C18/Spec.v — what "every eigenvector code decodes to a distinct orthonormal triad" means, written without looking at
   the decoder: vectors over the standard-library reals, the orthonormal right-handed triad predicate, the set of valid
   codes / valid cells of the Euler16 format and the (mixed-radix, triangular) encoder that the decoder must invert. *)
From Coq Require Import ZArith Reals.
Local Open Scope R_scope.

Definition vec : Type := (R * R * R)%type.

Definition dot (a b : vec) : R :=
  let '(a0, a1, a2) := a in let '(b0, b1, b2) := b in a0 * b0 + a1 * b1 + a2 * b2.

Definition cross (a b : vec) : vec :=
  let '(a0, a1, a2) := a in let '(b0, b1, b2) := b in
  (a1 * b2 - a2 * b1, a2 * b0 - a0 * b2, a0 * b1 - a1 * b0).

Definition scale (s : R) (a : vec) : vec := let '(a0, a1, a2) := a in (s * a0, s * a1, s * a2).

(* (minor, middle, major): unit, pairwise orthogonal, fixed handedness middle = minor x major *)
Definition orthonormal_triad (t : vec * vec * vec) : Prop :=
  let '(minor, middle, major) := t in
  dot minor minor = 1 /\ dot middle middle = 1 /\ dot major major = 1 /\
  dot minor middle = 0 /\ dot minor major = 0 /\ dot middle major = 0 /\
  middle = cross minor major.

(* the format: 12 caps x 121 in-cap cells (ring it = 0..10 holds 2*it+1 cells ir) x 45 azimuth bins *)
Definition NCODES : Z := 65340.
Definition valid_code (c : Z) : Prop := (0 <= c < NCODES)%Z.
Definition valid_cell (cap it ir iaz : Z) : Prop :=
  (0 <= cap < 12 /\ 0 <= it < 11 /\ 0 <= ir <= 2 * it /\ 0 <= iaz < 45)%Z.
Definition encode (cap it ir iaz : Z) : Z := ((cap * 121 + it * it + ir) * 45 + iaz)%Z.

(* real parameter ranges that contain every integer cell / azimuth bin *)
Definition cell_range (it ir : R) : Prop := 0 <= it <= 10 /\ 0 <= ir <= 2 * it.
Definition az_range (iaz : R) : Prop := 0 <= iaz <= 44.

(* the cap pattern: a major axis is (a signed permutation of) a triple with |x| < y < z *)
Definition ordered (x y z : R) : Prop := Rabs x < y /\ y < z.

(* a direction whose three |components| are pairwise different ("generic": all but a null set of directions) *)
Definition generic (v : vec) : Prop :=
  let '(a, b, c) := v in Rabs a <> Rabs b /\ Rabs b <> Rabs c /\ Rabs a <> Rabs c.
