(* GENERATED ONCE by tools/dev/gen_c18_rings.py (committed, not regenerated at check time): ring 6 of the Euler16
   in-cap grid.  Each box lemma is closed by coq-interval: interval arithmetic with bisection, run by reflection inside the kernel at 60-bit
   precision, i.e. on Interval's software floats over Bignums (the primitive 63-bit integers PrimInt63 / Uint63 of the
   standard library appear in Print Assumptions; primitive FLOATS are not used: i_prec is above 53). *)
From Coq Require Import ZArith Reals Lra Lia.
From Interval Require Import Tactic.
From Abacus.C18 Require Import Gen PCovDefs.
Local Open Scope R_scope.

Lemma box_6_0 : forall t r, (4473 / 10000) <= t <= (67 / 125) -> (-1) <= r <= (-11 / 13) ->
  c45 <= dotn t r (cell_axis 6 0).
Proof.
  intros t r Ht Hr. unfold c45, dotn, cell_axis, EULER_NORM, EULER_TBIN. cbv zeta.
  interval with (i_bisect t, i_bisect r, i_depth 30, i_prec 60).
Qed.

Lemma box_6_1 : forall t r, (4473 / 10000) <= t <= (67 / 125) -> (-11 / 13) <= r <= (-9 / 13) ->
  c45 <= dotn t r (cell_axis 6 1).
Proof.
  intros t r Ht Hr. unfold c45, dotn, cell_axis, EULER_NORM, EULER_TBIN. cbv zeta.
  interval with (i_bisect t, i_bisect r, i_depth 30, i_prec 60).
Qed.

Lemma box_6_2 : forall t r, (4473 / 10000) <= t <= (67 / 125) -> (-9 / 13) <= r <= (-7 / 13) ->
  c45 <= dotn t r (cell_axis 6 2).
Proof.
  intros t r Ht Hr. unfold c45, dotn, cell_axis, EULER_NORM, EULER_TBIN. cbv zeta.
  interval with (i_bisect t, i_bisect r, i_depth 30, i_prec 60).
Qed.

Lemma box_6_3 : forall t r, (4473 / 10000) <= t <= (67 / 125) -> (-7 / 13) <= r <= (-5 / 13) ->
  c45 <= dotn t r (cell_axis 6 3).
Proof.
  intros t r Ht Hr. unfold c45, dotn, cell_axis, EULER_NORM, EULER_TBIN. cbv zeta.
  interval with (i_bisect t, i_bisect r, i_depth 30, i_prec 60).
Qed.

Lemma box_6_4 : forall t r, (4473 / 10000) <= t <= (67 / 125) -> (-5 / 13) <= r <= (-3 / 13) ->
  c45 <= dotn t r (cell_axis 6 4).
Proof.
  intros t r Ht Hr. unfold c45, dotn, cell_axis, EULER_NORM, EULER_TBIN. cbv zeta.
  interval with (i_bisect t, i_bisect r, i_depth 30, i_prec 60).
Qed.

Lemma box_6_5 : forall t r, (4473 / 10000) <= t <= (67 / 125) -> (-3 / 13) <= r <= (-1 / 13) ->
  c45 <= dotn t r (cell_axis 6 5).
Proof.
  intros t r Ht Hr. unfold c45, dotn, cell_axis, EULER_NORM, EULER_TBIN. cbv zeta.
  interval with (i_bisect t, i_bisect r, i_depth 30, i_prec 60).
Qed.

Lemma box_6_6 : forall t r, (4473 / 10000) <= t <= (67 / 125) -> (-1 / 13) <= r <= (1 / 13) ->
  c45 <= dotn t r (cell_axis 6 6).
Proof.
  intros t r Ht Hr. unfold c45, dotn, cell_axis, EULER_NORM, EULER_TBIN. cbv zeta.
  interval with (i_bisect t, i_bisect r, i_depth 30, i_prec 60).
Qed.

Lemma box_6_7 : forall t r, (4473 / 10000) <= t <= (67 / 125) -> (1 / 13) <= r <= (3 / 13) ->
  c45 <= dotn t r (cell_axis 6 7).
Proof.
  intros t r Ht Hr. unfold c45, dotn, cell_axis, EULER_NORM, EULER_TBIN. cbv zeta.
  interval with (i_bisect t, i_bisect r, i_depth 30, i_prec 60).
Qed.

Lemma box_6_8 : forall t r, (4473 / 10000) <= t <= (67 / 125) -> (3 / 13) <= r <= (5 / 13) ->
  c45 <= dotn t r (cell_axis 6 8).
Proof.
  intros t r Ht Hr. unfold c45, dotn, cell_axis, EULER_NORM, EULER_TBIN. cbv zeta.
  interval with (i_bisect t, i_bisect r, i_depth 30, i_prec 60).
Qed.

Lemma box_6_9 : forall t r, (4473 / 10000) <= t <= (67 / 125) -> (5 / 13) <= r <= (7 / 13) ->
  c45 <= dotn t r (cell_axis 6 9).
Proof.
  intros t r Ht Hr. unfold c45, dotn, cell_axis, EULER_NORM, EULER_TBIN. cbv zeta.
  interval with (i_bisect t, i_bisect r, i_depth 30, i_prec 60).
Qed.

Lemma box_6_10 : forall t r, (4473 / 10000) <= t <= (67 / 125) -> (7 / 13) <= r <= (9 / 13) ->
  c45 <= dotn t r (cell_axis 6 10).
Proof.
  intros t r Ht Hr. unfold c45, dotn, cell_axis, EULER_NORM, EULER_TBIN. cbv zeta.
  interval with (i_bisect t, i_bisect r, i_depth 30, i_prec 60).
Qed.

Lemma box_6_11 : forall t r, (4473 / 10000) <= t <= (67 / 125) -> (9 / 13) <= r <= (11 / 13) ->
  c45 <= dotn t r (cell_axis 6 11).
Proof.
  intros t r Ht Hr. unfold c45, dotn, cell_axis, EULER_NORM, EULER_TBIN. cbv zeta.
  interval with (i_bisect t, i_bisect r, i_depth 30, i_prec 60).
Qed.

Lemma box_6_12 : forall t r, (4473 / 10000) <= t <= (67 / 125) -> (11 / 13) <= r <= 1 ->
  c45 <= dotn t r (cell_axis 6 12).
Proof.
  intros t r Ht Hr. unfold c45, dotn, cell_axis, EULER_NORM, EULER_TBIN. cbv zeta.
  interval with (i_bisect t, i_bisect r, i_depth 30, i_prec 60).
Qed.

Lemma ring_6 : forall t r, (4473 / 10000) <= t <= (67 / 125) -> -1 <= r <= 1 ->
  exists ir : Z, (0 <= ir <= 2 * 6)%Z /\ c45 <= dotn t r (cell_axis 6 (IZR ir)).
Proof.
  intros t r Ht Hr.
  destruct (Rle_dec r (-11 / 13)) as [L0 | L0];
    [exists 0%Z; split; [lia | apply box_6_0; lra] |].
  destruct (Rle_dec r (-9 / 13)) as [L1 | L1];
    [exists 1%Z; split; [lia | apply box_6_1; lra] |].
  destruct (Rle_dec r (-7 / 13)) as [L2 | L2];
    [exists 2%Z; split; [lia | apply box_6_2; lra] |].
  destruct (Rle_dec r (-5 / 13)) as [L3 | L3];
    [exists 3%Z; split; [lia | apply box_6_3; lra] |].
  destruct (Rle_dec r (-3 / 13)) as [L4 | L4];
    [exists 4%Z; split; [lia | apply box_6_4; lra] |].
  destruct (Rle_dec r (-1 / 13)) as [L5 | L5];
    [exists 5%Z; split; [lia | apply box_6_5; lra] |].
  destruct (Rle_dec r (1 / 13)) as [L6 | L6];
    [exists 6%Z; split; [lia | apply box_6_6; lra] |].
  destruct (Rle_dec r (3 / 13)) as [L7 | L7];
    [exists 7%Z; split; [lia | apply box_6_7; lra] |].
  destruct (Rle_dec r (5 / 13)) as [L8 | L8];
    [exists 8%Z; split; [lia | apply box_6_8; lra] |].
  destruct (Rle_dec r (7 / 13)) as [L9 | L9];
    [exists 9%Z; split; [lia | apply box_6_9; lra] |].
  destruct (Rle_dec r (9 / 13)) as [L10 | L10];
    [exists 10%Z; split; [lia | apply box_6_10; lra] |].
  destruct (Rle_dec r (11 / 13)) as [L11 | L11];
    [exists 11%Z; split; [lia | apply box_6_11; lra] |].
  exists 12%Z; split; [lia | apply box_6_12; lra].
Qed.
