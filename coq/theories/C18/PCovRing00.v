(* GENERATED ONCE by tools/dev/gen_c18_rings.py (committed, not regenerated at check time): ring 0 of the Euler16
   in-cap grid.  Each box lemma is closed by coq-interval: interval arithmetic with bisection, run by reflection inside the kernel at 60-bit
   precision, i.e. on Interval's software floats over Bignums (the primitive 63-bit integers PrimInt63 / Uint63 of the
   standard library appear in Print Assumptions; primitive FLOATS are not used: i_prec is above 53). *)
From Coq Require Import ZArith Reals Lra Lia.
From Interval Require Import Tactic.
From Abacus.C18 Require Import Gen PCovDefs.
Local Open Scope R_scope.

Lemma box_0_0 : forall t r, 0 <= t <= (697 / 10000) -> (-1) <= r <= 1 ->
  c45 <= dotn t r (cell_axis 0 0).
Proof.
  intros t r Ht Hr. unfold c45, dotn, cell_axis, EULER_NORM, EULER_TBIN. cbv zeta.
  interval with (i_bisect t, i_bisect r, i_depth 30, i_prec 60).
Qed.

Lemma ring_0 : forall t r, 0 <= t <= (697 / 10000) -> -1 <= r <= 1 ->
  exists ir : Z, (0 <= ir <= 2 * 0)%Z /\ c45 <= dotn t r (cell_axis 0 (IZR ir)).
Proof.
  intros t r Ht Hr.
  exists 0%Z; split; [lia | apply box_0_0; lra].
Qed.
