(* GENERATED ONCE by tools/dev/gen_c18_rings.py (committed, not regenerated at check time): ring 2 of the Euler16
   in-cap grid.  Each box lemma is closed by coq-interval: interval arithmetic with bisection, run by reflection inside the kernel at 60-bit
   precision, i.e. on Interval's software floats over Bignums (the primitive 63-bit integers PrimInt63 / Uint63 of the
   standard library appear in Print Assumptions; primitive FLOATS are not used: i_prec is above 53). *)
From Coq Require Import ZArith Reals Lra Lia.
From Interval Require Import Tactic.
From Abacus.C18 Require Import Gen PCovDefs.
Local Open Scope R_scope.

Lemma box_2_0 : forall t r, (701 / 5000) <= t <= (1061 / 5000) -> (-1) <= r <= (-3 / 5) ->
  c45 <= dotn t r (cell_axis 2 0).
Proof.
  intros t r Ht Hr. unfold c45, dotn, cell_axis, EULER_NORM, EULER_TBIN. cbv zeta.
  interval with (i_bisect t, i_bisect r, i_depth 30, i_prec 60).
Qed.

Lemma box_2_1 : forall t r, (701 / 5000) <= t <= (1061 / 5000) -> (-3 / 5) <= r <= (-1 / 5) ->
  c45 <= dotn t r (cell_axis 2 1).
Proof.
  intros t r Ht Hr. unfold c45, dotn, cell_axis, EULER_NORM, EULER_TBIN. cbv zeta.
  interval with (i_bisect t, i_bisect r, i_depth 30, i_prec 60).
Qed.

Lemma box_2_2 : forall t r, (701 / 5000) <= t <= (1061 / 5000) -> (-1 / 5) <= r <= (1 / 5) ->
  c45 <= dotn t r (cell_axis 2 2).
Proof.
  intros t r Ht Hr. unfold c45, dotn, cell_axis, EULER_NORM, EULER_TBIN. cbv zeta.
  interval with (i_bisect t, i_bisect r, i_depth 30, i_prec 60).
Qed.

Lemma box_2_3 : forall t r, (701 / 5000) <= t <= (1061 / 5000) -> (1 / 5) <= r <= (3 / 5) ->
  c45 <= dotn t r (cell_axis 2 3).
Proof.
  intros t r Ht Hr. unfold c45, dotn, cell_axis, EULER_NORM, EULER_TBIN. cbv zeta.
  interval with (i_bisect t, i_bisect r, i_depth 30, i_prec 60).
Qed.

Lemma box_2_4 : forall t r, (701 / 5000) <= t <= (1061 / 5000) -> (3 / 5) <= r <= 1 ->
  c45 <= dotn t r (cell_axis 2 4).
Proof.
  intros t r Ht Hr. unfold c45, dotn, cell_axis, EULER_NORM, EULER_TBIN. cbv zeta.
  interval with (i_bisect t, i_bisect r, i_depth 30, i_prec 60).
Qed.

Lemma ring_2 : forall t r, (701 / 5000) <= t <= (1061 / 5000) -> -1 <= r <= 1 ->
  exists ir : Z, (0 <= ir <= 2 * 2)%Z /\ c45 <= dotn t r (cell_axis 2 (IZR ir)).
Proof.
  intros t r Ht Hr.
  destruct (Rle_dec r (-3 / 5)) as [L0 | L0];
    [exists 0%Z; split; [lia | apply box_2_0; lra] |].
  destruct (Rle_dec r (-1 / 5)) as [L1 | L1];
    [exists 1%Z; split; [lia | apply box_2_1; lra] |].
  destruct (Rle_dec r (1 / 5)) as [L2 | L2];
    [exists 2%Z; split; [lia | apply box_2_2; lra] |].
  destruct (Rle_dec r (3 / 5)) as [L3 | L3];
    [exists 3%Z; split; [lia | apply box_2_3; lra] |].
  exists 4%Z; split; [lia | apply box_2_4; lra].
Qed.
