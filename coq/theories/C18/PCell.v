(* C18/PCell.v — the in-cap cell -> (xx, yy, zz): characterisation of the generated `cell_axis`. *)
From Coq Require Import ZArith Reals Lra Lia Psatz.
From Abacus.C18 Require Import Spec Gen Lib.
Local Open Scope R_scope.

(* yy/zz as a function of the scaled in-cap radius u = t / EULER_NORM *)
Definition tfun (u : R) : R := u * sqrt (2 - u * u) / (1 - u * u).

Lemma tfun_pos_lt1 : forall u, 0 < u <= 13/25 -> 0 < tfun u < 1.
Proof.
  intros u Hu. unfold tfun.
  assert (Hs2 : 0 <= 2 - u * u) by nra.
  pose proof (sqrt_sqrt _ Hs2) as Hss.
  assert (Hs : 0 < sqrt (2 - u * u)) by (apply sqrt_lt_R0; nra).
  set (s := sqrt (2 - u * u)) in *.
  assert (Hd : 0 < 1 - u * u) by nra.
  split.
  - apply Rdiv_lt_0_compat; nra.
  - apply Rmult_lt_reg_r with (1 - u * u); [exact Hd|].
    unfold Rdiv. rewrite Rmult_assoc, Rinv_l by lra. rewrite Rmult_1_r, Rmult_1_l.
    assert (Hsq : (u * s) * (u * s) < (1 - u * u) * (1 - u * u)).
    { replace (u * s * (u * s)) with (u * u * (s * s)) by ring. rewrite Hss.
      assert (u * u <= 169/625) by nra. nra. }
    assert (0 < u * s) by nra.
    nra.
Qed.

Lemma tfun_incr : forall u v, 0 < u -> u < v -> v <= 13/25 -> tfun u < tfun v.
Proof.
  intros u v Hu Huv Hv. unfold tfun.
  assert (Hsu2 : 0 <= 2 - u * u) by nra.
  assert (Hsv2 : 0 <= 2 - v * v) by nra.
  pose proof (sqrt_sqrt _ Hsu2) as Hssu. pose proof (sqrt_sqrt _ Hsv2) as Hssv.
  assert (Hsu : 0 < sqrt (2 - u * u)) by (apply sqrt_lt_R0; nra).
  assert (Hsv : 0 < sqrt (2 - v * v)) by (apply sqrt_lt_R0; nra).
  set (su := sqrt (2 - u * u)) in *. set (sv := sqrt (2 - v * v)) in *.
  assert (Hdu : 0 < 1 - u * u) by nra. assert (Hdv : 0 < 1 - v * v) by nra.
  assert (Hnum : u * su < v * sv).
  { assert (Hsq : (u * su) * (u * su) < (v * sv) * (v * sv)).
    { replace (u * su * (u * su)) with (u * u * (su * su)) by ring.
      replace (v * sv * (v * sv)) with (v * v * (sv * sv)) by ring.
      rewrite Hssu, Hssv.
      assert (0 < (v * v - u * u) * (2 - u * u - v * v)) by (apply Rmult_lt_0_compat; nra).
      nra. }
    assert (0 < u * su) by nra. assert (0 < v * sv) by nra. nra. }
  assert (Hden : 1 - v * v < 1 - u * u) by nra.
  apply Rlt_trans with (v * sv / (1 - u * u)).
  - unfold Rdiv. apply Rmult_lt_compat_r; [apply Rinv_0_lt_compat; exact Hdu | exact Hnum].
  - unfold Rdiv. apply Rmult_lt_compat_l; [nra|]. apply Rinv_lt_contravar; [nra | exact Hden].
Qed.

Lemma tfun_inj : forall u v, 0 < u <= 13/25 -> 0 < v <= 13/25 -> tfun u = tfun v -> u = v.
Proof.
  intros u v Hu Hv E.
  destruct (Rtotal_order u v) as [H | [H | H]]; [| exact H |].
  - pose proof (tfun_incr u v ltac:(lra) H ltac:(lra)). lra.
  - pose proof (tfun_incr v u ltac:(lra) H ltac:(lra)). lra.
Qed.

(* Everything the later proofs need to know about the generated cell_axis, and that no divisor in it is zero and
   no square root is taken of a negative number (so Coq's total x/0 = 0, sqrt(-x) = 0 conventions are never exercised). *)
Lemma cell_axis_char : forall it ir, cell_range it ir ->
  exists u r n,
    cell_axis it ir = (r * tfun u * n, tfun u * n, n) /\
    u * (IZR EULER_TBIN * EULER_NORM) = it + 1 / 2 /\ 0 < u <= 13/25 /\
    (r + 1) * (it + 1 / 2) = ir + 1 / 2 /\ -1 < r < 1 /\
    0 < n /\ n * n * (1 + (r * tfun u) * (r * tfun u) + tfun u * tfun u) = 1.
Proof.
  intros it ir [Hit Hir].
  pose (P := fun p : R * R * R => exists u r n, p = (r * tfun u * n, tfun u * n, n) /\
    u * (IZR EULER_TBIN * EULER_NORM) = it + 1 / 2 /\ 0 < u <= 13/25 /\
    (r + 1) * (it + 1 / 2) = ir + 1 / 2 /\ -1 < r < 1 /\
    0 < n /\ n * n * (1 + (r * tfun u) * (r * tfun u) + tfun u * tfun u) = 1).
  change (P (cell_axis it ir)).
  cbv beta delta [cell_axis]. let_intros. subst P. cbv beta.
  exists t1, r0, norm0.
  assert (Hnorm : EULER_NORM = 9238795325112867561 / 5000000000000000000) by reflexivity.
  assert (Htb : IZR EULER_TBIN = 11) by reflexivity.
  assert (Hu : t1 * (IZR EULER_TBIN * EULER_NORM) = it + 1 / 2).
  { unfold t1, t0. rewrite Htb, Hnorm. field. }
  assert (Hu2 : 0 < t1 <= 13/25).
  { rewrite Htb, Hnorm in Hu. lra. }
  assert (Hr : (r0 + 1) * (it + 1 / 2) = ir + 1 / 2).
  { unfold r0. field. lra. }
  assert (Hr2 : -1 < r0 < 1) by nra.
  assert (HT : t2 = tfun t1) by reflexivity.
  assert (Harg : 0 < 1 + xx0 * xx0 + yy0 * yy0) by nra.
  assert (Hsq : 0 < sqrt (1 + xx0 * xx0 + yy0 * yy0)) by (apply sqrt_lt_R0; exact Harg).
  assert (Hn : 0 < norm0) by (unfold norm0; apply Rdiv_lt_0_compat; lra).
  assert (Hnn : norm0 * norm0 * (1 + xx0 * xx0 + yy0 * yy0) = 1).
  { unfold norm0.
    pose proof (sqrt_sqrt _ (Rlt_le _ _ Harg)) as Hss.
    set (s := sqrt (1 + xx0 * xx0 + yy0 * yy0)) in *.
    rewrite <- Hss. field. lra. }
  repeat split; try lra; try assumption.
Qed.

(* (xx, yy, zz) is a unit vector with |xx| < yy < zz *)
Lemma cell_axis_unit_ordered : forall it ir x y z, cell_range it ir -> cell_axis it ir = (x, y, z) ->
  x * x + y * y + z * z = 1 /\ ordered x y z /\ 0 < z.
Proof.
  intros it ir x y z Hr E.
  destruct (cell_axis_char it ir Hr) as (u & r & n & Hc & Hu & Hu2 & Hr1 & Hr2 & Hn & Hnn).
  rewrite Hc in E. injection E as Ex Ey Ez. subst x y z.
  pose proof (tfun_pos_lt1 u Hu2) as HT. set (T := tfun u) in *.
  split; [rewrite <- Hnn; ring|]. split; [|exact Hn].
  assert (HTn : 0 < T * n) by nra.
  unfold ordered. replace (r * T * n) with (r * (T * n)) by ring.
  set (q := T * n) in *. split.
  - apply Rabs_def1; nra.
  - unfold q. nra.
Qed.

(* distinct cells give distinct (xx, yy, zz) *)
Lemma cell_axis_inj : forall it1 ir1 it2 ir2, cell_range it1 ir1 -> cell_range it2 ir2 ->
  cell_axis it1 ir1 = cell_axis it2 ir2 -> it1 = it2 /\ ir1 = ir2.
Proof.
  intros it1 ir1 it2 ir2 H1 H2 E.
  destruct (cell_axis_char it1 ir1 H1) as (u1 & r1 & n1 & Hc1 & Hu1 & Hub1 & Hr1 & Hrb1 & Hn1 & _).
  destruct (cell_axis_char it2 ir2 H2) as (u2 & r2 & n2 & Hc2 & Hu2 & Hub2 & Hr2 & Hrb2 & Hn2 & _).
  rewrite Hc1, Hc2 in E. injection E as Ex Ey Ez. subst n2.
  pose proof (tfun_pos_lt1 u1 Hub1) as HT1. pose proof (tfun_pos_lt1 u2 Hub2) as HT2.
  assert (ET : tfun u1 = tfun u2) by (apply Rmult_eq_reg_r with n1; lra).
  assert (Eu : u1 = u2) by (apply tfun_inj; assumption).
  subst u2.
  assert (Er : r1 = r2).
  { apply Rmult_eq_reg_r with (tfun u1 * n1); [| nra]. rewrite <- !Rmult_assoc. exact Ex. }
  subst r2.
  assert (Eit : it1 = it2) by lra. subst it2.
  split; [reflexivity | lra].
Qed.
