(* GENERATED ONCE by tools/dev/gen_c18_rings.py (committed, not regenerated at check time): ring 9 of the Euler16
   in-cap grid.  Each box lemma is closed by coq-interval: interval arithmetic with bisection, run by reflection inside the kernel at 60-bit
   precision, i.e. on Interval's software floats over Bignums (the primitive 63-bit integers PrimInt63 / Uint63 of the
   standard library appear in Print Assumptions; primitive FLOATS are not used: i_prec is above 53). *)
From Coq Require Import ZArith Reals Lra Lia.
From Interval Require Import Tactic.
From Abacus.C18 Require Import Gen PCovDefs.
Local Open Scope R_scope.

Lemma box_9_0 : forall t r, (3699 / 5000) <= t <= (8607 / 10000) -> (-1) <= r <= (-17 / 19) ->
  c45 <= dotn t r (cell_axis 9 0).
Proof.
  intros t r Ht Hr. unfold c45, dotn, cell_axis, EULER_NORM, EULER_TBIN. cbv zeta.
  interval with (i_bisect t, i_bisect r, i_depth 30, i_prec 60).
Qed.

Lemma box_9_1 : forall t r, (3699 / 5000) <= t <= (8607 / 10000) -> (-17 / 19) <= r <= (-15 / 19) ->
  c45 <= dotn t r (cell_axis 9 1).
Proof.
  intros t r Ht Hr. unfold c45, dotn, cell_axis, EULER_NORM, EULER_TBIN. cbv zeta.
  interval with (i_bisect t, i_bisect r, i_depth 30, i_prec 60).
Qed.

Lemma box_9_2 : forall t r, (3699 / 5000) <= t <= (8607 / 10000) -> (-15 / 19) <= r <= (-13 / 19) ->
  c45 <= dotn t r (cell_axis 9 2).
Proof.
  intros t r Ht Hr. unfold c45, dotn, cell_axis, EULER_NORM, EULER_TBIN. cbv zeta.
  interval with (i_bisect t, i_bisect r, i_depth 30, i_prec 60).
Qed.

Lemma box_9_3 : forall t r, (3699 / 5000) <= t <= (8607 / 10000) -> (-13 / 19) <= r <= (-11 / 19) ->
  c45 <= dotn t r (cell_axis 9 3).
Proof.
  intros t r Ht Hr. unfold c45, dotn, cell_axis, EULER_NORM, EULER_TBIN. cbv zeta.
  interval with (i_bisect t, i_bisect r, i_depth 30, i_prec 60).
Qed.

Lemma box_9_4 : forall t r, (3699 / 5000) <= t <= (8607 / 10000) -> (-11 / 19) <= r <= (-9 / 19) ->
  c45 <= dotn t r (cell_axis 9 4).
Proof.
  intros t r Ht Hr. unfold c45, dotn, cell_axis, EULER_NORM, EULER_TBIN. cbv zeta.
  interval with (i_bisect t, i_bisect r, i_depth 30, i_prec 60).
Qed.

Lemma box_9_5 : forall t r, (3699 / 5000) <= t <= (8607 / 10000) -> (-9 / 19) <= r <= (-7 / 19) ->
  c45 <= dotn t r (cell_axis 9 5).
Proof.
  intros t r Ht Hr. unfold c45, dotn, cell_axis, EULER_NORM, EULER_TBIN. cbv zeta.
  interval with (i_bisect t, i_bisect r, i_depth 30, i_prec 60).
Qed.

Lemma box_9_6 : forall t r, (3699 / 5000) <= t <= (8607 / 10000) -> (-7 / 19) <= r <= (-5 / 19) ->
  c45 <= dotn t r (cell_axis 9 6).
Proof.
  intros t r Ht Hr. unfold c45, dotn, cell_axis, EULER_NORM, EULER_TBIN. cbv zeta.
  interval with (i_bisect t, i_bisect r, i_depth 30, i_prec 60).
Qed.

Lemma box_9_7 : forall t r, (3699 / 5000) <= t <= (8607 / 10000) -> (-5 / 19) <= r <= (-3 / 19) ->
  c45 <= dotn t r (cell_axis 9 7).
Proof.
  intros t r Ht Hr. unfold c45, dotn, cell_axis, EULER_NORM, EULER_TBIN. cbv zeta.
  interval with (i_bisect t, i_bisect r, i_depth 30, i_prec 60).
Qed.

Lemma box_9_8 : forall t r, (3699 / 5000) <= t <= (8607 / 10000) -> (-3 / 19) <= r <= (-1 / 19) ->
  c45 <= dotn t r (cell_axis 9 8).
Proof.
  intros t r Ht Hr. unfold c45, dotn, cell_axis, EULER_NORM, EULER_TBIN. cbv zeta.
  interval with (i_bisect t, i_bisect r, i_depth 30, i_prec 60).
Qed.

Lemma box_9_9 : forall t r, (3699 / 5000) <= t <= (8607 / 10000) -> (-1 / 19) <= r <= (1 / 19) ->
  c45 <= dotn t r (cell_axis 9 9).
Proof.
  intros t r Ht Hr. unfold c45, dotn, cell_axis, EULER_NORM, EULER_TBIN. cbv zeta.
  interval with (i_bisect t, i_bisect r, i_depth 30, i_prec 60).
Qed.

Lemma box_9_10 : forall t r, (3699 / 5000) <= t <= (8607 / 10000) -> (1 / 19) <= r <= (3 / 19) ->
  c45 <= dotn t r (cell_axis 9 10).
Proof.
  intros t r Ht Hr. unfold c45, dotn, cell_axis, EULER_NORM, EULER_TBIN. cbv zeta.
  interval with (i_bisect t, i_bisect r, i_depth 30, i_prec 60).
Qed.

Lemma box_9_11 : forall t r, (3699 / 5000) <= t <= (8607 / 10000) -> (3 / 19) <= r <= (5 / 19) ->
  c45 <= dotn t r (cell_axis 9 11).
Proof.
  intros t r Ht Hr. unfold c45, dotn, cell_axis, EULER_NORM, EULER_TBIN. cbv zeta.
  interval with (i_bisect t, i_bisect r, i_depth 30, i_prec 60).
Qed.

Lemma box_9_12 : forall t r, (3699 / 5000) <= t <= (8607 / 10000) -> (5 / 19) <= r <= (7 / 19) ->
  c45 <= dotn t r (cell_axis 9 12).
Proof.
  intros t r Ht Hr. unfold c45, dotn, cell_axis, EULER_NORM, EULER_TBIN. cbv zeta.
  interval with (i_bisect t, i_bisect r, i_depth 30, i_prec 60).
Qed.

Lemma box_9_13 : forall t r, (3699 / 5000) <= t <= (8607 / 10000) -> (7 / 19) <= r <= (9 / 19) ->
  c45 <= dotn t r (cell_axis 9 13).
Proof.
  intros t r Ht Hr. unfold c45, dotn, cell_axis, EULER_NORM, EULER_TBIN. cbv zeta.
  interval with (i_bisect t, i_bisect r, i_depth 30, i_prec 60).
Qed.

Lemma box_9_14 : forall t r, (3699 / 5000) <= t <= (8607 / 10000) -> (9 / 19) <= r <= (11 / 19) ->
  c45 <= dotn t r (cell_axis 9 14).
Proof.
  intros t r Ht Hr. unfold c45, dotn, cell_axis, EULER_NORM, EULER_TBIN. cbv zeta.
  interval with (i_bisect t, i_bisect r, i_depth 30, i_prec 60).
Qed.

Lemma box_9_15 : forall t r, (3699 / 5000) <= t <= (8607 / 10000) -> (11 / 19) <= r <= (13 / 19) ->
  c45 <= dotn t r (cell_axis 9 15).
Proof.
  intros t r Ht Hr. unfold c45, dotn, cell_axis, EULER_NORM, EULER_TBIN. cbv zeta.
  interval with (i_bisect t, i_bisect r, i_depth 30, i_prec 60).
Qed.

Lemma box_9_16 : forall t r, (3699 / 5000) <= t <= (8607 / 10000) -> (13 / 19) <= r <= (15 / 19) ->
  c45 <= dotn t r (cell_axis 9 16).
Proof.
  intros t r Ht Hr. unfold c45, dotn, cell_axis, EULER_NORM, EULER_TBIN. cbv zeta.
  interval with (i_bisect t, i_bisect r, i_depth 30, i_prec 60).
Qed.

Lemma box_9_17 : forall t r, (3699 / 5000) <= t <= (8607 / 10000) -> (15 / 19) <= r <= (17 / 19) ->
  c45 <= dotn t r (cell_axis 9 17).
Proof.
  intros t r Ht Hr. unfold c45, dotn, cell_axis, EULER_NORM, EULER_TBIN. cbv zeta.
  interval with (i_bisect t, i_bisect r, i_depth 30, i_prec 60).
Qed.

Lemma box_9_18 : forall t r, (3699 / 5000) <= t <= (8607 / 10000) -> (17 / 19) <= r <= 1 ->
  c45 <= dotn t r (cell_axis 9 18).
Proof.
  intros t r Ht Hr. unfold c45, dotn, cell_axis, EULER_NORM, EULER_TBIN. cbv zeta.
  interval with (i_bisect t, i_bisect r, i_depth 30, i_prec 60).
Qed.

Lemma ring_9 : forall t r, (3699 / 5000) <= t <= (8607 / 10000) -> -1 <= r <= 1 ->
  exists ir : Z, (0 <= ir <= 2 * 9)%Z /\ c45 <= dotn t r (cell_axis 9 (IZR ir)).
Proof.
  intros t r Ht Hr.
  destruct (Rle_dec r (-17 / 19)) as [L0 | L0];
    [exists 0%Z; split; [lia | apply box_9_0; lra] |].
  destruct (Rle_dec r (-15 / 19)) as [L1 | L1];
    [exists 1%Z; split; [lia | apply box_9_1; lra] |].
  destruct (Rle_dec r (-13 / 19)) as [L2 | L2];
    [exists 2%Z; split; [lia | apply box_9_2; lra] |].
  destruct (Rle_dec r (-11 / 19)) as [L3 | L3];
    [exists 3%Z; split; [lia | apply box_9_3; lra] |].
  destruct (Rle_dec r (-9 / 19)) as [L4 | L4];
    [exists 4%Z; split; [lia | apply box_9_4; lra] |].
  destruct (Rle_dec r (-7 / 19)) as [L5 | L5];
    [exists 5%Z; split; [lia | apply box_9_5; lra] |].
  destruct (Rle_dec r (-5 / 19)) as [L6 | L6];
    [exists 6%Z; split; [lia | apply box_9_6; lra] |].
  destruct (Rle_dec r (-3 / 19)) as [L7 | L7];
    [exists 7%Z; split; [lia | apply box_9_7; lra] |].
  destruct (Rle_dec r (-1 / 19)) as [L8 | L8];
    [exists 8%Z; split; [lia | apply box_9_8; lra] |].
  destruct (Rle_dec r (1 / 19)) as [L9 | L9];
    [exists 9%Z; split; [lia | apply box_9_9; lra] |].
  destruct (Rle_dec r (3 / 19)) as [L10 | L10];
    [exists 10%Z; split; [lia | apply box_9_10; lra] |].
  destruct (Rle_dec r (5 / 19)) as [L11 | L11];
    [exists 11%Z; split; [lia | apply box_9_11; lra] |].
  destruct (Rle_dec r (7 / 19)) as [L12 | L12];
    [exists 12%Z; split; [lia | apply box_9_12; lra] |].
  destruct (Rle_dec r (9 / 19)) as [L13 | L13];
    [exists 13%Z; split; [lia | apply box_9_13; lra] |].
  destruct (Rle_dec r (11 / 19)) as [L14 | L14];
    [exists 14%Z; split; [lia | apply box_9_14; lra] |].
  destruct (Rle_dec r (13 / 19)) as [L15 | L15];
    [exists 15%Z; split; [lia | apply box_9_15; lra] |].
  destruct (Rle_dec r (15 / 19)) as [L16 | L16];
    [exists 16%Z; split; [lia | apply box_9_16; lra] |].
  destruct (Rle_dec r (17 / 19)) as [L17 | L17];
    [exists 17%Z; split; [lia | apply box_9_17; lra] |].
  exists 18%Z; split; [lia | apply box_9_18; lra].
Qed.
