(* C18/PDecompose.v — the integer part: the generated `decompose` inverts the format's encoder on the valid codes. *)
From Coq Require Import ZArith Lia Psatz ZifyBool.
From Abacus.C18 Require Import Spec Gen.
Ltac Zify.zify_post_hook ::= Z.to_euclidean_division_equations.
Local Open Scope Z_scope.

Lemma encode_decompose : forall c, valid_code c ->
  let '(cap, it, ir, iaz) := decompose c in valid_cell cap it ir iaz /\ encode cap it ir iaz = c.
Proof.
  intros c Hc. unfold valid_code, NCODES in Hc.
  unfold decompose, EULER_ABIN, EULER_TBIN, valid_cell, encode.
  cbv zeta.
  set (q := c / 45).
  set (cap := q / (11 * 11)).
  set (b := q - cap * (11 * 11)).
  assert (Hq : 0 <= q < 1452) by (unfold q; lia).
  assert (Hb : 0 <= b < 121) by (unfold b, cap; lia).
  assert (Hcap : 0 <= cap < 12) by (unfold cap; lia).
  pose proof (Z.sqrt_spec b ltac:(lia)) as Hs. cbv zeta in Hs. unfold Z.succ in Hs.
  pose proof (Z.sqrt_nonneg b) as Hs0.
  set (s := Z.sqrt b) in *.
  assert (s < 11) by nia.
  repeat split; try lia; try nia.
Qed.

Lemma decompose_encode : forall cap it ir iaz, valid_cell cap it ir iaz ->
  decompose (encode cap it ir iaz) = (cap, it, ir, iaz).
Proof.
  intros cap it ir iaz (Hc & Hit & Hir & Haz).
  unfold decompose, encode, EULER_ABIN, EULER_TBIN. cbv zeta.
  assert (E1 : ((cap * 121 + it * it + ir) * 45 + iaz) / 45 = cap * 121 + it * it + ir) by lia.
  rewrite E1.
  assert (Hb : 0 <= it * it + ir < 121) by nia.
  assert (E2 : (cap * 121 + it * it + ir) / (11 * 11) = cap) by lia.
  rewrite E2.
  assert (E3 : cap * 121 + it * it + ir - cap * (11 * 11) = it * it + ir) by lia.
  rewrite E3.
  assert (E4 : Z.sqrt (it * it + ir) = it) by (apply Z.sqrt_unique; nia).
  rewrite E4.
  repeat f_equal; lia.
Qed.

Lemma encode_valid : forall cap it ir iaz, valid_cell cap it ir iaz -> valid_code (encode cap it ir iaz).
Proof.
  intros cap it ir iaz (Hc & Hit & Hir & Haz). unfold valid_code, NCODES, encode. nia.
Qed.

(* the three facts together: decompose is a bijection from the 65 340 valid codes onto the valid cells *)
Lemma decompose_bijective_lemma :
  (forall c, valid_code c ->
     let '(cap, it, ir, iaz) := decompose c in valid_cell cap it ir iaz /\ encode cap it ir iaz = c) /\
  (forall cap it ir iaz, valid_cell cap it ir iaz ->
     valid_code (encode cap it ir iaz) /\ decompose (encode cap it ir iaz) = (cap, it, ir, iaz)) /\
  (forall c1 c2, valid_code c1 -> valid_code c2 -> decompose c1 = decompose c2 -> c1 = c2).
Proof.
  split; [exact encode_decompose | split].
  - intros cap it ir iaz H. split; [apply encode_valid | apply decompose_encode]; exact H.
  - intros c1 c2 H1 H2 E.
    pose proof (encode_decompose c1 H1) as A1. pose proof (encode_decompose c2 H2) as A2.
    rewrite E in A1. destruct (decompose c2) as [[[cap it] ir] iaz].
    destruct A1 as [_ A1]. destruct A2 as [_ A2]. congruence.
Qed.
