(* GENERATED ONCE by tools/dev/gen_c18_rings.py (committed, not regenerated at check time): ring 4 of the Euler16
   in-cap grid.  Each box lemma is closed by coq-interval: interval arithmetic with bisection, run by reflection inside the kernel at 60-bit
   precision, i.e. on Interval's software floats over Bignums (the primitive 63-bit integers PrimInt63 / Uint63 of the
   standard library appear in Print Assumptions; primitive FLOATS are not used: i_prec is above 53). *)
From Coq Require Import ZArith Reals Lra Lia.
From Interval Require Import Tactic.
From Abacus.C18 Require Import Gen PCovDefs.
Local Open Scope R_scope.

Lemma box_4_0 : forall t r, (2867 / 10000) <= t <= (3647 / 10000) -> (-1) <= r <= (-7 / 9) ->
  c45 <= dotn t r (cell_axis 4 0).
Proof.
  intros t r Ht Hr. unfold c45, dotn, cell_axis, EULER_NORM, EULER_TBIN. cbv zeta.
  interval with (i_bisect t, i_bisect r, i_depth 30, i_prec 60).
Qed.

Lemma box_4_1 : forall t r, (2867 / 10000) <= t <= (3647 / 10000) -> (-7 / 9) <= r <= (-5 / 9) ->
  c45 <= dotn t r (cell_axis 4 1).
Proof.
  intros t r Ht Hr. unfold c45, dotn, cell_axis, EULER_NORM, EULER_TBIN. cbv zeta.
  interval with (i_bisect t, i_bisect r, i_depth 30, i_prec 60).
Qed.

Lemma box_4_2 : forall t r, (2867 / 10000) <= t <= (3647 / 10000) -> (-5 / 9) <= r <= (-1 / 3) ->
  c45 <= dotn t r (cell_axis 4 2).
Proof.
  intros t r Ht Hr. unfold c45, dotn, cell_axis, EULER_NORM, EULER_TBIN. cbv zeta.
  interval with (i_bisect t, i_bisect r, i_depth 30, i_prec 60).
Qed.

Lemma box_4_3 : forall t r, (2867 / 10000) <= t <= (3647 / 10000) -> (-1 / 3) <= r <= (-1 / 9) ->
  c45 <= dotn t r (cell_axis 4 3).
Proof.
  intros t r Ht Hr. unfold c45, dotn, cell_axis, EULER_NORM, EULER_TBIN. cbv zeta.
  interval with (i_bisect t, i_bisect r, i_depth 30, i_prec 60).
Qed.

Lemma box_4_4 : forall t r, (2867 / 10000) <= t <= (3647 / 10000) -> (-1 / 9) <= r <= (1 / 9) ->
  c45 <= dotn t r (cell_axis 4 4).
Proof.
  intros t r Ht Hr. unfold c45, dotn, cell_axis, EULER_NORM, EULER_TBIN. cbv zeta.
  interval with (i_bisect t, i_bisect r, i_depth 30, i_prec 60).
Qed.

Lemma box_4_5 : forall t r, (2867 / 10000) <= t <= (3647 / 10000) -> (1 / 9) <= r <= (1 / 3) ->
  c45 <= dotn t r (cell_axis 4 5).
Proof.
  intros t r Ht Hr. unfold c45, dotn, cell_axis, EULER_NORM, EULER_TBIN. cbv zeta.
  interval with (i_bisect t, i_bisect r, i_depth 30, i_prec 60).
Qed.

Lemma box_4_6 : forall t r, (2867 / 10000) <= t <= (3647 / 10000) -> (1 / 3) <= r <= (5 / 9) ->
  c45 <= dotn t r (cell_axis 4 6).
Proof.
  intros t r Ht Hr. unfold c45, dotn, cell_axis, EULER_NORM, EULER_TBIN. cbv zeta.
  interval with (i_bisect t, i_bisect r, i_depth 30, i_prec 60).
Qed.

Lemma box_4_7 : forall t r, (2867 / 10000) <= t <= (3647 / 10000) -> (5 / 9) <= r <= (7 / 9) ->
  c45 <= dotn t r (cell_axis 4 7).
Proof.
  intros t r Ht Hr. unfold c45, dotn, cell_axis, EULER_NORM, EULER_TBIN. cbv zeta.
  interval with (i_bisect t, i_bisect r, i_depth 30, i_prec 60).
Qed.

Lemma box_4_8 : forall t r, (2867 / 10000) <= t <= (3647 / 10000) -> (7 / 9) <= r <= 1 ->
  c45 <= dotn t r (cell_axis 4 8).
Proof.
  intros t r Ht Hr. unfold c45, dotn, cell_axis, EULER_NORM, EULER_TBIN. cbv zeta.
  interval with (i_bisect t, i_bisect r, i_depth 30, i_prec 60).
Qed.

Lemma ring_4 : forall t r, (2867 / 10000) <= t <= (3647 / 10000) -> -1 <= r <= 1 ->
  exists ir : Z, (0 <= ir <= 2 * 4)%Z /\ c45 <= dotn t r (cell_axis 4 (IZR ir)).
Proof.
  intros t r Ht Hr.
  destruct (Rle_dec r (-7 / 9)) as [L0 | L0];
    [exists 0%Z; split; [lia | apply box_4_0; lra] |].
  destruct (Rle_dec r (-5 / 9)) as [L1 | L1];
    [exists 1%Z; split; [lia | apply box_4_1; lra] |].
  destruct (Rle_dec r (-1 / 3)) as [L2 | L2];
    [exists 2%Z; split; [lia | apply box_4_2; lra] |].
  destruct (Rle_dec r (-1 / 9)) as [L3 | L3];
    [exists 3%Z; split; [lia | apply box_4_3; lra] |].
  destruct (Rle_dec r (1 / 9)) as [L4 | L4];
    [exists 4%Z; split; [lia | apply box_4_4; lra] |].
  destruct (Rle_dec r (1 / 3)) as [L5 | L5];
    [exists 5%Z; split; [lia | apply box_4_5; lra] |].
  destruct (Rle_dec r (5 / 9)) as [L6 | L6];
    [exists 6%Z; split; [lia | apply box_4_6; lra] |].
  destruct (Rle_dec r (7 / 9)) as [L7 | L7];
    [exists 7%Z; split; [lia | apply box_4_7; lra] |].
  exists 8%Z; split; [lia | apply box_4_8; lra].
Qed.
