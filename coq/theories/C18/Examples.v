(* C18/Examples.v — non-vacuity of every hypothesis used in Properties.v, and regression values. *)
From Coq Require Import ZArith Reals Lra Lia List Bool.
From Abacus.Common Require Import Arr Corr.
From Abacus.C18 Require Import Spec Gen Run.
Import ListNotations.

(* hypotheses of the integer statements *)
Example valid_code_first : valid_code 0. Proof. unfold valid_code, NCODES. lia. Qed.
Example valid_code_last : valid_code 65339. Proof. unfold valid_code, NCODES. lia. Qed.
Example valid_cell_last : valid_cell 11 10 20 44. Proof. unfold valid_cell. lia. Qed.
Example valid_cell_mid : valid_cell 5 3 6 17. Proof. unfold valid_cell. lia. Qed.
Example two_distinct_valid_codes : valid_code 4711 /\ valid_code 4712 /\ 4711%Z <> 4712%Z.
Proof. unfold valid_code, NCODES. lia. Qed.

(* hypotheses of the real statements *)
Local Open Scope R_scope.
Example cell_range_centre : cell_range 0 0. Proof. unfold cell_range. lra. Qed.
Example cell_range_corner : cell_range 10 20. Proof. unfold cell_range. lra. Qed.
Example cell_range_noninteger : cell_range (7 / 2) (9 / 4). Proof. unfold cell_range. lra. Qed.
Example az_range_ends : az_range 0 /\ az_range 44. Proof. unfold az_range. lra. Qed.
Example ordered_example : ordered (- (1 / 10)) (1 / 2) 1.
Proof. unfold ordered. split; [apply Rabs_def1; lra | lra]. Qed.
Example generic_example : generic (3, -1, 2).
Proof.
  unfold generic. rewrite (Rabs_right 3), (Rabs_left (-1)), (Rabs_right 2) by lra. repeat split; lra.
Qed.
Example tfun_range_example : 0 < 1 / 4 /\ 1 / 4 < 1 / 2 /\ 1 / 2 <= 13 / 25. Proof. lra. Qed.
Local Close Scope R_scope.

(* regression values of the generated integer decomposition *)
Local Open Scope Z_scope.
Example dec_0 : decompose 0 = (0, 0, 0, 0). Proof. vm_compute. reflexivity. Qed.
Example dec_last : decompose 65339 = (11, 10, 20, 44). Proof. vm_compute. reflexivity. Qed.
Example dec_mid : decompose (encode 5 3 6 17) = (5, 3, 6, 17). Proof. vm_compute. reflexivity. Qed.
Example dec_ring_start : decompose (encode 2 4 0 0) = (2, 4, 0, 0). Proof. vm_compute. reflexivity. Qed.
Example dec_ring_end : decompose (encode 2 4 8 44) = (2, 4, 8, 44). Proof. vm_compute. reflexivity. Qed.
(* first invalid code: cap = 12, no table entry (outside the quantifier of the property) *)
Example dec_first_invalid : decompose 65340 = (12, 0, 0, 0). Proof. vm_compute. reflexivity. Qed.

(* the whole finite domain, executed: all 65 340 valid codes land in valid cells and re-encode to themselves *)
Example sweep_all_codes : holds (0, 65340) = true. Proof. vm_compute. reflexivity. Qed.
Example run_block : run (100, 2) = VL [VL [VZ 0; VZ 1; VZ 1; VZ 10]; VL [VZ 0; VZ 1; VZ 1; VZ 11]].
Proof. vm_compute. reflexivity. Qed.
