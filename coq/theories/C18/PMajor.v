(* C18/PMajor.v — the per-cap axis table: the generated `major_table` is, for each of the 12 caps, a signed permutation
   of (xx, yy, zz) that keeps zz positive at the position the minor-axis construction divides by, and the 12 caps give
   12 pairwise different (position of zz, position of yy, sign of yy) patterns. *)
From Coq Require Import ZArith Reals Lra Lia.
From Abacus.C18 Require Import Spec Gen Lib.
Local Open Scope R_scope.

Ltac major_compute := cbv beta iota zeta delta [major_table Z.eqb Pos.eqb].
Ltac major_compute_in H := cbv beta iota zeta delta [major_table Z.eqb Pos.eqb] in H.

Lemma major_table_dot : forall cap x y z, (0 <= cap < 12)%Z ->
  dot (major_table cap x y z) (major_table cap x y z) = x * x + y * y + z * z.
Proof.
  intros cap x y z Hcap. cap_cases cap Hcap; major_compute; unfold dot; ring.
Qed.

(* the component the minor-axis block of group cap/4 divides by is zz *)
Lemma major_table_zpos : forall cap x y z M0 M1 M2, (0 <= cap < 12)%Z ->
  major_table cap x y z = (M0, M1, M2) ->
  ((cap / 4 = 0)%Z /\ M0 = z) \/ ((cap / 4 = 1)%Z /\ M1 = z) \/ ((cap / 4 = 2)%Z /\ M2 = z).
Proof.
  intros cap x y z M0 M1 M2 Hcap E.
  cap_cases cap Hcap; major_compute_in E; injection E as E0 E1 E2;
    first [ left; split; [reflexivity | congruence]
          | right; left; split; [reflexivity | congruence]
          | right; right; split; [reflexivity | congruence] ].
Qed.

(* cap_axes_distinct: equal major axes built from ordered triples come from the same cap and the same triple *)
Lemma major_table_inj : forall cap1 cap2 x1 y1 z1 x2 y2 z2,
  (0 <= cap1 < 12)%Z -> (0 <= cap2 < 12)%Z -> ordered x1 y1 z1 -> ordered x2 y2 z2 ->
  major_table cap1 x1 y1 z1 = major_table cap2 x2 y2 z2 ->
  cap1 = cap2 /\ x1 = x2 /\ y1 = y2 /\ z1 = z2.
Proof.
  intros cap1 cap2 x1 y1 z1 x2 y2 z2 H1 H2 [Ha1 Hb1] [Ha2 Hb2] E.
  apply Rabs_def2 in Ha1. apply Rabs_def2 in Ha2. destruct Ha1 as [Ha1 Ha1']. destruct Ha2 as [Ha2 Ha2'].
  cap_cases cap1 H1; cap_cases cap2 H2; major_compute_in E; injection E as E0 E1 E2;
    first [ exfalso; lra | repeat split; first [reflexivity | lra] ].
Qed.
