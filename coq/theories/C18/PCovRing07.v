(* GENERATED ONCE by tools/dev/gen_c18_rings.py (committed, not regenerated at check time): ring 7 of the Euler16
   in-cap grid.  Each box lemma is closed by coq-interval: interval arithmetic with bisection, run by reflection inside the kernel at 60-bit
   precision, i.e. on Interval's software floats over Bignums (the primitive 63-bit integers PrimInt63 / Uint63 of the
   standard library appear in Print Assumptions; primitive FLOATS are not used: i_prec is above 53). *)
From Coq Require Import ZArith Reals Lra Lia.
From Interval Require Import Tactic.
From Abacus.C18 Require Import Gen PCovDefs.
Local Open Scope R_scope.

Lemma box_7_0 : forall t r, (67 / 125) <= t <= (3163 / 5000) -> (-1) <= r <= (-13 / 15) ->
  c45 <= dotn t r (cell_axis 7 0).
Proof.
  intros t r Ht Hr. unfold c45, dotn, cell_axis, EULER_NORM, EULER_TBIN. cbv zeta.
  interval with (i_bisect t, i_bisect r, i_depth 30, i_prec 60).
Qed.

Lemma box_7_1 : forall t r, (67 / 125) <= t <= (3163 / 5000) -> (-13 / 15) <= r <= (-11 / 15) ->
  c45 <= dotn t r (cell_axis 7 1).
Proof.
  intros t r Ht Hr. unfold c45, dotn, cell_axis, EULER_NORM, EULER_TBIN. cbv zeta.
  interval with (i_bisect t, i_bisect r, i_depth 30, i_prec 60).
Qed.

Lemma box_7_2 : forall t r, (67 / 125) <= t <= (3163 / 5000) -> (-11 / 15) <= r <= (-3 / 5) ->
  c45 <= dotn t r (cell_axis 7 2).
Proof.
  intros t r Ht Hr. unfold c45, dotn, cell_axis, EULER_NORM, EULER_TBIN. cbv zeta.
  interval with (i_bisect t, i_bisect r, i_depth 30, i_prec 60).
Qed.

Lemma box_7_3 : forall t r, (67 / 125) <= t <= (3163 / 5000) -> (-3 / 5) <= r <= (-7 / 15) ->
  c45 <= dotn t r (cell_axis 7 3).
Proof.
  intros t r Ht Hr. unfold c45, dotn, cell_axis, EULER_NORM, EULER_TBIN. cbv zeta.
  interval with (i_bisect t, i_bisect r, i_depth 30, i_prec 60).
Qed.

Lemma box_7_4 : forall t r, (67 / 125) <= t <= (3163 / 5000) -> (-7 / 15) <= r <= (-1 / 3) ->
  c45 <= dotn t r (cell_axis 7 4).
Proof.
  intros t r Ht Hr. unfold c45, dotn, cell_axis, EULER_NORM, EULER_TBIN. cbv zeta.
  interval with (i_bisect t, i_bisect r, i_depth 30, i_prec 60).
Qed.

Lemma box_7_5 : forall t r, (67 / 125) <= t <= (3163 / 5000) -> (-1 / 3) <= r <= (-1 / 5) ->
  c45 <= dotn t r (cell_axis 7 5).
Proof.
  intros t r Ht Hr. unfold c45, dotn, cell_axis, EULER_NORM, EULER_TBIN. cbv zeta.
  interval with (i_bisect t, i_bisect r, i_depth 30, i_prec 60).
Qed.

Lemma box_7_6 : forall t r, (67 / 125) <= t <= (3163 / 5000) -> (-1 / 5) <= r <= (-1 / 15) ->
  c45 <= dotn t r (cell_axis 7 6).
Proof.
  intros t r Ht Hr. unfold c45, dotn, cell_axis, EULER_NORM, EULER_TBIN. cbv zeta.
  interval with (i_bisect t, i_bisect r, i_depth 30, i_prec 60).
Qed.

Lemma box_7_7 : forall t r, (67 / 125) <= t <= (3163 / 5000) -> (-1 / 15) <= r <= (1 / 15) ->
  c45 <= dotn t r (cell_axis 7 7).
Proof.
  intros t r Ht Hr. unfold c45, dotn, cell_axis, EULER_NORM, EULER_TBIN. cbv zeta.
  interval with (i_bisect t, i_bisect r, i_depth 30, i_prec 60).
Qed.

Lemma box_7_8 : forall t r, (67 / 125) <= t <= (3163 / 5000) -> (1 / 15) <= r <= (1 / 5) ->
  c45 <= dotn t r (cell_axis 7 8).
Proof.
  intros t r Ht Hr. unfold c45, dotn, cell_axis, EULER_NORM, EULER_TBIN. cbv zeta.
  interval with (i_bisect t, i_bisect r, i_depth 30, i_prec 60).
Qed.

Lemma box_7_9 : forall t r, (67 / 125) <= t <= (3163 / 5000) -> (1 / 5) <= r <= (1 / 3) ->
  c45 <= dotn t r (cell_axis 7 9).
Proof.
  intros t r Ht Hr. unfold c45, dotn, cell_axis, EULER_NORM, EULER_TBIN. cbv zeta.
  interval with (i_bisect t, i_bisect r, i_depth 30, i_prec 60).
Qed.

Lemma box_7_10 : forall t r, (67 / 125) <= t <= (3163 / 5000) -> (1 / 3) <= r <= (7 / 15) ->
  c45 <= dotn t r (cell_axis 7 10).
Proof.
  intros t r Ht Hr. unfold c45, dotn, cell_axis, EULER_NORM, EULER_TBIN. cbv zeta.
  interval with (i_bisect t, i_bisect r, i_depth 30, i_prec 60).
Qed.

Lemma box_7_11 : forall t r, (67 / 125) <= t <= (3163 / 5000) -> (7 / 15) <= r <= (3 / 5) ->
  c45 <= dotn t r (cell_axis 7 11).
Proof.
  intros t r Ht Hr. unfold c45, dotn, cell_axis, EULER_NORM, EULER_TBIN. cbv zeta.
  interval with (i_bisect t, i_bisect r, i_depth 30, i_prec 60).
Qed.

Lemma box_7_12 : forall t r, (67 / 125) <= t <= (3163 / 5000) -> (3 / 5) <= r <= (11 / 15) ->
  c45 <= dotn t r (cell_axis 7 12).
Proof.
  intros t r Ht Hr. unfold c45, dotn, cell_axis, EULER_NORM, EULER_TBIN. cbv zeta.
  interval with (i_bisect t, i_bisect r, i_depth 30, i_prec 60).
Qed.

Lemma box_7_13 : forall t r, (67 / 125) <= t <= (3163 / 5000) -> (11 / 15) <= r <= (13 / 15) ->
  c45 <= dotn t r (cell_axis 7 13).
Proof.
  intros t r Ht Hr. unfold c45, dotn, cell_axis, EULER_NORM, EULER_TBIN. cbv zeta.
  interval with (i_bisect t, i_bisect r, i_depth 30, i_prec 60).
Qed.

Lemma box_7_14 : forall t r, (67 / 125) <= t <= (3163 / 5000) -> (13 / 15) <= r <= 1 ->
  c45 <= dotn t r (cell_axis 7 14).
Proof.
  intros t r Ht Hr. unfold c45, dotn, cell_axis, EULER_NORM, EULER_TBIN. cbv zeta.
  interval with (i_bisect t, i_bisect r, i_depth 30, i_prec 60).
Qed.

Lemma ring_7 : forall t r, (67 / 125) <= t <= (3163 / 5000) -> -1 <= r <= 1 ->
  exists ir : Z, (0 <= ir <= 2 * 7)%Z /\ c45 <= dotn t r (cell_axis 7 (IZR ir)).
Proof.
  intros t r Ht Hr.
  destruct (Rle_dec r (-13 / 15)) as [L0 | L0];
    [exists 0%Z; split; [lia | apply box_7_0; lra] |].
  destruct (Rle_dec r (-11 / 15)) as [L1 | L1];
    [exists 1%Z; split; [lia | apply box_7_1; lra] |].
  destruct (Rle_dec r (-3 / 5)) as [L2 | L2];
    [exists 2%Z; split; [lia | apply box_7_2; lra] |].
  destruct (Rle_dec r (-7 / 15)) as [L3 | L3];
    [exists 3%Z; split; [lia | apply box_7_3; lra] |].
  destruct (Rle_dec r (-1 / 3)) as [L4 | L4];
    [exists 4%Z; split; [lia | apply box_7_4; lra] |].
  destruct (Rle_dec r (-1 / 5)) as [L5 | L5];
    [exists 5%Z; split; [lia | apply box_7_5; lra] |].
  destruct (Rle_dec r (-1 / 15)) as [L6 | L6];
    [exists 6%Z; split; [lia | apply box_7_6; lra] |].
  destruct (Rle_dec r (1 / 15)) as [L7 | L7];
    [exists 7%Z; split; [lia | apply box_7_7; lra] |].
  destruct (Rle_dec r (1 / 5)) as [L8 | L8];
    [exists 8%Z; split; [lia | apply box_7_8; lra] |].
  destruct (Rle_dec r (1 / 3)) as [L9 | L9];
    [exists 9%Z; split; [lia | apply box_7_9; lra] |].
  destruct (Rle_dec r (7 / 15)) as [L10 | L10];
    [exists 10%Z; split; [lia | apply box_7_10; lra] |].
  destruct (Rle_dec r (3 / 5)) as [L11 | L11];
    [exists 11%Z; split; [lia | apply box_7_11; lra] |].
  destruct (Rle_dec r (11 / 15)) as [L12 | L12];
    [exists 12%Z; split; [lia | apply box_7_12; lra] |].
  destruct (Rle_dec r (13 / 15)) as [L13 | L13];
    [exists 13%Z; split; [lia | apply box_7_13; lra] |].
  exists 14%Z; split; [lia | apply box_7_14; lra].
Qed.
