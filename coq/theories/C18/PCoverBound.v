(* C18/PCoverBound.v — the metric half of the coverage clause: every unit vector is, up to sign, within 4.5 degrees of the
   major axis of some valid code.

   Route: (1) every vector is, for some sign and some cap, the cap's pattern applied to a triple |x| <= y <= z (the closure of
   coverage_partial's open cells; found by search over the generated table); (2) a unit triple is z * (r t, t, 1) with
   t = y/z in [0,1], r = x/y in [-1,1] (r = 0 when y = 0), z = 1 / sqrt (1 + (r t)^2 + t^2); (3) [0,1] x [-1,1] is cut into 121
   boxes, one per in-cap cell, and coq-interval proves for each box that the cosine of the angle to that cell's decoded axis
   (Gen.cell_axis, the regenerated formulas) is at least 0.99692 (PCovRingNN.v); (4) 0.99692 >= cos 4.5 degrees (interval);
   (5) the cap's signed permutation preserves dot products, and the major axis of the code encode cap it ir 0 is the cap
   pattern of cell_axis it ir. *)
From Coq Require Import ZArith Reals Lra Lia.
From Interval Require Import Tactic.
From Abacus.C18 Require Import Spec Gen Lib PMajor PDecompose PTriad PCovDefs
  PCovRing00 PCovRing01 PCovRing02 PCovRing03 PCovRing04 PCovRing05 PCovRing06 PCovRing07 PCovRing08 PCovRing09 PCovRing10.
Local Open Scope R_scope.

Lemma cos45_below : cos (45 / 10 * PI / 180) <= c45.
Proof. unfold c45. interval with (i_prec 60). Qed.

(* (3) the boxes cover the whole parameter square *)
Lemma grid_cover : forall t r, 0 <= t <= 1 -> -1 <= r <= 1 ->
  exists it ir : Z, (0 <= it < 11)%Z /\ (0 <= ir <= 2 * it)%Z /\ c45 <= dotn t r (cell_axis (IZR it) (IZR ir)).
Proof.
  intros t r Ht Hr.
  destruct (Rle_dec t (697 / 10000)) as [T0 | T0];
    [destruct (ring_0 t r ltac:(lra) Hr) as (ir & Hir & Hb); exists 0%Z, ir; split; [lia | split; [lia | exact Hb]] |].
  destruct (Rle_dec t (701 / 5000)) as [T1 | T1];
    [destruct (ring_1 t r ltac:(lra) Hr) as (ir & Hir & Hb); exists 1%Z, ir; split; [lia | split; [lia | exact Hb]] |].
  destruct (Rle_dec t (1061 / 5000)) as [T2 | T2];
    [destruct (ring_2 t r ltac:(lra) Hr) as (ir & Hir & Hb); exists 2%Z, ir; split; [lia | split; [lia | exact Hb]] |].
  destruct (Rle_dec t (2867 / 10000)) as [T3 | T3];
    [destruct (ring_3 t r ltac:(lra) Hr) as (ir & Hir & Hb); exists 3%Z, ir; split; [lia | split; [lia | exact Hb]] |].
  destruct (Rle_dec t (3647 / 10000)) as [T4 | T4];
    [destruct (ring_4 t r ltac:(lra) Hr) as (ir & Hir & Hb); exists 4%Z, ir; split; [lia | split; [lia | exact Hb]] |].
  destruct (Rle_dec t (4473 / 10000)) as [T5 | T5];
    [destruct (ring_5 t r ltac:(lra) Hr) as (ir & Hir & Hb); exists 5%Z, ir; split; [lia | split; [lia | exact Hb]] |].
  destruct (Rle_dec t (67 / 125)) as [T6 | T6];
    [destruct (ring_6 t r ltac:(lra) Hr) as (ir & Hir & Hb); exists 6%Z, ir; split; [lia | split; [lia | exact Hb]] |].
  destruct (Rle_dec t (3163 / 5000)) as [T7 | T7];
    [destruct (ring_7 t r ltac:(lra) Hr) as (ir & Hir & Hb); exists 7%Z, ir; split; [lia | split; [lia | exact Hb]] |].
  destruct (Rle_dec t (3699 / 5000)) as [T8 | T8];
    [destruct (ring_8 t r ltac:(lra) Hr) as (ir & Hir & Hb); exists 8%Z, ir; split; [lia | split; [lia | exact Hb]] |].
  destruct (Rle_dec t (8607 / 10000)) as [T9 | T9];
    [destruct (ring_9 t r ltac:(lra) Hr) as (ir & Hir & Hb); exists 9%Z, ir; split; [lia | split; [lia | exact Hb]] |].
  destruct (ring_10 t r ltac:(lra) Hr) as (ir & Hir & Hb); exists 10%Z, ir; split; [lia | split; [lia | exact Hb]].
Qed.

(* (1) closed cap patterns: every vector, up to sign, is a cap pattern of a weakly ordered triple *)
Definition wordered (x y z : R) : Prop := Rabs x <= y /\ y <= z.

Ltac try_cap_w k s a b c :=
  exists k, s,
    (dot (major_table k 1 0 0) (scale s (a, b, c))),
    (dot (major_table k 0 1 0) (scale s (a, b, c))),
    (dot (major_table k 0 0 1) (scale s (a, b, c)));
  major_compute; unfold dot, scale, wordered;
  split; [lia |];
  split; [first [left; reflexivity | right; reflexivity] |];
  split; [split; [apply Rabs_le; lra | lra] |];
  (f_equal; [f_equal |]); lra.

Ltac search_cap_w a b c :=
  first [ try_cap_w 0%Z 1 a b c | try_cap_w 0%Z (-1) a b c | try_cap_w 1%Z 1 a b c | try_cap_w 1%Z (-1) a b c
        | try_cap_w 2%Z 1 a b c | try_cap_w 2%Z (-1) a b c | try_cap_w 3%Z 1 a b c | try_cap_w 3%Z (-1) a b c
        | try_cap_w 4%Z 1 a b c | try_cap_w 4%Z (-1) a b c | try_cap_w 5%Z 1 a b c | try_cap_w 5%Z (-1) a b c
        | try_cap_w 6%Z 1 a b c | try_cap_w 6%Z (-1) a b c | try_cap_w 7%Z 1 a b c | try_cap_w 7%Z (-1) a b c
        | try_cap_w 8%Z 1 a b c | try_cap_w 8%Z (-1) a b c | try_cap_w 9%Z 1 a b c | try_cap_w 9%Z (-1) a b c
        | try_cap_w 10%Z 1 a b c | try_cap_w 10%Z (-1) a b c | try_cap_w 11%Z 1 a b c | try_cap_w 11%Z (-1) a b c ].

Lemma coverage_exists_weak : forall v : vec,
  exists cap s x y z, (0 <= cap < 12)%Z /\ (s = 1 \/ s = -1) /\ wordered x y z /\ scale s v = major_table cap x y z.
Proof.
  intros [[a b] c].
  destruct (Rle_dec (Rabs a) (Rabs b)) as [Oab | Oab]; destruct (Rle_dec (Rabs b) (Rabs c)) as [Obc | Obc];
    destruct (Rle_dec (Rabs a) (Rabs c)) as [Oac | Oac];
    unfold Rabs in Oab, Obc, Oac;
    destruct (Rcase_abs a) as [Sa | Sa]; destruct (Rcase_abs b) as [Sb | Sb]; destruct (Rcase_abs c) as [Sc | Sc];
    try (exfalso; lra); search_cap_w a b c.
Qed.

(* (5a) a cap's signed permutation preserves dot products *)
Lemma major_table_dot2 : forall cap x y z x' y' z', (0 <= cap < 12)%Z ->
  dot (major_table cap x y z) (major_table cap x' y' z') = x * x' + y * y' + z * z'.
Proof.
  intros cap x y z x' y' z' Hcap. cap_cases cap Hcap; major_compute; unfold dot; ring.
Qed.

(* (2) a weakly ordered unit triple in the (t, r) parametrisation of the boxes *)
Lemma unit_triple_param : forall x y z, wordered x y z -> x * x + y * y + z * z = 1 ->
  exists t r, 0 <= t <= 1 /\ -1 <= r <= 1 /\ forall a, dot (x, y, z) a = dotn t r a.
Proof.
  intros x y z [Hx Hy] Hu.
  pose proof (Rabs_pos x) as Hax.
  assert (Hy0 : 0 <= y) by lra.
  assert (Hz : 0 < z).
  { destruct (Rlt_le_dec 0 z) as [L | L]; [exact L | exfalso].
    assert (z = 0) by lra. assert (y = 0) by lra. assert (Rabs x = 0) by lra.
    assert (x = 0) by (destruct (Req_dec x 0) as [E | E]; [exact E | exfalso; apply Rabs_no_R0 in E; lra]).
    subst. lra. }
  assert (Hxb : - y <= x <= y) by (unfold Rabs in Hx; destruct (Rcase_abs x); lra).
  exists (y / z), (if Req_EM_T y 0 then 0 else x / y).
  assert (Ht : 0 <= y / z <= 1).
  { split.
    - apply Rmult_le_pos; [lra | apply Rlt_le, Rinv_0_lt_compat; lra].
    - apply (Rmult_le_reg_r z); [lra |]. unfold Rdiv. rewrite Rmult_assoc, Rinv_l by lra. lra. }
  split; [exact Ht |].
  assert (Hr : -1 <= (if Req_EM_T y 0 then 0 else x / y) <= 1).
  { destruct (Req_EM_T y 0) as [E | E]; [lra |].
    assert (0 < y) by lra.
    split.
    - apply (Rmult_le_reg_r y); [lra |]. unfold Rdiv. rewrite Rmult_assoc, Rinv_l by lra. lra.
    - apply (Rmult_le_reg_r y); [lra |]. unfold Rdiv. rewrite Rmult_assoc, Rinv_l by lra. lra. }
  split; [exact Hr |].
  intros [[ax ay] az]. unfold dot, dotn.
  set (r := if Req_EM_T y 0 then 0 else x / y).
  assert (Ert : r * (y / z) = x / z).
  { unfold r. destruct (Req_EM_T y 0) as [E | E].
    - assert (x = 0) by lra. subst x. subst y. unfold Rdiv. ring.
    - field. split; lra. }
  assert (Eq : 1 + r * (y / z) * (r * (y / z)) + y / z * (y / z) = (1 / z) * (1 / z)).
  { rewrite Ert. replace ((1 / z) * (1 / z)) with ((x * x + y * y + z * z) / (z * z)) by (rewrite Hu; field; lra).
    field. lra. }
  rewrite Eq. rewrite sqrt_square by (apply Rlt_le; unfold Rdiv; rewrite Rmult_1_l; apply Rinv_0_lt_compat; lra).
  rewrite Ert. field. lra.
Qed.

(* (5b) the major axis of the code of a valid cell is the cap pattern of the cell's axis *)
Lemma code_major : forall cap it ir iaz, valid_cell cap it ir iaz ->
  snd (unpack_euler16 (encode cap it ir iaz)) =
  (let '(x, y, z) := cell_axis (IZR it) (IZR ir) in major_table cap x y z).
Proof.
  intros cap it ir iaz Hv.
  rewrite (unpack_eq _ cap it ir iaz (decompose_encode cap it ir iaz Hv)).
  apply triad_major.
Qed.

Lemma scale_dot : forall s a b, dot (scale s a) b = s * dot a b.
Proof. intros s [[a0 a1] a2] [[b0 b1] b2]. unfold scale, dot. ring. Qed.

Lemma coverage_bound_lemma : forall v : vec, dot v v = 1 ->
  exists c, valid_code c /\ cos (45 / 10 * PI / 180) <= Rabs (dot v (snd (unpack_euler16 c))).
Proof.
  intros v Hu.
  destruct (coverage_exists_weak v) as (cap & s & x & y & z & Hcap & Hs & Ho & E).
  assert (Hu' : x * x + y * y + z * z = 1).
  { rewrite <- (major_table_dot cap x y z Hcap), <- E.
    destruct v as [[a b] c]. unfold scale, dot in *. destruct Hs; subst s; lra. }
  destruct (unit_triple_param x y z Ho Hu') as (t & r & Ht & Hr & Hd).
  destruct (grid_cover t r Ht Hr) as (it & ir & Hit & Hir & Hb).
  assert (Hv : valid_cell cap it ir 0) by (unfold valid_cell; lia).
  exists (encode cap it ir 0). split; [apply encode_valid; exact Hv |].
  rewrite (code_major cap it ir 0 Hv).
  destruct (cell_axis (IZR it) (IZR ir)) as [[ax ay] az] eqn:Ea.
  assert (Hdot : dot (scale s v) (major_table cap ax ay az) = dotn t r (ax, ay, az)).
  { rewrite E, major_table_dot2 by exact Hcap. rewrite <- (Hd (ax, ay, az)). unfold dot. ring. }
  rewrite scale_dot in Hdot.
  apply Rle_trans with c45; [exact cos45_below |].
  apply Rle_trans with (dotn t r (ax, ay, az)); [exact Hb |].
  rewrite <- Hdot.
  destruct Hs; subst s.
  - rewrite Rmult_1_l. apply Rle_abs.
  - replace (-1 * dot v (major_table cap ax ay az)) with (- dot v (major_table cap ax ay az)) by ring.
    rewrite <- Rabs_Ropp. apply Rle_abs.
Qed.
