(* GENERATED ONCE by tools/dev/gen_c18_rings.py (committed, not regenerated at check time): ring 5 of the Euler16
   in-cap grid.  Each box lemma is closed by coq-interval: interval arithmetic with bisection, run by reflection inside the kernel at 60-bit
   precision, i.e. on Interval's software floats over Bignums (the primitive 63-bit integers PrimInt63 / Uint63 of the
   standard library appear in Print Assumptions; primitive FLOATS are not used: i_prec is above 53). *)
From Coq Require Import ZArith Reals Lra Lia.
From Interval Require Import Tactic.
From Abacus.C18 Require Import Gen PCovDefs.
Local Open Scope R_scope.

Lemma box_5_0 : forall t r, (3647 / 10000) <= t <= (4473 / 10000) -> (-1) <= r <= (-9 / 11) ->
  c45 <= dotn t r (cell_axis 5 0).
Proof.
  intros t r Ht Hr. unfold c45, dotn, cell_axis, EULER_NORM, EULER_TBIN. cbv zeta.
  interval with (i_bisect t, i_bisect r, i_depth 30, i_prec 60).
Qed.

Lemma box_5_1 : forall t r, (3647 / 10000) <= t <= (4473 / 10000) -> (-9 / 11) <= r <= (-7 / 11) ->
  c45 <= dotn t r (cell_axis 5 1).
Proof.
  intros t r Ht Hr. unfold c45, dotn, cell_axis, EULER_NORM, EULER_TBIN. cbv zeta.
  interval with (i_bisect t, i_bisect r, i_depth 30, i_prec 60).
Qed.

Lemma box_5_2 : forall t r, (3647 / 10000) <= t <= (4473 / 10000) -> (-7 / 11) <= r <= (-5 / 11) ->
  c45 <= dotn t r (cell_axis 5 2).
Proof.
  intros t r Ht Hr. unfold c45, dotn, cell_axis, EULER_NORM, EULER_TBIN. cbv zeta.
  interval with (i_bisect t, i_bisect r, i_depth 30, i_prec 60).
Qed.

Lemma box_5_3 : forall t r, (3647 / 10000) <= t <= (4473 / 10000) -> (-5 / 11) <= r <= (-3 / 11) ->
  c45 <= dotn t r (cell_axis 5 3).
Proof.
  intros t r Ht Hr. unfold c45, dotn, cell_axis, EULER_NORM, EULER_TBIN. cbv zeta.
  interval with (i_bisect t, i_bisect r, i_depth 30, i_prec 60).
Qed.

Lemma box_5_4 : forall t r, (3647 / 10000) <= t <= (4473 / 10000) -> (-3 / 11) <= r <= (-1 / 11) ->
  c45 <= dotn t r (cell_axis 5 4).
Proof.
  intros t r Ht Hr. unfold c45, dotn, cell_axis, EULER_NORM, EULER_TBIN. cbv zeta.
  interval with (i_bisect t, i_bisect r, i_depth 30, i_prec 60).
Qed.

Lemma box_5_5 : forall t r, (3647 / 10000) <= t <= (4473 / 10000) -> (-1 / 11) <= r <= (1 / 11) ->
  c45 <= dotn t r (cell_axis 5 5).
Proof.
  intros t r Ht Hr. unfold c45, dotn, cell_axis, EULER_NORM, EULER_TBIN. cbv zeta.
  interval with (i_bisect t, i_bisect r, i_depth 30, i_prec 60).
Qed.

Lemma box_5_6 : forall t r, (3647 / 10000) <= t <= (4473 / 10000) -> (1 / 11) <= r <= (3 / 11) ->
  c45 <= dotn t r (cell_axis 5 6).
Proof.
  intros t r Ht Hr. unfold c45, dotn, cell_axis, EULER_NORM, EULER_TBIN. cbv zeta.
  interval with (i_bisect t, i_bisect r, i_depth 30, i_prec 60).
Qed.

Lemma box_5_7 : forall t r, (3647 / 10000) <= t <= (4473 / 10000) -> (3 / 11) <= r <= (5 / 11) ->
  c45 <= dotn t r (cell_axis 5 7).
Proof.
  intros t r Ht Hr. unfold c45, dotn, cell_axis, EULER_NORM, EULER_TBIN. cbv zeta.
  interval with (i_bisect t, i_bisect r, i_depth 30, i_prec 60).
Qed.

Lemma box_5_8 : forall t r, (3647 / 10000) <= t <= (4473 / 10000) -> (5 / 11) <= r <= (7 / 11) ->
  c45 <= dotn t r (cell_axis 5 8).
Proof.
  intros t r Ht Hr. unfold c45, dotn, cell_axis, EULER_NORM, EULER_TBIN. cbv zeta.
  interval with (i_bisect t, i_bisect r, i_depth 30, i_prec 60).
Qed.

Lemma box_5_9 : forall t r, (3647 / 10000) <= t <= (4473 / 10000) -> (7 / 11) <= r <= (9 / 11) ->
  c45 <= dotn t r (cell_axis 5 9).
Proof.
  intros t r Ht Hr. unfold c45, dotn, cell_axis, EULER_NORM, EULER_TBIN. cbv zeta.
  interval with (i_bisect t, i_bisect r, i_depth 30, i_prec 60).
Qed.

Lemma box_5_10 : forall t r, (3647 / 10000) <= t <= (4473 / 10000) -> (9 / 11) <= r <= 1 ->
  c45 <= dotn t r (cell_axis 5 10).
Proof.
  intros t r Ht Hr. unfold c45, dotn, cell_axis, EULER_NORM, EULER_TBIN. cbv zeta.
  interval with (i_bisect t, i_bisect r, i_depth 30, i_prec 60).
Qed.

Lemma ring_5 : forall t r, (3647 / 10000) <= t <= (4473 / 10000) -> -1 <= r <= 1 ->
  exists ir : Z, (0 <= ir <= 2 * 5)%Z /\ c45 <= dotn t r (cell_axis 5 (IZR ir)).
Proof.
  intros t r Ht Hr.
  destruct (Rle_dec r (-9 / 11)) as [L0 | L0];
    [exists 0%Z; split; [lia | apply box_5_0; lra] |].
  destruct (Rle_dec r (-7 / 11)) as [L1 | L1];
    [exists 1%Z; split; [lia | apply box_5_1; lra] |].
  destruct (Rle_dec r (-5 / 11)) as [L2 | L2];
    [exists 2%Z; split; [lia | apply box_5_2; lra] |].
  destruct (Rle_dec r (-3 / 11)) as [L3 | L3];
    [exists 3%Z; split; [lia | apply box_5_3; lra] |].
  destruct (Rle_dec r (-1 / 11)) as [L4 | L4];
    [exists 4%Z; split; [lia | apply box_5_4; lra] |].
  destruct (Rle_dec r (1 / 11)) as [L5 | L5];
    [exists 5%Z; split; [lia | apply box_5_5; lra] |].
  destruct (Rle_dec r (3 / 11)) as [L6 | L6];
    [exists 6%Z; split; [lia | apply box_5_6; lra] |].
  destruct (Rle_dec r (5 / 11)) as [L7 | L7];
    [exists 7%Z; split; [lia | apply box_5_7; lra] |].
  destruct (Rle_dec r (7 / 11)) as [L8 | L8];
    [exists 8%Z; split; [lia | apply box_5_8; lra] |].
  destruct (Rle_dec r (9 / 11)) as [L9 | L9];
    [exists 9%Z; split; [lia | apply box_5_9; lra] |].
  exists 10%Z; split; [lia | apply box_5_10; lra].
Qed.
