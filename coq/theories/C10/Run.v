(* C10/Run.v — executable glue for the correspondence check of C10 (no theorem depends on it).
   Catalogue runs use Abacus.C09.Run.run with the thread count and block tables of each implementation run. *)
From Coq Require Import ZArith List Bool.
From Abacus.Common Require Import Arr Corr.
From Abacus.C09 Require Import Model Lib TwoPass.
From Abacus.C09 Require Run.
From Abacus.C10 Require Import Gen Model.
Import ListNotations.
Local Open Scope Z_scope.

(* fast_concatenate on integer arrays: (a1, a2, Nthread, hstart1, hstart2) -> result cells, sorted? no: the writes in thread order *)
Definition ccase := (list Z * list Z * Z * list Z * list Z)%type.
Definition run_concat (c : ccase) : val :=
  let '(a1, a2, Nthread, h1, h2) := c in
  vres (fun '(fa, traces) => VL [VL (map (vopt VZ) fa); VZ (len (concat traces))])
       (fast_concatenate Z a1 a2 Nthread h1 h2).

(* the generated split formula alone *)
Definition run_split (c : Z * Z * Z) : val := let '(n, n1, n2) := c in VZ (concat_split n n1 n2).

(* hypotheses of the theorems, decided: is this table a monotone 0 -> H table of Nthread+1 entries? *)
Fixpoint monotone (l : list Z) : bool :=
  match l with a :: ((b :: _) as t) => (a <=? b) && monotone t | _ => true end.
Definition good_hstartb (Nthread : Z) (hstart : list Z) (H : Z) : bool :=
  (1 <=? Nthread) && (len hstart =? Nthread + 1) && (nth 0 hstart 0 =? 0) && (nth (Z.to_nat Nthread) hstart 0 =? H)
  && monotone hstart.
Definition run_table (c : Z * list Z * Z) : val := let '(n, h, H) := c in VB (good_hstartb n h H).

(* property predicate on the model for the failing-input search: result = a1 ++ a2, every cell once *)
Definition holds_concat (c : ccase) : bool :=
  let '(a1, a2, Nthread, h1, h2) := c in
  val_eqb (run_concat c)
          (VL [VL (map VZ (a1 ++ a2)); VZ (if (len a1 =? 0) || (len a2 =? 0) then 0 else len a1 + len a2)]).
