(* C10/Model.v — thread-level models for "the catalogue is identical for every thread count" (no proofs here).

   * the two-pass kernels gen_cent / gen_sats: Abacus.C09.Model.two_pass (shared with C09); here the write traces
     of its fill pass are turned into threads of micro-operations of Common/Par.v;
   * fast_concatenate, in the checked-access monad, with the thread split regenerated from the source (Gen.concat_split)
     and arbitrary block tables hstart1 / hstart2 (the rounded linspaces), returning the per-thread write traces;
   * _searchsorted_parallel: one single-cell write per element. *)
From Coq Require Import ZArith List Bool.
From Abacus.Common Require Import Arr Par.
From Abacus.C09 Require Import Model.
From Abacus.C10 Require Import Gen.
Import ListNotations.
Local Open Scope Z_scope.
Local Open Scope res_scope.

(* ---- fill pass of the two-pass kernels as Par threads ------------------------------------------ *)
(* row j of tracer T (three separate arrays) as one location *)
Definition enc (T j : Z) : Z := 3 * j + (T - 1).

(* a plain store  a[l] = v  (no read) *)
Definition st_of {V} (kv : Z * V) : op V := St (fst kv) (fun _ => snd kv).

Section FillThreads.
Variable R : Type.
Definition kv_of (e : event R) : Z * option R := (enc (fst (fst e)) (snd (fst e)), Some (snd e)).
Definition fill_threads (traces : list (list (event R))) : list (list (op (option R))) :=
  map (fun tr => map (fun e => st_of (kv_of e)) tr) traces.
End FillThreads.

(* ---- fast_concatenate -------------------------------------------------------------------------- *)
Section Concat.
Variable E : Type.

(* for i in range(lo, hi): final_array[i] = src[i - off] *)
Definition copy_block (src : list E) (off lo hi : Z) (st : list (option E) * list Z) : res (list (option E) * list Z) :=
  for_range lo hi (fun i '(fa, tr) =>
    v <- get src (i - off) ;;
    fa <- set fa i (Some v) ;;
    Ok (fa, tr ++ [i])) st.

Definition fast_concatenate (a1 a2 : list E) (Nthread : Z) (hstart1 hstart2 : list Z)
  : res (list (option E) * list (list Z)) :=
  let N1 := len a1 in
  let N2 := len a2 in
  if N1 =? 0 then Ok (map Some a2, [])                 (* return array2 *)
  else if N2 =? 0 then Ok (map Some a1, [])            (* return array1 *)
  else
    let fa := repeat (@None E) (Z.to_nat (N1 + N2)) in
    if Nthread =? 1 then
      '(fa, tr) <- for_range 0 N1 (fun i '(fa, tr) =>
                     v <- get a1 i ;; fa <- set fa i (Some v) ;; Ok (fa, tr ++ [i])) (fa, []) ;;
      '(fa, tr) <- for_range 0 N2 (fun j '(fa, tr) =>
                     v <- get a2 j ;; fa <- set fa (j + N1) (Some v) ;; Ok (fa, tr ++ [j + N1])) (fa, tr) ;;
      Ok (fa, [tr])
    else
      let Nthread1 := concat_split Nthread N1 N2 in
      let Nthread2 := concat_split2 Nthread Nthread1 in
      for_range 0 Nthread (fun tid '(fa, trs) =>
        if tid <? Nthread1 then
          lo <- get hstart1 tid ;;
          hi <- get hstart1 (tid + 1) ;;
          '(fa, tr) <- copy_block a1 0 lo hi (fa, []) ;;
          Ok (fa, trs ++ [tr])
        else
          lo <- get hstart2 (tid - Nthread1) ;;
          hi <- get hstart2 (tid + 1 - Nthread1) ;;
          '(fa, tr) <- copy_block a2 N1 lo hi (fa, []) ;;
          Ok (fa, trs ++ [tr])) (fa, []).
End Concat.

(* ---- _searchsorted_parallel -------------------------------------------------------------------- *)
(* np.searchsorted(a, v) (side='left'): number of elements of a that are < v, for sorted a *)
Definition searchsorted (a : list Z) (v : Z) : Z := len (filter (fun x => x <? v) a).

Definition searchsorted_parallel (a b : list Z) : res (list (option Z)) :=
  for_range 0 (len b) (fun i r => v <- get b i ;; set r i (Some (searchsorted a v))) (repeat None (Z.to_nat (len b))).
