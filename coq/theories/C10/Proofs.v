(* C10/Proofs.v — lemmas behind C10/Properties.v. *)
From Coq Require Import ZArith QArith Qround List Bool Lia ZifyBool.
From Abacus.Common Require Import Arr Num Par.
From Abacus.C09 Require Import Model Lib TwoPass.
From Abacus.C10 Require Import Gen Model.
Import ListNotations.
Local Open Scope Z_scope.
Local Open Scope res_scope.

(* ---- stores written by plain single-cell writes --------------------------------------------------- *)
Section ConstStores.
Variable V : Type.

Definition apply_kvs (kvs : list (Z * V)) (m : store V) : store V :=
  fold_left (fun m kv => supd V m (fst kv) (snd kv)) kvs m.

Lemma exec_const kvs m tmp : exec_ops V (map st_of kvs) (m, tmp) = (apply_kvs kvs m, tmp).
Proof.
  revert m; induction kvs as [|kv kvs IH]; intros m; [reflexivity|].
  cbn [map].
  change (exec_ops V (st_of kv :: map st_of kvs) (m, tmp))
    with (exec_ops V (map st_of kvs) (exec_op V (st_of kv) (m, tmp))).
  change (exec_op V (st_of kv) (m, tmp)) with (supd V m (fst kv) (snd kv), tmp).
  rewrite IH. reflexivity.
Qed.

Lemma apply_kvs_app a b m : apply_kvs (a ++ b) m = apply_kvs b (apply_kvs a m).
Proof. unfold apply_kvs. apply fold_left_app. Qed.

Lemma seq_run_const (tl : list (list (Z * V))) m0 d :
  seq_run (map (map st_of) tl) m0 d = apply_kvs (concat tl) m0.
Proof.
  unfold seq_run, seq_from. revert m0; induction tl as [|t tl IH]; intros m0; [reflexivity|].
  cbn [map fold_left concat]. rewrite exec_const. cbn [fst]. rewrite IH, apply_kvs_app. reflexivity.
Qed.

Lemma apply_kvs_frame kvs m l : ~ In l (map fst kvs) -> apply_kvs kvs m l = m l.
Proof.
  revert m; induction kvs as [|kv kvs IH]; intros m H; [reflexivity|].
  unfold apply_kvs. cbn [fold_left]. fold (apply_kvs kvs (supd V m (fst kv) (snd kv))).
  rewrite IH by (intros C; apply H; right; exact C).
  apply supd_other. intros E. apply H. left. symmetry. exact E.
Qed.

Lemma apply_kvs_lookup kvs m l v : NoDup (map fst kvs) -> In (l, v) kvs -> apply_kvs kvs m l = v.
Proof.
  revert m; induction kvs as [|kv kvs IH]; intros m ND H; [destruct H|].
  unfold apply_kvs. cbn [fold_left]. fold (apply_kvs kvs (supd V m (fst kv) (snd kv))).
  cbn [map] in ND. inversion ND as [|x xs Hn ND']; subst. destruct H as [H|H].
  - subst kv. cbn [fst snd] in *. rewrite apply_kvs_frame by exact Hn. apply supd_same.
  - apply IH; assumption.
Qed.
End ConstStores.

Lemma nth_map_map {X Y} (g : X -> Y) (l : list (list X)) n : nth n (map (map g) l) [] = map g (nth n l []).
Proof. exact (map_nth (map g) l [] n). Qed.

Lemma NoDup_app_disjoint {X} (a b : list X) x : NoDup (a ++ b) -> In x a -> In x b -> False.
Proof.
  induction a as [|h a IH]; intros ND Ha Hb; [destruct Ha|].
  cbn [app] in ND. inversion ND as [|y ys Hn ND']; subst. destruct Ha as [->|Ha].
  - apply Hn. apply in_or_app. right. exact Hb.
  - apply IH; assumption.
Qed.

Lemma NoDup_app_r {X} (a b : list X) : NoDup (a ++ b) -> NoDup b.
Proof. induction a as [|h a IH]; intros ND; [exact ND|]. cbn [app] in ND. inversion ND; subst. apply IH; assumption. Qed.

Lemma NoDup_concat_disjoint {X} (ls : list (list X)) :
  NoDup (concat ls) -> forall i j x, i <> j -> In x (nth i ls []) -> In x (nth j ls []) -> False.
Proof.
  induction ls as [|a ls IH]; intros ND i j x Hij Hi Hj.
  - destruct i; destruct Hi.
  - cbn [concat] in ND.
    assert (Hin : forall k, In x (nth k ls []) -> In x (concat ls)).
    { intros k Hk. apply in_concat. exists (nth k ls []). split; [|exact Hk].
      destruct (Nat.lt_ge_cases k (length ls)) as [L|L]; [apply nth_In; exact L|].
      rewrite nth_overflow in Hk by exact L. destruct Hk. }
    destruct i as [|i], j as [|j]; cbn [nth] in Hi, Hj.
    + congruence.
    + eapply NoDup_app_disjoint; [exact ND|exact Hi|eapply Hin; exact Hj].
    + eapply NoDup_app_disjoint; [exact ND|exact Hj|eapply Hin; exact Hi].
    + apply (IH (NoDup_app_r _ _ ND) i j x); [congruence|exact Hi|exact Hj].
Qed.

(* ---- the fill pass under any interleaving --------------------------------------------------------- *)
Lemma enc_inj T j T' j' : 1 <= T <= 3 -> 1 <= T' <= 3 -> enc T j = enc T' j' -> T = T' /\ j = j'.
Proof. unfold enc. lia. Qed.

Lemma NoDup_enc (ks : list (Z * Z)) :
  NoDup ks -> (forall k, In k ks -> 1 <= fst k <= 3) -> NoDup (map (fun k => enc (fst k) (snd k)) ks).
Proof.
  induction ks as [|k ks IH]; intros ND Hc; [constructor|].
  cbn [map]. inversion ND as [|y ys Hn ND']; subst. constructor.
  - intros C. apply in_map_iff in C. destruct C as [k' [Ek Hk']].
    destruct (enc_inj (fst k') (snd k') (fst k) (snd k)) as [E1 E2];
      [apply Hc; right; exact Hk'|apply Hc; left; reflexivity|exact Ek|].
    apply Hn. destruct k, k'. cbn [fst snd] in *. subst. exact Hk'.
  - apply IH; [exact ND'|]. intros k' Hk'. apply Hc. right. exact Hk'.
Qed.

Section FillPar.
Variables A R : Type.
Variable code : A -> Z.
Variable fill : Z -> A -> R.
Variable hosts : list A.

Let evs := evs_pre A R code fill [] hosts.

Lemma kv_keys_nodup : NoDup (map fst (map (kv_of R) evs)).
Proof.
  rewrite map_map. unfold kv_of. cbn [fst].
  assert (E : map (fun x : event R => enc (fst (fst x)) (snd (fst x))) evs =
              map (fun k => enc (fst k) (snd k)) (map (ev_key R) evs)).
  { rewrite map_map. reflexivity. }
  rewrite E. apply NoDup_enc.
  - apply (evs_keys_nodup A R code fill hosts).
  - intros [T j] Hk. apply (evs_keys_cover A R code fill hosts) in Hk. cbn [fst]. lia.
Qed.

Lemma in_combine_seqZ_conv {X} (L : list X) lo k v :
  nth_error L k = Some v -> In (lo + Z.of_nat k, v) (combine (seqZ lo (length L)) L).
Proof.
  revert lo k; induction L as [|x L IH]; intros lo k H; [destruct k; discriminate|].
  cbn [length]. rewrite seqZ_cons. cbn [combine]. destruct k as [|k].
  - cbn in H. inversion H; subst. left. f_equal. lia.
  - right. cbn [nth_error] in H. specialize (IH (lo + 1) k H).
    replace (lo + Z.of_nat (S k)) with (lo + 1 + Z.of_nat k) by lia. exact IH.
Qed.

Lemma evs_value_conv T j v : 1 <= T <= 3 -> 0 <= j ->
  nth_error (rows A R code fill T hosts) (Z.to_nat j) = Some v -> In (T, j, v) evs.
Proof.
  intros HT Hj Hn. pose proof (in_combine_seqZ_conv _ 0 _ _ Hn) as Hin.
  replace (0 + Z.of_nat (Z.to_nat j)) with j in Hin by lia.
  rewrite length_rows in Hin. change 0 with (count A code T []) in Hin at 1.
  rewrite <- (evs_proj A R code fill T [] hosts HT) in Hin. apply in_map_iff in Hin.
  destruct Hin as [[[T' j'] v'] [E He]]. apply filter_In in He. destruct He as [He Hc].
  unfold ev_is in Hc. cbn [fst snd] in *. apply Z.eqb_eq in Hc. inversion E; subst. exact He.
Qed.

Section Sched.
Variable Nthread : Z.
Variable hstart : list Z.
Hypothesis G : good_hstart Nthread hstart (len hosts).

Let traces := traces_spec A R code fill hosts Nthread hstart.
Let threads := fill_threads R traces.

Lemma threads_as_kvs : threads = map (map st_of) (map (map (kv_of R)) traces).
Proof. unfold threads, fill_threads. rewrite map_map. apply map_ext. intros tr. rewrite map_map. reflexivity. Qed.

Lemma concat_kvs : concat (map (map (kv_of R)) traces) = map (kv_of R) evs.
Proof. rewrite <- concat_map. unfold traces. rewrite (concat_traces A R code fill hosts Nthread hstart G). reflexivity. Qed.

Lemma locs_thread i : locs (nth i threads []) = map fst (nth i (map (map (kv_of R)) traces) []).
Proof.
  rewrite threads_as_kvs. rewrite nth_map_map. unfold locs. rewrite map_map. apply map_ext. intros kv. reflexivity.
Qed.

Lemma fill_threads_disjoint : disjoint_footprints threads.
Proof.
  intros i j l Hij Hi Hj. rewrite locs_thread in Hi, Hj.
  set (kl := map (map (kv_of R)) traces) in *.
  assert (ND : NoDup (concat (map (map fst) kl))).
  { rewrite <- concat_map. unfold kl. rewrite concat_kvs. apply kv_keys_nodup. }
  apply (NoDup_concat_disjoint _ ND i j l Hij); rewrite nth_map_map; assumption.
Qed.

Lemma any_interleaving_lemma sch m0 d :
  (forall t, (t < length threads)%nat -> (length (nth t threads []) <= count_occ Nat.eq_dec sch t)%nat) ->
  (forall T j v, 1 <= T <= 3 -> 0 <= j -> nth_error (rows A R code fill T hosts) (Z.to_nat j) = Some v ->
                 fst (run sch (init threads m0 d)) (enc T j) = Some v) /\
  (forall x, (forall T j, 1 <= T <= 3 -> 0 <= j < count A code T hosts -> x <> enc T j) ->
             fst (run sch (init threads m0 d)) x = m0 x).
Proof.
  intros Hs.
  assert (E : forall x, fst (run sch (init threads m0 d)) x = apply_kvs (option R) (map (kv_of R) evs) m0 x).
  { intros x. rewrite (drf_any_schedule threads m0 d sch fill_threads_disjoint Hs).
    rewrite threads_as_kvs, seq_run_const, concat_kvs. reflexivity. }
  split.
  - intros T j v HT Hj Hn. rewrite E. apply apply_kvs_lookup; [apply kv_keys_nodup|].
    apply in_map_iff. exists (T, j, v). split; [reflexivity|]. apply evs_value_conv; assumption.
  - intros x Hx. rewrite E. apply apply_kvs_frame. intros C. rewrite map_map in C. apply in_map_iff in C.
    destruct C as [[[T j] v] [Ex He]]. unfold kv_of in Ex. cbn [fst snd] in Ex.
    assert (Hk : In (T, j) (map (ev_key R) evs)) by (apply in_map_iff; exists (T, j, v); split; [reflexivity|exact He]).
    apply (evs_keys_cover A R code fill hosts) in Hk. destruct Hk as [HT Hj]. apply (Hx T j HT Hj). symmetry. exact Ex.
Qed.
End Sched.
End FillPar.

(* ---- the thread split of fast_concatenate --------------------------------------------------------- *)
Lemma Qfloor_div a b : 0 < b -> Qfloor (inject_Z a / inject_Z b) = a / b.
Proof.
  intros Hb. destruct b as [|p|p]; try lia. unfold Qdiv, Qinv, inject_Z. cbn [Qnum Qden]. unfold Qmult. cbn [Qnum Qden].
  unfold Qfloor. rewrite Z.mul_1_r, Pos.mul_1_l. reflexivity.
Qed.

Lemma concat_split_eq Nthread N1 N2 : 0 < N1 + N2 -> concat_split Nthread N1 N2 = Z.max 1 (Nthread * N1 / (N1 + N2)).
Proof. intros H. unfold concat_split. rewrite Qfloor_div by exact H. reflexivity. Qed.

Lemma concat_split_bounds Nthread N1 N2 : 2 <= Nthread -> 1 <= N1 -> 1 <= N2 ->
  1 <= concat_split Nthread N1 N2 <= Nthread - 1 /\ 1 <= concat_split2 Nthread (concat_split Nthread N1 N2) <= Nthread - 1.
Proof.
  intros Ht H1 H2. rewrite concat_split_eq by lia. unfold concat_split2.
  assert (Hq : Nthread * N1 / (N1 + N2) < Nthread).
  { apply Z.div_lt_upper_bound; [lia|]. nia. }
  lia.
Qed.

(* ---- fast_concatenate ------------------------------------------------------------------------------ *)
Lemma len_0_nil {X} (l : list X) : len l = 0 -> l = [].
Proof. destruct l; [reflexivity|]. unfold len. cbn [length]. lia. Qed.

Section ConcatProofs.
Variable E : Type.
Variables a1 a2 : list E.
Let L := a1 ++ a2.
Let N1 := len a1.
Let N2 := len a2.

Lemma len_L : len L = N1 + N2.
Proof. unfold L. apply len_app. Qed.

Lemma nth_L_1 i : 0 <= i < N1 -> nth_error L (Z.to_nat i) = nth_error a1 (Z.to_nat i).
Proof. intros H. unfold L. apply nth_error_app1. unfold N1, len in H. lia. Qed.

Lemma nth_L_2 i : N1 <= i -> nth_error L (Z.to_nat i) = nth_error a2 (Z.to_nat (i - N1)).
Proof.
  intros H. unfold L. rewrite nth_error_app2 by (unfold N1, len in H; lia). f_equal. unfold N1, len in *. lia.
Qed.

Lemma copy_block_ok src off lo hi tr0 :
  0 <= lo <= hi -> hi <= len L ->
  (forall i, lo <= i < hi -> 0 <= i - off < len src /\ nth_error src (Z.to_nat (i - off)) = nth_error L (Z.to_nat i)) ->
  copy_block E src off lo hi (parr L lo, tr0) = Ok (parr L hi, tr0 ++ seqZ lo (Z.to_nat (hi - lo))).
Proof.
  intros Hlo Hhi Hsrc. unfold copy_block.
  set (P := fun (i : Z) (s : list (option E) * list Z) => s = (parr L i, tr0 ++ seqZ lo (Z.to_nat (i - lo)))).
  match goal with |- for_range ?l ?h ?body ?s = _ =>
    destruct (for_range_inv P l h body s) as [s' [Ee Ps]] end.
  - lia.
  - unfold P. rewrite Z.sub_diag. cbn [Z.to_nat seqZ seq map]. rewrite app_nil_r. reflexivity.
  - intros i s Hi Ps. unfold P in Ps. subst s. destruct (Hsrc i Hi) as [Hr Hn].
    destruct (get_nth_error src (i - off) Hr) as [v [Eg En]]. rewrite Eg. cbn [bind].
    rewrite (parr_set L i v) by (try lia; rewrite <- Hn; exact En). cbn [bind].
    eexists. split; [reflexivity|]. unfold P. f_equal.
    replace (Z.to_nat (i + 1 - lo)) with (S (Z.to_nat (i - lo))) by lia. rewrite seqZ_S, app_assoc.
    do 2 f_equal. lia.
  - rewrite Ee. unfold P in Ps. rewrite Ps. reflexivity.
Qed.

Lemma serial_loop1 :
  for_range 0 N1 (fun i '(fa, tr) => v <- get a1 i ;; fa <- set fa i (Some v) ;; Ok (fa, tr ++ [i])) (parr L 0, [])
  = Ok (parr L N1, seqZ 0 (Z.to_nat N1)).
Proof.
  pose proof (len_nonneg a2) as P2. fold N2 in P2.
  set (P := fun (i : Z) (s : list (option E) * list Z) => s = (parr L i, seqZ 0 (Z.to_nat i))).
  match goal with |- for_range ?l ?h ?body ?s = _ =>
    destruct (for_range_inv P l h body s) as [s' [Ee Ps]] end.
  - unfold N1. apply len_nonneg.
  - reflexivity.
  - intros i s Hi Ps. unfold P in Ps. subst s.
    destruct (get_nth_error a1 i Hi) as [v [Eg En]]. rewrite Eg. cbn [bind].
    assert (Hn : nth_error L (Z.to_nat i) = Some v) by (rewrite nth_L_1 by lia; exact En).
    rewrite (parr_set L i v) by (try exact Hn; rewrite len_L; lia).
    cbn [bind]. eexists. split; [reflexivity|]. unfold P. f_equal.
    replace (Z.to_nat (i + 1)) with (S (Z.to_nat i)) by lia. rewrite seqZ_S. do 2 f_equal. lia.
  - rewrite Ee. unfold P in Ps. rewrite Ps. reflexivity.
Qed.

Lemma serial_loop2 :
  for_range 0 N2 (fun j '(fa, tr) => v <- get a2 j ;; fa <- set fa (j + N1) (Some v) ;; Ok (fa, tr ++ [j + N1]))
            (parr L N1, seqZ 0 (Z.to_nat N1))
  = Ok (parr L (N1 + N2), seqZ 0 (Z.to_nat (N1 + N2))).
Proof.
  pose proof (len_nonneg a1) as P1. fold N1 in P1.
  set (P := fun (j : Z) (s : list (option E) * list Z) => s = (parr L (N1 + j), seqZ 0 (Z.to_nat (N1 + j)))).
  match goal with |- for_range ?l ?h ?body ?s = _ =>
    destruct (for_range_inv P l h body s) as [s' [Ee Ps]] end.
  - unfold N2. apply len_nonneg.
  - unfold P. rewrite Z.add_0_r. reflexivity.
  - intros j s Hj Ps. unfold P in Ps. subst s.
    destruct (get_nth_error a2 j Hj) as [v [Eg En]]. rewrite Eg. cbn [bind].
    replace (j + N1) with (N1 + j) by lia.
    assert (Hn : nth_error L (Z.to_nat (N1 + j)) = Some v)
      by (rewrite nth_L_2 by lia; replace (N1 + j - N1) with j by lia; exact En).
    rewrite (parr_set L (N1 + j) v) by (try exact Hn; rewrite len_L; lia).
    cbn [bind]. eexists. split; [reflexivity|]. unfold P. replace (N1 + (j + 1)) with (N1 + j + 1) by lia. f_equal.
    replace (Z.to_nat (N1 + j + 1)) with (S (Z.to_nat (N1 + j))) by lia. rewrite seqZ_S. do 2 f_equal. lia.
  - rewrite Ee. unfold P in Ps. rewrite Ps. reflexivity.
Qed.

Definition good_tables (Nthread : Z) (hstart1 hstart2 : list Z) : Prop :=
  let Nt1 := concat_split Nthread N1 N2 in
  let Nt2 := concat_split2 Nthread Nt1 in
  good_hstart Nt1 hstart1 N1 /\ exists h2, good_hstart Nt2 h2 N2 /\ hstart2 = map (Z.add N1) h2.

Lemma hsv_map_add h2 Nt t : len h2 = Nt + 1 -> 0 <= t <= Nt -> hsv (map (Z.add N1) h2) t = N1 + hsv h2 t.
Proof.
  intros HL Ht. unfold hsv. rewrite (nth_indep _ 0 (N1 + 0)) by (rewrite map_length; unfold len in HL; lia).
  apply map_nth.
Qed.

Lemma concat_parallel Nthread hstart1 hstart2 :
  2 <= Nthread -> 1 <= N1 -> 1 <= N2 -> good_tables Nthread hstart1 hstart2 ->
  exists traces,
    for_range 0 Nthread (fun tid '(fa, trs) =>
        if tid <? concat_split Nthread N1 N2 then
          lo <- get hstart1 tid ;;
          hi <- get hstart1 (tid + 1) ;;
          '(fa, tr) <- copy_block E a1 0 lo hi (fa, []) ;;
          Ok (fa, trs ++ [tr])
        else
          lo <- get hstart2 (tid - concat_split Nthread N1 N2) ;;
          hi <- get hstart2 (tid + 1 - concat_split Nthread N1 N2) ;;
          '(fa, tr) <- copy_block E a2 N1 lo hi (fa, []) ;;
          Ok (fa, trs ++ [tr])) (parr L 0, [])
    = Ok (parr L (N1 + N2), traces) /\ concat traces = seqZ 0 (Z.to_nat (N1 + N2)) /\ len traces = Nthread.
Proof.
  intros Ht H1 H2 [G1 [h2 [G2 Eh]]].
  destruct (concat_split_bounds Nthread N1 N2 Ht H1 H2) as [B1 B2].
  set (Nt1 := concat_split Nthread N1 N2) in *. set (Nt2 := concat_split2 Nthread Nt1) in *.
  assert (ENt2 : Nt2 = Nthread - Nt1) by reflexivity.
  pose (cut := fun tid => if tid <? Nt1 then hsv hstart1 tid else N1 + hsv h2 (tid - Nt1)).
  set (P := fun (tid : Z) (s : list (option E) * list (list Z)) =>
              fst s = parr L (cut tid) /\ concat (snd s) = seqZ 0 (Z.to_nat (cut tid)) /\ len (snd s) = tid).
  pose proof G1 as [_ [L1 [G10 [G1N _]]]]. pose proof G2 as [_ [L2 [G20 [G2N _]]]].
  match goal with |- exists _, for_range ?l ?h ?body ?s = _ /\ _ =>
    destruct (for_range_inv P l h body s) as [s' [Ee Ps]] end.
  - lia.
  - unfold P, cut. cbn [fst snd]. replace (0 <? Nt1) with true by lia. rewrite G10. repeat split.
  - intros tid [fa trs] Hi [Pf [Pt Pl]]. cbn [fst snd] in Pf, Pt, Pl. subst fa.
    destruct (tid <? Nt1) eqn:Et.
    + assert (Htid : 0 <= tid < Nt1) by lia.
      rewrite (get_hsv _ _ _ tid G1) by lia. rewrite (get_hsv _ _ _ (tid + 1) G1) by lia. cbn [bind].
      pose proof (hsv_range _ _ _ G1 tid ltac:(lia)) as R1. pose proof (hsv_range _ _ _ G1 (tid + 1) ltac:(lia)) as R2.
      pose proof (hsv_mono _ _ _ G1 tid (tid + 1) ltac:(lia) ltac:(lia)) as Mo.
      assert (Ec : cut tid = hsv hstart1 tid) by (unfold cut; rewrite Et; reflexivity).
      assert (Ec' : cut (tid + 1) = hsv hstart1 (tid + 1)).
      { unfold cut. destruct (tid + 1 <? Nt1) eqn:Et'; [reflexivity|].
        assert (tid + 1 = Nt1) by lia. replace (tid + 1 - Nt1) with 0 by lia. rewrite G20. rewrite H, G1N. lia. }
      rewrite Ec. rewrite copy_block_ok; [| lia | rewrite len_L; lia |].
      * cbn [bind]. eexists. split; [reflexivity|]. unfold P. cbn [fst snd]. rewrite Ec'. split; [reflexivity|]. split.
        -- rewrite concat_app, Pt, Ec. cbn [concat app]. rewrite app_nil_r.
           replace (Z.to_nat (hsv hstart1 (tid + 1))) with (Z.to_nat (hsv hstart1 tid) + Z.to_nat (hsv hstart1 (tid + 1) - hsv hstart1 tid))%nat by lia.
           rewrite seqZ_app. do 2 f_equal. lia.
        -- rewrite len_app, Pl. reflexivity.
      * intros i Hi'. rewrite Z.sub_0_r. split; [fold N1; lia|]. symmetry. apply nth_L_1. lia.
    + assert (Htid : Nt1 <= tid < Nthread) by lia.
      rewrite Eh. rewrite (get_ok_nth _ _ 0) by (rewrite len_map; lia).
      rewrite (get_ok_nth _ _ 0) by (rewrite len_map; lia). cbn [bind].
      fold (hsv (map (Z.add N1) h2) (tid - Nt1)). fold (hsv (map (Z.add N1) h2) (tid + 1 - Nt1)).
      rewrite (hsv_map_add h2 Nt2) by lia. rewrite (hsv_map_add h2 Nt2) by lia.
      replace (tid + 1 - Nt1) with (tid - Nt1 + 1) by lia.
      pose proof (hsv_range _ _ _ G2 (tid - Nt1) ltac:(lia)) as R1.
      pose proof (hsv_range _ _ _ G2 (tid - Nt1 + 1) ltac:(lia)) as R2.
      pose proof (hsv_mono _ _ _ G2 (tid - Nt1) (tid - Nt1 + 1) ltac:(lia) ltac:(lia)) as Mo.
      assert (Ec : cut tid = N1 + hsv h2 (tid - Nt1)) by (unfold cut; rewrite Et; reflexivity).
      assert (Ec' : cut (tid + 1) = N1 + hsv h2 (tid - Nt1 + 1)).
      { unfold cut. replace (tid + 1 <? Nt1) with false by lia. replace (tid + 1 - Nt1) with (tid - Nt1 + 1) by lia. reflexivity. }
      rewrite Ec. rewrite copy_block_ok; [| lia | rewrite len_L; lia |].
      * cbn [bind]. eexists. split; [reflexivity|]. unfold P. cbn [fst snd]. rewrite Ec'. split; [reflexivity|]. split.
        -- rewrite concat_app, Pt, Ec. cbn [concat app]. rewrite app_nil_r.
           replace (Z.to_nat (N1 + hsv h2 (tid - Nt1 + 1)))
             with (Z.to_nat (N1 + hsv h2 (tid - Nt1)) + Z.to_nat (N1 + hsv h2 (tid - Nt1 + 1) - (N1 + hsv h2 (tid - Nt1))))%nat by lia.
           rewrite seqZ_app. do 2 f_equal. lia.
        -- rewrite len_app, Pl. reflexivity.
      * intros i Hi'. split; [fold N2; lia|]. symmetry. apply nth_L_2. lia.
  - destruct s' as [fa trs]. destruct Ps as [Pf [Pt Pl]]. cbn [fst snd] in Pf, Pt, Pl. exists trs.
    assert (Ec : cut Nthread = N1 + N2).
    { unfold cut. replace (Nthread <? Nt1) with false by lia. rewrite <- ENt2, G2N. reflexivity. }
    rewrite Ec in Pf, Pt. subst fa. split; [exact Ee|]. split; [exact Pt|exact Pl].
Qed.

Lemma concat_correct_lemma Nthread hstart1 hstart2 :
  1 <= Nthread ->
  (2 <= Nthread -> 1 <= len a1 -> 1 <= len a2 -> good_tables Nthread hstart1 hstart2) ->
  exists traces,
    fast_concatenate E a1 a2 Nthread hstart1 hstart2 = Ok (map Some (a1 ++ a2), traces) /\
    (1 <= len a1 -> 1 <= len a2 ->
       concat traces = seqZ 0 (Z.to_nat (len a1 + len a2)) /\ len traces = Nthread /\
       (2 <= Nthread -> 1 <= concat_split Nthread (len a1) (len a2) <= Nthread - 1)).
Proof.
  intros Ht Hg. unfold fast_concatenate. fold N1 N2.
  pose proof (len_nonneg a1) as P1. pose proof (len_nonneg a2) as P2. fold N1 in P1. fold N2 in P2.
  destruct (N1 =? 0) eqn:E1.
  { exists []. split; [|lia]. assert (Ea : a1 = []) by (apply len_0_nil; fold N1; lia).
    rewrite Ea. reflexivity. }
  destruct (N2 =? 0) eqn:E2.
  { exists []. split; [|lia]. assert (Ea : a2 = []) by (apply len_0_nil; fold N2; lia).
    rewrite Ea, app_nil_r. reflexivity. }
  assert (Hfa : repeat (@None E) (Z.to_nat (N1 + N2)) = parr L 0).
  { rewrite parr_0. f_equal. pose proof len_L as HL. unfold len in HL at 1. lia. }
  rewrite Hfa.
  assert (Hfull : parr L (N1 + N2) = map Some (a1 ++ a2)) by (rewrite <- len_L; apply parr_full).
  destruct (Nthread =? 1) eqn:E3.
  - rewrite serial_loop1. cbn [bind]. rewrite serial_loop2. cbn [bind]. eexists. split; [rewrite Hfull; reflexivity|].
    intros _ _. cbn [concat]. rewrite app_nil_r. split; [reflexivity|]. split; [unfold len; cbn; lia|lia].
  - destruct (concat_parallel Nthread hstart1 hstart2) as [traces [Ee [Ec El]]]; try lia; [apply Hg; lia|].
    exists traces. split; [rewrite Ee, Hfull; reflexivity|]. intros _ _. split; [exact Ec|]. split; [exact El|].
    intros _. apply concat_split_bounds; lia.
Qed.

End ConcatProofs.

(* ---- degenerate tables ------------------------------------------------------------------------------ *)
Lemma good_hstart_zeros Nthread : 1 <= Nthread -> good_hstart Nthread (repeat 0 (Z.to_nat (Nthread + 1))) 0.
Proof.
  intros H. unfold good_hstart, hsv. rewrite len_repeat. rewrite !nth_repeat.
  repeat split; try lia. intros t Ht. rewrite !nth_repeat. lia.
Qed.

Lemma two_pass_empty (A R : Type) (code : A -> Z) (fill : Z -> A -> R) Nthread hstart :
  good_hstart Nthread hstart 0 ->
  exists traces, two_pass A R code fill Nthread hstart [] = Ok ([], ([], [], []), traces) /\ concat traces = [].
Proof.
  intros G. exists (traces_spec A R code fill [] Nthread hstart). split.
  - exact (two_pass_correct A R code fill [] Nthread hstart G).
  - exact (concat_traces A R code fill [] Nthread hstart G).
Qed.

(* ---- _searchsorted_parallel ---------------------------------------------------------------------------- *)
Lemma searchsorted_parallel_lemma a b :
  searchsorted_parallel a b = Ok (map (fun v => Some (searchsorted a v)) b).
Proof.
  unfold searchsorted_parallel. set (Lr := map (searchsorted a) b).
  assert (HL : len Lr = len b) by apply len_map.
  set (P := fun (i : Z) (r : list (option Z)) => r = parr Lr i).
  match goal with |- for_range ?l ?h ?body ?s = _ =>
    destruct (for_range_inv P l h body s) as [s' [Ee Ps]] end.
  - apply len_nonneg.
  - unfold P. rewrite parr_0. f_equal. unfold len in *. unfold Lr. rewrite map_length. lia.
  - intros i r Hi Pr. unfold P in Pr. subst r. destruct (get_nth_error b i Hi) as [v [Eg En]]. rewrite Eg. cbn [bind].
    rewrite (parr_set Lr i (searchsorted a v)) by (try lia; unfold Lr; rewrite nth_error_map, En; reflexivity).
    eexists. split; reflexivity.
  - rewrite Ee. unfold P in Ps. rewrite Ps, <- HL, parr_full. unfold Lr. rewrite map_map. reflexivity.
Qed.

Lemma every_row_written_once_lemma : forall (A R : Type) (code : A -> Z) (fill : Z -> A -> R) Nthread hstart hosts,
  good_hstart Nthread hstart (len hosts) ->
  exists keep outs traces,
    two_pass A R code fill Nthread hstart hosts = Ok (keep, outs, traces) /\
    len (sel3 1 outs) = count A code 1 hosts /\ len (sel3 2 outs) = count A code 2 hosts /\
    len (sel3 3 outs) = count A code 3 hosts /\
    NoDup (map (ev_key R) (concat traces)) /\
    (forall T j, In (T, j) (map (ev_key R) (concat traces)) <-> 1 <= T <= 3 /\ 0 <= j < count A code T hosts) /\
    (forall T j v, In (T, j, v) (concat traces) -> nth_error (rows A R code fill T hosts) (Z.to_nat j) = Some v).
Proof.
  intros A R code fill Nthread hstart hosts G. do 3 eexists.
  split; [exact (two_pass_correct A R code fill hosts Nthread hstart G)|].
  rewrite (concat_traces A R code fill hosts Nthread hstart G). unfold outs_spec. cbn [sel3 Z.eqb Pos.eqb].
  rewrite !len_map, !len_rows.
  split; [reflexivity|]. split; [reflexivity|]. split; [reflexivity|].
  split; [apply evs_keys_nodup|]. split; [intros T j; apply evs_keys_cover|]. apply evs_value.
Qed.
