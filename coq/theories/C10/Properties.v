(* C10/Properties.v — The galaxy catalogue is identical for every thread count.
   Statements only.  The two-pass model is Abacus.C09.Model.two_pass (its per-host functions are the chains / fills
   regenerated from GRAND_HOD.py, abstract here: the theorems hold for every [code] and [fill]); the thread split of
   fast_concatenate is Gen.concat_split, regenerated on every run. *)
From Coq Require Import ZArith List Bool.
From Abacus.Common Require Import Arr Par.
From Abacus.C09 Require Import Model Lib TwoPass.
From Abacus.C10 Require Import Gen Model Proofs Linspace.
Import ListNotations.
Local Open Scope Z_scope.

(* For every thread count >= 1 and EVERY monotone block table 0 -> H (np.rint(np.linspace(..)) is one; its rounding is
   irrelevant), one kernel call returns: keep codes = the chain applied to every host; for each tracer T the table
   map fill (filter (keep = T) hosts) in host order, every cell written (no None), no access out of bounds (Ok) —
   an expression in which neither Nthread nor hstart occurs. *)
Theorem two_pass_is_filter : forall (A R : Type) (code : A -> Z) (fill : Z -> A -> R) Nthread hstart hosts,
  good_hstart Nthread hstart (len hosts) ->
  exists traces,
    two_pass A R code fill Nthread hstart hosts =
    Ok (map Some (map code hosts),
        (map Some (map (fill 1) (filter (fun h => code h =? 1) hosts)),
         map Some (map (fill 2) (filter (fun h => code h =? 2) hosts)),
         map Some (map (fill 3) (filter (fun h => code h =? 3) hosts))),
        traces).
Proof. intros A R code fill Nthread hstart hosts G. eexists. exact (two_pass_correct A R code fill hosts Nthread hstart G). Qed.
Print Assumptions two_pass_is_filter.

(* ... hence any two thread counts / block tables give the same keep codes and tables. *)
Theorem thread_count_irrelevant : forall (A R : Type) (code : A -> Z) (fill : Z -> A -> R) hosts n1 h1 n2 h2,
  good_hstart n1 h1 (len hosts) -> good_hstart n2 h2 (len hosts) ->
  exists k o t1 t2, two_pass A R code fill n1 h1 hosts = Ok (k, o, t1) /\ two_pass A R code fill n2 h2 hosts = Ok (k, o, t2).
Proof.
  intros A R code fill hosts n1 h1 n2 h2 G1 G2. do 4 eexists. split.
  - exact (two_pass_correct A R code fill hosts n1 h1 G1).
  - exact (two_pass_correct A R code fill hosts n2 h2 G2).
Qed.
Print Assumptions thread_count_irrelevant.

(* Count pass = fill pass: the writes of the fill pass (all threads together) are exactly one write to every cell
   (T, j), 1 <= T <= 3, 0 <= j < N_T, where N_T = #{hosts with keep = T} is the length the count pass allocated;
   no cell is written twice, none is left unwritten, and the written value is row j of the filter. *)
Theorem every_row_written_once : forall (A R : Type) (code : A -> Z) (fill : Z -> A -> R) Nthread hstart hosts,
  good_hstart Nthread hstart (len hosts) ->
  exists keep outs traces,
    two_pass A R code fill Nthread hstart hosts = Ok (keep, outs, traces) /\
    len (sel3 1 outs) = count A code 1 hosts /\ len (sel3 2 outs) = count A code 2 hosts /\
    len (sel3 3 outs) = count A code 3 hosts /\
    NoDup (map (ev_key R) (concat traces)) /\
    (forall T j, In (T, j) (map (ev_key R) (concat traces)) <-> 1 <= T <= 3 /\ 0 <= j < count A code T hosts) /\
    (forall T j v, In (T, j, v) (concat traces) -> nth_error (rows A R code fill T hosts) (Z.to_nat j) = Some v).
Proof. exact every_row_written_once_lemma. Qed.
Print Assumptions every_row_written_once.

(* Every interleaving: run the fill-pass threads (their writes as micro-operations of Common/Par.v) under ANY schedule
   that lets each thread finish; the shared store then holds row j of the filter in cell (T, j) and is untouched
   elsewhere — whatever the schedule, the thread count and the block table. *)
Theorem any_interleaving : forall (A R : Type) (code : A -> Z) (fill : Z -> A -> R) hosts Nthread hstart sch m0 d,
  good_hstart Nthread hstart (len hosts) ->
  let threads := fill_threads R (traces_spec A R code fill hosts Nthread hstart) in
  (forall t, (t < length threads)%nat -> (length (nth t threads []) <= count_occ Nat.eq_dec sch t)%nat) ->
  (forall T j v, 1 <= T <= 3 -> 0 <= j -> nth_error (rows A R code fill T hosts) (Z.to_nat j) = Some v ->
                 fst (run sch (init threads m0 d)) (enc T j) = Some v) /\
  (forall x, (forall T j, 1 <= T <= 3 -> 0 <= j < count A code T hosts -> x <> enc T j) ->
             fst (run sch (init threads m0 d)) x = m0 x).
Proof.
  intros A R code fill hosts Nthread hstart sch m0 d G threads.
  exact (any_interleaving_lemma A R code fill hosts Nthread hstart G sch m0 d).
Qed.
Print Assumptions any_interleaving.

(* fast_concatenate: for all lengths, every thread count >= 1 and all monotone block tables the result is a1 ++ a2 with
   every cell written (exactly once: the concatenated traces are 0,1,...,N1+N2-1) and no access out of bounds; the
   regenerated split gives both arrays at least one thread (1 <= Nthread1 <= Nthread-1) whenever the parallel path
   is taken.  An empty operand returns the other array; Nthread = 1 takes the serial copy. *)
Theorem concat_correct : forall (E : Type) (a1 a2 : list E) Nthread hstart1 hstart2,
  1 <= Nthread ->
  (2 <= Nthread -> 1 <= len a1 -> 1 <= len a2 -> good_tables E a1 a2 Nthread hstart1 hstart2) ->
  exists traces,
    fast_concatenate E a1 a2 Nthread hstart1 hstart2 = Ok (map Some (a1 ++ a2), traces) /\
    (1 <= len a1 -> 1 <= len a2 ->
       concat traces = seqZ 0 (Z.to_nat (len a1 + len a2)) /\ len traces = Nthread /\
       (2 <= Nthread -> 1 <= concat_split Nthread (len a1) (len a2) <= Nthread - 1)).
Proof. exact concat_correct_lemma. Qed.
Print Assumptions concat_correct.

(* the split alone, and that both linspace tables have at least one block *)
Theorem concat_split_in_range : forall Nthread N1 N2, 2 <= Nthread -> 1 <= N1 -> 1 <= N2 ->
  1 <= concat_split Nthread N1 N2 <= Nthread - 1 /\ 1 <= concat_split2 Nthread (concat_split Nthread N1 N2) <= Nthread - 1.
Proof. exact concat_split_bounds. Qed.
Print Assumptions concat_split_in_range.

(* empty host table: every thread count works (the all-zero table is what linspace(0,0,n+1) gives) and nothing is written *)
Theorem empty_hosts : forall (A R : Type) (code : A -> Z) (fill : Z -> A -> R) Nthread,
  1 <= Nthread ->
  good_hstart Nthread (repeat 0 (Z.to_nat (Nthread + 1))) 0 /\
  forall hstart, good_hstart Nthread hstart 0 ->
  exists traces, two_pass A R code fill Nthread hstart [] = Ok ([], ([], [], []), traces) /\ concat traces = [].
Proof.
  intros A R code fill Nthread H. split; [apply good_hstart_zeros; exact H|]. intros hstart G.
  exact (two_pass_empty A R code fill Nthread hstart G).
Qed.
Print Assumptions empty_hosts.

(* more threads than hosts needs nothing special: good_hstart allows empty blocks (Examples.more_threads_than_hosts_ex) *)

(* _searchsorted_parallel: element i of the result is searchsorted(a, b[i]); each cell written once, in bounds *)
Theorem searchsorted_parallel_correct : forall a b,
  searchsorted_parallel a b = Ok (map (fun v => Some (searchsorted a v)) b).
Proof. exact searchsorted_parallel_lemma. Qed.
Print Assumptions searchsorted_parallel_correct.

(* the block table the kernels build, np.rint(np.linspace(0, H, Nthread + 1)), in exact arithmetic (entry t =
   round-half-even(t H / Nthread)) meets the block-table hypothesis of the theorems above for EVERY table length H >= 0 and
   EVERY thread count >= 1 — more threads than hosts and the empty table included *)
Theorem rint_linspace_blocks_good : forall H Nthread, 0 <= H -> 1 <= Nthread ->
  good_hstart Nthread (rint_linspace H Nthread) H.
Proof. exact rint_linspace_good_lemma. Qed.
Print Assumptions rint_linspace_blocks_good.

(* ... hence, with that table, one kernel call is the filter for every thread count: no hypothesis left on the blocks *)
Theorem two_pass_with_linspace_blocks : forall (A R : Type) (code : A -> Z) (fill : Z -> A -> R) Nthread hosts,
  1 <= Nthread ->
  exists traces,
    two_pass A R code fill Nthread (rint_linspace (len hosts) Nthread) hosts =
    Ok (map Some (map code hosts),
        (map Some (map (fill 1) (filter (fun h => code h =? 1) hosts)),
         map Some (map (fill 2) (filter (fun h => code h =? 2) hosts)),
         map Some (map (fill 3) (filter (fun h => code h =? 3) hosts))),
        traces).
Proof.
  intros A R code fill Nthread hosts Hn.
  apply two_pass_is_filter. apply rint_linspace_good_lemma; [apply len_nonneg|exact Hn].
Qed.
Print Assumptions two_pass_with_linspace_blocks.
