(* C10/Examples.v — non-vacuity of the hypotheses of C10/Properties.v and regression values. *)
From Coq Require Import ZArith List Bool Lia.
From Abacus.Common Require Import Arr Corr Par.
From Abacus.C09 Require Import Model Lib TwoPass.
From Abacus.C10 Require Import Gen Model Proofs Run.
Import ListNotations.
Local Open Scope Z_scope.

Lemma good_hstartb_sound n h H : good_hstartb n h H = true -> good_hstart n h H.
Proof.
  unfold good_hstartb, good_hstart, hsv. intros Hb.
  apply andb_true_iff in Hb. destruct Hb as [Hb H5]. apply andb_true_iff in Hb. destruct Hb as [Hb H4].
  apply andb_true_iff in Hb. destruct Hb as [Hb H3]. apply andb_true_iff in Hb. destruct Hb as [H1 H2].
  split; [lia|]. split; [lia|]. split; [cbn [Z.to_nat]; lia|]. split; [lia|].
  intros t Ht.
  assert (M : forall l k, monotone l = true -> (S k < length l)%nat -> nth k l 0 <= nth (S k) l 0).
  { induction l as [|a l IH]; intros k Hm Hk; [cbn in Hk; lia|]. destruct l as [|b l]; [cbn in Hk; lia|].
    cbn [monotone] in Hm. apply andb_true_iff in Hm. destruct Hm as [Hab Hm]. destruct k as [|k]; [cbn; lia|].
    cbn [nth]. apply (IH k Hm). cbn [length] in *. lia. }
  replace (Z.to_nat (t + 1)) with (S (Z.to_nat t)) by lia. apply M; [assumption|]. unfold len in *. lia.
Qed.

(* np.rint(np.linspace(0, 5, 4)); more threads than hosts (2 hosts, 4 threads); the empty table *)
Example good_hstart_ex : good_hstart 3 [0; 2; 3; 5] 5.
Proof. apply good_hstartb_sound. reflexivity. Qed.
Example more_threads_than_hosts_ex : good_hstart 4 [0; 0; 1; 2; 2] 2.
Proof. apply good_hstartb_sound. reflexivity. Qed.
Example empty_hosts_ex : good_hstart 16 (repeat 0 17) 0.
Proof. apply good_hstartb_sound. reflexivity. Qed.

(* tables of fast_concatenate for N1 = 5, N2 = 3, 4 threads: split 2 + 2 *)
Example split_ex : concat_split 4 5 3 = 2 /\ concat_split 16 1 1000 = 1 /\ concat_split 16 1000 1 = 15 /\ concat_split 2 7 7 = 1.
Proof. repeat split; vm_compute; reflexivity. Qed.

Example good_tables_ex : good_tables Z [10; 11; 12; 13; 14] [20; 21; 22] 4 [0; 2; 5] [5; 7; 8].
Proof.
  unfold good_tables. cbv zeta. replace (concat_split 4 (len [10; 11; 12; 13; 14]) (len [20; 21; 22])) with 2 by (vm_compute; reflexivity).
  split; [apply good_hstartb_sound; reflexivity|]. exists [0; 2; 3]. split; [apply good_hstartb_sound; reflexivity|reflexivity].
Qed.

Example concat_ex :
  run_concat ([10; 11; 12; 13; 14], [20; 21; 22], 4, [0; 2; 5], [5; 7; 8])
  = VL [VL [VZ 10; VZ 11; VZ 12; VZ 13; VZ 14; VZ 20; VZ 21; VZ 22]; VZ 8].
Proof. vm_compute. reflexivity. Qed.

(* a schedule that lets every thread finish: two fill threads with 2 and 1 writes, interleaved *)
Example schedule_ex :
  let threads := fill_threads Z [[(1, 0, 100); (2, 0, 200)]; [(1, 1, 101)]] in
  let sch := [1; 0; 0]%nat in
  (forall t, (t < length threads)%nat -> (length (nth t threads []) <= count_occ Nat.eq_dec sch t)%nat) /\
  fst (run sch (init threads (fun _ => None) None)) (enc 1 1) = Some 101.
Proof.
  cbv zeta. split; [|vm_compute; reflexivity]. intros t Ht. cbn [length fill_threads map] in Ht.
  destruct t as [|[|t]]; [cbn; lia|cbn; lia|lia].
Qed.

Example searchsorted_ex : searchsorted_parallel [3; 5; 5; 9] [5; 1; 10] = Ok [Some 1; Some 0; Some 4].
Proof. vm_compute. reflexivity. Qed.
