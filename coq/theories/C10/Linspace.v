(* C10/Linspace.v — the block tables the kernels build, `np.rint(np.linspace(0, H, Nthread + 1)).astype(np.int64)`, in exact
   arithmetic: entry t is round-half-even(t * H / Nthread).  They satisfy the hypothesis good_hstart of the two-pass theorems
   for EVERY table length H >= 0 and thread count >= 1 (more threads than hosts and the empty table included): they start at
   0, end at H exactly, and never decrease.  (The floating-point linspace differs from t*H/Nthread by at most an ulp and pins
   its last entry to H; that the real expression meets the same three facts is checked numerically by the harness.) *)
From Coq Require Import ZArith QArith Qround List Lia Lqa.
From Abacus.Common Require Import Arr Num.
From Abacus.C09 Require Import Lib TwoPass.
Import ListNotations.
Local Open Scope Z_scope.

Lemma rhe_comp p p' : (p == p')%Q -> round_half_even p = round_half_even p'.
Proof.
  intros E. unfold round_half_even. rewrite (Qfloor_comp _ _ E). unfold Qltb.
  assert (E2 : (p - inject_Z (Qfloor p') == p' - inject_Z (Qfloor p'))%Q) by (rewrite E; reflexivity).
  rewrite !(Qleb_comp _ _ (Qeq_refl (1 # 2)) _ _ E2). rewrite !(Qleb_comp _ _ E2 _ _ (Qeq_refl (1 # 2))). reflexivity.
Qed.

(* rounding to nearest (ties to even) never reverses an order *)
Lemma rhe_mono p q : (p <= q)%Q -> round_half_even p <= round_half_even q.
Proof.
  intros H. destruct (Z_le_gt_dec (round_half_even p) (round_half_even q)) as [L|G]; [exact L|exfalso].
  destruct (round_half_even_bound p) as [P1 P2]. destruct (round_half_even_bound q) as [Q1 Q2].
  assert (G' : (inject_Z (round_half_even q) + 1 <= inject_Z (round_half_even p))%Q).
  { assert (HZ : round_half_even q + 1 <= round_half_even p). { lia. }
    rewrite Zle_Qle, inject_Z_plus in HZ. exact HZ. }
  assert (E : (p == q)%Q) by lra.
  pose proof (rhe_comp p q E). lia.
Qed.

Definition rint_linspace (H n : Z) : list Z :=
  map (fun t => round_half_even (inject_Z t * inject_Z H / inject_Z n)) (seqZ 0 (S (Z.to_nat n))).

Lemma hsv_rint H n t : 1 <= n -> 0 <= t <= n ->
  hsv (rint_linspace H n) t = round_half_even (inject_Z t * inject_Z H / inject_Z n).
Proof.
  intros Hn Ht. unfold hsv, rint_linspace.
  apply nth_error_nth. rewrite nth_error_map_seqZ by lia.
  replace (0 + Z.of_nat (Z.to_nat t)) with t by lia. reflexivity.
Qed.

Lemma rint_linspace_good_lemma H n : 0 <= H -> 1 <= n -> good_hstart n (rint_linspace H n) H.
Proof.
  intros HH Hn.
  assert (Qn : (0 < inject_Z n)%Q) by (change 0%Q with (inject_Z 0); rewrite <- Zlt_Qlt; lia).
  assert (QH : (0 <= inject_Z H)%Q) by (change 0%Q with (inject_Z 0); rewrite <- Zle_Qle; lia).
  unfold good_hstart. split; [exact Hn|]. split.
  { unfold rint_linspace, len. rewrite map_length. unfold seqZ. rewrite map_length, seq_length. lia. }
  split.
  { rewrite hsv_rint by lia. rewrite (rhe_comp _ (inject_Z 0)); [apply round_half_even_inject|].
    change (inject_Z 0) with 0%Q. field. lra. }
  split.
  { rewrite hsv_rint by lia. rewrite (rhe_comp _ (inject_Z H)); [apply round_half_even_inject|]. field. lra. }
  intros t Ht. rewrite !hsv_rint by lia. apply rhe_mono.
  rewrite inject_Z_plus. change (inject_Z 1) with 1%Q.
  apply Qle_shift_div_l; [exact Qn|].
  assert (Qt : (0 <= inject_Z t)%Q) by (change 0%Q with (inject_Z 0); rewrite <- Zle_Qle; lia).
  setoid_replace (inject_Z t * inject_Z H / inject_Z n * inject_Z n)%Q with (inject_Z t * inject_Z H)%Q by (field; lra).
  nra.
Qed.
