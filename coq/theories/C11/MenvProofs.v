From Coq Require Import ZArith QArith List Lia.
From Abacus.Common Require Import Arr.
From Abacus.C19 Require Import Spec Gen Proofs.
From Abacus.C11 Require Import MenvModel.
Import ListNotations.
Local Open Scope Z_scope.

Lemma gather_ok masses l :
  (forall i, In i l -> 0 <= i < len masses) ->
  gather masses l = Ok (map (fun i => nth (Z.to_nat i) masses 0%Q) l).
Proof.
  induction l as [|i t IH]; intros H; cbn [gather map]; [reflexivity|].
  rewrite (get_ok_nth masses i 0%Q) by (apply H; left; reflexivity). cbn [bind].
  rewrite IH by (intros j Hj; apply H; right; exact Hj). reflexivity.
Qed.

Lemma len_concat (A : list (list Z)) : len (concat A) = zsum (map len A).
Proof. induction A as [|x t IH]; cbn [concat map zsum]; [reflexivity|]. rewrite len_app, IH. reflexivity. Qed.

Lemma zsum_lens_nonneg (A : list (list Z)) : 0 <= zsum (map len A).
Proof. rewrite <- len_concat. apply len_nonneg. Qed.

Lemma slice_concat (A : list (list Z)) x B :
  slice (concat (A ++ x :: B)) (zsum (map len A)) (zsum (map len (A ++ [x]))) = x.
Proof.
  rewrite map_app, zsum_app. cbn [map zsum]. rewrite Z.add_0_r.
  rewrite concat_app. cbn [concat]. rewrite <- len_concat.
  unfold slice. rewrite !len_app.
  pose proof (len_nonneg (concat A)) as H1. pose proof (len_nonneg x) as H2. pose proof (len_nonneg (concat B)) as H3.
  destruct (len (concat A) <? 0) eqn:E1; [apply Z.ltb_lt in E1; lia|].
  destruct (len (concat A) + len x <? 0) eqn:E2; [apply Z.ltb_lt in E2; lia|].
  replace (Z.max 0 (Z.min (len (concat A) + (len x + len (concat B))) (len (concat A)))) with (len (concat A)) by lia.
  replace (Z.max 0 (Z.min (len (concat A) + (len x + len (concat B))) (len (concat A) + len x))) with (len (concat A) + len x) by lia.
  replace (len (concat A) + len x - len (concat A)) with (len x) by lia.
  unfold len. rewrite !Nat2Z.id.
  rewrite skipn_app, skipn_all, Nat.sub_diag. cbn [skipn app].
  rewrite firstn_app, firstn_all, Nat.sub_diag. cbn [firstn]. apply app_nil_r.
Qed.

Lemma upd_mid (outA : list Q) v outB (f : Q -> Q) :
  upd (outA ++ v :: outB) (len outA) f = Ok (outA ++ f v :: outB).
Proof.
  unfold upd.
  assert (R : 0 <= len outA < len (outA ++ v :: outB)).
  { rewrite len_app, len_cons. pose proof (len_nonneg outA). pose proof (len_nonneg outB). lia. }
  rewrite (get_ok_nth _ _ 0%Q R). cbn [bind]. rewrite set_ok by exact R.
  unfold len. rewrite Nat2Z.id.
  rewrite app_nth2 by lia. rewrite Nat.sub_diag. cbn [nth].
  rewrite set_nth_app_r by lia. rewrite Nat.sub_diag. reflexivity.
Qed.

Lemma starts_nth (A : list (list Z)) B :
  get (prefix_sums 0 (map len (A ++ B))) (len A) = Ok (zsum (map len A)).
Proof.
  rewrite (get_ok_nth _ _ 0).
  - unfold len at 1. rewrite Nat2Z.id. rewrite prefix_sums_nth by (rewrite map_length, app_length; lia).
    rewrite map_app, firstn_app, map_length, Nat.sub_diag, firstn_O, app_nil_r.
    assert (E : firstn (length A) (map len A) = map len A) by (rewrite <- (map_length len A); apply firstn_all).
    rewrite E, Z.add_0_l. reflexivity.
  - unfold len. rewrite prefix_sums_length, map_length, app_length. lia.
Qed.

Lemma starts_nth_succ (A : list (list Z)) x B :
  get (prefix_sums 0 (map len (A ++ x :: B))) (len A + 1) = Ok (zsum (map len (A ++ [x]))).
Proof.
  replace (len A + 1) with (len (A ++ [x])) by (rewrite len_app, len_cons, len_nil; lia).
  replace (A ++ x :: B) with ((A ++ [x]) ++ B) by (rewrite <- app_assoc; reflexivity).
  apply starts_nth.
Qed.

Lemma core_from (masses : list Q) sign : forall B A outA outB,
  length outA = length A -> length outB = length B ->
  valid_lists masses (A ++ B) ->
  for_loop (length B) (len A)
    (msum_body masses (concat (A ++ B)) (prefix_sums 0 (map len (A ++ B))) sign) (outA ++ outB)
  = Ok (outA ++ msum_spec outB masses B sign).
Proof.
  induction B as [|x B IH]; intros A outA outB HA HB HV.
  - destruct outB; [|discriminate]. reflexivity.
  - destruct outB as [|v outB]; [discriminate|]. cbn [length for_loop].
    unfold msum_body at 1.
    rewrite starts_nth. cbn [bind].
    rewrite starts_nth_succ. cbn [bind].
    rewrite slice_concat.
    rewrite gather_ok by (intros i Hi; apply (HV x i); [apply in_or_app; right; left; reflexivity|exact Hi]).
    cbn [bind].
    replace (len A) with (len outA) at 1 by (unfold len; rewrite HA; reflexivity).
    rewrite upd_mid. cbn [bind].
    replace (len A + 1) with (len (A ++ [x])) by (rewrite len_app, len_cons, len_nil; lia).
    replace (A ++ x :: B) with ((A ++ [x]) ++ B) by (rewrite <- app_assoc; reflexivity).
    specialize (IH (A ++ [x]) (outA ++ [(v + sign * qsum (map (fun i => nth (Z.to_nat i) masses 0%Q) x))%Q]) outB).
    replace ((outA ++ [(v + sign * qsum (map (fun i => nth (Z.to_nat i) masses 0%Q) x))%Q]) ++ outB)
      with (outA ++ (v + sign * qsum (map (fun i => nth (Z.to_nat i) masses 0%Q) x))%Q :: outB) in IH
      by (rewrite <- app_assoc; reflexivity).
    rewrite IH.
    + rewrite <- app_assoc. reflexivity.
    + rewrite !app_length, HA. reflexivity.
    + cbn in HB. lia.
    + rewrite <- app_assoc. exact HV.
Qed.

Lemma msum_core_correct_lemma out masses lists sign :
  len out = len lists -> valid_lists masses lists ->
  msum_core out masses (concat lists) (prefix_sums 0 (map len lists)) sign = Ok (msum_spec out masses lists sign).
Proof.
  intros HL HV. unfold msum_core, for_range.
  replace (Z.to_nat (len (prefix_sums 0 (map len lists)) - 1 - 0)) with (length lists)
    by (unfold len; rewrite prefix_sums_length, map_length; lia).
  apply (core_from masses sign lists [] [] out); [reflexivity| |exact HV].
  unfold len in HL. lia.
Qed.

Lemma concat_to_arr_lemma lists :
  lists <> [] ->
  concat_to_arr lists = Ok (concat lists, prefix_sums 0 (map len lists)).
Proof.
  intros Hne. unfold concat_to_arr. destruct lists as [|l0 lt] eqn:El; [contradiction|]. rewrite <- El.
  rewrite cumsum_correct_lemma.
  - cbn [bind]. unfold spec_total. rewrite <- len_concat, Z.add_0_l, Z.eqb_refl.
    unfold spec_out, select. reflexivity.
  - unfold expected_len, len. rewrite repeat_length, map_length. cbn [b2z]. lia.
Qed.

Lemma msum_batch_correct_lemma out masses lists sign :
  lists <> [] -> len out = len lists -> valid_lists masses lists ->
  msum_batch out masses lists sign = Ok (msum_spec out masses lists sign).
Proof.
  intros Hne HL HV. unfold msum_batch. rewrite concat_to_arr_lemma by exact Hne. cbn [bind].
  apply msum_core_correct_lemma; assumption.
Qed.

Lemma combine_app' {X Y} (a1 a2 : list X) (b1 b2 : list Y) :
  length a1 = length b1 -> combine (a1 ++ a2) (b1 ++ b2) = combine a1 b1 ++ combine a2 b2.
Proof.
  revert b1; induction a1 as [|x t IH]; intros [|y u] H; cbn in *; try discriminate; [reflexivity|].
  rewrite IH by lia. reflexivity.
Qed.

Lemma msum_spec_app o1 o2 masses l1 l2 sign :
  length o1 = length l1 ->
  msum_spec (o1 ++ o2) masses (l1 ++ l2) sign = msum_spec o1 masses l1 sign ++ msum_spec o2 masses l2 sign.
Proof.
  intros H. unfold msum_spec. rewrite combine_app' by exact H. apply map_app.
Qed.

Lemma valid_firstn masses n lists : valid_lists masses lists -> valid_lists masses (firstn n lists).
Proof.
  intros H l i Hl Hi. apply (H l i); [|exact Hi]. rewrite <- (firstn_skipn n lists). apply in_or_app; left; exact Hl.
Qed.

Lemma valid_skipn masses n lists : valid_lists masses lists -> valid_lists masses (skipn n lists).
Proof.
  intros H l i Hl Hi. apply (H l i); [|exact Hi]. rewrite <- (firstn_skipn n lists). apply in_or_app; right; exact Hl.
Qed.

Lemma msum_in_batches_correct_lemma : forall fuel bs out masses lists sign,
  (0 < bs)%nat -> length out = length lists -> valid_lists masses lists -> (length out <= fuel)%nat ->
  msum_in_batches fuel bs out masses lists sign = Ok (msum_spec out masses lists sign).
Proof.
  induction fuel as [|f IH]; intros bs out masses lists sign Hbs HL HV Hf.
  - destruct out; [|cbn in Hf; lia]. destruct lists; [|discriminate]. reflexivity.
  - destruct out as [|v out'].
    + destruct lists; [|discriminate]. reflexivity.
    + cbn [msum_in_batches]. remember (v :: out') as o eqn:Eo.
      rewrite msum_batch_correct_lemma.
      * cbn [bind]. rewrite IH.
        -- cbn [bind]. rewrite <- msum_spec_app by (rewrite !firstn_length, HL; reflexivity).
           rewrite !firstn_skipn. reflexivity.
        -- exact Hbs.
        -- rewrite !skipn_length, HL. reflexivity.
        -- apply valid_skipn; exact HV.
        -- rewrite skipn_length. subst o. cbn [length] in *. lia.
      * destruct lists as [|l0 lt]; [subst o; discriminate|]. destruct bs as [|b]; [lia|]. cbn [firstn]. discriminate.
      * unfold len. rewrite !firstn_length, HL. reflexivity.
      * apply valid_firstn; exact HV.
Qed.
