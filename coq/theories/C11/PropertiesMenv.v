(* C11/PropertiesMenv.v — the mass-environment kernels of abacusnbody/hod/menv.py (model: C11/MenvModel.v, tied to the code
   by the correspondence run of harness/c11.py on the compiled msum_core / concat_to_arr / msum_in_batches and by their source
   fingerprints).  Nothing but statements closed by `exact` and their assumptions.

   `= Ok _` means: no read or write outside an array (Common/Arr.v evaluates such an access to Oob). *)
From Coq Require Import ZArith QArith List.
From Abacus.Common Require Import Arr.
From Abacus.C19 Require Import Spec Gen.
From Abacus.C11 Require Import MenvModel MenvProofs.
Import ListNotations.
Local Open Scope Z_scope.

(* The offsets are the REGENERATED cumulative-sum kernel (C19) applied to the list lengths: for every list of neighbour lists
   (empty lists included; at least one list — the code cannot be called with none, see concat_to_arr_rejects_no_list) the call is
   accepted, the offsets are the prefix sums starting at 0 (one more than there are lists) and the flat array is the concatenation. *)
Theorem concat_to_arr_correct : forall lists,
  lists <> [] ->
  concat_to_arr lists = Ok (concat lists, prefix_sums 0 (map len lists)).
Proof. exact concat_to_arr_lemma. Qed.
Print Assumptions concat_to_arr_correct.

(* The kernel on offsets and a flat array built that way: for every number of centres (0 included), every neighbour lists whose
   entries index the mass array, every sign — no access is out of range, centre p receives sign * (sum of the masses of ITS list)
   and nothing else changes.  (Each iteration writes out[p] only: the prange iterations are independent.) *)
Theorem msum_core_correct : forall out masses lists sign,
  len out = len lists -> valid_lists masses lists ->
  msum_core out masses (concat lists) (prefix_sums 0 (map len lists)) sign = Ok (msum_spec out masses lists sign).
Proof. exact msum_core_correct_lemma. Qed.
Print Assumptions msum_core_correct.

Theorem concat_to_arr_rejects_no_list : concat_to_arr [] = Raise ValueError.
Proof. reflexivity. Qed.
Print Assumptions concat_to_arr_rejects_no_list.

Theorem msum_batch_correct : forall out masses lists sign,
  lists <> [] -> len out = len lists -> valid_lists masses lists ->
  msum_batch out masses lists sign = Ok (msum_spec out masses lists sign).
Proof. exact msum_batch_correct_lemma. Qed.
Print Assumptions msum_batch_correct.

(* Batching is invisible: for every number of centres (none included: no batch is made) and every batch size >= 1 (smaller than,
   equal to, larger than, dividing or not dividing the number of centres) the batched computation is in bounds and equals the unbatched specification. *)
Theorem msum_in_batches_correct : forall fuel bs out masses lists sign,
  (0 < bs)%nat -> length out = length lists -> valid_lists masses lists -> (length out <= fuel)%nat ->
  msum_in_batches fuel bs out masses lists sign = Ok (msum_spec out masses lists sign).
Proof. exact msum_in_batches_correct_lemma. Qed.
Print Assumptions msum_in_batches_correct.
