(* C11/Interp.v — memory safety of the GENERATED model of power_spectrum.linear_interp (C11/Gen.v).

   The kernel documents that x is equidistant and increasing.  Floating-point grids are equidistant only up to rounding,
   so memory safety must not rest on exact equidistance: it is proved from  len x >= 2, len y = len x, x[0] < x[1]  alone,
   for every query point xd. *)
From Coq Require Import ZArith QArith Qround Lia Lqa List.
From Abacus.Common Require Import Arr Num.
From Abacus.C11 Require Import Gen.
Import ListNotations.
Local Open Scope Z_scope.

Lemma Qfloor_nonneg q : (0 <= q)%Q -> 0 <= Qfloor q.
Proof.
  intros H. destruct (Z_lt_ge_dec (Qfloor q) 0) as [Hneg|]; [|lia]. exfalso.
  pose proof (Qlt_floor q) as Hlt.
  assert (Hle : (inject_Z (Qfloor q + 1) <= inject_Z 0)%Q) by (rewrite <- Zle_Qle; lia).
  change (inject_Z 0) with 0%Q in Hle.
  lra.
Qed.

Lemma Qtrunc_nonneg q : (0 <= q)%Q -> 0 <= Qtrunc q.
Proof.
  intros H. unfold Qtrunc. destruct (Qle_bool 0 q) eqn:E; [apply Qfloor_nonneg; exact H|].
  exfalso. apply Qle_bool_iff in H. congruence.
Qed.

Lemma Qdiv_pos a b : (0 < a)%Q -> (0 < b)%Q -> (0 <= a / b)%Q.
Proof.
  intros Ha Hb. apply Qlt_le_weak. apply Qlt_shift_div_l; [exact Hb|]. lra.
Qed.

Lemma Qle_bool_false a b : Qle_bool a b = false -> (b < a)%Q.
Proof.
  intros H. apply Qnot_le_lt. intros Hle. apply Qle_bool_iff in Hle. congruence.
Qed.

Lemma linear_interp_in_bounds_lemma xd x y :
  2 <= len x -> len y = len x ->
  (forall a b, get x 0 = Ok a -> get x 1 = Ok b -> (a < b)%Q) ->
  exists v, linear_interp xd x y = Ok v.
Proof.
  intros Hx Hy Hinc. unfold linear_interp.
  rewrite (get_ok_nth x 0 0%Q) by lia. cbn [bind].
  destruct (Qle_bool xd (nth (Z.to_nat 0) x 0%Q)) eqn:E1.
  - rewrite (get_ok_nth y 0 0%Q) by lia. cbn [bind]. eexists; reflexivity.
  - rewrite (get_neg_nth x (-1) 0%Q) by lia. cbn [bind].
    destruct (Qle_bool (nth (Z.to_nat (-1 + len x)) x 0%Q) xd) eqn:E2.
    + rewrite (get_neg_nth y (-1) 0%Q) by lia. cbn [bind]. eexists; reflexivity.
    + rewrite (get_ok_nth x 1 0%Q) by lia. cbn [bind].
      set (x0 := nth (Z.to_nat 0) x 0%Q) in *. set (x1 := nth (Z.to_nat 1) x 0%Q) in *.
      assert (Hdx : (x0 < x1)%Q).
      { apply Hinc; [apply (get_ok_nth x 0 0%Q); lia|apply (get_ok_nth x 1 0%Q); lia]. }
      assert (Hxd : (x0 < xd)%Q) by (apply Qle_bool_false; exact E1).
      assert (Hf : (0 <= (xd - x0) / (x1 - x0))%Q) by (apply Qdiv_pos; lra).
      pose proof (Qtrunc_nonneg _ Hf) as Ht.
      set (fl := Z.min (Qtrunc ((xd - x0) / (x1 - x0))) (len x - 2)) in *.
      assert (Hfl : 0 <= fl <= len x - 2) by (subst fl; lia).
      rewrite (get_ok_nth y fl 0%Q) by lia. cbn [bind].
      rewrite (get_ok_nth y (fl + 1) 0%Q) by lia. cbn [bind].
      eexists; reflexivity.
Qed.

(* at the nodes and between them the value is the linear interpolant (functional part, for exactly equidistant x it is
   the textbook formula; stated for the in-range branch) *)
Lemma linear_interp_edges_lemma xd x y :
  2 <= len x -> len y = len x ->
  (forall a, get x 0 = Ok a -> (xd <= a)%Q) -> linear_interp xd x y = get y 0.
Proof.
  intros Hx Hy Hle. unfold linear_interp.
  rewrite (get_ok_nth x 0 0%Q) by lia. cbn [bind].
  assert (E : Qle_bool xd (nth (Z.to_nat 0) x 0%Q) = true).
  { apply Qle_bool_iff. apply Hle. apply (get_ok_nth x 0 0%Q). lia. }
  rewrite E. rewrite (get_ok_nth y 0 0%Q) by lia. reflexivity.
Qed.
