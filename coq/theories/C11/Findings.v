(* C11/Findings.v — kernel-checked record of memory-safety defects found in the original tree and repaired by `fix:`
   commits (see /verif/known_findings.json).  The cumsum, _tsc_parallel, bin_kppi and thin-grid TSC records live in
   C19/Findings.v, C07/Findings.v, C08/Findings.v and C06/Findings.v. *)
From Coq Require Import ZArith QArith Qround List Bool.
From Abacus.Common Require Import Arr Num.
Import ListNotations.
Local Open Scope Z_scope.
Local Open Scope res_scope.

(* frozen copy of what the translator produced from the original power_spectrum.linear_interp: no clamp on fl *)
Definition linear_interp_orig (xd : Q) (x : (list Q)) (y : (list Q)) : res Q :=
  r1_ <- (get x 0%Z) ;;
  if (Qle_bool xd r1_) then
  r2_ <- (get y 0%Z) ;;
  Ok r2_
  else
  r3_ <- (get x (-1)%Z) ;;
  if (Qle_bool r3_ xd) then
  r4_ <- (get y (-1)%Z) ;;
  Ok r4_
  else
  r5_ <- (get x 1%Z) ;;
  r6_ <- (get x 0%Z) ;;
  let dx := (r5_ - r6_)%Q in
  r7_ <- (get x 0%Z) ;;
  let f := ((xd - r7_)%Q / dx)%Q in
  let fl := (Qtrunc f) in
  r8_ <- (get y fl) ;;
  r9_ <- (get y (fl + 1%Z)%Z) ;;
  r10_ <- (get y fl) ;;
  let yd := (r8_ + ((f - (inject_Z fl))%Q * (r9_ - r10_)%Q)%Q)%Q in
  Ok yd.

(* A grid that is increasing and equidistant up to one part in a million (what a float grid is) and a query point
   strictly inside it: the original reads y[len y].  (With exactly equidistant x the read is in range; floats are not.) *)
Theorem linear_interp_orig_refuted : exists xd x y,
  2 <= len x /\ len y = len x /\
  x = [0; 1; 2 + (1 # 1000000)]%Q /\ (0 < xd)%Q /\ (xd < 2 + (1 # 1000000))%Q /\
  linear_interp_orig xd x y = Oob.
Proof.
  exists (2 + (1 # 2000000))%Q, [0; 1; 2 + (1 # 1000000)]%Q, [0; 0; 0]%Q.
  repeat split; vm_compute; try reflexivity; try discriminate.
Qed.
