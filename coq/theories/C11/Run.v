(* C11/Run.v — executable glue for the correspondence check (no theorem depends on it). *)
From Coq Require Import ZArith QArith List Bool.
From Abacus.Common Require Import Arr Corr.
From Abacus.C11 Require Import Gen.
Import ListNotations.
Local Open Scope Z_scope.

(* exact cases: (xd, x, y) -> value *)
Definition run_interp (c : Q * list Q * list Q) : val :=
  let '(xd, x, y) := c in vres VQ (linear_interp xd x y).

(* outcome class only (for float cases, where the value is compared in the harness): true = Ok *)
Definition run_interp_class (c : Q * list Q * list Q) : val :=
  let '(xd, x, y) := c in vres (fun _ => VB true) (linear_interp xd x y).
