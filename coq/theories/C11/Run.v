(* C11/Run.v — executable glue for the correspondence check (no theorem depends on it). *)
From Coq Require Import ZArith QArith List Bool.
From Abacus.Common Require Import Arr Corr.
From Abacus.C11 Require Import Gen.
Import ListNotations.
Local Open Scope Z_scope.

(* exact cases: (xd, x, y) -> value *)
Definition run_interp (c : Q * list Q * list Q) : val :=
  let '(xd, x, y) := c in vres VQ (linear_interp xd x y).

(* outcome class only (for float cases, where the value is compared in the harness): true = Ok *)
Definition run_interp_class (c : Q * list Q * list Q) : val :=
  let '(xd, x, y) := c in vres (fun _ => VB true) (linear_interp xd x y).

(* mass environment: (batch size, out, masses, neighbour lists, sign) -> out after msum_in_batches *)
From Abacus.C11 Require Import MenvModel.
Definition run_menv (c : Z * list Q * list Q * list (list Z) * Q) : val :=
  let '(bs, out, masses, lists, sign) := c in
  vres vlistQ (msum_in_batches (length out) (Z.to_nat bs) out masses lists sign).

(* the kernel on arbitrary offsets: (out, masses, inds, starts, sign) *)
Definition run_menv_core (c : list Q * list Q * list Z * list Z * Q) : val :=
  let '(out, masses, inds, starts, sign) := c in vres vlistQ (msum_core out masses inds starts sign).

Definition run_menv_concat (lists : list (list Z)) : val :=
  vres (fun r => VL [vlistZ (fst r); vlistZ (snd r)]) (concat_to_arr lists).
