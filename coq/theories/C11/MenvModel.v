(* C11/MenvModel.v — hand-written executable model of the mass-environment kernels of abacusnbody/hod/menv.py
   (concat_to_arr, msum_core, msum_batch, msum_in_batches), in the checked-access monad of Common/Arr.v.

     concat_to_arr(lists)      starts = cumsum([len(l) for l in lists], initial=True, final=True)   (the REGENERATED C19 kernel)
                               inds   = np.fromiter(chain(lists), count=starts[-1])
     msum_core(out, masses, inds, starts, sign)
                               for p in prange(len(starts) - 1):
                                   out[p] += sign * np.sum(masses[inds[starts[p]:starts[p+1]]])
     msum_batch                = msum_core on the result of concat_to_arr
     msum_in_batches           = msum_batch on consecutive blocks of batch_size centres (views of out / rows of the query)

   The KD-tree query is an oracle: `lists` is whatever neighbour lists it returned, one per centre.  Masses are exact
   rationals (np.sum's floating-point order is not modelled).  The iterations of the prange loop are executed in index order;
   iteration p reads starts[p], starts[p+1], a slice of inds, masses, and reads/writes out[p] only.  No proofs here. *)
From Coq Require Import ZArith QArith List.
From Abacus.Common Require Import Arr.
From Abacus.C19 Require Import Spec Gen.
Import ListNotations.
Local Open Scope Z_scope.

Definition qsum (l : list Q) : Q := fold_right Qplus 0%Q l.

(* masses[idx] with a list of indices: every read is checked *)
Fixpoint gather (masses : list Q) (idx : list Z) : res (list Q) :=
  match idx with
  | [] => Ok []
  | i :: t => m <- get masses i ;; r <- gather masses t ;; Ok (m :: r)
  end.

Definition msum_body (masses : list Q) (inds starts : list Z) (sign : Q) (p : Z) (o : list Q) : res (list Q) :=
  j <- get starts p ;;
  k <- get starts (p + 1) ;;
  g <- gather masses (slice inds j k) ;;
  upd o p (fun v => (v + sign * qsum g)%Q).

Definition msum_core (out masses : list Q) (inds starts : list Z) (sign : Q) : res (list Q) :=
  for_range 0 (len starts - 1) (msum_body masses inds starts sign) out.

(* No list at all is rejected: numba cannot type the empty Python list handed to cumsum (ValueError "cannot compute fingerprint
   of empty list").  msum_in_batches never gets there: it makes no batch when there is no centre. *)
Definition concat_to_arr (lists : list (list Z)) : res (list Z * list Z) :=
  match lists with
  | [] => Raise ValueError
  | _ =>
    ' (starts, total) <- cumsum (map len lists) (repeat 0 (S (length lists))) true true 0 ;;
    if total =? len (concat lists) then Ok (concat lists, starts) else Raise ValueError   (* np.fromiter(..., count=total) *)
  end.

Definition msum_batch (out masses : list Q) (lists : list (list Z)) (sign : Q) : res (list Q) :=
  ' (inds, starts) <- concat_to_arr lists ;;
  msum_core out masses inds starts sign.

(* for i in range(0, N, batch_size): msum_batch(out[i:j], ..., lists[i:j]) — the views are written back in place *)
Fixpoint msum_in_batches (fuel bs : nat) (out masses : list Q) (lists : list (list Z)) (sign : Q) : res (list Q) :=
  match fuel with
  | O => match out with [] => Ok [] | _ => Raise OtherError end
  | S f =>
      match out with
      | [] => Ok []
      | _ => r1 <- msum_batch (firstn bs out) masses (firstn bs lists) sign ;;
             r2 <- msum_in_batches f bs (skipn bs out) masses (skipn bs lists) sign ;;
             Ok (r1 ++ r2)
      end
  end.

(* ---- specification: every centre gets sign * (sum of the masses of ITS neighbour list) added, nothing else changes *)
Definition neighbour_mass (masses : list Q) (l : list Z) : Q :=
  qsum (map (fun i => nth (Z.to_nat i) masses 0%Q) l).

Definition msum_spec (out masses : list Q) (lists : list (list Z)) (sign : Q) : list Q :=
  map (fun vl => (fst vl + sign * neighbour_mass masses (snd vl))%Q) (combine out lists).

Definition valid_lists (masses : list Q) (lists : list (list Z)) : Prop :=
  forall l i, In l lists -> In i l -> 0 <= i < len masses.
