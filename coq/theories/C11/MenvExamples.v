(* C11/MenvExamples.v — the hypotheses of the menv theorems are satisfiable, and what lies outside them. *)
From Coq Require Import ZArith QArith List Lia.
From Abacus.Common Require Import Arr.
From Abacus.C19 Require Import Spec Gen.
From Abacus.C11 Require Import MenvModel MenvProofs.
Import ListNotations.
Local Open Scope Z_scope.

Definition ex_masses : list Q := [1; 2; 4; 8; 16]%Q.
Definition ex_lists : list (list Z) := [[0; 1]; []; [4; 2; 0]; [3]; [1; 1]].
Definition ex_out : list Q := [0; 0; 100; 0; 0]%Q.

Example ex_valid : valid_lists ex_masses ex_lists /\ len ex_out = len ex_lists.
Proof.
  split; [|reflexivity]. intros l i Hl Hi. unfold ex_lists in Hl. cbn in Hl.
  repeat (destruct Hl as [<-|Hl]; [cbn in Hi; repeat (destruct Hi as [<-|Hi]; [cbn; lia|]); contradiction|]).
  contradiction.
Qed.

(* three batches of two, two and one centre *)
Example ex_batches : msum_in_batches 5 2 ex_out ex_masses ex_lists 1%Q = Ok (msum_spec ex_out ex_masses ex_lists 1%Q).
Proof. vm_compute. reflexivity. Qed.

Example ex_values : map Qred (msum_spec ex_out ex_masses ex_lists 1%Q) = [3; 0; 121; 8; 4]%Q.
Proof. vm_compute. reflexivity. Qed.

(* outside the hypothesis: an offsets array with room for a full batch, handed to the kernel together with the outputs of a
   SHORTER batch (the loop bound is the length of the offsets): the write to out[len out] is out of range. *)
Example long_offsets_are_out_of_range :
  msum_core [0; 0]%Q ex_masses [0; 1; 4] [0; 2; 3; 3; 3] 1%Q = Oob.
Proof. vm_compute. reflexivity. Qed.

(* outside the hypothesis: a neighbour index beyond the mass array *)
Example foreign_index_is_out_of_range : msum_batch [0]%Q ex_masses [[5]] 1%Q = Oob.
Proof. vm_compute. reflexivity. Qed.
