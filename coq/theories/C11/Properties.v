(* C11/Properties.v — memory safety of the compiled kernels: the `Ok` (never `Oob`) halves of the kernel theorems.

   Every kernel model of this development is written in the checked-access monad of Common/Arr.v (reads and writes
   outside an array evaluate to Oob, with numba's single negative wrap-around), so a theorem `kernel ... = Ok _` under
   the routine's documented precondition states that no access is out of bounds.  This file states those halves in
   one place, as corollaries of the per-property theorems (whose models are regenerated from /repo or tied to it by the
   correspondence runs of their own checks) plus the one kernel modelled here (linear_interp, C11/Gen.v). *)
From Coq Require Import ZArith QArith List.
From Abacus.Common Require Import Arr.
From Abacus.C11 Require Import Gen Interp.
From Abacus.C19 Require Gen Spec Proofs.
From Abacus.C07 Require Gen Model Decide Rows.
From Abacus.C06 Require Properties.
From Abacus.C04 Require Properties.
From Abacus.C15 Require Properties.
From Abacus.C17 Require Properties.
From Abacus.C01 Require Properties.
From Abacus.C08 Require Parts Spec Model Gen Properties.
From Abacus.C09 Require Model TwoPass.
From Abacus.C10 Require Model Proofs Properties.
From Coq Require Permutation.
Import ListNotations.
Local Open Scope Z_scope.

(* interpolation: for every query point, every grid with at least two nodes whose first two nodes increase, and values of
   the same length — no exact equidistance is needed for memory safety (floating-point grids do not have it) *)
Theorem linear_interp_in_bounds : forall xd x y,
  2 <= len x -> len y = len x ->
  (forall a b, get x 0 = Ok a -> get x 1 = Ok b -> (a < b)%Q) ->
  exists v, linear_interp xd x y = Ok v.
Proof. exact linear_interp_in_bounds_lemma. Qed.
Print Assumptions linear_interp_in_bounds.

(* cumulative sum: every length (0 and 1 included), flag pair and offset; a wrong output length raises before any access *)
Theorem cumsum_in_bounds : forall arr out initial final offset,
  C19.Gen.cumsum arr out initial final offset <> Oob.
Proof.
  intros arr out initial final offset.
  destruct (Z.eq_dec (len out) (C19.Spec.expected_len arr initial final)) as [E|E].
  - rewrite (C19.Proofs.cumsum_correct_lemma arr out initial final offset E). discriminate.
  - rewrite (C19.Proofs.cumsum_rejects_lemma arr out initial final offset E). discriminate.
Qed.
Print Assumptions cumsum_in_bounds.

(* parallel TSC: the stripe offsets array is never read out of range, for every stripe count >= 1 *)
Theorem tsc_parallel_starts_in_bounds : forall starts,
  2 <= len starts -> C07.Model.schedule starts <> Oob.
Proof.
  intros starts H. rewrite (C07.Decide.schedule_correct_lemma starts H). discriminate.
Qed.
Print Assumptions tsc_parallel_starts_in_bounds.

(* TSC rows: for positions anywhere in [0, box] (box included) and any sub-cell offset, the three wrapped row indices a
   particle updates lie inside the grid *)
Theorem tsc_rows_in_bounds : forall n D O X,
  6 <= n -> 0 < D -> 0 <= O < D -> 0 <= X <= n * D ->
  forall a, In a (C07.Model.rows n D O X) -> 0 <= a < n.
Proof. exact C07.Rows.rows_in_grid_lemma. Qed.
Print Assumptions tsc_rows_in_bounds.

(* mass assignment (TSC and CIC): all 27 (9) read-modify-writes of every particle, on every grid shape, under the exact
   per-axis index condition that the documented domain satisfies (the C06 theorems domain_admissible_tsc, _tsc_no_offset, _cic) *)
Theorem scatter_in_bounds : forall k box off hw ps G,
  C06.Arr3.wf3 G -> 0 < C06.Arr3.d0 G -> 0 < C06.Arr3.d1 G -> 0 < C06.Arr3.d2 G -> (0 < box)%Q ->
  Forall (C06.Spec.adm k box off (C06.Arr3.d0 G) (C06.Arr3.d1 G) (C06.Arr3.d2 G)) ps ->
  C06.Model.scatter k box off hw ps G <> Oob.
Proof.
  intros k box off hw ps G H1 H2 H3 H4 H5 H6.
  destruct (C06.Properties.indices_in_bounds k box off hw ps G H1 H2 H3 H4 H5 H6) as [G' [E _]].
  rewrite E. discriminate.
Qed.
Print Assumptions scatter_in_bounds.

(* RVint decoder (kernel + wrapper): every output-selection mode, supplied buffers at least as long as the input *)
Theorem unpack_rvint_in_bounds : forall intdata box ps vs,
  C04.KernelProofs.sel_fits (length intdata) ps -> C04.KernelProofs.sel_fits (length intdata) vs ->
  C04.Model.unpack_rvint intdata box ps vs <> Oob.
Proof.
  intros intdata box ps vs H1 H2. rewrite (C04.Properties.unpack_rvint_selection intdata box ps vs H1 H2). discriminate.
Qed.
Print Assumptions unpack_rvint_in_bounds.

(* aux/PID decoder: every subset of the five flags *)
Theorem unpack_pids_in_bounds : forall packed box ppd f,
  (C04.Model.want_lagr_pos f = true -> box <> None /\ ppd <> None) ->
  C04.Model.unpack_pids packed box ppd f <> Oob.
Proof.
  intros packed box ppd f H. rewrite (C04.Properties.unpack_pids_selection packed box ppd f H). discriminate.
Qed.
Print Assumptions unpack_pids_in_bounds.

(* pack9 kernel: the write index never overruns an output that has at least one row per non-header record; empty stream,
   leading particles, consecutive headers included *)
Theorem unpack_pack9_in_bounds : forall box velz data po vo,
  (forall b, po = Some b -> (C15.Proofs.npart9 data <= length b)%nat) ->
  (forall b, vo = Some b -> (C15.Proofs.npart9 data <= length b)%nat) ->
  C15.Model.p9_kernel data box velz po vo <> Oob.
Proof.
  intros box velz data po vo H1 H2. rewrite (C15.Properties.unpack_kernel box velz data po vo H1 H2). discriminate.
Qed.
Print Assumptions unpack_pack9_in_bounds.

(* parallel partition: histogram, prefix sums and the scatter with per-(thread, key) cursors, for every thread count, any
   monotone block boundaries, empty input and more threads than particles included *)
Theorem partition_parallel_in_bounds :
  forall (P W C : Type) (keyf : P -> Z) (cv : P -> C) (argsort : list C -> list nat)
    nthread npartition tstart pos (wts : option (list W)) keys0 psort0 wsort0,
  C17.ProofsTop.preconditions keyf nthread npartition tstart pos wts keys0 psort0 wsort0 ->
  C17.Model.partition_model P W C keyf cv argsort nthread npartition tstart pos wts false keys0 psort0 wsort0 <> Oob.
Proof.
  intros P W C keyf cv argsort nthread npartition tstart pos wts keys0 psort0 wsort0 H.
  rewrite (C17.Properties.partition_is_stable_counting_sort P W C keyf cv argsort nthread npartition tstart pos wts
             keys0 psort0 wsort0 H). discriminate.
Qed.
Print Assumptions partition_parallel_in_bounds.

(* subsample zipper (cumsum of counts, per-file row ranges, per-halo copies of original then merged particles): for every
   well-formed catalog and option set, zero-particle and cleaned-away halos, empty slabs and all-false filters included *)
Theorem zipper_in_bounds :
  forall (P Q : Type) (dec : P -> Q) cleaned passthrough filt load_ab (cat : list (C01.Model.slab P)) garbage,
  C01.Spec.wf_catalog cleaned load_ab cat -> C01.Spec.filt_ok filt -> C01.Spec.ab_ok load_ab ->
  is_ok (C01.Model.load dec cleaned passthrough filt load_ab cat garbage) = true.
Proof. exact C01.Properties.zipper_safe. Qed.
Print Assumptions zipper_in_bounds.

(* Fourier-mode binning: edge arrays, mesh and per-thread accumulators, for every mesh size, strictly increasing edges (mu
   edges from <= 0 to >= 1), wavenumbers beyond the last edge included, every execution order and thread assignment *)
Theorem bin_kmu_in_bounds : forall n E M W T order sched,
  0 < n -> 0 < T -> C08.Spec.incr E -> C08.Spec.incr M -> 2 <= len E -> 2 <= len M ->
  (C08.Spec.qnth M 0 <= 0)%Q -> (1 <= C08.Spec.qlast M)%Q ->
  len W = n * n * (n / 2 + 1) -> C08.Spec.valid_sched T sched -> Permutation.Permutation order (C08.Spec.range n) ->
  C08.Model.bin_kmu C08.Gen.kmu_gen n E M W T order sched <> Oob.
Proof.
  intros n E M W T order sched H1 H2 H3 H4 H5 H6 H7 H8 H9 H10 H11.
  rewrite (C08.Properties.bin_kmu_counts n E M W T order sched H1 H2 H3 H4 H5 H6 H7 H8 H9 H10 H11). discriminate.
Qed.
Print Assumptions bin_kmu_in_bounds.

Theorem bin_kppi_in_bounds : forall n E PI W T order sched,
  0 < n -> 0 < T -> C08.Spec.incr E -> C08.Spec.incr PI -> 2 <= len E -> 2 <= len PI -> (C08.Spec.qnth PI 0 <= 0)%Q ->
  len W = n * n * (n / 2 + 1) -> C08.Spec.valid_sched T sched -> Permutation.Permutation order (C08.Spec.range n) ->
  C08.Model.bin_kppi C08.Gen.kppi_gen n E PI W T order sched <> Oob.
Proof.
  intros n E PI W T order sched H1 H2 H3 H4 H5 H6 H7 H8 H9 H10.
  rewrite (C08.Properties.bin_kppi_counts n E PI W T order sched H1 H2 H3 H4 H5 H6 H7 H8 H9 H10). discriminate.
Qed.
Print Assumptions bin_kppi_in_bounds.

(* ... and the per-thread accumulators of both kernels have a slab for every thread id the loop can produce, whatever
   numba thread count is in force when the kernel is entered (event order regenerated from the source) *)
Theorem binning_accumulators_cover_threads :
  C08.Parts.threads_covered C08.Gen.kmu_tevents /\ C08.Parts.threads_covered C08.Gen.kppi_tevents.
Proof. exact C08.Properties.accumulators_cover_threads. Qed.
Print Assumptions binning_accumulators_cover_threads.

(* HOD two-pass kernels (gen_cent / gen_sats skeleton): keep codes, per-thread counts, prefix sums and the fill pass, for
   every thread count and every monotone block table, empty host table and more threads than hosts included *)
Theorem hod_two_pass_in_bounds : forall (A R : Type) (code : A -> Z) (fill : Z -> A -> R) Nthread hstart hosts,
  C09.TwoPass.good_hstart Nthread hstart (len hosts) ->
  C09.Model.two_pass A R code fill Nthread hstart hosts <> Oob.
Proof.
  intros A R code fill Nthread hstart hosts G.
  destruct (C10.Properties.two_pass_is_filter A R code fill Nthread hstart hosts G) as [tr E].
  rewrite E. discriminate.
Qed.
Print Assumptions hod_two_pass_in_bounds.

(* fast_concatenate: every thread split the regenerated formula can produce *)
Theorem fast_concatenate_in_bounds : forall (E : Type) (a1 a2 : list E) Nthread hstart1 hstart2,
  1 <= Nthread ->
  (2 <= Nthread -> 1 <= len a1 -> 1 <= len a2 -> C10.Proofs.good_tables E a1 a2 Nthread hstart1 hstart2) ->
  C10.Model.fast_concatenate E a1 a2 Nthread hstart1 hstart2 <> Oob.
Proof.
  intros E a1 a2 Nthread h1 h2 H1 H2.
  destruct (C10.Properties.concat_correct E a1 a2 Nthread h1 h2 H1 H2) as [tr [Eq _]].
  rewrite Eq. discriminate.
Qed.
Print Assumptions fast_concatenate_in_bounds.
