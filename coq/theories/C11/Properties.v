(* C11/Properties.v — memory safety of the compiled kernels: the `Ok` (never `Oob`) halves of the kernel theorems.

   Every kernel model of this development is written in the checked-access monad of Common/Arr.v (reads and writes
   outside an array evaluate to Oob, with numba's single negative wrap-around), so a theorem `kernel ... = Ok _` under
   the routine's documented precondition states that no access is out of bounds.  This file states those halves in
   one place, as corollaries of the per-property theorems (whose models are regenerated from /repo or tied to it by the
   correspondence runs of their own checks) plus the one kernel modelled here (linear_interp, C11/Gen.v). *)
From Coq Require Import ZArith QArith List.
From Abacus.Common Require Import Arr.
From Abacus.C11 Require Import Gen Interp.
From Abacus.C19 Require Gen Spec Proofs.
From Abacus.C07 Require Gen Model Decide Rows.
Import ListNotations.
Local Open Scope Z_scope.

(* interpolation: for every query point, every grid with at least two nodes whose first two nodes increase, and values of
   the same length — no exact equidistance is needed for memory safety (floating-point grids do not have it) *)
Theorem linear_interp_in_bounds : forall xd x y,
  2 <= len x -> len y = len x ->
  (forall a b, get x 0 = Ok a -> get x 1 = Ok b -> (a < b)%Q) ->
  exists v, linear_interp xd x y = Ok v.
Proof. exact linear_interp_in_bounds_lemma. Qed.
Print Assumptions linear_interp_in_bounds.

(* cumulative sum: every length (0 and 1 included), flag pair and offset; a wrong output length raises before any access *)
Theorem cumsum_in_bounds : forall arr out initial final offset,
  C19.Gen.cumsum arr out initial final offset <> Oob.
Proof.
  intros arr out initial final offset.
  destruct (Z.eq_dec (len out) (C19.Spec.expected_len arr initial final)) as [E|E].
  - rewrite (C19.Proofs.cumsum_correct_lemma arr out initial final offset E). discriminate.
  - rewrite (C19.Proofs.cumsum_rejects_lemma arr out initial final offset E). discriminate.
Qed.
Print Assumptions cumsum_in_bounds.

(* parallel TSC: the stripe offsets array is never read out of range, for every stripe count >= 1 *)
Theorem tsc_parallel_starts_in_bounds : forall starts,
  2 <= len starts -> C07.Model.schedule starts <> Oob.
Proof.
  intros starts H. rewrite (C07.Decide.schedule_correct_lemma starts H). discriminate.
Qed.
Print Assumptions tsc_parallel_starts_in_bounds.

(* TSC rows: for positions anywhere in [0, box] (box included) and any sub-cell offset, the three wrapped row indices a
   particle updates lie inside the grid *)
Theorem tsc_rows_in_bounds : forall n D O X,
  6 <= n -> 0 < D -> 0 <= O < D -> 0 <= X <= n * D ->
  forall a, In a (C07.Model.rows n D O X) -> 0 <= a < n.
Proof. exact C07.Rows.rows_in_grid_lemma. Qed.
Print Assumptions tsc_rows_in_bounds.
