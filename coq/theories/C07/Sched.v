(* C07/Sched.v — from disjoint rows to "no lost update under any interleaving" and "parallel = serial".

   Values live in any commutative monoid (V, add): exact arithmetic, e.g. Qc.  Floating-point addition is not
   associative, which is exactly the "up to floating-point summation order" of the property statement. *)
From Coq Require Import ZArith List Bool Lia ZifyBool Permutation.
From Abacus.Common Require Import Par.
From Abacus.C07 Require Import Model Rows.
Import ListNotations.
Local Open Scope Z_scope.
Ltac Zify.zify_post_hook ::= Z.to_euclidean_division_equations.

Section Deposit.
Variable V : Type.
Variable add : V -> V -> V.
Hypothesis add_comm : forall a b, add a b = add b a.
Hypothesis add_assoc : forall a b c, add a (add b c) = add (add a b) c.
Variables n np D O M : Z.
Hypothesis HD : 0 < D.
Hypothesis HO : 0 <= O < D.
Hypothesis Hnp : 2 <= np.
Hypothesis Hev : np mod 2 = 0.
Hypothesis H3 : 3 * np <= n.
Hypothesis HM : 0 < M.

(* the increments of a particle: (cell, amount) in program order; each is executed as  Ld cell; St cell (+ amount) *)
Definition incs_of (p : particle V) : list (Z * V) := map (fun d => (cell n D O M p d, snd d)) (deps p).
Definition inc_ops (l : list (Z * V)) : list (op V) :=
  flat_map (fun cw => [Ld (fst cw); St (fst cw) (fun v => add v (snd cw))]) l.
Definition stripe_incs (ps : list (particle V)) : list (Z * V) := flat_map incs_of ps.
Definition stripe_ops (ps : list (particle V)) : list (op V) := inc_ops (stripe_incs ps).

Definition ws_at (x : Z) (l : list (Z * V)) : list V := map snd (filter (fun cw => fst cw =? x) l).

Definition in_domain (p : particle V) : Prop := well_formed M p /\ 0 <= px p <= n * D.

(* ---- sequential meaning of increment lists ---------------------------------------------------- *)

Lemma exec_inc_ops l : forall m tmp x,
  fst (exec_ops V (inc_ops l) (m, tmp)) x = fold_left add (ws_at x l) (m x).
Proof.
  induction l as [|[c w] l IH]; intros m tmp x; [reflexivity|].
  change (inc_ops ((c, w) :: l)) with ([Ld c; St c (fun v => add v w)] ++ inc_ops l).
  rewrite exec_ops_app.
  change (exec_ops V [Ld c; St c (fun v => add v w)] (m, tmp)) with (supd V m c (add (m c) w), m c).
  rewrite IH. unfold ws_at. cbn [filter fst]. unfold supd.
  destruct (c =? x) eqn:E.
  - apply Z.eqb_eq in E; subst c. rewrite Z.eqb_refl. reflexivity.
  - rewrite Z.eqb_sym, E. reflexivity.
Qed.

Lemma ws_at_app x a b : ws_at x (a ++ b) = ws_at x a ++ ws_at x b.
Proof. unfold ws_at. rewrite filter_app, map_app. reflexivity. Qed.

Lemma seq_from_incs (ls : list (list (Z * V))) : forall m d x,
  seq_from V d (map inc_ops ls) m x = fold_left add (ws_at x (concat ls)) (m x).
Proof.
  induction ls as [|l ls IH]; intros m d x; [reflexivity|].
  cbn [map concat].
  change (seq_from V d (inc_ops l :: map inc_ops ls) m)
    with (seq_from V d (map inc_ops ls) (fst (exec_ops V (inc_ops l) (m, d)))).
  rewrite IH. rewrite exec_inc_ops. rewrite ws_at_app, fold_left_app. reflexivity.
Qed.

Lemma fold_add_perm (l l' : list V) : Permutation l l' -> forall a, fold_left add l a = fold_left add l' a.
Proof.
  induction 1 as [|x l l' _ IH|x y l|l l' l'' _ IH1 _ IH2]; intros a; cbn [fold_left].
  - reflexivity.
  - apply IH.
  - f_equal. rewrite <- !add_assoc. f_equal. apply add_comm.
  - rewrite IH1. apply IH2.
Qed.

Lemma ws_at_perm x l l' : Permutation l l' -> Permutation (ws_at x l) (ws_at x l').
Proof.
  intros H. unfold ws_at. apply Permutation_map.
  induction H as [|a l l' _ IH|a b l|l l' l'' _ IH1 _ IH2]; cbn [filter].
  - constructor.
  - destruct (fst a =? x); [constructor|]; exact IH.
  - destruct (fst a =? x), (fst b =? x); try apply Permutation_refl. constructor.
  - eapply Permutation_trans; eassumption.
Qed.

Lemma stripe_incs_perm ps ps' : Permutation ps ps' -> Permutation (stripe_incs ps) (stripe_incs ps').
Proof.
  unfold stripe_incs. induction 1 as [|a l l' _ IH|a b l|l l' l'' _ IH1 _ IH2]; cbn [flat_map].
  - constructor.
  - apply Permutation_app_head. exact IH.
  - rewrite !app_assoc. apply Permutation_app_tail. apply Permutation_app_comm.
  - eapply Permutation_trans; eassumption.
Qed.

(* ---- footprints ------------------------------------------------------------------------------ *)

Lemma locs_inc_ops l x : In x (locs (inc_ops l)) -> exists w, In (x, w) l.
Proof.
  induction l as [|[c w] l IH]; cbn; [tauto|]. intros [H|[H|H]].
  - exists w. left. subst. reflexivity.
  - exists w. left. subst. reflexivity.
  - destruct (IH H) as [w' Hw]. exists w'. right. exact Hw.
Qed.

(* every cell of a particle lies in one of its three rows *)
Lemma cell_row p x w :
  in_domain p -> In (x, w) (incs_of p) -> In (x / M) (rows n D O (px p)).
Proof.
  intros [Hwf Hpx] Hin. unfold incs_of in Hin. apply in_map_iff in Hin.
  destruct Hin as [[[delta c] w'] [Heq Hd]]. cbn [cell snd] in Heq. injection Heq as Hx Hw.
  destruct (Hwf delta c w' Hd) as [Hdel Hc].
  assert (Hn6 : 6 <= n) by lia.
  pose proof (round_range n D O (px p) _ HD HO Hpx (rhe_is_round D (px p + O) HD)) as Hr.
  destruct (wrap_index_cases n (rhe D (px p + O) + delta) Hn6 ltac:(lia)) as [Hw0 _].
  assert (Hdiv : x / M = wrap_index n (rhe D (px p + O) + delta)).
  { subst x. rewrite Z.div_add_l by lia. rewrite Z.div_small by lia. lia. }
  rewrite Hdiv. unfold rows. cbn [In].
  assert (delta = -1 \/ delta = 0 \/ delta = 1) as [-> | [-> | ->]] by lia.
  - left. f_equal.
  - right. left. f_equal. lia.
  - right. right. left. reflexivity.
Qed.

Lemma stripe_loc_row ps x :
  (forall p, In p ps -> in_domain p) -> In x (locs (stripe_ops ps)) ->
  exists p, In p ps /\ In (x / M) (rows n D O (px p)).
Proof.
  intros Hdom Hin. apply locs_inc_ops in Hin. destruct Hin as [w Hw].
  unfold stripe_incs in Hw. apply in_flat_map in Hw. destruct Hw as [p [Hp Hpw]].
  exists p. split; [exact Hp|]. apply (cell_row p x w (Hdom p Hp) Hpw).
Qed.

(* a phase: its stripes all have keys of one parity, different stripes have different keys *)
Definition phase_ok (stripes : list (list (particle V))) : Prop :=
  (forall ps p, In ps stripes -> In p ps -> in_domain p) /\
  (forall i j p q, i <> j -> In p (nth i stripes []) -> In q (nth j stripes []) ->
     key n np D (px p) <> key n np D (px q) /\ (key n np D (px p) - key n np D (px q)) mod 2 = 0).

Lemma in_nth_stripes (stripes : list (list (particle V))) i p :
  In p (nth i stripes []) -> In (nth i stripes []) stripes.
Proof.
  intros Hp. destruct (Nat.lt_ge_cases i (length stripes)) as [Hlt|Hge].
  - apply nth_In. exact Hlt.
  - rewrite nth_overflow in Hp by exact Hge. destruct Hp.
Qed.

Lemma phase_footprints_disjoint stripes :
  phase_ok stripes -> disjoint_footprints (map stripe_ops stripes).
Proof.
  intros [Hdom Hkeys] i j x Hij Hi Hj.
  assert (Hnth : forall k, nth k (map stripe_ops stripes) [] = stripe_ops (nth k stripes [])).
  { intros k. change (@nil (op V)) with (stripe_ops []). apply map_nth. }
  rewrite Hnth in Hi, Hj.
  assert (Hdi : forall p, In p (nth i stripes []) -> in_domain p).
  { intros p Hp. apply (Hdom (nth i stripes [])); [apply (in_nth_stripes _ _ p Hp)|exact Hp]. }
  assert (Hdj : forall p, In p (nth j stripes []) -> in_domain p).
  { intros p Hp. apply (Hdom (nth j stripes [])); [apply (in_nth_stripes _ _ p Hp)|exact Hp]. }
  destruct (stripe_loc_row _ x Hdi Hi) as [p [Hp Hrp]].
  destruct (stripe_loc_row _ x Hdj Hj) as [q [Hq Hrq]].
  destruct (Hkeys i j p q Hij Hp Hq) as [Hne Hpar].
  destruct (Hdi p Hp) as [_ Hpp]. destruct (Hdj q Hq) as [_ Hpq].
  exact (concurrent_rows_disjoint_lemma n np D O (px p) (px q) HD HO Hnp Hev H3 Hpp Hpq Hne Hpar
           (x / M) (x / M) Hrp Hrq eq_refl).
Qed.

Definition complete (threads : list (list (op V))) (sch : list nat) : Prop :=
  forall t, (t < length threads)%nat -> (length (nth t threads []) <= count_occ Nat.eq_dec sch t)%nat.

(* no deposit is lost or doubled: every interleaving of a phase's threads yields the sequential result *)
Lemma phase_any_schedule stripes m0 d sch :
  phase_ok stripes -> complete (map stripe_ops stripes) sch ->
  forall x, fst (run sch (init (map stripe_ops stripes) m0 d)) x
            = fold_left add (ws_at x (stripe_incs (concat stripes))) (m0 x).
Proof.
  intros Hok Hc x.
  rewrite (drf_any_schedule (map stripe_ops stripes) m0 d sch (phase_footprints_disjoint stripes Hok) Hc).
  unfold seq_run. unfold stripe_ops. rewrite <- map_map. rewrite seq_from_incs.
  f_equal. f_equal. unfold stripe_incs. clear. induction stripes as [|s ss IH]; [reflexivity|].
  cbn [map concat]. rewrite flat_map_app. rewrite IH. reflexivity.
Qed.

(* both phases, arbitrary interleavings in each: the grid equals the single-threaded deposit of the same particles
   taken in ANY order *)
Lemma parallel_equals_serial_lemma even_stripes odd_stripes (ps : list (particle V)) m0 d sch0 sch1 :
  phase_ok even_stripes -> phase_ok odd_stripes ->
  Permutation (concat even_stripes ++ concat odd_stripes) ps ->
  complete (map stripe_ops even_stripes) sch0 -> complete (map stripe_ops odd_stripes) sch1 ->
  let m1 := fst (run sch0 (init (map stripe_ops even_stripes) m0 d)) in
  let m2 := fst (run sch1 (init (map stripe_ops odd_stripes) m1 d)) in
  forall x, m2 x = fst (exec_ops V (stripe_ops ps) (m0, d)) x.
Proof.
  intros Hok0 Hok1 Hperm Hc0 Hc1 m1 m2 x. subst m2.
  rewrite (phase_any_schedule odd_stripes m1 d sch1 Hok1 Hc1 x). subst m1.
  rewrite (phase_any_schedule even_stripes m0 d sch0 Hok0 Hc0 x).
  rewrite <- fold_left_app, <- ws_at_app.
  unfold stripe_ops. rewrite exec_inc_ops.
  apply fold_add_perm. apply ws_at_perm.
  unfold stripe_incs at 1 2. rewrite <- flat_map_app. apply stripe_incs_perm. exact Hperm.
Qed.

End Deposit.
