(* C07/Run.v — executable glue for the correspondence check (no theorem depends on it). *)
From Coq Require Import ZArith List Bool.
From Abacus.Common Require Import Arr Corr.
From Abacus.C07 Require Import Gen Model.
Import ListNotations.
Local Open Scope Z_scope.

(* decision: (n1d, nthread, npartition-or-0) -> accepted stripe count | ValueError *)
Definition run_decide (c : Z * Z * Z) : val :=
  let '(n, t, np0) := c in vres VZ (tsc_decide n t np0).

(* a whole row of the decision table: n1d and nthread fixed, npartition = 0 .. n1d+2 ; -1 encodes ValueError *)
Definition decide_code (n t np0 : Z) : Z :=
  match tsc_decide n t np0 with Ok np => np | _ => -1 end.
Definition run_decide_row (c : Z * Z) : val :=
  let '(n, t) := c in vlistZ (map (decide_code n t) (zrange (n + 3))).

(* geometry: (n, np, D, O, X) -> [key; row(ix-1); row(ix); row(ix+1)] *)
Definition run_geom (c : Z * Z * Z * Z * Z) : val :=
  let '(n, np, D, Off, X) := c in vlistZ (key n np D X :: rows n D Off X).

Definition run_schedule (starts : list Z) : val :=
  vres (fun '(s0, s1) => VL [VL (map (fun '(a, b) => vlistZ [a; b]) s0); VL (map (fun '(a, b) => vlistZ [a; b]) s1)])
       (schedule starts).

(* (n, np, D, X) -> stripe of an unwrapped position *)
Definition run_key_unwrapped (c : Z * Z * Z * Z) : val :=
  let '(n, np, D, X) := c in VZ (key_unwrapped n np D X).
