(* C07/Properties.v — the property theorems.  tsc_decide and phase0_..., phase1_... are GENERATED from
   abacusnbody/analysis/tsc.py on every run (C07/Gen.v); key / rhe / wrap_index / rows are the hand-written geometry of
   C07/Model.v, tied to partition_parallel and _tsc_scatter by the correspondence run. *)
From Coq Require Import ZArith List Permutation.
From Abacus.Common Require Import Arr Par.
From Abacus.C07 Require Import Gen Model Decide Rows Sched.
Import ListNotations.
Local Open Scope Z_scope.

(* Every accepted configuration (default or explicit) is safe: one thread, at most two stripes (one per phase), or an
   even number of stripes each at least 3 cells wide. *)
Theorem accepted_safe : forall n nthread np0 np,
  0 <= n -> tsc_decide n nthread np0 = Ok np -> safe n nthread np.
Proof. exact accepted_safe_lemma. Qed.
Print Assumptions accepted_safe.

(* The default choice (npartition = None / 0) is never rejected and is safe, for every grid size and thread count. *)
Theorem default_accepted_safe : forall n nthread,
  0 <= n -> 1 <= nthread -> exists np, tsc_decide n nthread 0 = Ok np /\ safe n nthread np /\ 0 <= np.
Proof. exact default_accepted_lemma. Qed.
Print Assumptions default_accepted_safe.

(* With more than one thread an explicit stripe count is accepted unchanged exactly when it is safe; every other count
   raises ValueError. *)
Theorem explicit_accepted_iff_safe : forall n nthread np0,
  0 <= n -> 1 < nthread -> 1 <= np0 ->
  (tsc_decide n nthread np0 = Ok np0 <-> safe n nthread np0) /\
  (~ safe n nthread np0 -> tsc_decide n nthread np0 = Raise ValueError).
Proof. exact explicit_accepted_iff_lemma. Qed.
Print Assumptions explicit_accepted_iff_safe.

(* Geometry: under the safe condition, two particles in different stripes of equal parity never touch the same grid row
   — for every grid size, denominator, sub-cell offset, positions anywhere in [0, box] (box included), and including the
   periodic wrap between the first and last stripes and round-half-even ties. *)
Theorem concurrent_rows_disjoint : forall n np D O X1 X2,
  0 < D -> 0 <= O < D -> 2 <= np -> np mod 2 = 0 -> 3 * np <= n ->
  0 <= X1 <= n * D -> 0 <= X2 <= n * D ->
  key n np D X1 <> key n np D X2 -> (key n np D X1 - key n np D X2) mod 2 = 0 ->
  forall a b, In a (rows n D O X1) -> In b (rows n D O X2) -> a <> b.
Proof. exact concurrent_rows_disjoint_lemma. Qed.
Print Assumptions concurrent_rows_disjoint.

Theorem rows_in_grid : forall n D O X,
  6 <= n -> 0 < D -> 0 <= O < D -> 0 <= X <= n * D -> forall a, In a (rows n D O X) -> 0 <= a < n.
Proof. exact rows_in_grid_lemma. Qed.
Print Assumptions rows_in_grid.

(* No lost or doubled update: for every interleaving (schedule) of the micro-operations load / store of the threads of one
   phase, each cell ends with its initial value plus all increments addressed to it. *)
Theorem no_lost_update : forall (V : Type) (add : V -> V -> V),
  (forall a b, add a b = add b a) -> (forall a b c, add a (add b c) = add (add a b) c) ->
  forall n np D O M,
  0 < D -> 0 <= O < D -> 2 <= np -> np mod 2 = 0 -> 3 * np <= n -> 0 < M ->
  forall stripes m0 d sch,
  phase_ok V n np D M stripes -> complete V (map (stripe_ops V add n D O M) stripes) sch ->
  forall x, fst (run sch (init (map (stripe_ops V add n D O M) stripes) m0 d)) x
            = fold_left add (ws_at V x (stripe_incs V n D O M (concat stripes))) (m0 x).
Proof. intros V add Hc Ha n np D O M HD HO Hnp Hev H3 HM. exact (phase_any_schedule V add Hc Ha n np D O M HD HO Hnp Hev H3 HM). Qed.
Print Assumptions no_lost_update.

(* Parallel = serial: after the even phase and the odd phase, each under an arbitrary interleaving, the grid equals the
   single-threaded deposit of the same particles in any order (exact arithmetic: add commutative and associative). *)
Theorem parallel_equals_serial : forall (V : Type) (add : V -> V -> V),
  (forall a b, add a b = add b a) -> (forall a b c, add a (add b c) = add (add a b) c) ->
  forall n np D O M,
  0 < D -> 0 <= O < D -> 2 <= np -> np mod 2 = 0 -> 3 * np <= n -> 0 < M ->
  forall even_stripes odd_stripes ps m0 d sch0 sch1,
  phase_ok V n np D M even_stripes -> phase_ok V n np D M odd_stripes ->
  Permutation (concat even_stripes ++ concat odd_stripes) ps ->
  complete V (map (stripe_ops V add n D O M) even_stripes) sch0 ->
  complete V (map (stripe_ops V add n D O M) odd_stripes) sch1 ->
  let m1 := fst (run sch0 (init (map (stripe_ops V add n D O M) even_stripes) m0 d)) in
  let m2 := fst (run sch1 (init (map (stripe_ops V add n D O M) odd_stripes) m1 d)) in
  forall x, m2 x = fst (exec_ops V (stripe_ops V add n D O M ps) (m0, d)) x.
Proof.
  intros V add Hc Ha n np D O M HD HO Hnp Hev H3 HM.
  exact (parallel_equals_serial_lemma V add Hc Ha n np D O M HD HO Hnp Hev H3 HM).
Qed.
Print Assumptions parallel_equals_serial.

(* The stripe schedule: for every stripe count >= 1 (odd counts included) each stripe is handed to exactly one
   _tsc_scatter call — even-numbered stripes in the first phase, odd-numbered in the second — and no read of the
   offsets array is out of range (the result is Ok). *)
Theorem schedule_correct : forall starts,
  2 <= len starts ->
  let np := len starts - 1 in
  schedule starts = Ok (map (fun i => stripe starts (2 * i)) (zrange ((np + 1) / 2)),
                        map (fun i => stripe starts (2 * i + 1)) (zrange (np / 2))).
Proof. exact schedule_correct_lemma. Qed.
Print Assumptions schedule_correct.

Theorem stripes_cover : forall np k,
  1 <= np -> 0 <= k < np ->
  (k mod 2 = 0 -> In k (map (fun i => 2 * i) (zrange ((np + 1) / 2)))) /\
  (k mod 2 = 1 -> In k (map (fun i => 2 * i + 1) (zrange (np / 2)))).
Proof. exact stripes_cover_lemma. Qed.
Print Assumptions stripes_cover.

(* weights are sliced with the same offsets as the particles *)
Theorem weights_follow_particles : forall i,
  phase0_wlo i = phase0_plo i /\ phase0_whi i = phase0_phi i /\
  phase1_wlo i = phase1_plo i /\ phase1_whi i = phase1_phi i.
Proof. exact weights_follow_particles_lemma. Qed.
Print Assumptions weights_follow_particles.

(* Tie of the hand-written geometry to the generated kernel text: for every in-domain particle (position X/D cells, offset
   O/D cells, any cell size h) the rows of C07/Model.v are exactly the rows that the index computations regenerated from
   _tsc_scatter (C06/Gen.v: round, _rightwrap, the -1/+1 neighbours, numba's negative-index wrap) address — along each of the
   three axes, so whichever `coord` is used for the partition. *)
From Coq Require Import QArith.
From Abacus.C06 Require Kernel1D.
From Abacus.C07 Require TieC06.
Theorem rows_agree_with_generated_kernel : forall n D O X (h : Q),
  (6 <= n)%Z -> (0 < D)%Z -> (0 <= O < D)%Z -> (0 <= X <= n * D)%Z -> (0 < h)%Q ->
  let pos := ((X # Z.to_pos D) * h)%Q in let off := ((O # Z.to_pos D) * h)%Q in let box := (inject_Z n * h)%Q in
  C06.Kernel1D.rows_touched n (C06.Kernel1D.tsc_axis_x pos off box n) = map Some (rows n D O X) /\
  C06.Kernel1D.rows_touched n (C06.Kernel1D.tsc_axis_y pos off box n) = map Some (rows n D O X) /\
  C06.Kernel1D.rows_touched n (C06.Kernel1D.tsc_axis_z pos off box n) = map Some (rows n D O X).
Proof.
  intros n D O X h Hn HD HO HX Hh. cbv zeta. split; [|split].
  - exact (TieC06.rows_agree_x n D O X h Hn HD HO HX Hh).
  - exact (TieC06.rows_agree_y n D O X h Hn HD HO HX Hh).
  - exact (TieC06.rows_agree_z n D O X h Hn HD HO HX Hh).
Qed.
Print Assumptions rows_agree_with_generated_kernel.
