(* C07/Decide.v -- proofs about the GENERATED decision block (tsc_decide) and stripe schedule (phase0_..., phase1_...) of C07/Gen.v. *)
From Coq Require Import ZArith List Bool Lia ZifyBool.
From Abacus.Common Require Import Arr.
From Abacus.C07 Require Import Gen Model.
Import ListNotations.
Local Open Scope Z_scope.
Ltac Zify.zify_post_hook ::= Z.to_euclidean_division_equations.


Lemma Ok_inj {A} (a b : A) : Ok a = Ok b -> a = b.
Proof. intros H; injection H; auto. Qed.

Ltac split_ifs :=
  repeat match goal with
         | H : context [if ?c then _ else _] |- _ => destruct c eqn:?; cbn [bind] in H
         end.

Lemma accepted_safe_lemma n nthread np0 np :
  0 <= n -> tsc_decide n nthread np0 = Ok np -> safe n nthread np.
Proof.
  intros Hn H. unfold tsc_decide in H. unfold safe.
  destruct (negb (negb (np0 =? 0))) eqn:E0; cbn [bind] in H.
  - destruct (1 <? nthread) eqn:E1; cbn [bind] in H; split_ifs; try discriminate;
      apply Ok_inj in H; subst np; lia.
  - split_ifs; try discriminate; apply Ok_inj in H; subst np; lia.
Qed.

Lemma default_accepted_lemma n nthread :
  0 <= n -> 1 <= nthread -> exists np, tsc_decide n nthread 0 = Ok np /\ safe n nthread np /\ 0 <= np.
Proof.
  intros Hn Ht. unfold tsc_decide. cbn [Z.eqb negb bind].
  destruct (1 <? nthread) eqn:E1; cbn [bind].
  - set (np := 2 * (Z.min (n / 3) (2 * nthread) / 2)).
    assert (H1 : (andb (andb (n / 3 <? np) (2 <? np)) true) = false) by (subst np; lia).
    assert (H2 : (andb (andb (1 <? np) (negb (np mod 2 =? 0))) true) = false) by (subst np; lia).
    rewrite H1, H2. exists np. split; [reflexivity|]. split; [|subst np; lia].
    unfold safe. right. right. subst np. lia.
  - assert (H1 : (andb (andb (n / 3 <? 1) (2 <? 1)) false) = false) by lia.
    rewrite H1. cbn. exists 1. split; [reflexivity|]. split; [unfold safe; lia|lia].
Qed.

(* an explicit choice is accepted exactly when it is safe (for more than one thread) *)
Lemma explicit_accepted_iff_lemma n nthread np0 :
  0 <= n -> 1 < nthread -> 1 <= np0 ->
  (tsc_decide n nthread np0 = Ok np0 <-> safe n nthread np0) /\
  (~ safe n nthread np0 -> tsc_decide n nthread np0 = Raise ValueError).
Proof.
  intros Hn Ht Hp. unfold tsc_decide, safe.
  assert (E0 : negb (negb (np0 =? 0)) = false) by lia. rewrite E0. cbn [bind].
  destruct (andb (andb (n / 3 <? np0) (2 <? np0)) (1 <? nthread)) eqn:E1.
  - split; [split; [discriminate|lia]|reflexivity].
  - destruct (andb (andb (1 <? np0) (negb (np0 mod 2 =? 0))) (1 <? nthread)) eqn:E2.
    + split; [split; [discriminate|lia]|reflexivity].
    + split; [split; [lia|reflexivity]|lia].
Qed.

(* with one thread nothing is rejected and the stripe count is taken as given *)
Lemma single_thread_lemma n np0 : 0 <= n -> 1 <= np0 -> tsc_decide n 1 np0 = Ok np0.
Proof.
  intros Hn Hp. unfold tsc_decide.
  assert (E0 : negb (negb (np0 =? 0)) = false) by lia. rewrite E0. cbn [bind].
  assert (E1 : andb (andb (n / 3 <? np0) (2 <? np0)) (1 <? 1) = false) by lia.
  assert (E2 : andb (andb (1 <? np0) (negb (np0 mod 2 =? 0))) (1 <? 1) = false) by lia.
  rewrite E1, E2. reflexivity.
Qed.

(* ---- the stripe schedule of _tsc_parallel ---------------------------------------------------- *)



Lemma zrange_succ n : 0 <= n -> zrange (n + 1) = zrange n ++ [n].
Proof.
  intros H. unfold zrange. replace (Z.to_nat (n + 1)) with (S (Z.to_nat n)) by lia.
  rewrite seq_S, map_app. cbn. rewrite Z2Nat.id by lia. reflexivity.
Qed.

Lemma phase_slices_ok bound lo hi starts :
  0 <= bound ->
  (forall i, 0 <= i < bound -> 0 <= lo i /\ hi i = lo i + 1 /\ hi i < len starts) ->
  phase_slices bound true lo hi starts = Ok (map (fun i => stripe starts (lo i)) (zrange bound)).
Proof.
  intros Hb Hr. unfold phase_slices.
  destruct (for_range_inv (fun i acc => acc = map (fun i => stripe starts (lo i)) (zrange i)) 0 bound
              (fun i acc => a <- get starts (lo i) ;; b <- get starts (hi i) ;; Ok (acc ++ [(a, b)])) [])
    as [acc [E P]]; [lia|reflexivity| |rewrite E, P; reflexivity].
  intros i acc Hi Hacc. destruct (Hr i Hi) as [H1 [H2 H3]].
  rewrite (get_ok_nth starts (lo i) 0) by lia. cbn [bind].
  rewrite (get_ok_nth starts (hi i) 0) by lia. cbn [bind].
  eexists; split; [reflexivity|]. rewrite zrange_succ by lia. rewrite map_app. cbn [map].
  rewrite Hacc. unfold stripe. rewrite H2. reflexivity.
Qed.

(* every stripe is handed to exactly one call: the even-numbered ones in phase 0, the odd-numbered ones in phase 1,
   and no read of `starts` is out of range — for EVERY stripe count np >= 1 (odd ones included: one thread) *)
Lemma schedule_correct_lemma starts :
  2 <= len starts ->
  let np := len starts - 1 in
  schedule starts = Ok (map (fun i => stripe starts (2 * i)) (zrange ((np + 1) / 2)),
                        map (fun i => stripe starts (2 * i + 1)) (zrange (np / 2))).
Proof.
  intros Hl np. unfold schedule. fold np.
  unfold phase0_bound, phase0_guard, phase1_bound, phase1_guard.
  rewrite phase_slices_ok.
  - cbn [bind]. destruct (1 <? np) eqn:E.
    + rewrite phase_slices_ok.
      * cbn [bind]. reflexivity.
      * lia.
      * intros i Hi. unfold phase1_plo, phase1_phi. subst np. lia.
    + unfold phase_slices. cbn [bind]. assert (np = 1) by (subst np; lia).
      replace (np / 2) with 0 by lia. reflexivity.
  - subst np; lia.
  - intros i Hi. unfold phase0_plo, phase0_phi. subst np. lia.
Qed.

Lemma weights_follow_particles_lemma i :
  phase0_wlo i = phase0_plo i /\ phase0_whi i = phase0_phi i /\
  phase1_wlo i = phase1_plo i /\ phase1_whi i = phase1_phi i.
Proof. repeat split; reflexivity. Qed.

(* the stripe numbers of the two phases together are a permutation of 0 .. np-1 *)
Lemma stripes_cover_lemma np k :
  1 <= np -> 0 <= k < np ->
  (k mod 2 = 0 -> In k (map (fun i => 2 * i) (zrange ((np + 1) / 2)))) /\
  (k mod 2 = 1 -> In k (map (fun i => 2 * i + 1) (zrange (np / 2)))).
Proof.
  intros Hnp Hk. split; intros Hpar; apply in_map_iff; exists (k / 2); (split; [lia|]);
    unfold zrange; apply in_map_iff; exists (Z.to_nat (k / 2)); (split; [lia|]); apply in_seq; lia.
Qed.
